/-
C18 (core half) — the segmented wheel sieve of the bundled primesieve.  Only property theorems, non-vacuity examples
and the axiom audit live here.  Model: `PcModel/PsCore.lean`; tables GENERATED from lib/primesieve
(`PcGen/PsWheelData.lean`, `PsPreSieveData.lean`) and tied to closed formulas by `PcGen/PsWheelObl.lean`, `PsPreSieveObl.lean`.
-/
import PcProofs.PsCoreWheel

namespace Pc.C18Core
open Pc.PsCore Pc.PsWheelSpec

/-- **Wheel step, modulo 30** (EratSmall and EratMedium).  `q = 30P + ρ_g` is the sieving prime, `q·u` with
    `u = 30U + w_j` its current multiple, `(bit, k, c, next)` the `case 8g+j` line.  Then: the multiple is the number of bit
    `bit` of byte `byteP1(q·u) − 1`; `q·(u+k)` is the NEXT multiple whose cofactor is coprime to 30; its byte is
    `P·k + c` further; `next` is the case of wheel position `j+1` of the same residue class. -/
theorem wheel_step_correct_30 (g j P U : ℕ) (hg : g < 8) (hj : j < 8) :
    StepFacts 30 8 g j P U (Gen.psSmallTab.getD (8 * g + j) (0, 0, 0, 0)) := wheel30_step g j P U hg hj

/-- EratMedium's eight `crossOff_<r>` functions are driven by the same 64 entries as EratSmall's `switch`. -/
theorem wheel_tables_agree : Gen.psMediumTab = Gen.psSmallTab := Gen.psMediumTab_eq

/-- **Wheel step, modulo 210** (`wheel210` of EratBig): same statement with `u = 210U + w_j`, 48 positions. -/
theorem wheel_step_correct_210 (g j P U : ℕ) (hg : g < 8) (hj : j < 48) :
    StepFacts 210 48 g j P U (Gen.psWheel210.getD (48 * g + j) (0, 0, 0, 0)) := wheel210_step g j P U hg hj

/-! non-vacuity (tests, labelled as such) -/
example : Gen.psSmallTab.getD (8 * 1 + 3) (0, 0, 0, 0) = (5, 4, 2, 12) := by decide
example : Gen.psWheel210.getD (48 * 7 + 47) (0, 0, 0, 0) = (6, 2, 0, 336) := by decide

end Pc.C18Core

#print axioms Pc.C18Core.wheel_step_correct_30
#print axioms Pc.C18Core.wheel_tables_agree
#print axioms Pc.C18Core.wheel_step_correct_210
