/-
C18 (core half) — the segmented wheel sieve of the bundled primesieve.  Only property theorems, non-vacuity examples
and the axiom audit live here.  Model: `PcModel/PsCore.lean` (bit-exact L2 of Erat / Wheel / EratSmall / EratMedium /
EratBig / PreSieve / SievingPrimes / extraction / counting); tables GENERATED from lib/primesieve
(`PcGen/PsWheelData.lean`, `PsPreSieveData.lean`) and tied to closed formulas by the generated obligations
`PcGen/PsWheelObl.lean`, `PsPreSieveObl.lean`.

Vocabulary (PcProofs/PsCoreCross.lean): `numOf L p` = the number of global bit `p` of a segment with `segmentLow_ = L`;
`Pos M size P q Lb m idx u` = "the stored state `(multipleIndex, wheelIndex) = (m, idx)` of the sieving prime
`q = 30P + ρ_g` relative to a block starting at `Lb` denotes the pending multiple `q·u`" (`u ≡ w_j mod M`, `idx = size·g + j`,
byte of `q·u` = `m`); `Hit M q L u u' p` = "bit `p` is a multiple `q·t` with `u ≤ t < u'`, `t` coprime to `M`".
-/
import PcProofs.PsCoreExtract
import PcProofs.PsCoreMedium
import PcProofs.PsCoreCount

namespace Pc.C18Core
open Pc.PsCore Pc.PsWheelSpec
open Pc.Sieve (Bytes bitAt)

/-- **Wheel step, modulo 30** (EratSmall and EratMedium).  `q = 30P + ρ_g` is the sieving prime, `q·u` with
    `u = 30U + w_j` its current multiple, `(bit, k, c, next)` the `case 8g+j` line.  Then: the multiple is the number of bit
    `bit` of byte `byteP1(q·u) − 1`; `q·(u+k)` is the NEXT multiple whose cofactor is coprime to 30; its byte is
    `P·k + c` further; `next` is the case of wheel position `j+1` of the same residue class. -/
theorem wheel_step_correct_30 (g j P U : ℕ) (hg : g < 8) (hj : j < 8) :
    StepFacts 30 8 g j P U (Gen.psSmallTab.getD (8 * g + j) (0, 0, 0, 0)) := wheel30_step g j P U hg hj

/-- EratMedium's eight `crossOff_<r>` functions are driven by the same 64 entries as EratSmall's `switch`. -/
theorem wheel_tables_agree : Gen.psMediumTab = Gen.psSmallTab := Gen.psMediumTab_eq

/-- **Wheel step, modulo 210** (`wheel210` of EratBig): same statement with `u = 210U + w_j`, 48 positions. -/
theorem wheel_step_correct_210 (g j P U : ℕ) (hg : g < 8) (hj : j < 48) :
    StepFacts 210 48 g j P U (Gen.psWheel210.getD (48 * g + j) (0, 0, 0, 0)) := wheel210_step g j P U hg hj

/-- **`Wheel30_t::addSievingPrime`** (EratSmall / EratMedium): for a sieving number `q` coprime to 30, `7 ≤ q < 2^32`, and a
    segment low `L` (`30 ∣ L`, `L + 6 + q < 2^64`): with `quot = max(q, ⌊(L+6)/q⌋ + 1)` (first cofactor giving a multiple
    `≥ q²` and `> L + 6`) and `u0` the first cofactor `≥ quot` coprime to 30, the prime is stored iff `q·u0 ≤ stop`, and the
    stored `(multipleIndex, wheelIndex)` denotes exactly the multiple `q·u0`. -/
theorem add_sieving_prime_first_multiple_30 (stop q L : ℕ) (hq7 : 7 ≤ q) (hq32 : q < 2 ^ 32) (hq : Nat.gcd q 30 = 1)
    (hL : 30 ∣ L) (hnw : L + 6 + q < 2 ^ 64) (hstop : stop < 2 ^ 64) :
    let quot := max q ((L + 6) / q + 1)
    let u0 := firstFactor Gen.psWheel30Init 30 quot
    (quot ≤ u0 ∧ Nat.Coprime u0 30 ∧ ∀ t, quot ≤ t → t < u0 → ¬ Nat.Coprime t 30) ∧
    (q * u0 ≤ stop → ∃ mi wi, wheelAdd wheel30 stop q L = some (mi, wi) ∧ Pos 30 8 (q / 30) q L mi wi u0) ∧
    (stop < q * u0 → wheelAdd wheel30 stop q L = none) :=
  ⟨firstFactor_spec initOk_30 (by decide) _,
   wheelAdd_spec wheel30 6 Gen.psSmallTab tabOk_small initOk_30 (by decide) (by decide) stop q L hq7 hq32 hq hL hnw hstop⟩

/-- **`Wheel210_t::addSievingPrime`** (EratBig): the same with cofactors coprime to 210. -/
theorem add_sieving_prime_first_multiple_210 (stop q L : ℕ) (hq7 : 7 ≤ q) (hq32 : q < 2 ^ 32) (hq : Nat.gcd q 30 = 1)
    (hL : 30 ∣ L) (hnw : L + 6 + q < 2 ^ 64) (hstop : stop < 2 ^ 64) :
    let quot := max q ((L + 6) / q + 1)
    let u0 := firstFactor Gen.psWheel210Init 210 quot
    (quot ≤ u0 ∧ Nat.Coprime u0 210 ∧ ∀ t, quot ≤ t → t < u0 → ¬ Nat.Coprime t 210) ∧
    (q * u0 ≤ stop → ∃ mi wi, wheelAdd wheel210 stop q L = some (mi, wi) ∧ Pos 210 48 (q / 30) q L mi wi u0) ∧
    (stop < q * u0 → wheelAdd wheel210 stop q L = none) :=
  ⟨firstFactor_spec initOk_210 (by decide) _,
   wheelAdd_spec wheel210 10 Gen.psWheel210 tabOk_210 initOk_210 (by decide) (by decide) stop q L hq7 hq32 hq hL hnw hstop⟩

/-- **The modulo 30 `switch` on one block** (the `for(;;) { case …: CHECK_FINISHED; sieve[i] &= BIT; i += … }` machine of
    EratMedium, = EratSmall's without its unrolled loops), on the block `sieve[base .. base+n)` of a segment with low `L`: from a
    state denoting `q·u` it terminates, clears exactly the bits whose number is `q·t`, `u ≤ t < u'`, `t` coprime to 30, leaves
    every other bit alone, and returns the state denoting `q·u'` relative to the NEXT block (carry-over). -/
theorem cross_block_correct (q L base n : ℕ) (hq : 30 ≤ q) (hL : 30 ∣ L) (m idx : ℕ) (s : Bytes) (u : ℕ)
    (hpos : Pos 30 8 (q / 30) q (L + 30 * base) m idx u) :
    ∃ u', u ≤ u' ∧
      Pos 30 8 (q / 30) q (L + 30 * base + 30 * n) (crossLoop Gen.psMediumTab false (q / 30) base n (crossFuel n m) m idx s).1
        (crossLoop Gen.psMediumTab false (q / 30) base n (crossFuel n m) m idx s).2.1 u' ∧
      (∀ p, bitAt (crossLoop Gen.psMediumTab false (q / 30) base n (crossFuel n m) m idx s).2.2 p = true ↔
        (bitAt s p = true ∧ ¬ Hit 30 q L u u' p)) := by
  obtain ⟨u', h1, h2, h3, _⟩ := crossLoop_spec Gen.psMediumTab 30 8 6 tabOk_medium (q / 30) q L base n (by omega) hL
    (crossFuel n m) m idx s u hpos (by unfold crossFuel; omega)
  exact ⟨u', h1, h2, h3⟩

/-- **The 23 + 9 bit packing of `SievingPrime`** loses nothing inside its ranges. -/
theorem sieving_prime_packing (sp mi wi : ℕ) (hsp : sp < 2 ^ 32) (hmi : mi < 2 ^ 23) (hwi : wi < 2 ^ 9) :
    (SPrime.set sp mi wi).sp = sp ∧ (SPrime.set sp mi wi).mi = mi ∧ (SPrime.set sp mi wi).wi = wi :=
  sprime_roundtrip sp mi wi hsp hmi hwi

/-- **Carry-over, EratMedium**: one stored sieving prime (`q < 2^25`; `maxEratMedium_ ≤ 3·2^23`) on one whole segment of
    `n ≤ 2^23` bytes: exactly the multiples `q·t`, `u ≤ t < u'` (`t` coprime to 30) are cleared, and the PACKED state written back
    denotes `q·u'` relative to the next segment `L + 30 n` — so the hypothesis is re-established for any number of segments. -/
theorem carry_over_medium (q L n : ℕ) (hL : 30 ∣ L) (hq : 30 ≤ q) (hq25 : q < 2 ^ 25) (hn : n ≤ 2 ^ 23)
    (p : SPrime) (u : ℕ) (hp : Pos 30 8 (q / 30) q L p.mi p.wi u) (hsp : p.sp = q / 30) (s : Bytes) :
    ∃ u', u ≤ u' ∧
      Pos 30 8 (q / 30) q (L + 30 * n) (crossPrime Gen.psMediumTab false 0 n p s).1.mi
        (crossPrime Gen.psMediumTab false 0 n p s).1.wi u' ∧
      (crossPrime Gen.psMediumTab false 0 n p s).1.sp = q / 30 ∧
      (∀ b, bitAt (crossPrime Gen.psMediumTab false 0 n p s).2 b = true ↔ (bitAt s b = true ∧ ¬ Hit 30 q L u u' b)) ∧
      (crossPrime Gen.psMediumTab false 0 n p s).2.size = s.size :=
  medium_prime_segment q L n hL hq hq25 hn p u hp hsp s

/-- **EratMedium on a whole segment, all stored primes** (`EratMedium::crossOff`; array of at most `2^23` bytes).  `gs` is the ghost
    list `(q, u)` of the stored primes (`Stored L p (q, u)`: `30 ≤ q < 2^25`, `sievingPrime_ = q/30`, packed state denotes `q·u`).
    Afterwards: a bit is set iff it was set and is no multiple `q·t` (`u ≤ t < u'`, `t` coprime to 30) of a stored prime, and every
    packed state written back is `Stored` relative to the NEXT segment — the object invariant is inductive over segments. -/
theorem medium_segment_correct (L : ℕ) (hL : 30 ∣ L) (ps : Array SPrime) (gs : List (ℕ × ℕ)) (s : Bytes) (hs : s.size ≤ 2 ^ 23)
    (h : List.Forall₂ (Stored L) ps.toList gs) :
    ∃ gs' : List (ℕ × ℕ),
      List.Forall₂ (fun g g' => g'.1 = g.1 ∧ g.2 ≤ g'.2) gs gs' ∧
      List.Forall₂ (Stored (L + 30 * s.size)) (mediumCrossOff ps s).1.toList gs' ∧
      (∀ b, bitAt (mediumCrossOff ps s).2 b = true ↔
        (bitAt s b = true ∧ ∀ i, i < gs.length → ¬ Hit 30 (gs.getD i (0, 0)).1 L (gs.getD i (0, 0)).2 (gs'.getD i (0, 0)).2 b)) ∧
      (mediumCrossOff ps s).2.size = s.size :=
  mediumCrossOff_spec L hL ps gs s hs h

/-- **Counting** (`CountPrintPrimes::countPrimes`): the popcount sum over the `⌈size/8⌉` words of the array (zero padding included)
    is the number of set bits. -/
theorem count_segment_correct (s : Bytes) (hs : ∀ i, s.getD i 0 < 256) :
    sieveCount s = Pc.Sieve.cnt (fun p => bitAt s p) 0 (64 * ((s.size + 7) / 8)) := sieveCount_spec s hs

/-- **One visit of EratBig** (`wheel210`, bucket scheduling): the bit of the pending multiple `q·u` — and only that bit — is
    cleared, and the state pushed to bucket list `segment` denotes the NEXT multiple with cofactor coprime to 210, relative to the
    segment `segment` positions ahead of the current one. -/
theorem big_visit_correct (q L log2 : ℕ) (hL : 30 ∣ L) (hlog : log2 ≤ 23) (hq32 : q < 2 ^ 32)
    (p : SPrime) (u : ℕ) (hp : Pos 210 48 (q / 30) q L p.mi p.wi u) (hsp : p.sp = q / 30) (s : Bytes) :
    let r := bigStep log2 p s
    Pos 210 48 (q / 30) q (L + 30 * (2 ^ log2 * r.1)) r.2.1.mi r.2.1.wi
      (u + (Gen.psWheel210.getD p.wi (0, 0, 0, 0)).2.1) ∧ r.2.1.sp = q / 30 ∧
    (∀ b, bitAt r.2.2 b = true ↔ (bitAt s b = true ∧ q * u ≠ numOf L b)) ∧
    (∀ t, u < t → t < u + (Gen.psWheel210.getD p.wi (0, 0, 0, 0)).2.1 → ¬ Nat.Coprime t 210) :=
  big_step q L log2 hL hlog hq32 p u hp hsp s

/-- **Extraction, one word** (`Erat::nextPrime`, `bitValues`, the `bits &= bits - 1` scan): the numbers read from the 64-bit
    word `w` of a segment with low `L` are the numbers of its set bits, in increasing order. -/
theorem extraction_word_correct (s : Bytes) (hs : ∀ i, s.getD i 0 < 256) (L w : ℕ) :
    (wordPrimes (Pc.Sieve.word64 s w) (L + 240 * w)).Pairwise (· < ·) ∧
    ∀ n, n ∈ wordPrimes (Pc.Sieve.word64 s w) (L + 240 * w) ↔ ∃ t < 64, bitAt s (64 * w + t) = true ∧ n = numOf L (64 * w + t) :=
  wordPrimes_sorted_mem s hs L w

/-- **Extraction, whole segment** (the word loop of `fillNextPrimes` / `fillPrevPrimes` / `SievingPrimes::fill`, 8 bytes and
    240 numbers per step, reading the zero padding after the last byte): the list produced from a segment with low `L` is
    strictly increasing and contains exactly the numbers of the set bits of the sieve array. -/
theorem extraction_segment_correct (s : Bytes) (hs : ∀ i, s.getD i 0 < 256) (L : ℕ) :
    (sievePrimes s (s.size / 8 + 1) 0 L).Pairwise (· < ·) ∧
    (∀ n, n ∈ sievePrimes s (s.size / 8 + 1) 0 L ↔ ∃ p, bitAt s p = true ∧ n = numOf L p) := by
  have h := sievePrimes_spec s hs L (s.size / 8 + 1) 0 (by omega)
  simp only [Nat.mul_zero, Nat.add_zero, Nat.zero_le, true_and] at h
  exact h

/-! non-vacuity (tests, labelled as such) -/
example : Gen.psSmallTab.getD (8 * 1 + 3) (0, 0, 0, 0) = (5, 4, 2, 12) := by decide
example : Gen.psWheel210.getD (48 * 7 + 47) (0, 0, 0, 0) = (6, 2, 0, 336) := by decide
/-- the hypothesis `Pos` is satisfiable: the state stored for `q = 173` at `L = 30000` (first multiple `173² = 29929`
    lies below, so `u0 = 179`, `173·179 = 30967`) -/
example : ∃ mi wi, wheelAdd wheel30 1000000 173 30000 = some (mi, wi) ∧ Pos 30 8 (173 / 30) 173 30000 mi wi 179 :=
  (add_sieving_prime_first_multiple_30 1000000 173 30000 (by decide) (by decide) (by decide) (by decide) (by decide)
    (by decide)).2.1 (by decide)
example : wheelAdd wheel30 1000000 173 30000 = some (32, 47) := by decide
example : wheelAdd wheel210 30500 173 30000 = none := by decide
example : (SPrime.set 5 32 47).idx = 32 + 47 * 2 ^ 23 := by decide
example : sieveCount #[0xff, 0xef] = 15 := by decide
/-- `Stored` is satisfiable: the state `wheelAdd` produces for 173 at `L = 30000`, packed -/
example : Stored 30000 (SPrime.set (173 / 30) 32 47) (173, 179) := by
  obtain ⟨mi, wi, h1, h2⟩ := (add_sieving_prime_first_multiple_30 1000000 173 30000 (by decide) (by decide) (by decide)
    (by decide) (by decide) (by decide)).2.1 (by decide)
  have e : wheelAdd wheel30 1000000 173 30000 = some (32, 47) := by decide
  rw [e] at h1
  have hmi : mi = 32 := by injection h1 with h; exact (Prod.mk.inj h).1.symm
  have hwi : wi = 47 := by injection h1 with h; exact (Prod.mk.inj h).2.symm
  subst hmi; subst hwi
  obtain ⟨a, b, c⟩ := sprime_roundtrip (173 / 30) 32 47 (by decide) (by decide) (by decide)
  exact ⟨by decide, by decide, a, by rw [b, c]; exact h2⟩
example : sievePrimes #[0xff, 0xef] 1 0 0 = [7, 11, 13, 17, 19, 23, 29, 31, 37, 41, 43, 47, 53, 59, 61] := by decide

end Pc.C18Core

#print axioms Pc.C18Core.wheel_step_correct_30
#print axioms Pc.C18Core.wheel_tables_agree
#print axioms Pc.C18Core.wheel_step_correct_210
#print axioms Pc.C18Core.add_sieving_prime_first_multiple_30
#print axioms Pc.C18Core.add_sieving_prime_first_multiple_210
#print axioms Pc.C18Core.cross_block_correct
#print axioms Pc.C18Core.sieving_prime_packing
#print axioms Pc.C18Core.carry_over_medium
#print axioms Pc.C18Core.big_visit_correct
#print axioms Pc.C18Core.extraction_word_correct
#print axioms Pc.C18Core.extraction_segment_correct
#print axioms Pc.C18Core.medium_segment_correct
#print axioms Pc.C18Core.count_segment_correct
