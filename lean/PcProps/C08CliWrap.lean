/-
C08 (WP cli2) — the formula options of the command line (`--AC -B -D --Phi0 --Sigma --P2 --S1 --S2-trivial --S2-easy
--S2-hard`) call the library function with exactly the internal parameters of the library's own derivation, for every x
and every tuning override.
Only property theorems, non-vacuity examples and the axiom audit live here.

Vocabulary: PcModel/CliWrap.lean (`wrapFormula fn x gf df` = the wrapper `fn` of src/app/main.cpp in checked arithmetic:
`none` = `return 0` for x < 1, `some c` = the call `fn(x, c.y[, c.z][, c.kc], threads)`, `.error` = throws / undefined
cast; `wrapKindOf fn` = which of `z`, `k | c` the wrapper derives), PcModel/ParamsL2.lean (`gourdonL2 true` / `drL2 true`
= the derivation inside `pi_gourdon_128` / `pi_deleglise_rivat_128`, i.e. with the `x > get_max_x(alpha)` check that every
wrapper performs; `GFloats` / `DFloats` = the truncated double products, which carry the tuning factors: any `--alpha*`
override changes only these numbers, and the theorems hold for all of them).
-/
import PcProofs.CliWrap

namespace Pc.C08CliWrap
open Pc Pc.Cli

/-- **Gourdon wrappers (AC, B, D, Phi0, Sigma).** For every x ≥ 1, all float outcomes `gf` (hence every `--alpha-y`,
    `--alpha-z`) and every thread count: if the library's derivation succeeds with `g`, the wrapper calls its function with
    `y = g.y` and — AC, D, Phi0 — `z = g.z`, `k = g.k`; the 64-bit overload iff x ≤ INT64_MAX. -/
theorem formula_wrapper_params_gourdon (fn : String) (k : WrapKind) (hk : wrapKindOf fn = some k) (hg : k.gourdon = true)
    (x : Int) (hx : 1 ≤ x) (t : Int) (gf : GFloats) (df : DFloats) (g : GOut)
    (h : gourdonL2 true x.toNat t gf = .ok g) :
    wrapFormula fn x gf df = .ok (some ⟨fn, x, g.y, if k.usesZ then some g.z else none,
      if k.usesZ then some g.k else none, decide (x > i64Max)⟩) := by
  unfold wrapFormula
  simp only [hk, hg, if_true]
  exact wrapGourdon_eq fn k.usesZ x hx t gf g h

/-- **Deleglise-Rivat wrappers (P2, S1, S2_trivial, S2_easy, S2_hard).** For every x ≥ 1, all float outcomes `df` (hence
    every `--alpha`) and every thread count: if the library's derivation succeeds with `d`, the wrapper calls its function
    with `y = d.y` and — S2_* — `z = d.z`, — S1, S2_* — `c = d.c`. -/
theorem formula_wrapper_params_dr (fn : String) (k : WrapKind) (hk : wrapKindOf fn = some k) (hg : k.gourdon = false)
    (x : Int) (hx : 1 ≤ x) (t : Int) (gf : GFloats) (df : DFloats) (d : DOut)
    (h : drL2 true x.toNat t df = .ok d) :
    wrapFormula fn x gf df = .ok (some ⟨fn, x, d.y, if k.usesZ then some d.z else none,
      if k.usesZ || k.usesKC then some d.c else none, decide (x > i64Max)⟩) := by
  unfold wrapFormula
  simp only [hk, hg, Bool.false_eq_true, if_false]
  exact wrapDr_eq fn k.usesZ k.usesKC x hx t df d h

/-- **A wrapper fails only where the library's derivation fails, and in the same way** (range error `x > get_max_x`,
    undefined float cast, narrowing, zero divisor): it never rejects an x the library accepts. -/
theorem formula_wrapper_error (fn : String) (x : Int) (t : Int) (gf : GFloats) (df : DFloats) (e : PErr)
    (h : wrapFormula fn x gf df = .error e) :
    1 ≤ x ∧ ∃ k, wrapKindOf fn = some k ∧
      (if k.gourdon then gourdonL2 true x.toNat t gf = .error e else drL2 true x.toNat t df = .error e) := by
  unfold wrapFormula at h
  split at h
  · cases h
  · rename_i k hk
    by_cases hg : k.gourdon = true
    · simp only [hg, if_true] at h
      obtain ⟨h1, h2⟩ := wrapGourdon_error fn k.usesZ x t gf e h
      exact ⟨h1, k, hk, by simp only [hg, if_true]; exact h2⟩
    · simp only [hg, if_false] at h
      obtain ⟨h1, h2⟩ := wrapDr_error fn k.usesZ k.usesKC x t df e h
      exact ⟨h1, k, hk, by simp only [hg, if_false]; exact h2⟩

/-- x < 1: every wrapper returns 0 without deriving anything or calling the library -/
theorem formula_wrapper_below_one (fn : String) (x : Int) (hx : x < 1) (gf : GFloats) (df : DFloats) :
    wrapFormula fn x gf df = .ok none := by
  unfold wrapFormula
  split
  · rfl
  · split
    · unfold wrapGourdon; simp only [hx, if_true]; rfl
    · unfold wrapDr; simp only [hx, if_true]; rfl

/-- the clamp formulas recorded in PcModel/Cli.lean (`wrapGourdonYZ`, `wrapDrYZ`) are the library's `(y, z)` -/
theorem wrapper_clamps_are_library_yz (x : Nat) (t : Int) (gf : GFloats) (df : DFloats) :
    (∀ g, gourdonL2 true x t gf = .ok g → wrapGourdonYZ (irootN 3 x) (isqrtN x) gf.v gf.w = (g.y, g.z)) ∧
    (∀ d, drL2 true x t df = .ok d → wrapDrYZ x df.v = (d.y, d.z)) :=
  ⟨fun g h => wrapGourdonYZ_eq x t gf g h, fun d h => wrapDrYZ_eq x t df d h⟩

/-- the options of main's switch that go through a wrapper are exactly these ten functions -/
theorem formula_options_are_the_wrappers : ∀ e ∈ mainSwitch, e.2.formula = (wrapKindOf e.2.fn).isSome :=
  formula_cases_are_wrappers

/-! non-vacuity (tests): the hypotheses are satisfiable, the wrappers differ in what they derive -/
example : (gourdonL2 true 1000000 4 gfDemo).toOption.map (fun g => (g.y, g.z, g.k)) = some (150, 300, 8) := by decide +kernel
example : (drL2 true 1000000 4 dfDemo).toOption.map (fun d => (d.y, d.z, d.c)) = some (250, 4000, 8) := by decide +kernel
example : (wrapFormula "AC" 1000000 gfDemo dfDemo).toOption = some (some ⟨"AC", 1000000, 150, some 300, some 8, false⟩) := by decide +kernel
example : (wrapFormula "B" 1000000 gfDemo dfDemo).toOption = some (some ⟨"B", 1000000, 150, none, none, false⟩) := by decide +kernel
example : (wrapFormula "S2_easy" 1000000 gfDemo dfDemo).toOption = some (some ⟨"S2_easy", 1000000, 250, some 4000, some 8, false⟩) := by
  decide +kernel
example : (wrapFormula "S1" 1000000 gfDemo dfDemo).toOption = some (some ⟨"S1", 1000000, 250, none, some 8, false⟩) := by decide +kernel
example : (wrapFormula "P2" 1000000 gfDemo dfDemo).toOption = some (some ⟨"P2", 1000000, 250, none, none, false⟩) := by decide +kernel
example : (match wrapFormula "D" (2 ^ 64) ⟨10 ^ 10, 150, fun y => 2 * y, fun _ => 4⟩ dfDemo with
    | .error e => some e | .ok _ => none) = some .range := by decide +kernel
example : wrapKindOf "AC" = some ⟨true, true, true⟩ ∧ wrapKindOf "S1" = some ⟨false, false, true⟩ := by decide

end Pc.C08CliWrap

#print axioms Pc.C08CliWrap.formula_wrapper_params_gourdon
#print axioms Pc.C08CliWrap.formula_wrapper_params_dr
#print axioms Pc.C08CliWrap.formula_wrapper_error
#print axioms Pc.C08CliWrap.formula_wrapper_below_one
#print axioms Pc.C08CliWrap.wrapper_clamps_are_library_yz
#print axioms Pc.C08CliWrap.formula_options_are_the_wrappers
