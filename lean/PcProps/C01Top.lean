/-
C01 (top): the size dispatcher of src/api.cpp — `pi(int64_t)`, `pi_noprint`, `pi(int128_t)`, `pi_cache` (model `Pc.Top.piApi64` /
`piApi128`, PcModel/TopAlgs.lean; thresholds generated in PcGen/ApiConst.lean) — with EVERY ROUTE DISCHARGED:
cache = the table dumped from the binary (`piCache_correct`, C17 obligations), `pi_legendre` / `pi_meissel` = their L2 models
(`piLegendre_eq`, `piMeissel_eq`: P2 by its loops on any valid run), `pi_gourdon_64/128` = `piGourdon_eq_pi_partial` (every term by
its real control flow).  No `RouteCorrect` hypothesis is left.  What remains, by name:
  * `TablesOK`     table / iterator / sieve contracts (C17, C18, C09),
  * `PhiContract`  `phi(x, a, threads)` at the two calls of `pi_legendre` / `pi_meissel` (C07 `phiOpenMP_correct`),
  * `ApiExec`      float envelope `GourdonEnv`, schedules, valid runs, table reach — and inside it THE AC HOOK `AcLoopEqDef`.
Only property theorems, non-vacuity examples and the axiom audit live here.
-/
import PcProofs.TopAlgsEx

namespace Pc.C01Top
open Pc.Top Nat PcGen.ApiConst
open scoped Nat.Prime

/-- **one level**: `pi(int64_t x)` / `pi_noprint(x)` for EVERY int64 `x` returns π(max(x, 0)) when the nested `pi_noprint`
    calls (`pi_noprint(√x)`, `pi_noprint(x^(1/3))`, `pi_noprint(x / prime)` inside P2 / B) return π below `x` -/
theorem piApi64_step {σ : Type} (T : Tables σ) {B : ℕ} (hT : TablesOK T B) (phi : ℕ → ℕ → ℕ) (pi : ℕ → ℕ) (x : ℤ)
    (hx : x < 2 ^ 63) (threads : ℤ) (isPrint : Bool) (r : ApiRun)
    (hphi : PhiContract phi x.toNat) (hpi : ∀ n : ℕ, (n : ℤ) < x → pi n = π n)
    (hex : (maxCached : ℤ) < x → ApiExec T B false x.toNat r) :
    piApi64 T phi pi x threads isPrint r = .ok (π x.toNat : ℤ) ∨
      piApi64 T phi pi x threads isPrint r = .error (.hard .badRun) :=
  Pc.Top.piApi64_step T hT phi pi x hx threads isPrint r hphi hpi hex

/-- **the recursion closes**: any function `pi` that is consistent with being computed by `pi_noprint` (for every `n < x` SOME
    execution of the dispatcher — any thread count, any run meeting `ApiExec` — whose nested calls are answered by `pi` again
    returns `pi n`) is π below `x` -/
theorem pi_noprint_is_pi {σ : Type} (T : Tables σ) {B : ℕ} (hT : TablesOK T B) (phi : ℕ → ℕ → ℕ) (pi : ℕ → ℕ) (x : ℕ)
    (hx : x ≤ 2 ^ 63) (hphi : ∀ n, n < x → PhiContract phi n)
    (hrec : ∀ n, n < x → ∃ (threads : ℤ) (r : ApiRun), (maxCached < n → ApiExec T B false n r) ∧
      piApi64 T phi pi (n : ℤ) threads false r = .ok (pi n : ℤ)) :
    ∀ n, n < x → pi n = π n :=
  pi_noprint_fixpoint T hT phi pi x hx hphi hrec

/-- **`piApi_eq_pi`** — `pi(int128_t x)` for EVERY int128 `x` (negative → 0, `x ≤ INT64_MAX` → the 64-bit dispatcher, above →
    `pi_gourdon_128`): with the nested `pi_noprint` calls computed by the same dispatcher (`hrec`: any executions, only at int64
    arguments below `x` — `B_thread` calls `pi_noprint(x / prime, 1)` with `x / prime ≤ x / y ≤ INT64_MAX`, `bOpenMP_eq_sharp`), the
    result is π(x); the only other outcome is `badRun` for a recorded D history that is not a run.  No route hypothesis. -/
theorem piApi_eq_pi {σ : Type} (T : Tables σ) {B : ℕ} (hT : TablesOK T B) (phi : ℕ → ℕ → ℕ) (pi : ℕ → ℕ) (x : ℤ)
    (hx : x < 2 ^ 127) (threads : ℤ) (isPrint : Bool) (r : ApiRun)
    (hphi : ∀ n : ℕ, (n : ℤ) ≤ x → PhiContract phi n)
    (hrec : ∀ n : ℕ, (n : ℤ) < x → n < 2 ^ 63 → ∃ (threads : ℤ) (r : ApiRun), (maxCached < n → ApiExec T B false n r) ∧
      piApi64 T phi pi (n : ℤ) threads false r = .ok (pi n : ℤ))
    (hex : (maxCached : ℤ) < x → ApiExec T B (decide ((PiApi.int64Max : ℤ) < x)) x.toNat r) :
    piApi128 T phi pi x threads isPrint r = .ok (π x.toNat : ℤ) ∨
      piApi128 T phi pi x threads isPrint r = .error (.hard .badRun) := by
  have hpi : ∀ n : ℕ, (n : ℤ) < x → n < 2 ^ 63 → pi n = π n := by
    intro n hn h63
    exact pi_noprint_fixpoint T hT phi pi (n + 1) (by omega) (fun m hm => hphi m (by omega))
      (fun m hm => hrec m (by omega) (by omega)) n (by omega)
  by_cases h0 : 0 ≤ x
  · exact piApi128_step T hT phi pi x hx threads isPrint r (hphi x.toNat (by omega)) hpi hex
  · left
    unfold piApi128
    rw [if_pos (by omega)]
    have : x.toNat = 0 := by omega
    rw [this]; rfl

/-! non-vacuity (tests, labelled as such) -/
example (N B : ℕ) : TablesOK (idealTables N) B := idealTables_ok N B
/-- below the cache limit nothing is assumed about the run: the dispatcher answers from the dumped table -/
example : piApi64 (idealTables 10) (fun _ _ => 0) (fun _ => 0) 100 1 false ⟨exP2Run, ⟨⟨0, 0, fun _ => 0, fun _ => 0⟩, [], [], [], exP2Run, []⟩⟩
    = .ok (π (100 : ℤ).toNat : ℤ) := by
  unfold piApi64
  rw [if_pos (by decide), piCacheTop_eq _ (by decide)]
/-- `PhiContract` is satisfiable (the spec function itself) -/
example (n : ℕ) : PhiContract Spec.phi n := ⟨rfl, rfl⟩

end Pc.C01Top

#print axioms Pc.C01Top.piApi64_step
#print axioms Pc.C01Top.pi_noprint_is_pi
#print axioms Pc.C01Top.piApi_eq_pi
