/-
C02 — every counting algorithm returns the same value for the same x.
Each exposed algorithm evaluates one of the identities below; each identity is proved to equal π(x) for all x
(and all admissible parameters), hence all algorithms agree. The C++ evaluation of the individual terms is
tied to these definitions by the correspondence streams (DESIGN.md 6.2).
-/
import PcProofs.Spec.All

namespace Pc.C02
open Pc.Spec

/-- Legendre (`pi_legendre`): a = π(⌊√x⌋) -/
theorem legendre_correct (x : ℕ) (hx : 2 ≤ x) :
    Nat.primeCounting x = phi x (Nat.primeCounting (Nat.sqrt x)) + Nat.primeCounting (Nat.sqrt x) - 1 :=
  legendre rfl hx

/-- Meissel (`pi_meissel`): a = π(⌊x^(1/3)⌋) -/
theorem meissel_correct (x c : ℕ) (hx : 1 ≤ x) (h1 : c ^ 3 ≤ x) (h2 : x < (c + 1) ^ 3) :
    Nat.primeCounting x = phi x (Nat.primeCounting c) + Nat.primeCounting c - 1 - P2 x (Nat.primeCounting c) :=
  meissel_iroot3 hx h1 h2

/-- Lehmer (`pi_lehmer`): a = π(⌊x^(1/4)⌋) -/
theorem lehmer_correct (x y : ℕ) (hx : 1 ≤ x) (h1 : y ^ 4 ≤ x) (h2 : x < (y + 1) ^ 4) :
    Nat.primeCounting x = phi x (Nat.primeCounting y) + Nat.primeCounting y - 1 - P2 x (Nat.primeCounting y)
      - P3 x (Nat.primeCounting y) :=
  lehmer_iroot4 hx h1 h2

/-- LMO (`pi_lmo1..5`, `pi_lmo_parallel`): any y with y ≤ x < (y+1)³, any c ≤ π(y) -/
theorem lmo_correct (x y c : ℕ) (hy : 1 ≤ y) (hyx : y ≤ x) (hy3 : x < (y + 1) ^ 3) (hc : c ≤ Nat.primeCounting y) :
    (Nat.primeCounting x : ℤ) = S1 x y c + S2 x y c + Nat.primeCounting y - 1 - P2 x (Nat.primeCounting y) :=
  pi_lmo hy hyx hy3 hc

/-- Deleglise-Rivat (64- and 128-bit): the three leaf classes -/
theorem deleglise_rivat_correct (x y c : ℕ) (hy : 1 ≤ y) (hy2 : y * y ≤ x) (hy3 : x < (y + 1) ^ 3)
    (hc : c ≤ Nat.primeCounting y) :
    (Nat.primeCounting x : ℤ) = S1 x y c + S2_trivial x y c + S2_easy x y c + S2_hard x y c
      + Nat.primeCounting y - 1 - P2 x (Nat.primeCounting y) := pi_dr hy hy2 hy3 hc

/-- Gourdon (64- and 128-bit) -/
theorem gourdon_correct (x y z k c3 r4 : ℕ)
    (hc3 : c3 ^ 3 ≤ x) (hc3' : x < (c3 + 1) ^ 3) (hr4 : r4 ^ 4 ≤ x) (hr4' : x < (r4 + 1) ^ 4)
    (hy : c3 < y) (hy2 : y * y ≤ x) (hyz : y ≤ z) (hz : z * z ≤ x) (hk : k ≤ Nat.primeCounting r4) :
    (Nat.primeCounting x : ℤ) =
      A x y (xstar x y r4) c3 - B x y + C x y z k (xstar x y r4) + D x y z k (xstar x y r4) + Phi0 x y z k +
        (Sigma0 x (Nat.primeCounting y) + Sigma1 (Nat.primeCounting y) (Nat.primeCounting c3) +
          Sigma2 (Nat.primeCounting y) (Nat.primeCounting c3) (Nat.primeCounting (Nat.sqrt (x / y)))
            (Nat.primeCounting (xstar x y r4)) +
          Sigma3 (Nat.primeCounting c3) (Nat.primeCounting (xstar x y r4)) + Sigma4 x y (xstar x y r4) +
          Sigma5 x y c3 + Sigma6 x (xstar x y r4) c3) :=
  (GParams.of_xstar hc3 hc3' hr4 hr4' hy hy2 hyz hz hk).pi_gourdon

/-- any two leaf decompositions of φ(x, a) (any cut-offs, any stop levels) agree -/
theorem leaf_decompositions_agree (x a z₁ z₂ b₁ b₂ : ℕ) (h₁ : 1 ≤ z₁) (h₂ : 1 ≤ z₂) (hb₁ : b₁ ≤ a) (hb₂ : b₂ ≤ a) :
    ord x z₁ b₁ a + spec x z₁ b₁ a = ord x z₂ b₂ a + spec x z₂ b₂ a := by
  rw [← lmo_general x z₁ a h₁ (a - b₁) b₁ (by omega), ← lmo_general x z₂ a h₂ (a - b₂) b₂ (by omega)]

/-- consequence: Legendre's and Meissel's values agree (both are π(x)) -/
theorem legendre_eq_meissel (x c : ℕ) (hx : 2 ≤ x) (h1 : c ^ 3 ≤ x) (h2 : x < (c + 1) ^ 3) :
    phi x (Nat.primeCounting (Nat.sqrt x)) + Nat.primeCounting (Nat.sqrt x) - 1 =
    phi x (Nat.primeCounting c) + Nat.primeCounting c - 1 - P2 x (Nat.primeCounting c) := by
  rw [← legendre_correct x hx, ← meissel_correct x c (by omega) h1 h2]

example := legendre_eq_meissel 1000 10 (by norm_num) (by norm_num) (by norm_num)
example := lmo_correct 1000 15 3 (by norm_num) (by norm_num) (by norm_num)
  (by rw [show Nat.primeCounting 15 = 6 by decide]; norm_num)

end Pc.C02

#print axioms Pc.C02.legendre_correct
#print axioms Pc.C02.meissel_correct
#print axioms Pc.C02.lehmer_correct
#print axioms Pc.C02.lmo_correct
#print axioms Pc.C02.deleglise_rivat_correct
#print axioms Pc.C02.gourdon_correct
#print axioms Pc.C02.leaf_decompositions_agree
#print axioms Pc.C02.legendre_eq_meissel
