/-
C02 — every counting algorithm returns the same value for the same x.
All exposed algorithms evaluate pi(x) = phi(x, a) + a - 1 - P2 (- P3) with phi computed by a leaf
decomposition; the theorems below are the part of that common core that is proved here
(the per-algorithm statements are added as the spec library PcProofs/Spec grows; see DESIGN.md 6.2).
-/
import PcProofs.Spec.Phi

namespace Pc.C02
open Pc.Spec

/-- All LMO-type algorithms (lmo1..5, parallel LMO, Deleglise-Rivat, Gourdon's Phi0 + special leaves) compute
    φ(x, a) as ordinary + special leaves for SOME cut-off and stop level; every such choice gives the same
    value, namely φ(x, a). -/
theorem leaf_decompositions_agree (x a z₁ z₂ b₁ b₂ : ℕ) (h₁ : 1 ≤ z₁) (h₂ : 1 ≤ z₂) (hb₁ : b₁ ≤ a) (hb₂ : b₂ ≤ a) :
    ord x z₁ b₁ a + spec x z₁ b₁ a = ord x z₂ b₂ a + spec x z₂ b₂ a := by
  rw [← lmo_general x z₁ a h₁ (a - b₁) b₁ (by omega), ← lmo_general x z₂ a h₂ (a - b₂) b₂ (by omega)]

/-- … and that common value is the Legendre sum itself -/
theorem leaf_decomposition_eq_phi (x a z b : ℕ) (hz : 1 ≤ z) (hb : b ≤ a) :
    ord x z b a + spec x z b a = (phi x a : ℤ) :=
  (lmo_general x z a hz (a - b) b (by omega)).symm

example : ord 1000 10 0 4 + spec 1000 10 0 4 = ord 1000 31 2 4 + spec 1000 31 2 4 :=
  leaf_decompositions_agree 1000 4 10 31 0 2 (by norm_num) (by norm_num) (by norm_num) (by norm_num)

end Pc.C02

#print axioms Pc.C02.leaf_decompositions_agree
#print axioms Pc.C02.leaf_decomposition_eq_phi
