/-
C08 — source-mirror obligations of the hard-leaf and easy-leaf engines (see PcProps/C08Src.lean for the mechanism):
`S2_hard_thread`, `S2_hard_OpenMP`, `D_thread`, `D_OpenMP` (PcModel/HardLoops.lean), their AVX512 / SVE twin translation
units (which must be the default text up to the counting primitive `Sieve::count`), and `S2_easy*`, `A`, `C1`, `C2`,
`AC_OpenMP` in both division variants (PcModel/EasyLoops.lean, EasyAC.lean).
-/
import PcGen.SrcMirrorHardLoopsObl
import PcGen.SrcMirrorEasyLoopsObl

namespace Pc.C08SrcLoops

theorem models_mirror_source_HardLoops : Pc.SrcMirror.HardLoops.AllText := Pc.SrcMirror.HardLoops.all_text

theorem models_mirror_source_EasyLoops : Pc.SrcMirror.EasyLoops.AllText := Pc.SrcMirror.EasyLoops.all_text

end Pc.C08SrcLoops

#print axioms Pc.C08SrcLoops.models_mirror_source_HardLoops
#print axioms Pc.C08SrcLoops.models_mirror_source_EasyLoops
