/-
C07 (WP close2, item 2): `phi(x, a, threads)` of src/phi.cpp and `phi_vector` of src/phi_vector.cpp — the two "PhiCache contents" hypotheses of
WP close (`PhiRunOK.cache` / `CallRunOK.cache`: abstract cache of the L1 model; `World.OK.phiVec`: the inner `PhiCache::phi<-1>` of
`phi_vector`) DISCHARGED by WP phicache's bit-level model (`phiCpp`, `phiVectorS`: the constructor, `init_cache`, `phi_cache`, `sieve_t` words are
executed by the model and proved: `phiCpp_correct`, `phiVectorS_eq`).

REMAINING HYPOTHESES of `phi_closed` (each explicit):
 (L) LITERATURE  `hfx`: above 30719 the double formula `f` of `pix_upper` satisfies `π(x) ≤ f(x)` — or merely `a < f(x)` (guard not taken);
                 `hfs`: `a ≤ f(√x)` when `√x > 30719` (never in the dispatcher's range `x ≤ 10^8`).
 (O) OPENMP      `hworks`: the dynamic schedule hands out every loop index `9..a` exactly once (ANY distribution over ANY number of threads).
 tables          `PrimeGenSpec gen` (C18: a theorem for the world, `World.gen_spec`), the vector `generate_n_primes(a)` (`hp0`, `hp`: a theorem
                 for the world, `It.genNPrimesFn_spec`).  PhiTiny tables, PiTable constructor, `pix_upper` table branch: the real objects.
 NOT assumed     anything about `pi_noprint` (`piFn` arbitrary), anything about cache contents or cache state, the float `est` (arbitrary).
Only property theorems, non-vacuity examples and the axiom audit live here.
-/
import PcProofs.Close2PhiEx

namespace Pc.C07Closed2
open Pc.Top Pc.Close Pc.Close2 Pc.ClosePhi Pc.PhiCacheL2 Pc.PhiAlgProofs Pc.PhiVec Nat PcGen.ApiConst
open scoped Nat.Prime

/-- **`phi_closed`** — `phi(x, a, threads)` of phi.cpp with REAL per-thread `PhiCache` objects over the REAL tables (`realTop`: PhiTiny tables dumped
    from /repo, the `PiTable(√x, threads)` constructor model over `gen`, the table branch of `pix_upper`) at every call with `a ≤ π(√x)` is the
    Legendre sum `φ(x, a)`: for every `pi_noprint` (`piFn`), every float estimate `est`, every distribution `works` of the loop indices. -/
theorem phi_closed (gen : PrimeGen) (hg : PrimeGenSpec gen) (threads : ℤ) (f piFn prime : ℕ → ℕ) (x a : ℕ)
    (ha : a ≤ π (Nat.sqrt x))
    (hfx : 30719 < x → π x ≤ f x ∨ a < f x) (hfs : 30719 < Nat.sqrt x → a ≤ f (Nat.sqrt x))
    (hp0 : prime 0 = 0) (hp : ∀ i, 1 ≤ i → i ≤ a → prime i = Spec.p i)
    (est : ℕ) (works : List (List ℕ)) (hworks : works.flatten.Perm (List.range' 9 (a - 8))) :
    phiCpp (realTop gen threads f piFn prime (Nat.sqrt x)) est works (x : ℤ) (a : ℤ) = (Spec.phi x a : ℤ) :=
  phiCpp_call _ x a (callOK_realTop gen hg threads f piFn prime x a ha hfx hfs hp0 hp) ha est works hworks

/-- `phi_closed` for an arbitrary table bundle under WP close's per-call contract `CallOK` (tables right up to what the call reads;
    literature-or-guard-not-taken; NO `pi_noprint` field, NO cache field) -/
theorem phi_closed_callOK (P : PhiTop) (x a : ℕ) (hP : CallOK P x a) (ha : a ≤ π (Nat.sqrt x)) (est : ℕ)
    (works : List (List ℕ)) (hworks : works.flatten.Perm (List.range' 9 (a - 8))) :
    phiCpp P est works (x : ℤ) (a : ℤ) = (Spec.phi x a : ℤ) :=
  phiCpp_call P x a hP ha est works hworks

/-- off the two `phi_pix` returns the bit-level `phi_OpenMP` does not read `pi_noprint` at all -/
theorem phi_cpp_ignores_pi_noprint (P : PhiTop) (f : ℕ → ℕ) (est : ℕ) (works : List (List ℕ)) (x a : ℤ)
    (hg : ¬ (phiGuards P x a = .phiPix1 ∨ phiGuards P x a = .phiPix2)) :
    phiCpp { P with piFn := f } est works x a = phiCpp P est works x a :=
  phiCpp_piFn_irrelevant P f est works x a hg

/-- **`PhiContract` (WP top's named contract of `phi`) for the bit-level model**, both calls of the dispatcher
    (`pi_legendre`: `a = π(√x)`; `pi_meissel`: `a = π(x^(1/3))`) -/
theorem phiContract_of_cpp_model (P : ℕ → ℕ → PhiTop) (est : ℕ → ℕ → ℕ) (works : ℕ → ℕ → List (List ℕ)) (x : ℕ)
    (hL : CallOK (P x (π (Nat.sqrt x))) x (π (Nat.sqrt x)))
    (hLw : (works x (π (Nat.sqrt x))).flatten.Perm (List.range' 9 (π (Nat.sqrt x) - 8)))
    (hM : CallOK (P x (π (irootN 3 x))) x (π (irootN 3 x)))
    (hMw : (works x (π (irootN 3 x))).flatten.Perm (List.range' 9 (π (irootN 3 x) - 8))) :
    PhiContract (phiCppReal P est works) x :=
  Pc.Close2.phiContract_of_cpp_model P est works x hL hLw hM hMw

/-- `phi_closed` over the world (`W.P`: `generate_n_primes` over the iterator model over the sieving core, `PrimeGenSpec` by `generator_contract`):
    every call `a ≤ π(√n)` with `n ≤ 10^8`; hypotheses (L) at `n`, (O) `works`; `W.OK` = (F) float of the sieving core, (S) configuration/size -/
theorem phi_closed_world (W : World2) {B : ℕ} (h : W.toWorld.OK B) (n a : ℕ) (hn : n ≤ meisselMax) (ha : a ≤ π (Nat.sqrt n))
    (hlit : π n ≤ W.f n ∨ a < W.f n) (hworks : (W.works n a).flatten.Perm (List.range' 9 (a - 8))) :
    W.phiCpp n a = Spec.phi n a :=
  W.phiCpp_eq h n a hn ha hlit hworks

/-- `PhiContract` of the world's phi at every level where the dispatcher calls it -/
theorem phiContract_world (W : World2) {B : ℕ} (h : W.toWorld.OK B) (n : ℕ)
    (hn : maxCached < n → n ≤ meisselMax → W.PhiRunOK2 n) : PhiContractIn W.phiCpp n :=
  W.phiContractIn h n hn

/-! ### `phi_vector` -/

/-- `−φ` meets WP close's `PhiNegSpec` at every size -/
theorem phiNegSpec_ideal (K : ℕ) : PhiNegSpec phiNegIdeal K := phiNegIdeal_spec K

/-- **`world_phi_vector_is_cpp`** — with `W.phiNeg = phiNegIdeal` the `phi_vector` field of the world's S2_hard and D tables EQUALS the bit-level
    model `phiVectorS` (`phi_vector` with its real `PhiCache<Primes> cache(x, a, primes, pi)`, `max_x = isqrt(x)`) over the primes / PiTable the same
    constructors built (`vecPhiEnv`: `pi_.size() = max_prime + 1`) and the real PhiTiny tables — every `low`, every `a ≤ π(max_prime)` (the range in
    which `EnvOK.phiVec_eq` is used: the callers pass `a = pi[…] ≤ π(max_prime)`).  So `W.phiNeg = phiNegIdeal` NAMES what the real object computes. -/
theorem world_phi_vector_is_cpp (W : World) {B : ℕ} (h : W.OK B) (hW : W.phiNeg = phiNegIdeal) (c : Sieve.Cfg) (f : Sieve.StopFn)
    (wide : Bool) (y z low a : ℕ) :
    (a ≤ π (min y (z / Nat.sqrt y)) →
      ((W.tablesS c f wide).hardEnv y z).phiVec low a
        = (phiVectorS (vecPhiEnv W.gen W.tthreads (min y (z / Nat.sqrt y)))
            (piTableGet W.gen (min y (z / Nat.sqrt y)) W.tthreads low) (Nat.sqrt low) low a).toArray) ∧
    (a ≤ π y →
      ((W.tablesS c f wide).dEnv y z).phiVec low a
        = (phiVectorS (vecPhiEnv W.gen W.tthreads y) (piTableGet W.gen y W.tthreads low) (Nat.sqrt low) low a).toArray) ∧
    ((W.tables wide).hardEnv = (W.tablesS c f wide).hardEnv ∧ (W.tables wide).dEnv = (W.tablesS c f wide).dEnv) :=
  W.phi_vector_is_cpp h hW c f wide y z low a

/-- the environment of `phi_vector`'s cache meets the table contract of WP phicache (`BaseOK`) from the generator contract alone -/
theorem world_phi_vector_env_ok (gen : PrimeGen) (hg : PrimeGenSpec gen) (threads : ℤ) (P : ℕ) :
    Pc.PhiCacheProofs.BaseOK (vecPhiEnv gen threads P) (π P) := vecPhiEnv_ok gen hg threads P

/-- **`W.OK B` without the `phiVec` field**: kib range, `bnd ≤ 2^64`, (F) float, hints, (S) size -/
theorem world_ok_of_ideal (W : World) (B : ℕ) (hW : W.phiNeg = phiNegIdeal) (kib_lo : 16 ≤ W.kib) (kib_hi : W.kib ≤ 8192)
    (bnd_le : W.bnd ≤ 2 ^ 64) (float : ∀ a b, b < W.bnd → PsCore.FloatOk W.l1raw (max 721 a) b W.kib)
    (hints : ∀ n, W.hn n ≤ It.umax) (size : B ≤ W.N) : W.OK B :=
  W.ok_of_ideal B hW kib_lo kib_hi bnd_le float hints size

/-! non-vacuity (tests, labelled as such) -/

/-- `CallOK` + `works` are satisfiable together with a WRONG `pi_noprint` (`idealTop.piFn = 0`) and enabled caches (`est = 3000`) -/
example : phiCpp idealTop 3000 [List.range' 9 (π (Nat.sqrt 100000) - 8)] (100000 : ℕ) (π (Nat.sqrt 100000) : ℕ)
    = (Spec.phi 100000 (π (Nat.sqrt 100000)) : ℤ) :=
  phi_closed_callOK idealTop 100000 _ (idealTop_callOK _ _ le_rfl) le_rfl 3000 _ (by simp)
/-- the world: `OK` (no float assumption: `bnd = 2^50`; no `phiVec` assumption: `phiNeg = phiNegIdeal`), `PhiRunOK2` at every level (two threads) -/
example : exWorld3.toWorld.OK 100 := exWorld3_ok
example (n : ℕ) : exWorld3.PhiRunOK2 n := exWorld3_phiRunOK2 n
example : exWorld3.toWorld.phiNeg = phiNegIdeal := rfl
example (n : ℕ) (hn : n ≤ 100000000) : exWorld3.phiCpp n (π (Nat.sqrt n)) = Spec.phi n (π (Nat.sqrt n)) :=
  phi_closed_world exWorld3 exWorld3_ok n _ hn le_rfl ((exWorld3_phiRunOK2 n).lit _ le_rfl) ((exWorld3_phiRunOK2 n).works _)

end Pc.C07Closed2

#print axioms Pc.C07Closed2.phi_closed
#print axioms Pc.C07Closed2.phi_closed_callOK
#print axioms Pc.C07Closed2.phi_cpp_ignores_pi_noprint
#print axioms Pc.C07Closed2.phiContract_of_cpp_model
#print axioms Pc.C07Closed2.phi_closed_world
#print axioms Pc.C07Closed2.phiContract_world
#print axioms Pc.C07Closed2.phiNegSpec_ideal
#print axioms Pc.C07Closed2.world_phi_vector_is_cpp
#print axioms Pc.C07Closed2.world_phi_vector_env_ok
#print axioms Pc.C07Closed2.world_ok_of_ideal
