/-
C06 (WP close3, item 1): `nth_prime_cpp_closed` (WP nth's L2 model `nthPrimeCpp` of src/nth_prime.cpp:86-129 whose walk runs on the `Pc.It` state
machine of `primesieve::iterator`, incl. the C API `-1` and the CLI) over the WORLD — the hypothesis `hpi : pi = π below 2^63` that
`C06NthClosed.nth_prime_cpp_closed` kept ONLY because of an import clash (`Pc.It.prevPrime_step` / `nextPrime_step` declared twice; the copies of the
Close* files are renamed `…_stepAt` by this WP) is discharged by `nth_prime_world`'s argument: `World2.nested_s2` at `x = 2^63` (the closed dispatcher
recursion: `pi(int64_t)` over the real tables / iterator / bit-level phi).  The iterator environment is `W.env`, the SAME sieving core as the world's
tables; `PiTable::pi_cache` = the generated table (C17 `piCache_correct`).

REMAINING (complete list): (L) `hlit : p(max_n) < 2^63` (max_n = π(2^63)); (F) `happ : 0 ≤ approx n < 2^63` (`RiemannR_inverse`, long double / __float128
Newton iteration not modelled; NOTHING about its accuracy); the world hypotheses `W.OKmin B` ((F) the sieving-core float assumption below `W.bnd` — a
theorem for `W.bnd ≤ 2^50` —, (S) kib range, hints, size), (S) `B < 2^32`, (L) `PhiRunOK2.lit`, (O) `PhiRunOK2.works`, (O) `hrec`: every `pi(x)`,
`x < 2^63`, was computed by SOME execution of the dispatcher over the world.  `ilog` (stop hint) is arbitrary.
Only property theorems, a non-vacuity example and the axiom audit live here.
-/
import PcProps.C06NthClosed
import PcProofs.Close2Final
import PcProps.C06ClosedWorld
import PcProps.C01Closed3

namespace Pc.C06NthWorld
open Pc Pc.Close Pc.It Pc.NthIt Nat PcGen.ApiConst
open scoped Nat.Prime

local notation "π" => Nat.primeCounting

/-- the environment of `nth_prime` over the world: the iterator's sieving core is the world's, `pi` is the dispatcher's result function
    (int64 argument, int64 result), `pi_cache` the generated table -/
def worldEnv (W : World2) (approx ilog : ℤ → ℤ) (pi : ℕ → ℕ) : NthIt.Env :=
  ⟨W.toWorld.env, approx, fun x => ((pi x.toNat : ℕ) : ℤ), ilog, piCacheLookup PcGen.piCache⟩

/-- the four contracts of WP nth over the world: `core`, `piCache` and now `pi` are theorems; only `approx_range` is left -/
theorem contracts_world (W : World2) {B : ℕ} (h : W.OKmin B) (hB : B < 2 ^ 32) (c : Sieve.Cfg) (f : Sieve.StopFn)
    (approx ilog : ℤ → ℤ) (pi : ℕ → ℕ)
    (hphi : ∀ n : ℕ, PcGen.ApiConst.maxCached < n → n ≤ meisselMax → W.PhiRunOK2 n)
    (hrec : W.NestedS2 c f B pi (2 ^ 63))
    (happ : ∀ n : ℕ, 1 ≤ n → ∃ a : ℕ, a < 2 ^ 63 ∧ approx (n : ℤ) = (a : ℤ)) :
    (worldEnv W approx ilog pi).Contracts where
  core := coreEnvTo_genSpec W.fl W.batch W.l1raw W.kib W.bnd h.bnd_le h.float h.kib_lo h.kib_hi
  pi := fun x hx => by
    show ((pi (x : ℤ).toNat : ℕ) : ℤ) = _
    rw [Int.toNat_natCast, W.nested_s2 (W.ok_of_min h) hB c f pi (2 ^ 63) (fun m _ => hphi m) hrec x (by exact_mod_cast hx) hx]
  piCache := fun m hm => piCache_correct m (by unfold Gen.nthPrimeMaxCached at hm; omega)
  approx_range := happ

/-- **`nth_prime_cpp_world`** — `nth_prime(n) = p_n` for every `1 ≤ n ≤ max_n` (WP nth's model: the walk on the real iterator state machine over
    the world's sieving core), `pi` = the dispatcher over the world: NO `hpi` -/
theorem nth_prime_cpp_world (W : World2) {B : ℕ} (h : W.OKmin B) (hB : B < 2 ^ 32) (c : Sieve.Cfg) (f : Sieve.StopFn)
    (approx ilog : ℤ → ℤ) (pi : ℕ → ℕ)
    (hphi : ∀ n : ℕ, PcGen.ApiConst.maxCached < n → n ≤ meisselMax → W.PhiRunOK2 n)
    (hrec : W.NestedS2 c f B pi (2 ^ 63))
    (happ : ∀ n : ℕ, 1 ≤ n → ∃ a : ℕ, a < 2 ^ 63 ∧ approx (n : ℤ) = (a : ℤ))
    (hlit : Spec.p Gen.nthPrimeMaxN < 2 ^ 63) (n : ℕ) (h1 : 1 ≤ n) (h2 : n ≤ Gen.nthPrimeMaxN) :
    nthPrimeCpp (worldEnv W approx ilog pi) (n : ℤ) = .ok ((Spec.p n : ℕ) : ℤ) :=
  C06Nth.nth_prime_cpp_correct _ (contracts_world W h hB c f approx ilog pi hphi hrec happ) hlit n h1 h2

/-- `primecount <x> --nth-prime` for EVERY evaluated number `x`, over the world -/
theorem cli_nth_prime_world (W : World2) {B : ℕ} (h : W.OKmin B) (hB : B < 2 ^ 32) (c : Sieve.Cfg) (f : Sieve.StopFn)
    (approx ilog : ℤ → ℤ) (pi : ℕ → ℕ)
    (hphi : ∀ n : ℕ, PcGen.ApiConst.maxCached < n → n ≤ meisselMax → W.PhiRunOK2 n)
    (hrec : W.NestedS2 c f B pi (2 ^ 63))
    (happ : ∀ n : ℕ, 1 ≤ n → ∃ a : ℕ, a < 2 ^ 63 ∧ approx (n : ℤ) = (a : ℤ))
    (hlit : Spec.p Gen.nthPrimeMaxN < 2 ^ 63) (x : ℤ) :
    cliNthPrime (worldEnv W approx ilog pi) x =
      if x < -(2 : ℤ) ^ 63 ∨ (2 : ℤ) ^ 63 ≤ x then .error .range
      else if x < 1 then .error (.nth .tooSmall)
      else if x > (Gen.nthPrimeMaxN : ℤ) then .error (.nth .tooLarge)
      else .ok ((Spec.p x.toNat : ℕ) : ℤ) :=
  C06Nth.cli_nth_prime _ (contracts_world W h hB c f approx ilog pi hphi hrec happ) hlit x

/-- `primecount_nth_prime` (api_c.cpp) returns −1 exactly on the domain errors, over the world -/
theorem primecount_nth_prime_minus_one_iff_world (W : World2) {B : ℕ} (h : W.OKmin B) (hB : B < 2 ^ 32) (c : Sieve.Cfg)
    (f : Sieve.StopFn) (approx ilog : ℤ → ℤ) (pi : ℕ → ℕ)
    (hphi : ∀ n : ℕ, PcGen.ApiConst.maxCached < n → n ≤ meisselMax → W.PhiRunOK2 n)
    (hrec : W.NestedS2 c f B pi (2 ^ 63))
    (happ : ∀ n : ℕ, 1 ≤ n → ∃ a : ℕ, a < 2 ^ 63 ∧ approx (n : ℤ) = (a : ℤ))
    (hlit : Spec.p Gen.nthPrimeMaxN < 2 ^ 63) (n : ℤ) :
    NthIt.cNthPrime (worldEnv W approx ilog pi) n = -1 ↔ (n < 1 ∨ n > (Gen.nthPrimeMaxN : ℤ)) :=
  C06Nth.primecount_nth_prime_minus_one_iff _ (contracts_world W h hB c f approx ilog pi hphi hrec happ) hlit n

/-- the two models of `nth_prime` (WP close's `Pc.nthPrime` over `realPrimeIter`, WP nth's `nthPrimeCpp` over the `Pc.It` state machine) can
    now be stated in ONE module over ONE world, and agree on the whole domain (both equal `p_n`) -/
theorem nth_prime_models_agree (W : World2) {B : ℕ} (h : W.OKmin B) (hB : B < 2 ^ 32) (c : Sieve.Cfg) (f : Sieve.StopFn)
    (approx : ℕ → ℕ) (ilog : ℤ → ℤ) (pi : ℕ → ℕ)
    (hphi : ∀ n : ℕ, PcGen.ApiConst.maxCached < n → n ≤ meisselMax → W.PhiRunOK2 n)
    (hrec : W.NestedS2 c f B pi (2 ^ 63))
    (happ : ∀ n : ℕ, 1 ≤ n → approx n < 2 ^ 63)
    (hlit : Spec.p Gen.nthPrimeMaxN < 2 ^ 63) (n : ℕ) (h1 : 1 ≤ n) (h2 : n ≤ Gen.nthPrimeMaxN) :
    nthPrimeCpp (worldEnv W (fun k => ((approx k.toNat : ℕ) : ℤ)) ilog pi) (n : ℤ) = .ok ((Spec.p n : ℕ) : ℤ) ∧
    Pc.nthPrime ⟨approx, pi, piCacheLookup PcGen.piCache, realPrimeIter W.toWorld.env W.hp W.hn⟩ (n : ℤ) = .ok ((Spec.p n : ℕ) : ℤ) :=
  ⟨nth_prime_cpp_world W h hB c f _ ilog pi hphi hrec
      (fun k hk => ⟨approx k, happ k hk, by simp⟩) hlit n h1 h2,
   Pc.C06ClosedWorld.nth_prime_world W h hB c f approx pi hphi hrec hlit n h1 h2 (happ n h1)⟩

/-! non-vacuity: over `exWorld3` (sieving core below 2^50, bit-level PhiCache ENABLED, two threads) `OKmin 100`, `PhiRunOK2 n` for every `n` and
    `approx_range` for every clamped approximation are THEOREMS (no assumption); `hrec` at `2^63` is the (O) hypothesis "every `pi(x)`, `x < 2^63`, was
    computed by some execution" — instantiated up to `10^5` by `exWorld3_nestedS2`, not at `2^63` (it would need an accepted execution for every argument) -/
example (c : Sieve.Cfg) (f : Sieve.StopFn) (approx : ℕ → ℕ) (ilog : ℤ → ℤ) (pi : ℕ → ℕ)
    (hrec : exWorld3.NestedS2 c f 100 pi (2 ^ 63)) (hlit : Spec.p Gen.nthPrimeMaxN < 2 ^ 63) :
    nthPrimeCpp (worldEnv exWorld3 (fun k => ((approx k.toNat % 2 ^ 63 : ℕ) : ℤ)) ilog pi) 5 = .ok 11 := by
  have := nth_prime_cpp_world exWorld3 Pc.C01Closed3.exWorld3_okmin (by norm_num) c f
    (fun k => ((approx k.toNat % 2 ^ 63 : ℕ) : ℤ)) ilog pi (fun n _ _ => exWorld3_phiRunOK2 n) hrec
    (fun n _ => ⟨approx n % 2 ^ 63, Nat.mod_lt _ (by norm_num), by simp⟩) hlit 5 (by norm_num) (by decide)
  simpa [Spec.p] using this

end Pc.C06NthWorld

#print axioms Pc.C06NthWorld.contracts_world
#print axioms Pc.C06NthWorld.nth_prime_cpp_world
#print axioms Pc.C06NthWorld.cli_nth_prime_world
#print axioms Pc.C06NthWorld.primecount_nth_prime_minus_one_iff_world
#print axioms Pc.C06NthWorld.nth_prime_models_agree
