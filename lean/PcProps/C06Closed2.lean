/-
C06, closed (WP close2, item 3) — `nth_prime_closed` / `nth_prime_closed_50` of PcProps/C06Closed.lean with the hypothesis
`hpc : ∀ m ≤ max_cached, piCache m = π m` DISCHARGED: `env.piCache := piCacheLookup PcGen.piCache` (the L2 model of
`PiTable::pi_cache(x)` over the table GENERATED from include/PiTable.hpp / src/PiTable.cpp) and C17's `piCache_correct`
(PcProofs/BitSieve240.lean). WP close could not do this (`Pc.noDivFrom_sound` was declared twice; resolved since).
Remaining hypotheses: (L) `hlit : p(max_n) < 2^63`; (F) `approx n < 2^63` (RiemannR_inverse, not modelled); `pi = π` below 2^63
(= `Pc.C01Closed.nested_calls_are_pi`, not imported here: heavy); (F) the float assumption of WP core2 for the sieving windows
(none in the `_50` form); (S) `16 ≤ kib ≤ 8192`, the stop hints of the iterator `≤ 2^64-1`.
The closed statement about WP nth's model `nthPrimeCpp` is in PcProps/C06NthClosed.lean (PcProofs/NthIt.lean and PcProofs/CloseNth2.lean
both declare `Pc.It.nextPrime_step`, so PcProps/C06Nth.lean and PcProps/C06Closed.lean cannot be imported into one module).
Only property theorems, non-vacuity examples and the axiom audit live here.
-/
import PcProps.C06Closed
import PcProofs.BitSieve240

namespace Pc.C06Closed
open Pc.It

local notation "π" => Nat.primeCounting

/-- what C17 proves of the generated `pi_cache` table is exactly the `piCache` contract of C06 -/
theorem piCache_contract : ∀ m ≤ Gen.nthPrimeMaxCached, piCacheLookup PcGen.piCache m = π m :=
  fun m hm => piCache_correct m (by unfold Gen.nthPrimeMaxCached at hm; omega)

/-- **C06 closed, `piCache` discharged**: `nth_prime(n)` is the n-th prime for every `1 ≤ n ≤ max_n`, with `env.it` := the real iterator
    model over the real sieving-core model (`coreEnvTo … B`, `B ≤ 2^64`), `env.piCache` := the model of `PiTable::pi_cache` over the
    generated table, `env.pi` := any function that is π below `2^63` -/
theorem nth_prime_closed2 (fl : Floats) (batch : ℕ → ℕ) (l1raw kib B : ℕ) (hB : B ≤ 2 ^ 64)
    (hfl : ∀ a b, b < B → Pc.PsCore.FloatOk l1raw (max 721 a) b kib) (hk : 16 ≤ kib) (hk2 : kib ≤ 8192)
    (hp hn : ℕ → ℕ) (hhn : ∀ n, hn n ≤ umax) (approx pi : ℕ → ℕ)
    (hpi : ∀ x, x < 2 ^ 63 → pi x = π x) (hlit : Spec.p Gen.nthPrimeMaxN < 2 ^ 63)
    (n : ℕ) (h1 : 1 ≤ n) (h2 : n ≤ Gen.nthPrimeMaxN) (ha : approx n < 2 ^ 63) :
    nthPrime ⟨approx, pi, piCacheLookup PcGen.piCache, realPrimeIter (coreEnvTo fl batch l1raw kib B) hp hn⟩ (n : ℤ) =
      .ok ((Spec.p n : ℕ) : ℤ) :=
  nth_prime_closed fl batch l1raw kib B hB hfl hk hk2 hp hn hhn approx pi _ hpi piCache_contract hlit n h1 h2 ha

/-- … over the real core on its whole domain `stop < 2^64`, from `CoreFloatOk` -/
theorem nth_prime_closed2_core (fl : Floats) (batch : ℕ → ℕ) (l1raw kib : ℕ) (hfl : CoreFloatOk l1raw kib) (hk : 16 ≤ kib)
    (hk2 : kib ≤ 8192) (hp hn : ℕ → ℕ) (hhn : ∀ n, hn n ≤ umax) (approx pi : ℕ → ℕ)
    (hpi : ∀ x, x < 2 ^ 63 → pi x = π x) (hlit : Spec.p Gen.nthPrimeMaxN < 2 ^ 63)
    (n : ℕ) (h1 : 1 ≤ n) (h2 : n ≤ Gen.nthPrimeMaxN) (ha : approx n < 2 ^ 63) :
    nthPrime ⟨approx, pi, piCacheLookup PcGen.piCache, realPrimeIter (coreEnv fl batch l1raw kib) hp hn⟩ (n : ℤ) =
      .ok ((Spec.p n : ℕ) : ℤ) :=
  nth_prime_closed_core fl batch l1raw kib hfl hk hk2 hp hn hhn approx pi _ hpi piCache_contract hlit n h1 h2 ha

/-- … with the real core used below `2^50`: NO float assumption on the sieve, and `p n < 2^63` for the ONE `n` in question instead of
    the literature constant -/
theorem nth_prime_closed2_50 (fl : Floats) (batch : ℕ → ℕ) (l1raw kib : ℕ) (hk : 16 ≤ kib) (hk2 : kib ≤ 8192)
    (hp hn : ℕ → ℕ) (hhn : ∀ n, hn n ≤ umax) (approx pi : ℕ → ℕ)
    (hpi : ∀ x, x < 2 ^ 63 → pi x = π x) (n : ℕ) (h1 : 1 ≤ n) (h2 : n ≤ Gen.nthPrimeMaxN) (hpn : Spec.p n < 2 ^ 63)
    (ha : approx n < 2 ^ 63) :
    nthPrime ⟨approx, pi, piCacheLookup PcGen.piCache, realPrimeIter (coreEnvTo fl batch l1raw kib (2 ^ 50)) hp hn⟩ (n : ℤ) =
      .ok ((Spec.p n : ℕ) : ℤ) :=
  nth_prime_closed_50 fl batch l1raw kib hk hk2 hp hn hhn approx pi _ hpi piCache_contract n h1 h2 hpn ha

/-! non-vacuity: every hypothesis of `nth_prime_closed2_50` instantiated (real core below 2^50, sieve size 256 KiB, the generated
    `pi_cache` table, ANY approximation below 2^63): `nth_prime(5) = 11` -/
example (approx : ℕ → ℕ) (ha : approx 5 < 2 ^ 63) :
    nthPrime ⟨approx, fun x => π x, piCacheLookup PcGen.piCache,
      realPrimeIter (coreEnvTo ⟨fun _ => 0, fun _ => 0, fun _ => 0, fun _ => 0⟩ (fun _ => 1024) 32768 256 (2 ^ 50))
        (fun _ => 0) (fun _ => 0)⟩ 5 = .ok 11 := by
  have := nth_prime_closed2_50 ⟨fun _ => 0, fun _ => 0, fun _ => 0, fun _ => 0⟩ (fun _ => 1024) 32768 256 (by norm_num)
    (by norm_num) (fun _ => 0) (fun _ => 0) (fun _ => Nat.zero_le _) approx (fun x => π x)
    (fun _ _ => rfl) 5 (by norm_num) (by decide) (by norm_num [Spec.p]) ha
  simpa [Spec.p] using this
/-- the table model really answers: `pi_cache(100) = 25` -/
example : piCacheLookup PcGen.piCache 100 = 25 := by decide +kernel

end Pc.C06Closed

#print axioms Pc.C06Closed.piCache_contract
#print axioms Pc.C06Closed.nth_prime_closed2
#print axioms Pc.C06Closed.nth_prime_closed2_core
#print axioms Pc.C06Closed.nth_prime_closed2_50
