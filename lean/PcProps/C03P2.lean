/- WP p2b (stub, filled below) -/
import PcModel.P2Loop
