/-
C03 (WP p2b) — `P2(x, y)` and `B(x, y)` do not depend on the number of threads, the interleaving of the `get_work`
calls, measured time, the order of the reduction, or on how the prime iterator batches its output.
Only property theorems, non-vacuity examples and the axiom audit live here.

This is `chunk_additive` of DESIGN.md 6.3 for `P2_thread` / `B_thread` "as refinement of the code's loop bounds", and
its combination with the dispenser theorems (`Sys.covers` for `Pc.LB.P2`, the statement behind `C03.dispenser_total_p2`)
and the reduction. A `Run` (PcModel/P2Loop.lean) is a recorded `get_work` history of the real `LoadBalancerP2` — any team
size, any print mode, any order of calls by any number of OpenMP threads; clock values only enter through the
dispenser's float-derived choices, which the acceptor leaves arbitrary — plus the order in which the threads' private
sums are reduced.
-/
import PcProofs.P2LoopEx
import PcGen.P2LoopObl
namespace Pc.C03
open Pc.P2L Pc.LB Finset

/-- `chunk_additive` for `P2_thread` / `B_thread`: the chunk function is additive over adjacent intervals, and the
    real loop computes it on every chunk `0 < low < high` -/
theorem chunk_additive_p2 {it : Iter} (hit : IterSpec it) {pi : ℕ → ℕ} {x : ℕ}
    (hpi : ∀ n, n < x → pi n = Nat.primeCounting n) (y : ℕ) :
    Additive (chunkF x y) ∧
      ∀ low high, 0 < low → low < high →
        p2Thread it pi x y low high = .ok (chunkN x y (low, high)) ∧
        bThread it pi x y low high = .ok (chunkN x y (low, high)) :=
  ⟨chunkF_additive x y, fun _ _ h1 h2 => ⟨p2Thread_eq_chunk hit hpi y h1 h2, p2Thread_eq_chunk hit hpi y h1 h2⟩⟩

/-- the parallel region of `P2_OpenMP` / `B_OpenMP` adds the same value to `sum` on EVERY valid run -/
theorem region_independent_of_run {it : Iter} (hit : IterSpec it) {pi : ℕ → ℕ} {x : ℕ}
    (hpi : ∀ n, n < x → pi n = Nat.primeCounting n) (y : ℕ) (hx : 4 ≤ x) (c : Consts) (hc : c.WF)
    (r : Run) (hv : r.valid c x (x / max y 1) = true) (init : ℤ) :
    reduce (p2Thread it pi x y) r.es init r.order = .ok (init + Spec.B x y) :=
  region_total hit hpi y hx c hc r hv init

/-- `P2_OpenMP`: two valid runs — different team sizes, print modes, call orders, clocks, reduction orders — and two
    iterators with different batching give the same result -/
theorem P2_independent_of_run {it1 it2 : Iter} (h1 : IterSpec it1) (h2 : IterSpec it2) {pi : ℕ → ℕ} {x y a : ℕ}
    (hpi : ∀ n, n < x → pi n = Nat.primeCounting n) (ha : a = Nat.primeCounting y) (hya : pi y = a)
    (c : Consts) (hc : c.WF) (hxy : x / max y 1 < two63) (r1 r2 : Run)
    (hv1 : r1.valid c x (x / max y 1) = true) (hv2 : r2.valid c x (x / max y 1) = true) :
    p2OpenMP c it1 pi x y a r1 = p2OpenMP c it2 pi x y a r2 := by
  rw [p2OpenMP_eq h1 hpi ha hya c hc hxy r1 (fun _ _ => hv1), p2OpenMP_eq h2 hpi ha hya c hc hxy r2 (fun _ _ => hv2)]

/-- the same for `B_OpenMP` -/
theorem B_independent_of_run {it1 it2 : Iter} (h1 : IterSpec it1) (h2 : IterSpec it2) {pi : ℕ → ℕ} {x : ℕ}
    (hpi : ∀ n, n < x → pi n = Nat.primeCounting n) (y : ℕ) (c : Consts) (hc : c.WF)
    (hxy : x / max y 1 < two63) (r1 r2 : Run)
    (hv1 : r1.valid c x (x / max y 1) = true) (hv2 : r2.valid c x (x / max y 1) = true) :
    bOpenMP c it1 pi x y r1 = bOpenMP c it2 pi x y r2 := by
  rw [bOpenMP_eq h1 hpi y c hc hxy r1 (fun _ => hv1), bOpenMP_eq h2 hpi y c hc hxy r2 (fun _ => hv2)]

/-- one chunk: the value does not depend on how the iterator splits the primes into batches -/
theorem chunk_independent_of_batching {it1 it2 : Iter} (h1 : IterSpec it1) (h2 : IterSpec it2) {pi : ℕ → ℕ} {x : ℕ}
    (hpi : ∀ n, n < x → pi n = Nat.primeCounting n) (y : ℕ) {low high : ℕ} (hlow : 0 < low) (hlh : low < high) :
    p2Thread it1 pi x y low high = p2Thread it2 pi x y low high := by
  rw [p2Thread_eq_chunk h1 hpi y hlow hlh, p2Thread_eq_chunk h2 hpi y hlow hlh]

/-! ### non-vacuity (tests, labelled as such) -/

/-- two different complete histories of the real dispenser for `x = 1000`, `y = 3` (`√x = 31`, `x / y = 333`):
    the single-thread run without status output (one chunk, `thread_dist_ = dist`) … -/
def runA : Run := { team := 1, print := false, es := [⟨0, true, 31, 333⟩, ⟨0, false, 333, 333⟩], order := [0] }
/-- … and two OpenMP threads calling into a dispenser whose constructor settled on `threads_ = 1` with status printing:
    `thread_dist_` stays `2^23`, thread 1 gets the only chunk, both get `false` afterwards, reduction order 1, 0 -/
def runB : Run := { team := 1, print := true,
                    es := [⟨1, true, 31, 333⟩, ⟨0, false, 333, 333⟩, ⟨1, false, 333, 333⟩], order := [1, 0] }

example : runA.valid genConsts 1000 (1000 / max 3 1) = true := by decide
example : runB.valid genConsts 1000 (1000 / max 3 1) = true := by decide

example : p2OpenMP genConsts refIter Nat.primeCounting 1000 3 2 runA =
    p2OpenMP genConsts oneIter Nat.primeCounting 1000 3 2 runB :=
  P2_independent_of_run refIter_spec oneIter_spec (fun _ _ => rfl) (by decide) (by decide) genConsts genConsts_wf
    (by decide) runA runB (by decide) (by decide)

example : Additive (chunkF 1000 3) := (chunk_additive_p2 refIter_spec (pi := Nat.primeCounting) (fun _ _ => rfl) 3).1

end Pc.C03

#print axioms Pc.C03.chunk_additive_p2
#print axioms Pc.C03.region_independent_of_run
#print axioms Pc.C03.P2_independent_of_run
#print axioms Pc.C03.B_independent_of_run
#print axioms Pc.C03.chunk_independent_of_batching
