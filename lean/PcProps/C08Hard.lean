/-
C08 (hard special leaves, Deleglise-Rivat): the REAL control flow of `S2_hard_thread` / `S2_hard_OpenMP`
(src/deleglise-rivat/S2_hard.cpp:55-241; model PcModel/HardLoops.lean) computes the class `Spec.S2_hard` of `dr_split`.
Only property theorems, non-vacuity examples and the axiom audit live here.

Vocabulary (PcProofs/HardS2.lean, HardS2Total.lean): `WS2 x y z b lo hi` = value of the hard leaves of level `b` whose position
`x / (p_b m)` lies in `[lo, hi)`; `hardF x y z c (lo, hi) = Σ_{c < b ≤ π y} WS2 x y z b lo hi`; `EnvOK e P` / `FactorOK e tmax y` =
the tables `primes`, `PiTable`, `phi_vector`, `FactorTable` hold what their constructors are proved to write (C17);
`SieveSpec S K` = the counting-sieve contract (instantiated by the bit-exact model of `class Sieve`).
-/
import PcProofs.HardExamples

namespace Pc.C08Hard
open Pc.Hard Nat Finset
open scoped Nat.Prime

/-- **`hard_chunk_eq`** — for EVERY work item `(low, segments, segment_size)`: `low < z`, `low` even, `segment_size ≥ 1`,
    `segments ≥ 1`, accepted by the sieve's constructor (for `class Sieve`: `30 ∣ low`, `segment_size` a positive multiple of
    240), every `1 ≤ y ≤ z`, `z·y ≤ x`, `4 ≤ c`: `S2_hard_thread` returns `.ok` — no read of `pi[]`, `primes[]`, `factor_[]`,
    `phi[]` out of bounds, every `sieve.count(xpm − low)` inside the segment and in non-decreasing order — and its value is
    the sum of the hard leaves `(b, m)`, `c < b ≤ π(y)`, with `low ≤ x/(p_b m) < min(low + segment_size·segments, z)`.
    Inside: the `min_b` / `max_b` pruning loses no leaf (`s2_pruned`), both `goto next_segment` exits are sound
    (`WS2_zero_of_brk`, monotone in `low`), `phi[b] = φ(low − 1, b − 1)` for every level that never broke. -/
theorem hard_chunk_eq {σ : Type} {S : SieveOps σ} {e : Env} {P tmax x y z c low segments segSize : ℕ}
    (hS : ∀ K, K ≤ π P → ∃ H : SieveSpec S K, H.segOK low segSize)
    (hE : EnvOK e P) (hP : P = min y (z / Nat.sqrt y)) (hF : FactorOK e tmax y)
    (hy : 1 ≤ y) (hyz : y ≤ z) (hzyx : z * y ≤ x) (hc : 4 ≤ c) (heven : 2 ∣ low)
    (hsz : 1 ≤ segSize) (hsegs : 1 ≤ segments) (hlow : low < z) :
    s2HardThread S e x y z c low segments segSize = .ok (hardF x y z c (low, chunkLimit low segments segSize z)) :=
  s2HardThread_eq hS hE hP hF hy hyz hzyx hc heven hsz hsegs hlow

/-- the counting-sieve contract is met by the bit-exact model of `class Sieve` (C17) for sieving primes below 2^32 … -/
theorem sieve_model_meets_contract (cfg : Sieve.Cfg) (f : Sieve.StopFn) (primes : Array ℕ) (K : ℕ)
    (hp : ∀ i, 4 ≤ i → i ≤ K → primes.getD i 0 = Spec.p i) (h32 : Spec.p K < 2 ^ 32) :
    ∃ H : SieveSpec (concreteSieve cfg f primes) K,
      ∀ low seg, H.segOK low seg ↔ 30 ∣ low ∧ 240 ∣ seg ∧ 0 < seg ∧ seg / 30 * 8 < 2 ^ 32 :=
  ⟨concreteSieve_spec cfg f primes K hp h32, fun _ _ => Iff.rfl⟩

/-- … so that **no abstract hypothesis about the sieve remains**: the chunk theorem with `class Sieve`'s model inside, for
    every CPU configuration / counting path and every work item LoadBalancerS2 can hand out -/
theorem hard_chunk_eq_sieve_model (cfg : Sieve.Cfg) (f : Sieve.StopFn) (primesArr : Array ℕ) {e : Env}
    {P tmax x y z c low segments segSize : ℕ}
    (hparr : ∀ i, 4 ≤ i → i ≤ π P → primesArr.getD i 0 = Spec.p i) (h32 : P < 2 ^ 32)
    (hE : EnvOK e P) (hP : P = min y (z / Nat.sqrt y)) (hF : FactorOK e tmax y)
    (hy : 1 ≤ y) (hyz : y ≤ z) (hzyx : z * y ≤ x) (hc : 4 ≤ c)
    (hlow : 240 ∣ low) (hseg240 : 240 ∣ segSize) (hseg0 : 0 < segSize) (hsmall : segSize / 30 * 8 < 2 ^ 32)
    (hsegs : 1 ≤ segments) (hlz : low < z) :
    s2HardThread (concreteSieve cfg f primesArr) e x y z c low segments segSize =
      .ok (hardF x y z c (low, chunkLimit low segments segSize z)) :=
  s2HardThread_concrete cfg f primesArr hparr h32 hE hP hF hy hyz hzyx hc hlow hseg240 hseg0 hsmall hsegs hlz

/-- chunk additivity (DESIGN 6.3 `chunk_additive` for the special-leaf engine) -/
theorem hard_chunk_additive (x y z c : ℕ) : LB.Additive (hardF x y z c) := hardF_additive x y z c

/-- the window `[0, x / y)` holds every hard leaf: the class of `dr_split` -/
theorem hard_window_full {x y c : ℕ} (hy : 1 ≤ y) (hyx : y * y ≤ x) (hc : c ≤ π y) :
    hardF x y (x / y) c (0, x / y) = Spec.S2_hard x y c := hardF_full hy hyx hc

/-- **`hard_chunks_total`** — any chain of work items covering `[0, z)`, `z = x / y`, each evaluated by the real control flow
    of `S2_hard_thread` (reference sieve; `hard_chunk_eq` for any other), sums to `Spec.S2_hard x y c` -/
theorem hard_chunks_total {e : Env} {P tmax x y c : ℕ}
    (hE : EnvOK e P) (hP : P = min y (x / y / Nat.sqrt y)) (hF : FactorOK e tmax y)
    (hy : 1 ≤ y) (hyx : y * y ≤ x) (hc : 4 ≤ c) (hcy : c ≤ π y)
    (items : List (ℕ × ℕ × ℕ))
    (hitems : ∀ it ∈ items, 2 ∣ it.1 ∧ it.1 < x / y ∧ 1 ≤ it.2.1 ∧ 1 ≤ it.2.2)
    (hch : LB.Chain 0 (x / y) (items.map fun it => (it.1, chunkLimit it.1 it.2.1 it.2.2 (x / y)))) :
    (∀ it ∈ items, s2HardThread (refSieve e.primes) e x y (x / y) c it.1 it.2.1 it.2.2 =
        .ok (hardF x y (x / y) c (it.1, chunkLimit it.1 it.2.1 it.2.2 (x / y)))) ∧
    LB.sumF (hardF x y (x / y) c) (items.map fun it => (it.1, chunkLimit it.1 it.2.1 it.2.2 (x / y))) = Spec.S2_hard x y c := by
  have hyz : y ≤ x / y := (Nat.le_div_iff_mul_le (by omega)).2 hyx
  refine ⟨fun it hit => ?_, s2_chunks_total hy hyx hcy hch⟩
  obtain ⟨h1, h2, h3, h4⟩ := hitems it hit
  exact s2HardThread_ref hE hP hF hy hyz (Nat.div_mul_le_self x y) hc h1 h4 h3 h2

/-- **`dr_total_with_hard_loops`** — with S2_hard computed by the real control flow of the parallel region (any accepted
    history of LoadBalancerS2) and the other terms by their definitions, Deleglise-Rivat adds up to π(x) -/
theorem dr_total_with_hard_loops {e : Env} {P tmax x y c : ℕ} (lc : LB.Consts) (hlc : lc.WF) (threads : ℕ) (print : Bool)
    (hE : EnvOK e P) (hP : P = min y (x / y / Nat.sqrt y)) (hF : FactorOK e tmax y)
    (hy : 1 ≤ y) (hyx : y * y ≤ x) (hx3 : x < (y + 1) ^ 3) (hc : 4 ≤ c) (hcy : c ≤ π y) (es : List LB.S2.Ev) (v : ℤ)
    (h : s2HardOpenMP (refSieve e.primes) e lc x y (x / y) c threads print es = .ok v) :
    (π x : ℤ) = Spec.S1 x y c + Spec.S2_trivial x y c + Spec.S2_easy x y c + v + π y - 1 - Spec.P2 x (π y) := by
  rw [s2HardOpenMP_ref lc hlc threads print hE hP hF hy hyx hc hcy es v h]
  exact Spec.pi_dr hy hyx hx3 hcy

/-! non-vacuity (tests, labelled as such): environments meeting `EnvOK` / `FactorOK` exist for every bound, and the hypotheses
    of `hard_chunk_eq` hold on concrete work items with two segments each (x = 10^6, y = 100, z = 10^4, c = 4) -/
example : EnvOK (idealEnv 100 65535 100) 100 := idealEnv_ok 100 65535 100
example : FactorOK (idealEnv 100 65535 100) 65535 100 := idealEnv_factor_ok 100 65535 100 (by norm_num) (by norm_num [Nat.sqrt])
example : (100 : ℕ) = min 100 (10000 / Nat.sqrt 100) := by
  have : Nat.sqrt 100 = 10 := by norm_num [Nat.sqrt]
  rw [this]; norm_num
example : ∃ v, s2HardThread (refSieve (idealEnv 100 65535 100).primes) (idealEnv 100 65535 100) 1000000 100 10000 4 240 2 240
    = .ok v :=
  ⟨_, s2HardThread_ref (idealEnv_ok 100 65535 100)
    (by have : Nat.sqrt 100 = 10 := by norm_num [Nat.sqrt]
        rw [this]; norm_num)
    (idealEnv_factor_ok 100 65535 100 (by norm_num) (by norm_num [Nat.sqrt]))
    (by norm_num) (by norm_num) (by norm_num) (by norm_num) (by norm_num) (by norm_num) (by norm_num) (by norm_num)⟩
/-- two adjacent work items form a chain -/
example : LB.Chain 0 960 [(0, chunkLimit 0 2 240 10000), (480, chunkLimit 480 2 240 10000)] := by
  simp [LB.Chain, chunkLimit]
/-- the sieve contract is inhabited (bit-exact model, primes up to 23) -/
example : Nonempty (SieveSpec (concreteSieve .portable (.pop64 false) exPrimes) 9) :=
  ⟨concreteSieve_spec _ _ exPrimes 9 exPrimes_ok (by rw [p_nine]; norm_num)⟩

end Pc.C08Hard

#print axioms Pc.C08Hard.hard_chunk_eq
#print axioms Pc.C08Hard.sieve_model_meets_contract
#print axioms Pc.C08Hard.hard_chunk_eq_sieve_model
#print axioms Pc.C08Hard.hard_chunk_additive
#print axioms Pc.C08Hard.hard_window_full
#print axioms Pc.C08Hard.hard_chunks_total
#print axioms Pc.C08Hard.dr_total_with_hard_loops
