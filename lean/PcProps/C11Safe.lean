/-
C11 — the 64-bit division kernels used on 128-bit operands are safe (work package "params").
-/
import PcProofs.ParamsL2

namespace Pc.C11Safe

/-- `fast_div64(x, y)` returns the quotient exactly when it fits 64 bits (otherwise the `div` instruction traps) -/
theorem fast_div64_defined (x y : ℕ) (hy : 0 < y) (h : x / y < 2 ^ 64) : fastDiv64 x y = some (x / y) :=
  fastDiv64_eq_some hy h

end Pc.C11Safe

#print axioms Pc.C11Safe.fast_div64_defined
