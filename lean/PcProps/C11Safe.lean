/-
C11 — the 64-bit `div` kernel used on 128-bit operands is safe at every call site (work package "params").

`fast_div64(x, y)` (include/fast_div.hpp 103-133) executes the x86 `div` instruction: 128-bit dividend, 64-bit divisor,
the quotient MUST fit 64 bits, otherwise the CPU raises #DE. Model: `fastDiv64 x y = some (x / y)` iff `x / y < 2^64`
(`PcModel/ParamsL2.lean`; the stream `fast_div64_boundary` executes the real instruction on boundary operands in a
child process and observes SIGFPE exactly where the model says `none`).

Each theorem below is one call site (or a family with the same guard). Its hypotheses are the loop guards of that site
as written in the source; the magnitude hypotheses (`x / z < 2^64`, `x < 2^128`, `y < 2^64`) are discharged from the
parameter ranges by `PcProps/C12Params.lean` (`*_of_params` below). Notation: `xp = x / prime`.
Only property theorems, examples and the axiom audit live here.
-/
import PcProofs.ParamsL2Dr

namespace Pc.C11Safe

/-- `fast_div64` returns the quotient exactly when it fits 64 bits -/
theorem fast_div64_defined (x y : ℕ) (hy : 0 < y) (h : x / y < 2 ^ 64) : fastDiv64 x y = some (x / y) :=
  fastDiv64_eq_some hy h

/-- and traps otherwise -/
theorem fast_div64_traps (x y : ℕ) (h : 2 ^ 64 ≤ x / y) : fastDiv64 x y = none := by
  unfold fastDiv64
  split
  · rfl
  · rw [if_neg (by omega)]

/-- **A_128** (`AC.cpp` 77, 85; `AC_libdivide.cpp` 128, 136): `xpq = fast_div64(xp, primes[i])` with
    `prime = primes[b]`, `b ≥ pi[max(x_star, ·)] + 1` (so `prime > x⋆ ≥ ⌊x^(1/4)⌋`) and `i ≥ pi[max(prime, ·)] + 1`
    (so `primes[i] > prime`): the quotient is below `√x·(1+o(1)) ≤ 2^64` for every `x < 2^128`. -/
theorem fast_div64_safe_A (x p q : ℕ) (hx : x < 2 ^ 128) (hp : irootN 4 x < p) (hq : p < q) :
    fastDiv64 (x / p) q = some (x / p / q) :=
  fastDiv64_eq_some (by omega) (div_div_lt_of_root4_lt hx hp hq)

/-- **special leaves beyond z** — C1 (`AC.cpp` 128, `AC_libdivide.cpp` 179: `m64 > min_m`, `min_m = min(max(xp/prime²,
    z/prime), max_m)`, `m64 ≤ max_m`) and the first loop of `D_thread` (`D.cpp` 123 and the two multiarch copies:
    `m > min_m = max(xp_high, z / prime)`): the divisor `m` exceeds `z / prime`, hence `prime·m > z` and the quotient is at
    most `x / z`. -/
theorem fast_div64_safe_beyond_z (x z p m : ℕ) (hz : 0 < z) (hxz : x / z < 2 ^ 64) (hp : 0 < p) (hm : z / p < m) :
    fastDiv64 (x / p) m = some (x / p / m) :=
  fastDiv64_eq_some (Nat.lt_of_le_of_lt (Nat.zero_le _) hm)
    (lt_of_le_of_lt (div_div_le_of_lt_mul hz (lt_mul_of_div_lt hp hm)) hxz)

/-- C1 with the guard exactly as in the source -/
theorem fast_div64_safe_C1 (x z p m maxM : ℕ) (hz : 0 < z) (hxz : x / z < 2 ^ 64) (hp : 0 < p)
    (hmin : min (max (x / p / (p * p)) (z / p)) maxM < m) (hmax : m ≤ maxM) :
    fastDiv64 (x / p) m = some (x / p / m) := by
  apply fast_div64_safe_beyond_z x z p m hz hxz hp
  rcases min_choice (max (x / p / (p * p)) (z / p)) maxM with h | h
  · rw [h] at hmin; exact lt_of_le_of_lt (le_max_right _ _) hmin
  · rw [h] at hmin; omega

/-- D, first loop, guard as in the source: `m > max(xp_high, z / prime)` -/
theorem fast_div64_safe_D_leaf (x z p m xpHigh : ℕ) (hz : 0 < z) (hxz : x / z < 2 ^ 64) (hp : 0 < p)
    (hm : max xpHigh (z / p) < m) : fastDiv64 (x / p) m = some (x / p / m) :=
  fast_div64_safe_beyond_z x z p m hz hxz hp (lt_of_le_of_lt (le_max_right _ _) hm)

/-- **two primes beyond √z** — C2_128 (`AC.cpp` 174, 190; `AC_libdivide.cpp` 283, 299: `b ≥ min_c2 > pi[isqrt(z)]`,
    `primes[i] > min_m ≥ prime`) and the second loop of `D_thread` (`D.cpp` 154: `b > pi_sqrtz`,
    `primes[l] > min_m = max(xp_high, prime)`): `prime > ⌊√z⌋` and `q ≥ prime` give `prime·q > z`. -/
theorem fast_div64_safe_two_primes (x z p q : ℕ) (hz : 0 < z) (hxz : x / z < 2 ^ 64) (hp : Nat.sqrt z < p) (hq : p ≤ q) :
    fastDiv64 (x / p) q = some (x / p / q) :=
  fastDiv64_eq_some (by omega) (lt_of_le_of_lt (div_div_le_of_lt_mul hz (lt_mul_of_sqrt_lt hp hq)) hxz)

/-- **the second division of a clustered leaf** — `xpq2 = fast_div64(xp, primes[pi_xpq + 1])` (`AC.cpp` 177,
    `AC_libdivide.cpp` 286, `S2_easy.cpp` 92, `S2_easy_libdivide.cpp` 126): the divisor is the first prime above
    `xpq = xp / q`, so the quotient is below `q ≤ y < 2^64`. -/
theorem fast_div64_safe_second (xp q q' : ℕ) (hq : 0 < q) (hq64 : q ≤ 2 ^ 64) (h : xp / q < q') :
    fastDiv64 xp q' = some (xp / q') :=
  fastDiv64_eq_some (Nat.lt_of_le_of_lt (Nat.zero_le _) h) (lt_of_lt_of_le (div_lt_of_div_lt hq h) hq64)

/-- **S2_hard** first loop (`S2_hard.cpp` 122 and the multiarch copies): `m > min_m = max(xp_high, y / prime)`, quotient
    `≤ x / y = z` -/
theorem fast_div64_safe_S2_hard_leaf (x y p m xpHigh : ℕ) (hy : 0 < y) (hxy : x / y < 2 ^ 64) (hp : 0 < p)
    (hm : max xpHigh (y / p) < m) : fastDiv64 (x / p) m = some (x / p / m) :=
  fast_div64_safe_beyond_z x y p m hy hxy hp (lt_of_le_of_lt (le_max_right _ _) hm)

/-- **S2_hard** second loop (`S2_hard.cpp` 152): `b > pi_sqrty`, `primes[l] > min_hard = max(xp_high, prime)` -/
theorem fast_div64_safe_S2_hard_two_primes (x y p q xpHigh : ℕ) (hy : 0 < y) (hxy : x / y < 2 ^ 64)
    (hp : Nat.sqrt y < p) (hq : max xpHigh p < q) : fastDiv64 (x / p) q = some (x / p / q) :=
  fast_div64_safe_two_primes x y p q hy hxy hp (le_of_lt (lt_of_le_of_lt (le_max_right _ _) hq))

/-- **S2_easy, clustered leaves** (`S2_easy.cpp` 89, `S2_easy_libdivide.cpp` 124): `l > pi[min_clustered]` with
    `min_clustered = in_between(prime, isqrt(xp), y)`, `primes[l] ≤ min_trivial ≤ y`, `prime ≤ x13 ≤ y`: the divisor exceeds
    `√xp`, the quotient is at most `√xp < 2^64`. -/
theorem fast_div64_safe_S2_easy_clustered (xp y p q : ℕ) (hxp : xp < 2 ^ 128) (hpy : p ≤ y) (hqy : q ≤ y)
    (hq : inBetween p (Nat.sqrt xp) y < q) : fastDiv64 xp q = some (xp / q) := by
  have h1 := min_le_inBetween (p : ℤ) (Nat.sqrt xp : ℤ) (y : ℤ) (by exact_mod_cast hpy)
  have h2 : (Nat.sqrt xp : ℤ) < q := by
    rcases min_choice ((Nat.sqrt xp : ℕ) : ℤ) (y : ℤ) with h | h
    · rw [h] at h1; exact lt_of_le_of_lt h1 hq
    · rw [h] at h1
      have : (y : ℤ) < q := lt_of_le_of_lt h1 hq
      have : (q : ℤ) ≤ y := by exact_mod_cast hqy
      omega
  have h3 : Nat.sqrt xp < q := by exact_mod_cast h2
  apply fastDiv64_eq_some (by omega)
  have h4 : Nat.sqrt xp < 2 ^ 64 := Nat.sqrt_lt.2 (lt_of_lt_of_le hxp (by norm_num))
  exact lt_of_le_of_lt (div_le_sqrt_of_sqrt_lt h3) h4

/-- **S2_easy, sparse leaves** (`S2_easy.cpp` 105, `S2_easy_libdivide.cpp` 139): `l > pi[min_sparse]`,
    `min_sparse = in_between(prime, z / prime, y)`, `primes[l] ≤ y`: the divisor exceeds `z / prime`. -/
theorem fast_div64_safe_S2_easy_sparse (x y z p q : ℕ) (hz : 0 < z) (hxz : x / z < 2 ^ 64) (hp : 0 < p) (hpy : p ≤ y)
    (hqy : q ≤ y) (hq : inBetween p (z / p : ℕ) y < q) : fastDiv64 (x / p) q = some (x / p / q) := by
  have h1 := min_le_inBetween (p : ℤ) ((z / p : ℕ) : ℤ) (y : ℤ) (by exact_mod_cast hpy)
  have h2 : ((z / p : ℕ) : ℤ) < q := by
    rcases min_choice ((z / p : ℕ) : ℤ) (y : ℤ) with h | h
    · rw [h] at h1; exact lt_of_le_of_lt h1 hq
    · rw [h] at h1
      have : (y : ℤ) < q := lt_of_le_of_lt h1 hq
      have : (q : ℤ) ≤ y := by exact_mod_cast hqy
      omega
  exact fast_div64_safe_beyond_z x z p q hz hxz hp (by exact_mod_cast h2)

/-! ### the magnitude hypotheses follow from the parameter ranges (C12Params) -/

/-- Gourdon: for the parameters any accepted run derives, `x / z < 2^64`, `x / y < 2^64`, `y < 2^64`, `x < 2^128`
    and (x ≥ 64) `⌊x^(1/4)⌋ ≤ x⋆` — exactly what the call-site theorems above consume -/
theorem gourdon_magnitudes_of_params (x : ℕ) (threads : ℤ) (o : GOut) (hx : x < 2 ^ 127) (h : GourdonRange x threads o) :
    x / o.z.toNat < 2 ^ 64 ∧ x / o.y.toNat < 2 ^ 64 ∧ o.y.toNat ≤ 2 ^ 64 ∧ 0 < o.z.toNat ∧ 0 < o.y.toNat ∧ x < 2 ^ 128 ∧
    (64 ≤ x → irootN 4 x ≤ o.xStar.toNat) := by
  obtain ⟨_, _, hy1, hyz, _, _, _, _, _, _, _, _, _, hxy, hxyE, hxzE, _, _, hft32, _, _, _, _, _, _, _, _, _, hord⟩ := h
  have hz1 : 1 ≤ o.z := le_trans hy1 hyz
  obtain ⟨n, hn⟩ := Int.eq_ofNat_of_zero_le (le_trans zero_le_one hy1)
  obtain ⟨nz, hnz⟩ := Int.eq_ofNat_of_zero_le (le_trans zero_le_one hz1)
  have e1 : (x : ℤ) / o.y = ((x / n : ℕ) : ℤ) := by rw [hn]; exact (Int.natCast_ediv x n).symm
  have hxy' : ((x / n : ℕ) : ℤ) ≤ i64Max := by rw [← e1, ← hxyE]; exact hxy
  have hnn : n ≤ nz := by omega
  have hn1 : 1 ≤ n := by omega
  have hxzle : x / nz ≤ x / n := Nat.div_le_div_left hnn hn1
  have hyn : o.y.toNat = n := by rw [hn]; exact Int.toNat_natCast n
  have hzn : o.z.toNat = nz := by rw [hnz]; exact Int.toNat_natCast nz
  unfold i64Max at hxy'
  have h63 : x / n < 2 ^ 63 := by omega
  have hft : (factorTableMax 32 : ℤ) = 18446744056529682435 := by unfold factorTableMax; norm_num
  rw [hft] at hft32
  rw [hyn, hzn]
  refine ⟨by omega, by omega, by omega, by omega, by omega, lt_trans hx (by norm_num), ?_⟩
  intro h64
  have := (hord h64).2.2.2.1
  omega

/-- Deleglise-Rivat: `x / y = z < 2^64` (S2_hard), `y < 2^64`, and `x / z ≤ z < 2^64` (S2_easy sparse) when `y ≤ z` -/
theorem dr_magnitudes_of_params (x : ℕ) (threads : ℤ) (o : DOut) (h : DrRange x threads o) :
    x / o.y.toNat < 2 ^ 64 ∧ o.y.toNat ≤ 2 ^ 64 ∧ 0 < o.y.toNat ∧ 0 < o.z.toNat ∧ (o.y ≤ o.z → x / o.z.toNat < 2 ^ 64) := by
  obtain ⟨hc1, hcy, hy63, hz1, hz63, hzE, _⟩ := h
  have hy1 : 1 ≤ o.y := le_trans hc1 hcy
  obtain ⟨n, hn⟩ := Int.eq_ofNat_of_zero_le (le_trans zero_le_one hy1)
  obtain ⟨nz, hnz⟩ := Int.eq_ofNat_of_zero_le (le_trans zero_le_one hz1)
  have e1 : (x : ℤ) / o.y = ((x / n : ℕ) : ℤ) := by rw [hn]; exact (Int.natCast_ediv x n).symm
  have hyn : o.y.toNat = n := by rw [hn]; exact Int.toNat_natCast n
  have hzn : o.z.toNat = nz := by rw [hnz]; exact Int.toNat_natCast nz
  have hz' : ((x / n : ℕ) : ℤ) = (nz : ℤ) := by rw [← e1, ← hzE, hnz]
  have hz'' : x / n = nz := by exact_mod_cast hz'
  unfold i64Max at hy63 hz63
  rw [hyn, hzn]
  refine ⟨by omega, by omega, by omega, by omega, fun hyz => ?_⟩
  have hnn : n ≤ nz := by omega
  have : x / nz ≤ x / n := Nat.div_le_div_left hnn (by omega)
  omega

/-! ### non-vacuity (tests, labelled as such) -/

example : fastDiv64 (2 ^ 100 + 12345) (2 ^ 40) = some (2 ^ 60) := by decide
example : fastDiv64 (2 ^ 104) (2 ^ 40 - 1) = none := by decide
/-- a D / C2 leaf at x = 10^20, z = 10^9: prime 31627 > √z = 31622, q = 31643 -/
example : fastDiv64 (10 ^ 20 / 31627) 31643 = some (10 ^ 20 / 31627 / 31643) :=
  fast_div64_safe_two_primes (10 ^ 20) (10 ^ 9) 31627 31643 (by norm_num) (by norm_num)
    (Nat.sqrt_lt.2 (by norm_num)) (by norm_num)

end Pc.C11Safe

#print axioms Pc.C11Safe.fast_div64_defined
#print axioms Pc.C11Safe.fast_div64_traps
#print axioms Pc.C11Safe.fast_div64_safe_A
#print axioms Pc.C11Safe.fast_div64_safe_beyond_z
#print axioms Pc.C11Safe.fast_div64_safe_C1
#print axioms Pc.C11Safe.fast_div64_safe_D_leaf
#print axioms Pc.C11Safe.fast_div64_safe_two_primes
#print axioms Pc.C11Safe.fast_div64_safe_second
#print axioms Pc.C11Safe.fast_div64_safe_S2_hard_leaf
#print axioms Pc.C11Safe.fast_div64_safe_S2_hard_two_primes
#print axioms Pc.C11Safe.fast_div64_safe_S2_easy_clustered
#print axioms Pc.C11Safe.fast_div64_safe_S2_easy_sparse
#print axioms Pc.C11Safe.gourdon_magnitudes_of_params
#print axioms Pc.C11Safe.dr_magnitudes_of_params
