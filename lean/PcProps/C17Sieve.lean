/-
C17 (counting-sieve half) — the segmented counting sieve reports, after any sequence of crossing-off operations
over any sequence of segments starting at any aligned offset, exactly how many numbers remain unsieved up to any
position and in total.  Only property theorems, non-vacuity examples and the axiom audit live here.

Model: `PcModel/Sieve.lean` (bit-exact L2 of `class Sieve`: byte array, little-endian 64-bit views, constructor,
`reset_sieve` with the last-word mask, `add`, table-driven `cross_off` with the unrolled loops /
`cross_off_count` with `COUNT_UNSET_BIT`, counter array, incremental `count(stop)`, `count(start, stop)`, three
popcount paths).  The 64-entry switch tables, the 8 unrolled loops, `wheel_init` and `wheel_offsets` are GENERATED
from src/Sieve.cpp (`PcGen/WheelData.lean`) and tied to their defining formulas by `PcGen/WheelObl.lean`.
-/
import PcProofs.Sieve

namespace Pc.C17Sieve
open Pc.Sieve Pc.WheelSpec

/-- **Wheel step** (generic, from the three table equations that the generated obligations check on the
    extracted `case` lines).  `q = 30P + ρ_g` is the sieving number, `q·u` with `u = 30U + w_j` its current
    multiple, `(bit, k, c, next)` the entry of `case 8g+j`.  Then: the multiple is bit `bit` of byte `(q·u)/30`;
    `q·(u+k)` is the NEXT multiple of `q` coprime to 30; its byte index is `m + P·k + c`; `next` is the case
    for wheel position `j+1` of the same residue class. -/
theorem wheel_step_correct (g j : ℕ) (hg : g < 8) (hj : j < 8) (P U : ℕ) :
    let q := 30 * P + rho g
    let u := 30 * U + wheelW j
    let e := Gen.wheelTab.getD (8 * g + j) (0, 0, 0, 0)
    (q * u) % 30 = residues.getD e.1 0 ∧ e.1 < 8 ∧
    (q * (u + e.2.1)) / 30 = (q * u) / 30 + P * e.2.1 + e.2.2.1 ∧
    Nat.Coprime (u + e.2.1) 30 ∧
    (∀ t, u < t → t < u + e.2.1 → ¬ Nat.Coprime t 30) ∧
    e.2.2.2 = 8 * g + (j + 1) % 8 ∧
    (u + e.2.1) % 30 = wheelW ((j + 1) % 8) :=
  Pc.Sieve.wheel_step_correct g j hg hj P U

/-- `Sieve::cross_off_count` is driven by the same 64 entries as `Sieve::cross_off`. -/
theorem wheel_tables_agree : Gen.wheelTabCount = Gen.wheelTab := Gen.wheelTabCount_eq

/-- **One round of an unrolled fast loop = one full turn of the wheel**: started at wheel position 0 with pending
    multiple `q·u` it clears exactly the bits of the multiples `q·t`, `u ≤ t < u + 30`, and leaves the wheel at
    position 0 with pending multiple `q·(u + 30)`, byte `m + 30·P + ρ`. -/
theorem unrolled_round_correct (q P g L : ℕ) (hq : q = 30 * P + rho g) (hg : g < 8) (hL : 30 ∣ L) (m u : ℕ)
    (hp : Pos q L m 0 u) (s : Bytes) :
    Pos q L (m + P * 30 + rho g) 0 (u + 30) ∧
    (∀ p, bitAt (fastRound P (Gen.wheelFastBody.getD g []) m s) p = true ↔
      (bitAt s p = true ∧ ¬ Hit q L u (u + 30) p)) := by
  rw [expectedFastBody_getD g hg]
  exact ⟨(fastRound_spec q P g L hq hg hL m u hp s).1, (fastRound_spec q P g L hq hg hL m u hp s).2.1⟩

/-- **One sieving number in one segment** (`fast = true`: the switch of `cross_off` with its unrolled loops;
    `fast = false`: the switch of `cross_off_count`).  From a correct wheel state the switch terminates, clears
    exactly the bits whose number is divisible by `q`, and returns the correct wheel state for the NEXT segment
    (carry-over). -/
theorem cross_segment_correct (fast : Bool) (q L : ℕ) (hL : 30 ∣ L) (w : Wheel) (hslot : SlotOk q L w)
    (hq32 : q < 2 ^ 32) (s : Bytes) (hok : BytesOk s) :
    (∀ p, bitAt (crossLoop fast (q / 30) s.size (crossFuel s.size w.multiple) w.multiple w.index s).2.2 p = true ↔
      (bitAt s p = true ∧ ¬ q ∣ L + offsetOfBit p)) ∧
    SlotOk q (L + 30 * s.size)
      ⟨(crossLoop fast (q / 30) s.size (crossFuel s.size w.multiple) w.multiple w.index s).1 % M32,
       (crossLoop fast (q / 30) s.size (crossFuel s.size w.multiple) w.multiple w.index s).2.1⟩ :=
  ⟨(cross_segment fast q L hL w hslot hq32 s hok).1, (cross_segment fast q L hL w hslot hq32 s hok).2.2.2⟩

/-- **`Sieve::add`** (wheel init via `wheel_init` / `wheel_offsets`): the new slot points at the first multiple
    `> start_` of `q` whose cofactor is coprime to 30. -/
theorem add_correct (S q : ℕ) (hS : 30 ∣ S) (hq : Nat.gcd q 30 = 1) (hq32 : q < 2 ^ 32) : SlotOk q S (addWheel S q) :=
  addWheel_spec S q hS hq hq32

/-- **`reset_sieve`** incl. the last-partial-word mask: afterwards a bit is set iff its number is `< high − low`. -/
theorem reset_sieve_correct (σ : State) (n : ℕ) (hw : σ.sieve.size % 8 = 0) (h1 : 1 ≤ n) (h2 : n ≤ σ.segmentSize) :
    BytesOk (resetSieve σ n).sieve ∧ (∀ p, bitAt (resetSieve σ n).sieve p = true ↔ offsetOfBit p < n) :=
  ⟨(resetSieve_spec σ n hw h1 h2).1, (resetSieve_spec σ n hw h1 h2).2.1⟩

/-- **`count(start, stop)`** returns the number of set bits whose number lies in `[start, stop]`
    (under every CPU configuration). -/
theorem countRange_correct (cfg : Cfg) (σ : State) (hb : BytesOk σ.sieve) (hsz : σ.sieve.size < 2 ^ 58)
    (a b : ℕ) (hab : a ≤ b) (hb2 : b < σ.segmentSize) :
    countRange cfg σ a b = bitsIn σ.sieve a b := by
  unfold countRange
  rw [if_neg (by omega), countWords_eq cfg _ (word64_lt _ hb.lt),
    countSpec_eq_bitsIn σ.sieve hb a b hab (by unfold State.segmentSize at hb2; omega)]
  apply Nat.mod_eq_of_lt
  have := bitsIn_le σ.sieve a b
  simp only [M64]; omega

/-- **One `count(stop)` query** (any of the three instruction paths): if the incremental state invariant holds,
    the counter array holds the number of set bits of every block and `prev_stop ≤ stop < segment_size`, the
    call returns the number of set bits whose number is `≤ stop`, re-establishes the invariant and changes
    nothing but `prev_stop_, count_, counter_.{i,sum,stop}`. -/
theorem count_correct (f : StopFn) (σ : State) (hb : BytesOk σ.sieve) (hsz : σ.sieve.size < 2 ^ 58)
    (hc : CounterOk σ) (hi : IncInv σ) (stop : ℕ) (h1 : σ.prevStop ≤ stop) (h2 : stop < σ.segmentSize) :
    (countStop f σ stop).2 = bitsLt σ.sieve (stop + 1) ∧ IncInv (countStop f σ stop).1 ∧
    SameData σ (countStop f σ stop).1 ∧ (countStop f σ stop).1.prevStop = stop :=
  countStop_correct f σ hb hsz hc hi stop h1 h2

/-- **Every non-decreasing query sequence between resets** is answered exactly. -/
theorem count_sequence_correct (f : StopFn) (stops : List ℕ) (σ : State) (hb : BytesOk σ.sieve)
    (hsz : σ.sieve.size < 2 ^ 58) (hc : CounterOk σ) (hi : IncInv σ) (hmono : stops.Pairwise (· ≤ ·))
    (hr : ∀ b ∈ stops, σ.prevStop ≤ b ∧ b < σ.segmentSize) :
    (countSeq f σ stops).2 = stops.map (fun b => bitsLt σ.sieve (b + 1)) :=
  (countSeq_correct f stops σ hb hsz hc hi hmono hr).1

/-- **Object invariant, `cross_off` / `cross_off_count`** (`sieve_inv`, sieve-array and wheel part): crossing off
    the next slot with `q` adds `q` to the set of numbers no set bit is divisible by; the slot's wheel state now
    points into the next segment; all other slots are untouched. -/
theorem sieve_inv_cross (σ : State) (G : Ghost) (h : BitsInv σ G) (q : ℕ) (hav : Avail σ G q) :
    BitsInv (crossOff σ q (4 + G.k)) (G.crossed q) ∧ BitsInv (crossOffCount σ q (4 + G.k)) (G.crossed q) :=
  ⟨h.cross true q hav _ (crossOff_sieve σ q _) (crossOff_wheel σ q _) rfl,
   h.cross false q hav _ (crossOffCount_sieve σ q _) (crossOffCount_wheel σ q _) rfl⟩

/-- **Object invariant, counters** (`sieve_inv`, counter part): after `cross_off_count` the counter array again
    holds the number of set bits of every block, `total_count_` the number of all set bits, and the incremental
    counting state is reset. -/
theorem sieve_inv_counters (σ : State) (G : Ghost) (hb : BitsInv σ G) (hc : CountInv σ) (q : ℕ) (hav : Avail σ G q) :
    CountInv (crossOffCount σ q (4 + G.k)) :=
  hc.xc q (4 + G.k) (hb.slot_index q hav)

/-- **Object invariant, `pre_sieve`** between two segments: `reset_sieve`, the `cross_off` loop over
    `primes[4..c]` and `init_counter` establish both parts of the invariant for the new segment `[L, L + n)`. -/
theorem sieve_inv_pre (cfg : Cfg) (σ : State) (L : ℕ) (qs : List ℕ) (hr : Ready σ L qs) (primes : Array ℕ) (c n : ℕ)
    (h1 : 1 ≤ n) (hn : n ≤ σ.segmentSize)
    (hav : AvailAll σ.wheel.size σ.start ⟨L, n, qs, 0⟩ (preList primes c)) :
    BitsInv (preSieve cfg σ primes c n) ((⟨L, n, qs, 0⟩ : Ghost).crossedAll (preList primes c)) ∧
    CountInv (preSieve cfg σ primes c n) :=
  ⟨(preSieve_spec cfg σ L qs hr primes c n h1 hn hav).1, (preSieve_spec cfg σ L qs hr primes c n h1 hn hav).2.1⟩

/-- **Carry-over**: after a segment, the slots used in it are in sync with the next segment. -/
theorem sieve_inv_next_segment (σ : State) (G : Ghost) (hb : BitsInv σ G) (hc : CountInv σ) :
    Ready σ (G.L + σ.segmentSize) (G.qs.take G.k) := ready_of_inv hb hc

/-- **Set bits are numbers**: under the invariant the number of set bits with number in `[a, b]` is the naive
    count from the definition. -/
theorem bits_are_unsieved_numbers (σ : State) (G : Ghost) (h : BitsInv σ G) (a b : ℕ) (hab : a ≤ b)
    (hb : b < σ.segmentSize) :
    bitsIn σ.sieve a b = specCount G.L G.n (G.qs.take G.k) a b := bitsIn_eq_specCount σ G h a b hab hb

/-- **The segmented counting sieve answers every query exactly** (`sieve_inv` + `count_correct` composed over whole
    histories).  Construct the object at ANY `low` divisible by 30 with ANY segment size (array < 2^29 bytes)
    under ANY CPU configuration; run ANY history accepted by the specification machine `specOp`
    (consecutive segments incl. a short last one, any `pre_sieve(c)`, `cross_off_count` of slots in order — new
    slots only in the first segment, as `Sieve::add` requires —, non-decreasing `count(stop)` through any of the
    three instruction paths, `count(a, b)`, `get_total_count()`): every value the model of `class Sieve` returns
    equals the naive count from the definition `specCount`. -/
theorem sieve_correct (cfg : Cfg) (primes : Array ℕ) (low seg : ℕ) (hlow : 30 ∣ low)
    (hsmall : alignSegmentSize seg / 30 * 8 < 2 ^ 32) (ops : List Op) (outs : List ℕ)
    (h : specRun primes (specInit low seg) ops = some outs) :
    runOps cfg primes (create cfg low seg) ops = outs :=
  Pc.Sieve.sieve_correct cfg primes low seg hlow hsmall ops outs h

/-- **`phi_vector`** (model `PcModel/PhiVector.lean`): for every `x`, `a` and every `1 ≤ i ≤ a`,
    `phi_vector(x, a)[i] = φ(x, i − 1)` — given the environment of the code: `primes[i]` is the i-th prime,
    `pi[x] = π(x)`, `isqrt(x) = ⌊√x⌋` (C12), and the inner `PhiCache::phi<-1>` returns `−φ` (C07). -/
theorem phiVector_correct (primes : ℕ → ℕ) (phiNeg : ℕ → ℕ → ℤ) (x : ℕ)
    (hprimes : ∀ i, 1 ≤ i → primes i = Spec.p i) (hinner : ∀ y b, phiNeg y b = -(Spec.phi y b : ℤ))
    (a i : ℕ) (hi1 : 1 ≤ i) (hia : i ≤ a) :
    (PhiVec.phiVector primes (Nat.primeCounting x) (Nat.sqrt x) phiNeg x a).getD i 0 = (Spec.phi x (i - 1) : ℤ) :=
  PhiVec.phiVector_correct primes phiNeg x hprimes hinner a i hi1 hia

/-! non-vacuity (tests, labelled as such) -/
example : (Gen.wheelTab.getD (8 * 1 + 3) (0, 0, 0, 0)) = (0, 4, 0, 12) := by decide
example : bitsLt #[0xff, 0, 0, 0, 0, 0, 0, 0x80] 240 = 9 := by decide
/-- a two-segment history is accepted by the specification machine and has the expected values -/
example : specRun #[0, 2, 3, 5, 7, 11, 13] (specInit 30 480)
    [.pre 4 30 510, .total, .count (.pop64 true) 100, .crossCount 11 5, .count .avx512 479, .total,
     .pre 5 510 700, .range 3 150, .total] = some [110, 22, 100, 100, 31, 39] := by decide +kernel
example : runOps .avx512 #[0, 2, 3, 5, 7, 11, 13] (create .avx512 30 480)
    [.pre 4 30 510, .total, .count (.pop64 true) 100, .crossCount 11 5, .count .avx512 479, .total,
     .pre 5 510 700, .range 3 150, .total] = [110, 22, 100, 100, 31, 39] :=
  sieve_correct _ _ 30 480 (by decide) (by decide) _ _ (by decide +kernel)

end Pc.C17Sieve

#print axioms Pc.C17Sieve.wheel_step_correct
#print axioms Pc.C17Sieve.wheel_tables_agree
#print axioms Pc.C17Sieve.unrolled_round_correct
#print axioms Pc.C17Sieve.cross_segment_correct
#print axioms Pc.C17Sieve.add_correct
#print axioms Pc.C17Sieve.reset_sieve_correct
#print axioms Pc.C17Sieve.countRange_correct
#print axioms Pc.C17Sieve.count_correct
#print axioms Pc.C17Sieve.count_sequence_correct
#print axioms Pc.C17Sieve.sieve_inv_cross
#print axioms Pc.C17Sieve.sieve_inv_counters
#print axioms Pc.C17Sieve.sieve_inv_pre
#print axioms Pc.C17Sieve.sieve_inv_next_segment
#print axioms Pc.C17Sieve.bits_are_unsieved_numbers
#print axioms Pc.C17Sieve.sieve_correct
#print axioms Pc.C17Sieve.phiVector_correct
