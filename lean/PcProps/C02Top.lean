/-
C02 (top-level algorithms with ALL terms by their real control flow): `pi_deleglise_rivat_64/128` and `pi_gourdon_64/128`
(model PcModel/TopAlgs.lean: the composing functions of src/deleglise-rivat/pi_deleglise_rivat.cpp and src/gourdon/pi_gourdon.cpp,
every term the L2 model of its loops, the parameters derived in checked arithmetic) return π(x) — for every float outcome inside
the named envelopes, every distribution of every `omp for`, every valid run of the P2 / B regions and every recorded
LoadBalancerS2 history (a history that is not a run of the dispenser by honest workers is answered with `badRun`; no other
failure is possible).  Only property theorems, non-vacuity examples and the axiom audit live here.

Named contracts (hypotheses): `TablesOK` (tables / iterator / sieve hold what their constructors are proved to write),
`DrExec` / `GExec` (float envelope `DrEnv` / `GourdonEnv`, schedules, valid P2 / B run, the table `t` reaches what the callees
allocate), `AcLoopEqDef` (THE AC HOOK, inside `GExec.adm.ac`: to be discharged by `ac_loop_eq_def` of WP ac2).
-/
import PcProofs.TopAlgsEx

namespace Pc.C02Top
open Pc.Top Pc.Hard Nat
open scoped Nat.Prime

/-- **`piDeleglieRivat_eq_pi`** — `pi_deleglise_rivat_64(x)` (`wide = false`, EVERY int64 `x`) and `pi_deleglise_rivat_128(x)`
    (`wide = true`, every int128 `x` the range check accepts with `x^(1/3)·x^(1/6) < 2^53`, i.e. every `x < 2^106`):
    `x < 2 → 0`; otherwise `y = (int64_t)(x13·alpha)`, `z = x / y`, `c = get_c(y)` (checked: `drL2`), `pi_y = pi_noprint(y)`,
    `P2` by `P2_OpenMP`'s loops on any valid run, `S1` by `S1_OpenMP` on any distribution, `S2_trivial` by its loop + closed form,
    `S2_easy` by the libdivide kernels on any distribution, `S2_hard` by `S2_hard_OpenMP` / `S2_hard_thread` on any recorded
    history, `sum = s1 + s2 + pi_y - 1 - p2`: the result is π(x).  Nested `pi_noprint` calls are only assumed below `x`. -/
theorem piDeleglieRivat_eq_pi {σ : Type} (T : Tables σ) {B : ℕ} (hT : TablesOK T B) (pi : ℕ → ℕ) (wide : Bool) (x : ℤ)
    (hx : InType wide x) (threads : ℤ) (isPrint : Bool) (r : DrRun)
    (hpi : ∀ n : ℕ, (n : ℤ) < x → pi n = π n) (hex : 2 ≤ x → DrExec T B wide x.toNat r) :
    piDeleglieRivat T pi wide x threads isPrint r = .ok (π x.toNat : ℤ) ∨
      piDeleglieRivat T pi wide x threads isPrint r = .error (.hard .badRun) :=
  piDeleglieRivat_total T hT pi wide x hx threads isPrint r hpi hex

/-- in particular: whenever the model returns a value, it is π(x) -/
theorem piDeleglieRivat_value {σ : Type} (T : Tables σ) {B : ℕ} (hT : TablesOK T B) (pi : ℕ → ℕ) (wide : Bool) (x : ℤ)
    (hx : InType wide x) (threads : ℤ) (isPrint : Bool) (r : DrRun)
    (hpi : ∀ n : ℕ, (n : ℤ) < x → pi n = π n) (hex : 2 ≤ x → DrExec T B wide x.toNat r) (v : ℤ)
    (h : piDeleglieRivat T pi wide x threads isPrint r = .ok v) : v = π x.toNat := by
  rcases piDeleglieRivat_total T hT pi wide x hx threads isPrint r hpi hex with h' | h'
  · rw [h] at h'; injection h'
  · rw [h] at h'; cases h'

/-- what the real code rejects is an error of the model: `pi_deleglise_rivat_128(x)` with `x > get_max_x(alpha)` -/
theorem piDeleglieRivat_rejects_beyond_limit {σ : Type} (T : Tables σ) (pi : ℕ → ℕ) (x : ℕ) (hx2 : 2 ≤ x) (hx : x < 2 ^ 127)
    (threads : ℤ) (isPrint : Bool) (r : DrRun) (a : ℚ) (henv : DrEnv x a r.fo) (h : r.fo.maxX < (x : ℤ)) :
    piDeleglieRivat T pi true (x : ℤ) threads isPrint r = .error (.params .range) :=
  piDeleglieRivat_rejects T pi x hx2 hx threads isPrint r a henv h

/-- **`piGourdon_eq_pi_partial`** — `pi_gourdon_64(x)` / `pi_gourdon_128(x)`: `x < 2 → 0`; for `x ≥ 2401 = 7^4` (so that
    `k = get_k(x) ≥ 4`): `y`, `z`, `k` by the clamps in checked arithmetic (`gourdonL2`), `Sigma`, `Phi0` (any distribution), `B`
    (any valid run), `D` by `D_OpenMP` / `D_thread` on any recorded history, `AC` by its loop model THROUGH THE HOOK
    `AcLoopEqDef` (hypothesis `hex.adm.ac`), `sum = ac - b + d + phi0 + sigma`: the result is π(x).  Nested `pi_noprint` calls are assumed only at int64 arguments
    below `x` (where `B_thread` makes them: `bOpenMP_eq_sharp`).
    MISSING for the full statement (hence `_partial`): `2 ≤ x < 2401`.  There `get_k(x) < 4`, while `class Sieve` / FactorTableD
    cannot process a level `b ≤ 4` (`d_chunk_eq` needs `4 ≤ k`); the real `D` is still right because every level leaves through
    `goto next_segment` at once (no D leaf exists below x = 17 303) — that argument is not formalised, and for `x < 64` the clamps
    do not give `x^(1/3) < y < √x`, which `Spec.GParams.pi_gourdon` needs.  The dispatcher uses Gourdon only above 10^8. -/
theorem piGourdon_eq_pi_partial {σ : Type} (T : Tables σ) {B : ℕ} (hT : TablesOK T B) (pi : ℕ → ℕ) (wide : Bool) (x : ℤ)
    (hx : InType wide x) (hsmall : x < 2 ∨ 2401 ≤ x) (threads : ℤ) (isPrint : Bool) (r : GRun)
    (hpi : ∀ n : ℕ, (n : ℤ) < x → n < 2 ^ 63 → pi n = π n) (hex : 2 ≤ x → GExec T B wide x.toNat r) :
    piGourdon T pi wide x threads isPrint r = .ok (π x.toNat : ℤ) ∨
      piGourdon T pi wide x threads isPrint r = .error (.hard .badRun) :=
  piGourdon_total T hT pi wide x hx hsmall threads isPrint r hpi hex

theorem piGourdon_rejects_beyond_limit {σ : Type} (T : Tables σ) (pi : ℕ → ℕ) (x : ℕ) (hx2 : 2 ≤ x) (hx : x < 2 ^ 127)
    (threads : ℤ) (isPrint : Bool) (r : GRun) (ay az : ℚ) (henv : GourdonEnv x ay az r.fo) (h : r.fo.maxX < (x : ℤ)) :
    piGourdon T pi true (x : ℤ) threads isPrint r = .error (.params .range) :=
  piGourdon_rejects T pi x hx2 hx threads isPrint r ay az henv h

/-- C02's reading: on a common argument the two algorithms (any widths, any runs) that return a value return the SAME value -/
theorem dr_gourdon_agree {σ : Type} (T : Tables σ) {B : ℕ} (hT : TablesOK T B) (pi : ℕ → ℕ) (w1 w2 : Bool) (x : ℤ)
    (hx1 : InType w1 x) (hx2 : InType w2 x) (hsmall : x < 2 ∨ 2401 ≤ x) (t1 t2 : ℤ) (p1 p2 : Bool) (r1 : DrRun) (r2 : GRun)
    (hpi : ∀ n : ℕ, (n : ℤ) < x → pi n = π n) (hex1 : 2 ≤ x → DrExec T B w1 x.toNat r1)
    (hex2 : 2 ≤ x → GExec T B w2 x.toNat r2) (v1 v2 : ℤ)
    (h1 : piDeleglieRivat T pi w1 x t1 p1 r1 = .ok v1) (h2 : piGourdon T pi w2 x t2 p2 r2 = .ok v2) : v1 = v2 := by
  rw [piDeleglieRivat_value T hT pi w1 x hx1 t1 p1 r1 hpi hex1 v1 h1]
  rcases piGourdon_total T hT pi w2 x hx2 hsmall t2 p2 r2 (fun n hn _ => hpi n hn) hex2 with h' | h'
  · rw [h2] at h'; injection h' with h'; exact h'.symm
  · rw [h2] at h'; cases h'

/-- the S2_hard region for the `c` Deleglise-Rivat passes — including `c = get_c(y) < 4` (`y < 7`), where the thread function
    leaves through `if (min_b > max_b) return 0` -/
theorem s2_hard_region_for_get_c {σ : Type} (S : SieveOps σ) {e : Env} {P tmax x y : ℕ}
    (hS : ∀ K, K ≤ π P → ∃ H : SieveSpec S K, ∀ low seg, 240 ∣ low → 240 ∣ seg → 0 < seg → H.segOK low seg)
    (lc : LB.Consts) (hlc : lc.WF) (threads : ℕ) (print : Bool)
    (hE : EnvOK e P) (hP : P = min y (x / y / Nat.sqrt y)) (hF : FactorOK e tmax y)
    (hy : 1 ≤ y) (hyx : y * y ≤ x) (es : List LB.S2.Ev) :
    s2HardOpenMP S e lc x y (x / y) (getC y) threads print es = .ok (Spec.S2_hard x y (getC y)) ∨
      s2HardOpenMP S e lc x y (x / y) (getC y) threads print es = .error .badRun :=
  s2HardOpenMP_top S hS lc hlc threads print hE hP hF hy hyx (getC_cases y) (Pc.Top.getC_le_pi y) es

/-! non-vacuity (tests, labelled as such) -/

/-- every table / iterator / sieve contract is met by ideal objects, for every bound -/
example (N B : ℕ) : TablesOK (idealTables N) B := idealTables_ok N B
/-- the float envelope holds on the real floats of `pi_deleglise_rivat_64(100000)` under alpha = 1 -/
example : DrEnv 100000 1 exDrFloats := exDrEnv
/-- a recorded valid run of P2's region for x = 10^5, y = 46 -/
example : exP2Run.valid LB.genConsts 100000 (100000 / max 46 1) = true := by decide
/-- the two distributions used are distributions -/
example : IsSchedule 9 14 (leafSched 9 14 46 1) := leafSched_isSchedule _ _ _ _
example : InType false 100000 ∧ ¬ InType false (2 ^ 63) ∧ InType true (2 ^ 63) := by
  unfold InType; norm_num
/-- a COMPLETE non-trivial instance of the hypotheses (x = 10^5, y = 46, c = 8 < π(y) = 14: six special-leaf levels) and the
    theorem applied to it: with an empty LoadBalancerS2 history the model answers `badRun`, with a recorded run π(10^5) -/
example : DrExec (idealTables 3000) 100 false 100000 exDrRun := exDrExec
example := piDeleglieRivat_eq_pi (idealTables 3000) (idealTables_ok 3000 100) Nat.primeCounting false 100000
  (by unfold InType; norm_num) 1 false exDrRun (fun _ _ => rfl) (fun _ => exDrExec)

end Pc.C02Top

#print axioms Pc.C02Top.piDeleglieRivat_eq_pi
#print axioms Pc.C02Top.piDeleglieRivat_value
#print axioms Pc.C02Top.piDeleglieRivat_rejects_beyond_limit
#print axioms Pc.C02Top.piGourdon_eq_pi_partial
#print axioms Pc.C02Top.piGourdon_rejects_beyond_limit
#print axioms Pc.C02Top.dr_gourdon_agree
#print axioms Pc.C02Top.s2_hard_region_for_get_c
