/-
C18 — the whole-history theorem of the bundled primesieve's iterator (WP iter2).
Only property theorems, non-vacuity examples and the axiom audit live here.
Model: PcModel/Iter.lean (`nextPrime`, `prevPrime`, `jumpTo`, `clear`, `genNext`, `run`). Abstract cursor `Cur`, abstract
semantics `absRun`, abstraction relation `Inv`: PcProofs/IterHist.lean; corollaries PcProofs/IterHist2.lean, IterHist3.lean.
-/
import PcProofs.IterHist3

namespace Pc.C18
open Pc.It

/-- `history_correct`: for EVERY core meeting `GenSpec`, every float outcome and batching (they are fields of `e`), every
    start and stop hint below 2^64 and EVERY finite history of `next_prime()` / `prev_prime()` / `jump_to(start, hint)` (uint64
    arguments; `clear()` is `jump_to(0)`, see `clear_is_jump`) the real iterator's model returns exactly what the abstract
    cursor returns — value by value — and it throws `primesieve_error` exactly when the abstract cursor has no next prime below
    2^64 (the history ends there). No other error (`oob` = read outside `primes_[0 .. size_)`, `hang`) is possible.
    The abstract cursor `absRun` is a position in the prime sequence: `next` = smallest prime `≥ hi`, `prev` = largest prime
    `≤ lo` (0 when there is none), `⟨lo, hi⟩ = ⟨a, a⟩` after `jump_to(a)` and `⟨v - 1, v + 1⟩` after a call returned `v`. -/
theorem history_correct (e : Env) (he : GenSpec e) (start hint : ℕ) (hs : start ≤ umax) (hh : hint ≤ umax)
    (ops : List Op) (hv : ∀ op ∈ ops, op.valid) :
    run e (init start hint) ops = absRun (Cur.fresh start) ops :=
  run_eq_absRun e he ops _ _ (inv_init start hint hs hh) hv

/-- `clear()` is `jump_to(0)` with the default stop hint: histories with `clear` are histories with `.jump 0 umax` -/
theorem clear_is_jump (s : St) : clear s = jumpTo s 0 umax := rfl

/-- the refinement behind `history_correct`, one operation at a time, from ANY state related to a cursor `c` (i.e. after any
    history): `next_prime()` returns the cursor's next value (or throws when there is none below 2^64), `prev_prime()` never
    fails and returns the cursor's previous value, `jump_to` / `clear` reposition, and the relation is re-established -/
theorem ops_refine_cursor (e : Env) (he : GenSpec e) (s : St) (c : Cur) (h : Inv s c) :
    (∀ p, absNext c = some p → ∃ s', nextPrime e s = .ok (p, s') ∧ Inv s' (Cur.at p)) ∧
    (absNext c = none → nextPrime e s = .error .ps) ∧
    (∃ s', prevPrime e s = .ok (absPrev c, s') ∧ Inv s' (Cur.at (absPrev c))) ∧
    (∀ a hint, a ≤ umax → hint ≤ umax → Inv (jumpTo s a hint) (Cur.fresh a)) ∧
    Inv (clear s) (Cur.fresh 0) :=
  ⟨(next_step e he h).1, (next_step e he h).2, prev_step e he h, fun a hint ha hh => inv_jump s a hint ha hh, inv_clear s⟩

/-- `next_yields_primes_ge_start`: `k` calls of `next_prime()` on a fresh iterator return the first `k` primes `≥ start`:
    the returned list is strictly increasing and holds exactly the primes of `[start, its last entry]`; all `k` values are
    returned unless the primes below 2^64 run out — then every prime of `[start, 2^64)` was returned before the
    `primesieve_error` -/
theorem next_yields_primes_ge_start (e : Env) (he : GenSpec e) (start hint : ℕ) (hs : start ≤ umax) (hh : hint ≤ umax) (k : ℕ) :
    (∀ L, (run e (init start hint) (List.replicate k .next)).1.getLast? = some L →
      PrimesIn (run e (init start hint) (List.replicate k .next)).1 start L) ∧
    (((run e (init start hint) (List.replicate k .next)).2 = none ∧
        (run e (init start hint) (List.replicate k .next)).1.length = k) ∨
     ((run e (init start hint) (List.replicate k .next)).2 = some .ps ∧
        (run e (init start hint) (List.replicate k .next)).1.length < k ∧
        ∀ q, q.Prime → start ≤ q → q ≤ umax → q ∈ (run e (init start hint) (List.replicate k .next)).1)) := by
  have hv : ∀ op ∈ List.replicate k Op.next, op.valid := by
    intro op hop; rw [List.eq_of_mem_replicate hop]; trivial
  rw [history_correct e he start hint hs hh _ hv]
  obtain ⟨h1, h2⟩ := absRun_next k (Cur.fresh start)
  exact ⟨fun L hL => h1.primesIn _ _ L hL, h2⟩

/-- `prev_yields_primes_le_start`: `k` calls of `prev_prime()` on a fresh iterator never fail and return `prevSeq v k` with
    `v` the largest prime `≤ start` (0 when there is none): each value is the largest prime below its predecessor … -/
theorem prev_yields_primes_le_start (e : Env) (he : GenSpec e) (start hint : ℕ) (hs : start ≤ umax) (hh : hint ≤ umax) (k : ℕ) :
    run e (init start hint) (List.replicate k .prev) = (prevSeq (Nat.findGreatest Nat.Prime start) k, none) := by
  have hv : ∀ op ∈ List.replicate k Op.prev, op.valid := by
    intro op hop; rw [List.eq_of_mem_replicate hop]; trivial
  rw [history_correct e he start hint hs hh _ hv]
  exact absRun_prev k _

/-- … i.e. the returned values are strictly decreasing until 0, every non-zero one is a prime `≤ start`, no prime between two
    returned values is left out, and once 0 (below 2) it is 0 forever -/
theorem prev_sequence_shape (start k : ℕ) :
    (prevSeq (Nat.findGreatest Nat.Prime start) k).Pairwise (fun a b => b < a ∨ (a = 0 ∧ b = 0)) ∧
    (∀ q ∈ prevSeq (Nat.findGreatest Nat.Prime start) k, q = 0 ∨ (q.Prime ∧ q ≤ start)) ∧
    (∀ q, q.Prime → q ≤ start → ∀ x ∈ prevSeq (Nat.findGreatest Nat.Prime start) k, x ≤ q →
      q ∈ prevSeq (Nat.findGreatest Nat.Prime start) k) ∧
    prevSeq 0 k = List.replicate k 0 := by
  have hv : Nat.findGreatest Nat.Prime start = 0 ∨ (Nat.findGreatest Nat.Prime start).Prime := by
    by_cases h0 : Nat.findGreatest Nat.Prime start = 0
    · exact Or.inl h0
    · exact Or.inr (Nat.findGreatest_of_ne_zero rfl h0)
  obtain ⟨h1, h2, h3⟩ := prevSeq_spec k _ hv
  refine ⟨h1, fun q hq => ?_, fun q hq hle => h3 q hq (Nat.le_findGreatest hle hq), prevSeq_zero k⟩
  rcases h2 q hq with h | ⟨h, hle⟩
  · exact Or.inl h
  · exact Or.inr ⟨h, le_trans hle (Nat.findGreatest_le _)⟩

/-- `buffer_contract` in the GENERAL position: after ANY history `ops` (that did not throw) of a fresh iterator, with the
    cursor then at `c = endCur …`, and whatever `i_` was set to (`j`): `generate_next_primes()` continues at some `n` at or
    above the cursor, the primes it skips (`hi ≤ q < n`) are entries of the OLD buffer (the unread rest; none right after a
    `jump_to`), it terminates with a NON-EMPTY strictly increasing buffer holding exactly the primes of `[n, last]`, `i_ = 0`,
    the state is again related to the cursor on `primes_[0]` (so any history may follow) — or it throws when no prime of
    `[n, 2^64)` exists -/
theorem buffer_contract (e : Env) (he : GenSpec e) (start hint : ℕ) (hs : start ≤ umax) (hh : hint ≤ umax)
    (ops : List Op) (hv : ∀ op ∈ ops, op.valid) (s : St) (hrun : runSt e (init start hint) ops = .ok s) (j : ℕ) :
    ∃ n, (endCur (Cur.fresh start) ops).hi ≤ n ∧ n ≤ umax ∧
      (∀ q, q.Prime → (endCur (Cur.fresh start) ops).hi ≤ q → q < n → q ∈ s.buf) ∧
      ((∃ p, p.Prime ∧ n ≤ p ∧ p ≤ umax) →
        ∃ s', genNext e bigFuel { s with i := j } = .ok s' ∧ s'.i = 0 ∧
          ∃ h0 : 0 < s'.buf.length, (∀ L, s'.buf.getLast? = some L → PrimesIn s'.buf n L) ∧
            Inv s' (Cur.at s'.buf[0]) ∧ IsNext n s'.buf[0]) ∧
      ((∀ p, p.Prime → n ≤ p → ¬ p ≤ umax) → genNext e bigFuel { s with i := j } = .error .ps) := by
  have hinv := runSt_inv e he ops _ _ (inv_init start hint hs hh) hv s hrun
  obtain ⟨n, h1, h2, h3, hok, herr⟩ := gen_step e he hinv j
  refine ⟨n, h1, h2, h3, fun hp => ?_, herr⟩
  obtain ⟨s', hs', hd, h0, hi, hn, hi0⟩ := hok hp
  exact ⟨s', hs', hi0, h0, fun L hL => (hd.covers L hL).1, hi, hn⟩

/-- `buffer_contract` for the clients that only call `generate_next_primes()` and move `i_` themselves (P2.cpp:65-76,
    StorePrimes.hpp): the first buffer of a fresh iterator holds exactly the primes of `[start, L₀]`, and after a buffer ending
    in `L` the next one holds exactly the primes of `[L + 1, L']` (`Batch s n L`), whatever `i_` is; `primesieve_error`
    exactly when no prime is left below 2^64 -/
theorem buffer_contract_batches (e : Env) (he : GenSpec e) :
    (∀ start hint, start ≤ umax → hint ≤ umax → (∃ p, p.Prime ∧ start ≤ p ∧ p ≤ umax) →
      ∃ s' L', genNext e bigFuel (init start hint) = .ok s' ∧ s'.i = 0 ∧ Batch s' start L') ∧
    (∀ s n L j, Batch s n L → (∃ p, p.Prime ∧ L + 1 ≤ p ∧ p ≤ umax) →
      ∃ s' L', genNext e bigFuel { s with i := j } = .ok s' ∧ s'.i = 0 ∧ Batch s' (L + 1) L') ∧
    (∀ s n L j, Batch s n L → (∀ p, p.Prime → L + 1 ≤ p → ¬ p ≤ umax) → genNext e bigFuel { s with i := j } = .error .ps) :=
  ⟨fun start hint hs hh hp => (Batch.first e he start hint hs hh).1 hp,
   fun _ _ _ j hb hp => ((hb.set_i j).next e he).1 hp,
   fun _ _ _ j hb hp => ((hb.set_i j).next e he).2 hp⟩

/-! non-vacuity: the reference core meets `GenSpec`; a mixed history with a jump is valid and evaluates -/
example (fl : Floats) (batch : ℕ → ℕ) : GenSpec (refEnv fl batch) := refEnv_spec fl batch
example : ∀ op ∈ [Op.next, .prev, .jump 100 5, .next, .next, .prev], op.valid := by
  intro op hop
  simp only [List.mem_cons, List.not_mem_nil, or_false] at hop
  rcases hop with rfl | rfl | rfl | rfl | rfl | rfl <;> trivial
example : (run (refEnv ⟨fun _ => 0, fun _ => 0, fun _ => 0, fun _ => 0⟩ (fun _ => 2)) (init 10 0)
    [.next, .prev, .prev, .jump 3 0, .prev, .prev, .prev, .next]) = ([11, 7, 5, 3, 2, 0, 2], none) := by
  decide +kernel
example : Inv (init 10 0) (Cur.fresh 10) := inv_init 10 0 (by decide) (by decide)
example : prevSeq 7 5 = [7, 5, 3, 2, 0] := by
  have h6 : Nat.findGreatest Nat.Prime 6 = 5 := by decide
  have h4 : Nat.findGreatest Nat.Prime 4 = 3 := by decide
  have h2 : Nat.findGreatest Nat.Prime 2 = 2 := by decide
  have h1 : Nat.findGreatest Nat.Prime 1 = 0 := by decide
  simp [prevSeq, h6, h4, h2, h1]

end Pc.C18

#print axioms Pc.C18.history_correct
#print axioms Pc.C18.clear_is_jump
#print axioms Pc.C18.ops_refine_cursor
#print axioms Pc.C18.next_yields_primes_ge_start
#print axioms Pc.C18.prev_yields_primes_le_start
#print axioms Pc.C18.prev_sequence_shape
#print axioms Pc.C18.buffer_contract
#print axioms Pc.C18.buffer_contract_batches
