/-
C18 — the cached tables of the bundled primesieve (lib/primesieve/src/PrimeGenerator.cpp `smallPrimes`, `primePi`) as the
iterator-layer model PcModel/Iter.lean uses them.  The model's literals are tied to /repo's CURRENT source by
translator/extract_psiter.py: it regenerates PcGen/PsIterData.lean on every run and PcGen/PsIterObl.lean states (kernel
`decide`) that `Pc.It.smallPrimes`, `maxCached`, the `getNextDist` / `getPrevDist` literals, `maxN`, `maxPrime64`,
`smallTuplets` ARE the extracted values and that the extracted tables are the trial-division tables.  Importing
PcGen.PsIterObl makes every one of these obligations part of this property's build.  Proofs: PcProofs/IterTables.lean.
-/
import PcGen.PsIterObl
import PcProofs.PsCore2RunC
import PcProofs.IterTables

namespace Pc.C18Tables

/-- `smallPrimes` (model copy = source table) is exactly the set of primes below 720, strictly increasing -/
theorem small_primes_table :
    (∀ p : ℕ, p ∈ Pc.It.smallPrimes ↔ p.Prime ∧ p < 720) ∧ Pc.It.smallPrimes.Pairwise (· < ·) :=
  ⟨Pc.ItTables.mem_smallPrimes, Pc.ItTables.smallPrimes_sorted⟩

/-- `primePi[n]` of the source (= the model's `primePi n`) is the number of primes `<= n`, for every index `n < 720` -/
theorem prime_pi_table (n : ℕ) (hn : n < 720) :
    Pc.It.primePi n = Pc.Gen.psiPrimePi.getD n 0 ∧ Pc.It.primePi n = Nat.count Nat.Prime (n + 1) :=
  ⟨Pc.ItTables.primePi_eq_table n hn, Pc.ItTables.primePi_eq_count n hn⟩

example : Pc.It.primePi 719 = 128 ∧ Nat.count Nat.Prime 720 = 128 := by
  have h := prime_pi_table 719 (by decide)
  have e : Pc.It.primePi 719 = 128 := by decide +kernel
  exact ⟨e, by rw [← h.2, e]⟩

/-- `maxCachedPrime()` is the largest prime below 720 -/
theorem max_cached_is_last : Pc.It.maxCached ∈ Pc.It.smallPrimes ∧ ∀ p ∈ Pc.It.smallPrimes, p ≤ Pc.It.maxCached := by
  refine ⟨by decide, fun p hp => ?_⟩
  have := ((small_primes_table).1 p).1 hp
  have e : Pc.It.maxCached = 719 := rfl
  omega

end Pc.C18Tables

#print axioms Pc.C18Tables.small_primes_table
#print axioms Pc.C18Tables.prime_pi_table
#print axioms Pc.C18Tables.max_cached_is_last
