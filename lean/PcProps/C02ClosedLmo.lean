/-
C02 (WP close3, item 3): `pi_lmo5` / `pi_lmo_parallel` OVER THE WORLD — no table / sieve / iterator contract left as a hypothesis.

`W.lmoCtx c f pi par` (PcProofs/Close3Lmo.lean) is the context of WP top-lmo's models `piLmo5` / `piLmoParallel` whose tables are what the two
files build for `y` by the C17 constructor models over the world's sieving core (`realLmoEnv`: generate_primes(y), generate_lpf(y),
generate_moebius(y), generate_pi(y) resp. PiTable(y) + phi_vector; S1's `realNT W.gen threads y`), whose iterator is the model of
`primesieve::iterator` over the same core, whose sieve object is the bit-exact `class Sieve` of `W.tablesS`, `lc = genConsts`, `piFn = pi`.
`LmoOK`, `NT.Valid`, `SieveSpec` / `segOK`, `IterSpecTo`, `Consts.WF` are THEOREMS (`lmo_ctx_world_ok`, `lmo_ctx_world_sieve`).

Remaining hypotheses of the two end theorems:
  (W)  `W.OKmin B` (primesieve configuration range, the ONE float assumption of the sieving core below `bnd` — a theorem for `bnd ≤ 2^50` —,
       stop hints inside uint64, table size `B ≤ W.N`), `B < 2^32`, `y = v.toNat ≤ B`;
  (N)  the nested `pi_noprint` calls inside `P2` are the dispatcher over the same world (`hphi`: literature bound + OpenMP schedule of `phi` for
       `30719 < n ≤ 10^8`; `hrec : W.NestedS2 c f B pi x`) — or, in the `_hpi` forms, `pi n = π n` for `n < x` directly;
  (F)  the float envelope of `alpha` / `y = (int64_t)(x13 * alpha)`: `ha1 ha hvN hcv hvu`;
  (O)  OpenMP: a valid run of `P2`'s region (`hrun`), a schedule of `S1`'s `omp for` (`hsched`), and for `pi_lmo_parallel` a LoadBalancerS2 history
       the replay accepts (`hr`; `pi_lmo_parallel_world_total`: on ANY history the result is `π(x)` or `badRun`).
Only property theorems, non-vacuity examples and the axiom audit live here.
-/
import PcProofs.Close3Lmo
import PcProofs.Close3LmoTotal
import PcProofs.Close3LmoAt
import PcProofs.TopLmoExamples
import PcProps.C01Closed3

namespace Pc.C02ClosedLmo
open Pc Pc.Hard Pc.TopLmo Pc.LB Pc.Top Pc.Close Pc.PhiVec PcGen.ApiConst Nat Finset
open scoped Nat.Prime

/-- **the table / iterator / constants contracts of pi_lmo5 / pi_lmo_parallel are theorems over the world**: `LmoOK` of the tables built for EVERY
    `y`, `NT.Valid` of S1's table, the iterator contract up to the last 64-bit prime, `Consts.WF` -/
theorem lmo_ctx_world_ok (W : World2) {B : ℕ} (h : W.OKmin B) (c : Sieve.Cfg) (f : Sieve.StopFn) (pi : ℕ → ℕ) (par : Bool) {x : ℕ}
    (hpi : ∀ n, n < x → pi n = π n) :
    CtxOKTo (W.lmoCtx c f pi par) x It.maxPrime64 ∧ 2 ^ 64 - 2 ^ 32 ≤ It.maxPrime64 :=
  ⟨W.lmoCtx_ok h c f pi par hpi, World.maxPrime64_ge⟩

/-- **the sieve contract is a theorem over the world**: the bit-exact `class Sieve` meets `SieveSpec` on every work item, for every level of
    every `y ≤ B`, `y < 2^32` -/
theorem lmo_ctx_world_sieve (W : World2) {B : ℕ} (h : W.OKmin B) (c : Sieve.Cfg) (f : Sieve.StopFn) (pi : ℕ → ℕ) (par : Bool) {y : ℕ}
    (hyB : y ≤ B) (hy32 : y < 2 ^ 32) (K : ℕ) (hK : K ≤ π y) :
    ∃ H : SieveSpec (W.lmoCtx c f pi par).S K, ∀ low seg, 240 ∣ low → 240 ∣ seg → 0 < seg → H.segOK low seg :=
  W.toWorld.lmoCtx_sieve (W.ok_of_min h) c f pi par hyB hy32 K hK

/-- **`pi_lmo5(x) = π(x)` over the world**, every `2 ≤ x < 2^63`, every float outcome `v` inside the envelope, every valid run of `P2`'s region and
    schedule of `S1`; the nested `pi_noprint` calls computed by the dispatcher over the same world -/
theorem pi_lmo5_eq_pi_world (W : World2) {B : ℕ} (h : W.OKmin B) (hB : B < 2 ^ 32) (c : Sieve.Cfg) (f : Sieve.StopFn) (pi : ℕ → ℕ) {x : ℕ}
    (a : ℚ) {v : ℤ} {run : P2L.Run} {sched : List (List ℕ)}
    (hx2 : 2 ≤ x) (hx : x < 2 ^ 63)
    (ha1 : 1 ≤ a) (ha : a ≤ (irootN 6 x : ℚ)) (hvN : TruncNear ((irootN 3 x : ℚ) * a) v) (hcv : (irootN 3 x : ℤ) ≤ v)
    (hvu : v ≤ ((irootN 3 x * irootN 6 x : ℕ) : ℤ))
    (hyB : v.toNat ≤ B)
    (hphi : ∀ n : ℕ, n < x → maxCached < n → n ≤ meisselMax → W.PhiRunOK2 n)
    (hrec : W.NestedS2 c f B pi (x : ℤ))
    (hrun : 4 ≤ x → v.toNat < Nat.sqrt x → run.valid genConsts x (x / max v.toNat 1) = true)
    (hsched : IsSchedule (getCI v + 1) (π v.toNat) sched) :
    piLmo5 (W.lmoCtx c f pi false) (x : ℤ) v run sched = .ok (π x : ℤ) :=
  W.pi_lmo5_world h hB c f pi a hx2 hx ha1 ha hvN hcv hvu hyB hphi hrec hrun hsched

/-- **`pi_lmo_parallel(x, threads) = π(x)` over the world**, every LoadBalancerS2 history the replay accepts (any team size, print mode,
    interleaving, clock) -/
theorem pi_lmo_parallel_eq_pi_world (W : World2) {B : ℕ} (h : W.OKmin B) (hB : B < 2 ^ 32) (c : Sieve.Cfg) (f : Sieve.StopFn) (pi : ℕ → ℕ)
    {x : ℕ} (a : ℚ) {v : ℤ} {run : P2L.Run} {sched : List (List ℕ)} {team : ℕ} {print : Bool} {es : List S2.Ev} {r : ℤ}
    (hx2 : 2 ≤ x) (hx : x < 2 ^ 63)
    (ha1 : 1 ≤ a) (ha : a ≤ (irootN 6 x : ℚ)) (hvN : TruncNear ((irootN 3 x : ℚ) * a) v) (hcv : (irootN 3 x : ℤ) ≤ v)
    (hvu : v ≤ ((irootN 3 x * irootN 6 x : ℕ) : ℤ))
    (hyB : v.toNat ≤ B)
    (hphi : ∀ n : ℕ, n < x → maxCached < n → n ≤ meisselMax → W.PhiRunOK2 n)
    (hrec : W.NestedS2 c f B pi (x : ℤ))
    (hrun : 4 ≤ x → v.toNat < Nat.sqrt x → run.valid genConsts x (x / max v.toNat 1) = true)
    (hsched : IsSchedule (getCI v + 1) (π v.toNat) sched)
    (hr : piLmoParallel (W.lmoCtx c f pi true) (x : ℤ) v run sched team print es = .ok r) : r = (π x : ℤ) :=
  W.pi_lmo_parallel_world h hB c f pi a hx2 hx ha1 ha hvN hcv hvu hyB hphi hrec hrun hsched hr

/-- **`pi_lmo_parallel` on ANY recorded history**: `π(x)`, or the replay reports that the history is not a complete run (`badRun`) — no table is
    read out of bounds, nothing divides by zero, no loop hangs -/
theorem pi_lmo_parallel_world_total (W : World2) {B : ℕ} (h : W.OKmin B) (hB : B < 2 ^ 32) (c : Sieve.Cfg) (f : Sieve.StopFn) (pi : ℕ → ℕ)
    {x : ℕ} (a : ℚ) {v : ℤ} {run : P2L.Run} {sched : List (List ℕ)} (team : ℕ) (print : Bool) (es : List S2.Ev)
    (hx2 : 2 ≤ x) (hx : x < 2 ^ 63)
    (ha1 : 1 ≤ a) (ha : a ≤ (irootN 6 x : ℚ)) (hvN : TruncNear ((irootN 3 x : ℚ) * a) v) (hcv : (irootN 3 x : ℤ) ≤ v)
    (hvu : v ≤ ((irootN 3 x * irootN 6 x : ℕ) : ℤ))
    (hyB : v.toNat ≤ B)
    (hphi : ∀ n : ℕ, n < x → maxCached < n → n ≤ meisselMax → W.PhiRunOK2 n)
    (hrec : W.NestedS2 c f B pi (x : ℤ))
    (hrun : 4 ≤ x → v.toNat < Nat.sqrt x → run.valid genConsts x (x / max v.toNat 1) = true)
    (hsched : IsSchedule (getCI v + 1) (π v.toNat) sched) :
    piLmoParallel (W.lmoCtx c f pi true) (x : ℤ) v run sched team print es = .ok (π x : ℤ) ∨
      piLmoParallel (W.lmoCtx c f pi true) (x : ℤ) v run sched team print es = .error (.s2 .badRun) :=
  W.pi_lmo_parallel_world_total h hB c f pi a team print es hx2 hx ha1 ha hvN hcv hvu hyB hphi hrec hrun hsched

/-- `pi_lmo5` with `pi_noprint = π` below `x` kept as a hypothesis (no `B < 2^32`, no nested-run hypotheses) -/
theorem pi_lmo5_eq_pi_world_hpi (W : World2) {B : ℕ} (h : W.OKmin B) (c : Sieve.Cfg) (f : Sieve.StopFn) (pi : ℕ → ℕ) {x : ℕ} (a : ℚ) {v : ℤ}
    {run : P2L.Run} {sched : List (List ℕ)}
    (hx2 : 2 ≤ x) (hx : x < 2 ^ 63)
    (ha1 : 1 ≤ a) (ha : a ≤ (irootN 6 x : ℚ)) (hvN : TruncNear ((irootN 3 x : ℚ) * a) v) (hcv : (irootN 3 x : ℤ) ≤ v)
    (hvu : v ≤ ((irootN 3 x * irootN 6 x : ℕ) : ℤ))
    (hyB : v.toNat ≤ B)
    (hpi : ∀ n, n < x → pi n = π n)
    (hrun : 4 ≤ x → v.toNat < Nat.sqrt x → run.valid genConsts x (x / max v.toNat 1) = true)
    (hsched : IsSchedule (getCI v + 1) (π v.toNat) sched) :
    piLmo5 (W.lmoCtx c f pi false) (x : ℤ) v run sched = .ok (π x : ℤ) :=
  W.pi_lmo5_world_hpi h c f pi a hx2 hx ha1 ha hvN hcv hvu hyB hpi hrun hsched

/-- `pi_lmo_parallel` with `pi_noprint = π` below `x` kept as a hypothesis -/
theorem pi_lmo_parallel_eq_pi_world_hpi (W : World2) {B : ℕ} (h : W.OKmin B) (c : Sieve.Cfg) (f : Sieve.StopFn) (pi : ℕ → ℕ) {x : ℕ} (a : ℚ)
    {v : ℤ} {run : P2L.Run} {sched : List (List ℕ)} {team : ℕ} {print : Bool} {es : List S2.Ev} {r : ℤ}
    (hx2 : 2 ≤ x) (hx : x < 2 ^ 63)
    (ha1 : 1 ≤ a) (ha : a ≤ (irootN 6 x : ℚ)) (hvN : TruncNear ((irootN 3 x : ℚ) * a) v) (hcv : (irootN 3 x : ℤ) ≤ v)
    (hvu : v ≤ ((irootN 3 x * irootN 6 x : ℕ) : ℤ))
    (hyB : v.toNat ≤ B)
    (hpi : ∀ n, n < x → pi n = π n)
    (hrun : 4 ≤ x → v.toNat < Nat.sqrt x → run.valid genConsts x (x / max v.toNat 1) = true)
    (hsched : IsSchedule (getCI v + 1) (π v.toNat) sched)
    (hr : piLmoParallel (W.lmoCtx c f pi true) (x : ℤ) v run sched team print es = .ok r) : r = (π x : ℤ) :=
  W.pi_lmo_parallel_world_hpi h c f pi a hx2 hx ha1 ha hvN hcv hvu hyB hpi hrun hsched hr

/-! ### over WP close's world (`W.OK B`: `phi_vector`'s inner cache right up to `π(B)` only) — needs the transfer lemma `piLmo5_focus`:
`CtxOKTo.tabs : ∀ y, …` is not dischargeable there for `y > B`, the functions read the tables of ONE `y` (PcProofs/Close3LmoAt.lean) -/

/-- the table contracts at the `y` that is used suffice (generic context) -/
theorem piLmo5_eq_pi_at {σ : Type} {C : Ctx σ} {x N : ℕ} (a : ℚ) {v : ℤ} {run : P2L.Run} {sched : List (List ℕ)}
    (hx2 : 2 ≤ x) (hx : x < 2 ^ 63)
    (ha1 : 1 ≤ a) (ha : a ≤ (irootN 6 x : ℚ)) (hvN : TruncNear ((irootN 3 x : ℚ) * a) v) (hcv : (irootN 3 x : ℤ) ≤ v)
    (hvu : v ≤ ((irootN 3 x * irootN 6 x : ℕ) : ℤ))
    (hC : CtxOKAt C x N v.toNat) (hN : 2 ^ 64 - 2 ^ 32 ≤ N)
    (hS : ∀ K, K ≤ π v.toNat → ∃ H : SieveSpec C.S K, ∀ seg, 240 ∣ seg → 0 < seg → H.segOK 0 seg)
    (hrun : 4 ≤ x → v.toNat < Nat.sqrt x → run.valid C.lc x (x / max v.toNat 1) = true)
    (hsched : IsSchedule (getCI v + 1) (π v.toNat) sched) :
    piLmo5 C (x : ℤ) v run sched = .ok (π x : ℤ) :=
  piLmo5_eq_at a hx2 hx ha1 ha hvN hcv hvu hC hN hS hrun hsched

/-- `pi_lmo5(x) = π(x)` over WP close's world -/
theorem pi_lmo5_eq_pi_world1 (W : World) {B : ℕ} (h : W.OK B) (c : Sieve.Cfg) (f : Sieve.StopFn) (pi : ℕ → ℕ) {x : ℕ} (a : ℚ) {v : ℤ}
    {run : P2L.Run} {sched : List (List ℕ)}
    (hx2 : 2 ≤ x) (hx : x < 2 ^ 63)
    (ha1 : 1 ≤ a) (ha : a ≤ (irootN 6 x : ℚ)) (hvN : TruncNear ((irootN 3 x : ℚ) * a) v) (hcv : (irootN 3 x : ℤ) ≤ v)
    (hvu : v ≤ ((irootN 3 x * irootN 6 x : ℕ) : ℤ))
    (hyB : v.toNat ≤ B)
    (hpi : ∀ n, n < x → pi n = π n)
    (hrun : 4 ≤ x → v.toNat < Nat.sqrt x → run.valid genConsts x (x / max v.toNat 1) = true)
    (hsched : IsSchedule (getCI v + 1) (π v.toNat) sched) :
    piLmo5 (W.lmoCtx c f pi false) (x : ℤ) v run sched = .ok (π x : ℤ) :=
  W.pi_lmo5_w h c f pi a hx2 hx ha1 ha hvN hcv hvu hyB hpi hrun hsched

/-- `pi_lmo_parallel` over WP close's world on any history: `π(x)` or `badRun` -/
theorem pi_lmo_parallel_world1_total (W : World) {B : ℕ} (h : W.OK B) (c : Sieve.Cfg) (f : Sieve.StopFn) (pi : ℕ → ℕ) {x : ℕ} (a : ℚ)
    {v : ℤ} {run : P2L.Run} {sched : List (List ℕ)} (team : ℕ) (print : Bool) (es : List S2.Ev)
    (hx2 : 2 ≤ x) (hx : x < 2 ^ 63)
    (ha1 : 1 ≤ a) (ha : a ≤ (irootN 6 x : ℚ)) (hvN : TruncNear ((irootN 3 x : ℚ) * a) v) (hcv : (irootN 3 x : ℤ) ≤ v)
    (hvu : v ≤ ((irootN 3 x * irootN 6 x : ℕ) : ℤ))
    (hyB : v.toNat ≤ B)
    (hpi : ∀ n, n < x → pi n = π n)
    (hrun : 4 ≤ x → v.toNat < Nat.sqrt x → run.valid genConsts x (x / max v.toNat 1) = true)
    (hsched : IsSchedule (getCI v + 1) (π v.toNat) sched) :
    piLmoParallel (W.lmoCtx c f pi true) (x : ℤ) v run sched team print es = .ok (π x : ℤ) ∨
      piLmoParallel (W.lmoCtx c f pi true) (x : ℤ) v run sched team print es = .error (.s2 .badRun) :=
  W.pi_lmo_parallel_total_w h c f pi a team print es hx2 hx ha1 ha hvN hcv hvu hyB hpi hrun hsched

/-! ### non-vacuity (tests, labelled as such): `exWorld3` (sieving core below 2^50, `phiNeg = phiNegIdeal`, `N = 3000`, `B = 100`) -/

/-- the tables the LMO files build for `y = 100` over the example world meet `LmoOK` (both variants) -/
example (par : Bool) : LmoOK ((exWorld3.lmoCtx .portable (.pop64 false) Nat.primeCounting par).tabs 100) 100 :=
  ((lmo_ctx_world_ok exWorld3 C01Closed3.exWorld3_okmin .portable (.pop64 false) Nat.primeCounting par (x := 1000) (fun _ _ => rfl)).1).tabs 100

/-- `pi_lmo5(1000)` over the world: `alpha = 1`, `v = y = 10`, the recorded one-thread run of `P2`'s region, every hypothesis instantiated -/
example (c : Sieve.Cfg) (f : Sieve.StopFn) :
    piLmo5 (exWorld3.lmoCtx c f Nat.primeCounting false) (1000 : ℕ) 10 run1000y10
      (leafSched (getCI 10 + 1) (π (10 : ℤ).toNat) 10 1) = .ok (π 1000 : ℤ) :=
  pi_lmo5_eq_pi_world exWorld3 C01Closed3.exWorld3_okmin (by norm_num) c f Nat.primeCounting (x := 1000) 1 (by norm_num) (by norm_num)
    (by norm_num)
    (by rw [iroot6_1000]; norm_num)
    (by rw [iroot3_1000]; unfold TruncNear relEps; norm_num)
    (by rw [iroot3_1000]; norm_num)
    (by rw [iroot3_1000, iroot6_1000]; norm_num)
    (by norm_num)
    (fun n _ _ _ => exWorld3_phiRunOK2 n)
    (fun n hn h63 => exWorld3_nestedS2 c f n (lt_trans hn (by norm_num)) h63)
    (fun _ _ => by show run1000y10.valid genConsts 1000 (1000 / max 10 1) = true; decide)
    (leafSched_isSchedule _ _ _ _)

/-- `pi_lmo_parallel(1000)` over the world on ANY LoadBalancerS2 history: `π(1000)` or `badRun` -/
example (c : Sieve.Cfg) (f : Sieve.StopFn) (team : ℕ) (print : Bool) (es : List S2.Ev) :=
  pi_lmo_parallel_world_total exWorld3 C01Closed3.exWorld3_okmin (by norm_num) c f Nat.primeCounting (x := 1000) (v := 10)
    (run := run1000y10) (sched := leafSched (getCI 10 + 1) (π (10 : ℤ).toNat) 10 1) 1 team print es (by norm_num) (by norm_num)
    (by norm_num)
    (by rw [iroot6_1000]; norm_num)
    (by rw [iroot3_1000]; unfold TruncNear relEps; norm_num)
    (by rw [iroot3_1000]; norm_num)
    (by rw [iroot3_1000, iroot6_1000]; norm_num)
    (by norm_num)
    (fun n _ _ _ => exWorld3_phiRunOK2 n)
    (fun n hn h63 => exWorld3_nestedS2 c f n (lt_trans hn (by norm_num)) h63)
    (fun _ _ => by show run1000y10.valid genConsts 1000 (1000 / max 10 1) = true; decide)
    (leafSched_isSchedule _ _ _ _)

/-- `pi_lmo5(1000)` over WP close's example world (`exWorld`, `phiNeg` = the C07 function, `OK 100`) -/
example (c : Sieve.Cfg) (f : Sieve.StopFn) :
    piLmo5 (exWorld.lmoCtx c f Nat.primeCounting false) (1000 : ℕ) 10 run1000y10
      (leafSched (getCI 10 + 1) (π (10 : ℤ).toNat) 10 1) = .ok (π 1000 : ℤ) :=
  pi_lmo5_eq_pi_world1 exWorld exWorld_ok c f Nat.primeCounting (x := 1000) 1 (by norm_num) (by norm_num)
    (by norm_num)
    (by rw [iroot6_1000]; norm_num)
    (by rw [iroot3_1000]; unfold TruncNear relEps; norm_num)
    (by rw [iroot3_1000]; norm_num)
    (by rw [iroot3_1000, iroot6_1000]; norm_num)
    (by norm_num)
    (fun _ _ => rfl)
    (fun _ _ => by show run1000y10.valid genConsts 1000 (1000 / max 10 1) = true; decide)
    (leafSched_isSchedule _ _ _ _)

end Pc.C02ClosedLmo

#print axioms Pc.C02ClosedLmo.lmo_ctx_world_ok
#print axioms Pc.C02ClosedLmo.lmo_ctx_world_sieve
#print axioms Pc.C02ClosedLmo.pi_lmo5_eq_pi_world
#print axioms Pc.C02ClosedLmo.pi_lmo_parallel_eq_pi_world
#print axioms Pc.C02ClosedLmo.pi_lmo_parallel_world_total
#print axioms Pc.C02ClosedLmo.pi_lmo5_eq_pi_world_hpi
#print axioms Pc.C02ClosedLmo.pi_lmo_parallel_eq_pi_world_hpi
#print axioms Pc.C02ClosedLmo.piLmo5_eq_pi_at
#print axioms Pc.C02ClosedLmo.pi_lmo5_eq_pi_world1
#print axioms Pc.C02ClosedLmo.pi_lmo_parallel_world1_total
