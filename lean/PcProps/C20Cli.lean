/-
C20 (WP cli) — a command-line run is a fresh process: its settings are exactly the effects of its own setting options on
σ₀, and the number it prints does not depend on them.
Only property theorems, non-vacuity examples and the axiom audit live here.

Vocabulary: PcModel/Cli.lean (`cliMain`, `parseOptions`), PcProofs/Cli.lean (`items`, `itemEffect` = effect of one parsed
option on the library's global state σ of PcModel/ApiState.lean, `numberValues`, `selected`), ApiState.lean (`cliOption`:
the effect table of the L1 model behind C20 `status_same_number`).
-/
import PcProofs.Cli

namespace Pc.C20Cli
open Pc.Calc Pc.Cli

/-- **A CLI run starts from σ₀.** The configuration under which main calls the library is the fold of the effects of the
    command line's own items, in argv order, over the state of a fresh process — nothing else. -/
theorem cli_state_fresh (hw : ApiHw) (stod : Bytes → Option AlphaArg) (argv : List Bytes) (o : CmdOpts)
    (h : parseOptions hw stod argv = .ok o) :
    o.σ = (items argv).foldl (itemEffect hw stod) ApiState.init :=
  parseOptions_σ h

/-- **The printed number does not depend on the settings** (the CLI side of `status_same_number`): if the library's values
    do not depend on the configuration (`hind`: C01/C03/C04/C06/C07 — thread count, alpha overrides, print mode), then two
    command lines with the same numbers (in order) and the same selected main option print the same number whenever both
    print one — whatever `-t`, `--status[=N]`, `--time`, `--alpha*` options they carry, in whatever form and position. -/
theorem cli_settings_do_not_change_the_number (hw₁ hw₂ : ApiHw) (stod₁ stod₂ : Bytes → Option AlphaArg) (alg : CliAlg)
    (spec : CliCall → Option Int) (hind : ∀ cfg c, alg cfg c = spec c) (argv₁ argv₂ : List Bytes)
    (hnum : numberValues (items argv₁) = numberValues (items argv₂))
    (hsel : selected (items argv₁) = selected (items argv₂)) (v₁ v₂ : Int)
    (h₁ : OutItem.result v₁ ∈ (cliMain hw₁ stod₁ alg argv₁).stdout)
    (h₂ : OutItem.result v₂ ∈ (cliMain hw₂ stod₂ alg argv₂).stdout) : v₁ = v₂ := by
  obtain ⟨_, _, _, d₁, x₁, c₁, a1, a2, _, a4, a5⟩ := (cliMain_exact_or_error hw₁ stod₁ alg argv₁).2.2 v₁ h₁
  obtain ⟨_, _, _, d₂, x₂, c₂, b1, b2, _, b4, b5⟩ := (cliMain_exact_or_error hw₂ stod₂ alg argv₂).2.2 v₂ h₂
  rw [hsel, b1] at a1
  cases a1
  rw [hnum, b2] at a2
  cases a2
  by_cases hs : d₁.second = true ∧ d₁.narrow = true
  · obtain ⟨_, a, e1, _, e3⟩ := a5 hs.1 hs.2
    obtain ⟨_, b, f1, _, f3⟩ := b5 hs.1 hs.2
    rw [hnum, f1] at e1
    cases e1
    rw [hind] at e3 f3
    rw [e3] at f3
    exact Option.some.inj f3
  · have hs' : d₁.second = false ∨ d₁.narrow = false := by
      cases h1 : d₁.second <;> cases h2 : d₁.narrow <;> simp_all
    have e := a4 hs'
    have f := b4 hs'
    rw [hind] at e f
    rw [e] at f
    exact Option.some.inj f

/-! non-vacuity (tests): the settings change what is printed around the number, not the number -/
example : (run ["100"]).stdout = [.result 100000] := by decide +kernel
example : (run ["--time", "100"]).stdout = [.result 100000, .seconds] := by decide +kernel
example : (run ["100", "-s"]).stdout = [.statusOutput, .blank, .result 100000, .seconds] := by decide +kernel

end Pc.C20Cli

#print axioms Pc.C20Cli.cli_state_fresh
#print axioms Pc.C20Cli.cli_settings_do_not_change_the_number
