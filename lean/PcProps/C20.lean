/-
C20 — calls are pure: no result depends on call history, settings or status output.
Only property theorems, non-vacuity examples and the axiom audit live here.

Model: PcModel/ApiState.lean. The state σ, its writers and the library-internal setter calls are tied to the
sources by the generated obligations PcGen/GlobalsObl.lean (imported through PcProofs/ApiState.lean).
-/
import PcProofs.ApiState

namespace Pc.C20

/-- ApiSetting the thread count to ANY integer leaves a value in [1, hardware maximum] that the getter reports. -/
theorem threads_clamp (hw : ApiHw) (σ : ApiState) (t : Int) (h : 1 ≤ hw.ompMax) :
    let σ' := setThreads hw σ t
    1 ≤ getThreads hw σ' ∧ getThreads hw σ' ≤ hw.ompMax ∧ getThreads hw σ' = σ'.threads ∧
    (1 ≤ t → t ≤ hw.ompMax → getThreads hw σ' = t) := by
  simp only [setThreads, getThreads, inBetween, Bool.or_eq_true, decide_eq_true_eq]
  split <;> split <;> (try split) <;> omega

/-- the forwarded primesieve setting is clamped the same way -/
theorem ps_threads_clamp (hw : ApiHw) (σ : ApiState) (t : Int) (h : 1 ≤ hw.psMax) :
    let σ' := setThreads hw σ t
    1 ≤ getPsThreads hw σ' ∧ getPsThreads hw σ' ≤ hw.psMax := by
  simp only [setThreads, getPsThreads, psInBetween]
  split <;> split <;> (try split) <;> omega

/-- In a fresh process the getter reports the OpenMP default (at least 1). -/
theorem threads_default (hw : ApiHw) : getThreads hw ApiState.init = max 1 hw.ompMax := rfl

/-- `set_alpha*(v)` with `v < 1` restores the automatic mode and nothing else; with `v ≥ 1` it stores
    `truncate3(v)`; a later reset undoes the override completely. -/
theorem setAlpha_reset (σ : ApiState) (a r : AlphaArg) (hr : r.lt1 = true) :
    (setAlpha σ r).alpha = none ∧ (setAlphaY σ r).alphaY = none ∧ (setAlphaZ σ r).alphaZ = none ∧
    (a.lt1 = false → (setAlpha σ a).alpha = some a.k) ∧
    setAlpha (setAlpha σ a) r = { σ with alpha := none } ∧
    setAlphaY (setAlphaY σ a) r = { σ with alphaY := none } ∧
    setAlphaZ (setAlphaZ σ a) r = { σ with alphaZ := none } := by
  refine ⟨?_, ?_, ?_, ?_, ?_, ?_, ?_⟩ <;> simp [setAlpha, setAlphaY, setAlphaZ, alphaOf, hr]

/-- set-then-reset of every tuning factor and of the print switch gives back the fresh configuration -/
theorem overrides_reset_to_init (a b c r : AlphaArg) (hr : r.lt1 = true) :
    setPrint (setAlphaZ (setAlphaY (setAlpha
      (setPrint (setAlphaZ (setAlphaY (setAlpha ApiState.init a) b) c) true) r) r) r) false = ApiState.init := by
  simp [setAlpha, setAlphaY, setAlphaZ, setPrint, alphaOf, hr, ApiState.init]

/-- A call that fails (throws) leaves σ unchanged; in fact no computing call writes σ at all, and settings
    calls never fail. (Tie to the code: `Gen.globalWriters_eq_modelled`, `Gen.librarySetterCalls_eq_modelled`.) -/
theorem failed_call_preserves_state (hw : ApiHw) (alg : ApiAlgorithms) (σ : ApiState) (op : ApiOp) :
    ((apiStep hw alg σ op).2 = .err → (apiStep hw alg σ op).1 = σ) ∧
    (∀ c, op = .compute c → (apiStep hw alg σ op).1 = σ) ∧
    (∀ s, op = .setting s → (apiStep hw alg σ op).2 ≠ .err) := by
  refine ⟨?_, ?_, ?_⟩
  · cases op with
    | compute c => intro _; rfl
    | setting s => cases s <;> simp [apiStep, apiStepSetting]
  · rintro c rfl; rfl
  · rintro s rfl; cases s <;> simp [apiStep, apiStepSetting]

/-- Purity of results. Under the named hypothesis `AlgConfigIndependent alg spec`, in EVERY history (any calls
    before, successful or failed, any thread setting, any tuning overrides set or reset, print switches on or
    off, any machine) the result of a computing call is `spec` of its arguments. -/
theorem result_state_independent (hw : ApiHw) (alg : ApiAlgorithms) (spec : ApiCompute → ApiValue)
    (hind : AlgConfigIndependent alg spec) (σ : ApiState) (ops : List ApiOp) (i : Nat) (c : ApiCompute)
    (h : ops[i]? = some (.compute c)) :
    (runHistory hw alg σ ops)[i]? = some (spec c) := by
  rw [runHistory_getElem? hw alg σ ops i _ h]
  simp only [apiStep]
  rw [hind]

/-- the same call gives the same result in any two processes, histories and machines -/
theorem same_call_same_result (hw₁ hw₂ : ApiHw) (alg : ApiAlgorithms) (spec : ApiCompute → ApiValue)
    (hind : AlgConfigIndependent alg spec) (σ₁ σ₂ : ApiState) (pre₁ pre₂ : List ApiOp) (c : ApiCompute) :
    (runHistory hw₁ alg σ₁ (pre₁ ++ [.compute c]))[pre₁.length]? =
      (runHistory hw₂ alg σ₂ (pre₂ ++ [.compute c]))[pre₂.length]? := by
  rw [result_state_independent hw₁ alg spec hind σ₁ _ pre₁.length c (by simp),
      result_state_independent hw₂ alg spec hind σ₂ _ pre₂.length c (by simp)]

/-- CLI: with any combination of --status[=N], --time, -t N and alpha options, in any order, the result line
    is printed and carries the same number; `Seconds:` appears iff --status or --time was given. -/
theorem status_same_number (hw : ApiHw) (alg : ApiAlgorithms) (spec : ApiCompute → ApiValue)
    (hind : AlgConfigIndependent alg spec) (opts : List CliOpt) (x : List Nat) :
    (cliRun hw alg opts x).number = some (spec (.piStr x)) ∧
    (cliRun hw alg opts x).number = (cliRun hw alg [] x).number := by
  have h1 : ∀ o : List CliOpt, (cliRun hw alg o x).number = some (spec (.piStr x)) := by
    intro o
    have hp : (o.foldl (cliOption hw) (ApiState.init, false)).1.printVariables = false :=
      cliFold_printVariables hw o (ApiState.init, false)
    simp only [cliRun, isPrintCombinedResult, hp, Bool.not_false, if_true]
    rw [hind]
  exact ⟨h1 opts, by rw [h1 opts, h1 []]⟩

/-! non-vacuity (tests, labelled as such): the hypothesis is satisfiable, and the model distinguishes states -/
example : AlgConfigIndependent ⟨fun _ c => match c with | .pi x => .int x | _ => .err⟩
    (fun c => match c with | .pi x => .int x | _ => .err) := fun _ _ => rfl
example : getThreads ⟨16, 16⟩ (setThreads ⟨16, 16⟩ ApiState.init 0) = 1 := by decide
example : getThreads ⟨16, 16⟩ (setThreads ⟨16, 16⟩ ApiState.init 2147483647) = 16 := by decide
example : getThreads ⟨16, 16⟩ (setThreads ⟨16, 16⟩ ApiState.init (-5)) = 1 := by decide
example : runHistory ⟨8, 8⟩ ⟨fun cfg _ => .int cfg.threads⟩ ApiState.init
    [.setting (.setThreads 3), .compute (.pi 10), .setting .getThreads] = [.unit, .int 3, .int 3] := by decide
example : (cliRun ⟨8, 8⟩ ⟨fun _ _ => .int 4⟩ [.status (some 3), .threads 2] [49, 48]) = ⟨some (.int 4), true⟩ := by decide

end Pc.C20

#print axioms Pc.C20.threads_clamp
#print axioms Pc.C20.ps_threads_clamp
#print axioms Pc.C20.threads_default
#print axioms Pc.C20.setAlpha_reset
#print axioms Pc.C20.overrides_reset_to_init
#print axioms Pc.C20.failed_call_preserves_state
#print axioms Pc.C20.result_state_independent
#print axioms Pc.C20.same_call_same_result
#print axioms Pc.C20.status_same_number
