/-
C16 (and C12 "every such quantity fits its integer type") — machine-integer safety of the modelled loops (work package
"safety").  Only property theorems, non-vacuity examples and the axiom audit live here.

The L2 loop models of the other work packages check every index and every division but ACCUMULATE IN EXACT INTEGERS.
This file closes that gap where it can be closed by proof, and records where the property is FALSE of the real code:

* `PcModel/SafetyLoops.lean`: width-checked mirrors (`p2ThreadC`, `p2OpenMPC`, `bOpenMPC`, `p2InitC`): the unchecked mirror
  with every value the C++ stores in a fixed-width variable checked against that variable's type when it is produced.
  A `*_no_overflow` theorem says: on the function's domain the checked mirror returns the value of the unchecked one, i.e.
  no stored intermediate leaves its type, for EVERY iterator meeting the contract, EVERY valid run of the parallel region.
* `PcProofs/SafetyBoundsNT.lean`: the bound library (`π n ≤ (n+1)/2`, `P2 ≤ 3x/4`, `B(x, y) ≤ 7x/8`, every sub-sum of `B` is
  `≤ B`, ordered prime triples: `Σ_q π(√(x/q))² ≤ 6x`, `Σ_q π(y) π(x/(q y)) ≤ 6x`).
* LoadBalancerS2 (`PcProofs/SafetyLB.lean`): the whole-history int64 safety claim for `sieve_limit ≤ 2^62 + 2^33` is REFUTED by a
  kernel-checked history recorded on the real object under a constant (legal: monotone) clock (`s2_history_overflow_witness`);
  what holds of every history (`s2_hands_below`) and what one step needs (`s2_step_no_overflow_of_hand_partial`).
* FINDING F9 (P2.cpp:109 of /repo 0995f00, REPAIRED in /repo 8cccffb): `(a - 2) * (a + 1)` was an `int64_t` product also for
  `T = int128_t` and overflowed for every `a = π(y) ≥ 3037000501` (`P2_128_closed_form_overflows` about the pre-fix mirror
  `p2OpenMPCPreFix`; real code of 0995f00: `primecount 1e22 --P2 --alpha=3713.2` printed a negative number, UBSan reported
  `P2.cpp:109:19: signed integer overflow: 3324998166 * 3324998169`).  The current line (`T pi_y = a; (pi_y - 2) * (pi_y + 1) …`)
  is `p2InitC`; for it `P2_128_no_overflow` holds with no bound on `a`.
-/
import PcProofs.SafetyP2Region
import PcProofs.P2LoopEx
import PcProofs.SafetyLB

namespace Pc.C16Safety
open Pc.P2L Pc.LB Pc.Safety Finset
open scoped Nat.Prime

/-! ## the bound library (what the accumulators are compared with) -/

/-- `π(n) ≤ (n + 1) / 2 ≤ n`, `φ(u, a) ≤ u` -/
theorem pi_phi_bounds (n a : ℕ) : π n ≤ (n + 1) / 2 ∧ π n ≤ n ∧ Spec.phi n a ≤ n :=
  ⟨pi_le_half n, pi_le_self n, Spec.phi_le n a⟩

/-- `P2(x, a)` is the cardinality of a set of semiprimes `≤ x`: `4·P2 ≤ 3x`; `B(x, y) = P2 + Σ_{a<i≤b}(i-1)`: `0 ≤ 8·B ≤ 7x`;
    every sub-sum of the terms `π(x / q)` of `B` is bounded by `B` -/
theorem P2_B_bounds (x y a : ℕ) (S : Finset ℕ) (hS : S ⊆ (Finset.Ioc y (Nat.sqrt x)).filter Nat.Prime) :
    4 * Spec.P2 x a ≤ 3 * x ∧ 0 ≤ Spec.B x y ∧ 8 * Spec.B x y ≤ 7 * x ∧ ∑ q ∈ S, (π (x / q) : ℤ) ≤ Spec.B x y :=
  ⟨P2_le_three_quarters x a, B_nonneg x y, eight_B_le x y, B_sub_le x y S hS⟩

/-- ordered triples of primes with product `≤ x` (at most 6 per number): the sums behind Σ4 and Σ6 of Gourdon's formula,
    over ANY finite set `Q` of primes -/
theorem prime_triple_bounds (x y : ℕ) (Q : Finset ℕ) (hQ : ∀ q ∈ Q, q.Prime) :
    ∑ q ∈ Q, (π (Nat.sqrt (x / q))) ^ 2 ≤ 6 * x ∧ ∑ q ∈ Q, π y * π (x / (q * y)) ≤ 6 * x :=
  ⟨sum_pi_sqrt_sq_le x Q hQ, sum_pi_mul_pi_le x y Q hQ⟩

/-! ## P2_thread / B_thread -/

/-- **`P2_thread<T>` / `B_thread<T>` store no value outside its type**: for every chunk `0 < low < high ≤ 2^63` (the
    dispenser hands out `high ≤ x / max(y,1)`, an `int64_t`), every `T` whose maximum is `≥ x`, every iterator meeting the
    contract (any batch sizes): `int64_t pi_xp` stays `< 2^63` (it is `π(x / prime) ≤ x / prime < high`), `T sum` stays `≤ tMax`
    (monotone; its final value is a sub-sum of `B(x, y) ≤ x`), and the value is the chunk function -/
theorem P2_thread_no_overflow {it : Iter} (hit : IterSpec it) {pi : ℕ → ℕ} {x : ℕ} (hpi : ∀ n, n < x → pi n = π n)
    (tMax y : ℕ) {low high : ℕ} (hlow : 0 < low) (hlh : low < high) (hhigh : high ≤ 2 ^ 63) (hxT : x ≤ tMax) :
    p2ThreadC tMax it pi x y low high = .ok (chunkN x y (low, high)) := by
  have h1 := chunkN_le_B x y (low, high)
  have h2 := B_le x y
  have h3 : (x : ℤ) ≤ tMax := by exact_mod_cast hxT
  exact p2ThreadC_eq_chunk hit hpi tMax y hlow hlh hhigh (by omega)

/-! ## P2_OpenMP -/

/-- **`P2(int64_t x, y, a)` never overflows**, for EVERY `x < 2^63`, every `y`, `a = π(y)`, every valid run of the parallel
    region (team, call order, clock, reduction order): the closed form of P2.cpp:112 (`a ≤ π(√x)`, `π(√x)² ≤ x`), every
    `pi_xp`, every thread-local / thread-private / reduced `sum` lie in `int64_t`, and the result is `P2(x, a)` -/
theorem P2_64_no_overflow {it : Iter} (hit : IterSpec it) {pi : ℕ → ℕ} {x y a : ℕ} (hpi : ∀ n, n < x → pi n = π n)
    (ha : a = π y) (hya : pi y = a) (c : Consts) (hc : c.WF) (hx : x < 2 ^ 63) (r : Run)
    (hv : 4 ≤ x → y < Nat.sqrt x → r.valid c x (x / max y 1) = true) :
    p2OpenMPC (2 ^ 63 - 1) c it pi x y a r = .ok (Spec.P2 x a : ℤ) := by
  have hxy : x / max y 1 < two63 := lt_of_le_of_lt (Nat.div_le_self _ _) (by unfold two63; omega)
  exact p2OpenMPC_eq hit hpi ha hya c hc hxy r hv _ (by omega)

/-- **`P2(int128_t x, y, a)` never overflows** (the code since /repo 8cccffb): EVERY `x < 2^127` whose `x / max(y, 1)` fits the
    narrowing `(int64_t)(x / max(y, 1))` of P2.cpp:115 (guaranteed by the range check of the 128-bit entry points:
    `range_check_guarantee`), every `y`, `a = π(y)` — NO bound on `a` — every valid run: the operands and products of the closed
    form (all `int128_t` now), every `pi_xp`, every thread-local / thread-private / reduced `sum` lie in their types; result `P2(x, a)` -/
theorem P2_128_no_overflow {it : Iter} (hit : IterSpec it) {pi : ℕ → ℕ} {x y a : ℕ}
    (hpi : ∀ n, n < x → pi n = π n) (ha : a = π y) (hya : pi y = a) (c : Consts) (hc : c.WF) (hx : x < 2 ^ 127)
    (hxy : x / max y 1 < 2 ^ 63) (r : Run) (hv : 4 ≤ x → y < Nat.sqrt x → r.valid c x (x / max y 1) = true) :
    p2OpenMPC (2 ^ 127 - 1) c it pi x y a r = .ok (Spec.P2 x a : ℤ) :=
  p2OpenMPC_eq hit hpi ha hya c hc (by unfold two63; omega) r hv _ (by omega)

/-- **FINDING F9 (P2.cpp:109 before /repo 8cccffb; repaired there)**: `T sum = (a - 2) * (a + 1) / 2 - …` with `int64_t a`
    multiplied in `int64_t` although `T = int128_t`: for EVERY `x ≥ 4`, `y < √x` and `a = pi_noprint(y) ≥ 3037000501` — whatever
    the run — the product left `int64_t` (signed overflow, undefined behaviour; observed: the result was off by `2^63`).
    About `p2OpenMPCPreFix`, the mirror of the pre-fix text; the current text is covered by `P2_128_no_overflow`. -/
theorem P2_128_closed_form_overflows (tMax : ℕ) (c : Consts) (it : Iter) (pi : ℕ → ℕ) (x y a : ℕ) (r : Run)
    (hx : 4 ≤ x) (hy : y < isqrtN x) (ha : a = pi y) (hbig : 3037000501 ≤ a) :
    p2OpenMPCPreFix tMax c it pi x y a r = .error .ovfInitA := by
  unfold p2OpenMPCPreFix
  rw [if_neg (by rw [ha]; exact fun h => h rfl), if_neg (by omega)]
  simp only
  rw [if_neg (by omega), p2InitCPreFix_overflows _ _ _ _ hbig]

/-- the threshold of the pre-fix line is exact (the product fits for `a = 3037000500`, not for `a = 3037000501`), and the
    repaired line computes the exact value `0` at `a = b = 3037000501` and at the 0.1 s reproducer's `a = b = 4118054813` -/
theorem closed_form_threshold :
    p2InitCPreFix (-(2 ^ 127 : ℤ)) (2 ^ 127 - 1) 3037000500 3037000500 = .ok 0 ∧
    p2InitCPreFix (-(2 ^ 127 : ℤ)) (2 ^ 127 - 1) 3037000501 3037000501 = .error .ovfInitA ∧
    p2InitC (-(2 ^ 127 : ℤ)) (2 ^ 127 - 1) 3037000501 3037000501 = .ok 0 ∧
    p2InitC (-(2 ^ 127 : ℤ)) (2 ^ 127 - 1) 4118054813 4118054813 = .ok 0 := by
  refine ⟨?_, ?_, ?_, ?_⟩ <;> decide

/-! ## B_OpenMP -/

/-- **`B(int64_t x, y)` (computed in `uint64_t`) never overflows**, every `x < 2^63`, every `y`, every valid run; the result
    `B(x, y) ≤ 7x/8 < 2^63`, so the final conversion `int64_t sum = B_OpenMP((uint64_t) x, …)` is value-preserving -/
theorem B_64_no_overflow {it : Iter} (hit : IterSpec it) {pi : ℕ → ℕ} {x : ℕ} (hpi : ∀ n, n < x → pi n = π n)
    (y : ℕ) (c : Consts) (hc : c.WF) (hx : x < 2 ^ 63) (r : Run) (hv : 4 ≤ x → r.valid c x (x / max y 1) = true) :
    bOpenMPC (2 ^ 64 - 1) c it pi x y r = .ok (Spec.B x y) ∧ Spec.B x y < 2 ^ 63 := by
  have hxy : x / max y 1 < two63 := lt_of_le_of_lt (Nat.div_le_self _ _) (by unfold two63; omega)
  exact ⟨bOpenMPC_eq hit hpi y c hc hxy r hv _ (by omega), B_lt_two63 x y hx⟩

/-- `B(int128_t x, y)` (computed in `uint128_t`), every `x < 2^127` with `x / max(y,1) < 2^63` (the narrowing `(int64_t)(x / max(y, 1))`
    of B.cpp:99, guaranteed by the range check: `range_check_guarantee`) -/
theorem B_128_no_overflow {it : Iter} (hit : IterSpec it) {pi : ℕ → ℕ} {x : ℕ} (hpi : ∀ n, n < x → pi n = π n)
    (y : ℕ) (c : Consts) (hc : c.WF) (hx : x < 2 ^ 127) (hxy : x / max y 1 < 2 ^ 63) (r : Run)
    (hv : 4 ≤ x → r.valid c x (x / max y 1) = true) :
    bOpenMPC (2 ^ 128 - 1) c it pi x y r = .ok (Spec.B x y) ∧ Spec.B x y < 2 ^ 127 := by
  refine ⟨bOpenMPC_eq hit hpi y c hc (by unfold two63; omega) r hv _ (by omega), ?_⟩
  have := B_le x y
  have : (x : ℤ) < 2 ^ 127 := by exact_mod_cast hx
  omega


/-! ## LoadBalancerS2: whole histories -/

/-- **The whole-history int64 safety of `LoadBalancerS2` is FALSE inside the range the public API guarantees**
    (`sieve_limit ≤ 2^62 + 2^33`, `range_check_guarantee`): a 34-call history with `x = 10^31`, `sieve_limit = 2^61`, 2 threads,
    no status output, recorded on the REAL object under a constant clock (all measured durations 0, so `segments_ *= 2` at
    every update) is a behaviour of the integer model from `S2.init` (ThreadData handed back unchanged, outputs as computed,
    no call after `false`), overflow-free for 33 calls, and its last call computes
    `low_ + segment_size_ * segments_ = 5465968042385080320 + 1518500400 * 4294967296 ≥ 2^63` in `int64_t`
    (UBSan on the real object: `LoadBalancerS2.cpp:130:8: signed integer overflow`). -/
theorem s2_history_overflow_witness :
    S2.wCfg.limit ≤ 2 ^ 62 + 2 ^ 33 ∧ S2.wX ≤ 10 ^ 31 ∧
    S2.workersBelow S2.wCfg.threads (S2.wPre ++ [S2.wLast]) = true ∧
    S2.behaves S2.wCfg S2.wInit (S2.wPre ++ [S2.wLast]) = true ∧
    S2.allZeroDur S2.wCfg S2.wInit (S2.wPre ++ [S2.wLast]) = true ∧
    S2.allNoOvf S2.wCfg S2.wInit S2.wPre = true ∧
    S2.noOvf S2.wCfg (S2.run S2.wCfg S2.wInit S2.wPre) S2.wLast = false ∧
    S2.peak S2.wCfg (S2.run S2.wCfg S2.wInit S2.wPre) S2.wLast = 5465968042385080320 + 1518500400 * 4294967296 ∧
    two63 ≤ S2.peak S2.wCfg (S2.run S2.wCfg S2.wInit S2.wPre) S2.wLast := S2.s2_history_overflow_witness

/-- hence no invariant theorem "every history from `S2.init` with `sieve_limit ≤ 2^62 + 2^33` keeps all int64 intermediates in
    range" exists (clock traces are universally quantified in C03/C09/C16; a constant `steady_clock` reading is legal) -/
theorem s2_whole_history_safety_refuted :
    ¬ ∀ (x limit threads : Nat) (print : Bool) (es : List S2.Ev),
        x ≤ 10 ^ 31 → limit ≤ 2 ^ 62 + 2 ^ 33 → 1 ≤ threads → S2.workersBelow threads es = true →
        S2.behaves (S2.mkConfig genConsts limit threads print) (S2.init genConsts x limit threads print) es = true →
        S2.allNoOvf (S2.mkConfig genConsts limit threads print) (S2.init genConsts x limit threads print) es = true :=
  S2.s2_whole_history_safety_refuted

/-- what DOES hold of every history from `S2.init` (no side condition): a call that hands back what it was handed
    satisfies `thread.segments * thread.segment_size ≤ low_` -/
theorem s2_hands_below (c : Consts) (x limit threads : Nat) (print : Bool) (cfg : S2.Config) (es : List S2.Ev) (e : S2.Ev)
    (hh : S2.handOk (S2.run cfg (S2.init c x limit threads print) es) e = true) :
    e.tsegs * e.tsize ≤ (S2.run cfg (S2.init c x limit threads print) es).low :=
  S2.hand_product_le_low c x limit threads print cfg es e hh

/-- ONE step with hypotheses over the hand instead of the ad-hoc `2^22 / 2^32` bounds of `C16.s2_step_no_overflow_partial`
    (PARTIAL: see the doc comment of `S2.s2_step_no_overflow_of_hand_partial` for what a whole-history theorem for small
    ranges still lacks; by the witness search no such theorem exists beyond `limit = 2^52` with 1024 workers) -/
theorem s2_step_no_overflow_of_hand_partial (cfg : S2.Config) (s : S2.State) (e : S2.Ev) (smin R : Nat)
    (hdbl : S2.SegsAtMostDouble e) (hsmin : 1 ≤ smin) (hR : 1 ≤ R) (hs1 : 1 ≤ s.segs) (htsize : smin ≤ e.tsize)
    (hhand : e.tsegs * e.tsize ≤ s.low) (hsegs : s.segs * smin ≤ 2 * s.low)
    (hsz : s.size ≤ R * smin) (hsz' : (S2.next cfg s e).size ≤ R * smin)
    (hnum : s.low + 4 * R * s.low * (cfg.threads + 1) < two63)
    (hsum : s.sum.natAbs ≤ 2 ^ 126 - 1) (htsum : e.tsum.natAbs ≤ 2 ^ 126) :
    S2.noOvf cfg s e = true :=
  S2.s2_step_no_overflow_of_hand_partial cfg s e smin R hdbl hsmin hR hs1 htsize hhand hsegs hsz hsz' hnum hsum htsum

/-! ## non-vacuity (tests, labelled as such) -/

/-- a recorded valid run (`x = 1000`, `y = 3`; from the real `LoadBalancerP2`, see PcProps/C08P2.lean) -/
def run1000 : Run := { team := 1, print := false, es := [⟨0, true, 31, 333⟩, ⟨0, false, 333, 333⟩], order := [0] }

example : p2OpenMPC (2 ^ 63 - 1) genConsts refIter Nat.primeCounting 1000 3 2 run1000 = .ok (Spec.P2 1000 2 : ℤ) :=
  P2_64_no_overflow refIter_spec (fun _ _ => rfl) (by decide) (by decide) genConsts genConsts_wf (by norm_num) run1000
    (fun _ _ => by decide)

example : p2OpenMPC (2 ^ 127 - 1) genConsts refIter Nat.primeCounting 1000 3 2 run1000 = .ok (Spec.P2 1000 2 : ℤ) :=
  P2_128_no_overflow refIter_spec (fun _ _ => rfl) (by decide) (by decide) genConsts genConsts_wf (by norm_num) (by norm_num)
    run1000 (fun _ _ => by decide)

example : bOpenMPC (2 ^ 64 - 1) genConsts refIter Nat.primeCounting 1000 3 run1000 = .ok (Spec.B 1000 3) :=
  (B_64_no_overflow refIter_spec (fun _ _ => rfl) 3 genConsts genConsts_wf (by norm_num) run1000 (fun _ => by decide)).1

example : p2ThreadC (2 ^ 63 - 1) refIter Nat.primeCounting 1000 3 31 333 = .ok (chunkN 1000 3 (31, 333)) :=
  P2_thread_no_overflow refIter_spec (fun _ _ => rfl) _ 3 (by norm_num) (by norm_num) (by norm_num) (by norm_num)

/-- the checked mirror is not vacuous: with a `T` that is too narrow it DOES report the overflow
    (`P2_thread(100, 2, 10, 52) = 25`, computed in a 4-bit `T`) -/
example : p2ThreadC 15 (listIter primes60 2) (listPi primes60) 100 2 10 52 = .error .ovfSum := by decide +kernel
example : p2ThreadC 25 (listIter primes60 2) (listPi primes60) 100 2 10 52 = .ok 25 := by decide +kernel

/-- the finding on the input of the 0.1 s reproducer `P2((int128_t) 10^22, 10^11 - 1, 4118054813, 1)` (real code of 0995f00:
    returned `-9223372036854775808`, exact value `0`); `pi_noprint` is a parameter of the model, here the constant the real one returns -/
example : p2OpenMPCPreFix (2 ^ 127 - 1) genConsts refIter (fun _ => 4118054813) (10 ^ 22) (10 ^ 11 - 1) 4118054813 run1000
    = .error .ovfInitA :=
  P2_128_closed_form_overflows _ _ _ _ _ _ _ _ (by norm_num) (by
    rw [isqrtN_eq]
    have : Nat.sqrt (10 ^ 22) = 10 ^ 11 := by
      symm; rw [Nat.eq_sqrt]; norm_num
    rw [this]; norm_num) rfl (by norm_num)

/-- the one-step theorem's hypotheses hold on call 10 of the recorded history (see the `example` in PcProofs/SafetyLB.lean);
    the invariant's base case -/
example : S2.HandsBelow S2.wInit := S2.handsBelow_init _ _ _ _ _
example : S2.handOk (S2.run S2.wCfg S2.wInit (S2.wPre.take 10)) (S2.wPre.getD 10 S2.wLast) = true := by decide +kernel

end Pc.C16Safety

#print axioms Pc.C16Safety.pi_phi_bounds
#print axioms Pc.C16Safety.P2_B_bounds
#print axioms Pc.C16Safety.prime_triple_bounds
#print axioms Pc.C16Safety.P2_thread_no_overflow
#print axioms Pc.C16Safety.P2_64_no_overflow
#print axioms Pc.C16Safety.P2_128_no_overflow
#print axioms Pc.C16Safety.P2_128_closed_form_overflows
#print axioms Pc.C16Safety.closed_form_threshold
#print axioms Pc.C16Safety.B_64_no_overflow
#print axioms Pc.C16Safety.B_128_no_overflow
#print axioms Pc.C16Safety.s2_history_overflow_witness
#print axioms Pc.C16Safety.s2_whole_history_safety_refuted
#print axioms Pc.C16Safety.s2_hands_below
#print axioms Pc.C16Safety.s2_step_no_overflow_of_hand_partial
