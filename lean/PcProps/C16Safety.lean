/-
C16 (and C12 "every such quantity fits its integer type") — machine-integer safety of the modelled loops (work package
"safety").  Only property theorems, non-vacuity examples and the axiom audit live here.

The L2 loop models of the other work packages check every index and every division but ACCUMULATE IN EXACT INTEGERS.
This file closes that gap where it can be closed by proof, and records where the property is FALSE of the real code:

* `PcModel/SafetyLoops.lean`: width-checked mirrors (`p2ThreadC`, `p2OpenMPC`, `bOpenMPC`, `p2InitC`): the unchecked mirror
  with every value the C++ stores in a fixed-width variable checked against that variable's type when it is produced.
  A `*_no_overflow` theorem says: on the function's domain the checked mirror returns the value of the unchecked one, i.e.
  no stored intermediate leaves its type, for EVERY iterator meeting the contract, EVERY valid run of the parallel region.
* `PcProofs/SafetyBoundsNT.lean`: the bound library (`π n ≤ (n+1)/2`, `P2 ≤ 3x/4`, `B(x, y) ≤ 7x/8`, every sub-sum of `B` is
  `≤ B`, ordered prime triples: `Σ_q π(√(x/q))² ≤ 6x`, `Σ_q π(y) π(x/(q y)) ≤ 6x`).
* LoadBalancerS2 (`PcProofs/SafetyLB.lean`): the whole-history int64 safety claim for `sieve_limit ≤ 2^62 + 2^33` is REFUTED by a
  kernel-checked history recorded on the real object under a constant (legal: monotone) clock (`s2_history_overflow_witness`);
  what holds of every history (`s2_hands_below`) and what one step needs (`s2_step_no_overflow_of_hand_partial`).
* FINDING F9 (P2.cpp:109 of /repo 0995f00, REPAIRED in /repo 8cccffb): `(a - 2) * (a + 1)` was an `int64_t` product also for
  `T = int128_t` and overflowed for every `a = π(y) ≥ 3037000501` (`P2_128_closed_form_overflows` about the pre-fix mirror
  `p2OpenMPCPreFix`; real code of 0995f00: `primecount 1e22 --P2 --alpha=3713.2` printed a negative number, UBSan reported
  `P2.cpp:109:19: signed integer overflow: 3324998166 * 3324998169`).  The current line (`T pi_y = a; (pi_y - 2) * (pi_y + 1) …`)
  is `p2InitC`; for it `P2_128_no_overflow` holds with no bound on `a`.
-/
import PcProofs.SafetyP2Region
import PcProofs.P2LoopEx
import PcProofs.SafetyLB
import PcProofs.SafetySigmaTop
import PcProofs.SafetyTrivial

namespace Pc.C16Safety
open Pc.P2L Pc.LB Pc.Safety Finset
open scoped Nat.Prime

/-! ## the bound library (what the accumulators are compared with) -/

/-- `π(n) ≤ (n + 1) / 2 ≤ n`, `φ(u, a) ≤ u` -/
theorem pi_phi_bounds (n a : ℕ) : π n ≤ (n + 1) / 2 ∧ π n ≤ n ∧ Spec.phi n a ≤ n :=
  ⟨pi_le_half n, pi_le_self n, Spec.phi_le n a⟩

/-- `P2(x, a)` is the cardinality of a set of semiprimes `≤ x`: `4·P2 ≤ 3x`; `B(x, y) = P2 + Σ_{a<i≤b}(i-1)`: `0 ≤ 8·B ≤ 7x`;
    every sub-sum of the terms `π(x / q)` of `B` is bounded by `B` -/
theorem P2_B_bounds (x y a : ℕ) (S : Finset ℕ) (hS : S ⊆ (Finset.Ioc y (Nat.sqrt x)).filter Nat.Prime) :
    4 * Spec.P2 x a ≤ 3 * x ∧ 0 ≤ Spec.B x y ∧ 8 * Spec.B x y ≤ 7 * x ∧ ∑ q ∈ S, (π (x / q) : ℤ) ≤ Spec.B x y :=
  ⟨P2_le_three_quarters x a, B_nonneg x y, eight_B_le x y, B_sub_le x y S hS⟩

/-- ordered triples of primes with product `≤ x` (at most 6 per number): the sums behind Σ4 and Σ6 of Gourdon's formula,
    over ANY finite set `Q` of primes -/
theorem prime_triple_bounds (x y : ℕ) (Q : Finset ℕ) (hQ : ∀ q ∈ Q, q.Prime) :
    ∑ q ∈ Q, (π (Nat.sqrt (x / q))) ^ 2 ≤ 6 * x ∧ ∑ q ∈ Q, π y * π (x / (q * y)) ≤ 6 * x :=
  ⟨sum_pi_sqrt_sq_le x Q hQ, sum_pi_mul_pi_le x y Q hQ⟩

/-! ## P2_thread / B_thread -/

/-- **`P2_thread<T>` / `B_thread<T>` store no value outside its type**: for every chunk `0 < low < high ≤ 2^63` (the
    dispenser hands out `high ≤ x / max(y,1)`, an `int64_t`), every `T` whose maximum is `≥ x`, every iterator meeting the
    contract (any batch sizes): `int64_t pi_xp` stays `< 2^63` (it is `π(x / prime) ≤ x / prime < high`), `T sum` stays `≤ tMax`
    (monotone; its final value is a sub-sum of `B(x, y) ≤ x`), and the value is the chunk function -/
theorem P2_thread_no_overflow {it : Iter} (hit : IterSpec it) {pi : ℕ → ℕ} {x : ℕ} (hpi : ∀ n, n < x → pi n = π n)
    (tMax y : ℕ) {low high : ℕ} (hlow : 0 < low) (hlh : low < high) (hhigh : high ≤ 2 ^ 63) (hxT : x ≤ tMax) :
    p2ThreadC tMax it pi x y low high = .ok (chunkN x y (low, high)) := by
  have h1 := chunkN_le_B x y (low, high)
  have h2 := B_le x y
  have h3 : (x : ℤ) ≤ tMax := by exact_mod_cast hxT
  exact p2ThreadC_eq_chunk hit hpi tMax y hlow hlh hhigh (by omega)

/-! ## P2_OpenMP -/

/-- **`P2(int64_t x, y, a)` never overflows**, for EVERY `x < 2^63`, every `y`, `a = π(y)`, every valid run of the parallel
    region (team, call order, clock, reduction order): the closed form of P2.cpp:112 (`a ≤ π(√x)`, `π(√x)² ≤ x`), every
    `pi_xp`, every thread-local / thread-private / reduced `sum` lie in `int64_t`, and the result is `P2(x, a)` -/
theorem P2_64_no_overflow {it : Iter} (hit : IterSpec it) {pi : ℕ → ℕ} {x y a : ℕ} (hpi : ∀ n, n < x → pi n = π n)
    (ha : a = π y) (hya : pi y = a) (c : Consts) (hc : c.WF) (hx : x < 2 ^ 63) (r : Run)
    (hv : 4 ≤ x → y < Nat.sqrt x → r.valid c x (x / max y 1) = true) :
    p2OpenMPC (2 ^ 63 - 1) c it pi x y a r = .ok (Spec.P2 x a : ℤ) := by
  have hxy : x / max y 1 < two63 := lt_of_le_of_lt (Nat.div_le_self _ _) (by unfold two63; omega)
  exact p2OpenMPC_eq hit hpi ha hya c hc hxy r hv _ (by omega)

/-- **`P2(int128_t x, y, a)` never overflows** (the code since /repo 8cccffb): EVERY `x < 2^127` whose `x / max(y, 1)` fits the
    narrowing `(int64_t)(x / max(y, 1))` of P2.cpp:115 (guaranteed by the range check of the 128-bit entry points:
    `range_check_guarantee`), every `y`, `a = π(y)` — NO bound on `a` — every valid run: the operands and products of the closed
    form (all `int128_t` now), every `pi_xp`, every thread-local / thread-private / reduced `sum` lie in their types; result `P2(x, a)` -/
theorem P2_128_no_overflow {it : Iter} (hit : IterSpec it) {pi : ℕ → ℕ} {x y a : ℕ}
    (hpi : ∀ n, n < x → pi n = π n) (ha : a = π y) (hya : pi y = a) (c : Consts) (hc : c.WF) (hx : x < 2 ^ 127)
    (hxy : x / max y 1 < 2 ^ 63) (r : Run) (hv : 4 ≤ x → y < Nat.sqrt x → r.valid c x (x / max y 1) = true) :
    p2OpenMPC (2 ^ 127 - 1) c it pi x y a r = .ok (Spec.P2 x a : ℤ) :=
  p2OpenMPC_eq hit hpi ha hya c hc (by unfold two63; omega) r hv _ (by omega)

/-- **FINDING F9 (P2.cpp:109 before /repo 8cccffb; repaired there)**: `T sum = (a - 2) * (a + 1) / 2 - …` with `int64_t a`
    multiplied in `int64_t` although `T = int128_t`: for EVERY `x ≥ 4`, `y < √x` and `a = pi_noprint(y) ≥ 3037000501` — whatever
    the run — the product left `int64_t` (signed overflow, undefined behaviour; observed: the result was off by `2^63`).
    About `p2OpenMPCPreFix`, the mirror of the pre-fix text; the current text is covered by `P2_128_no_overflow`. -/
theorem P2_128_closed_form_overflows (tMax : ℕ) (c : Consts) (it : Iter) (pi : ℕ → ℕ) (x y a : ℕ) (r : Run)
    (hx : 4 ≤ x) (hy : y < isqrtN x) (ha : a = pi y) (hbig : 3037000501 ≤ a) :
    p2OpenMPCPreFix tMax c it pi x y a r = .error .ovfInitA := by
  unfold p2OpenMPCPreFix
  rw [if_neg (by rw [ha]; exact fun h => h rfl), if_neg (by omega)]
  simp only
  rw [if_neg (by omega), p2InitCPreFix_overflows _ _ _ _ hbig]

/-- the threshold of the pre-fix line is exact (the product fits for `a = 3037000500`, not for `a = 3037000501`), and the
    repaired line computes the exact value `0` at `a = b = 3037000501` and at the 0.1 s reproducer's `a = b = 4118054813` -/
theorem closed_form_threshold :
    p2InitCPreFix (-(2 ^ 127 : ℤ)) (2 ^ 127 - 1) 3037000500 3037000500 = .ok 0 ∧
    p2InitCPreFix (-(2 ^ 127 : ℤ)) (2 ^ 127 - 1) 3037000501 3037000501 = .error .ovfInitA ∧
    p2InitC (-(2 ^ 127 : ℤ)) (2 ^ 127 - 1) 3037000501 3037000501 = .ok 0 ∧
    p2InitC (-(2 ^ 127 : ℤ)) (2 ^ 127 - 1) 4118054813 4118054813 = .ok 0 := by
  refine ⟨?_, ?_, ?_, ?_⟩ <;> decide

/-! ## B_OpenMP -/

/-- **`B(int64_t x, y)` (computed in `uint64_t`) never overflows**, every `x < 2^63`, every `y`, every valid run; the result
    `B(x, y) ≤ 7x/8 < 2^63`, so the final conversion `int64_t sum = B_OpenMP((uint64_t) x, …)` is value-preserving -/
theorem B_64_no_overflow {it : Iter} (hit : IterSpec it) {pi : ℕ → ℕ} {x : ℕ} (hpi : ∀ n, n < x → pi n = π n)
    (y : ℕ) (c : Consts) (hc : c.WF) (hx : x < 2 ^ 63) (r : Run) (hv : 4 ≤ x → r.valid c x (x / max y 1) = true) :
    bOpenMPC (2 ^ 64 - 1) c it pi x y r = .ok (Spec.B x y) ∧ Spec.B x y < 2 ^ 63 := by
  have hxy : x / max y 1 < two63 := lt_of_le_of_lt (Nat.div_le_self _ _) (by unfold two63; omega)
  exact ⟨bOpenMPC_eq hit hpi y c hc hxy r hv _ (by omega), B_lt_two63 x y hx⟩

/-- `B(int128_t x, y)` (computed in `uint128_t`), every `x < 2^127` with `x / max(y,1) < 2^63` (the narrowing `(int64_t)(x / max(y, 1))`
    of B.cpp:99, guaranteed by the range check: `range_check_guarantee`) -/
theorem B_128_no_overflow {it : Iter} (hit : IterSpec it) {pi : ℕ → ℕ} {x : ℕ} (hpi : ∀ n, n < x → pi n = π n)
    (y : ℕ) (c : Consts) (hc : c.WF) (hx : x < 2 ^ 127) (hxy : x / max y 1 < 2 ^ 63) (r : Run)
    (hv : 4 ≤ x → r.valid c x (x / max y 1) = true) :
    bOpenMPC (2 ^ 128 - 1) c it pi x y r = .ok (Spec.B x y) ∧ Spec.B x y < 2 ^ 127 := by
  refine ⟨bOpenMPC_eq hit hpi y c hc (by unfold two63; omega) r hv _ (by omega), ?_⟩
  have := B_le x y
  have : (x : ℤ) < 2 ^ 127 := by exact_mod_cast hx
  omega



/-! ## Sigma (Sigma.cpp): closed forms, prime loop, whole function (WP safety2) -/

/-- **`Sigma0 … Sigma3` never leave `T`** (Sigma.cpp:30-53), for EVERY `x ≤ tMax` (so: every `x < 2^63` with `T = int64_t`, every
    `x < 2^127` with `T = int128_t`) and every `y` with `x^(1/3) ≤ y ≤ √x`, `√(x/y) ≤ x^(1/3)` (Gourdon's parameter domain): every
    intermediate value of the four closed forms (differences, products, the `/ 2`, `/ 6`, partial sums — in C++ evaluation order)
    lies in `T`, with `a = π(y)`, `b = π(x^(1/3))`, `c = π(√(x/y))`, `d = π(x⋆)`, `pi_sqrtx = π(√x)`. -/
theorem Sigma_closed_forms_no_overflow {x y tMax : ℕ} (hy1 : 1 ≤ y) (hy2 : y * y ≤ x) (hc3y : irootN 3 x ≤ y)
    (hsc : Nat.sqrt (x / y) ≤ irootN 3 x) (hxT : x ≤ tMax) (hT : 2 ≤ tMax) :
    sigma0C tMax (π (Nat.sqrt x)) (π y) = .ok (sigma0P (π (Nat.sqrt x)) (π y)) ∧
    sigma1C tMax (π y) (π (irootN 3 x)) = .ok (sigma1 (π y) (π (irootN 3 x))) ∧
    sigma2C tMax (π y) (π (irootN 3 x)) (π (Nat.sqrt (x / y))) (π (xStar x y))
      = .ok (sigma2 (π y) (π (irootN 3 x)) (π (Nat.sqrt (x / y))) (π (xStar x y))) ∧
    sigma3C tMax (π (irootN 3 x)) (π (xStar x y)) = .ok (sigma3 (π (irootN 3 x)) (π (xStar x y))) := by
  have H := sigma_closed_hyps hy1 hy2 hc3y hsc
  exact ⟨sigma0C_ok _ _ _ H.hap (le_trans H.hps hxT), sigma1C_ok _ _ _ H.hba (le_trans H.haa hxT),
    sigma2C_ok _ _ _ _ _ hT H.hdc H.hcb (le_trans H.hab hxT) (le_trans H.hac hxT) (le_trans H.hcc hxT) (le_trans H.hbx hxT),
    sigma3C_ok _ _ _ (by omega) (le_trans H.hdc H.hcb) (le_trans H.hb3 hxT)⟩

/-- **the prime loop of `Sigma456`, width-checked** (Sigma.cpp:75-90): `sigma4`, `sigma5`, `sigma6` are sums of non-negative terms;
    when their FINAL values fit `T`, no prefix and no product `pi_sqrt_xp * (T) pi_sqrt_xp` leaves `T`, and the checked loop
    returns what the unchecked loop (`sigma456Step`) returns -/
theorem Sigma456_loop_no_overflow {t : NT} {tMax : ℕ} {w : ITy} {x y xs x13 maxX : ℕ} (H : SigmaLoopOK w x y xs x13 maxX)
    (l : List ℕ) (hl : ∀ q ∈ l, xs < q ∧ q ≤ x13)
    (b4 : (l.map (sg4 t x y (Nat.sqrt (x / y)))).sum ≤ tMax) (b5 : (l.map (sg5 t x (Nat.sqrt (x / y)))).sum ≤ tMax)
    (b6 : (l.map (sg6 t x)).sum ≤ tMax) :
    l.foldlM (sigma456StepC tMax t w x y maxX (Nat.sqrt (x / y))) ⟨0, 0, 0⟩
      = liftL (l.foldlM (sigma456Step t w x y maxX (Nat.sqrt (x / y))) ⟨0, 0, 0⟩) := by
  rw [sigma456_fold H l _ hl, sigma456C_fold H l ⟨0, 0, 0⟩ hl (le_refl _) (le_refl _) (le_refl _)
    (by simpa using b4) (by simpa using b5) (by simpa using b6)]
  rfl

/-- the final values: `sigma4 *= a` and `sigma6` are `≤ 6x` (ordered prime triples), `sigma5 ≤ x^(1/3) · y ≤ x` -/
theorem Sigma456_final_bounds {t : NT} {x y : ℕ} (D : SigmaDom t x y) :
    (t.piOf y : ℤ) * ((t.primesIn (xStar x y) (irootN 3 x)).map (sg4 t x y (Nat.sqrt (x / y)))).sum ≤ 6 * (x : ℤ) ∧
    ((t.primesIn (xStar x y) (irootN 3 x)).map (sg5 t x (Nat.sqrt (x / y)))).sum ≤ (irootN 3 x : ℤ) * y ∧
    ((t.primesIn (xStar x y) (irootN 3 x)).map (sg6 t x)).sum ≤ 6 * (x : ℤ) :=
  ⟨sigma4_final_le D, sigma5_final_le D, sigma6_final_le D⟩

/-- **`Sigma(x, y)` stores no value outside `T`** — PARTIAL in the constant: proved for `11 x + 4 ≤ tMax`.  Every intermediate of
    `Sigma0 … Sigma3`, every prefix of `sigma4/5/6`, every product, `sigma4 *= a`, `-sigma6`, and the six final additions of
    Sigma.cpp:92-95 / 127-131 lie in `T`; the value is `Σ0 + … + Σ6`.  Missing for full strength with `T = int64_t`:
    `x ∈ ((2^63 - 5) / 11, 2^63)` (≈ `[8.4·10^17, 9.2·10^18]`) — the bounds `Σ4, Σ6 ≤ 6x` would have to be replaced by
    Mertens-type bounds.  For `T = int128_t` the entry point accepts `x ≤ 10^31` only: `Sigma_128_no_overflow`. -/
theorem Sigma_no_overflow_partial {t : NT} {x y : ℕ} (D : SigmaDom t x y) {w : ITy} (hy2 : y * y ≤ x)
    (hsc : Nat.sqrt (x / y) ≤ irootN 3 x) (hw : y * y ≤ w.maxVal) (h63 : t.bound ≤ ITy.i64.maxVal)
    {tMax : ℕ} (hM : 11 * x + 4 ≤ tMax) :
    sigmaC tMax t w x y = .ok (Spec.Sigma0 x (π y) + Spec.Sigma1 (π y) (π (irootN 3 x))
      + Spec.Sigma2 (π y) (π (irootN 3 x)) (π (Nat.sqrt (x / y))) (π (xStar x y))
      + Spec.Sigma3 (π (irootN 3 x)) (π (xStar x y)) + Spec.Sigma4 x y (xStar x y)
      + Spec.Sigma5 x y (irootN 3 x) + Spec.Sigma6 x (xStar x y) (irootN 3 x)) := by
  rw [sigmaC_eq_partial D hy2 hsc hw h63 hM, sigma_eq D.hv D.hy1 D.hc3y hsc D.hyb D.hs D.hm4 hw h63]
  rfl

/-- **`Sigma(int128_t x, y)` never overflows**: EVERY `x ≤ 10^31` (the limit of the 128-bit entry points), every `y` of the domain -/
theorem Sigma_128_no_overflow {t : NT} {x y : ℕ} (D : SigmaDom t x y) (hx : x ≤ 10 ^ 31) (hy2 : y * y ≤ x)
    (hsc : Nat.sqrt (x / y) ≤ irootN 3 x) (h63 : t.bound ≤ ITy.i64.maxVal) :
    sigmaC (2 ^ 127 - 1) t .i128 x y = liftL (sigma t .i128 x y) :=
  sigmaC_eq_partial D hy2 hsc (le_trans hy2 (le_trans hx (by decide))) h63 (by omega)

/-- `Sigma(int64_t x, y)`: PARTIAL, `x ≤ 838488366986797800 = (2^63 - 5) / 11` -/
theorem Sigma_64_no_overflow_partial {t : NT} {x y : ℕ} (D : SigmaDom t x y) (hx : x ≤ 838488366986797800) (hy2 : y * y ≤ x)
    (hsc : Nat.sqrt (x / y) ≤ irootN 3 x) (h63 : t.bound ≤ ITy.i64.maxVal) :
    sigmaC (2 ^ 63 - 1) t .i64 x y = liftL (sigma t .i64 x y) :=
  sigmaC_eq_partial D hy2 hsc (le_trans hy2 (le_trans hx (by decide))) h63 (by omega)

/-! ## S2_trivial (S2_trivial.cpp) (WP safety2) -/

/-- **`S2_trivial(x, y, z, c)` stores no value outside its type**: valid table reaching `y < 2^63`, `y² ≤ tMax` (the size condition of
    the checked product `(T) prime * prime`; in Deleglise-Rivat `y² ≤ x ≤ tMax`): whenever the unchecked mirror returns the defining sum
    (`C08Leaf.s2_trivial_loop_eq_executable` gives its hypotheses), every `int64_t` difference `pi_y - pi[xpp]`, `pi[y-1] - pi[prime]`, …,
    every prefix of `T sum` (non-negative terms), `n`, `a1`, `a2`, `a1 + a2`, `n * (a1 + a2)`, `/ 2` and the final `sum += …` lie in
    their types (`S2_trivial ≤ π(y)² ≤ y²`), and the checked mirror returns the same value.  Both widths, no bound on `x`. -/
theorem S2_trivial_no_overflow {t : NT} (hv : t.Valid) {tMax : ℕ} {w : ITy} {x y z c : ℕ} (hyb : y ≤ t.bound)
    (hy63 : y < 2 ^ 63) (hyM : y * y ≤ tMax) (h : s2Trivial t w x y z c = .ok (t.S2trivial x y z c)) :
    s2TrivialC tMax t w x y z c = .ok (t.S2trivial x y z c) := by
  refine s2TrivialC_of hv hyb (by omega) hyM h ?_
  have := S2trivial_le hv (x := x) z c hyb
  have h2 : (y : ℤ) * y ≤ tMax := by exact_mod_cast hyM
  omega

/-! ## LoadBalancerS2: whole histories -/

/-- **The whole-history int64 safety of `LoadBalancerS2` is FALSE inside the range the public API guarantees**
    (`sieve_limit ≤ 2^62 + 2^33`, `range_check_guarantee`): a 34-call history with `x = 10^31`, `sieve_limit = 2^61`, 2 threads,
    no status output, recorded on the REAL object under a constant clock (all measured durations 0, so `segments_ *= 2` at
    every update) is a behaviour of the integer model from `S2.init` (ThreadData handed back unchanged, outputs as computed,
    no call after `false`), overflow-free for 33 calls, and its last call computes
    `low_ + segment_size_ * segments_ = 5465968042385080320 + 1518500400 * 4294967296 ≥ 2^63` in `int64_t`
    (UBSan on the real object: `LoadBalancerS2.cpp:130:8: signed integer overflow`). -/
theorem s2_history_overflow_witness :
    S2.wCfg.limit ≤ 2 ^ 62 + 2 ^ 33 ∧ S2.wX ≤ 10 ^ 31 ∧
    S2.workersBelow S2.wCfg.threads (S2.wPre ++ [S2.wLast]) = true ∧
    S2.behaves S2.wCfg S2.wInit (S2.wPre ++ [S2.wLast]) = true ∧
    S2.allZeroDur S2.wCfg S2.wInit (S2.wPre ++ [S2.wLast]) = true ∧
    S2.allNoOvf S2.wCfg S2.wInit S2.wPre = true ∧
    S2.noOvf S2.wCfg (S2.run S2.wCfg S2.wInit S2.wPre) S2.wLast = false ∧
    S2.peak S2.wCfg (S2.run S2.wCfg S2.wInit S2.wPre) S2.wLast = 5465968042385080320 + 1518500400 * 4294967296 ∧
    two63 ≤ S2.peak S2.wCfg (S2.run S2.wCfg S2.wInit S2.wPre) S2.wLast := S2.s2_history_overflow_witness

/-- hence no invariant theorem "every history from `S2.init` with `sieve_limit ≤ 2^62 + 2^33` keeps all int64 intermediates in
    range" exists (clock traces are universally quantified in C03/C09/C16; a constant `steady_clock` reading is legal) -/
theorem s2_whole_history_safety_refuted :
    ¬ ∀ (x limit threads : Nat) (print : Bool) (es : List S2.Ev),
        x ≤ 10 ^ 31 → limit ≤ 2 ^ 62 + 2 ^ 33 → 1 ≤ threads → S2.workersBelow threads es = true →
        S2.behaves (S2.mkConfig genConsts limit threads print) (S2.init genConsts x limit threads print) es = true →
        S2.allNoOvf (S2.mkConfig genConsts limit threads print) (S2.init genConsts x limit threads print) es = true :=
  S2.s2_whole_history_safety_refuted

/-- what DOES hold of every history from `S2.init` (no side condition): a call that hands back what it was handed
    satisfies `thread.segments * thread.segment_size ≤ low_` -/
theorem s2_hands_below (c : Consts) (x limit threads : Nat) (print : Bool) (cfg : S2.Config) (es : List S2.Ev) (e : S2.Ev)
    (hh : S2.handOk (S2.run cfg (S2.init c x limit threads print) es) e = true) :
    e.tsegs * e.tsize ≤ (S2.run cfg (S2.init c x limit threads print) es).low :=
  S2.hand_product_le_low c x limit threads print cfg es e hh

/-- ONE step with hypotheses over the hand instead of the ad-hoc `2^22 / 2^32` bounds of `C16.s2_step_no_overflow_partial`
    (PARTIAL: see the doc comment of `S2.s2_step_no_overflow_of_hand_partial` for what a whole-history theorem for small
    ranges still lacks; by the witness search no such theorem exists beyond `limit = 2^52` with 1024 workers) -/
theorem s2_step_no_overflow_of_hand_partial (cfg : S2.Config) (s : S2.State) (e : S2.Ev) (smin R : Nat)
    (hdbl : S2.SegsAtMostDouble e) (hsmin : 1 ≤ smin) (hR : 1 ≤ R) (hs1 : 1 ≤ s.segs) (htsize : smin ≤ e.tsize)
    (hhand : e.tsegs * e.tsize ≤ s.low) (hsegs : s.segs * smin ≤ 2 * s.low)
    (hsz : s.size ≤ R * smin) (hsz' : (S2.next cfg s e).size ≤ R * smin)
    (hnum : s.low + 4 * R * s.low * (cfg.threads + 1) < two63)
    (hsum : s.sum.natAbs ≤ 2 ^ 126 - 1) (htsum : e.tsum.natAbs ≤ 2 ^ 126) :
    S2.noOvf cfg s e = true :=
  S2.s2_step_no_overflow_of_hand_partial cfg s e smin R hdbl hsmin hR hs1 htsize hhand hsegs hsz hsz' hnum hsum htsum

/-! ## non-vacuity (tests, labelled as such) -/

/-- a recorded valid run (`x = 1000`, `y = 3`; from the real `LoadBalancerP2`, see PcProps/C08P2.lean) -/
def run1000 : Run := { team := 1, print := false, es := [⟨0, true, 31, 333⟩, ⟨0, false, 333, 333⟩], order := [0] }

example : p2OpenMPC (2 ^ 63 - 1) genConsts refIter Nat.primeCounting 1000 3 2 run1000 = .ok (Spec.P2 1000 2 : ℤ) :=
  P2_64_no_overflow refIter_spec (fun _ _ => rfl) (by decide) (by decide) genConsts genConsts_wf (by norm_num) run1000
    (fun _ _ => by decide)

example : p2OpenMPC (2 ^ 127 - 1) genConsts refIter Nat.primeCounting 1000 3 2 run1000 = .ok (Spec.P2 1000 2 : ℤ) :=
  P2_128_no_overflow refIter_spec (fun _ _ => rfl) (by decide) (by decide) genConsts genConsts_wf (by norm_num) (by norm_num)
    run1000 (fun _ _ => by decide)

example : bOpenMPC (2 ^ 64 - 1) genConsts refIter Nat.primeCounting 1000 3 run1000 = .ok (Spec.B 1000 3) :=
  (B_64_no_overflow refIter_spec (fun _ _ => rfl) 3 genConsts genConsts_wf (by norm_num) run1000 (fun _ => by decide)).1

example : p2ThreadC (2 ^ 63 - 1) refIter Nat.primeCounting 1000 3 31 333 = .ok (chunkN 1000 3 (31, 333)) :=
  P2_thread_no_overflow refIter_spec (fun _ _ => rfl) _ 3 (by norm_num) (by norm_num) (by norm_num) (by norm_num)

/-- the checked mirror is not vacuous: with a `T` that is too narrow it DOES report the overflow
    (`P2_thread(100, 2, 10, 52) = 25`, computed in a 4-bit `T`) -/
example : p2ThreadC 15 (listIter primes60 2) (listPi primes60) 100 2 10 52 = .error .ovfSum := by decide +kernel
example : p2ThreadC 25 (listIter primes60 2) (listPi primes60) 100 2 10 52 = .ok 25 := by decide +kernel

/-- the finding on the input of the 0.1 s reproducer `P2((int128_t) 10^22, 10^11 - 1, 4118054813, 1)` (real code of 0995f00:
    returned `-9223372036854775808`, exact value `0`); `pi_noprint` is a parameter of the model, here the constant the real one returns -/
example : p2OpenMPCPreFix (2 ^ 127 - 1) genConsts refIter (fun _ => 4118054813) (10 ^ 22) (10 ^ 11 - 1) 4118054813 run1000
    = .error .ovfInitA :=
  P2_128_closed_form_overflows _ _ _ _ _ _ _ _ (by norm_num) (by
    rw [isqrtN_eq]
    have : Nat.sqrt (10 ^ 22) = 10 ^ 11 := by
      symm; rw [Nat.eq_sqrt]; norm_num
    rw [this]; norm_num) rfl (by norm_num)

/-- the one-step theorem's hypotheses hold on call 10 of the recorded history (see the `example` in PcProofs/SafetyLB.lean);
    the invariant's base case -/
example : S2.HandsBelow S2.wInit := S2.handsBelow_init _ _ _ _ _
example : S2.handOk (S2.run S2.wCfg S2.wInit (S2.wPre.take 10)) (S2.wPre.getD 10 S2.wLast) = true := by decide +kernel


/-- `Sigma` on `x = 100000`, `y = 60` (the hypotheses of `SigmaDom` and of the whole-function theorem are satisfiable) -/
example : sigmaC (2 ^ 63 - 1) (NT.build 2000) .i64 100000 60 = liftL (sigma (NT.build 2000) .i64 100000 60) :=
  Sigma_64_no_overflow_partial
    ⟨NT.build_valid 2000, by norm_num,
      by rw [irootN_eq_of (r := 46) (by norm_num) (by norm_num) (by norm_num)]; norm_num,
      by show 60 ≤ 2000; norm_num, by show Nat.sqrt 100000 ≤ 2000; exact (Nat.sqrt_lt.2 (by norm_num)).le,
      by show 100000 / (xStar 100000 60 * 60) ≤ 2000
         exact le_trans (Nat.div_le_div_left (Nat.le_mul_of_pos_left 60 (one_le_xStar _ _)) (by norm_num)) (by norm_num)⟩
    (by norm_num) (by norm_num)
    (by rw [irootN_eq_of (r := 46) (by norm_num) (by norm_num) (by norm_num)]
        exact Nat.lt_succ_iff.1 (Nat.sqrt_lt.2 (by norm_num)))
    (by show 2000 ≤ ITy.i64.maxVal; decide)

/-- `S2_trivial(2000, 20, 100, 2) = 5` (one loop term `π(20) - π(16) = 2`, closed form `3 · (0 + 2) / 2 = 3`): the checked mirror
    returns it with `tMax = 6` and reports the overflow of `n * (a1 + a2) = 6`… no: of `sum + 3 = 5 > 4` / the product with `tMax = 4` -/
example : (s2TrivialC 6 (NT.build 100) .i64 2000 20 100 2).toOption = some 5 := by decide +kernel
example : (s2TrivialC 4 (NT.build 100) .i64 2000 20 100 2).toOption = none := by decide +kernel
example : (s2Trivial (NT.build 100) .i64 2000 20 100 2).toOption = some 5 := by decide +kernel

/-- the checked closed forms are not vacuous: in a 7-bit `T` (`tMax = 63`) `Sigma3(10, 0)` overflows (`10 * 9 * 19 = 1710`) -/
example : sigma3C 63 10 0 = .error .ovfClosed := by decide
example : sigma3C 2000 10 0 = .ok 275 := by decide

end Pc.C16Safety

#print axioms Pc.C16Safety.pi_phi_bounds
#print axioms Pc.C16Safety.P2_B_bounds
#print axioms Pc.C16Safety.prime_triple_bounds
#print axioms Pc.C16Safety.P2_thread_no_overflow
#print axioms Pc.C16Safety.P2_64_no_overflow
#print axioms Pc.C16Safety.P2_128_no_overflow
#print axioms Pc.C16Safety.P2_128_closed_form_overflows
#print axioms Pc.C16Safety.closed_form_threshold
#print axioms Pc.C16Safety.B_64_no_overflow
#print axioms Pc.C16Safety.B_128_no_overflow
#print axioms Pc.C16Safety.s2_history_overflow_witness
#print axioms Pc.C16Safety.s2_whole_history_safety_refuted
#print axioms Pc.C16Safety.s2_hands_below
#print axioms Pc.C16Safety.s2_step_no_overflow_of_hand_partial
#print axioms Pc.C16Safety.Sigma_closed_forms_no_overflow
#print axioms Pc.C16Safety.Sigma456_loop_no_overflow
#print axioms Pc.C16Safety.Sigma456_final_bounds
#print axioms Pc.C16Safety.Sigma_no_overflow_partial
#print axioms Pc.C16Safety.Sigma_128_no_overflow
#print axioms Pc.C16Safety.Sigma_64_no_overflow_partial
#print axioms Pc.C16Safety.S2_trivial_no_overflow
