/-
C02 (WP lmo) — the simple counting algorithms return π(x): theorems about the L2 models of their CONTROL FLOW
(PcModel/SimpleAlgs.lean: loop bounds, early returns, `next[]` / `phi[]` carried across segments, the `break`, the
binary indexed tree), not only about the identities they evaluate.  Only property theorems, non-vacuity examples and the
axiom audit live here; proofs are in PcProofs/SimpleAlgs*.lean, PcProofs/Fenwick.lean, PcProofs/GenerateMoebius.lean.

Conventions: π = `Nat.primeCounting`; `x : ℤ` is the int64 argument (negative x gives 0 = π 0); for pi_lmo2..4 the float
product `y = (int64_t)(x13 * alpha)` is a PARAMETER: the theorems hold for every `y` with `⌊x^(1/3)⌋ ≤ y` and `y² ≤ x`,
which covers every `alpha ∈ [1, x^(1/6)]` (`alpha_range_admissible`).  The sub-calls `pi_noprint`, `phi`, `P2`, `S1` are the
executable reference sums of PcModel/Formulas.lean (their own C++ is tied to those by C01 / C07 / C08).
`some v` = no out-of-bounds access / division by zero occurs in the model and the result is `v`.
-/
import PcProofs.SimpleAlgsLmo4

namespace Pc.C02Algs
open Pc Pc.SimpleAlgs
open scoped ArithmeticFunction.Moebius

/-- `pi_legendre(x)` = π(x) for every x -/
theorem piLegendre_eq_pi (x : ℤ) : piLegendre x = Nat.primeCounting x.toNat := SimpleAlgs.piLegendre_eq_pi x

/-- `pi_meissel(x)` = π(x) for every x -/
theorem piMeissel_eq_pi (x : ℤ) : piMeissel x = Nat.primeCounting x.toNat := SimpleAlgs.piMeissel_eq_pi x

/-- the double loop of `P3(x, y, a)` over prime indices (with the π table) is the third partial sieve function,
    for every `x`, `y` and every valid table reaching `⌊x^(1/3)⌋` and `x / (y + 1)` -/
theorem p3_eq (t : NT) (hv : t.Valid) (x y : ℕ) (hs : irootN 3 x ≤ t.bound) (hb : x / (y + 1) ≤ t.bound) :
    p3Model t x y (Nat.primeCounting y) = (Spec.P3 x (Nat.primeCounting y) : ℤ) := SimpleAlgs.p3Model_eq hv hs hb

/-- `pi_lehmer(x)` = π(x) for every x (including its `P3` loops) -/
theorem piLehmer_eq_pi (x : ℤ) : piLehmer x = Nat.primeCounting x.toNat := SimpleAlgs.piLehmer_eq_pi x

/-- `generate_moebius(max)[i]` = μ(i) (Mathlib's Möbius function) for `1 ≤ i ≤ max` -/
theorem generateMoebius_correct (mx i : ℕ) (h1 : 1 ≤ i) (hi : i ≤ mx) :
    (generateMoebius mx)[i]? = some (μ i) := Pc.generateMoebius_correct mx i h1 hi

/-- the vectors `primes`, `lpf`, `mu` that pi_lmo1..5 build for `y` hold the i-th prime, least prime factors and μ -/
theorem tables_valid (y : ℕ) : (tablesFor y).Valid y := tablesFor_valid y

/-- the S2 double loop of pi_lmo1.cpp (`c < b < π(y)`, `y / p_b < m ≤ y`, `lpf[m] > p_b`) enumerates exactly the special
    leaves: it equals `Spec.S2 x y c` for all `x`, `y`, `c` -/
theorem s2Lmo1_is_special_leaves (T : Tables) (t : NT) (x y c : ℕ) (hT : T.Valid y) (hv : t.Valid)
    (hyB : y ≤ t.bound) : s2Lmo1 T t x y c T.piY = Spec.S2 x y c := SimpleAlgs.s2Lmo1_eq hT hv hyB

/-- `pi_lmo1(x)` = π(x) for every x -/
theorem piLmo1_eq_pi (x : ℤ) : piLmo1 x = Nat.primeCounting x.toNat := SimpleAlgs.piLmo1_eq_pi x

/-- every `alpha ∈ [1, x^(1/6)]` (what `get_alpha_lmo` returns) gives an admissible `y`:
    `⌊x^(1/3)⌋ ≤ y ≤ ⌊x^(1/3)⌋·⌊x^(1/6)⌋` implies `y² ≤ x` -/
theorem alpha_range_admissible (x y : ℕ) (h : y ≤ irootN 3 x * irootN 6 x) : y * y ≤ x := by
  obtain ⟨h3, _⟩ := irootN_spec 3 x (by norm_num)
  obtain ⟨h6, _⟩ := irootN_spec 6 x (by norm_num)
  set a := irootN 3 x
  set b := irootN 6 x
  have hcube : ((a * b) * (a * b)) ^ 3 ≤ x ^ 3 := by
    have e : ((a * b) * (a * b)) ^ 3 = (a ^ 3) * (a ^ 3) * (b ^ 6) := by ring
    rw [e]
    calc a ^ 3 * a ^ 3 * b ^ 6 ≤ x * x * x := Nat.mul_le_mul (Nat.mul_le_mul h3 h3) h6
      _ = x ^ 3 := by ring
  have hab : (a * b) * (a * b) ≤ x := (Nat.pow_le_pow_iff_left (by norm_num)).1 hcube
  exact le_trans (Nat.mul_le_mul h h) hab

/-- the file-local `S2` of pi_lmo2.cpp (one unsegmented sieve, running pointer) computes the special leaves -/
theorem s2Lmo2_eq (T : Tables) (x y c : ℕ) (hT : T.Valid y) (hy : 1 ≤ y) (hyx : y * y ≤ x)
    (hc : c ≤ Nat.primeCounting y) (hc1 : 1 ≤ c ∨ Nat.primeCounting y ≤ c + 1) :
    s2Lmo2 T x y c T.piY = some (Spec.S2 x y c) := SimpleAlgs.s2Lmo2_eq hT hy hyx hc hc1

/-- `pi_lmo2(x)` = π(x) for every x and every admissible float outcome `y` -/
theorem piLmo2_eq_pi (x : ℤ) (y : ℕ) (hy3 : irootN 3 x.toNat ≤ y) (hyx : y * y ≤ x.toNat) :
    piLmo2 y x = some (Nat.primeCounting x.toNat : ℤ) := SimpleAlgs.piLmo2_eq_pi x y hy3 hyx

/-- **segS2_any_segmentation**: the segmented engine of pi_lmo3.cpp (segment loop, `next[b]` and `phi[b]` carried
    across segments, `break` at `prime >= max_m`) computes the special leaves for EVERY segment size `≥ 1` -/
theorem segS2_any_segmentation (T : Tables) (x y c segSize : ℕ) (hT : T.Valid y) (hy : 1 ≤ y) (hyx : y * y ≤ x)
    (hc : c ≤ Nat.primeCounting y) (hc1 : 1 ≤ c ∨ Nat.primeCounting y ≤ c + 1) (hseg : 1 ≤ segSize) :
    s2Seg3 T x y c T.piY segSize = some (Spec.S2 x y c) := SimpleAlgs.s2Seg3_eq hT hy hyx hc hc1 hseg

/-- `pi_lmo3(x)` = π(x) for every x and every admissible float outcome `y` -/
theorem piLmo3_eq_pi (x : ℤ) (y : ℕ) (hy3 : irootN 3 x.toNat ≤ y) (hyx : y * y ≤ x.toNat) :
    piLmo3 y x = some (Nat.primeCounting x.toNat : ℤ) := SimpleAlgs.piLmo3_eq_pi x y hy3 hyx

/-- **bit_query_correct**: on a consistent tree, `BinaryIndexedTree::count(low, high)` is the prefix sum up to
    `(high − low) / 2` -/
theorem bit_query_correct (t : Fenwick) (s : ℕ → ℤ) (h : FwOK t s) (low high : ℕ) (hlh : low ≤ high)
    (hpos : (high - low) / 2 < t.size) :
    fwCount t low high = some (∑ j ∈ Finset.Ico 0 ((high - low) / 2 + 1), s j) := fwCount_spec h hlh hpos

/-- `BinaryIndexedTree::update(pos)` keeps the tree consistent for the counts decremented at `pos / 2` -/
theorem bit_update_correct (t : Fenwick) (s : ℕ → ℤ) (h : FwOK t s) (pos : ℕ) (hpos : pos / 2 < t.size) :
    ∃ t', fwUpdate t pos = some t' ∧ t'.size = t.size ∧ FwOK t' (decAt s (pos / 2)) := fwUpdate_spec h hpos

/-- `BinaryIndexedTree::init(sieve)` builds a consistent tree over the even sieve entries (sizes below 2^64) -/
theorem bit_init_correct (sieve : Array Bool) (hsize : sieve.size / 2 < 2 ^ 64) :
    (fwInit sieve).size = sieve.size / 2 ∧ FwOK (fwInit sieve) (evenFlags sieve) := fwInit_spec sieve hsize

/-- the Fenwick-tree engine of pi_lmo4.cpp computes the special leaves for every EVEN segment size (the tree keeps the
    odd numbers only); an odd size is admitted only when there is no level `b > c` at all (the code's `segment_size = 1`
    for `x / y ≤ 3`) -/
theorem s2Seg4_eq (T : Tables) (x y c segSize : ℕ) (hT : T.Valid y) (hy : 1 ≤ y) (hyx : y * y ≤ x)
    (hc : c ≤ Nat.primeCounting y) (hseg : 1 ≤ segSize) (hword : segSize / 2 < 2 ^ 64)
    (hlev : (1 ≤ c ∧ segSize % 2 = 0) ∨ Nat.primeCounting y ≤ c + 1) :
    s2Seg4 T x y c T.piY segSize = some (Spec.S2 x y c) := SimpleAlgs.s2Seg4_eq hT hy hyx hc hseg hword hlev

/-- `pi_lmo4(x)` = π(x) for every int64 x and every admissible float outcome `y` -/
theorem piLmo4_eq_pi (x : ℤ) (hx64 : x < 2 ^ 63) (y : ℕ) (hy3 : irootN 3 x.toNat ≤ y) (hyx : y * y ≤ x.toNat) :
    piLmo4 y x = some (Nat.primeCounting x.toNat : ℤ) := SimpleAlgs.piLmo4_eq_pi x hx64 y hy3 hyx

/-- **the simple algorithms agree**: for every int64 x and all admissible float outcomes y₂, y₃, y₄ the seven control-flow
    models return the same value -/
theorem simple_algorithms_agree (x : ℤ) (hx64 : x < 2 ^ 63) (y₂ y₃ y₄ : ℕ)
    (h2 : irootN 3 x.toNat ≤ y₂ ∧ y₂ * y₂ ≤ x.toNat) (h3 : irootN 3 x.toNat ≤ y₃ ∧ y₃ * y₃ ≤ x.toNat)
    (h4 : irootN 3 x.toNat ≤ y₄ ∧ y₄ * y₄ ≤ x.toNat) :
    piMeissel x = piLegendre x ∧ piLehmer x = piLegendre x ∧ piLmo1 x = piLegendre x ∧
    piLmo2 y₂ x = some (piLegendre x) ∧ piLmo3 y₃ x = some (piLegendre x) ∧ piLmo4 y₄ x = some (piLegendre x) := by
  rw [piLegendre_eq_pi, piMeissel_eq_pi, piLehmer_eq_pi, piLmo1_eq_pi, piLmo2_eq_pi x y₂ h2.1 h2.2,
    piLmo3_eq_pi x y₃ h3.1 h3.2, piLmo4_eq_pi x hx64 y₄ h4.1 h4.2]
  exact ⟨rfl, rfl, rfl, rfl, rfl, rfl⟩

/-! non-vacuity (tests, labelled as such): the hypotheses are met by non-trivial instances -/

theorem iroot3_1000 : irootN 3 (1000 : ℤ).toNat = 10 :=
  irootN_eq_of (r := 10) (by norm_num) (by norm_num) (by norm_num)

example : piLmo2 15 1000 = some (Nat.primeCounting 1000 : ℤ) :=
  piLmo2_eq_pi 1000 15 (by rw [iroot3_1000]; norm_num) (by norm_num)
example : piLmo3 31 1000 = some (Nat.primeCounting 1000 : ℤ) :=
  piLmo3_eq_pi 1000 31 (by rw [iroot3_1000]; norm_num) (by norm_num)
example : piLmo4 10 1000 = some (Nat.primeCounting 1000 : ℤ) :=
  piLmo4_eq_pi 1000 (by norm_num) 10 (by rw [iroot3_1000]) (by norm_num)
/-- the segmented engine at `x = 10^4`, `y = 30`, `c = 3`, segment size 7 -/
example := segS2_any_segmentation (tablesFor 30) 10000 30 3 7 (tables_valid 30) (by norm_num) (by norm_num)
  (by rw [show Nat.primeCounting 30 = 10 by decide]; norm_num) (Or.inl (by norm_num)) (by norm_num)
example := s2Seg4_eq (tablesFor 30) 10000 30 3 64 (tables_valid 30) (by norm_num) (by norm_num)
  (by rw [show Nat.primeCounting 30 = 10 by decide]; norm_num) (by norm_num) (by norm_num)
  (Or.inl ⟨by norm_num, by norm_num⟩)
example := p3_eq (ntFor 100000 17) (ntFor_valid _ _) 100000 17
  (le_trans (irootN3_le_sqrt _) (ntFor_covers 100000 17 (by norm_num)).hs)
  ((ntFor_covers 100000 17 (by norm_num)).div_succ (by norm_num))
example : y = 20 → y * y ≤ 1000 := fun h => alpha_range_admissible 1000 y (by
  rw [h, show irootN 3 1000 = 10 from irootN_eq_of (r := 10) (by norm_num) (by norm_num) (by norm_num),
    show irootN 6 1000 = 3 from irootN_eq_of (r := 3) (by norm_num) (by norm_num) (by norm_num)]
  norm_num)

end Pc.C02Algs

#print axioms Pc.C02Algs.piLegendre_eq_pi
#print axioms Pc.C02Algs.piMeissel_eq_pi
#print axioms Pc.C02Algs.p3_eq
#print axioms Pc.C02Algs.piLehmer_eq_pi
#print axioms Pc.C02Algs.generateMoebius_correct
#print axioms Pc.C02Algs.tables_valid
#print axioms Pc.C02Algs.s2Lmo1_is_special_leaves
#print axioms Pc.C02Algs.piLmo1_eq_pi
#print axioms Pc.C02Algs.alpha_range_admissible
#print axioms Pc.C02Algs.s2Lmo2_eq
#print axioms Pc.C02Algs.piLmo2_eq_pi
#print axioms Pc.C02Algs.segS2_any_segmentation
#print axioms Pc.C02Algs.piLmo3_eq_pi
#print axioms Pc.C02Algs.bit_query_correct
#print axioms Pc.C02Algs.bit_update_correct
#print axioms Pc.C02Algs.bit_init_correct
#print axioms Pc.C02Algs.s2Seg4_eq
#print axioms Pc.C02Algs.piLmo4_eq_pi
#print axioms Pc.C02Algs.simple_algorithms_agree
#print axioms Pc.C02Algs.iroot3_1000
