/-
C12 — the tie between the hand-written models of this property and /repo's CURRENT source text.

`translator/extract_srcmirror.py` re-reads, on every run, each C++ function that a model of this property mirrors,
normalises it to a statement sequence (`PcGen/SrcMirror<Group>Data.lean`) and emits one obligation per function:
the sequence equals the one recorded when the model was written (`translator/srcmirror_expected.json`). A change to
a mirrored function breaks the obligation that names it; the check then searches for a failing input with the
property's correspondence streams and reports `no-failing-input-found` when the change is harmless (the model is
then re-read against the new text and the recording refreshed).
-/
import PcGen.SrcMirrorRootsObl
import PcGen.SrcMirrorParamsObl

namespace Pc.C12Src

/-- every function of group `Roots` mirrored by a model has, in /repo now, the text the model was written against -/
theorem models_mirror_source_Roots : Pc.SrcMirror.Roots.AllText := Pc.SrcMirror.Roots.all_text

/-- every function of group `Params` mirrored by a model has, in /repo now, the text the model was written against -/
theorem models_mirror_source_Params : Pc.SrcMirror.Params.AllText := Pc.SrcMirror.Params.all_text

end Pc.C12Src

#print axioms Pc.C12Src.models_mirror_source_Roots
#print axioms Pc.C12Src.models_mirror_source_Params
