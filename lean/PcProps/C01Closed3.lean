/-
C01 / C02 (WP close2, final composition): the entry points over `W : Pc.Close.World2` — WP close's world (every table / iterator / sieve /
generator = the model of the REAL constructor over the real sieving-core model) with `phi(x, a)` = `phi_OpenMP` over REAL bit-level `PhiCache`
objects (`W.phiCpp`, WP phicache) — with the three sub-results of WP close2 combined:

  * no "PhiCache contents" hypothesis (`PhiRunOK2` = literature bound + "every loop index handed out once"; PcProps/C01Closed2.lean),
  * `phi_vector`'s `PhiCache::phi<-1>`: `W.phiNeg = phiNegIdeal` is what the bit-level `phi_vector` computes (`C07Closed2.world_phi_vector_is_cpp`),
    so `World.OK.phiVec` is gone: `World2.OKmin` (configuration range, ONE float assumption — a theorem for `bnd ≤ 2^50` —, hints, size),
  * Gourdon's domain restriction `x < 2 ∨ x ≥ 2401` reduced to `x < 8 ∨ x ≥ 16` (PcProps/C02ClosedSmall.lean, C02ClosedTiny.lean),
  * `pi_deleglise_rivat_128` as a stand-alone entry point (PcProofs/Close2Dr.lean).

REMAINING HYPOTHESES of every theorem below (complete list; diagram in notes/wp-close2.md):
 (F) `OKmin.float` (sieving core, windows below `W.bnd`; none for `W.bnd ≤ 2^50`: `world_okmin_of_bnd50`), `GourdonEnv` / `DrEnv` / `h53` inside `hex`;
 (O) `hex` (schedules, valid runs, AC segment chain — all quantified), `hrec : NestedS2` (each nested `pi_noprint(n)` was computed by SOME execution of the
     dispatcher over the same world), `PhiRunOK2.works`;
 (L) `PhiRunOK2.lit` (`π(n) ≤ pix_upper(n)` for the double formula above 30719, or merely `a < pix_upper(n)`), only for `30719 < n ≤ 10^8`;
 (S) `OKmin.size`, `hB : B < 2^32`, reach fields of `hex`, `16 ≤ kib ≤ 8192`, stop hints are `uint64_t` values; 128-bit: `x ≤ get_max_x(alpha)` (`accept`).
Only property theorems, non-vacuity examples and the axiom audit live here.
-/
import PcProofs.Close2Final
import PcProofs.Close2PhiEx
import PcProofs.Close2SmallEx
import PcProofs.Close2TinyEx

namespace Pc.C01Closed3
open Pc.Top Pc.Close Nat PcGen.ApiConst
open scoped Nat.Prime

/-- **the world hypotheses, minimal form**: for a world whose `phi_vector` inner function is the one the bit-level cache computes, `World.OK`
    follows from the configuration range, the one float assumption, the hint range and the table size -/
theorem world_ok_of_min (W : World2) {B : ℕ} (h : W.OKmin B) : W.toWorld.OK B := W.ok_of_min h

/-- … and with the sieving-core model used below `2^50` there is NO float assumption -/
theorem world_okmin_of_bnd50 (W : World2) {B : ℕ} (hneg : W.phiNeg = phiNegIdeal) (kib_lo : 16 ≤ W.kib) (kib_hi : W.kib ≤ 8192)
    (hb : W.bnd ≤ 2 ^ 50) (hints : ∀ n, W.hn n ≤ It.umax) (size : B ≤ W.N) : W.OKmin B :=
  W.okmin_of_bnd50 hneg kib_lo kib_hi hb hints size

/-- **`pi_api_eq_pi3`** — `pi(int128_t x)` for EVERY int128 `x`, hypotheses in minimal form -/
theorem pi_api_eq_pi3 (W : World2) {B : ℕ} (h : W.OKmin B) (hB : B < 2 ^ 32) (c : Sieve.Cfg) (f : Sieve.StopFn) (pi : ℕ → ℕ) (x : ℤ)
    (hx : x < 2 ^ 127) (threads : ℤ) (isPrint : Bool) (r : ApiRun)
    (hphi : ∀ n : ℕ, (n : ℤ) ≤ x → maxCached < n → n ≤ meisselMax → W.PhiRunOK2 n)
    (hrec : W.NestedS2 c f B pi x)
    (hex : (maxCached : ℤ) < x →
      ApiExecC (W.toWorld.tablesS c f (decide ((PiApi.int64Max : ℤ) < x))) B (decide ((PiApi.int64Max : ℤ) < x)) x.toNat r) :
    piApi128 (W.toWorld.tablesS c f (decide ((PiApi.int64Max : ℤ) < x))) W.phiCpp pi x threads isPrint r = .ok (π x.toNat : ℤ) ∨
      piApi128 (W.toWorld.tablesS c f (decide ((PiApi.int64Max : ℤ) < x))) W.phiCpp pi x threads isPrint r =
        .error (.hard .badRun) :=
  W.pi_api_s2 (W.ok_of_min h) hB c f pi x hx threads isPrint r hphi hrec hex

/-- **`pi_gourdon_eq_pi3`** — `pi_gourdon_64(x)` (`wide = false`) / `pi_gourdon_128(x)` (`wide = true`) for EVERY `x` of the type except
    `8 ≤ x ≤ 15` (WP close: `x < 2 ∨ x ≥ 2401`); the eight excluded arguments have degenerate clamps (`y = z ∈ {1, 2} ≤ x^(1/3)`) and are not covered -/
theorem pi_gourdon_eq_pi3 (W : World2) {B : ℕ} (h : W.OKmin B) (hB : B < 2 ^ 32) (c : Sieve.Cfg) (f : Sieve.StopFn) (pi : ℕ → ℕ)
    (wide : Bool) (x : ℤ) (hx : InType wide x) (hsmall : x < 8 ∨ 16 ≤ x) (threads : ℤ) (isPrint : Bool) (r : GRun)
    (hphi : ∀ n : ℕ, (n : ℤ) < x → maxCached < n → n ≤ meisselMax → W.PhiRunOK2 n)
    (hrec : W.NestedS2 c f B pi x)
    (hex : 2 ≤ x → GExecC (W.toWorld.tablesS c f wide) B wide x.toNat r) :
    piGourdon (W.toWorld.tablesS c f wide) pi wide x threads isPrint r = .ok (π x.toNat : ℤ) ∨
      piGourdon (W.toWorld.tablesS c f wide) pi wide x threads isPrint r = .error (.hard .badRun) :=
  W.pi_gourdon_s3 (W.ok_of_min h) hB c f pi wide x hx hsmall threads isPrint r hphi hrec hex

/-- **`pi_gourdon_64_eq_pi3`** — `pi_gourdon_64(x)` for every int64 `x` except `8 ≤ x ≤ 15` -/
theorem pi_gourdon_64_eq_pi3 (W : World2) {B : ℕ} (h : W.OKmin B) (hB : B < 2 ^ 32) (c : Sieve.Cfg) (f : Sieve.StopFn) (pi : ℕ → ℕ)
    (x : ℤ) (hx : x < 2 ^ 63) (hsmall : x < 8 ∨ 16 ≤ x) (threads : ℤ) (isPrint : Bool) (r : GRun)
    (hphi : ∀ n : ℕ, (n : ℤ) < x → maxCached < n → n ≤ meisselMax → W.PhiRunOK2 n)
    (hrec : W.NestedS2 c f B pi x)
    (hex : 2 ≤ x → GExecC (W.toWorld.tablesS c f false) B false x.toNat r) :
    piGourdon (W.toWorld.tablesS c f false) pi false x threads isPrint r = .ok (π x.toNat : ℤ) ∨
      piGourdon (W.toWorld.tablesS c f false) pi false x threads isPrint r = .error (.hard .badRun) :=
  W.pi_gourdon_s3 (W.ok_of_min h) hB c f pi false x (by unfold InType; simpa using hx) hsmall threads isPrint r hphi hrec hex

/-- **`pi_deleglise_rivat_64_eq_pi3`** — `pi_deleglise_rivat_64(x)` for EVERY int64 `x` -/
theorem pi_deleglise_rivat_64_eq_pi3 (W : World2) {B : ℕ} (h : W.OKmin B) (hB : B < 2 ^ 32) (c : Sieve.Cfg) (f : Sieve.StopFn)
    (pi : ℕ → ℕ) (x : ℤ) (hx : x < 2 ^ 63) (threads : ℤ) (isPrint : Bool) (r : DrRun)
    (hphi : ∀ n : ℕ, (n : ℤ) < x → maxCached < n → n ≤ meisselMax → W.PhiRunOK2 n)
    (hrec : W.NestedS2 c f B pi x)
    (hex : 2 ≤ x → DrExec (W.toWorld.tablesS c f false) B false x.toNat r) :
    piDeleglieRivat (W.toWorld.tablesS c f false) pi false x threads isPrint r = .ok (π x.toNat : ℤ) ∨
      piDeleglieRivat (W.toWorld.tablesS c f false) pi false x threads isPrint r = .error (.hard .badRun) :=
  W.pi_deleglise_rivat_64_s2 (W.ok_of_min h) hB c f pi x hx threads isPrint r hphi hrec hex

/-- **`pi_deleglise_rivat_128_eq_pi`** — `pi_deleglise_rivat_128(x)` for EVERY int128 `x` its range check accepts (`DrExec.accept`), over the
    tables of the 128-bit instantiation; the nested `pi_noprint` calls (int64 arguments) are those of the dispatcher -/
theorem pi_deleglise_rivat_128_eq_pi (W : World2) {B : ℕ} (h : W.OKmin B) (hB : B < 2 ^ 32) (c : Sieve.Cfg) (f : Sieve.StopFn)
    (pi : ℕ → ℕ) (x : ℤ) (hx : x < 2 ^ 127) (threads : ℤ) (isPrint : Bool) (r : DrRun)
    (hphi : ∀ n : ℕ, (n : ℤ) < x → maxCached < n → n ≤ meisselMax → W.PhiRunOK2 n)
    (hrec : W.NestedS2 c f B pi x)
    (hex : 2 ≤ x → DrExec (W.toWorld.tablesS c f true) B true x.toNat r) :
    piDeleglieRivat (W.toWorld.tablesS c f true) pi true x threads isPrint r = .ok (π x.toNat : ℤ) ∨
      piDeleglieRivat (W.toWorld.tablesS c f true) pi true x threads isPrint r = .error (.hard .badRun) :=
  W.pi_deleglise_rivat_128_s2 (W.ok_of_min h) hB c f pi x hx threads isPrint r hphi hrec hex

/-- the same over WP close's world (L1 phi with the `cache` hypothesis), for completeness of that file's list (T6 of notes/wp-close.md) -/
theorem pi_deleglise_rivat_128_eq_pi_w1 (W : World) {B : ℕ} (h : W.OK B) (hB : B < 2 ^ 32) (c : Sieve.Cfg) (f : Sieve.StopFn)
    (pi : ℕ → ℕ) (x : ℤ) (hx : x < 2 ^ 127) (threads : ℤ) (isPrint : Bool) (r : DrRun)
    (hphi : ∀ n : ℕ, (n : ℤ) < x → maxCached < n → n ≤ meisselMax → W.PhiRunOK n)
    (hrec : W.NestedS c f B pi x)
    (hex : 2 ≤ x → DrExec (W.tablesS c f true) B true x.toNat r) :
    piDeleglieRivat (W.tablesS c f true) pi true x threads isPrint r = .ok (π x.toNat : ℤ) ∨
      piDeleglieRivat (W.tablesS c f true) pi true x threads isPrint r = .error (.hard .badRun) :=
  W.pi_deleglise_rivat_128_s h hB c f pi x hx threads isPrint r hphi hrec hex

/-- **the nested calls return π** (minimal hypotheses): any `pi` consistent with being computed by the dispatcher over the world is π at every
    int64 argument below `x` — the hypothesis `pi = π below 2^63` of C06 (`nth_prime`) is this statement at `x = 2^63` -/
theorem nested_calls_are_pi3 (W : World2) {B : ℕ} (h : W.OKmin B) (hB : B < 2 ^ 32) (c : Sieve.Cfg) (f : Sieve.StopFn) (pi : ℕ → ℕ) (x : ℤ)
    (hphi : ∀ n : ℕ, (n : ℤ) < x → maxCached < n → n ≤ meisselMax → W.PhiRunOK2 n)
    (hrec : W.NestedS2 c f B pi x) :
    ∀ n : ℕ, (n : ℤ) < x → n < 2 ^ 63 → pi n = π n :=
  W.nested_s2 (W.ok_of_min h) hB c f pi x hphi hrec

/-! ### non-vacuity (tests, labelled as such): `exWorld3` (sieving core below 2^50, `phiNeg = phiNegIdeal`, caches enabled, two threads) -/

/-- the minimal world hypotheses hold for `exWorld3` with NO assumption -/
theorem exWorld3_okmin : exWorld3.OKmin 100 :=
  exWorld3.okmin_of_bnd50 rfl (by show 16 ≤ 256; norm_num) (by show 256 ≤ 8192; norm_num) (by show 2 ^ 50 ≤ 2 ^ 50; exact le_rfl)
    (fun _ => Nat.zero_le _) (by show 100 ≤ 3000; norm_num)

/-- Gourdon at `x = 2400` (`k = 3 < 4`, below WP close's bound 2401): complete execution, every hypothesis instantiated -/
example (c : Sieve.Cfg) (f : Sieve.StopFn) :=
  pi_gourdon_64_eq_pi3 exWorld3 exWorld3_okmin (by norm_num) c f Nat.primeCounting 2400 (by norm_num) (Or.inr (by norm_num)) 1 false
    (exsGRun (exWorld3.toWorld.tablesS c f false).t) (fun n _ _ _ => exWorld3_phiRunOK2 n)
    (fun n hn h63 => exWorld3_nestedS2 c f n (lt_trans hn (by norm_num)) h63)
    (fun _ => exsGExecC_of _ rfl (by show 171 ≤ 3000; norm_num) (by show 3000 ≤ _; decide))

/-- Gourdon at `x = 5` (degenerate parameters `y = z = 1`, `k = 0`): complete execution over the world, every hypothesis instantiated -/
example (c : Sieve.Cfg) (f : Sieve.StopFn) :=
  pi_gourdon_64_eq_pi3 exWorld3 exWorld3_okmin (by norm_num) c f Nat.primeCounting 5 (by norm_num) (Or.inl (by norm_num)) 1 false
    (extGRun (exWorld3.toWorld.tablesS c f false).t) (fun n _ _ _ => exWorld3_phiRunOK2 n)
    (fun n hn h63 => exWorld3_nestedS2 c f n (lt_trans hn (by norm_num)) h63)
    (fun _ => extGExecC_of _ rfl (by show 5 ≤ 3000; norm_num) (by show 3000 ≤ _; decide))

/-- Gourdon and Deleglise-Rivat at `x = 10^5` -/
example (c : Sieve.Cfg) (f : Sieve.StopFn) :=
  pi_gourdon_64_eq_pi3 exWorld3 exWorld3_okmin (by norm_num) c f Nat.primeCounting 100000 (by norm_num) (Or.inr (by norm_num)) 1 false
    (exGRun (exWorld3.toWorld.tablesS c f false).t) (fun n _ _ _ => exWorld3_phiRunOK2 n) (exWorld3_nestedS2 c f)
    (fun _ => exGExecC_world3S c f)
example (c : Sieve.Cfg) (f : Sieve.StopFn) :=
  pi_deleglise_rivat_64_eq_pi3 exWorld3 exWorld3_okmin (by norm_num) c f Nat.primeCounting 100000 (by norm_num) 1 false
    exDrRun (fun n _ _ _ => exWorld3_phiRunOK2 n) (exWorld3_nestedS2 c f) (fun _ => exDrExec_world3S c f)

/-- `pi_deleglise_rivat_128(10^5)` — the 128-bit function on an argument its range check accepts (`x ≤ get_max_x(alpha)`): every hypothesis
    instantiated (tables of the 128-bit instantiation, `wide = true`) -/
example (c : Sieve.Cfg) (f : Sieve.StopFn) :=
  pi_deleglise_rivat_128_eq_pi exWorld3 exWorld3_okmin (by norm_num) c f Nat.primeCounting 100000 (by norm_num) 1 false
    exDrRun (fun n _ _ _ => exWorld3_phiRunOK2 n) (exWorld3_nestedS2 c f)
    (fun _ =>
      have h := exDrExec_of (exWorld3.toWorld.tablesS c f true) rfl (by show 46 ≤ 3000; norm_num)
      { adm := h.adm, accept := fun _ => by show ((100000 : ℕ) : ℤ) ≤ exDrFloats.maxX; unfold exDrFloats; norm_num,
        h53 := h.h53, yB := h.yB, yb := h.yb })

end Pc.C01Closed3

#print axioms Pc.C01Closed3.world_ok_of_min
#print axioms Pc.C01Closed3.world_okmin_of_bnd50
#print axioms Pc.C01Closed3.pi_api_eq_pi3
#print axioms Pc.C01Closed3.pi_gourdon_eq_pi3
#print axioms Pc.C01Closed3.pi_gourdon_64_eq_pi3
#print axioms Pc.C01Closed3.pi_deleglise_rivat_64_eq_pi3
#print axioms Pc.C01Closed3.pi_deleglise_rivat_128_eq_pi
#print axioms Pc.C01Closed3.pi_deleglise_rivat_128_eq_pi_w1
#print axioms Pc.C01Closed3.nested_calls_are_pi3
#print axioms Pc.C01Closed3.exWorld3_okmin
