/-
C06, closed (WP close) — `nthPrime_total` of PcProps/C06.lean restated with BOUNDED callee contracts and instantiated by the real
iterator model.

`NthEnv.Correct` (C06) assumes the iterator contract `PrimeIter.Spec` at ALL positions and `env.pi x = π x` for ALL `x`. Neither holds
of the real callees: `primesieve::iterator::next_prime()` throws past the last 64-bit prime 2^64-59 (PcProps/C08Closed.lean
`real_iterator_contract_bound_is_sharp`), and `pi(int64_t)` only takes arguments `< 2^63`. Here:

  * `NthEnv.CorrectTo env N` (PcProofs/CloseNth.lean): the same contracts for positions / arguments `≤ N` only;
    `nthPrime_total_to`: they suffice when `RiemannR_inverse(n) ≤ N` and `p n ≤ N` — the forward walk (taken iff `approx < p n`) only
    puts the iterator at positions `≤ p n`, the backward walk (taken iff `p n ≤ approx`) only at positions `≤ approx`; `pi` is only
    asked at `approx`. Proof: patch transfer (`env.patch N` = `env` up to `N`, specification objects above, meets `NthEnv.Correct`).
  * `Pc.It.realPrimeIter e hp hn : PrimeIter` (PcProofs/CloseNth2.lean): `nextGe s` = the first `next_prime()` of the iterator MODEL
    (PcModel/Iter.lean) constructed as `iterator(s, hn s)`, `prevLe s` = the first `prev_prime()` of `iterator(s, hp s)`; it meets
    `PrimeIter.SpecTo … N` for every `N` below which a prime `≤ 2^64-1` exists; `N = 2^63` by Bertrand.
  * the position-indexed abstraction is sound for ONE running object: `k` calls of `next_prime()` / `prev_prime()` on one object
    (`It.nextK` / `It.prevK`, the loops of nth_prime.cpp:110–111 / 123–124) return the value of `walkFwd` / `walkBwd`.
  * `nth_prime_closed*`: `nthPrime env n = p n` over the real iterator (`_real`: any core meeting `GenSpec`; `nth_prime_closed`: the
    real sieving-core model `coreEnvTo`), `env.pi = π` below `2^63` (the shape of `Pc.C01Closed.nested_calls_are_pi`), `env.piCache = π`
    on `[0, max_cached]` (what C17 `piCache_correct` proves of the generated table; kept as a hypothesis because PcProofs/BitSieve240.lean
    and PcProofs/NthPrime.lean both declare `Pc.noDivFrom_sound` and cannot be imported into one module). Remaining hypotheses: `hlit : p max_n < 2^63` (literature constant, as in C06 `nthPrime_fits`),
    `env.approx n < 2^63` (long double / __float128 Newton iteration, clamped to `int64_t` by `RiemannR_inverse_overflow_check`),
    the float assumption of WP core2 for the sieving windows (none below `2^50`).
Only property theorems, non-vacuity examples and the axiom audit live here.
-/
import PcProofs.CloseNth2

namespace Pc.C06Closed
open Pc.It

local notation "π" => Nat.primeCounting

/-- **`nth_prime(n)` returns the n-th prime under BOUNDED callee contracts**: iterator contract only at positions `≤ N`, `pi = π`
    only on `[0, N]` (`env.CorrectTo N`), for every `N` that bounds `RiemannR_inverse(n)` and the n-th prime itself -/
theorem nthPrime_total_to (env : NthEnv) (N : ℕ) (henv : env.CorrectTo N) (n : ℕ) (h1 : 1 ≤ n) (h2 : n ≤ Gen.nthPrimeMaxN)
    (ha : env.approx n ≤ N) (hp : Spec.p n ≤ N) : nthPrime env (n : ℤ) = .ok ((Spec.p n : ℕ) : ℤ) :=
  nthPrime_ok_to env N henv n h1 h2 ha hp

/-- the walk with bounded iterator contract, any approximation `≤ N` -/
theorem nthPrime_walk_to (it : PrimeIter) (N : ℕ) (hit : it.SpecTo N) (approx n : ℕ) (hn : 1 ≤ n) (ha : approx ≤ N)
    (hp : Spec.p n ≤ N) : walk it approx n (π approx) = ((Spec.p n : ℕ) : ℤ) := walk_eq_to hit approx n hn ha hp

/-- the unbounded contract implies every bounded one (the bounded statement is a generalisation of C06 `nthPrime_total`) -/
theorem correct_implies_correctTo (env : NthEnv) (henv : env.Correct) (N : ℕ) : env.CorrectTo N := henv.to N

/-- **the real iterator meets the contract nth_prime.cpp relies on**, at every position `≤ N`, for every `N ≤ 2^64-1` below which a
    prime `≤ 2^64-1` still exists: the first `next_prime()` of `iterator(s, _)` is the smallest prime `≥ s`, the first
    `prev_prime()` the largest prime `≤ s` (for `2 ≤ s`) — for every stop hint, float outcome, batching -/
theorem real_prime_iterator_meets_contract (e : Env) (he : GenSpec e) (hp hn : ℕ → ℕ) (hhn : ∀ n, hn n ≤ umax) (N : ℕ)
    (hN : N ≤ umax) (hprime : ∃ p, p.Prime ∧ N ≤ p ∧ p ≤ umax) : (realPrimeIter e hp hn).SpecTo N :=
  realPrimeIter_specTo e he hp hn hhn N hN hprime

/-- … in particular up to `2^63` with no hypothesis on primes (Bertrand) -/
theorem real_prime_iterator_meets_contract_two63 (e : Env) (he : GenSpec e) (hp hn : ℕ → ℕ) (hhn : ∀ n, hn n ≤ umax) :
    (realPrimeIter e hp hn).SpecTo (2 ^ 63) := realPrimeIter_specTo_two63 e he hp hn hhn

/-- **k-th `next_prime()` of ONE object** (nth_prime.cpp:109–111 `iterator iter(start, stop); for (…) prime = iter.next_prime();`):
    `k` calls end on the `k`-th prime `≥ start` whenever that prime is `< 2^64` (in-buffer steps + refills) -/
theorem next_prime_kth_call (e : Env) (he : GenSpec e) (k start hint last : ℕ) (hh : hint ≤ umax)
    (hN : k ≠ 0 → Nat.nth Nat.Prime (Nat.count Nat.Prime start + k - 1) ≤ umax) :
    nextK e k (init start hint) last = .ok (if k = 0 then last else Nat.nth Nat.Prime (Nat.count Nat.Prime start + k - 1)) :=
  nextK_init e he k start hint last hh hN

/-- **k-th `prev_prime()` of ONE object** (nth_prime.cpp:122–124): `k ≤ π start` calls end on the `k`-th prime `≤ start` -/
theorem prev_prime_kth_call (e : Env) (he : GenSpec e) (k start hint last : ℕ) (hs : start ≤ umax) (hk : k ≤ π start) :
    prevK e k (init start hint) last = .ok (if k = 0 then last else Nat.nth Nat.Prime (π start - k)) :=
  prevK_init e he k start hint last hs hk

/-- the position-indexed forward walk of the C06 model over `realPrimeIter` IS the loop over one real object -/
theorem walk_fwd_is_one_object (e : Env) (he : GenSpec e) (hp hn : ℕ → ℕ) (hhn : ∀ n, hn n ≤ umax) (k start hint last N : ℕ)
    (hk : k ≠ 0) (hh : hint ≤ umax) (hNu : N ≤ umax) (hprime : ∃ p, p.Prime ∧ N ≤ p ∧ p ≤ umax)
    (hN : Nat.nth Nat.Prime (Nat.count Nat.Prime start + k - 1) ≤ N) :
    ∃ v : ℕ, nextK e k (init start hint) last = .ok v ∧ walkFwd (realPrimeIter e hp hn) k start (-1) = (v : ℤ) :=
  walkFwd_real_eq_nextK e he hp hn hhn k start hint last N hk hh hNu hprime hN

/-- the position-indexed backward walk of the C06 model over `realPrimeIter` IS the loop over one real object -/
theorem walk_bwd_is_one_object (e : Env) (he : GenSpec e) (hp hn : ℕ → ℕ) (hhn : ∀ n, hn n ≤ umax) (k start hint last N : ℕ)
    (hk : k ≠ 0) (hkpi : k ≤ π start) (hsN : start ≤ N) (hNu : N ≤ umax) (hprime : ∃ p, p.Prime ∧ N ≤ p ∧ p ≤ umax) :
    ∃ v : ℕ, prevK e k (init start hint) last = .ok v ∧ walkBwd (realPrimeIter e hp hn) k start (-1) = (v : ℤ) :=
  walkBwd_real_eq_prevK e he hp hn hhn k start hint last N hk hkpi hsN hNu hprime

/-- **C06 over the real iterator, any sieving core meeting `GenSpec`** -/
theorem nth_prime_closed_real (e : Env) (he : GenSpec e) (hp hn : ℕ → ℕ) (hhn : ∀ n, hn n ≤ umax) (approx pi piCache : ℕ → ℕ)
    (hpi : ∀ x, x < 2 ^ 63 → pi x = π x) (hpc : ∀ m ≤ Gen.nthPrimeMaxCached, piCache m = π m) (hlit : Spec.p Gen.nthPrimeMaxN < 2 ^ 63)
    (n : ℕ) (h1 : 1 ≤ n) (h2 : n ≤ Gen.nthPrimeMaxN) (ha : approx n < 2 ^ 63) :
    nthPrime ⟨approx, pi, piCache, realPrimeIter e hp hn⟩ (n : ℤ) = .ok ((Spec.p n : ℕ) : ℤ) :=
  nthPrime_real e he hp hn hhn _ rfl hpi hpc hlit n h1 h2 ha

/-- **C06 closed**: `nth_prime(n)` is the n-th prime for every `1 ≤ n ≤ max_n` with `env.it` := the real iterator model over the real
    sieving-core model (`coreEnvTo … B`, `B ≤ 2^64`), `env.piCache` = π on `[0, max_cached]` (C17), `env.pi` := any function that is π below
    `2^63` (C01 closed). Remaining: `hlit` (literature constant), `ha` (float: `RiemannR_inverse(n) < 2^63`), `hfl` (float assumption
    of WP core2 for the windows below `B`; a theorem for `B = 2^50`: `nth_prime_closed_50`) -/
theorem nth_prime_closed (fl : Floats) (batch : ℕ → ℕ) (l1raw kib B : ℕ) (hB : B ≤ 2 ^ 64)
    (hfl : ∀ a b, b < B → Pc.PsCore.FloatOk l1raw (max 721 a) b kib) (hk : 16 ≤ kib) (hk2 : kib ≤ 8192)
    (hp hn : ℕ → ℕ) (hhn : ∀ n, hn n ≤ umax) (approx pi piCache : ℕ → ℕ)
    (hpi : ∀ x, x < 2 ^ 63 → pi x = π x) (hpc : ∀ m ≤ Gen.nthPrimeMaxCached, piCache m = π m) (hlit : Spec.p Gen.nthPrimeMaxN < 2 ^ 63)
    (n : ℕ) (h1 : 1 ≤ n) (h2 : n ≤ Gen.nthPrimeMaxN) (ha : approx n < 2 ^ 63) :
    nthPrime ⟨approx, pi, piCache, realPrimeIter (coreEnvTo fl batch l1raw kib B) hp hn⟩ (n : ℤ) =
      .ok ((Spec.p n : ℕ) : ℤ) :=
  nth_prime_closed_real _ (coreEnvTo_genSpec fl batch l1raw kib B hB hfl hk hk2) hp hn hhn approx pi piCache hpi hpc hlit n h1 h2 ha

/-- … over the real core on its whole domain, from `CoreFloatOk` -/
theorem nth_prime_closed_core (fl : Floats) (batch : ℕ → ℕ) (l1raw kib : ℕ) (hfl : CoreFloatOk l1raw kib) (hk : 16 ≤ kib)
    (hk2 : kib ≤ 8192) (hp hn : ℕ → ℕ) (hhn : ∀ n, hn n ≤ umax) (approx pi piCache : ℕ → ℕ)
    (hpi : ∀ x, x < 2 ^ 63 → pi x = π x) (hpc : ∀ m ≤ Gen.nthPrimeMaxCached, piCache m = π m) (hlit : Spec.p Gen.nthPrimeMaxN < 2 ^ 63)
    (n : ℕ) (h1 : 1 ≤ n) (h2 : n ≤ Gen.nthPrimeMaxN) (ha : approx n < 2 ^ 63) :
    nthPrime ⟨approx, pi, piCache, realPrimeIter (coreEnv fl batch l1raw kib) hp hn⟩ (n : ℤ) =
      .ok ((Spec.p n : ℕ) : ℤ) :=
  nth_prime_closed fl batch l1raw kib (2 ^ 64) (le_refl _) hfl hk hk2 hp hn hhn approx pi piCache hpi hpc hlit n h1 h2 ha

/-- … with the real core used below `2^50`: no float assumption on the sieve; and `p n < 2^63` for the ONE `n` in question
    instead of the literature constant -/
theorem nth_prime_closed_50 (fl : Floats) (batch : ℕ → ℕ) (l1raw kib : ℕ) (hk : 16 ≤ kib) (hk2 : kib ≤ 8192)
    (hp hn : ℕ → ℕ) (hhn : ∀ n, hn n ≤ umax) (approx pi piCache : ℕ → ℕ)
    (hpi : ∀ x, x < 2 ^ 63 → pi x = π x) (hpc : ∀ m ≤ Gen.nthPrimeMaxCached, piCache m = π m) (n : ℕ) (h1 : 1 ≤ n) (h2 : n ≤ Gen.nthPrimeMaxN) (hpn : Spec.p n < 2 ^ 63)
    (ha : approx n < 2 ^ 63) :
    nthPrime ⟨approx, pi, piCache, realPrimeIter (coreEnvTo fl batch l1raw kib (2 ^ 50)) hp hn⟩ (n : ℤ) =
      .ok ((Spec.p n : ℕ) : ℤ) :=
  nthPrime_ok_to _ (2 ^ 63 - 1)
    (correctTo_real _ (coreEnv50_genSpec fl batch l1raw kib hk hk2) hp hn hhn _ rfl hpi hpc) n h1 h2
    (by show approx n ≤ 2 ^ 63 - 1; omega) (by omega)

/-! non-vacuity -/

/-- a concrete environment meets the bounded contract up to `2^63 - 1` (every hypothesis of `correctTo_real` discharged) -/
example (approx : ℕ → ℕ) : (exNthEnv approx).CorrectTo (2 ^ 63 - 1) :=
  correctTo_real _ (coreEnv50_genSpec _ _ 32768 256 (by norm_num) (by norm_num)) _ _ (fun _ => Nat.zero_le _) _ rfl
    (fun _ _ => rfl) (fun _ _ => rfl)

/-- all hypotheses of `nth_prime_closed_50` hold for the concrete environment at `n = 5`, ANY approximation below `2^63` -/
example (approx : ℕ → ℕ) (ha : approx 5 < 2 ^ 63) : nthPrime (exNthEnv approx) 5 = .ok 11 := by
  have : nthPrime (exNthEnv approx) 5 = .ok ((Spec.p 5 : ℕ) : ℤ) :=
    nth_prime_closed_50 ⟨fun _ => 0, fun _ => 0, fun _ => 0, fun _ => 0⟩ (fun _ => 1024) 32768 256 (by norm_num)
    (by norm_num) (fun _ => 0) (fun _ => 0) (fun _ => Nat.zero_le _) approx (fun x => π x) (fun x => π x)
    (fun _ _ => rfl) (fun _ _ => rfl) 5 (by norm_num) (by decide) (by norm_num [Spec.p]) ha
  simpa [Spec.p] using this

/-- the walk itself over the REAL iterator model: backward from far above (994 is not what matters: `1000 ≤ 2^63`), forward from 0 -/
example (e : Env) (he : GenSpec e) (hp hn : ℕ → ℕ) (hhn : ∀ n, hn n ≤ umax) :
    walk (realPrimeIter e hp hn) 1000 5 (π 1000) = 11 ∧ walk (realPrimeIter e hp hn) 0 5 (π 0) = 11 := by
  have h := realPrimeIter_specTo_two63 e he hp hn hhn
  have h1 := walk_eq_to h 1000 5 (by norm_num) (by norm_num) (by norm_num [Spec.p])
  have h2 := walk_eq_to h 0 5 (by norm_num) (by norm_num) (by norm_num [Spec.p])
  constructor
  · simpa [Spec.p] using h1
  · simpa [Spec.p] using h2

/-- `GenSpec` is satisfiable (the real core below `2^50`, and the reference core) -/
example : GenSpec (coreEnvTo ⟨fun _ => 0, fun _ => 0, fun _ => 0, fun _ => 0⟩ (fun _ => 1024) 32768 256 (2 ^ 50)) :=
  coreEnv50_genSpec _ _ 32768 256 (by norm_num) (by norm_num)

/-- a prime in `[N, 2^64-1]` for `N = 2^63` -/
example : ∃ p, p.Prime ∧ 2 ^ 63 ≤ p ∧ p ≤ umax := exists_prime_ge_two63

/-- the unbounded contracts are instances of the bounded ones -/
example (approx : ℕ → ℕ) (N : ℕ) : (⟨approx, fun x => π x, fun x => π x, specIter⟩ : NthEnv).CorrectTo N :=
  (⟨specIter_spec, fun _ => rfl, fun _ _ => rfl⟩ : NthEnv.Correct _).to N

/-- one object, three `next_prime()` calls from 0: 2, 3, 5; two `prev_prime()` calls from 10: 7, 5 -/
example (e : Env) (he : GenSpec e) : nextK e 3 (init 0 0) 0 = .ok 5 := by
  have := nextK_init e he 3 0 0 0 (Nat.zero_le _) (fun _ => by
    simp only [Nat.count_zero, Nat.zero_add]; norm_num [Nat.nth_prime_two_eq_five]; unfold umax; omega)
  simpa [Nat.nth_prime_two_eq_five] using this

end Pc.C06Closed

#print axioms Pc.C06Closed.nthPrime_total_to
#print axioms Pc.C06Closed.nthPrime_walk_to
#print axioms Pc.C06Closed.correct_implies_correctTo
#print axioms Pc.C06Closed.real_prime_iterator_meets_contract
#print axioms Pc.C06Closed.real_prime_iterator_meets_contract_two63
#print axioms Pc.C06Closed.next_prime_kth_call
#print axioms Pc.C06Closed.prev_prime_kth_call
#print axioms Pc.C06Closed.walk_fwd_is_one_object
#print axioms Pc.C06Closed.walk_bwd_is_one_object
#print axioms Pc.C06Closed.nth_prime_closed_real
#print axioms Pc.C06Closed.nth_prime_closed
#print axioms Pc.C06Closed.nth_prime_closed_core
#print axioms Pc.C06Closed.nth_prime_closed_50
