/-
C02 (WP close2): the remaining stand-alone algorithm entry points over the REAL iterator.

* `pi_lmo5`, `pi_lmo_parallel` (WP top-lmo: `piLmo5_eq_pi`, `piLmoParallel_eq_pi`) assumed `CtxOK.it : IterSpec` — the unbounded iterator
  contract, which is FALSE of `primesieve::iterator` (`C18Closed2.real_iterator_contract_bound_is_sharp`).  Here: the same theorems under
  `CtxOKTo C x N` (`IterSpecTo C.it N`, `N ≥ 2^64 - 2^32`), which the model of the real iterator over the real sieving core MEETS for
  `N = 2^64 - 59` (`lmo_ctx_real_iterator`).  Remaining: the table contracts `LmoOK` (generate_lpf / generate_moebius / PiTable / phi_vector
  for `y`: not instantiated with constructor models here), `NT.Valid`, the sieve contract, `pi_noprint = π` below `x`, the float envelope
  of `alpha`, a valid run / schedule.
* `pi_deleglise_rivat_128` with the nested calls only at int64 arguments (`piDeleglieRivat_eq_pi` of WP top asked `pi n = π n` for every
  `n < x`, more than the dispatcher recursion supplies above `2^63`).
Only property theorems, non-vacuity examples and the axiom audit live here.
-/
import PcProofs.Close2Lmo
import PcProofs.Close2Dr
import PcProofs.TopLmoExamples

namespace Pc.C02Closed2
open Pc Pc.Hard Pc.TopLmo Pc.LB Pc.Top Nat Finset
open scoped Nat.Prime

/-- **`pi_lmo5(x) = π(x)`** for every `2 ≤ x < 2^63`, every float outcome `v` inside the envelope, every valid run of `P2`'s region and
    schedule of `S1`, over an iterator that meets its contract up to `N` (not beyond) -/
theorem piLmo5_eq_pi_to {σ : Type} {C : Ctx σ} {x N : ℕ} (a : ℚ) {v : ℤ} {run : P2L.Run} {sched : List (List ℕ)}
    (hx2 : 2 ≤ x) (hx : x < 2 ^ 63)
    (ha1 : 1 ≤ a) (ha : a ≤ (irootN 6 x : ℚ)) (hvN : TruncNear ((irootN 3 x : ℚ) * a) v) (hcv : (irootN 3 x : ℤ) ≤ v)
    (hvu : v ≤ ((irootN 3 x * irootN 6 x : ℕ) : ℤ))
    (hC : CtxOKTo C x N) (hN : 2 ^ 64 - 2 ^ 32 ≤ N)
    (hS : ∀ K, K ≤ π v.toNat → ∃ H : SieveSpec C.S K, ∀ seg, 240 ∣ seg → 0 < seg → H.segOK 0 seg)
    (hrun : 4 ≤ x → v.toNat < Nat.sqrt x → run.valid C.lc x (x / max v.toNat 1) = true)
    (hsched : IsSchedule (getCI v + 1) (π v.toNat) sched) :
    piLmo5 C (x : ℤ) v run sched = .ok (π x : ℤ) :=
  piLmo5_eq_to a hx2 hx ha1 ha hvN hcv hvu hC hN hS hrun hsched

/-- **`pi_lmo_parallel(x, threads) = π(x)`** for every accepted LoadBalancerS2 history, over an iterator meeting its contract up to `N` -/
theorem piLmoParallel_eq_pi_to {σ : Type} {C : Ctx σ} {x N : ℕ} (a : ℚ) {v : ℤ} {run : P2L.Run} {sched : List (List ℕ)}
    {team : ℕ} {print : Bool} {es : List S2.Ev} {r : ℤ}
    (hx2 : 2 ≤ x) (hx : x < 2 ^ 63)
    (ha1 : 1 ≤ a) (ha : a ≤ (irootN 6 x : ℚ)) (hvN : TruncNear ((irootN 3 x : ℚ) * a) v) (hcv : (irootN 3 x : ℤ) ≤ v)
    (hvu : v ≤ ((irootN 3 x * irootN 6 x : ℕ) : ℤ))
    (hC : CtxOKTo C x N) (hN : 2 ^ 64 - 2 ^ 32 ≤ N)
    (hS : ∀ K, K ≤ π v.toNat → ∃ H : SieveSpec C.S K, ∀ low seg, 240 ∣ low → 240 ∣ seg → 0 < seg → H.segOK low seg)
    (hrun : 4 ≤ x → v.toNat < Nat.sqrt x → run.valid C.lc x (x / max v.toNat 1) = true)
    (hsched : IsSchedule (getCI v + 1) (π v.toNat) sched)
    (h : piLmoParallel C (x : ℤ) v run sched team print es = .ok r) : r = (π x : ℤ) :=
  piLmoParallel_eq_to a hx2 hx ha1 ha hvN hcv hvu hC hN hS hrun hsched h

/-- **the iterator hypothesis is a theorem for the real object**: the context whose iterator is the model of `primesieve::iterator` over the
    real sieving core (windows below `2^50`: no float assumption; any window floats, batch sizes, stop hints) meets `CtxOKTo` at
    `N = 2^64 - 59`, the last 64-bit prime (the other fields here are the ideal tables of WP top-lmo's non-vacuity context) -/
theorem lmo_ctx_real_iterator (fl : It.Floats) (batch : ℕ → ℕ) (l1raw kib : ℕ) (hk : 16 ≤ kib) (hk2 : kib ≤ 8192) (hp hn : ℕ → ℕ)
    (hhn : ∀ n, hn n ≤ It.umax) (x : ℕ) :
    CtxOKTo { idealCtx with it := It.realIter (It.coreEnvTo fl batch l1raw kib (2 ^ 50)) hp hn } x It.maxPrime64 ∧
      2 ^ 64 - 2 ^ 32 ≤ It.maxPrime64 :=
  ⟨{ tabs := idealLmoEnv_ok, nt := fun y => ⟨NT.build_valid y, le_rfl⟩,
     it := It.realIter_specTo_maxPrime64 _ (It.coreEnv50_genSpec fl batch l1raw kib hk hk2) hp hn hhn,
     piFn := fun _ _ => rfl, lc := genConsts_wf }, by unfold It.maxPrime64; norm_num⟩

/-- **`pi_deleglise_rivat_128(x)`**, every int128 `x` (accepted by the range check: `DrExec.accept`), generic tables with the iterator contract
    up to `N`; `pi_noprint = π` is needed at int64 arguments only -/
theorem pi_deleglise_rivat_128_eq_pi_generic {σ : Type} (T : Tables σ) {B N : ℕ}
    (hT : TablesOK (T.withIt (P2L.patch T.it N)) B) (hit : P2L.IterSpecTo T.it N) (hN : 2 ^ 64 - 2 ^ 32 ≤ N) (pi : ℕ → ℕ) (x : ℤ)
    (hx : x < 2 ^ 127) (threads : ℤ) (isPrint : Bool) (r : DrRun)
    (hpi : ∀ n : ℕ, (n : ℤ) < x → n < 2 ^ 63 → pi n = π n) (hex : 2 ≤ x → DrExec T B true x.toNat r) :
    piDeleglieRivat T pi true x threads isPrint r = .ok (π x.toNat : ℤ) ∨
      piDeleglieRivat T pi true x threads isPrint r = .error (.hard .badRun) :=
  Pc.Close.piDeleglieRivat128_total_to T hT hit hN pi x hx threads isPrint r hpi hex

/-! ### non-vacuity (tests, labelled as such) -/

/-- `pi_lmo5(1000)` over the real iterator (sieving-core model below 2^50, 256 KiB), `alpha = 1`, `v = 10`: every hypothesis instantiated -/
example (fl : It.Floats) (batch : ℕ → ℕ) (hp hn : ℕ → ℕ) (hhn : ∀ n, hn n ≤ It.umax) :
    piLmo5 { idealCtx with it := It.realIter (It.coreEnvTo fl batch 32768 256 (2 ^ 50)) hp hn } (1000 : ℕ) 10 run1000y10
      (leafSched (getCI 10 + 1) (π (10 : ℤ).toNat) 10 1) = .ok (π 1000 : ℤ) :=
  piLmo5_eq_pi_to (x := 1000) 1 (by norm_num) (by norm_num) (by norm_num)
    (by rw [iroot6_1000]; norm_num)
    (by rw [iroot3_1000]; unfold TruncNear relEps; norm_num)
    (by rw [iroot3_1000]; norm_num)
    (by rw [iroot3_1000, iroot6_1000]; norm_num)
    (lmo_ctx_real_iterator fl batch 32768 256 (by norm_num) (by norm_num) hp hn hhn 1000).1
    (lmo_ctx_real_iterator fl batch 32768 256 (by norm_num) (by norm_num) hp hn hhn 1000).2
    (fun K _ => by
      obtain ⟨H, hH⟩ := idealCtx_sieve K
      exact ⟨H, fun seg h1 h2 => hH 0 seg (dvd_zero _) h1 h2⟩)
    (fun _ _ => by show run1000y10.valid genConsts 1000 (1000 / max 10 1) = true; decide)
    (leafSched_isSchedule _ _ _ _)

end Pc.C02Closed2

#print axioms Pc.C02Closed2.piLmo5_eq_pi_to
#print axioms Pc.C02Closed2.piLmoParallel_eq_pi_to
#print axioms Pc.C02Closed2.lmo_ctx_real_iterator
#print axioms Pc.C02Closed2.pi_deleglise_rivat_128_eq_pi_generic
