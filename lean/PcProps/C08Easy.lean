/-
C08 (also C02 / C03 / C11), wp-easy — the REAL control flow of the easy special leaves equals their definition.

The models are the loop mirrors of PcModel/EasyLoops.lean (src/deleglise-rivat/S2_easy.cpp and S2_easy_libdivide.cpp: the
clustered `while` loop with its two divisions and two `pi[·]` reads per step, the sparse `for` loop, the parallel region with
an atomic loop counter and `reduction(+: sum)`, the 64/128 dispatch of the libdivide file, `fast_div64` as the trapping x86
`div`, libdivide's branchfree divider as its specification `x / d` for `d ≥ 2`).  `t : NT` is the prime / π table standing for
`generate_primes(y)` and `PiTable pi(y)`; `t.Valid` says it is correct up to `t.bound` (`NT.build_valid`).  A result `.ok v`
means in particular: every `primes[·]` / `pi[·]` read was in bounds, no division trapped, every clustered step made progress.
The right-hand sides are the `Pc.Spec` definitions used by `dr_split` / `pi_dr` (PcProofs/Spec/DR.lean).
-/
import PcProofs.EasyLoops2
import PcModel.Drv.EasyLoops
import PcProofs.FormulasMain
import PcProofs.LeafTrivial

namespace Pc.C08Easy
open Pc.Spec Pc.Easy

/-! ### S2_easy -/

/-- **one clustered step is correct**: with `q = p l > √xp`, `m = π(xp / q)`, `P = p (m + 1)` (the first prime above
    `xp / q`) and `lmin = π(xp / P)`, the step's `phi_xpq * (l - lmin)` is exactly the sum of the easy-leaf values
    `π(xp / p i) - b + 2` over the skipped prime indices `i ∈ (lmin, l]` (they all have `π(xp / p i) = m`), and the step
    never jumps below `π ⌊√xp⌋` — which is why S2_easy*.cpp needs no `max(·, pi_min_clustered)` clamp. -/
theorem cluster_step_correct {xp b l : ℕ} (hl : 1 ≤ l) (hq : Nat.sqrt xp < p l) :
    (∑ i ∈ Finset.Ioc (Nat.primeCounting (xp / p (Nat.primeCounting (xp / p l) + 1))) l,
        ((Nat.primeCounting (xp / p i) : ℤ) - b + 2))
      = ((Nat.primeCounting (xp / p l) : ℤ) - b + 2)
          * ((l : ℤ) - (Nat.primeCounting (xp / p (Nat.primeCounting (xp / p l) + 1)) : ℕ))
    ∧ Nat.primeCounting (Nat.sqrt xp) ≤ Nat.primeCounting (xp / p (Nat.primeCounting (xp / p l) + 1))
    ∧ Nat.primeCounting (xp / p (Nat.primeCounting (xp / p l) + 1)) < l := by
  refine ⟨cluster_step_sum hl, lmin_ge hl hq, ?_⟩
  have h1 : xp / p l < p (Nat.primeCounting (xp / p l) + 1) := lt_p_pi_succ _
  have h2 := (Nat.div_lt_iff_lt_mul (p_pos l)).1 h1
  rw [← lt_p_iff hl, Nat.div_lt_iff_lt_mul (p_pos _), mul_comm]
  exact h2

/-- **the clustered loop** started at any `l ∈ [π√xp, π y]` returns the sum over ALL prime indices of `(π√xp, l]` and
    leaves `l = π√xp`; all reads in bounds, both divisions exact, for every kernel (plain 64/128, libdivide 64/128) -/
theorem clustered_loop_eq (k : Kern) {t : NT} (hv : t.Valid) {y xp b : ℕ} (hy : y ≤ t.bound) (hy63 : y ≤ 2 ^ 63)
    (l : ℕ) (sum : ℤ) (h1 : Nat.primeCounting (Nat.sqrt xp) ≤ l) (h2 : l ≤ Nat.primeCounting y)
    (hlow : ∀ i, 1 ≤ i → i ≤ l → b ≤ Nat.primeCounting (xp / p i)) :
    clustered k t (Nat.primeCounting y + 1) y xp b (Nat.primeCounting (Nat.sqrt xp)) l sum
      = .ok (sum + ∑ i ∈ Finset.Ioc (Nat.primeCounting (Nat.sqrt xp)) l, ((Nat.primeCounting (xp / p i) : ℤ) - b + 2),
             Nat.primeCounting (Nat.sqrt xp)) :=
  clustered_eq k hv hy hy63 l sum h1 h2 hlow

/-- **one level `b`** of S2_easy (any of the four kernels): the clustered part plus the sparse part is the sum of
    `π(x / (q · p i)) - b + 2` over the prime indices `i` with `max(q, z / q) < p i ≤ min(x / q², y)`, `q = p b`; for
    every `x < 2^127`, `q³ ≤ x`, `x / (z + 1) ≤ y` (reads in bounds), `z ≤ x / y` -/
theorem s2_easy_level_eq (k : Kern) {t : NT} (hv : t.Valid) {x y z b : ℕ} (hy : y ≤ t.bound)
    (hy63 : y ≤ ITy.i64.maxVal) (hx : x < 2 ^ 127) (hb1 : 1 ≤ b) (hby : b ≤ Nat.primeCounting y)
    (hcube : p b * p b * p b ≤ x) (hoob : x / (z + 1) ≤ y) (hz : z ≤ x / y) :
    ∃ sc ss : ℤ, easyLeaves k t (Nat.primeCounting y + 1) x y z b = .ok (sc, ss) ∧
      sc + ss = ∑ i ∈ Finset.Ioc (Nat.primeCounting (inBetweenN (p b) (z / p b) y))
          (Nat.primeCounting (min (x / p b / p b) y)), ((Nat.primeCounting (x / p b / p i) : ℤ) - b + 2) :=
  easyLeaves_eq k hv hy hy63 hx hb1 hby hcube hoob hz

/-- **S2_easy_OpenMP (S2_easy.cpp) = S2_easy** for the Deleglise-Rivat call `z = x / y`: every `x < 2^127`, every `y ≥ 1`
    with `⌊x^(1/3)⌋ ≤ y ≤ 2^63 - 1`, every `c`, both operand widths `w`, and EVERY distribution `sched` of the iterations
    `b = max(c, π√y) + 1 … π ⌊x^(1/3)⌋` over the team -/
theorem s2_easy_loop_eq_def {t : NT} (hv : t.Valid) {w : ITy} {x y c : ℕ} (hy1 : 1 ≤ y) (hy : y ≤ t.bound)
    (hy63 : y ≤ ITy.i64.maxVal) (hx : x < 2 ^ 127) (hc3 : irootN 3 x ≤ y) {sched : List (List ℕ)}
    (hs : IsSchedule (max c (Nat.primeCounting (Nat.sqrt y)) + 1) (Nat.primeCounting (irootN 3 x)) sched) :
    s2EasyOpenMP t w x y (x / y) c sched = .ok (S2_easy x y c) :=
  s2EasyOpenMP_eq hv hy1 hy hy63 hx hc3 hs

/-- for an explicit `z` the mirror equals the executable defining sum `NT.S2easy x y z c` when `x / (z + 1) ≤ y` (every
    `pi[x / (p q)]` read inside `PiTable pi(y)`) and `z ≤ x / y` (otherwise the clustered loop would also collect leaves
    with `p q ≤ z`, which belong to S2_hard) -/
theorem s2_easy_loop_eq_executable {t : NT} (hv : t.Valid) {w : ITy} {x y z c : ℕ} (hy : y ≤ t.bound)
    (hy63 : y ≤ ITy.i64.maxVal) (hx : x < 2 ^ 127) (hc3 : irootN 3 x ≤ y) (hoob : x / (z + 1) ≤ y) (hz : z ≤ x / y)
    {sched : List (List ℕ)}
    (hs : IsSchedule (max c (Nat.primeCounting (Nat.sqrt y)) + 1) (Nat.primeCounting (irootN 3 x)) sched) :
    s2EasyOpenMP t w x y z c sched = .ok (t.S2easy x y z c) :=
  s2EasyOpenMP_eq_NT hv hy hy63 hx hc3 hoob hz hs

/-- **S2_easy_libdivide.cpp = S2_easy** (the file libprimecount is built from in the pinned configuration): the per-`b`
    dispatch between `S2_easy_64` (libdivide branchfree division, specified as `x / d` for `d ≥ 2`; libdivide itself is
    trusted / corresponded) and `S2_easy_128` (`fast_div64`) never changes the value -/
theorem s2_easy_libdivide_eq_def {t : NT} (hv : t.Valid) {x y c : ℕ} (hy1 : 1 ≤ y) (hy : y ≤ t.bound)
    (hy63 : y ≤ ITy.i64.maxVal) (hx : x < 2 ^ 127) (hc3 : irootN 3 x ≤ y) {sched : List (List ℕ)}
    (hs : IsSchedule (max c (Nat.primeCounting (Nat.sqrt y)) + 1) (Nat.primeCounting (irootN 3 x)) sched) :
    s2EasyLibdivide t x y (x / y) c sched = .ok (S2_easy x y c) :=
  s2EasyLibdivide_eq hv hy1 hy hy63 hx hc3 hs

/-- the libdivide variant and the plain variant compute the same value (also for explicit `z`) -/
theorem s2_easy_libdivide_eq_plain {t : NT} (hv : t.Valid) {w : ITy} {x y z c : ℕ} (hy : y ≤ t.bound)
    (hy63 : y ≤ ITy.i64.maxVal) (hx : x < 2 ^ 127) (hc3 : irootN 3 x ≤ y) (hoob : x / (z + 1) ≤ y) (hz : z ≤ x / y)
    {sched sched' : List (List ℕ)}
    (hs : IsSchedule (max c (Nat.primeCounting (Nat.sqrt y)) + 1) (Nat.primeCounting (irootN 3 x)) sched)
    (hs' : IsSchedule (max c (Nat.primeCounting (Nat.sqrt y)) + 1) (Nat.primeCounting (irootN 3 x)) sched') :
    s2EasyLibdivide t x y z c sched = s2EasyOpenMP t w x y z c sched' := by
  rw [s2EasyLibdivide_eq_NT hv hy hy63 hx hc3 hoob hz hs, s2EasyOpenMP_eq_NT hv hy hy63 hx hc3 hoob hz hs']

/-- C03 for S2_easy: whichever thread fetched which `b` from the atomic counter, the value is the same -/
theorem s2_easy_threads_irrelevant {t : NT} (hv : t.Valid) {w : ITy} {x y z c : ℕ} (hy : y ≤ t.bound)
    (hy63 : y ≤ ITy.i64.maxVal) (hx : x < 2 ^ 127) (hc3 : irootN 3 x ≤ y) (hoob : x / (z + 1) ≤ y) (hz : z ≤ x / y)
    {sched sched' : List (List ℕ)}
    (hs : IsSchedule (max c (Nat.primeCounting (Nat.sqrt y)) + 1) (Nat.primeCounting (irootN 3 x)) sched)
    (hs' : IsSchedule (max c (Nat.primeCounting (Nat.sqrt y)) + 1) (Nat.primeCounting (irootN 3 x)) sched') :
    s2EasyOpenMP t w x y z c sched = s2EasyOpenMP t w x y z c sched' := by
  rw [s2EasyOpenMP_eq_NT hv hy hy63 hx hc3 hoob hz hs, s2EasyOpenMP_eq_NT hv hy hy63 hx hc3 hoob hz hs']

/-- C11 for S2_easy: the `uint64_t` and the `uint128_t` instantiation agree (in particular `fast_div64`'s `div`
    instruction never traps in the wide one) -/
theorem s2_easy_width_irrelevant {t : NT} (hv : t.Valid) {x y z c : ℕ} (hy : y ≤ t.bound)
    (hy63 : y ≤ ITy.i64.maxVal) (hx : x < 2 ^ 127) (hc3 : irootN 3 x ≤ y) (hoob : x / (z + 1) ≤ y) (hz : z ≤ x / y)
    {sched : List (List ℕ)}
    (hs : IsSchedule (max c (Nat.primeCounting (Nat.sqrt y)) + 1) (Nat.primeCounting (irootN 3 x)) sched) :
    s2EasyOpenMP t .i64 x y z c sched = s2EasyOpenMP t .i128 x y z c sched := by
  rw [s2EasyOpenMP_eq_NT hv hy hy63 hx hc3 hoob hz hs, s2EasyOpenMP_eq_NT hv hy hy63 hx hc3 hoob hz hs]

/-- the generic reduction lemma: if every iteration `b` adds `v b` to the private copy it runs on, the region returns
    `init + Σ_{lo ≤ b ≤ hi} v b` whatever the distribution -/
theorem easy_reduction_total {body : ℕ → ℤ → EM ℤ} {v : ℕ → ℤ} {c a : ℕ} {sched : List (List ℕ)}
    (hs : IsSchedule (c + 1) a sched) (init : ℤ) (h : ∀ b, c < b → b ≤ a → ∀ s, body b s = .ok (s + v b)) :
    reduceE init body sched = .ok (init + ∑ b ∈ Finset.Ioc c a, v b) := reduceE_perm hs init h

/-- the distribution the driver runs is one of the distributions the theorems quantify over -/
theorem easy_sched_is_schedule (lo hi nt : ℕ) : IsSchedule lo hi (easySched lo hi nt) :=
  staticSched1_isSchedule lo hi (lt_of_lt_of_le Nat.zero_lt_one (le_max_right nt 1))

/-- what the ops `S2_easy_loop` (libdivide mirror) and `S2_easy_plain` of pcdrv print for the Deleglise-Rivat call IS
    `S2_easy x y c` -/
theorem s2_easy_loop_op {t : NT} {w : ITy} {x y c : ℕ} (ht : Drv.leafTable y = some t) (hy1 : 1 ≤ y)
    (hx : x < 2 ^ 127) (hc3 : irootN 3 x ≤ y) (nt : ℕ) :
    s2EasyLibdivide t x y (x / y) c (easySched (easyLo t y c) (easyHi t x) nt) = .ok (S2_easy x y c) ∧
    s2EasyOpenMP t w x y (x / y) c (easySched (easyLo t y c) (easyHi t x) nt) = .ok (S2_easy x y c) := by
  unfold Drv.leafTable at ht
  split_ifs at ht with hb
  cases ht
  have hv := NT.build_valid (max y 19 + 1)
  have hy : y ≤ (NT.build (max y 19 + 1)).bound := by
    show y ≤ max y 19 + 1
    have := le_max_left y 19; omega
  have hy63 : y ≤ ITy.i64.maxVal := by
    have h1 : y ≤ 60000000 := not_lt.1 hb
    exact le_trans h1 (by decide)
  have e1 : easyLo (NT.build (max y 19 + 1)) y c = max c (Nat.primeCounting (Nat.sqrt y)) + 1 := by
    unfold easyLo
    rw [isqrtN_eq, hv.piOf_eq _ (le_trans (Nat.sqrt_le_self y) hy)]
  have e2 : easyHi (NT.build (max y 19 + 1)) x = Nat.primeCounting (irootN 3 x) := by
    unfold easyHi
    rw [hv.piOf_eq _ (le_trans hc3 hy)]
  rw [e1, e2]
  exact ⟨s2EasyLibdivide_eq hv hy1 hy hy63 hx hc3 (easy_sched_is_schedule _ _ _),
    s2EasyOpenMP_eq hv hy1 hy hy63 hx hc3 (easy_sched_is_schedule _ _ _)⟩

/-! ### the loop mirror inside the identity (C02: the decomposition adds up to π(x)) -/

/-- Deleglise-Rivat with S1, S2_trivial AND S2_easy computed by the REAL control flow (any thread distributions): for every
    `y` with `y² ≤ x < (y+1)³`, `1 ≤ c ≤ min(8, π y)`, the three mirrors return values which, with the remaining
    (executable defining-sum) terms S2_hard and P2, add up to π(x) -/
theorem dr_total_with_easy_loop {t : NT} (hv : t.Valid) {w : ITy} {x y c : ℕ} (hcov : t.Covers x y) (hy1 : 1 ≤ y)
    (hy2 : y * y ≤ x) (hy3 : x < (y + 1) ^ 3) (hc1 : 1 ≤ c) (hc : c ≤ Nat.primeCounting y) (hc8 : c ≤ 8)
    (hw : y * y ≤ w.maxVal) (hy63 : y ≤ ITy.i64.maxVal) (hx : x < 2 ^ 127) {sched sched' : List (List ℕ)}
    (hs : IsSchedule (c + 1) (Nat.primeCounting y) sched)
    (hs' : IsSchedule (max c (Nat.primeCounting (Nat.sqrt y)) + 1) (Nat.primeCounting (irootN 3 x)) sched') :
    ∃ s1v tv ev : ℤ, s1OpenMP t w x y c sched = .ok s1v ∧ s2Trivial t w x y (x / y) c = .ok tv ∧
      s2EasyLibdivide t x y (x / y) c sched' = .ok ev ∧
      s1v + tv + ev + t.S2hard x y (x / y) c + (t.piOf y : ℤ) - 1 - t.P2 x y = (Nat.primeCounting x : ℤ) := by
  have hc3 : irootN 3 x ≤ y := by
    by_contra h
    push Not at h
    have h1 := (irootN_spec 3 x (by omega)).1
    have h2 : (y + 1) ^ 3 ≤ irootN 3 x ^ 3 := Nat.pow_le_pow_left h 3
    omega
  refine ⟨S1 x y c, S2_trivial x y c, S2_easy x y c, s1OpenMP_eq hv hy1 hcov.hy hc8 hw hs,
    s2Trivial_eq hv hy1 hcov.hy hy2 hc1 hc hw hy63, s2EasyLibdivide_eq hv hy1 hcov.hy hy63 hx hc3 hs', ?_⟩
  have := NT_dr_total hv hcov hy1 hy2 hy3 hc
  rwa [NT.S1_eq hv (le_trans hc (Spec.pi_mono hcov.hy)), NT.S2trivial_eq hv hy1 hcov.hy hy2 hc,
    NT.S2easy_eq hv hy1 hcov.hy hc3] at this

/-! ### non-vacuity: the hypotheses are met by concrete non-trivial instances -/

example := s2_easy_loop_eq_def (NT.build_valid 100) (w := .i64) (x := 100000) (y := 60) (c := 3) (by norm_num)
  (by show 60 ≤ 100; norm_num) (by decide) (by norm_num)
  (by rw [irootN_eq_of (r := 46) (by norm_num) (by norm_num) (by norm_num)]; norm_num)
  (easy_sched_is_schedule _ _ 3)
example := s2_easy_libdivide_eq_def (NT.build_valid 100) (x := 100000) (y := 60) (c := 3) (by norm_num)
  (by show 60 ≤ 100; norm_num) (by decide) (by norm_num)
  (by rw [irootN_eq_of (r := 46) (by norm_num) (by norm_num) (by norm_num)]; norm_num)
  (easy_sched_is_schedule _ _ 1)
example := s2_easy_loop_eq_executable (NT.build_valid 100) (w := .i128) (x := 100000) (y := 60) (z := 1665) (c := 3)
  (by show 60 ≤ 100; norm_num) (by decide) (by norm_num)
  (by rw [irootN_eq_of (r := 46) (by norm_num) (by norm_num) (by norm_num)]; norm_num) (by norm_num) (by norm_num)
  (easy_sched_is_schedule _ _ 2)
example := s2_easy_level_eq .ld64 (NT.build_valid 100) (x := 100000) (y := 60) (z := 1666) (b := 11)
  (by show 60 ≤ 100; norm_num) (by decide) (by norm_num) (by norm_num)
  (by rw [show Nat.primeCounting 60 = 17 by decide]; norm_num)
  (by rw [show p 11 = 31 by
        have : Nat.primeCounting 31 = 11 := by decide
        rw [← this]; exact p_pi_of_prime (by norm_num)]; norm_num)
  (by norm_num) (by norm_num)
example := cluster_step_correct (xp := 3225) (b := 11) (l := 17)
  (by norm_num)
  (by rw [show p 17 = 59 by
        have : Nat.primeCounting 59 = 17 := by decide
        rw [← this]; exact p_pi_of_prime (by norm_num)]
      exact Nat.sqrt_lt.2 (by norm_num))
example : ∃ t, Drv.leafTable 60 = some t := ⟨_, rfl⟩

end Pc.C08Easy

#print axioms Pc.C08Easy.cluster_step_correct
#print axioms Pc.C08Easy.clustered_loop_eq
#print axioms Pc.C08Easy.s2_easy_level_eq
#print axioms Pc.C08Easy.s2_easy_loop_eq_def
#print axioms Pc.C08Easy.s2_easy_loop_eq_executable
#print axioms Pc.C08Easy.s2_easy_libdivide_eq_def
#print axioms Pc.C08Easy.s2_easy_libdivide_eq_plain
#print axioms Pc.C08Easy.s2_easy_threads_irrelevant
#print axioms Pc.C08Easy.s2_easy_width_irrelevant
#print axioms Pc.C08Easy.easy_reduction_total
#print axioms Pc.C08Easy.easy_sched_is_schedule
#print axioms Pc.C08Easy.s2_easy_loop_op
#print axioms Pc.C08Easy.dr_total_with_easy_loop
