/-
C18, closed (WP close2, item 1) — the whole-history / store / parallel-count / nthPrime theorems of WP iter2 (PcProps/C18History.lean,
C18Store.lean, C18Par.lean, C18Nth.lean; all under the hypothesis `GenSpec e` resp. `CoreCounts core`) restated over the REAL
sieving-core model of WP core / core2:

  * `…_closed`    over `Pc.It.coreEnv fl batch l1raw kib` (PcProofs/CloseIter.lean: `primes a b = Pc.PsCore.generatePrimes (preTabsDecoded ())
                  l1raw a b kib` for every `b < 2^64`, the domain of the C++ function). `GenSpec` is discharged by `coreEnv_genSpec`
                  (from `generator_contract`); remaining: (F) `CoreFloatOk l1raw kib` (`maxEratMedium_ < 2^25` for every window), (S) `16 ≤ kib ≤ 8192`.
  * `…_closed_50` over `coreEnvTo fl batch l1raw kib (2^50)` (the real core for every window below 2^50): `coreEnv50_genSpec`; NO float
                  hypothesis, only (S) `16 ≤ kib ≤ 8192`.
  * `parallel_count_primes_closed(_50)`: `CoreCounts` discharged for the real counting core `countCoreTo` (PcProofs/Close2Iter.lean: the
                  popcount summand of `Pc.PsCore.countPrimes`, verbatim) by `count_contract`; (F) `CountFloatOk` (none below 2^50).
  * `prime_generator_table_path_closed(_50)`: the `PrimesIn` contract of the core discharged for `generatePrimes` itself.
Floats of the iterator (`fl`), batch sizes, stop hints, nthPrime's approximations: arbitrary, quantified. All other hypotheses are those
of the WP iter2 theorems (argument ranges `≤ 2^64-1`, existence of a 64-bit prime above `stop`, …), unchanged.
Only property theorems, non-vacuity examples and the axiom audit live here.
-/
import PcProofs.Close2Iter
import PcProps.C18History
import PcProps.C18Store
import PcProps.C18Par
import PcProps.C18Nth

namespace Pc.C18ClosedHist
open Pc.It
open Pc.PsCore (generatePrimes preTabsDecoded FloatOk countPrimes)

/-- **`history_correct` over the real sieving core**: for every start / stop hint below 2^64 and EVERY finite history of `next_prime()` /
    `prev_prime()` / `jump_to` (`clear()` = `jump_to(0)`) the real iterator's model over the real core model returns exactly what the abstract
    prime cursor returns, value by value, and throws `primesieve_error` exactly when the cursor has no next prime below 2^64 -/
theorem history_correct_closed (fl : Floats) (batch : ℕ → ℕ) (l1raw kib : ℕ) (hfl : CoreFloatOk l1raw kib) (hk : 16 ≤ kib) (hk2 : kib ≤ 8192)
    (start hint : ℕ) (hs : start ≤ umax) (hh : hint ≤ umax) (ops : List Op) (hv : ∀ op ∈ ops, op.valid) :
    run (coreEnv fl batch l1raw kib) (init start hint) ops = absRun (Cur.fresh start) ops :=
  C18.history_correct _ (coreEnv_genSpec fl batch l1raw kib hfl hk hk2) start hint hs hh ops hv

/-- `history_correct_closed` (real core below 2^50: no float hypothesis) -/
theorem history_correct_closed_50 (fl : Floats) (batch : ℕ → ℕ) (l1raw kib : ℕ) (hk : 16 ≤ kib) (hk2 : kib ≤ 8192)
    (start hint : ℕ) (hs : start ≤ umax) (hh : hint ≤ umax) (ops : List Op) (hv : ∀ op ∈ ops, op.valid) :
    run (coreEnvTo fl batch l1raw kib (2 ^ 50)) (init start hint) ops = absRun (Cur.fresh start) ops :=
  C18.history_correct _ (coreEnv50_genSpec fl batch l1raw kib hk hk2) start hint hs hh ops hv

/-- the one-step refinement behind it, from ANY state related to a cursor -/
theorem ops_refine_cursor_closed (fl : Floats) (batch : ℕ → ℕ) (l1raw kib : ℕ) (hfl : CoreFloatOk l1raw kib) (hk : 16 ≤ kib) (hk2 : kib ≤ 8192)
    (s : St) (c : Cur) (h : Inv s c) :
    (∀ p, absNext c = some p → ∃ s', nextPrime (coreEnv fl batch l1raw kib) s = .ok (p, s') ∧ Inv s' (Cur.at p)) ∧
    (absNext c = none → nextPrime (coreEnv fl batch l1raw kib) s = .error .ps) ∧
    (∃ s', prevPrime (coreEnv fl batch l1raw kib) s = .ok (absPrev c, s') ∧ Inv s' (Cur.at (absPrev c))) ∧
    (∀ a hint, a ≤ umax → hint ≤ umax → Inv (jumpTo s a hint) (Cur.fresh a)) ∧
    Inv (clear s) (Cur.fresh 0) :=
  C18.ops_refine_cursor _ (coreEnv_genSpec fl batch l1raw kib hfl hk hk2) s c h

/-- `ops_refine_cursor_closed` (real core below 2^50: no float hypothesis) -/
theorem ops_refine_cursor_closed_50 (fl : Floats) (batch : ℕ → ℕ) (l1raw kib : ℕ) (hk : 16 ≤ kib) (hk2 : kib ≤ 8192)
    (s : St) (c : Cur) (h : Inv s c) :
    (∀ p, absNext c = some p → ∃ s', nextPrime (coreEnvTo fl batch l1raw kib (2 ^ 50)) s = .ok (p, s') ∧ Inv s' (Cur.at p)) ∧
    (absNext c = none → nextPrime (coreEnvTo fl batch l1raw kib (2 ^ 50)) s = .error .ps) ∧
    (∃ s', prevPrime (coreEnvTo fl batch l1raw kib (2 ^ 50)) s = .ok (absPrev c, s') ∧ Inv s' (Cur.at (absPrev c))) ∧
    (∀ a hint, a ≤ umax → hint ≤ umax → Inv (jumpTo s a hint) (Cur.fresh a)) ∧
    Inv (clear s) (Cur.fresh 0) :=
  C18.ops_refine_cursor _ (coreEnv50_genSpec fl batch l1raw kib hk hk2) s c h

/-- `k` calls of `next_prime()` on a fresh iterator over the real core return the first `k` primes `≥ start` (all of them before the
    `primesieve_error` when the primes below 2^64 run out) -/
theorem next_yields_primes_ge_start_closed (fl : Floats) (batch : ℕ → ℕ) (l1raw kib : ℕ) (hfl : CoreFloatOk l1raw kib) (hk : 16 ≤ kib) (hk2 : kib ≤ 8192)
    (start hint : ℕ) (hs : start ≤ umax) (hh : hint ≤ umax) (k : ℕ) :
    (∀ L, (run (coreEnv fl batch l1raw kib) (init start hint) (List.replicate k .next)).1.getLast? = some L →
      PrimesIn (run (coreEnv fl batch l1raw kib) (init start hint) (List.replicate k .next)).1 start L) ∧
    (((run (coreEnv fl batch l1raw kib) (init start hint) (List.replicate k .next)).2 = none ∧
        (run (coreEnv fl batch l1raw kib) (init start hint) (List.replicate k .next)).1.length = k) ∨
     ((run (coreEnv fl batch l1raw kib) (init start hint) (List.replicate k .next)).2 = some .ps ∧
        (run (coreEnv fl batch l1raw kib) (init start hint) (List.replicate k .next)).1.length < k ∧
        ∀ q, q.Prime → start ≤ q → q ≤ umax → q ∈ (run (coreEnv fl batch l1raw kib) (init start hint) (List.replicate k .next)).1)) :=
  C18.next_yields_primes_ge_start _ (coreEnv_genSpec fl batch l1raw kib hfl hk hk2) start hint hs hh k

/-- `next_yields_primes_ge_start_closed` (real core below 2^50: no float hypothesis) -/
theorem next_yields_primes_ge_start_closed_50 (fl : Floats) (batch : ℕ → ℕ) (l1raw kib : ℕ) (hk : 16 ≤ kib) (hk2 : kib ≤ 8192)
    (start hint : ℕ) (hs : start ≤ umax) (hh : hint ≤ umax) (k : ℕ) :
    (∀ L, (run (coreEnvTo fl batch l1raw kib (2 ^ 50)) (init start hint) (List.replicate k .next)).1.getLast? = some L →
      PrimesIn (run (coreEnvTo fl batch l1raw kib (2 ^ 50)) (init start hint) (List.replicate k .next)).1 start L) ∧
    (((run (coreEnvTo fl batch l1raw kib (2 ^ 50)) (init start hint) (List.replicate k .next)).2 = none ∧
        (run (coreEnvTo fl batch l1raw kib (2 ^ 50)) (init start hint) (List.replicate k .next)).1.length = k) ∨
     ((run (coreEnvTo fl batch l1raw kib (2 ^ 50)) (init start hint) (List.replicate k .next)).2 = some .ps ∧
        (run (coreEnvTo fl batch l1raw kib (2 ^ 50)) (init start hint) (List.replicate k .next)).1.length < k ∧
        ∀ q, q.Prime → start ≤ q → q ≤ umax → q ∈ (run (coreEnvTo fl batch l1raw kib (2 ^ 50)) (init start hint) (List.replicate k .next)).1)) :=
  C18.next_yields_primes_ge_start _ (coreEnv50_genSpec fl batch l1raw kib hk hk2) start hint hs hh k

/-- `k` calls of `prev_prime()` on a fresh iterator over the real core never fail and return the primes `≤ start` downwards, then 0 forever
    (`C18.prev_sequence_shape`) -/
theorem prev_yields_primes_le_start_closed (fl : Floats) (batch : ℕ → ℕ) (l1raw kib : ℕ) (hfl : CoreFloatOk l1raw kib) (hk : 16 ≤ kib) (hk2 : kib ≤ 8192)
    (start hint : ℕ) (hs : start ≤ umax) (hh : hint ≤ umax) (k : ℕ) :
    run (coreEnv fl batch l1raw kib) (init start hint) (List.replicate k .prev) = (prevSeq (Nat.findGreatest Nat.Prime start) k, none) :=
  C18.prev_yields_primes_le_start _ (coreEnv_genSpec fl batch l1raw kib hfl hk hk2) start hint hs hh k

/-- `prev_yields_primes_le_start_closed` (real core below 2^50: no float hypothesis) -/
theorem prev_yields_primes_le_start_closed_50 (fl : Floats) (batch : ℕ → ℕ) (l1raw kib : ℕ) (hk : 16 ≤ kib) (hk2 : kib ≤ 8192)
    (start hint : ℕ) (hs : start ≤ umax) (hh : hint ≤ umax) (k : ℕ) :
    run (coreEnvTo fl batch l1raw kib (2 ^ 50)) (init start hint) (List.replicate k .prev) = (prevSeq (Nat.findGreatest Nat.Prime start) k, none) :=
  C18.prev_yields_primes_le_start _ (coreEnv50_genSpec fl batch l1raw kib hk hk2) start hint hs hh k

/-- `buffer_contract` in the general position (after ANY history, whatever `i_` was set to) over the real core -/
theorem buffer_contract_closed (fl : Floats) (batch : ℕ → ℕ) (l1raw kib : ℕ) (hfl : CoreFloatOk l1raw kib) (hk : 16 ≤ kib) (hk2 : kib ≤ 8192)
    (start hint : ℕ) (hs : start ≤ umax) (hh : hint ≤ umax) (ops : List Op) (hv : ∀ op ∈ ops, op.valid) (s : St)
    (hrun : runSt (coreEnv fl batch l1raw kib) (init start hint) ops = .ok s) (j : ℕ) :
    ∃ n, (endCur (Cur.fresh start) ops).hi ≤ n ∧ n ≤ umax ∧
      (∀ q, q.Prime → (endCur (Cur.fresh start) ops).hi ≤ q → q < n → q ∈ s.buf) ∧
      ((∃ p, p.Prime ∧ n ≤ p ∧ p ≤ umax) →
        ∃ s', genNext (coreEnv fl batch l1raw kib) bigFuel { s with i := j } = .ok s' ∧ s'.i = 0 ∧
          ∃ h0 : 0 < s'.buf.length, (∀ L, s'.buf.getLast? = some L → PrimesIn s'.buf n L) ∧
            Inv s' (Cur.at s'.buf[0]) ∧ IsNext n s'.buf[0]) ∧
      ((∀ p, p.Prime → n ≤ p → ¬ p ≤ umax) → genNext (coreEnv fl batch l1raw kib) bigFuel { s with i := j } = .error .ps) :=
  C18.buffer_contract _ (coreEnv_genSpec fl batch l1raw kib hfl hk hk2) start hint hs hh ops hv s hrun j

/-- `buffer_contract_closed` (real core below 2^50: no float hypothesis) -/
theorem buffer_contract_closed_50 (fl : Floats) (batch : ℕ → ℕ) (l1raw kib : ℕ) (hk : 16 ≤ kib) (hk2 : kib ≤ 8192)
    (start hint : ℕ) (hs : start ≤ umax) (hh : hint ≤ umax) (ops : List Op) (hv : ∀ op ∈ ops, op.valid) (s : St)
    (hrun : runSt (coreEnvTo fl batch l1raw kib (2 ^ 50)) (init start hint) ops = .ok s) (j : ℕ) :
    ∃ n, (endCur (Cur.fresh start) ops).hi ≤ n ∧ n ≤ umax ∧
      (∀ q, q.Prime → (endCur (Cur.fresh start) ops).hi ≤ q → q < n → q ∈ s.buf) ∧
      ((∃ p, p.Prime ∧ n ≤ p ∧ p ≤ umax) →
        ∃ s', genNext (coreEnvTo fl batch l1raw kib (2 ^ 50)) bigFuel { s with i := j } = .ok s' ∧ s'.i = 0 ∧
          ∃ h0 : 0 < s'.buf.length, (∀ L, s'.buf.getLast? = some L → PrimesIn s'.buf n L) ∧
            Inv s' (Cur.at s'.buf[0]) ∧ IsNext n s'.buf[0]) ∧
      ((∀ p, p.Prime → n ≤ p → ¬ p ≤ umax) → genNext (coreEnvTo fl batch l1raw kib (2 ^ 50)) bigFuel { s with i := j } = .error .ps) :=
  C18.buffer_contract _ (coreEnv50_genSpec fl batch l1raw kib hk hk2) start hint hs hh ops hv s hrun j

/-- `buffer_contract` as the clients that only call `generate_next_primes()` consume it (P2.cpp, StorePrimes.hpp), over the real core -/
theorem buffer_contract_batches_closed (fl : Floats) (batch : ℕ → ℕ) (l1raw kib : ℕ) (hfl : CoreFloatOk l1raw kib) (hk : 16 ≤ kib) (hk2 : kib ≤ 8192)
     :
    (∀ start hint, start ≤ umax → hint ≤ umax → (∃ p, p.Prime ∧ start ≤ p ∧ p ≤ umax) →
      ∃ s' L', genNext (coreEnv fl batch l1raw kib) bigFuel (init start hint) = .ok s' ∧ s'.i = 0 ∧ Batch s' start L') ∧
    (∀ s n L j, Batch s n L → (∃ p, p.Prime ∧ L + 1 ≤ p ∧ p ≤ umax) →
      ∃ s' L', genNext (coreEnv fl batch l1raw kib) bigFuel { s with i := j } = .ok s' ∧ s'.i = 0 ∧ Batch s' (L + 1) L') ∧
    (∀ s n L j, Batch s n L → (∀ p, p.Prime → L + 1 ≤ p → ¬ p ≤ umax) →
      genNext (coreEnv fl batch l1raw kib) bigFuel { s with i := j } = .error .ps) :=
  C18.buffer_contract_batches _ (coreEnv_genSpec fl batch l1raw kib hfl hk hk2)

/-- `buffer_contract_batches_closed` (real core below 2^50: no float hypothesis) -/
theorem buffer_contract_batches_closed_50 (fl : Floats) (batch : ℕ → ℕ) (l1raw kib : ℕ) (hk : 16 ≤ kib) (hk2 : kib ≤ 8192)
     :
    (∀ start hint, start ≤ umax → hint ≤ umax → (∃ p, p.Prime ∧ start ≤ p ∧ p ≤ umax) →
      ∃ s' L', genNext (coreEnvTo fl batch l1raw kib (2 ^ 50)) bigFuel (init start hint) = .ok s' ∧ s'.i = 0 ∧ Batch s' start L') ∧
    (∀ s n L j, Batch s n L → (∃ p, p.Prime ∧ L + 1 ≤ p ∧ p ≤ umax) →
      ∃ s' L', genNext (coreEnvTo fl batch l1raw kib (2 ^ 50)) bigFuel { s with i := j } = .ok s' ∧ s'.i = 0 ∧ Batch s' (L + 1) L') ∧
    (∀ s n L j, Batch s n L → (∀ p, p.Prime → L + 1 ≤ p → ¬ p ≤ umax) →
      genNext (coreEnvTo fl batch l1raw kib (2 ^ 50)) bigFuel { s with i := j } = .error .ps) :=
  C18.buffer_contract_batches _ (coreEnv50_genSpec fl batch l1raw kib hk hk2)

/-- `store_primes(start, stop, v)` over the real core: terminates without error and appends exactly the primes of `[start, stop]` -/
theorem store_primes_correct_closed (fl : Floats) (batch : ℕ → ℕ) (l1raw kib : ℕ) (hfl : CoreFloatOk l1raw kib) (hk : 16 ≤ kib) (hk2 : kib ≤ 8192)
    (vmax start stop : ℕ) (hle : start ≤ stop) (hv : stop ≤ vmax)
    (hstop : stop < maxPrime64) (hp : ∃ p, p.Prime ∧ stop < p ∧ p ≤ umax) :
    ∃ l, storePrimes (coreEnv fl batch l1raw kib) vmax start stop = .ok l ∧ PrimesIn l start stop :=
  C18.store_primes_correct _ (coreEnv_genSpec fl batch l1raw kib hfl hk hk2) vmax start stop hle hv hstop hp

/-- `store_primes_correct_closed` (real core below 2^50: no float hypothesis) -/
theorem store_primes_correct_closed_50 (fl : Floats) (batch : ℕ → ℕ) (l1raw kib : ℕ) (hk : 16 ≤ kib) (hk2 : kib ≤ 8192)
    (vmax start stop : ℕ) (hle : start ≤ stop) (hv : stop ≤ vmax)
    (hstop : stop < maxPrime64) (hp : ∃ p, p.Prime ∧ stop < p ∧ p ≤ umax) :
    ∃ l, storePrimes (coreEnvTo fl batch l1raw kib (2 ^ 50)) vmax start stop = .ok l ∧ PrimesIn l start stop :=
  C18.store_primes_correct _ (coreEnv50_genSpec fl batch l1raw kib hk hk2) vmax start stop hle hv hstop hp

/-- … for `stop ≤ 2^63` with no number-theoretic hypothesis (Bertrand) -/
theorem store_primes_correct_two63_closed (fl : Floats) (batch : ℕ → ℕ) (l1raw kib : ℕ) (hfl : CoreFloatOk l1raw kib) (hk : 16 ≤ kib) (hk2 : kib ≤ 8192)
    (vmax start stop : ℕ) (hle : start ≤ stop) (hv : stop ≤ vmax) (hstop : stop ≤ 2 ^ 63) :
    ∃ l, storePrimes (coreEnv fl batch l1raw kib) vmax start stop = .ok l ∧ PrimesIn l start stop :=
  C18.store_primes_correct_two63 _ (coreEnv_genSpec fl batch l1raw kib hfl hk hk2) vmax start stop hle hv hstop

/-- `store_primes_correct_two63_closed` (real core below 2^50: no float hypothesis) -/
theorem store_primes_correct_two63_closed_50 (fl : Floats) (batch : ℕ → ℕ) (l1raw kib : ℕ) (hk : 16 ≤ kib) (hk2 : kib ≤ 8192)
    (vmax start stop : ℕ) (hle : start ≤ stop) (hv : stop ≤ vmax) (hstop : stop ≤ 2 ^ 63) :
    ∃ l, storePrimes (coreEnvTo fl batch l1raw kib (2 ^ 50)) vmax start stop = .ok l ∧ PrimesIn l start stop :=
  C18.store_primes_correct_two63 _ (coreEnv50_genSpec fl batch l1raw kib hk hk2) vmax start stop hle hv hstop

/-- `store_n_primes(n, start, v)` over the real core: exactly the first `n` primes `≥ start`, for ANY stop hint -/
theorem store_n_primes_correct_closed (fl : Floats) (batch : ℕ → ℕ) (l1raw kib : ℕ) (hfl : CoreFloatOk l1raw kib) (hk : 16 ≤ kib) (hk2 : kib ≤ 8192)
    (vmax n start nthHint : ℕ) (hn : 1 ≤ n) (hs : start ≤ umax)
    (w : List ℕ) (W : ℕ) (hw : PrimesIn w start W) (hwl : w.getLast? = some W) (hWu : W ≤ umax) (hWv : W ≤ vmax) (hN : n ≤ w.length) :
    ∃ r Lr, storeNPrimes (coreEnv fl batch l1raw kib) vmax n start nthHint = .ok r ∧ r.length = n ∧ r.getLast? = some Lr ∧ PrimesIn r start Lr :=
  C18.store_n_primes_correct _ (coreEnv_genSpec fl batch l1raw kib hfl hk hk2) vmax n start nthHint hn hs w W hw hwl hWu hWv hN

/-- `store_n_primes_correct_closed` (real core below 2^50: no float hypothesis) -/
theorem store_n_primes_correct_closed_50 (fl : Floats) (batch : ℕ → ℕ) (l1raw kib : ℕ) (hk : 16 ≤ kib) (hk2 : kib ≤ 8192)
    (vmax n start nthHint : ℕ) (hn : 1 ≤ n) (hs : start ≤ umax)
    (w : List ℕ) (W : ℕ) (hw : PrimesIn w start W) (hwl : w.getLast? = some W) (hWu : W ≤ umax) (hWv : W ≤ vmax) (hN : n ≤ w.length) :
    ∃ r Lr, storeNPrimes (coreEnvTo fl batch l1raw kib (2 ^ 50)) vmax n start nthHint = .ok r ∧ r.length = n ∧ r.getLast? = some Lr ∧ PrimesIn r start Lr :=
  C18.store_n_primes_correct _ (coreEnv50_genSpec fl batch l1raw kib hk hk2) vmax n start nthHint hn hs w W hw hwl hWu hWv hN

/-- the iterator contract P2.cpp / B.cpp consume (`IterSpecTo`), met by the real iterator model over the real core -/
theorem iter_satisfies_IterSpec_closed (fl : Floats) (batch : ℕ → ℕ) (l1raw kib : ℕ) (hfl : CoreFloatOk l1raw kib) (hk : 16 ≤ kib) (hk2 : kib ≤ 8192)
    (hintP hintN : ℕ → ℕ) (hH : ∀ n, hintN n ≤ umax) (N : ℕ) (hN : ∃ p, p.Prime ∧ N ≤ p ∧ p ≤ umax) :
    P2L.IterSpecTo (modelIter (coreEnv fl batch l1raw kib) hintP hintN) N :=
  C18.iter_satisfies_IterSpec _ (coreEnv_genSpec fl batch l1raw kib hfl hk hk2) hintP hintN hH N hN

/-- `iter_satisfies_IterSpec_closed` (real core below 2^50: no float hypothesis) -/
theorem iter_satisfies_IterSpec_closed_50 (fl : Floats) (batch : ℕ → ℕ) (l1raw kib : ℕ) (hk : 16 ≤ kib) (hk2 : kib ≤ 8192)
    (hintP hintN : ℕ → ℕ) (hH : ∀ n, hintN n ≤ umax) (N : ℕ) (hN : ∃ p, p.Prime ∧ N ≤ p ∧ p ≤ umax) :
    P2L.IterSpecTo (modelIter (coreEnvTo fl batch l1raw kib (2 ^ 50)) hintP hintN) N :=
  C18.iter_satisfies_IterSpec _ (coreEnv50_genSpec fl batch l1raw kib hk hk2) hintP hintN hH N hN

/-- … up to `2^63` with no number-theoretic hypothesis -/
theorem iter_satisfies_IterSpec_two63_closed (fl : Floats) (batch : ℕ → ℕ) (l1raw kib : ℕ) (hfl : CoreFloatOk l1raw kib) (hk : 16 ≤ kib) (hk2 : kib ≤ 8192)
    (hintP hintN : ℕ → ℕ) (hH : ∀ n, hintN n ≤ umax) :
    P2L.IterSpecTo (modelIter (coreEnv fl batch l1raw kib) hintP hintN) (2 ^ 63) :=
  C18.iter_satisfies_IterSpec_two63 _ (coreEnv_genSpec fl batch l1raw kib hfl hk hk2) hintP hintN hH

/-- `iter_satisfies_IterSpec_two63_closed` (real core below 2^50: no float hypothesis) -/
theorem iter_satisfies_IterSpec_two63_closed_50 (fl : Floats) (batch : ℕ → ℕ) (l1raw kib : ℕ) (hk : 16 ≤ kib) (hk2 : kib ≤ 8192)
    (hintP hintN : ℕ → ℕ) (hH : ∀ n, hintN n ≤ umax) :
    P2L.IterSpecTo (modelIter (coreEnvTo fl batch l1raw kib (2 ^ 50)) hintP hintN) (2 ^ 63) :=
  C18.iter_satisfies_IterSpec_two63 _ (coreEnv50_genSpec fl batch l1raw kib hk hk2) hintP hintN hH

/-- **`PrimeSieve::nthPrime(n, start)` over the real core** (`countPrimes` = the exact count `primeCnt`, see `parallel_count_primes_closed`):
    the n-th prime above / below `start` for ANY outcome of the approximations, and the documented errors -/
theorem nth_prime_correct_closed (fl : Floats) (batch : ℕ → ℕ) (l1raw kib : ℕ) (hfl : CoreFloatOk l1raw kib) (hk : 16 ≤ kib) (hk2 : kib ≤ 8192)
    (nf : NthFloats) (hna : ∀ x, nf.nthApprox x ≤ umax) (n : ℤ) (start : ℕ) (hs : start ≤ umax) :
    (0 ≤ n → (if n.toNat = 0 then 1 else n.toNat) > maxN → nthPrime (coreEnv fl batch l1raw kib) nf primeCnt n start = .error .tooLarge) ∧
    (0 ≤ n → (if n.toNat = 0 then 1 else n.toNat) ≤ maxN →
      (∀ p, p.Prime → start < p → p ≤ umax → primeCnt (start + 1) p = (if n.toNat = 0 then 1 else n.toNat) →
        nthPrime (coreEnv fl batch l1raw kib) nf primeCnt n start = .ok p) ∧
      (primeCnt (start + 1) umax < (if n.toNat = 0 then 1 else n.toNat) →
        nthPrime (coreEnv fl batch l1raw kib) nf primeCnt n start = .error (.iter .ps))) ∧
    (n < 0 → (n.natAbs ≥ start ∨ n.natAbs > maxN) → nthPrime (coreEnv fl batch l1raw kib) nf primeCnt n start = .error .absTooLarge) ∧
    (n < 0 → n.natAbs < start → n.natAbs ≤ maxN →
      (∀ q, q.Prime → q < start → primeCnt q (start - 1) = n.natAbs → nthPrime (coreEnv fl batch l1raw kib) nf primeCnt n start = .ok q) ∧
      (primeCnt 0 (start - 1) < n.natAbs → nthPrime (coreEnv fl batch l1raw kib) nf primeCnt n start = .error .below2)) :=
  C18.nth_prime_correct _ (coreEnv_genSpec fl batch l1raw kib hfl hk hk2) nf hna n start hs

/-- `nth_prime_correct_closed` (real core below 2^50: no float hypothesis) -/
theorem nth_prime_correct_closed_50 (fl : Floats) (batch : ℕ → ℕ) (l1raw kib : ℕ) (hk : 16 ≤ kib) (hk2 : kib ≤ 8192)
    (nf : NthFloats) (hna : ∀ x, nf.nthApprox x ≤ umax) (n : ℤ) (start : ℕ) (hs : start ≤ umax) :
    (0 ≤ n → (if n.toNat = 0 then 1 else n.toNat) > maxN → nthPrime (coreEnvTo fl batch l1raw kib (2 ^ 50)) nf primeCnt n start = .error .tooLarge) ∧
    (0 ≤ n → (if n.toNat = 0 then 1 else n.toNat) ≤ maxN →
      (∀ p, p.Prime → start < p → p ≤ umax → primeCnt (start + 1) p = (if n.toNat = 0 then 1 else n.toNat) →
        nthPrime (coreEnvTo fl batch l1raw kib (2 ^ 50)) nf primeCnt n start = .ok p) ∧
      (primeCnt (start + 1) umax < (if n.toNat = 0 then 1 else n.toNat) →
        nthPrime (coreEnvTo fl batch l1raw kib (2 ^ 50)) nf primeCnt n start = .error (.iter .ps))) ∧
    (n < 0 → (n.natAbs ≥ start ∨ n.natAbs > maxN) → nthPrime (coreEnvTo fl batch l1raw kib (2 ^ 50)) nf primeCnt n start = .error .absTooLarge) ∧
    (n < 0 → n.natAbs < start → n.natAbs ≤ maxN →
      (∀ q, q.Prime → q < start → primeCnt q (start - 1) = n.natAbs → nthPrime (coreEnvTo fl batch l1raw kib (2 ^ 50)) nf primeCnt n start = .ok q) ∧
      (primeCnt 0 (start - 1) < n.natAbs → nthPrime (coreEnvTo fl batch l1raw kib (2 ^ 50)) nf primeCnt n start = .error .below2)) :=
  C18.nth_prime_correct _ (coreEnv50_genSpec fl batch l1raw kib hk hk2) nf hna n start hs

/-- `n ≥ 0`, totality over the real core -/
theorem nth_prime_pos_total_closed (fl : Floats) (batch : ℕ → ℕ) (l1raw kib : ℕ) (hfl : CoreFloatOk l1raw kib) (hk : 16 ≤ kib) (hk2 : kib ≤ 8192)
    (nf : NthFloats) (hna : ∀ x, nf.nthApprox x ≤ umax) (n0 start0 : ℕ) (hs : start0 ≤ umax)
    (hn : (if n0 = 0 then 1 else n0) ≤ maxN) :
    (∃ p, p.Prime ∧ start0 < p ∧ p ≤ umax ∧ primeCnt (start0 + 1) p = (if n0 = 0 then 1 else n0) ∧
      nthPrimePos (coreEnv fl batch l1raw kib) nf primeCnt n0 start0 = .ok p) ∨
    ((∀ p, p.Prime → start0 < p → p ≤ umax → primeCnt (start0 + 1) p ≠ (if n0 = 0 then 1 else n0)) ∧
      nthPrimePos (coreEnv fl batch l1raw kib) nf primeCnt n0 start0 = .error (.iter .ps)) :=
  C18.nth_prime_pos_total _ (coreEnv_genSpec fl batch l1raw kib hfl hk hk2) nf hna n0 start0 hs hn

/-- `nth_prime_pos_total_closed` (real core below 2^50: no float hypothesis) -/
theorem nth_prime_pos_total_closed_50 (fl : Floats) (batch : ℕ → ℕ) (l1raw kib : ℕ) (hk : 16 ≤ kib) (hk2 : kib ≤ 8192)
    (nf : NthFloats) (hna : ∀ x, nf.nthApprox x ≤ umax) (n0 start0 : ℕ) (hs : start0 ≤ umax)
    (hn : (if n0 = 0 then 1 else n0) ≤ maxN) :
    (∃ p, p.Prime ∧ start0 < p ∧ p ≤ umax ∧ primeCnt (start0 + 1) p = (if n0 = 0 then 1 else n0) ∧
      nthPrimePos (coreEnvTo fl batch l1raw kib (2 ^ 50)) nf primeCnt n0 start0 = .ok p) ∨
    ((∀ p, p.Prime → start0 < p → p ≤ umax → primeCnt (start0 + 1) p ≠ (if n0 = 0 then 1 else n0)) ∧
      nthPrimePos (coreEnvTo fl batch l1raw kib (2 ^ 50)) nf primeCnt n0 start0 = .error (.iter .ps)) :=
  C18.nth_prime_pos_total _ (coreEnv50_genSpec fl batch l1raw kib hk hk2) nf hna n0 start0 hs hn

/-- `n < 0`, totality over the real core (no hypothesis on any float of nthPrime.cpp) -/
theorem nth_prime_neg_total_closed (fl : Floats) (batch : ℕ → ℕ) (l1raw kib : ℕ) (hfl : CoreFloatOk l1raw kib) (hk : 16 ≤ kib) (hk2 : kib ≤ 8192)
    (nf : NthFloats) (m start0 : ℕ) (hs : start0 ≤ umax) (hm1 : 1 ≤ m) (hm : m < start0) (hmN : m ≤ maxN) :
    (∃ q, q.Prime ∧ q < start0 ∧ primeCnt q (start0 - 1) = m ∧ nthPrimeNeg (coreEnv fl batch l1raw kib) nf primeCnt m start0 = .ok q) ∨
    ((∀ q, q.Prime → q < start0 → primeCnt q (start0 - 1) ≠ m) ∧ nthPrimeNeg (coreEnv fl batch l1raw kib) nf primeCnt m start0 = .error .below2) :=
  C18.nth_prime_neg_total _ (coreEnv_genSpec fl batch l1raw kib hfl hk hk2) nf m start0 hs hm1 hm hmN

/-- `nth_prime_neg_total_closed` (real core below 2^50: no float hypothesis) -/
theorem nth_prime_neg_total_closed_50 (fl : Floats) (batch : ℕ → ℕ) (l1raw kib : ℕ) (hk : 16 ≤ kib) (hk2 : kib ≤ 8192)
    (nf : NthFloats) (m start0 : ℕ) (hs : start0 ≤ umax) (hm1 : 1 ≤ m) (hm : m < start0) (hmN : m ≤ maxN) :
    (∃ q, q.Prime ∧ q < start0 ∧ primeCnt q (start0 - 1) = m ∧ nthPrimeNeg (coreEnvTo fl batch l1raw kib (2 ^ 50)) nf primeCnt m start0 = .ok q) ∨
    ((∀ q, q.Prime → q < start0 → primeCnt q (start0 - 1) ≠ m) ∧ nthPrimeNeg (coreEnvTo fl batch l1raw kib (2 ^ 50)) nf primeCnt m start0 = .error .below2) :=
  C18.nth_prime_neg_total _ (coreEnv50_genSpec fl batch l1raw kib hk hk2) nf m start0 hs hm1 hm hmN

/-! ### the counting path (`count_primes` through `ParallelSieve::sieve()`) and the table path of `PrimeGenerator` -/

/-- **`parallel_count_primes` over the real counting core**: `CoreCounts` is a theorem (WP core2 `count_contract`) for
    `countCoreTo l1raw kib (2^64)`, which IS the popcount sum of `CountPrintPrimes` over all segments (`countCore`, the `big` summand of
    `Pc.PsCore.countPrimes`) on the whole `uint64_t` domain; hence `PrimeSieve::sieve()` counts the primes of `[s, e]`, and the
    multi-threaded sum is the number of primes of `[start, stop]` for EVERY thread count and `isqrt` outcome, `stop < 2^64-1` -/
theorem parallel_count_primes_closed (l1raw kib : ℕ) (hfl : CountFloatOk l1raw kib) (hk : 16 ≤ kib) (hk2 : kib ≤ 8192) :
    (∀ s e, e < 2 ^ 64 → countCoreTo l1raw kib (2 ^ 64) s e = countCore l1raw kib s e) ∧
    (∀ s e, sieveCount (countCoreTo l1raw kib (2 ^ 64)) s e = primeCnt s e) ∧
    ∀ isq start stop numThreads, stop < umax →
      parCount (sieveCount (countCoreTo l1raw kib (2 ^ 64))) isq start stop numThreads = primeCnt start stop :=
  ⟨fun s e he => by unfold countCoreTo; rw [if_pos he],
   (C18.parallel_count_primes _ (countCore64_coreCounts l1raw kib hfl hk hk2)).1,
   (C18.parallel_count_primes _ (countCore64_coreCounts l1raw kib hfl hk hk2)).2⟩

/-- … with the real counting core used below 2^50: no float hypothesis -/
theorem parallel_count_primes_closed_50 (l1raw kib : ℕ) (hk : 16 ≤ kib) (hk2 : kib ≤ 8192) :
    (∀ s e, e < 2 ^ 50 → countCoreTo l1raw kib (2 ^ 50) s e = countCore l1raw kib s e) ∧
    (∀ s e, sieveCount (countCoreTo l1raw kib (2 ^ 50)) s e = primeCnt s e) ∧
    ∀ isq start stop numThreads, stop < umax →
      parCount (sieveCount (countCoreTo l1raw kib (2 ^ 50))) isq start stop numThreads = primeCnt start stop :=
  ⟨fun s e he => by unfold countCoreTo; rw [if_pos he],
   (C18.parallel_count_primes _ (countCore50_coreCounts l1raw kib hk hk2)).1,
   (C18.parallel_count_primes _ (countCore50_coreCounts l1raw kib hk hk2)).2⟩

/-- the two models of single-threaded `PrimeSieve::countPrimes` agree on the `uint64_t` domain: WP iter2's `It.sieveCount` (small-primes
    tuplet table + core) over the counting core returns what WP core's `Pc.PsCore.countPrimes` returns -/
theorem count_models_agree (l1raw kib s e : ℕ) (he : e < 2 ^ 64) (hfl : CountFloatOk l1raw kib) (hk : 16 ≤ kib) (hk2 : kib ≤ 8192) :
    sieveCount (countCoreTo l1raw kib (2 ^ 64)) s e = countPrimes (preTabsDecoded ()) l1raw s e kib :=
  sieveCount_countCore_eq l1raw kib s e he hk hk2 hfl

/-- **`prime_generator_table_path` over the real core**: WP iter2's model of `PrimeGenerator::initNextPrimes / initErat` (`pgPrimes`:
    `smallPrimes[getStartIdx() .. getStopIdx())` + the core for `[max(start, 721), stop]`) with the core := WP core's `generatePrimes` itself
    lists exactly the primes of `[start, stop]`, every `start`, every `stop ≤ 2^64-1` -/
theorem prime_generator_table_path_closed (l1raw kib : ℕ) (hfl : CoreFloatOk l1raw kib) (hk : 16 ≤ kib) (hk2 : kib ≤ 8192)
    (start stop : ℕ) (hstop : stop ≤ umax) :
    PrimesIn (pgPrimes (fun a b => generatePrimes (preTabsDecoded ()) l1raw a b kib) start stop) start stop :=
  pgPrimes_coreTo l1raw kib (2 ^ 64) start stop (le_refl _) hfl hk hk2 (by unfold umax at hstop; omega)

/-- … for `stop < 2^50` with no float hypothesis -/
theorem prime_generator_table_path_closed_50 (l1raw kib : ℕ) (hk : 16 ≤ kib) (hk2 : kib ≤ 8192) (start stop : ℕ)
    (hstop : stop < 2 ^ 50) :
    PrimesIn (pgPrimes (fun a b => generatePrimes (preTabsDecoded ()) l1raw a b kib) start stop) start stop :=
  pgPrimes_coreTo l1raw kib (2 ^ 50) start stop (by norm_num)
    (fun a b hb => floatOk_window_below_2_50 l1raw kib a b hk hk2 hb) hk hk2 hstop

/-- the two models of the table path agree: `pgPrimes` (WP iter2) over `generatePrimes` returns what `generatePrimes` (WP core, which
    contains its own copy of the table path) returns for `[start, stop]` -/
theorem table_path_models_agree (l1raw kib : ℕ) (hfl : CoreFloatOk l1raw kib) (hk : 16 ≤ kib) (hk2 : kib ≤ 8192)
    (start stop : ℕ) (hstop : stop ≤ umax) :
    pgPrimes (fun a b => generatePrimes (preTabsDecoded ()) l1raw a b kib) start stop =
      generatePrimes (preTabsDecoded ()) l1raw start stop kib :=
  (prime_generator_table_path_closed l1raw kib hfl hk hk2 start stop hstop).uniqueC2
    (generatePrimes_primesIn l1raw start stop kib (by unfold umax at hstop; omega) hk hk2
      (hfl start stop (by unfold umax at hstop; omega)))

/-- `nthPrime.cpp`'s `countPrimes(a, b)` calls, with the REAL multi-threaded count over the real counting core (any thread count `t`, any
    `isqrt` outcome `isq b`) in place of the exact count `primeCnt` of `nth_prime_correct_closed`: the same result, for every iterator
    environment `e`. The count is the real one for every `b < 2^64-1`; `b = 2^64-1` (reached when `nthPrimeApprox` saturates) is the
    documented gap of `parallel_count_total` (`align(start) + 1` wraps) and is answered by the exact count here. -/
theorem nth_prime_real_count (e : Env) (l1raw kib : ℕ) (hfl : CountFloatOk l1raw kib) (hk : 16 ≤ kib) (hk2 : kib ≤ 8192)
    (isq : ℕ → ℕ) (t : ℕ) (nf : NthFloats) (n : ℤ) (start : ℕ) :
    nthPrime e nf (fun a b => if b < umax then parCount (sieveCount (countCoreTo l1raw kib (2 ^ 64))) (isq b) a b t
      else primeCnt a b) n start = nthPrime e nf primeCnt n start := by
  have h : (fun a b => if b < umax then parCount (sieveCount (countCoreTo l1raw kib (2 ^ 64))) (isq b) a b t
      else primeCnt a b) = primeCnt := by
    funext a b
    by_cases hb : b < umax
    · rw [if_pos hb]; exact (parallel_count_primes_closed l1raw kib hfl hk hk2).2.2 (isq b) a b t hb
    · rw [if_neg hb]
  rw [h]

/-! ### non-vacuity (tests, labelled as such): the `_50` forms have no hypothesis but the sieve-size range — instantiated at 256 KiB,
    32 KiB L1, batches of 2 / 64, all iterator floats 0. The sieving core is NOT kernel-evaluated: concrete outputs are DERIVED through
    the theorems (real core = abstract cursor = reference core, the latter evaluated). -/

example : GenSpec (coreEnvTo ⟨fun _ => 0, fun _ => 0, fun _ => 0, fun _ => 0⟩ (fun _ => 64) 32768 256 (2 ^ 50)) :=
  coreEnv50_genSpec _ _ 32768 256 (by norm_num) (by norm_num)
/-- the float assumptions restricted to the windows below 2^50 are theorems -/
example (a b : ℕ) (hb : b < 2 ^ 50) : FloatOk 32768 (max 721 a) b 256 :=
  floatOk_window_below_2_50 32768 256 a b (by norm_num) (by norm_num) hb
example (a b : ℕ) (hb : b < 2 ^ 50) : FloatOk 32768 (max a 7) b 256 :=
  floatOk_count_below_2_50 32768 256 a b (by norm_num) (by norm_num) hb
/-- a mixed history with a jump over the REAL core model: its output, by `history_correct_closed_50` (= abstract cursor) and
    `C18.history_correct` for the reference core (= abstract cursor), whose run the kernel evaluates -/
example : run (coreEnvTo ⟨fun _ => 0, fun _ => 0, fun _ => 0, fun _ => 0⟩ (fun _ => 2) 32768 256 (2 ^ 50)) (init 10 0)
    [.next, .prev, .prev, .jump 3 0, .prev, .prev, .prev, .next] = ([11, 7, 5, 3, 2, 0, 2], none) := by
  have hv : ∀ op ∈ [Op.next, .prev, .prev, .jump 3 0, .prev, .prev, .prev, .next], op.valid := by
    intro op hop
    simp only [List.mem_cons, List.not_mem_nil, or_false] at hop
    rcases hop with rfl | rfl | rfl | rfl | rfl | rfl | rfl | rfl <;> trivial
  rw [history_correct_closed_50 _ _ 32768 256 (by norm_num) (by norm_num) 10 0 (by decide) (by decide) _ hv,
    ← C18.history_correct (refEnv ⟨fun _ => 0, fun _ => 0, fun _ => 0, fun _ => 0⟩ (fun _ => 2)) (refEnv_spec _ _) 10 0
      (by decide) (by decide) _ hv]
  decide +kernel
/-- `store_primes(10, 30)` over the real core -/
example : ∃ l, storePrimes (coreEnvTo ⟨fun _ => 0, fun _ => 0, fun _ => 0, fun _ => 0⟩ (fun _ => 64) 32768 256 (2 ^ 50)) umax 10 30
    = .ok l ∧ PrimesIn l 10 30 :=
  store_primes_correct_two63_closed_50 _ _ 32768 256 (by norm_num) (by norm_num) umax 10 30 (by decide) (by decide) (by norm_num)
/-- `store_n_primes(3, 10)` over the real core: witness list `refPrimes 10 17` -/
example : ∃ r Lr, storeNPrimes (coreEnvTo ⟨fun _ => 0, fun _ => 0, fun _ => 0, fun _ => 0⟩ (fun _ => 64) 32768 256 (2 ^ 50)) umax 3 10 5
    = .ok r ∧ r.length = 3 ∧ r.getLast? = some Lr ∧ PrimesIn r 10 Lr :=
  store_n_primes_correct_closed_50 _ _ 32768 256 (by norm_num) (by norm_num) umax 3 10 5 (by decide) (by decide)
    (refPrimes 10 17) 17 (refPrimes_spec 10 17) (by decide +kernel) (by decide) (by decide) (by decide +kernel)
/-- the 5th prime above 10 over the real core is 23, whatever the approximations of nthPrime.cpp say -/
example (fl : Floats) (batch : ℕ → ℕ) (nf : NthFloats) (hna : ∀ x, nf.nthApprox x ≤ umax) :
    nthPrime (coreEnvTo fl batch 32768 256 (2 ^ 50)) nf primeCnt 5 10 = .ok 23 :=
  ((nth_prime_correct_closed_50 fl batch 32768 256 (by norm_num) (by norm_num) nf hna 5 10 (by decide)).2.1 (by decide)
    (by decide)).1 23 (by norm_num) (by decide) (by decide) (by decide)
/-- the counting core contract, and a count derived through it: `count_primes(3, 30) = 9` for the real counting core -/
example : CoreCounts (countCoreTo 32768 256 (2 ^ 50)) := countCore50_coreCounts 32768 256 (by norm_num) (by norm_num)
example : sieveCount (countCoreTo 32768 256 (2 ^ 50)) 3 30 = 9 := by
  rw [(parallel_count_primes_closed_50 32768 256 (by norm_num) (by norm_num)).2.1]; decide
/-- the table path over `generatePrimes` at the seam 719 / 721 -/
example : PrimesIn (pgPrimes (fun a b => generatePrimes (preTabsDecoded ()) 32768 a b 256) 700 1000) 700 1000 :=
  prime_generator_table_path_closed_50 32768 256 (by norm_num) (by norm_num) 700 1000 (by norm_num)

end Pc.C18ClosedHist

#print axioms Pc.C18ClosedHist.history_correct_closed
#print axioms Pc.C18ClosedHist.history_correct_closed_50
#print axioms Pc.C18ClosedHist.ops_refine_cursor_closed
#print axioms Pc.C18ClosedHist.ops_refine_cursor_closed_50
#print axioms Pc.C18ClosedHist.next_yields_primes_ge_start_closed
#print axioms Pc.C18ClosedHist.next_yields_primes_ge_start_closed_50
#print axioms Pc.C18ClosedHist.prev_yields_primes_le_start_closed
#print axioms Pc.C18ClosedHist.prev_yields_primes_le_start_closed_50
#print axioms Pc.C18ClosedHist.buffer_contract_closed
#print axioms Pc.C18ClosedHist.buffer_contract_closed_50
#print axioms Pc.C18ClosedHist.buffer_contract_batches_closed
#print axioms Pc.C18ClosedHist.buffer_contract_batches_closed_50
#print axioms Pc.C18ClosedHist.store_primes_correct_closed
#print axioms Pc.C18ClosedHist.store_primes_correct_closed_50
#print axioms Pc.C18ClosedHist.store_primes_correct_two63_closed
#print axioms Pc.C18ClosedHist.store_primes_correct_two63_closed_50
#print axioms Pc.C18ClosedHist.store_n_primes_correct_closed
#print axioms Pc.C18ClosedHist.store_n_primes_correct_closed_50
#print axioms Pc.C18ClosedHist.iter_satisfies_IterSpec_closed
#print axioms Pc.C18ClosedHist.iter_satisfies_IterSpec_closed_50
#print axioms Pc.C18ClosedHist.iter_satisfies_IterSpec_two63_closed
#print axioms Pc.C18ClosedHist.iter_satisfies_IterSpec_two63_closed_50
#print axioms Pc.C18ClosedHist.nth_prime_correct_closed
#print axioms Pc.C18ClosedHist.nth_prime_correct_closed_50
#print axioms Pc.C18ClosedHist.nth_prime_pos_total_closed
#print axioms Pc.C18ClosedHist.nth_prime_pos_total_closed_50
#print axioms Pc.C18ClosedHist.nth_prime_neg_total_closed
#print axioms Pc.C18ClosedHist.nth_prime_neg_total_closed_50
#print axioms Pc.C18ClosedHist.parallel_count_primes_closed
#print axioms Pc.C18ClosedHist.parallel_count_primes_closed_50
#print axioms Pc.C18ClosedHist.count_models_agree
#print axioms Pc.C18ClosedHist.prime_generator_table_path_closed
#print axioms Pc.C18ClosedHist.prime_generator_table_path_closed_50
#print axioms Pc.C18ClosedHist.table_path_models_agree
#print axioms Pc.C18ClosedHist.nth_prime_real_count
