/-
C07 (closed) — `phi(x, a, threads)` of src/phi.cpp AS `pi_legendre` / `pi_meissel` CALL IT (`a = π(√x)`, `a = π(x^(1/3))`, in general
`a ≤ π(√x)`) is the Legendre sum, with NO hypothesis about `pi_noprint`: the two returns through `phi_pix` — the only places where
phi.cpp calls `pi_noprint(x)` — require `a > π(√x)` and are unreachable.  This discharges `PhiContract` (C01 / C02 top) by the L2 model.
Remaining, by name (all in `CallRunOK`):
  * `CallOK.pixUpperX`     the guard `a >= pix_upper(x)` is right (literature: π(x) ≤ pix_upper(x)) or not taken (a < pix_upper(x)),
  * `CallOK.pixUpperSqrt`  the guard `a > pix_upper(√x)` is not taken; PROVED for the real `pix_upper` when √x ≤ 30719 (`callOK_realTop`),
  * `CallOK.prime0/prime`  the vector `generate_n_primes(a)` (C18 models it; no theorem for `storeNPrimes` yet),
  * `CallOK.piTab`, `tiny` PROVED for the real `PiTable(√x, threads)` over a generator meeting `PrimeGenSpec` and the real PhiTiny tables,
  * `CallRunOK.order`      the OpenMP reduction adds each loop index once (any order),
  * `CallRunOK.cache`      `CacheValOK`: the sieve arrays written by `init_cache` (NOT modelled: `PhiCacheL1.val` is abstract) hold phi(y, b)
                           where `is_cached` permits a lookup; the state half (`max_a_cached_ ≤ max_a_`) is proved for the fresh object and
                           preserved by the model; caches that are disabled (`max_a_ ≤ 8`: every call with a ≤ 38 or with
                           `(uint64_t) pow(x, 1/2.3) ≤ 1680`, i.e. x ≤ 2.6·10^7 — the whole pi_legendre range) need nothing.
Only property theorems, non-vacuity examples and the axiom audit live here.
-/
import PcProofs.ClosePhiEx

namespace Pc.C07Closed
open Pc.Spec Pc.PhiAlgProofs Pc.ClosePhi Pc.Top
open scoped Nat.Prime

/-- **what is true of the `phi_pix` guards**: a return through `phi_pix(x, a)` (= a call of `pi_noprint(x)`) happens only for
    `a > π(√x)`, given the guard inequality at `√x` and a right `PiTable` entry `pi[√x]` -/
theorem phiPix_guard_imp (P : PhiTop) (x a : ℤ)
    (hup : π (Nat.sqrt x.toNat) ≤ P.pixUpper (Nat.sqrt x.toNat))
    (htab : P.piTab (Nat.sqrt x.toNat) = π (Nat.sqrt x.toNat))
    (hg : phiGuards P x a = .phiPix1 ∨ phiGuards P x a = .phiPix2) : π (Nat.sqrt x.toNat) < a.toNat :=
  Pc.ClosePhi.phiPix_guard_imp P x a hup htab hg

/-- at a call with `a ≤ π(√x)` neither `phi_pix` return is reachable: `pi_noprint` is not called -/
theorem no_phiPix_at_call (P : PhiTop) (x a : ℕ) (h : CallOK P x a) (ha : a ≤ π (Nat.sqrt x)) :
    ¬ (phiGuards P (x : ℤ) (a : ℤ) = .phiPix1 ∨ phiGuards P (x : ℤ) (a : ℤ) = .phiPix2) :=
  h.no_phiPix ha

/-- **`phi_OpenMP(x, a)` for `a ≤ π(√x)` is the Legendre sum** for every reduction order and every assignment of valid caches
    to the loop indices `9..a` — whatever `pi_noprint` (`P.piFn`) returns -/
theorem phiOpenMP_call (P : PhiTop) (x a : ℕ) (hP : CallOK P x a) (ha : a ≤ π (Nat.sqrt x))
    (order : List ℕ) (horder : order.Perm (List.range' 9 (a - 8)))
    (sched : ℕ → PhiCacheL1 × ℕ) (hsched : ∀ i, 9 ≤ i → i ≤ a → CacheOK (sched i)) :
    phiOpenMP P order sched (x : ℤ) (a : ℤ) = (phi x a : ℤ) :=
  Pc.ClosePhi.phiOpenMP_call P x a hP ha order horder sched hsched

/-- the same for `phi` as a function of naturals (the shape `P2L.piLegendre` / `piMeissel` / `piApi64` take) -/
theorem phiReal_eq (P : ℕ → ℕ → PhiTop) (order : ℕ → ℕ → List ℕ) (sched : ℕ → ℕ → ℕ → PhiCacheL1 × ℕ) (x a : ℕ)
    (h : CallRunOK (P x a) (order x a) (sched x a) x a) (ha : a ≤ π (Nat.sqrt x)) :
    phiReal P order sched x a = phi x a :=
  Pc.ClosePhi.phiReal_eq P order sched x a h ha

/-- **`PhiContract` discharged by the L2 model of phi.cpp** -/
theorem phiContract_of_model (P : ℕ → ℕ → PhiTop) (order : ℕ → ℕ → List ℕ) (sched : ℕ → ℕ → ℕ → PhiCacheL1 × ℕ) (x : ℕ)
    (hL : CallRunOK (P x (π (Nat.sqrt x))) (order x (π (Nat.sqrt x))) (sched x (π (Nat.sqrt x))) x (π (Nat.sqrt x)))
    (hM : CallRunOK (P x (π (irootN 3 x))) (order x (π (irootN 3 x))) (sched x (π (irootN 3 x))) x (π (irootN 3 x))) :
    PhiContract (phiReal P order sched) x :=
  Pc.ClosePhi.phiContract_of_model P order sched x hL hM

/-- **the table contracts for the tables the real code builds**: real PhiTiny tables, real `PiTable(√x, threads)` constructor over any
    generator meeting `PrimeGenSpec` (C18), real table branch of `pix_upper`; what is left is the prime vector and the double formula
    `f` of `pix_upper` above 30719 -/
theorem callOK_realTop (gen : PrimeGen) (hg : PrimeGenSpec gen) (threads : ℤ) (f piFn prime : ℕ → ℕ) (x a : ℕ)
    (ha : a ≤ π (Nat.sqrt x))
    (hfx : 30719 < x → π x ≤ f x ∨ a < f x) (hfs : 30719 < Nat.sqrt x → a ≤ f (Nat.sqrt x))
    (hp0 : prime 0 = 0) (hp : ∀ i, 1 ≤ i → i ≤ a → prime i = p i) :
    CallOK (realTop gen threads f piFn prime (Nat.sqrt x)) x a :=
  Pc.ClosePhi.callOK_realTop gen hg threads f piFn prime x a ha hfx hfs hp0 hp

/-- cache, state half: a fresh `PhiCache` (`max_a_cached_ = 0`) is legal as soon as its arrays are right -/
theorem cacheOK_initial (c : PhiCacheL1) (h : CacheValOK c) : CacheOK (c, 0) := Pc.ClosePhi.cacheOK_initial h

/-- cache: an object that does not cache needs no hypothesis -/
theorem cacheOK_noCache (c : PhiCacheL1) (h : c.maxA ≤ 8) : CacheOK (c, 0) := Pc.ClosePhi.cacheOK_noCache c h

/-- the constructor disables the cache for every call with `a ≤ 38` -/
theorem phiCacheGeometry_small (a powEst : ℕ) (ha : a ≤ 38) : phiCacheGeometry a powEst = (0, 0) :=
  Pc.ClosePhi.phiCacheGeometry_small a powEst ha

/-- … and whenever the estimate `(uint64_t) std::pow(x, 1 / 2.3)` is at most 1680 (`max_x_size_ < 8`) -/
theorem phiCacheGeometry_lowPow (a powEst : ℕ) (h : powEst ≤ 1680) : phiCacheGeometry a powEst = (0, 0) :=
  Pc.ClosePhi.phiCacheGeometry_lowPow a powEst h

/-- cache: a fresh object with the constructor's geometry needs no hypothesis in these two cases -/
theorem cacheOK_of_geometry (c : PhiCacheL1) (a powEst : ℕ) (hc : (c.maxX, c.maxA) = phiCacheGeometry a powEst)
    (h : a ≤ 38 ∨ powEst ≤ 1680) : CacheOK (c, 0) :=
  Pc.ClosePhi.cacheOK_of_geometry c a powEst hc h

/-- cache: the states the model's own updates reach stay legal -/
theorem cacheOK_step (E : PhiEnv) (A : ℕ) (hE : EnvOK E A) (fuel : ℕ) (sign : ℤ) (x a mac : ℕ) (hf : a < fuel) (ha : a < A)
    (hx : 1 ≤ x) (h : CacheOK (E.cache, mac)) : CacheOK (E.cache, (phiRecAlg E fuel sign x a mac).2) :=
  Pc.ClosePhi.cacheOK_step hE fuel sign x a mac hf ha hx h

/-! non-vacuity (tests, labelled as such) -/

/-- ideal tables, fresh ideal caches of the real geometry, a `pi_noprint` that is wrong everywhere: `CallRunOK` holds for every call -/
example (x a : ℕ) (ha : a ≤ π (Nat.sqrt x)) :
    CallRunOK idealTop (List.range' 9 (a - 8)) (fun _ => (idealCache, 0)) x a := ideal_callRunOK x a ha
example : CacheValOK idealCache := idealCache_valOK
example (x a : ℕ) (ha : a ≤ π (Nat.sqrt x)) : CallOK idealTop x a := idealTop_callOK x a ha

/-- a CONCRETE call on the real tables with every hypothesis proved: `phi(10000, 25)`, reversed reduction order, no cache -/
example : CallRunOK exRealTop (List.range' 9 (25 - 8)).reverse (fun _ => exNoCache) 10000 25 := ex_callRunOK
example : phiGuards exRealTop 10000 25 = .main := ex_guard
/-- … and the kernel-evaluated model agrees with the theorem: φ(10000, 25) = 1205 = π(10000) − 25 + 1 -/
example : phi 10000 25 = 1205 := by
  rw [← phiReal_eq (fun _ _ => exRealTop) (fun _ a => (List.range' 9 (a - 8)).reverse) (fun _ _ _ => exNoCache) 10000 25
    ex_callRunOK (by rw [sqrt_10000, pi_100])]
  exact ex_eval

end Pc.C07Closed

#print axioms Pc.C07Closed.phiPix_guard_imp
#print axioms Pc.C07Closed.no_phiPix_at_call
#print axioms Pc.C07Closed.phiOpenMP_call
#print axioms Pc.C07Closed.phiReal_eq
#print axioms Pc.C07Closed.phiContract_of_model
#print axioms Pc.C07Closed.callOK_realTop
#print axioms Pc.C07Closed.cacheOK_initial
#print axioms Pc.C07Closed.cacheOK_noCache
#print axioms Pc.C07Closed.phiCacheGeometry_small
#print axioms Pc.C07Closed.phiCacheGeometry_lowPow
#print axioms Pc.C07Closed.cacheOK_of_geometry
#print axioms Pc.C07Closed.cacheOK_step
