/-
C02 / C01 (WP close2, item 4): `pi_gourdon_64/128` = π(x) BELOW 2401, where `get_k(x) < 4`.

The restriction `x < 2 ∨ 2401 ≤ x` of `piGourdon_eq_pi` (PcProps/C02Closed.lean) / `pi_gourdon_eq_pi`, `pi_gourdon_64_eq_pi`
(PcProps/C01Closed.lean) came from `d_chunk_eq` (D by its real control flow), which needs `4 ≤ k`: `class Sieve` has 2, 3, 5 built in and
FactorTableD only holds numbers coprime to 2·3·5·7·11.  Here it is reduced to `x < 2 ∨ 16 ≤ x`:

* for `x < 20^4`, `get_k(x) = π(x^(1/4))`, so every level `b > k` has `p_b⁴ > x`, i.e. `x / p_b³ < p_b`: no D leaf (`Spec.D = 0`);
* the REAL control flow of `D_thread` (D.cpp:55-171) then returns 0 for every work item and ANY `k`: either `min_b > max_b`, or the segment loop
  is entered and the loop head of its first level `b = min_b` takes `goto next_segment` in every segment (D.cpp:110-111 / 149-150) — before
  `sieve.count`, `factor.is_leaf` or `cross_off_count` are reached (`d_thread_noleaf`: no Sieve / FactorTableD contract is used at all);
* the ordering facts `x^(1/3) < y < √x`, `y ≤ z < √x` and those of `x⋆` hold from `x = 16` on (C12 stated them from 64 on): `gourdon_order_ge16`.

STILL MISSING (hence `_partial`): `2 ≤ x ≤ 15`.  There `√x − 1 ≤ x^(1/3)`: the clamps of pi_gourdon.cpp give `y = z = max(√x − 1, 1) ≤ x^(1/3)`,
Gourdon's identity (`Spec.GParams.pi_gourdon`) does not apply and the hypotheses of `sigma_eq` / `acEntry_eq` fail; the 14 arguments are covered by
the correspondence streams only.  Only property theorems, non-vacuity examples and the axiom audit live here.
-/
import PcProofs.Close2SmallEx

namespace Pc.C02ClosedSmall
open Pc.Top Pc.Hard Pc.Close Nat PcGen.ApiConst
open scoped Nat.Prime

/-- **`d_thread_noleaf`** — the chunk theorem of `D_thread` with NO restriction on `k`: if no level above `k` can have a leaf
    (`x / p_b³ < p_b`), then for every work item `(low, segments, segment_size)` with `low < xz`, sizes `≥ 1`, over tables that hold what
    `D_OpenMP` builds (`EnvOK`), the model of the real control flow returns 0 — the sum of the (no) leaves of the window — with no
    out-of-bounds read; the `Sieve` object and FactorTableD are arbitrary. -/
theorem d_thread_noleaf {σ : Type} {S : SieveOps σ} {e : Env} {x xs xz y z k low segments segSize : ℕ}
    (hE : EnvOK e y) (hyz : y ≤ z) (hsz : Nat.sqrt z ≤ y) (hxs : xs ≤ y)
    (hnl : ∀ b, k < b → x / (Spec.p b * Spec.p b * Spec.p b) < Spec.p b)
    (hsize : 1 ≤ segSize) (hsegs : 1 ≤ segments) (hlow : low < xz) :
    dThread S e x xs xz y z k low segments segSize = .ok 0 ∧
      (∑ b ∈ Finset.Ioc k (π xs), WSD x y z b low (chunkLimit low segments segSize xz)) = 0 := by
  have h := dThread_eq_noleaf (S := S) hE hyz hsz hxs hnl hsize hsegs hlow
  have h0 : (∑ b ∈ Finset.Ioc k (π xs), WSD x y z b low (chunkLimit low segments segSize xz)) = 0 :=
    Finset.sum_eq_zero (fun b hb => WSD_zero_of_noleaf hyz (by rw [Finset.mem_Ioc] at hb; omega)
      (hnl b (by rw [Finset.mem_Ioc] at hb; exact hb.1)))
  exact ⟨by rw [h, h0], h0⟩

/-- the no-leaf hypothesis holds with `k = get_k(x)` for every `x < 20^4` (in particular `2 ≤ x < 2401`) -/
theorem no_d_leaf_below_20pow4 {x : ℕ} (hx : x < 160000) :
    ∀ b, getK x < b → x / (Spec.p b * Spec.p b * Spec.p b) < Spec.p b :=
  noleaf_of_r4 (getK_eq_pi_r4 hx)

/-- the ordering clause of `GourdonRange` (C12 has it for `x ≥ 64`) holds for every `x ≥ 16`, whatever the float products were -/
theorem gourdon_order_ge16 (wide : Bool) (x : ℕ) (threads : ℤ) (fo : GFloats) (hx : 16 ≤ x) :
    GOrder x (gOutPure wide x threads fo) :=
  gOrder_of_sixteen wide x threads fo hx

/-- **`piGourdon_small_eq_pi`** — `pi_gourdon_64/128(x)` for `16 ≤ x < 20^4 = 160000` (contains the range `16 ≤ x < 2401` excluded so far), generic
    tables `T`, no AC hook (`GExecC`): every term by the model of its real control flow, the result is π(x) (or `badRun` for a recorded D history
    that is not a run of the dispenser). -/
theorem piGourdon_small_eq_pi {σ : Type} (T : Tables σ) {B : ℕ} (hT : TablesOK T B) (pi : ℕ → ℕ) (wide : Bool) (n : ℕ)
    (hx : InType wide (n : ℤ)) (h16 : 16 ≤ n) (hlt : n < 160000) (threads : ℤ) (isPrint : Bool) (r : GRun)
    (hpi : ∀ m : ℕ, m < n → pi m = π m) (hex : GExecC T B wide n r) :
    piGourdon T pi wide (n : ℤ) threads isPrint r = .ok (π n : ℤ) ∨
      piGourdon T pi wide (n : ℤ) threads isPrint r = .error (.hard .badRun) :=
  piGourdon_small_closed T hT pi wide n hx h16 hlt threads isPrint r hpi hex

/-- **`piGourdon_eq_pi_all_partial`** — `piGourdon_eq_pi` (PcProps/C02Closed.lean; both widths, generic `T`, `GExecC`) with the domain restriction
    `x < 2 ∨ 2401 ≤ x` weakened to `x < 2 ∨ 16 ≤ x`.  MISSING for `_all`: `2 ≤ x ≤ 15` (degenerate clamps, see the header). -/
theorem piGourdon_eq_pi_all_partial {σ : Type} (T : Tables σ) {B : ℕ} (hT : TablesOK T B) (pi : ℕ → ℕ) (wide : Bool) (x : ℤ)
    (hx : InType wide x) (hsmall : x < 2 ∨ 16 ≤ x) (threads : ℤ) (isPrint : Bool) (r : GRun)
    (hpi : ∀ n : ℕ, (n : ℤ) < x → n < 2 ^ 63 → pi n = π n) (hex : 2 ≤ x → GExecC T B wide x.toNat r) :
    piGourdon T pi wide x threads isPrint r = .ok (π x.toNat : ℤ) ∨
      piGourdon T pi wide x threads isPrint r = .error (.hard .badRun) :=
  piGourdon_total_closed_ge16 T hT pi wide x hx hsmall threads isPrint r hpi hex

/-- **`pi_gourdon_eq_pi_all_partial`** — `pi_gourdon_eq_pi` (PcProps/C01Closed.lean: `pi_gourdon_64` / `pi_gourdon_128` over the world's real tables
    of its own instantiation, recursion through `pi_noprint` closed) with `x < 2 ∨ 16 ≤ x`.  MISSING for `_all`: `2 ≤ x ≤ 15`. -/
theorem pi_gourdon_eq_pi_all_partial (W : World) {B : ℕ} (h : W.OK B) (hB : B < 2 ^ 32) (c : Sieve.Cfg) (f : Sieve.StopFn) (pi : ℕ → ℕ)
    (wide : Bool) (x : ℤ) (hx : InType wide x) (hsmall : x < 2 ∨ 16 ≤ x) (threads : ℤ) (isPrint : Bool) (r : GRun)
    (hphi : ∀ n : ℕ, (n : ℤ) < x → maxCached < n → n ≤ meisselMax → W.PhiRunOK n)
    (hrec : W.NestedS c f B pi x)
    (hex : 2 ≤ x → GExecC (W.tablesS c f wide) B wide x.toNat r) :
    piGourdon (W.tablesS c f wide) pi wide x threads isPrint r = .ok (π x.toNat : ℤ) ∨
      piGourdon (W.tablesS c f wide) pi wide x threads isPrint r = .error (.hard .badRun) :=
  W.pi_gourdon_s_ge16 h hB c f pi wide x hx hsmall threads isPrint r hphi hrec hex

/-- **`pi_gourdon_64_eq_pi_all_partial`** — `pi_gourdon_64(x)` for every int64 `x` with `x < 2` or `x ≥ 16`.  MISSING for `_all`: `2 ≤ x ≤ 15`. -/
theorem pi_gourdon_64_eq_pi_all_partial (W : World) {B : ℕ} (h : W.OK B) (hB : B < 2 ^ 32) (c : Sieve.Cfg) (f : Sieve.StopFn) (pi : ℕ → ℕ)
    (x : ℤ) (hx : x < 2 ^ 63) (hsmall : x < 2 ∨ 16 ≤ x) (threads : ℤ) (isPrint : Bool) (r : GRun)
    (hphi : ∀ n : ℕ, (n : ℤ) < x → maxCached < n → n ≤ meisselMax → W.PhiRunOK n)
    (hrec : W.NestedS c f B pi x)
    (hex : 2 ≤ x → GExecC (W.tablesS c f false) B false x.toNat r) :
    piGourdon (W.tablesS c f false) pi false x threads isPrint r = .ok (π x.toNat : ℤ) ∨
      piGourdon (W.tablesS c f false) pi false x threads isPrint r = .error (.hard .badRun) :=
  W.pi_gourdon_s_ge16 h hB c f pi false x (by unfold InType; simpa using hx) hsmall threads isPrint r hphi hrec hex

/-! non-vacuity (tests, labelled as such): a complete execution of `pi_gourdon_64(2400)` — `k = 3 < 4`, and D_thread's segment loop IS entered -/

/-- the float envelope on the floats of `pi_gourdon_64(2400)` under `alpha_y = alpha_z = 1` -/
example : GourdonEnv 2400 1 1 exsGFloats := exsGEnv
/-- the derived parameters: `y = z = 14`, `k = 3` (below the 4 that `d_chunk_eq` needs) -/
example : gY 2400 exsGFloats.v = 14 ∧ gZ 2400 14 (exsGFloats.w 14) = 14 ∧ getK 2400 = 3 := ⟨exsGY, exsGZ, exsGK⟩
/-- the no-leaf hypothesis at its first level there: `b = 4`, `p_4 = 7`, `2400 / 343 = 6 < 7` -/
example : 2400 / (Spec.p 4 * Spec.p 4 * Spec.p 4) < Spec.p 4 := no_d_leaf_below_20pow4 (by norm_num) 4 (by rw [exsGK]; norm_num)
/-- a recorded valid run of B's region -/
example : exsBRun.valid LB.genConsts 2400 (2400 / max 14 1) = true := by decide
/-- a COMPLETE instance of the hypotheses at `x = 2400` over generic ideal tables, and the theorems applied to it (with the empty D history
    the model answers `badRun`; a recorded complete history gives the first disjunct) -/
example : GExecC (idealTables 3000) 100 false 2400 (exsGRun (idealTables 3000).t) :=
  exsGExecC_of _ rfl (by show 171 ≤ 3000; norm_num) (by show 3000 ≤ _; decide)
example := piGourdon_small_eq_pi (idealTables 3000) (idealTables_ok 3000 100) Nat.primeCounting false 2400
  (by unfold InType; norm_num) (by norm_num) (by norm_num) 1 false (exsGRun (idealTables 3000).t) (fun _ _ => rfl)
  (exsGExecC_of _ rfl (by show 171 ≤ 3000; norm_num) (by show 3000 ≤ _; decide))
example := piGourdon_eq_pi_all_partial (idealTables 3000) (idealTables_ok 3000 100) Nat.primeCounting false 2400
  (by unfold InType; norm_num) (Or.inr (by norm_num)) 1 false (exsGRun (idealTables 3000).t) (fun _ _ _ => rfl)
  (fun _ => exsGExecC_of _ rfl (by show 171 ≤ 3000; norm_num) (by show 3000 ≤ _; decide))
/-- … and over the world's real tables: NO hypothesis is left open -/
example (c : Sieve.Cfg) (f : Sieve.StopFn) :=
  pi_gourdon_64_eq_pi_all_partial exWorld exWorld_ok (by norm_num) c f Nat.primeCounting 2400 (by norm_num) (Or.inr (by norm_num)) 1 false
    (exsGRun (exWorld.tablesS c f false).t) (fun n _ _ _ => exWorld_phiRunOK n) (exWorld_nestedS_2400 c f) (fun _ => exsGExecC_worldS c f)
example (c : Sieve.Cfg) (f : Sieve.StopFn) :=
  pi_gourdon_eq_pi_all_partial exWorld exWorld_ok (by norm_num) c f Nat.primeCounting false 2400 (by unfold InType; norm_num)
    (Or.inr (by norm_num)) 1 false
    (exsGRun (exWorld.tablesS c f false).t) (fun n _ _ _ => exWorld_phiRunOK n) (exWorld_nestedS_2400 c f) (fun _ => exsGExecC_worldS c f)

end Pc.C02ClosedSmall

#print axioms Pc.C02ClosedSmall.d_thread_noleaf
#print axioms Pc.C02ClosedSmall.no_d_leaf_below_20pow4
#print axioms Pc.C02ClosedSmall.gourdon_order_ge16
#print axioms Pc.C02ClosedSmall.piGourdon_small_eq_pi
#print axioms Pc.C02ClosedSmall.piGourdon_eq_pi_all_partial
#print axioms Pc.C02ClosedSmall.pi_gourdon_eq_pi_all_partial
#print axioms Pc.C02ClosedSmall.pi_gourdon_64_eq_pi_all_partial
