/-
C05, closed (WP indep) — "pi(b) − pi(a) equals the number of primes in (a, b]" for the IMPLEMENTATION, as a COROLLARY of the closed end-to-end
theorem `pi_api_eq_pi` (PcProps/C01Closed.lean).  PcProps/C05.lean had this under the route hypotheses `RouteCorrect` ("every algorithm the
dispatcher chooses returns π"); those are now theorems about the models of the real control flow, so the statement is about two EXECUTIONS of
`pi(int128_t)` — on `a` and on `b`, in any two contexts (thread counts, tunings, schedules, worlds: PcProofs/Indep.lean `Ctx`), on either side of
`INT64_MAX` (`a` may take the 64-bit dispatcher with `uint16_t` factor tables and `b` the route through `pi_gourdon_128`), negative arguments included.

INHERITED HYPOTHESES, per execution: `Ctx.OK k x` and `Ctx.ApiExec k x r` — exactly those of `pi_api_eq_pi`, see PcProps/C03Closed.lean /
notes/wp-indep.md; the statements are about counts that ARE returned (`= .ok v`; the models answer `badRun` for a recorded D history that is
not a run of the dispenser).  `B < 2^32` restricts the 128-bit route to `y < 2^32` (x up to ≈ 8·10^28 under the default tuning).
Only property theorems, non-vacuity examples and the axiom audit live here.
-/
import PcProofs.IndepEx
import PcProofs.Api

namespace Pc.C05Closed
open Pc.Top Pc.Close Pc.Indep Nat PcGen.ApiConst
open scoped Nat.Prime

/-- **`pi(b) − pi(a)` = number of primes in `(a, b]`**, `a ≤ b`, both anywhere in the int128 range: the two calls are two independent
    executions (any contexts, any recorded runs) -/
theorem pi_increment_counts_primes (kₐ k_b : Ctx) (a b : ℤ) (hab : a ≤ b) (hb : b < 2 ^ 127) (rₐ r_b : ApiRun)
    (hₐ : kₐ.OK a) (h_b : k_b.OK b) (eₐ : kₐ.ApiExec a rₐ) (e_b : k_b.ApiExec b r_b)
    (va vb : ℤ) (hva : kₐ.piApi a rₐ = .ok va) (hvb : k_b.piApi b r_b = .ok vb) :
    vb - va = (((Finset.Ioc a.toNat b.toNat).filter Nat.Prime).card : ℤ) := by
  have ea : va = (π a.toNat : ℤ) := by
    rcases kₐ.piApi_total a (by omega) rₐ hₐ eₐ with h | h
    · cases h.symm.trans hva; rfl
    · cases h.symm.trans hva
  have eb : vb = (π b.toNat : ℤ) := by
    rcases k_b.piApi_total b hb r_b h_b e_b with h | h
    · cases h.symm.trans hvb; rfl
    · cases h.symm.trans hvb
  have hle : a.toNat ≤ b.toNat := Int.toNat_le_toNat hab
  rw [ea, eb, ← Pc.PiApi.primeCounting_sub_eq_card _ _ hle]
  have := Nat.monotone_primeCounting hle
  omega

/-- the count never decreases -/
theorem pi_monotone (kₐ k_b : Ctx) (a b : ℤ) (hab : a ≤ b) (hb : b < 2 ^ 127) (rₐ r_b : ApiRun)
    (hₐ : kₐ.OK a) (h_b : k_b.OK b) (eₐ : kₐ.ApiExec a rₐ) (e_b : k_b.ApiExec b r_b)
    (va vb : ℤ) (hva : kₐ.piApi a rₐ = .ok va) (hvb : k_b.piApi b r_b = .ok vb) : va ≤ vb := by
  have := pi_increment_counts_primes kₐ k_b a b hab hb rₐ r_b hₐ h_b eₐ e_b va vb hva hvb
  have h0 : (0 : ℤ) ≤ (((Finset.Ioc a.toNat b.toNat).filter Nat.Prime).card : ℤ) := Int.natCast_nonneg _
  omega

/-- the count grows by exactly one at each prime and not otherwise -/
theorem pi_step_at_primes (kₐ k_b : Ctx) (n : ℕ) (hb : ((n + 1 : ℕ) : ℤ) < 2 ^ 127) (rₐ r_b : ApiRun)
    (hₐ : kₐ.OK (n : ℤ)) (h_b : k_b.OK ((n + 1 : ℕ) : ℤ)) (eₐ : kₐ.ApiExec (n : ℤ) rₐ) (e_b : k_b.ApiExec ((n + 1 : ℕ) : ℤ) r_b)
    (va vb : ℤ) (hva : kₐ.piApi (n : ℤ) rₐ = .ok va) (hvb : k_b.piApi ((n + 1 : ℕ) : ℤ) r_b = .ok vb) :
    vb = va + if Nat.Prime (n + 1) then 1 else 0 := by
  have ea : va = (π n : ℤ) := by
    rcases kₐ.piApi_total (n : ℤ) (by omega) rₐ hₐ eₐ with h | h
    · cases h.symm.trans hva; simp
    · cases h.symm.trans hva
  have eb : vb = (π (n + 1) : ℤ) := by
    rcases k_b.piApi_total _ hb r_b h_b e_b with h | h
    · cases h.symm.trans hvb; simp
    · cases h.symm.trans hvb
  have hs : π (n + 1) = π n + if Nat.Prime (n + 1) then 1 else 0 := by
    show Nat.count Nat.Prime (n + 1 + 1) = Nat.count Nat.Prime (n + 1) + _
    rw [Nat.count_succ]
  rw [ea, eb, hs]
  split <;> simp

/-- **across the 64-bit / 128-bit boundary**: `a ≤ INT64_MAX < b` — the call on `a` runs the 64-bit dispatcher, the call on `b` runs
    `pi_gourdon_128` over the tables of the 128-bit instantiation; the difference is still the number of primes in between -/
theorem pi_increment_across_int64_boundary (kₐ k_b : Ctx) (a b : ℤ) (ha : a ≤ PiApi.int64Max) (hab : (PiApi.int64Max : ℤ) < b)
    (hb : b < 2 ^ 127) (rₐ r_b : ApiRun) (hₐ : kₐ.OK a) (h_b : k_b.OK b) (eₐ : kₐ.ApiExec a rₐ) (e_b : k_b.ApiExec b r_b)
    (va vb : ℤ) (hva : kₐ.piApi a rₐ = .ok va) (hvb : k_b.piApi b r_b = .ok vb) :
    isWide a = false ∧ isWide b = true ∧ vb - va = (((Finset.Ioc a.toNat b.toNat).filter Nat.Prime).card : ℤ) :=
  ⟨decide_eq_false (by omega), decide_eq_true hab,
    pi_increment_counts_primes kₐ k_b a b (by omega) hb rₐ r_b hₐ h_b eₐ e_b va vb hva hvb⟩

/-! non-vacuity (tests, labelled as such) -/

/-- `pi(30000)` (cache route) in one context and `pi(50000)` (`pi_legendre` with the L2 model of phi.cpp inside) in another: every hypothesis
    holds, both calls return a count, and the difference is the number of primes in `(30000, 50000]` -/
example (c₁ c₂ : Sieve.Cfg) (f₁ f₂ : Sieve.StopFn) (r₁ r₂ : ApiRun) :
    ∃ va vb : ℤ, (exCtx c₁ f₁ 1 false).piApi 30000 r₁ = .ok va ∧ (exCtx c₂ f₂ 8 true).piApi 50000 r₂ = .ok vb ∧
      vb - va = (((Finset.Ioc 30000 50000).filter Nat.Prime).card : ℤ) := by
  have h1 := (exCtx c₁ f₁ 1 false).piApi_eq 30000 (by norm_num) r₁ (exCtx_ok _ _ _ _ _ (by norm_num))
    (exCtx_apiExec _ _ _ _ _ (by norm_num) _) (exCtx_accepted _ _ _ _ _ (by norm_num) _)
  have h2 := (exCtx c₂ f₂ 8 true).piApi_eq 50000 (by norm_num) r₂ (exCtx_ok _ _ _ _ _ (by norm_num))
    (exCtx_apiExec _ _ _ _ _ (by norm_num) _) (exCtx_accepted _ _ _ _ _ (by norm_num) _)
  exact ⟨_, _, h1, h2, pi_increment_counts_primes _ _ 30000 50000 (by norm_num) (by norm_num) r₁ r₂
    (exCtx_ok _ _ _ _ _ (by norm_num)) (exCtx_ok _ _ _ _ _ (by norm_num))
    (exCtx_apiExec _ _ _ _ _ (by norm_num) _) (exCtx_apiExec _ _ _ _ _ (by norm_num) _) _ _ h1 h2⟩

/-- negative arguments: `pi(-5) = 0`, so `pi(40000) − pi(-5)` counts the primes of `(0, 40000]` -/
example (c : Sieve.Cfg) (f : Sieve.StopFn) (r : ApiRun) (va vb : ℤ)
    (hva : (exCtx c f 2 false).piApi (-5) r = .ok va) (hvb : (exCtx c f 2 false).piApi 40000 r = .ok vb) :
    vb - va = (((Finset.Ioc 0 40000).filter Nat.Prime).card : ℤ) :=
  pi_increment_counts_primes _ _ (-5) 40000 (by norm_num) (by norm_num) r r
    (exCtx_ok _ _ _ _ _ (by norm_num)) (exCtx_ok _ _ _ _ _ (by norm_num))
    (exCtx_apiExec _ _ _ _ _ (by norm_num) _) (exCtx_apiExec _ _ _ _ _ (by norm_num) _) va vb hva hvb

end Pc.C05Closed

#print axioms Pc.C05Closed.pi_increment_counts_primes
#print axioms Pc.C05Closed.pi_monotone
#print axioms Pc.C05Closed.pi_step_at_primes
#print axioms Pc.C05Closed.pi_increment_across_int64_boundary
