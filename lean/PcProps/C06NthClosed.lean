/-
C06, closed (WP close2, item 3, second half) — `nth_prime_cpp_correct` of PcProps/C06Nth.lean (WP nth: `nthPrimeCpp`, the model of
src/nth_prime.cpp:86-129 whose walk runs on the `Pc.It` state machine of `primesieve::iterator`) for an environment whose iterator
environment `ie` is the REAL sieving-core model (`Pc.It.coreEnv` / `coreEnvTo … (2^50)`, PcProofs/CloseIter.lean) and whose `piCache` is
the model of `PiTable::pi_cache` over the generated table. Of the four fields of `NthIt.Env.Contracts`
  * `core : GenSpec env.ie`   is discharged by `coreEnv_genSpec` (float assumption `CoreFloatOk`) / `coreEnv50_genSpec` (nothing),
  * `piCache`                 is discharged by C17's `piCache_correct`,
  * `pi`                      stays: `∀ x < 2^63, env.pi x = π x` (= `Pc.C01Closed.nested_calls_are_pi`; importing the world is heavy),
  * `approx_range`            stays: (F) `RiemannR_inverse` is not modelled; only `0 ≤ value < 2^63` is assumed (the clamp of
                              `RiemannR_inverse_overflow_check`), nothing about accuracy;
plus (L) `hlit : p(max_n) < 2^63` and (S) `16 ≤ kib ≤ 8192`. `ilog` (stop hint) is arbitrary.
This file cannot be merged with PcProps/C06Closed2.lean: PcProofs/NthIt.lean (WP nth) and PcProofs/CloseNth2.lean (WP close) both declare
`Pc.It.nextPrime_step`.
Only property theorems, non-vacuity examples and the axiom audit live here.
-/
import PcProps.C06Nth
import PcProofs.CloseIter
import PcProofs.BitSieve240

namespace Pc.C06NthClosed
open Pc.NthIt Pc.It

local notation "π" => Nat.primeCounting

/-- the contracts of WP nth for the environment over the real sieving core (whole domain `stop < 2^64`): `core` and `piCache` are
    theorems, `pi` and `approx_range` are what is left -/
theorem contracts_core (fl : Floats) (batch : ℕ → ℕ) (l1raw kib : ℕ) (hfl : CoreFloatOk l1raw kib) (hk : 16 ≤ kib) (hk2 : kib ≤ 8192)
    (approx pi ilog : ℤ → ℤ) (hpi : ∀ x : ℕ, x < 2 ^ 63 → pi (x : ℤ) = ((π x : ℕ) : ℤ))
    (happ : ∀ n : ℕ, 1 ≤ n → ∃ a : ℕ, a < 2 ^ 63 ∧ approx (n : ℤ) = (a : ℤ)) :
    (⟨coreEnv fl batch l1raw kib, approx, pi, ilog, piCacheLookup PcGen.piCache⟩ : NthIt.Env).Contracts where
  core := coreEnv_genSpec fl batch l1raw kib hfl hk hk2
  pi := hpi
  piCache := fun m hm => piCache_correct m (by unfold Gen.nthPrimeMaxCached at hm; omega)
  approx_range := happ

/-- … and over the real core below 2^50: no float assumption on the sieve -/
theorem contracts_50 (fl : Floats) (batch : ℕ → ℕ) (l1raw kib : ℕ) (hk : 16 ≤ kib) (hk2 : kib ≤ 8192)
    (approx pi ilog : ℤ → ℤ) (hpi : ∀ x : ℕ, x < 2 ^ 63 → pi (x : ℤ) = ((π x : ℕ) : ℤ))
    (happ : ∀ n : ℕ, 1 ≤ n → ∃ a : ℕ, a < 2 ^ 63 ∧ approx (n : ℤ) = (a : ℤ)) :
    (⟨coreEnvTo fl batch l1raw kib (2 ^ 50), approx, pi, ilog, piCacheLookup PcGen.piCache⟩ : NthIt.Env).Contracts where
  core := coreEnv50_genSpec fl batch l1raw kib hk hk2
  pi := hpi
  piCache := fun m hm => piCache_correct m (by unfold Gen.nthPrimeMaxCached at hm; omega)
  approx_range := happ

/-- **`nth_prime_cpp_closed`**: `nth_prime(n)` (the model with the walk on the real iterator state machine over the real sieving core,
    the generated `pi_cache` table) returns the n-th prime for every `1 ≤ n ≤ max_n` -/
theorem nth_prime_cpp_closed (fl : Floats) (batch : ℕ → ℕ) (l1raw kib : ℕ) (hfl : CoreFloatOk l1raw kib) (hk : 16 ≤ kib)
    (hk2 : kib ≤ 8192) (approx pi ilog : ℤ → ℤ) (hpi : ∀ x : ℕ, x < 2 ^ 63 → pi (x : ℤ) = ((π x : ℕ) : ℤ))
    (happ : ∀ n : ℕ, 1 ≤ n → ∃ a : ℕ, a < 2 ^ 63 ∧ approx (n : ℤ) = (a : ℤ))
    (hlit : Spec.p Gen.nthPrimeMaxN < 2 ^ 63) (n : ℕ) (h1 : 1 ≤ n) (h2 : n ≤ Gen.nthPrimeMaxN) :
    nthPrimeCpp ⟨coreEnv fl batch l1raw kib, approx, pi, ilog, piCacheLookup PcGen.piCache⟩ (n : ℤ) = .ok ((Spec.p n : ℕ) : ℤ) :=
  C06Nth.nth_prime_cpp_correct _ (contracts_core fl batch l1raw kib hfl hk hk2 approx pi ilog hpi happ) hlit n h1 h2

/-- … with the real core used below `2^50`: no float assumption on the sieve -/
theorem nth_prime_cpp_closed_50 (fl : Floats) (batch : ℕ → ℕ) (l1raw kib : ℕ) (hk : 16 ≤ kib) (hk2 : kib ≤ 8192)
    (approx pi ilog : ℤ → ℤ) (hpi : ∀ x : ℕ, x < 2 ^ 63 → pi (x : ℤ) = ((π x : ℕ) : ℤ))
    (happ : ∀ n : ℕ, 1 ≤ n → ∃ a : ℕ, a < 2 ^ 63 ∧ approx (n : ℤ) = (a : ℤ))
    (hlit : Spec.p Gen.nthPrimeMaxN < 2 ^ 63) (n : ℕ) (h1 : 1 ≤ n) (h2 : n ≤ Gen.nthPrimeMaxN) :
    nthPrimeCpp ⟨coreEnvTo fl batch l1raw kib (2 ^ 50), approx, pi, ilog, piCacheLookup PcGen.piCache⟩ (n : ℤ) =
      .ok ((Spec.p n : ℕ) : ℤ) :=
  C06Nth.nth_prime_cpp_correct _ (contracts_50 fl batch l1raw kib hk hk2 approx pi ilog hpi happ) hlit n h1 h2

/-- the CLI / C API entry points over the same environment: `primecount <x> --nth-prime` for EVERY evaluated number `x` -/
theorem cli_nth_prime_closed (fl : Floats) (batch : ℕ → ℕ) (l1raw kib : ℕ) (hfl : CoreFloatOk l1raw kib) (hk : 16 ≤ kib)
    (hk2 : kib ≤ 8192) (approx pi ilog : ℤ → ℤ) (hpi : ∀ x : ℕ, x < 2 ^ 63 → pi (x : ℤ) = ((π x : ℕ) : ℤ))
    (happ : ∀ n : ℕ, 1 ≤ n → ∃ a : ℕ, a < 2 ^ 63 ∧ approx (n : ℤ) = (a : ℤ))
    (hlit : Spec.p Gen.nthPrimeMaxN < 2 ^ 63) (x : ℤ) :
    cliNthPrime ⟨coreEnv fl batch l1raw kib, approx, pi, ilog, piCacheLookup PcGen.piCache⟩ x =
      if x < -(2 : ℤ) ^ 63 ∨ (2 : ℤ) ^ 63 ≤ x then .error .range
      else if x < 1 then .error (.nth .tooSmall)
      else if x > (Gen.nthPrimeMaxN : ℤ) then .error (.nth .tooLarge)
      else .ok ((Spec.p x.toNat : ℕ) : ℤ) :=
  C06Nth.cli_nth_prime _ (contracts_core fl batch l1raw kib hfl hk hk2 approx pi ilog hpi happ) hlit x

/-- `primecount_nth_prime` (api_c.cpp) returns −1 exactly on the domain errors -/
theorem primecount_nth_prime_minus_one_iff_closed (fl : Floats) (batch : ℕ → ℕ) (l1raw kib : ℕ) (hfl : CoreFloatOk l1raw kib)
    (hk : 16 ≤ kib) (hk2 : kib ≤ 8192) (approx pi ilog : ℤ → ℤ) (hpi : ∀ x : ℕ, x < 2 ^ 63 → pi (x : ℤ) = ((π x : ℕ) : ℤ))
    (happ : ∀ n : ℕ, 1 ≤ n → ∃ a : ℕ, a < 2 ^ 63 ∧ approx (n : ℤ) = (a : ℤ))
    (hlit : Spec.p Gen.nthPrimeMaxN < 2 ^ 63) (n : ℤ) :
    NthIt.cNthPrime ⟨coreEnv fl batch l1raw kib, approx, pi, ilog, piCacheLookup PcGen.piCache⟩ n = -1 ↔
      (n < 1 ∨ n > (Gen.nthPrimeMaxN : ℤ)) :=
  C06Nth.primecount_nth_prime_minus_one_iff _ (contracts_core fl batch l1raw kib hfl hk hk2 approx pi ilog hpi happ) hlit n

/-! non-vacuity: the two remaining contract hypotheses are satisfiable for EVERY approximation (clamped into `[0, 2^63)`), any `ilog`,
    floats and batching; instantiated at 256 KiB / 32 KiB L1 over the real core below 2^50 -/
example (fl : Floats) (batch : ℕ → ℕ) (approx : ℕ → ℕ) (ilog : ℤ → ℤ) (hlit : Spec.p Gen.nthPrimeMaxN < 2 ^ 63) :
    nthPrimeCpp ⟨coreEnvTo fl batch 32768 256 (2 ^ 50), fun n => ((approx n.toNat % 2 ^ 63 : ℕ) : ℤ),
      fun x => ((π x.toNat : ℕ) : ℤ), ilog, piCacheLookup PcGen.piCache⟩ 5 = .ok 11 := by
  have := nth_prime_cpp_closed_50 fl batch 32768 256 (by norm_num) (by norm_num)
    (fun n => ((approx n.toNat % 2 ^ 63 : ℕ) : ℤ)) (fun x => ((π x.toNat : ℕ) : ℤ)) ilog (fun x _ => by simp)
    (fun n _ => ⟨approx n % 2 ^ 63, Nat.mod_lt _ (by norm_num), by simp⟩) hlit 5 (by norm_num) (by decide)
  simpa [Spec.p] using this

end Pc.C06NthClosed

#print axioms Pc.C06NthClosed.contracts_core
#print axioms Pc.C06NthClosed.contracts_50
#print axioms Pc.C06NthClosed.nth_prime_cpp_closed
#print axioms Pc.C06NthClosed.nth_prime_cpp_closed_50
#print axioms Pc.C06NthClosed.cli_nth_prime_closed
#print axioms Pc.C06NthClosed.primecount_nth_prime_minus_one_iff_closed
