/-
C18 — the bundled prime sieve enumerates and counts primes exactly (iterator / API layer).
Only property theorems, non-vacuity examples and the axiom audit live here.
Model: PcModel/Iter.lean (iterator.cpp, IteratorHelper.cpp, iterator.hpp, PrimeGenerator.cpp table path, nthPrime.cpp,
ParallelSieve.cpp, PrimeSieve.cpp, StorePrimes.hpp). Proofs: PcProofs/Iter*.lean.
-/
import PcProofs.Iter

namespace Pc.C18
open Pc.It

/-- saturation near 2^64: `checkedAdd` never wraps — the result is the exact sum when that is below 2^64-1 and the
    saturation value 2^64-1 otherwise (for every pair of uint64 values) -/
theorem checkedAdd_saturates (x y : ℕ) : checkedAdd x y = min (x + y) umax := by
  rcases checkedAdd_eq x y with h | ⟨h1, h2⟩
  · exact h
  · rw [h2, h1]; simp

/-- for every start below 2^64 - 2^33 and every distance below 2^33 - 1 (the iterator's own `dist` can be larger: then the
    window end saturates) the window end is the exact sum -/
theorem checkedAdd_no_wrap (start dist : ℕ) (hs : start < 2 ^ 64 - 2 ^ 33) (hd : dist < 2 ^ 33 - 1) :
    checkedAdd start dist = start + dist := by
  apply checkedAdd_exact; unfold umax; omega

example : checkedAdd (2 ^ 64 - 2 ^ 33 - 1) (2 ^ 33 - 2) = 2 ^ 64 - 3 := by decide
example : checkedAdd (2 ^ 64 - 5) 100 = umax := by decide

/-- every new forward window `[start, stop]` is well formed for all float outcomes and all hints -/
theorem next_window_wellformed (f : Floats) (hint : ℕ) (d : Data) (hs : d.stop ≤ umax) (hh : hint ≤ umax) :
    (updateNext f hint d).1 ≤ (updateNext f hint d).2.stop ∧ (updateNext f hint d).2.stop ≤ umax :=
  updateNext_le f hint d hs hh

/-- every new backward window `[start, stop]` is well formed for all float outcomes and all hints -/
theorem prev_window_wellformed (f : Floats) (start hint : ℕ) (d : Data) :
    (updatePrev f start hint d).1 ≤ (updatePrev f start hint d).2.stop := updatePrev_le f start hint d

/-- `processSmallPrimes()` behind its guard `start_ <= 5` counts exactly the primes below 7 of `[start, stop]` -/
theorem count_small_primes (start stop : ℕ) :
    (if start ≤ 5 then processSmallPrimes 0 start stop else 0)
      = ((List.range 7).filter (fun q => decide (q.Prime) && decide (start ≤ q) && decide (q ≤ stop))).length :=
  smallCount_eq start stop

example : processSmallPrimes 0 3 5 = 2 := by decide

end Pc.C18

#print axioms Pc.C18.checkedAdd_saturates
#print axioms Pc.C18.checkedAdd_no_wrap
#print axioms Pc.C18.next_window_wellformed
#print axioms Pc.C18.prev_window_wellformed
#print axioms Pc.C18.count_small_primes
