/-
C18 — the bundled prime sieve enumerates and counts primes exactly (iterator / API layer).
Only property theorems, non-vacuity examples and the axiom audit live here.
Model: PcModel/Iter.lean (iterator.cpp, IteratorHelper.cpp, iterator.hpp, PrimeGenerator.cpp table path, nthPrime.cpp,
ParallelSieve.cpp, PrimeSieve.cpp, StorePrimes.hpp). Proofs: PcProofs/Iter*.lean.
-/
import PcProofs.IterRefine2
import PcProofs.IterPar

namespace Pc.C18
open Pc.It

/-- saturation near 2^64: `checkedAdd` never wraps — the result is the exact sum when that is below 2^64-1 and the
    saturation value 2^64-1 otherwise (for every pair of uint64 values) -/
theorem checkedAdd_saturates (x y : ℕ) : checkedAdd x y = min (x + y) umax := by
  rcases checkedAdd_eq x y with h | ⟨h1, h2⟩
  · exact h
  · rw [h2, h1]; simp

/-- for every start below 2^64 - 2^33 and every distance below 2^33 - 1 (the iterator's own `dist` can be larger: then the
    window end saturates) the window end is the exact sum -/
theorem checkedAdd_no_wrap (start dist : ℕ) (hs : start < 2 ^ 64 - 2 ^ 33) (hd : dist < 2 ^ 33 - 1) :
    checkedAdd start dist = start + dist := by
  apply checkedAdd_exact; unfold umax; omega

example : checkedAdd (2 ^ 64 - 2 ^ 33 - 1) (2 ^ 33 - 2) = 2 ^ 64 - 3 := by decide
example : checkedAdd (2 ^ 64 - 5) 100 = umax := by decide

/-- every new forward window `[start, stop]` is well formed for all float outcomes and all hints -/
theorem next_window_wellformed (f : Floats) (hint : ℕ) (d : Data) (hs : d.stop ≤ umax) (hh : hint ≤ umax) :
    (updateNext f hint d).1 ≤ (updateNext f hint d).2.stop ∧ (updateNext f hint d).2.stop ≤ umax :=
  updateNext_le f hint d hs hh

/-- every new backward window `[start, stop]` is well formed for all float outcomes and all hints -/
theorem prev_window_wellformed (f : Floats) (start hint : ℕ) (d : Data) :
    (updatePrev f start hint d).1 ≤ (updatePrev f start hint d).2.stop := updatePrev_le f start hint d

/-- `processSmallPrimes()` behind its guard `start_ <= 5` counts exactly the primes below 7 of `[start, stop]` -/
theorem count_small_primes (start stop : ℕ) :
    (if start ≤ 5 then processSmallPrimes 0 start stop else 0)
      = ((List.range 7).filter (fun q => decide (q.Prime) && decide (start ≤ q) && decide (q ≤ stop))).length :=
  smallCount_eq start stop

example : processSmallPrimes 0 3 5 = 2 := by decide

/-- `generate_next_primes()` (the `while (true)` loop of iterator.cpp:123-156) — windows are contiguous and nothing is
    skipped or repeated: whenever the iterator is about to continue the enumeration at `n` (fresh iterator / after `jump_to`:
    `n = start`; live generator: `n` = its position; exhausted or deleted generator: `n = stop + 1`), for EVERY stop hint,
    EVERY float outcome (window distances), EVERY batching and EVERY core meeting `GenSpec`: if a prime `>= n` below 2^64
    exists the call TERMINATES (fuel `bigFuel` is never exhausted) and leaves a NON-EMPTY buffer `primes_[0 .. size_)` that is
    strictly increasing and holds exactly the primes of `[n, primes_[size_-1]]`, with `i_ = 0`, and the iterator is again
    ready to continue at `primes_[size_-1] + 1` -/
theorem generate_next_primes_correct (e : Env) (he : GenSpec e) (s : St) (n : ℕ) (hr : FwdReady s n) (hn : n ≤ umax)
    (hh : s.hint ≤ umax) (hst : s.start ≤ umax) (hp : ∃ p, p.Prime ∧ n ≤ p ∧ p ≤ umax) :
    ∃ s', genNext e bigFuel s = .ok s' ∧ FwdDone s s' n ∧
      ∀ L, s'.buf.getLast? = some L → FwdReady s' (L + 1) := by
  obtain ⟨s', h1, h2⟩ := (genNext_spec e he bigFuel s n hr hn hh hst (fwdFuel_le_big s n)).1 hp
  refine ⟨s', h1, h2, fun L hL => ?_⟩
  obtain ⟨_, hle, hg⟩ := h2.covers L hL
  exact ⟨h2.stop_le, Or.inr ⟨_, hg, rfl, rfl, h2.incl, by show L + 1 ≤ s'.mem.stop + 1; omega⟩⟩

/-- … and it throws `primesieve_error` (never hangs, never returns garbage) exactly when no prime of `[n, 2^64-1]` is left:
    `next_prime()` past 18446744073709551557 -/
theorem generate_next_primes_past_the_end (e : Env) (he : GenSpec e) (s : St) (n : ℕ) (hr : FwdReady s n) (hn : n ≤ umax)
    (hh : s.hint ≤ umax) (hst : s.start ≤ umax) (hp : ∀ p, p.Prime → n ≤ p → ¬ p ≤ umax) :
    genNext e bigFuel s = .error .ps :=
  (genNext_spec e he bigFuel s n hr hn hh hst (fwdFuel_le_big s n)).2 hp

/-- `buffer_contract`, first call: on a fresh / just repositioned iterator (what P2.cpp:65-66 and StorePrimes.hpp do)
    `generate_next_primes()` leaves exactly the primes from `start` up to the last buffer entry -/
theorem buffer_contract_first (e : Env) (he : GenSpec e) (start hint : ℕ) (hs : start ≤ umax) (hh : hint ≤ umax)
    (hp : ∃ p, p.Prime ∧ start ≤ p ∧ p ≤ umax) :
    ∃ s', genNext e bigFuel (init start hint) = .ok s' ∧ s'.buf ≠ [] ∧ s'.i = 0 ∧
      ∀ L, s'.buf.getLast? = some L → PrimesIn s'.buf start L ∧ FwdReady s' (L + 1) := by
  obtain ⟨s', h1, h2, h3⟩ := generate_next_primes_correct e he (init start hint) start (fwdReady_init start hint hs) hs hh hs hp
  exact ⟨s', h1, h2.ne, h2.i0, fun L hL => ⟨(h2.covers L hL).1, h3 L hL⟩⟩

/-- the contract is satisfiable: the reference core meets `GenSpec` for all floats and batch sizes … -/
example (fl : Floats) (batch : ℕ → ℕ) : GenSpec (refEnv fl batch) := refEnv_spec fl batch
/-- … a fresh iterator is ready at its start, and primes exist -/
example : FwdReady (init 100 umax) 100 := fwdReady_init 100 umax (by decide)
example : ∃ p, p.Prime ∧ 100 ≤ p ∧ p ≤ umax := ⟨101, by norm_num, by decide, by decide⟩

/-- `generate_prev_primes()` (the `do … while (!size_)` loop of iterator.cpp:176-187) on an iterator without live generator,
    for EVERY stop hint, EVERY float outcome and EVERY core meeting `GenSpec`: it TERMINATES and leaves a non-empty, strictly
    increasing buffer with `i_ = size_` that holds exactly the primes of `[start_, stop]` plus the leading 0 iff `start_ <= 2`;
    the windows tried on the way were contiguous downwards: no prime of `(stop, t]` exists, where `t` is the top it had to
    continue from (`start_` right after construction / `jump_to`, else `start_ - 1`, saturating at 0) -/
theorem generate_prev_primes_correct (e : Env) (he : GenSpec e) (s : St) (hgen : s.mem.gen = none) (hs : s.start ≤ umax) :
    ∃ s', genPrev e bigFuel s = .ok s' ∧ BwdDone s s' (prevTop s) := genPrev_none e he s hgen hs

/-- `direction_change` forward → backward (iterator.cpp:167-172 `start_ = primes.front()`): with a live generator and the
    buffer `p :: rest`, `generate_prev_primes()` continues exactly below `p` — whatever part of the forward window the
    generator had already delivered -/
theorem direction_change_fwd_bwd (e : Env) (he : GenSpec e) (s : St) (g : Gen) (p : ℕ) (rest : List ℕ)
    (hgen : s.mem.gen = some g) (hbuf : s.buf = p :: rest) (hincl : s.mem.incl = false) (hp : p ≤ umax) :
    ∃ s', genPrev e bigFuel s = .ok s' ∧ s'.hint = s.hint ∧
      BwdDone { s with start := p, mem := { s.mem with gen := none } } s' (p - 1) := genPrev_some e he s g p rest hgen hbuf hincl hp

/-- `direction_change` backward → forward: after `generate_prev_primes()` the iterator is ready to continue the forward
    enumeration right above the window it holds (`stop + 1`), and no prime lies between the buffer and that point -/
theorem direction_change_bwd_fwd (s s' : St) (t : ℕ) (hd : BwdDone s s' t) (ht : t < umax) :
    FwdReady s' (s'.mem.stop + 1) ∧ ∀ q, q.Prime → s'.start ≤ q → q ≤ s'.mem.stop → q ∈ s'.buf := by
  have h1 := hd.stop_le
  refine ⟨⟨by omega, Or.inl ⟨hd.gen, ?_⟩⟩, fun q hq h2 h3 => (hd.mem q).2 (Or.inl ⟨hq, h2, h3⟩)⟩
  rw [hd.incl]; simp only [Bool.false_eq_true, if_false]
  exact checkedAdd_one _ (by omega)

/-- `prev_yields_primes_le_start`, first call (`_partial`: the k-th call for k > 1 follows from
    `generate_prev_primes_correct` + the buffer invariant but is not assembled into one statement yet): the first
    `prev_prime()` of a fresh / repositioned iterator returns the largest prime `<= start`, and 0 when there is none -/
theorem prev_first_partial (e : Env) (he : GenSpec e) (start hint : ℕ) (hs : start ≤ umax) :
    ∃ s', prevPrime e (init start hint) = .ok (Nat.findGreatest Nat.Prime start, s') := prevPrime_init e he start hint hs

example : (init 100 5).mem.gen = none := rfl
example : ((run (refEnv ⟨fun _ => 0, fun _ => 0, fun _ => 0, fun _ => 0⟩ (fun _ => 1)) (init 10 0) [.prev, .prev, .next]).1) = [7, 5, 7] := by
  decide +kernel

/-- `parallel_count_total`, interval part (`_partial`: the sum of the per-interval counts is not yet stated; it follows from
    these three facts and additivity of counting over adjacent intervals). For every thread distance `td >= 1` and every
    `[start, stop]` with `stop < 2^64-1`, the tasks of `ParallelSieve::sieve()` tile the interval: the first starts at `start`,
    task `i+1` starts exactly one above the end of task `i`, and the task that reaches `stop - 32` ends at `stop`
    (for EVERY thread count: `td` and the number of tasks are arbitrary here) -/
theorem parallel_intervals_partial (a b td : ℕ) (htd : 1 ≤ td) (hb : b < umax) (hab : a ≤ b) :
    (threadInterval a b td 0).1 = a ∧
    (∀ i, a + td * (i + 1) ≤ b → (threadInterval a b td (i + 1)).1 = (threadInterval a b td i).2 + 1) ∧
    (∀ i, a + td * i ≤ b → b ≤ a + td * (i + 1) + 32 → (threadInterval a b td i).2 = b) :=
  ⟨threadInterval_first a b td (by omega), fun i hi => threadInterval_contiguous a b td i htd hb hi,
   fun i h1 h2 => threadInterval_last a b td i (by omega) h1 h2⟩

/-- task boundaries that are not clamped to `stop` sit on `2 (mod 30)` within `[n + 3, n + 32]` (sieve bytes start at `30k + 7`) -/
theorem align_boundary (stop n : ℕ) (h : checkedAdd n 32 < stop) (hs : stop ≤ umax) :
    align stop n % 30 = 2 ∧ n + 3 ≤ align stop n ∧ align stop n ≤ n + 32 := align_mod stop n h hs

example : (threadInterval 0 100000000 10000020 1) = (10000053, 20000072) := by decide
example : checkedAdd 10000020 32 < 100000000 := by decide

end Pc.C18

#print axioms Pc.C18.checkedAdd_saturates
#print axioms Pc.C18.checkedAdd_no_wrap
#print axioms Pc.C18.next_window_wellformed
#print axioms Pc.C18.prev_window_wellformed
#print axioms Pc.C18.count_small_primes
#print axioms Pc.C18.generate_next_primes_correct
#print axioms Pc.C18.generate_next_primes_past_the_end
#print axioms Pc.C18.buffer_contract_first
#print axioms Pc.C18.generate_prev_primes_correct
#print axioms Pc.C18.direction_change_fwd_bwd
#print axioms Pc.C18.direction_change_bwd_fwd
#print axioms Pc.C18.prev_first_partial
#print axioms Pc.C18.parallel_intervals_partial
#print axioms Pc.C18.align_boundary
