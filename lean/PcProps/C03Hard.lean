/-
C03 (hard special leaves): the result of the parallel region `S2_hard_OpenMP` (S2_hard.cpp:199-241) does not depend on the
thread count, the order of the `get_work` calls or the measured times.  The region is modelled as the replay of an ARBITRARY
recorded LoadBalancerS2 history (`Pc.Hard.replay`, PcModel/HardLoops.lean): every event must be an allowed step of the
dispenser model and every `thread.sum` passed in must be the value of `S2_hard_thread` on the work item that worker holds.
Only property theorems, non-vacuity examples and the axiom audit live here.
-/
import PcProofs.HardExamples

namespace Pc.C03Hard
open Pc.Hard Pc.LB Nat
open scoped Nat.Prime

/-- **`hard_region_total`** — every accepted, complete history returns `Spec.S2_hard x y c`; the sieve is any object meeting
    the counting contract on the work items the dispenser hands out (`low`, `segment_size` positive multiples of 240) -/
theorem hard_region_total {σ : Type} (S : SieveOps σ) {e : Env} {P tmax x y c : ℕ}
    (hS : ∀ K, K ≤ π P → ∃ H : SieveSpec S K, ∀ low seg, 240 ∣ low → 240 ∣ seg → 0 < seg → H.segOK low seg)
    (lc : Consts) (hlc : lc.WF) (threads : ℕ) (print : Bool)
    (hE : EnvOK e P) (hP : P = min y (x / y / Nat.sqrt y)) (hF : FactorOK e tmax y)
    (hy : 1 ≤ y) (hyx : y * y ≤ x) (hc : 4 ≤ c) (hcy : c ≤ π y) (es : List S2.Ev) (v : ℤ)
    (h : s2HardOpenMP S e lc x y (x / y) c threads print es = .ok v) : v = Spec.S2_hard x y c :=
  s2HardOpenMP_eq S hS lc hlc threads print hE hP hF hy hyx hc hcy es v h

/-- **`hard_independent_of_run`** — two recorded runs (any team sizes, print modes, call orders, durations) of the same
    `(x, y, c)` return the same value -/
theorem hard_independent_of_run {σ : Type} (S : SieveOps σ) {e : Env} {P tmax x y c : ℕ}
    (hS : ∀ K, K ≤ π P → ∃ H : SieveSpec S K, ∀ low seg, 240 ∣ low → 240 ∣ seg → 0 < seg → H.segOK low seg)
    (lc : Consts) (hlc : lc.WF) (hE : EnvOK e P) (hP : P = min y (x / y / Nat.sqrt y)) (hF : FactorOK e tmax y)
    (hy : 1 ≤ y) (hyx : y * y ≤ x) (hc : 4 ≤ c) (hcy : c ≤ π y)
    (threads1 : ℕ) (print1 : Bool) (es1 : List S2.Ev) (v1 : ℤ) (threads2 : ℕ) (print2 : Bool) (es2 : List S2.Ev) (v2 : ℤ)
    (h1 : s2HardOpenMP S e lc x y (x / y) c threads1 print1 es1 = .ok v1)
    (h2 : s2HardOpenMP S e lc x y (x / y) c threads2 print2 es2 = .ok v2) : v1 = v2 := by
  rw [s2HardOpenMP_eq S hS lc hlc threads1 print1 hE hP hF hy hyx hc hcy es1 v1 h1,
    s2HardOpenMP_eq S hS lc hlc threads2 print2 hE hP hF hy hyx hc hcy es2 v2 h2]

/-- the replay accepts exactly the histories that are runs of the dispenser with honest workers, and then returns the
    dispenser's final state (so the theorems above are about ALL such runs, and about nothing else) -/
theorem replay_characterised (thr : ℕ → ℕ → ℕ → Except Err ℤ) (cfg : S2.Config) (es : List S2.Ev) (s s' : S2.State) :
    replay thr cfg s es = .ok s' ↔
      ((S2.sys cfg).accepts s es = true ∧ Reported thr cfg s es ∧ s' = (S2.sys cfg).final s es) :=
  replay_ok_iff thr cfg es s s'

/-- given the chunk theorem, no error other than "not a run" can come out of the region -/
theorem hard_region_ok_or_badRun {e : Env} {P tmax x y c : ℕ} (lc : Consts) (hlc : lc.WF) (threads : ℕ) (print : Bool)
    (hE : EnvOK e P) (hP : P = min y (x / y / Nat.sqrt y)) (hF : FactorOK e tmax y)
    (hy : 1 ≤ y) (hyx : y * y ≤ x) (hc : 4 ≤ c) (es : List S2.Ev) :
    s2HardOpenMP (refSieve e.primes) e lc x y (x / y) c threads print es = .ok (hardF x y (x / y) c (0, x / y)) ∨
      s2HardOpenMP (refSieve e.primes) e lc x y (x / y) c threads print es = .error .badRun := by
  have hyz : y ≤ x / y := (Nat.le_div_iff_mul_le (by omega)).2 hyx
  apply s2HardOpenMP_ok_or_badRun _ e lc hlc x y (x / y) c threads print (hardF x y (x / y) c) (hardF_additive _ _ _ _)
  intro low segs size hg hlow
  exact s2HardThread_ref hE hP hF hy hyz (Nat.div_mul_le_self x y) hc (Dvd.dvd.trans (by norm_num) hg.low_al)
    hg.size_pos hg.segs_pos hlow

/-! non-vacuity (tests, labelled as such): recorded histories with two workers in two different orders and one with a
    single worker are accepted by `replay`, complete, and give the same sum (PcProofs/HardOmp.lean, `Pc.Hard.Ex`) -/
example : Ex.check (S2.mkConfig genConsts 3000 2 false) (replay (Ex.lenThr 3000) (S2.mkConfig genConsts 3000 2 false)
    (S2.init genConsts 1000000 3000 2 false) Ex.runA) 3000 = true := Ex.runA_ok
example : GoodItem 0 1 720 := by constructor <;> decide

end Pc.C03Hard

#print axioms Pc.C03Hard.hard_region_total
#print axioms Pc.C03Hard.hard_independent_of_run
#print axioms Pc.C03Hard.replay_characterised
#print axioms Pc.C03Hard.hard_region_ok_or_badRun
