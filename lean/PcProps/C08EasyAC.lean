/-
C08 (also C03 / C11), wp-easy — the A + C formulas of Gourdon's algorithm (src/gourdon/AC.cpp, AC_libdivide.cpp): what is PROVED
about the real control flow (model PcModel/EasyAC.lean).

Proved here: the `A` kernel (`A`, `A_64`, `A_128`) for ONE (segment, b) returns exactly the leaves of that segment with the
1-vs-2 weighting, with every table read in bounds; the segment values add up over EVERY chain of segments; summed over the
levels this is `Spec.A`, the `A` of `gourdon_decomp`.  NOT proved (correspondence only, streams `easyac_*` of
pcv/props/c08_easy.py against the mirror AND against the defining sums `NT.A + NT.C`, which are proved `= Spec.A + Spec.C`):
the `C1` recursion, the additivity of `C2` over the segments (the kernel itself IS proved per (segment, b): `ac_C2_segment_eq`),
and the per-segment pruning of levels (`min_a … max_a`, `min_c2 … max_c2`)
in `AC_OpenMP` — hence the names `…_partial` below.
-/
import PcProofs.EasyACEx
import PcModel.Drv.EasyAC

namespace Pc.C08EasyAC
open Pc.Spec Pc.Easy

/-- **index lemma of `A`** (exact, no boundary case): prime index `j` is visited by the two loops of `A` for the segment
    `[low, high)` iff `b < j ≤ π ⌊√xp⌋` and `low ≤ xp / p j < high` (`xp = x / prime`, `xlow = x / max(low, 1)`, `xhigh = x / high`)
    — adjacent segments can neither share nor skip a leaf; `low = 0` (where `xlow = x`) included -/
theorem ac_A_index_lemma {x prime low high j : ℕ} (hp : 0 < prime) (hhigh : 0 < high) (hj1 : 1 ≤ j) :
    (Nat.primeCounting (max prime (min (x / high / prime) (Nat.sqrt (x / prime)))) < j ∧
      j ≤ Nat.primeCounting (min (x / max low 1 / prime) (Nat.sqrt (x / prime))))
    ↔ (Nat.primeCounting prime < j ∧ j ≤ Nat.primeCounting (Nat.sqrt (x / prime))) ∧
        low ≤ x / prime / p j ∧ x / prime / p j < high :=
  a_visit_iff hp hhigh hj1

/-- the first loop (weight 1) takes exactly the leaves with `y ≤ xp / p j` -/
theorem ac_A_weight_lemma {xp y j : ℕ} (hy : 0 < y) : p j ≤ xp / y ↔ y ≤ xp / p j := a_weight_iff hy

/-- **`A` for one (segment, b)**, any kernel `k` (AC.cpp 64/128-bit, `A_64` with libdivide, `A_128`): for `p b ≤ ⌊√(x / p b)⌋`,
    tables reaching `⌊√(x / p b)⌋` and the segment: the value is
    `Σ_{b < j ≤ π√xp, low ≤ xp / p j < high} (if y ≤ xp / p j then 1 else 2) · π(xp / p j)`; `.ok` = all reads in bounds -/
theorem ac_A_segment_eq (k : Kern) {t : NT} (hv : t.Valid) {size maxPi low high x y b : ℕ} (hb1 : 1 ≤ b) (hy : 1 ≤ y)
    (hhigh : 0 < high) (hps : p b ≤ Nat.sqrt (x / p b)) (hsm : Nat.sqrt (x / p b) ≤ maxPi) (hmb : maxPi ≤ t.bound)
    (hm64 : maxPi ≤ ITy.u64.maxVal) (hsz : Nat.primeCounting (Nat.sqrt (x / p b)) < size) (hh : high ≤ t.bound + 1)
    (hh64 : high ≤ 2 ^ 64) :
    acAKernel k t size maxPi low high (x / max low 1) (x / high) (x / p b) y (p b)
      = .ok (∑ j ∈ (Finset.Ioc b (Nat.primeCounting (Nat.sqrt (x / p b)))).filter
              (fun j => low ≤ x / p b / p j ∧ x / p b / p j < high),
            (if y ≤ x / p b / p j then (1 : ℤ) else 2) * (Nat.primeCounting (x / p b / p j) : ℤ)) :=
  acAKernel_eq k hv hb1 hy hhigh hps hsm hmb hm64 hsz hh hh64

/-- **`ac_libdivide_eq` for `A`**: the libdivide kernel `A_64` (branchfree division modelled as its specification `x / d`,
    `d ≥ 2`; libdivide itself is trusted / corresponded), `A_128` and AC.cpp's `A` compute the same value -/
theorem ac_libdivide_eq_A (k k' : Kern) {t : NT} (hv : t.Valid) {size maxPi low high x y b : ℕ} (hb1 : 1 ≤ b) (hy : 1 ≤ y)
    (hhigh : 0 < high) (hps : p b ≤ Nat.sqrt (x / p b)) (hsm : Nat.sqrt (x / p b) ≤ maxPi) (hmb : maxPi ≤ t.bound)
    (hm64 : maxPi ≤ ITy.u64.maxVal) (hsz : Nat.primeCounting (Nat.sqrt (x / p b)) < size) (hh : high ≤ t.bound + 1)
    (hh64 : high ≤ 2 ^ 64) :
    acAKernel k t size maxPi low high (x / max low 1) (x / high) (x / p b) y (p b)
      = acAKernel k' t size maxPi low high (x / max low 1) (x / high) (x / p b) y (p b) := by
  rw [acAKernel_eq k hv hb1 hy hhigh hps hsm hmb hm64 hsz hh hh64,
    acAKernel_eq k' hv hb1 hy hhigh hps hsm hmb hm64 hsz hh hh64]

/-- **index lemma of `C2`** (exact): `π min_m < j ≤ π max_m` iff `p j` is a second prime of the level — `prime < p j ≤ min(xp / prime, y)`,
    `xp / prime² < p j` — whose leaf lies in the segment, `low ≤ xp / p j < high` -/
theorem ac_C2_index_lemma {x y prime low high j : ℕ} (hp : 0 < prime) (hhigh : 0 < high) (hj1 : 1 ≤ j) :
    (Nat.primeCounting (min (max (x / high / prime) (max (x / prime / (prime * prime)) prime))
          (min (x / max low 1 / prime) (min (x / prime / prime) y))) < j ∧
      j ≤ Nat.primeCounting (min (x / max low 1 / prime) (min (x / prime / prime) y)))
    ↔ (prime < p j ∧ p j ≤ x / prime / prime ∧ p j ≤ y ∧ x / prime / (prime * prime) < p j) ∧
        low ≤ x / prime / p j ∧ x / prime / p j < high :=
  c2_visit_iff hp hhigh hj1

/-- **`C2` for one (segment, b)**, any kernel (AC.cpp 64/128-bit, `C2_64` with libdivide, `C2_128`): the clustered loop (with its
    `max(xpq2, min_clustered)` clamp) plus the sparse loop return the sum of `π(xp / p j) - b + 2` over `π min_m < j ≤ π max_m`,
    i.e. (`ac_C2_index_lemma`) over exactly the level's leaves inside the segment; `.ok` = all `primes[·]`, `pi[·]`,
    `segmentedPi[·]` reads in bounds, no `div` trap, no unsigned wrap, every clustered step makes progress -/
theorem ac_C2_segment_eq (k : Kern) {t : NT} (hv : t.Valid) {size maxPi low high x y b : ℕ} (hb1 : 1 ≤ b) (hhigh : 0 < high)
    (hyM : y ≤ maxPi) (hmb : maxPi ≤ t.bound) (hm64 : maxPi < 2 ^ 64) (hsz : Nat.primeCounting y < size)
    (hpp : p b * p b ≤ ITy.u64.maxVal) (hs64 : Nat.sqrt (x / p b) ≤ ITy.u64.maxVal) (hh : high ≤ t.bound + 1)
    (hh64 : high ≤ 2 ^ 64) :
    ∃ sc ss : ℤ, acC2Kernel k t size maxPi low high (x / max low 1) (x / high) (x / p b) y b (p b) = .ok (sc, ss) ∧
      sc + ss = ∑ j ∈ Finset.Ioc (Nat.primeCounting (min (max (x / high / p b) (max (x / p b / (p b * p b)) (p b)))
                    (min (x / max low 1 / p b) (min (x / p b / p b) y))))
                  (Nat.primeCounting (min (x / max low 1 / p b) (min (x / p b / p b) y))),
                ((Nat.primeCounting (x / p b / p j) : ℤ) - b + 2) :=
  acC2Kernel_eq k hv hb1 hhigh hyM hmb hm64 hsz hpp hs64 hh hh64

/-- **`ac_segment_additive`**: for every chain of boundaries `a = l₀ ≤ l₁ ≤ … ≤ lₙ` and every leaf set `S`, leaf position `g`,
    leaf value `F`: the per-segment sums add up to the sum over `[l₀, lₙ)` — whatever the segment sizes, whoever processed them -/
theorem ac_segment_additive {S : Finset ℕ} (g : ℕ → ℕ) (F : ℕ → ℤ) (l : List ℕ) (a : ℕ)
    (h : (a :: l).Pairwise (· ≤ ·)) :
    ((chainPairs (a :: l)).map fun lh => ∑ j ∈ S.filter (fun j => lh.1 ≤ g j ∧ g j < lh.2), F j).sum
      = ∑ j ∈ S.filter (fun j => a ≤ g j ∧ g j < (a :: l).getLast (List.cons_ne_nil _ _)), F j :=
  chain_filter_sum g F l a h

/-- **A over any chain of segments** (the `A` half of `ac_loop_eq_def`; partial: the per-segment pruning `min_a … max_a` of
    AC_OpenMP and the C1 / C2 kernels are not covered): for EVERY strictly increasing chain `0 < l₁ < … < lₙ` whose top lies
    above every leaf value of the level, each segment's kernel call succeeds and the values add up to `Aidx x y b`, the inner
    sum of `Spec.A` — the definition `gourdon_decomp` uses -/
theorem ac_A_chain_total_partial (k : Kern) {t : NT} (hv : t.Valid) {size maxPi x y b : ℕ} (hb1 : 1 ≤ b) (hy : 1 ≤ y)
    (hps : p b ≤ Nat.sqrt (x / p b)) (hsm : Nat.sqrt (x / p b) ≤ maxPi) (hmb : maxPi ≤ t.bound)
    (hm64 : maxPi ≤ ITy.u64.maxVal) (hsz : Nat.primeCounting (Nat.sqrt (x / p b)) < size)
    (l : List ℕ) (hl : (0 :: l).Pairwise (· < ·))
    (htb : (0 :: l).getLast (List.cons_ne_nil _ _) ≤ t.bound + 1) (ht64 : (0 :: l).getLast (List.cons_ne_nil _ _) ≤ 2 ^ 64)
    (htop : ∀ j, b < j → x / p b / p j < (0 :: l).getLast (List.cons_ne_nil _ _)) :
    (∀ lh ∈ chainPairs (0 :: l),
      acAKernel k t size maxPi lh.1 lh.2 (x / max lh.1 1) (x / lh.2) (x / p b) y (p b) = .ok (aSeg x y b lh.1 lh.2)) ∧
    ((chainPairs (0 :: l)).map fun lh => aSeg x y b lh.1 lh.2).sum = Aidx x y b :=
  acA_chain_total k hv hb1 hy hps hsm hmb hm64 hsz l hl htb ht64 htop

/-- **C2 over any chain of segments** (partial w.r.t. `ac_loop_eq_def`: the bridge from `c2Set` — the second primes `p j` with
    `b < j`, `p j ≤ min(x / q², y)`, `x / q³ < p j`, `q = p b` — to the `μ`-presentation `Spec.Cterm`, the level pruning and C1 are
    not covered): for EVERY strictly increasing chain of segments from 0 to a top above the level's leaf values, every kernel call
    succeeds and the segment values add up to the sum over ALL of `c2Set` — no leaf twice, none lost, whatever the segment sizes -/
theorem ac_C2_chain_total_partial (k : Kern) {t : NT} (hv : t.Valid) {size maxPi x y b : ℕ} (hb1 : 1 ≤ b)
    (hyM : y ≤ maxPi) (hmb : maxPi ≤ t.bound) (hm64 : maxPi < 2 ^ 64) (hsz : Nat.primeCounting y < size)
    (hpp : p b * p b ≤ ITy.u64.maxVal) (hs64 : Nat.sqrt (x / p b) ≤ ITy.u64.maxVal)
    (l : List ℕ) (hl : (0 :: l).Pairwise (· < ·))
    (htb : (0 :: l).getLast (List.cons_ne_nil _ _) ≤ t.bound + 1) (ht64 : (0 :: l).getLast (List.cons_ne_nil _ _) ≤ 2 ^ 64)
    (htop : ∀ j ∈ c2Set x y b, x / p b / p j < (0 :: l).getLast (List.cons_ne_nil _ _)) :
    (∀ lh ∈ chainPairs (0 :: l), ∃ sc ss : ℤ,
      acC2Kernel k t size maxPi lh.1 lh.2 (x / max lh.1 1) (x / lh.2) (x / p b) y b (p b) = .ok (sc, ss) ∧
        sc + ss = c2Seg x y b lh.1 lh.2) ∧
    ((chainPairs (0 :: l)).map fun lh => c2Seg x y b lh.1 lh.2).sum
      = ∑ j ∈ c2Set x y b, ((Nat.primeCounting (x / p b / p j) : ℤ) - b + 2) :=
  acC2_chain_total k hv hb1 hyM hmb hm64 hsz hpp hs64 l hl htb ht64 htop

/-- summed over the levels `π x⋆ < b ≤ π ⌊x^(1/3)⌋` the per-level sums are Gourdon's `A` -/
theorem ac_A_levels_total (x y w c3 : ℕ) :
    ∑ b ∈ Finset.Ioc (Nat.primeCounting w) (Nat.primeCounting c3), Aidx x y b = A x y w c3 := (A_eq_index x y w c3).symm

/-! ### non-vacuity -/

/-- `x = 100000`, `y = 60`, level `b = 10` (`q = 29 > x⋆ = 28`), segments `[0, 240)`, `[240, 316)` (`316 = ⌊√x⌋`) -/
example := ac_A_chain_total_partial .ld64 (NT.build_valid 2000) (size := 18) (maxPi := 100) (x := 100000) (y := 60) (b := 10)
  (by norm_num) (by norm_num)
  (by rw [p10]; exact Nat.le_sqrt.2 (by norm_num))
  (by rw [p10]; exact Nat.le_of_lt_succ (Nat.sqrt_lt.2 (by norm_num)))
  (by show 100 ≤ 2000; norm_num) (by decide)
  (by rw [p10]
      have h : Nat.sqrt (100000 / 29) ≤ 58 := Nat.le_of_lt_succ (Nat.sqrt_lt.2 (by norm_num))
      have : Nat.primeCounting 58 = 16 := by decide
      have := Nat.monotone_primeCounting h
      omega)
  [240, 316] (by simp) (by show 316 ≤ 2000 + 1; norm_num) (by norm_num)
  (by intro j hj
      rw [p10]
      have h1 : p 11 ≤ p j := p_le_p hj
      rw [p11] at h1
      calc 100000 / 29 / p j ≤ 100000 / 29 / 31 := Nat.div_le_div_left h1 (by norm_num)
        _ < 316 := by norm_num)
example := ac_C2_segment_eq .ld64 (NT.build_valid 2000) (size := 18) (maxPi := 100) (low := 0) (high := 200)
  (x := 100000) (y := 60) (b := 7) (by norm_num) (by norm_num) (by norm_num) (by show 100 ≤ 2000; norm_num) (by norm_num)
  (by rw [show Nat.primeCounting 60 = 17 by decide]; norm_num) (by rw [p7]; decide)
  (le_trans (Nat.sqrt_le_self _) (le_trans (Nat.div_le_self _ _) (by decide)))
  (by show 200 ≤ 2000 + 1; norm_num) (by norm_num)
/-- level `b = 7` (`q = 17`), segments `[0, 240)`, `[240, 480)`: every leaf `x / (17 · p j)`, `j > 7`, is below `100000 / 17 / 19 = 309` -/
example := ac_C2_chain_total_partial .ld128 (NT.build_valid 2000) (size := 18) (maxPi := 100) (x := 100000) (y := 60) (b := 7)
  (by norm_num) (by norm_num) (by show 100 ≤ 2000; norm_num) (by norm_num)
  (by rw [show Nat.primeCounting 60 = 17 by decide]; norm_num) (by rw [p7]; decide)
  (le_trans (Nat.sqrt_le_self _) (le_trans (Nat.div_le_self _ _) (by decide)))
  [240, 480] (by simp) (by show 480 ≤ 2000 + 1; norm_num) (by norm_num)
  (by intro j hj
      unfold c2Set at hj
      rw [Finset.mem_filter, Finset.mem_Ioc] at hj
      have h1 : p 8 ≤ p j := p_le_p (by omega)
      have h2 : 19 ≤ p 8 := by
        have := p_lt_p (i := 7) (j := 8) (by norm_num) (by norm_num)
        rw [p7] at this
        have h3 := p_odd (i := 8) (by norm_num)
        omega
      rw [p7]
      calc 100000 / 17 / p j ≤ 100000 / 17 / 19 := Nat.div_le_div_left (le_trans h2 h1) (by norm_num)
        _ < 480 := by norm_num)
example := ac_A_segment_eq .plain128 (NT.build_valid 2000) (size := 18) (maxPi := 100) (low := 0) (high := 150)
  (x := 100000) (y := 60) (b := 10) (by norm_num) (by norm_num) (by norm_num)
  (by rw [p10]; exact Nat.le_sqrt.2 (by norm_num))
  (by rw [p10]; exact Nat.le_of_lt_succ (Nat.sqrt_lt.2 (by norm_num)))
  (by show 100 ≤ 2000; norm_num) (by decide)
  (by rw [p10]
      have h : Nat.sqrt (100000 / 29) ≤ 58 := Nat.le_of_lt_succ (Nat.sqrt_lt.2 (by norm_num))
      have : Nat.primeCounting 58 = 16 := by decide
      have := Nat.monotone_primeCounting h
      omega)
  (by show 150 ≤ 2000 + 1; norm_num) (by norm_num)

end Pc.C08EasyAC

#print axioms Pc.C08EasyAC.ac_A_index_lemma
#print axioms Pc.C08EasyAC.ac_A_weight_lemma
#print axioms Pc.C08EasyAC.ac_A_segment_eq
#print axioms Pc.C08EasyAC.ac_libdivide_eq_A
#print axioms Pc.C08EasyAC.ac_C2_index_lemma
#print axioms Pc.C08EasyAC.ac_C2_segment_eq
#print axioms Pc.C08EasyAC.ac_segment_additive
#print axioms Pc.C08EasyAC.ac_A_chain_total_partial
#print axioms Pc.C08EasyAC.ac_C2_chain_total_partial
#print axioms Pc.C08EasyAC.ac_A_levels_total
