/-
C08 (also C03 / C11), wp-easy + wp-ac2 — the A + C formulas of Gourdon's algorithm (src/gourdon/AC.cpp, AC_libdivide.cpp): the real
control flow (model PcModel/EasyAC.lean) computes `Spec.A + Spec.C`, the two terms of `gourdon_decomp`.

Proved here: the `A` kernel (`A`, `A_64`, `A_128`) and the `C2` kernel (`C2`, `C2_64`, `C2_128`) for ONE (segment, b) return exactly
the leaves of that segment, every table read in bounds; the `C1<MU>` recursion started at any node returns the signed sum over
the squarefree `m` below it (`c1_eq`); one iteration of the C1 loop is `Spec.Cterm` (`ac_C1_level_eq`); above `π√z` every `m` of
`Spec.Cterm` is one of the second primes `C2` enumerates (`ac_C2_leaves_eq_Cterm`); the per-segment level pruning
(`min_c2 … max_c2`, `min_a … max_a`) loses no leaf (`ac_segment_levels_pruned`); every leaf lies below `⌊√x⌋`
(`ac_leaf_below_sqrt`); hence `ac_loop_eq_def` / `ac_entry_eq_def`: `AC_OpenMP` = `Spec.A + Spec.C` for every admissible
`(y, z, k, x⋆)`, every distribution of the C1 iterations, every chain of segments covering `[0, ⌊√x⌋)` processed in any order, both
division variants (AC.cpp, AC_libdivide.cpp).
-/
import PcProofs.EasyACEx
import PcProofs.EasyAC8
import PcProofs.EasyAC9
import PcModel.Drv.EasyAC

namespace Pc.C08EasyAC
open Pc.Spec Pc.Easy

/-- **index lemma of `A`** (exact, no boundary case): prime index `j` is visited by the two loops of `A` for the segment
    `[low, high)` iff `b < j ≤ π ⌊√xp⌋` and `low ≤ xp / p j < high` (`xp = x / prime`, `xlow = x / max(low, 1)`, `xhigh = x / high`)
    — adjacent segments can neither share nor skip a leaf; `low = 0` (where `xlow = x`) included -/
theorem ac_A_index_lemma {x prime low high j : ℕ} (hp : 0 < prime) (hhigh : 0 < high) (hj1 : 1 ≤ j) :
    (Nat.primeCounting (max prime (min (x / high / prime) (Nat.sqrt (x / prime)))) < j ∧
      j ≤ Nat.primeCounting (min (x / max low 1 / prime) (Nat.sqrt (x / prime))))
    ↔ (Nat.primeCounting prime < j ∧ j ≤ Nat.primeCounting (Nat.sqrt (x / prime))) ∧
        low ≤ x / prime / p j ∧ x / prime / p j < high :=
  a_visit_iff hp hhigh hj1

/-- the first loop (weight 1) takes exactly the leaves with `y ≤ xp / p j` -/
theorem ac_A_weight_lemma {xp y j : ℕ} (hy : 0 < y) : p j ≤ xp / y ↔ y ≤ xp / p j := a_weight_iff hy

/-- **`A` for one (segment, b)**, any kernel `k` (AC.cpp 64/128-bit, `A_64` with libdivide, `A_128`): for `p b ≤ ⌊√(x / p b)⌋`,
    tables reaching `⌊√(x / p b)⌋` and the segment: the value is
    `Σ_{b < j ≤ π√xp, low ≤ xp / p j < high} (if y ≤ xp / p j then 1 else 2) · π(xp / p j)`; `.ok` = all reads in bounds -/
theorem ac_A_segment_eq (k : Kern) {t : NT} (hv : t.Valid) {size maxPi low high x y b : ℕ} (hb1 : 1 ≤ b) (hy : 1 ≤ y)
    (hhigh : 0 < high) (hps : p b ≤ Nat.sqrt (x / p b)) (hsm : Nat.sqrt (x / p b) ≤ maxPi) (hmb : maxPi ≤ t.bound)
    (hm64 : maxPi ≤ ITy.u64.maxVal) (hsz : Nat.primeCounting (Nat.sqrt (x / p b)) < size) (hh : high ≤ t.bound + 1)
    (hh64 : high ≤ 2 ^ 64) :
    acAKernel k t size maxPi low high (x / max low 1) (x / high) (x / p b) y (p b)
      = .ok (∑ j ∈ (Finset.Ioc b (Nat.primeCounting (Nat.sqrt (x / p b)))).filter
              (fun j => low ≤ x / p b / p j ∧ x / p b / p j < high),
            (if y ≤ x / p b / p j then (1 : ℤ) else 2) * (Nat.primeCounting (x / p b / p j) : ℤ)) :=
  acAKernel_eq k hv hb1 hy hhigh hps hsm hmb hm64 hsz hh hh64

/-- **`ac_libdivide_eq` for `A`**: the libdivide kernel `A_64` (branchfree division modelled as its specification `x / d`,
    `d ≥ 2`; libdivide itself is trusted / corresponded), `A_128` and AC.cpp's `A` compute the same value -/
theorem ac_libdivide_eq_A (k k' : Kern) {t : NT} (hv : t.Valid) {size maxPi low high x y b : ℕ} (hb1 : 1 ≤ b) (hy : 1 ≤ y)
    (hhigh : 0 < high) (hps : p b ≤ Nat.sqrt (x / p b)) (hsm : Nat.sqrt (x / p b) ≤ maxPi) (hmb : maxPi ≤ t.bound)
    (hm64 : maxPi ≤ ITy.u64.maxVal) (hsz : Nat.primeCounting (Nat.sqrt (x / p b)) < size) (hh : high ≤ t.bound + 1)
    (hh64 : high ≤ 2 ^ 64) :
    acAKernel k t size maxPi low high (x / max low 1) (x / high) (x / p b) y (p b)
      = acAKernel k' t size maxPi low high (x / max low 1) (x / high) (x / p b) y (p b) := by
  rw [acAKernel_eq k hv hb1 hy hhigh hps hsm hmb hm64 hsz hh hh64,
    acAKernel_eq k' hv hb1 hy hhigh hps hsm hmb hm64 hsz hh hh64]

/-- **index lemma of `C2`** (exact): `π min_m < j ≤ π max_m` iff `p j` is a second prime of the level — `prime < p j ≤ min(xp / prime, y)`,
    `xp / prime² < p j` — whose leaf lies in the segment, `low ≤ xp / p j < high` -/
theorem ac_C2_index_lemma {x y prime low high j : ℕ} (hp : 0 < prime) (hhigh : 0 < high) (hj1 : 1 ≤ j) :
    (Nat.primeCounting (min (max (x / high / prime) (max (x / prime / (prime * prime)) prime))
          (min (x / max low 1 / prime) (min (x / prime / prime) y))) < j ∧
      j ≤ Nat.primeCounting (min (x / max low 1 / prime) (min (x / prime / prime) y)))
    ↔ (prime < p j ∧ p j ≤ x / prime / prime ∧ p j ≤ y ∧ x / prime / (prime * prime) < p j) ∧
        low ≤ x / prime / p j ∧ x / prime / p j < high :=
  c2_visit_iff hp hhigh hj1

/-- **`C2` for one (segment, b)**, any kernel (AC.cpp 64/128-bit, `C2_64` with libdivide, `C2_128`): the clustered loop (with its
    `max(xpq2, min_clustered)` clamp) plus the sparse loop return the sum of `π(xp / p j) - b + 2` over `π min_m < j ≤ π max_m`,
    i.e. (`ac_C2_index_lemma`) over exactly the level's leaves inside the segment; `.ok` = all `primes[·]`, `pi[·]`,
    `segmentedPi[·]` reads in bounds, no `div` trap, no unsigned wrap, every clustered step makes progress -/
theorem ac_C2_segment_eq (k : Kern) {t : NT} (hv : t.Valid) {size maxPi low high x y b : ℕ} (hb1 : 1 ≤ b) (hhigh : 0 < high)
    (hyM : y ≤ maxPi) (hmb : maxPi ≤ t.bound) (hm64 : maxPi < 2 ^ 64) (hsz : Nat.primeCounting y < size)
    (hpp : p b * p b ≤ ITy.u64.maxVal) (hs64 : Nat.sqrt (x / p b) ≤ ITy.u64.maxVal) (hh : high ≤ t.bound + 1)
    (hh64 : high ≤ 2 ^ 64) :
    ∃ sc ss : ℤ, acC2Kernel k t size maxPi low high (x / max low 1) (x / high) (x / p b) y b (p b) = .ok (sc, ss) ∧
      sc + ss = ∑ j ∈ Finset.Ioc (Nat.primeCounting (min (max (x / high / p b) (max (x / p b / (p b * p b)) (p b)))
                    (min (x / max low 1 / p b) (min (x / p b / p b) y))))
                  (Nat.primeCounting (min (x / max low 1 / p b) (min (x / p b / p b) y))),
                ((Nat.primeCounting (x / p b / p j) : ℤ) - b + 2) :=
  acC2Kernel_eq k hv hb1 hhigh hyM hmb hm64 hsz hpp hs64 hh hh64

/-- **`ac_segment_additive`**: for every chain of boundaries `a = l₀ ≤ l₁ ≤ … ≤ lₙ` and every leaf set `S`, leaf position `g`,
    leaf value `F`: the per-segment sums add up to the sum over `[l₀, lₙ)` — whatever the segment sizes, whoever processed them -/
theorem ac_segment_additive {S : Finset ℕ} (g : ℕ → ℕ) (F : ℕ → ℤ) (l : List ℕ) (a : ℕ)
    (h : (a :: l).Pairwise (· ≤ ·)) :
    ((chainPairs (a :: l)).map fun lh => ∑ j ∈ S.filter (fun j => lh.1 ≤ g j ∧ g j < lh.2), F j).sum
      = ∑ j ∈ S.filter (fun j => a ≤ g j ∧ g j < (a :: l).getLast (List.cons_ne_nil _ _)), F j :=
  chain_filter_sum g F l a h

/-- **A over any chain of segments** (the `A` half of `ac_loop_eq_def`, one level, the kernel alone — the pruning `min_a … max_a`
    is `ac_segment_levels_pruned`): for EVERY strictly increasing chain `0 < l₁ < … < lₙ` whose top lies
    above every leaf value of the level, each segment's kernel call succeeds and the values add up to `Aidx x y b`, the inner
    sum of `Spec.A` — the definition `gourdon_decomp` uses -/
theorem ac_A_chain_total (k : Kern) {t : NT} (hv : t.Valid) {size maxPi x y b : ℕ} (hb1 : 1 ≤ b) (hy : 1 ≤ y)
    (hps : p b ≤ Nat.sqrt (x / p b)) (hsm : Nat.sqrt (x / p b) ≤ maxPi) (hmb : maxPi ≤ t.bound)
    (hm64 : maxPi ≤ ITy.u64.maxVal) (hsz : Nat.primeCounting (Nat.sqrt (x / p b)) < size)
    (l : List ℕ) (hl : (0 :: l).Pairwise (· < ·))
    (htb : (0 :: l).getLast (List.cons_ne_nil _ _) ≤ t.bound + 1) (ht64 : (0 :: l).getLast (List.cons_ne_nil _ _) ≤ 2 ^ 64)
    (htop : ∀ j, b < j → x / p b / p j < (0 :: l).getLast (List.cons_ne_nil _ _)) :
    (∀ lh ∈ chainPairs (0 :: l),
      acAKernel k t size maxPi lh.1 lh.2 (x / max lh.1 1) (x / lh.2) (x / p b) y (p b) = .ok (aSeg x y b lh.1 lh.2)) ∧
    ((chainPairs (0 :: l)).map fun lh => aSeg x y b lh.1 lh.2).sum = Aidx x y b :=
  acA_chain_total k hv hb1 hy hps hsm hmb hm64 hsz l hl htb ht64 htop

/-- **C2 over any chain of segments** (one level, the kernel alone; the bridge from `c2Set` — the second primes `p j` with
    `b < j`, `p j ≤ min(x / q², y)`, `x / q³ < p j`, `q = p b` — to the `μ`-presentation `Spec.Cterm` is `ac_C2_leaves_eq_Cterm`,
    the level pruning `ac_segment_levels_pruned`): for EVERY strictly increasing chain of segments from 0 to a top above the level's leaf values, every kernel call
    succeeds and the segment values add up to the sum over ALL of `c2Set` — no leaf twice, none lost, whatever the segment sizes -/
theorem ac_C2_chain_total (k : Kern) {t : NT} (hv : t.Valid) {size maxPi x y b : ℕ} (hb1 : 1 ≤ b)
    (hyM : y ≤ maxPi) (hmb : maxPi ≤ t.bound) (hm64 : maxPi < 2 ^ 64) (hsz : Nat.primeCounting y < size)
    (hpp : p b * p b ≤ ITy.u64.maxVal) (hs64 : Nat.sqrt (x / p b) ≤ ITy.u64.maxVal)
    (l : List ℕ) (hl : (0 :: l).Pairwise (· < ·))
    (htb : (0 :: l).getLast (List.cons_ne_nil _ _) ≤ t.bound + 1) (ht64 : (0 :: l).getLast (List.cons_ne_nil _ _) ≤ 2 ^ 64)
    (htop : ∀ j ∈ c2Set x y b, x / p b / p j < (0 :: l).getLast (List.cons_ne_nil _ _)) :
    (∀ lh ∈ chainPairs (0 :: l), ∃ sc ss : ℤ,
      acC2Kernel k t size maxPi lh.1 lh.2 (x / max lh.1 1) (x / lh.2) (x / p b) y b (p b) = .ok (sc, ss) ∧
        sc + ss = c2Seg x y b lh.1 lh.2) ∧
    ((chainPairs (0 :: l)).map fun lh => c2Seg x y b lh.1 lh.2).sum
      = ∑ j ∈ c2Set x y b, ((Nat.primeCounting (x / p b / p j) : ℤ) - b + 2) :=
  acC2_chain_total k hv hb1 hyM hmb hm64 hsz hpp hs64 l hl htb ht64 htop

/-- summed over the levels `π x⋆ < b ≤ π ⌊x^(1/3)⌋` the per-level sums are Gourdon's `A` -/
theorem ac_A_levels_total (x y w c3 : ℕ) :
    ∑ b ∈ Finset.Ioc (Nat.primeCounting w) (Nat.primeCounting c3), Aidx x y b = A x y w c3 := (A_eq_index x y w c3).symm


/-! ### wp-ac2: C1, the bridge to `Spec.Cterm`, the level pruning, the whole of `AC_OpenMP` -/

/-- **`c1_eq`** — `C1<MU>(xp, b, i, pi_y, m, min_m, max_m, primes, pi)` entered at ANY node `(i, m)` with any sign `MU` and
    accumulator returns `acc - MU · (Σ_{S ⊆ (i, π y], min_m < m·∏S ≤ max_m} (-1)^|S| (π(xp / (m·∏S)) - b + 2) - [node itself])`: every
    squarefree multiple of `m` by primes of larger index in `(min_m, max_m]` exactly once with the sign of `μ`; the early `return`
    (`m128 > max_m`) loses no leaf (`c1G_break`); `.ok` = `primes[·]`, `pi[·]` in bounds, `(T) m * primes[i]` inside the operand
    type, no `div` trap, no wrap of `pi[xpm] - b + 2` -/
theorem c1_eq (k : Kern) {t : NT} (hv : t.Valid) {w : ITy} {size maxPi y xp b minM maxM : ℕ}
    (hsz : Nat.primeCounting y < size) (hy : y ≤ t.bound) (hw : maxM * y ≤ w.maxVal) (hmb : maxPi ≤ t.bound)
    (hm64 : maxPi < 2 ^ 64)
    (hread : ∀ m', minM < m' → m' ≤ maxM → xp / m' ≤ maxPi ∧ b ≤ Nat.primeCounting (xp / m') + 2)
    (mu : ℤ) (i m : ℕ) (acc : ℤ) (hm1 : 1 ≤ m) (hmM : m ≤ maxM) :
    Easy.c1 k t w size maxPi (Nat.primeCounting y) xp b minM maxM mu i m acc
      = .ok (acc - mu * (c1G xp b (Nat.primeCounting y) minM maxM i m - c1Node xp b minM maxM m)) :=
  Easy.c1_eq k hv hsz hy hw hmb hm64 hread _ i rfl mu m acc hm1 hmM

/-- the leaves below the root `(b, 1)` with the `min_m`, `max_m` of AC.cpp:250-259 are `Spec.Cterm x y z b` (all `m`, prime or not) -/
theorem ac_C1_leaves_eq_Cterm (x y z b : ℕ) :
    c1G (x / p b) b (Nat.primeCounting y) (min (max (x / p b / (p b * p b)) (z / p b)) (min (x / p b / p b) z))
      (min (x / p b / p b) z) b 1 = Cterm x y z b :=
  c1G_one_eq_Cterm x y z b

/-- **one iteration `b ≤ π√z` of the C1 loop** returns `Spec.Cterm x y z b` (which `AC_OpenMP` subtracts) -/
theorem ac_C1_level_eq {t : NT} (hv : t.Valid) {w : ITy} {size maxPi x y z b : ℕ} (hb1 : 1 ≤ b)
    (hbz : b ≤ Nat.primeCounting (Nat.sqrt z)) (hyz : y ≤ z) (hzx : z ≤ x) (hsz : Nat.primeCounting y < size) (hbs : b < size)
    (hzM : z ≤ maxPi) (hmb : maxPi ≤ t.bound) (hm63 : maxPi ≤ ITy.i64.maxVal) (hw : z * y ≤ w.maxVal) :
    acC1Level t w size maxPi (Nat.primeCounting y) x z b = .ok (Cterm x y z b) :=
  acC1Level_eq hv hb1 hbz hyz hzx hsz hbs hzM hmb hm63 hw

/-- levels `p b ≤ ⌊(x/z)^(1/3)⌋` (below the C1 loop's start `pi_root3_xz + 1`) have no C-leaf -/
theorem ac_C_empty_below_root3_xz {x y z b : ℕ} (hz : 0 < z) (hb : p b ≤ irootN 3 (x / z)) : Cterm x y z b = 0 :=
  Cterm_eq_zero_low hz (irootN_spec 3 (x / z) (by omega)).1 hb

/-- **above `π√z` every `m` of `Spec.Cterm` is a prime**: the level's C-leaves are the second primes `c2Set` of `C2`, `μ = -1` -/
theorem ac_C2_leaves_eq_Cterm {x y z b : ℕ} (hyz : y ≤ z) (hb : Nat.primeCounting (Nat.sqrt z) < b) (hby : p b ≤ y) :
    Cterm x y z b = - ∑ j ∈ c2Set x y b, ((Nat.primeCounting (x / p b / p j) : ℤ) - b + 2) :=
  Cterm_eq_c2 hyz hb hby

/-- **every A / C2 leaf lies in `[0, ⌊√x⌋)`**, the range the segments of `AC_OpenMP` cover: `p < q`, `x < q p³` (A: `x < p⁴` as
    `p > x⋆ ≥ x^(1/4)`; C2: `x / p³ < q`) ⟹ `x / (p q) < ⌊√x⌋` -/
theorem ac_leaf_below_sqrt {x p q : ℕ} (hx : 1 ≤ x) (hp : 1 ≤ p) (hpq : p < q) (h : x < q * p * p * p) :
    x / p / q < Nat.sqrt x := leaf_lt_sqrt hx hp hpq h

/-- **the level pruning of a segment loses no leaf** (AC.cpp:282-307): for EVERY segment `[low, high)`, `low < high ≤ ⌊√x⌋`, the
    loops `b = min_c2 … max_c2`, `b = min_a … max_a` return the sums of the per-level segment values over ALL levels
    `max(k, π√z) < b ≤ π x⋆` resp. `π x⋆ < b ≤ π ⌊x^(1/3)⌋` — the skipped levels (`b ≤ pi[isqrt(low)]`, `pi[min(xhigh / y, x⋆)]`,
    `pi_root3_xy`, `pi[min(xhigh / high, x13)]`; `b > pi[isqrt(xlow)]`) have no leaf in the segment; every call `.ok` -/
theorem ac_segment_levels_pruned (f : ACFile) {t : NT} {w : ITy} {x y z k xs maxAPrime : ℕ}
    (g : GParams x y z k xs (irootN 3 x)) (hb : ACBounds t w x y z xs maxAPrime) {low high : ℕ} (hlh : low < high)
    (hhs : high ≤ Nat.sqrt x) :
    acSegment f t w (acPreVal x y z maxAPrime) x y k xs low high
      = .ok (∑ b ∈ Finset.Ioc (max k (Nat.primeCounting (Nat.sqrt z))) (Nat.primeCounting xs), c2Seg x y b low high,
             ∑ b ∈ Finset.Ioc (Nat.primeCounting xs) (Nat.primeCounting (irootN 3 x)), aSeg x y b low high) :=
  acSegment_eq f g hb hlh hhs

/-- **`ac_loop_eq_def`: `AC_OpenMP` = A + C** — for EVERY admissible `(y, z, k, x⋆)` (`GParams`: `x^(1/3) < y ≤ z ≤ √x`,
    `x⋆` with `x < (x⋆+1)⁴`, `x < (x⋆+1) y²`, `x⋆ ≤ √(x/y)`, `k ≤ π x⋆`), every `max_a_prime ≥ ⌊√(x / x⋆)⌋`, tables as `AC_OpenMP`
    sizes them (`ACBounds`), both files (`f`: AC.cpp / AC_libdivide.cpp with its per-`b` 64/128 dispatch), both operand
    widths, EVERY distribution `c1sched` of the C1 iterations over the threads, EVERY strictly increasing chain
    `0 = l₀ < l₁ < … < lₙ = ⌊√x⌋` of segment boundaries with the segments processed in ANY order (`segs` a permutation) -/
theorem ac_loop_eq_def (f : ACFile) {t : NT} {w : ITy} {x y z k xs maxAPrime : ℕ} (g : GParams x y z k xs (irootN 3 x))
    (hb : ACBounds t w x y z xs maxAPrime) {c1sched : List (List ℕ)}
    (hs : IsSchedule (max k (Nat.primeCounting (irootN 3 (x / z))) + 1) (Nat.primeCounting (Nat.sqrt z)) c1sched)
    (l : List ℕ) (hl : (0 :: l).Pairwise (· < ·)) (hlast : (0 :: l).getLast (List.cons_ne_nil _ _) = Nat.sqrt x)
    {segs : List (ℕ × ℕ)} (hsegs : segs.Perm (chainPairs (0 :: l))) :
    acOpenMP f t w x y z k xs maxAPrime c1sched segs = .ok (A x y xs (irootN 3 x) + C x y z k xs) :=
  acOpenMP_eq f g hb hs l hl hlast hsegs

/-- **`AC(x, y, z, k, threads)` = A + C** with `x⋆ = get_x_star_gourdon(x, y)`, on the parameter domain of `pi_gourdon`
    (`x^(1/3) < y ≤ z ≤ √x`, `k ≤ π ⌊x^(1/4)⌋`), `x < 2^127` in the operand type, `x / y` an `int64_t`, a table reaching `z` and
    `⌊√x⌋`; the C1 schedule in the model's own terms (`c1Lo … c1Hi`) -/
theorem ac_entry_eq_def (f : ACFile) {t : NT} (hv : t.Valid) {w : ITy} {x y z k : ℕ} (hy : irootN 3 x < y) (hy2 : y * y ≤ x)
    (hyz : y ≤ z) (hz : z * z ≤ x) (hk : k ≤ Nat.primeCounting (irootN 4 x)) (hx : x < 2 ^ 127) (hxw : x ≤ w.maxVal)
    (hxy63 : x / y ≤ ITy.i64.maxVal) (hs : Nat.sqrt x ≤ t.bound) (hzb : z ≤ t.bound) (h63 : t.bound ≤ ITy.i64.maxVal)
    {c1sched : List (List ℕ)} (hsched : IsSchedule (c1Lo t x z k) (c1Hi t z) c1sched)
    (l : List ℕ) (hl : (0 :: l).Pairwise (· < ·)) (hlast : (0 :: l).getLast (List.cons_ne_nil _ _) = Nat.sqrt x)
    {segs : List (ℕ × ℕ)} (hsegs : segs.Perm (chainPairs (0 :: l))) :
    acEntry f t w x y z k c1sched segs = .ok (A x y (xStar x y) (irootN 3 x) + C x y z k (xStar x y)) := by
  have g := gparams_xStar hy hy2 hyz hz hk
  rw [c1Lo_eq hv g hzb, c1Hi_eq hv hzb] at hsched
  exact acEntry_eq f g (acBounds_of hv hx hxw hxy63 hs hzb h63) hsched l hl hlast hsegs

/-- the driver's segmentation (`uniformSegs`: every `get_work` hands out one segment of size `segSize`) is a chain
    `0 < segSize < 2·segSize < … < top` -/
theorem uniform_segments_are_chain {top ss : ℕ} (hss : 1 ≤ ss) (htop : 1 ≤ top) :
    uniformSegs top ss = chainPairs (0 :: uniformBounds top ss) ∧ (0 :: uniformBounds top ss).Pairwise (· < ·) ∧
    (0 :: uniformBounds top ss).getLast (List.cons_ne_nil _ _) = top := uniformSegs_chain hss htop

/-- **what the ops `AC_loop` / `AC_plain` / `AC_segs` of pcdrv print IS `A + C`**: the mirror run with the round-robin C1 schedule of
    `nt` threads and uniform segments of ANY size `segSize ≥ 1` -/
theorem ac_loop_op (f : ACFile) {t : NT} (hv : t.Valid) {w : ITy} {x y z k : ℕ} (hy : irootN 3 x < y) (hy2 : y * y ≤ x)
    (hyz : y ≤ z) (hz : z * z ≤ x) (hk : k ≤ Nat.primeCounting (irootN 4 x)) (hx : x < 2 ^ 127) (hxw : x ≤ w.maxVal)
    (hxy63 : x / y ≤ ITy.i64.maxVal) (hs : Nat.sqrt x ≤ t.bound) (hzb : z ≤ t.bound) (h63 : t.bound ≤ ITy.i64.maxVal)
    (nt : ℕ) {segSize : ℕ} (hss : 1 ≤ segSize) :
    acEntry f t w x y z k (easySched (c1Lo t x z k) (c1Hi t z) nt) (uniformSegs (isqrtN x) segSize)
      = .ok (A x y (xStar x y) (irootN 3 x) + C x y z k (xStar x y)) := by
  have hx1 : 1 ≤ x := (gparams_facts (gparams_xStar hy hy2 hyz hz hk)).2.1
  have htop : 1 ≤ Nat.sqrt x := Nat.le_sqrt.2 (by omega)
  obtain ⟨e1, e2, e3⟩ := uniformSegs_chain hss htop
  rw [isqrtN_eq, e1]
  exact ac_entry_eq_def f hv hy hy2 hyz hz hk hx hxw hxy63 hs hzb h63
    (staticSched1_isSchedule _ _ (lt_of_lt_of_le Nat.zero_lt_one (le_max_right nt 1))) _ e2 e3 (List.Perm.refl _)

/-! ### non-vacuity -/

/-- `x = 100000`, `y = 60`, level `b = 10` (`q = 29 > x⋆ = 28`), segments `[0, 240)`, `[240, 316)` (`316 = ⌊√x⌋`) -/
example := ac_A_chain_total .ld64 (NT.build_valid 2000) (size := 18) (maxPi := 100) (x := 100000) (y := 60) (b := 10)
  (by norm_num) (by norm_num)
  (by rw [p10]; exact Nat.le_sqrt.2 (by norm_num))
  (by rw [p10]; exact Nat.le_of_lt_succ (Nat.sqrt_lt.2 (by norm_num)))
  (by show 100 ≤ 2000; norm_num) (by decide)
  (by rw [p10]
      have h : Nat.sqrt (100000 / 29) ≤ 58 := Nat.le_of_lt_succ (Nat.sqrt_lt.2 (by norm_num))
      have : Nat.primeCounting 58 = 16 := by decide
      have := Nat.monotone_primeCounting h
      omega)
  [240, 316] (by simp) (by show 316 ≤ 2000 + 1; norm_num) (by norm_num)
  (by intro j hj
      rw [p10]
      have h1 : p 11 ≤ p j := p_le_p hj
      rw [p11] at h1
      calc 100000 / 29 / p j ≤ 100000 / 29 / 31 := Nat.div_le_div_left h1 (by norm_num)
        _ < 316 := by norm_num)
example := ac_C2_segment_eq .ld64 (NT.build_valid 2000) (size := 18) (maxPi := 100) (low := 0) (high := 200)
  (x := 100000) (y := 60) (b := 7) (by norm_num) (by norm_num) (by norm_num) (by show 100 ≤ 2000; norm_num) (by norm_num)
  (by rw [show Nat.primeCounting 60 = 17 by decide]; norm_num) (by rw [p7]; decide)
  (le_trans (Nat.sqrt_le_self _) (le_trans (Nat.div_le_self _ _) (by decide)))
  (by show 200 ≤ 2000 + 1; norm_num) (by norm_num)
/-- level `b = 7` (`q = 17`), segments `[0, 240)`, `[240, 480)`: every leaf `x / (17 · p j)`, `j > 7`, is below `100000 / 17 / 19 = 309` -/
example := ac_C2_chain_total .ld128 (NT.build_valid 2000) (size := 18) (maxPi := 100) (x := 100000) (y := 60) (b := 7)
  (by norm_num) (by norm_num) (by show 100 ≤ 2000; norm_num) (by norm_num)
  (by rw [show Nat.primeCounting 60 = 17 by decide]; norm_num) (by rw [p7]; decide)
  (le_trans (Nat.sqrt_le_self _) (le_trans (Nat.div_le_self _ _) (by decide)))
  [240, 480] (by simp) (by show 480 ≤ 2000 + 1; norm_num) (by norm_num)
  (by intro j hj
      unfold c2Set at hj
      rw [Finset.mem_filter, Finset.mem_Ioc] at hj
      have h1 : p 8 ≤ p j := p_le_p (by omega)
      have h2 : 19 ≤ p 8 := by
        have := p_lt_p (i := 7) (j := 8) (by norm_num) (by norm_num)
        rw [p7] at this
        have h3 := p_odd (i := 8) (by norm_num)
        omega
      rw [p7]
      calc 100000 / 17 / p j ≤ 100000 / 17 / 19 := Nat.div_le_div_left (le_trans h2 h1) (by norm_num)
        _ < 480 := by norm_num)
example := ac_A_segment_eq .plain128 (NT.build_valid 2000) (size := 18) (maxPi := 100) (low := 0) (high := 150)
  (x := 100000) (y := 60) (b := 10) (by norm_num) (by norm_num) (by norm_num)
  (by rw [p10]; exact Nat.le_sqrt.2 (by norm_num))
  (by rw [p10]; exact Nat.le_of_lt_succ (Nat.sqrt_lt.2 (by norm_num)))
  (by show 100 ≤ 2000; norm_num) (by decide)
  (by rw [p10]
      have h : Nat.sqrt (100000 / 29) ≤ 58 := Nat.le_of_lt_succ (Nat.sqrt_lt.2 (by norm_num))
      have : Nat.primeCounting 58 = 16 := by decide
      have := Nat.monotone_primeCounting h
      omega)
  (by show 150 ≤ 2000 + 1; norm_num) (by norm_num)
/-- `AC(100000, 60, 100, 2)` of AC_libdivide.cpp: C1 iterations round-robin over 3 threads, segments `[240, 316)`, `[0, 240)` in
    this order -/
example := ac_entry_eq_def .libdivide (NT.build_valid 2000) (w := .u64) (x := 100000) (y := 60) (z := 100) (k := 2)
  (by rw [irootN_eq_of (r := 46) (by norm_num) (by norm_num) (by norm_num)]; norm_num)
  (by norm_num) (by norm_num) (by norm_num)
  (by rw [irootN_eq_of (r := 17) (by norm_num) (by norm_num) (by norm_num),
        show Nat.primeCounting 17 = 7 by decide]; norm_num)
  (by norm_num) (by decide) (by decide)
  (by show Nat.sqrt 100000 ≤ 2000; exact (Nat.sqrt_lt.2 (by norm_num)).le) (by show 100 ≤ 2000; norm_num)
  (by show 2000 ≤ _; decide) (staticSched1_isSchedule _ _ (nt := 3) (by norm_num))
  [240, 316] (by simp) (by show 316 = Nat.sqrt 100000; exact Nat.eq_sqrt.2 ⟨by norm_num, by norm_num⟩)
  (segs := [(240, 316), (0, 240)]) (List.Perm.swap _ _ _)
/-- `C1` at level `b = 4` (`q = 7`) of `x = 100000`, `y = 60`, `z = 316`: `min_m = 291`, `max_m = 316`; the composite leaf `m = 13 · 23` -/
example := c1_eq .plain64 (NT.build_valid 2000) (w := .u64) (size := 18) (maxPi := 316) (y := 60) (xp := 14285) (b := 4)
  (minM := 291) (maxM := 316) (by rw [show Nat.primeCounting 60 = 17 by decide]; norm_num) (by show 60 ≤ 2000; norm_num)
  (by decide) (by show 316 ≤ 2000; norm_num) (by norm_num)
  (by intro m' h1 h2
      have h3 : 14285 / m' ≤ 14285 / 292 := Nat.div_le_div_left h1 (by norm_num)
      have h4 : 14285 / 316 ≤ 14285 / m' := Nat.div_le_div_left h2 (by omega)
      have h5 := Nat.monotone_primeCounting h4
      have h6 : Nat.primeCounting (14285 / 316) = 14 := by decide
      constructor
      · exact le_trans h3 (by norm_num)
      · omega)
  (-1) 4 1 0 (by norm_num) (by norm_num)
example := ac_loop_op .plain (NT.build_valid 2000) (w := .u128) (x := 100000) (y := 60) (z := 100) (k := 2)
  (by rw [irootN_eq_of (r := 46) (by norm_num) (by norm_num) (by norm_num)]; norm_num)
  (by norm_num) (by norm_num) (by norm_num)
  (by rw [irootN_eq_of (r := 17) (by norm_num) (by norm_num) (by norm_num),
        show Nat.primeCounting 17 = 7 by decide]; norm_num)
  (by norm_num) (by decide) (by decide)
  (by show Nat.sqrt 100000 ≤ 2000; exact (Nat.sqrt_lt.2 (by norm_num)).le) (by show 100 ≤ 2000; norm_num)
  (by show 2000 ≤ _; decide) 4 (segSize := 240) (by norm_num)

end Pc.C08EasyAC

#print axioms Pc.C08EasyAC.ac_A_index_lemma
#print axioms Pc.C08EasyAC.ac_A_weight_lemma
#print axioms Pc.C08EasyAC.ac_A_segment_eq
#print axioms Pc.C08EasyAC.ac_libdivide_eq_A
#print axioms Pc.C08EasyAC.ac_C2_index_lemma
#print axioms Pc.C08EasyAC.ac_C2_segment_eq
#print axioms Pc.C08EasyAC.ac_segment_additive
#print axioms Pc.C08EasyAC.ac_A_chain_total
#print axioms Pc.C08EasyAC.ac_C2_chain_total
#print axioms Pc.C08EasyAC.ac_A_levels_total
#print axioms Pc.C08EasyAC.c1_eq
#print axioms Pc.C08EasyAC.ac_C1_leaves_eq_Cterm
#print axioms Pc.C08EasyAC.ac_C1_level_eq
#print axioms Pc.C08EasyAC.ac_C_empty_below_root3_xz
#print axioms Pc.C08EasyAC.ac_C2_leaves_eq_Cterm
#print axioms Pc.C08EasyAC.ac_leaf_below_sqrt
#print axioms Pc.C08EasyAC.ac_segment_levels_pruned
#print axioms Pc.C08EasyAC.ac_loop_eq_def
#print axioms Pc.C08EasyAC.ac_entry_eq_def
#print axioms Pc.C08EasyAC.uniform_segments_are_chain
#print axioms Pc.C08EasyAC.ac_loop_op
