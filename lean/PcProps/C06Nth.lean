/-
C06 (WP nth) — `nth_prime(n)` on top of the REAL iterator model and the `pi` contract; the glue of src/nth_prime.cpp.
Only property theorems, non-vacuity examples and the axiom audit live here.
Model: PcModel/NthIt.lean (`Pc.NthIt.nthPrimeCpp`: src/nth_prime.cpp:86-129 with the walk on the `Pc.It` state machine of
`primesieve::iterator`, `cNthPrime`: api_c.cpp:74-85, `cliNthPrime`: app/main.cpp:402-403 + `to_int64`).
`Spec.p n = Nat.nth Nat.Prime (n - 1)` is the n-th prime (`p 1 = 2`), `π = Nat.primeCounting`.
The named contracts (`NthIt.Env.Contracts`): `core` = `It.GenSpec` (sieving core, WP iter / WP core), `pi` = `primecount::pi = π` on
int64 (WP top: C01Top `piApi64_step` / `pi_noprint_is_pi`), `piCache` (C17), `approx_range` (RiemannR_inverse returns a value in
`[0, 2^63)` — NOTHING about its accuracy); plus the literature constant `hlit : p max_n < 2^63` (max_n = π(2^63)).
-/
import PcProofs.NthItWalk

namespace Pc.C06Nth
open Pc.NthIt Pc.It

local notation "π" => Nat.primeCounting

/-- the k-th `next_prime()` of a fresh `primesieve::iterator(start, hint)` is the k-th prime `≥ start` — for every hint, float
    outcome and batching, any core meeting `GenSpec` (as long as that prime is below 2^63, where the int64 conversion is exact) -/
theorem kth_next_prime (e : It.Env) (he : GenSpec e) (start hint k : ℕ) (init : ℤ) (hs : start ≤ umax) (hh : hint ≤ umax)
    (hb : Nat.nth Nat.Prime (Nat.count Nat.Prime start + k) < 2 ^ 63) :
    nextLoop e (k + 1) (It.init start hint) init = .ok ((Nat.nth Nat.Prime (Nat.count Nat.Prime start + k) : ℕ) : ℤ) :=
  nextLoop_eq e he k _ start init (fwdInv_init start hint hs hh) hb

/-- the k-th `prev_prime()` of a fresh iterator is the k-th prime `≤ start` counted downwards (`k ≤ π start`) -/
theorem kth_prev_prime (e : It.Env) (he : GenSpec e) (start hint k : ℕ) (init : ℤ) (hs : start < 2 ^ 63) (hk : k + 1 ≤ π start) :
    prevLoop e (k + 1) (It.init start hint) init = .ok ((Nat.nth Nat.Prime (π start - (k + 1)) : ℕ) : ℤ) :=
  prevLoop_eq e he k _ start init (bwdInv_init start hint (by unfold umax; omega)) hk hs

/-- one `next_prime()` under the forward invariant: the smallest prime `≥ m`, nothing skipped or repeated -/
theorem next_prime_step (e : It.Env) (he : GenSpec e) (s : St) (m : ℕ) (h : FwdInv s m) (hex : ∃ p, p.Prime ∧ m ≤ p ∧ p ≤ umax) :
    ∃ q s', nextPrime e s = .ok (q, s') ∧ IsNextP m q ∧ FwdInv s' (q + 1) := nextPrime_step e he s m h hex

/-- one `prev_prime()` under the backward invariant: the largest prime `≤ t` -/
theorem prev_prime_step (e : It.Env) (he : GenSpec e) (s : St) (t : ℕ) (h : BwdInv s t) (hex : ∃ r, r.Prime ∧ r ≤ t) :
    ∃ p s', prevPrime e s = .ok (p, s') ∧ IsPrevP t p ∧ BwdInv s' (p - 1) := prevPrime_step e he s t h hex

/-- the walk of nth_prime.cpp:106-128 for EVERY approximation `a ∈ [0, 2^63)` — a prime, below 2, `π a = n` exactly, off by any
    distance in either direction — and every `ilog` outcome (= every stop hint): it ends on the n-th prime -/
theorem walk_any_approx (e : It.Env) (he : GenSpec e) (a n : ℕ) (lg : ℤ) (hn : 1 ≤ n) (ha : a < 2 ^ 63) (hp : Spec.p n < 2 ^ 63) :
    walkIt e (a : ℤ) (n : ℤ) ((π a : ℕ) : ℤ) lg = .ok ((Spec.p n : ℕ) : ℤ) := walkIt_eq e he a n lg hn ha hp

/-- **`nth_prime_cpp_correct`**: `nth_prime(n)` returns the n-th prime for every `1 ≤ n ≤ max_n` -/
theorem nth_prime_cpp_correct (env : NthIt.Env) (henv : env.Contracts) (hlit : Spec.p Gen.nthPrimeMaxN < 2 ^ 63) (n : ℕ)
    (h1 : 1 ≤ n) (h2 : n ≤ Gen.nthPrimeMaxN) : nthPrimeCpp env (n : ℤ) = .ok ((Spec.p n : ℕ) : ℤ) :=
  nthPrimeCpp_ok env henv hlit n h1 h2

/-- the result fits int64 and inverts π: `π (nth_prime n) = n` -/
theorem nth_prime_cpp_inverts_pi (env : NthIt.Env) (henv : env.Contracts) (hlit : Spec.p Gen.nthPrimeMaxN < 2 ^ 63) (n : ℕ)
    (h1 : 1 ≤ n) (h2 : n ≤ Gen.nthPrimeMaxN) :
    ∃ q : ℕ, nthPrimeCpp env (n : ℤ) = .ok (q : ℤ) ∧ q < 2 ^ 63 ∧ q.Prime ∧ π q = n ∧ π (q - 1) = n - 1 := by
  refine ⟨Spec.p n, nthPrimeCpp_ok env henv hlit n h1 h2, ?_, Spec.p_prime (by omega), nthp_pi_p h1, ?_⟩
  · rcases Nat.eq_or_lt_of_le h2 with rfl | hlt
    · exact hlit
    · exact lt_trans (nthp_p_strictMono h1 hlt) hlit
  · rw [Nat.primeCounting_sub_one, nthp_p_eq_nth]
    exact Nat.primeCounting'_nth_eq _

/-- outside `[1, max_n]`: an error, never a number (no hypothesis on the callees) -/
theorem nth_prime_cpp_domain (env : NthIt.Env) (n : ℤ) (h : n < 1 ∨ n > (Gen.nthPrimeMaxN : ℤ)) :
    nthPrimeCpp env n = .error (if n < 1 then .tooSmall else .tooLarge) := nthPrimeCpp_err env n h

/-- `primecount_nth_prime` returns −1 EXACTLY on the domain errors (and the n-th prime otherwise) -/
theorem primecount_nth_prime_minus_one_iff (env : NthIt.Env) (henv : env.Contracts) (hlit : Spec.p Gen.nthPrimeMaxN < 2 ^ 63)
    (n : ℤ) : NthIt.cNthPrime env n = -1 ↔ (n < 1 ∨ n > (Gen.nthPrimeMaxN : ℤ)) := by
  constructor
  · intro h
    by_contra hc
    obtain ⟨k, rfl⟩ : ∃ k : ℕ, n = (k : ℤ) := ⟨n.toNat, by omega⟩
    unfold NthIt.cNthPrime at h
    rw [nthPrimeCpp_ok env henv hlit k (by omega) (by omega)] at h
    simp only at h
    omega
  · intro h
    unfold NthIt.cNthPrime
    rw [nthPrimeCpp_err env n h]

theorem primecount_nth_prime_value (env : NthIt.Env) (henv : env.Contracts) (hlit : Spec.p Gen.nthPrimeMaxN < 2 ^ 63) (n : ℕ)
    (h1 : 1 ≤ n) (h2 : n ≤ Gen.nthPrimeMaxN) : NthIt.cNthPrime env (n : ℤ) = ((Spec.p n : ℕ) : ℤ) := by
  unfold NthIt.cNthPrime; rw [nthPrimeCpp_ok env henv hlit n h1 h2]

/-- `primecount <x> --nth-prime` for EVERY evaluated number `x` (a 128-bit `maxint_t`, any integer here): outside int64 →
    `to_int64` rejects (never narrowed to another n), inside int64 but outside `[1, max_n]` → `nth_prime`'s error, else the
    x-th prime -/
theorem cli_nth_prime (env : NthIt.Env) (henv : env.Contracts) (hlit : Spec.p Gen.nthPrimeMaxN < 2 ^ 63) (x : ℤ) :
    cliNthPrime env x =
      if x < -(2 : ℤ) ^ 63 ∨ (2 : ℤ) ^ 63 ≤ x then .error .range
      else if x < 1 then .error (.nth .tooSmall)
      else if x > (Gen.nthPrimeMaxN : ℤ) then .error (.nth .tooLarge)
      else .ok ((Spec.p x.toNat : ℕ) : ℤ) := by
  unfold cliNthPrime Calc.cliToInt64
  by_cases hr : -(2 : ℤ) ^ 63 ≤ x ∧ x < (2 : ℤ) ^ 63
  · rw [if_pos hr, if_neg (by omega)]
    simp only []
    by_cases h1 : x < 1
    · rw [nthPrimeCpp_err env x (Or.inl h1), if_pos h1, if_pos h1]
    · rw [if_neg h1]
      by_cases h2 : x > (Gen.nthPrimeMaxN : ℤ)
      · rw [nthPrimeCpp_err env x (Or.inr h2), if_neg h1, if_pos h2]
      · rw [if_neg h2]
        obtain ⟨k, rfl⟩ : ∃ k : ℕ, x = (k : ℤ) := ⟨x.toNat, by omega⟩
        rw [nthPrimeCpp_ok env henv hlit k (by omega) (by omega), Int.toNat_natCast]
  · rw [if_neg hr, if_pos (by omega)]

/-- the result does not depend on the approximation, the `ilog` outcome, the iterator's floats, batching or core -/
theorem nth_prime_cpp_env_irrelevant (env env' : NthIt.Env) (henv : env.Contracts) (henv' : env'.Contracts)
    (hlit : Spec.p Gen.nthPrimeMaxN < 2 ^ 63) (n : ℕ) (h1 : 1 ≤ n) (h2 : n ≤ Gen.nthPrimeMaxN) :
    nthPrimeCpp env (n : ℤ) = nthPrimeCpp env' (n : ℤ) := by
  rw [nthPrimeCpp_ok env henv hlit n h1 h2, nthPrimeCpp_ok env' henv' hlit n h1 h2]

/-! non-vacuity: the contracts are satisfiable for EVERY approximation function with values in `[0, 2^63)`, every `ilog`, floats and
    batching (the reference core `refEnv` of WP iter); concrete runs of the model in both directions (tests) -/

/-- the environment used below: reference core, arbitrary floats / batch sizes / approximation / ilog -/
noncomputable def exEnv (fl : Floats) (batch : ℕ → ℕ) (approx : ℕ → ℕ) (ilog : ℤ → ℤ) : NthIt.Env where
  ie := refEnv fl batch
  approx := fun n => ((approx n.toNat % 2 ^ 63 : ℕ) : ℤ)
  pi := fun x => ((π x.toNat : ℕ) : ℤ)
  ilog := ilog
  piCache := fun x => π x

theorem exEnv_contracts (fl : Floats) (batch : ℕ → ℕ) (approx : ℕ → ℕ) (ilog : ℤ → ℤ) : (exEnv fl batch approx ilog).Contracts where
  core := refEnv_spec fl batch
  pi := fun x _ => by simp [exEnv]
  piCache := fun _ _ => rfl
  approx_range := fun n _ => ⟨approx n % 2 ^ 63, Nat.mod_lt _ (by norm_num), by simp [exEnv]⟩

example (fl : Floats) (batch : ℕ → ℕ) (approx : ℕ → ℕ) (ilog : ℤ → ℤ) (hlit : Spec.p Gen.nthPrimeMaxN < 2 ^ 63) :
    nthPrimeCpp (exEnv fl batch approx ilog) 5 = .ok 11 := by
  have := nthPrimeCpp_ok _ (exEnv_contracts fl batch approx ilog) hlit 5 (by norm_num) (by decide)
  simpa [Spec.p] using this

/-- the model itself runs (kernel evaluation of the iterator state machine, batches of 3, all floats 0):
    approximation 10 with `π 10 = 4`: n = 4 → one `prev_prime()` → 7; n = 2 → three → 3; n = 6 → two `next_prime()` from 11 → 13;
    approximation 7 (a prime with `π 7 = n`) → 7; approximation 0 → forward from 1 -/
example : walkIt (refEnv ⟨fun _ => 0, fun _ => 0, fun _ => 0, fun _ => 0⟩ (fun _ => 3)) 10 4 4 2 = .ok 7 := by decide +kernel
example : walkIt (refEnv ⟨fun _ => 0, fun _ => 0, fun _ => 0, fun _ => 0⟩ (fun _ => 3)) 10 2 4 2 = .ok 3 := by decide +kernel
example : walkIt (refEnv ⟨fun _ => 0, fun _ => 0, fun _ => 0, fun _ => 0⟩ (fun _ => 3)) 10 6 4 2 = .ok 13 := by decide +kernel
example : walkIt (refEnv ⟨fun _ => 0, fun _ => 0, fun _ => 0, fun _ => 0⟩ (fun _ => 3)) 7 4 4 1 = .ok 7 := by decide +kernel
example : walkIt (refEnv ⟨fun _ => 0, fun _ => 0, fun _ => 0, fun _ => 0⟩ (fun _ => 3)) 0 3 0 0 = .ok 5 := by decide +kernel
/-- `prime_approx = INT64_MAX` with `count_approx < n` would be the signed overflow `prime_approx + 1`; excluded by `hlit` -/
example (e : It.Env) : walkIt e i64Max 5 4 43 = .error .ub := by simp [walkIt, i64Max]

example (env : NthIt.Env) : NthIt.cNthPrime env 0 = -1 := by
  unfold NthIt.cNthPrime; rw [nthPrimeCpp_err env 0 (by norm_num)]
example (env : NthIt.Env) : cliNthPrime env (-(2 ^ 64 - 100)) = .error .range := by
  unfold cliNthPrime Calc.cliToInt64; rw [if_neg (by norm_num)]

end Pc.C06Nth

#print axioms Pc.C06Nth.kth_next_prime
#print axioms Pc.C06Nth.kth_prev_prime
#print axioms Pc.C06Nth.next_prime_step
#print axioms Pc.C06Nth.prev_prime_step
#print axioms Pc.C06Nth.walk_any_approx
#print axioms Pc.C06Nth.nth_prime_cpp_correct
#print axioms Pc.C06Nth.nth_prime_cpp_inverts_pi
#print axioms Pc.C06Nth.nth_prime_cpp_domain
#print axioms Pc.C06Nth.primecount_nth_prime_minus_one_iff
#print axioms Pc.C06Nth.primecount_nth_prime_value
#print axioms Pc.C06Nth.cli_nth_prime
#print axioms Pc.C06Nth.nth_prime_cpp_env_irrelevant
#print axioms Pc.C06Nth.exEnv_contracts
