/-
C14 — the C API never throws, signals errors with -1 and respects the caller's buffer.
Only property theorems, non-vacuity examples and the axiom audit live here.

Model: PcModel/CApi.lean (`cWrap`, `cPiStr` with explicit stores `cPiStrW`). The C++ counterpart is a
parameter (`Except ε _`): these theorems hold for every behaviour of `primecount::pi(std::string)` etc.
`len ≤ 2^31` is the assumption under which `(int) pix.length()` is the length itself.
-/
import PcProofs.CApi

namespace Pc.C14

variable {ε : Type}

/-- Scalar wrappers: success ⇒ the C++ value, failure ⇒ -1, exactly one diagnostic line iff failure. -/
theorem cWrap_eq :
    (∀ v : Int, cWrap (ε := ε) (.ok v) = v) ∧ (∀ e : ε, cWrap (.error e) = -1) ∧
    (∀ r : Except ε Int, cDiagLines r = 1 ↔ ∃ e, r = .error e) ∧
    (∀ r : Except ε Int, cDiagLines r = 0 ↔ ∃ v, r = .ok v) := by
  refine ⟨fun _ => rfl, fun _ => rfl, fun r => ?_, fun r => ?_⟩ <;> cases r <;> simp [cDiagLines]

/-- Since π, φ, nth_prime and the thread count are never negative, -1 is an unambiguous error signal. -/
theorem cWrap_minus1_iff (r : Except ε Int) (hnn : ∀ v, r = .ok v → 0 ≤ v) :
    cWrap r = -1 ↔ ∃ e, r = .error e := by
  cases r with
  | error e => simp [cWrap]
  | ok v =>
    have := hnn v rfl
    simp only [cWrap, reduceCtorEq, exists_false, iff_false]
    omega

/-- primecount_pi_str stores only at indices `< len`. On success (`ret ≥ 0`): `ret + 1 ≤ len`, the first `ret`
    bytes are the digits of the C++ result, byte `ret` is NUL and every byte beyond it is untouched. -/
theorem cPiStr_bounds (x? res? : Option (List Nat)) (len : Nat) (piStr : List Nat → Except ε (List Nat))
    (hbuf : ∀ buf, res? = some buf → buf.length = len) (hlen : len ≤ 2 ^ 31) :
    (∀ w ∈ (cPiStrW x? res? len piStr).2, w.1 < len) ∧
    (0 ≤ (cPiStr x? res? len piStr).1 →
      ∃ x buf digits buf', x? = some x ∧ res? = some buf ∧ piStr x = .ok digits ∧
        (cPiStr x? res? len piStr).2 = some buf' ∧
        (cPiStr x? res? len piStr).1 = (digits.length : Int) ∧ digits.length + 1 ≤ len ∧
        buf'.length = len ∧ (∀ i, i < digits.length → buf'[i]? = digits[i]?) ∧
        buf'[digits.length]? = some 0 ∧ (∀ i, digits.length < i → buf'[i]? = buf[i]?)) := by
  rcases cPiStrTry_cases x? res? len piStr with ⟨_, f, hf⟩ | ⟨x, buf, d, hx, hr, hp, hl, hok⟩
  · constructor
    · intro w hw
      simp only [cPiStrW, hf] at hw
      split at hw
      · rename_i hc
        simp only [List.mem_singleton] at hw
        subst hw
        simp only [Bool.and_eq_true, decide_eq_true_eq] at hc
        exact hc.2
      · simp at hw
    · intro h
      simp [cPiStr, cPiStrW, hf] at h
  · have hbl := hbuf buf hr
    constructor
    · intro w hw
      simp only [cPiStrW, hok, List.mem_append, List.mem_singleton] at hw
      rcases hw with hw | rfl
      · have := copyWrites_index 0 d w hw; omega
      · simp only; omega
    · intro _
      have hs := applyWrites_success buf d (by omega)
      refine ⟨x, buf, d, applyWrites buf (copyWrites 0 d ++ [(d.length, 0)]), hx, hr, hp, ?_, ?_, hl, ?_, hs.2.1, hs.2.2.1, hs.2.2.2⟩
      · subst hr; simp [cPiStr, cPiStrW, hok]
      · simp only [cPiStr, cPiStrW, hok]
        exact toCInt_small _ (by omega)
      · rw [hs.1]; exact hbl

/-- `ret = -1` exactly when an argument is NULL, the C++ function fails or the buffer cannot hold digits + NUL.
    Then the only store is `res[0] = 0` (when `res` is not NULL and `len > 0`): nothing truncated is left behind. -/
theorem cPiStr_error (x? res? : Option (List Nat)) (len : Nat) (piStr : List Nat → Except ε (List Nat))
    (hlen : len ≤ 2 ^ 31) :
    ((cPiStr x? res? len piStr).1 = -1 ↔ PiStrFails x? res? len piStr) ∧
    ((cPiStr x? res? len piStr).1 = -1 → ∀ buf, res? = some buf →
      (cPiStr x? res? len piStr).2 = some (if len > 0 then buf.set 0 0 else buf)) ∧
    ((cPiStr x? res? len piStr).1 = -1 ↔ cPiStrDiagLines x? res? len piStr = 1) := by
  rcases cPiStrTry_cases x? res? len piStr with ⟨hfail, f, hf⟩ | ⟨x, buf, d, hx, hr, hp, hl, hok⟩
  · refine ⟨by simp [cPiStr, cPiStrW, hf, hfail], ?_, by simp [cPiStr, cPiStrW, hf, cPiStrDiagLines, cDiagLines]⟩
    intro _ buf hr
    subst hr
    by_cases h0 : len > 0 <;> simp [cPiStr, cPiStrW, hf, h0, applyWrites]
  · have hnf := not_fails_of_success x? res? len piStr x buf d hx hr hp hl
    have hret : (cPiStr x? res? len piStr).1 = (d.length : Int) := by
      simp only [cPiStr, cPiStrW, hok]; exact toCInt_small _ (by omega)
    have hne : (cPiStr x? res? len piStr).1 ≠ -1 := by rw [hret]; omega
    refine ⟨by simp [hne, hnf], fun h => absurd h hne, ?_⟩
    simp [hne, cPiStrDiagLines, cDiagLines, hok]

/-- the return value is the length of the C++ result string (never a shorter, truncated count) -/
theorem cPiStr_len (x? res? : Option (List Nat)) (len : Nat) (piStr : List Nat → Except ε (List Nat))
    (hlen : len ≤ 2 ^ 31) :
    (cPiStr x? res? len piStr).1 = -1 ∨
      ∃ x d, x? = some x ∧ piStr x = .ok d ∧ (cPiStr x? res? len piStr).1 = (d.length : Int) := by
  rcases cPiStrTry_cases x? res? len piStr with ⟨_, f, hf⟩ | ⟨x, buf, d, hx, hr, hp, hl, hok⟩
  · left; simp [cPiStr, cPiStrW, hf]
  · right
    refine ⟨x, d, hx, hp, ?_⟩
    simp only [cPiStr, cPiStrW, hok]; exact toCInt_small _ (by omega)

/-- whenever `len > 0` and `res` is not NULL the buffer holds a NUL-terminated string afterwards -/
theorem cPiStr_terminated (x? res? : Option (List Nat)) (len : Nat) (piStr : List Nat → Except ε (List Nat))
    (buf : List Nat) (hr : res? = some buf) (hbl : buf.length = len) (hlen : len ≤ 2 ^ 31) (hpos : 0 < len) :
    ∃ buf' i, (cPiStr x? res? len piStr).2 = some buf' ∧ i < len ∧ buf'[i]? = some 0 := by
  rcases cPiStr_len x? res? len piStr hlen with h | ⟨x, d, hx, hp, hret⟩
  · have := (cPiStr_error x? res? len piStr hlen).2.1 h buf hr
    refine ⟨_, 0, this, hpos, ?_⟩
    simp only [hpos, if_true]
    exact List.getElem?_set_self (by omega)
  · obtain ⟨x', buf0, d', buf', hx', hr', hp', h2, _, hl, _, _, hz, _⟩ :=
      (cPiStr_bounds x? res? len piStr (fun b hb => by rw [hr] at hb; cases hb; exact hbl) hlen).2
        (by rw [hret]; omega)
    exact ⟨buf', d'.length, h2, by omega, hz⟩

/-- No exception escapes: every function declared in primecount.h (generated list `Gen.cApiFns`) either is
    `try { … } catch (const std::exception&) { …; return -1; }` or only returns literals; every class type
    thrown anywhere in primecount/primesieve (generated list `Gen.thrownTypes`) derives from std::exception and
    there is no `throw` of a non-class operand. Hence a normal return is passed on and every modelled throw
    is observed as -1. (`cObserve … = none` would be an exception crossing the C boundary.) -/
theorem c_no_escape (f : CFn) (hf : f ∈ Gen.cApiFns) :
    (f.shape = .tryCatchStdException ∨ f.shape = .literalReturn) ∧
    (∀ v, cObserve f.shape (.returns v) = some v) ∧
    (f.shape = .tryCatchStdException → ∀ t ∈ Gen.thrownTypes,
      t.base = .stdException ∧ cObserve f.shape (.throws .stdDerived) = some (-1)) ∧
    Gen.nonClassThrows = [] := by
  have hs := Gen.cApiFns_shape
  rw [List.all_eq_true] at hs
  have h1 := hs f hf
  have ht := Gen.thrownTypes_std
  rw [List.all_eq_true] at ht
  refine ⟨?_, fun v => by cases f.shape <;> rfl, ?_, Gen.nonClassThrows_nil⟩
  · simp only [CFn.shapeOk, Bool.or_eq_true, Bool.and_eq_true, beq_iff_eq] at h1
    rcases h1 with ⟨h, _⟩ | h
    · exact Or.inl h
    · exact Or.inr h
  · intro hsh t htm
    refine ⟨by simpa using ht t htm, ?_⟩
    rw [hsh]; rfl

/-! non-vacuity: concrete instances (tests, labelled as such) -/
example : cPiStr (ε := Unit) (some [49, 48, 48]) (some [7, 7, 7, 7, 7]) 5 (fun _ => .ok [50, 53]) =
    (2, some [50, 53, 0, 7, 7]) := by decide
example : cPiStr (ε := Unit) (some [49, 48, 48]) (some [7, 7]) 2 (fun _ => .ok [50, 53]) =
    (-1, some [0, 7]) := by decide
example : cPiStr (ε := Unit) (some [49, 48, 48]) (some []) 0 (fun _ => .ok [50, 53]) = (-1, some []) := by decide
example : cPiStr (ε := Unit) none (some [7, 7, 7]) 3 (fun _ => .ok [50, 53]) = (-1, some [0, 7, 7]) := by decide
example : cPiStr (ε := Unit) (some [49]) none 3 (fun _ => .ok [48]) = (-1, none) := by decide
example : cPiStr (ε := Unit) (some [49]) (some [7, 7, 7]) 3 (fun _ => .error ()) = (-1, some [0, 7, 7]) := by decide
example : ∃ f, f ∈ Gen.cApiFns ∧ f.shape = .tryCatchStdException := ⟨_, List.mem_cons_self, rfl⟩

end Pc.C14

#print axioms Pc.C14.cWrap_eq
#print axioms Pc.C14.cWrap_minus1_iff
#print axioms Pc.C14.cPiStr_bounds
#print axioms Pc.C14.cPiStr_error
#print axioms Pc.C14.cPiStr_len
#print axioms Pc.C14.cPiStr_terminated
#print axioms Pc.C14.c_no_escape
