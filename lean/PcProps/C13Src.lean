/-
C13 — the tie between the hand-written models of this property and /repo's CURRENT source text.

`translator/extract_srcmirror.py` re-reads, on every run, each C++ function that a model of this property mirrors,
normalises it to a statement sequence (`PcGen/SrcMirror<Group>Data.lean`) and emits one obligation per function:
the sequence equals the one recorded when the model was written (`translator/srcmirror_expected.json`). A change to
a mirrored function breaks the obligation that names it; the check then searches for a failing input with the
property's correspondence streams and reports `no-failing-input-found` when the change is harmless (the model is
then re-read against the new text and the recording refreshed).
-/
import PcGen.SrcMirrorCalcObl

namespace Pc.C13Src

/-- every function of group `Calc` mirrored by a model has, in /repo now, the text the model was written against -/
theorem models_mirror_source_Calc : Pc.SrcMirror.Calc.AllText := Pc.SrcMirror.Calc.all_text

end Pc.C13Src

#print axioms Pc.C13Src.models_mirror_source_Calc
