/-
C02 (WP close2, item 4, follow-up): `pi_gourdon_64/128` = π(x) for the TINY arguments `2 ≤ x < 8`, where the clamps of pi_gourdon.cpp
degenerate (`√x − 1 ≤ x^(1/3)`: `y = z = 1` whatever the floats, `k = get_k(x) = 0`, `x⋆ = 1`) and Gourdon's identity (`Spec.GParams`) does not apply.
Each term by the model of its real control flow: Sigma = −1 (`sigma_eq_NT`, `NT.Sigma` evaluated from `NT.Valid`), Phi0 = φ(x, 0) = x
(`phi0OpenMP_eq`), AC = 0 (`ac_entry_tiny`: C1 has no iteration, every segment has `max_c2 = max_a = π(min(·, 1)) = 0`), B = Σ_{1 < q ≤ √x} π(x / q)
(`bOpenMP_eq_sharp`), D = 0 or `badRun` (`dThread_eq_noleaf`), and `0 − B + 0 + x − 1 = π(x)` for the six arguments.
With PcProps/C02ClosedSmall.lean the excluded set of the Gourdon theorems shrinks from `2 ≤ x < 2401` to **`8 ≤ x ≤ 15`**:
`x = 8` (`y = 1 < x^(1/3) = 2`: `sigma_eq_NT` does not apply) and `9 ≤ x ≤ 15` (`y = z = 2`: the C2 loop of AC is not empty for `x = 9, 10, 11`).
Only property theorems, non-vacuity examples and the axiom audit live here.
-/
import PcProofs.Close2TinyEx

namespace Pc.C02ClosedTiny
open Pc.Top Pc.Hard Pc.LB Nat
open scoped Nat.Prime

/-- **`ac_entry_tiny`** — the model of `AC` (AC.cpp / AC_libdivide.cpp) on the degenerate parameters `(y, z, k) = (1, 1, 0)`, `2 ≤ x < 8`: for every
    distribution of the (empty) C1 loop and every chain of segments `0 < … < ⌊√x⌋` in any order it returns 0, with no out-of-bounds read -/
theorem ac_entry_tiny (f : Easy.ACFile) {t : NT} (hv : t.Valid) (hb : 2 ≤ t.bound) (w : ITy) {x : ℕ} (h2 : 2 ≤ x) (h8 : x < 8)
    {c1sched : List (List ℕ)} (hs : IsSchedule (Easy.c1Lo t x 1 0) (Easy.c1Hi t 1) c1sched)
    (l : List ℕ) (hl : (0 :: l).Pairwise (· < ·)) (hlast : (0 :: l).getLast (List.cons_ne_nil _ _) = Nat.sqrt x)
    {segs : List (ℕ × ℕ)} (hsegs : segs.Perm (Easy.chainPairs (0 :: l))) :
    Easy.acEntry f t w x 1 1 0 c1sched segs = .ok 0 :=
  Easy.acEntry_tiny f hv hb w h2 h8 hs l hl hlast hsegs

/-- **`piGourdon_tiny_eq_pi`** — `pi_gourdon_64/128(x)` for `2 ≤ x < 8`, generic tables `T`, from `TablesOK` and `GExecC` alone (no hook, no model
    hypothesis): the result is π(x), or `badRun` for a recorded D history that is not a run of the dispenser -/
theorem piGourdon_tiny_eq_pi {σ : Type} (T : Tables σ) {B : ℕ} (hT : TablesOK T B) (pi : ℕ → ℕ) (wide : Bool) (n : ℕ)
    (h2 : 2 ≤ n) (h8 : n < 8) (threads : ℤ) (isPrint : Bool) (r : GRun)
    (hpi : ∀ m : ℕ, m < n → pi m = π m) (hex : GExecC T B wide n r) :
    piGourdon T pi wide (n : ℤ) threads isPrint r = .ok (π n : ℤ) ∨
      piGourdon T pi wide (n : ℤ) threads isPrint r = .error (.hard .badRun) :=
  piGourdon_tiny_lt8 T hT pi wide n h2 h8 threads isPrint r hpi hex

/-- **`piGourdon_eq_pi_lt8_or_ge16_partial`** — `piGourdon_eq_pi` (PcProps/C02Closed.lean) with the domain restriction weakened to `x < 8 ∨ 16 ≤ x`.
    MISSING for the unrestricted statement (hence `_partial`): `8 ≤ x ≤ 15` (see the header). -/
theorem piGourdon_eq_pi_lt8_or_ge16_partial {σ : Type} (T : Tables σ) {B : ℕ} (hT : TablesOK T B) (pi : ℕ → ℕ) (wide : Bool) (x : ℤ)
    (hx : InType wide x) (hsmall : x < 8 ∨ 16 ≤ x) (threads : ℤ) (isPrint : Bool) (r : GRun)
    (hpi : ∀ n : ℕ, (n : ℤ) < x → n < 2 ^ 63 → pi n = π n) (hex : 2 ≤ x → GExecC T B wide x.toNat r) :
    piGourdon T pi wide x threads isPrint r = .ok (π x.toNat : ℤ) ∨
      piGourdon T pi wide x threads isPrint r = .error (.hard .badRun) :=
  piGourdon_total_closed_wide T hT pi wide x hx hsmall threads isPrint r hpi hex

/-- the same with the iterator contract up to `N` only (the form the world theorems use) -/
theorem piGourdon_eq_pi_to_lt8_or_ge16_partial {σ : Type} (T : Tables σ) {B N : ℕ} (hT : TablesOK (T.withIt (P2L.patch T.it N)) B)
    (hit : P2L.IterSpecTo T.it N) (hN : 2 ^ 64 - 2 ^ 32 ≤ N) (pi : ℕ → ℕ) (wide : Bool) (x : ℤ)
    (hx : InType wide x) (hsmall : x < 8 ∨ 16 ≤ x) (threads : ℤ) (isPrint : Bool) (r : GRun)
    (hpi : ∀ n : ℕ, (n : ℤ) < x → n < 2 ^ 63 → pi n = π n) (hex : 2 ≤ x → GExecC T B wide x.toNat r) :
    piGourdon T pi wide x threads isPrint r = .ok (π x.toNat : ℤ) ∨
      piGourdon T pi wide x threads isPrint r = .error (.hard .badRun) :=
  piGourdon_total_to_wide T hT hit hN pi wide x hx hsmall threads isPrint r hpi hex

/-! non-vacuity (tests, labelled as such): a complete execution of `pi_gourdon_64(5)` -/

/-- the float envelope on the floats of `pi_gourdon_64(5)` (`alpha_y = alpha_z = 1`); the clamps give `y = z = 1`, `k = 0` -/
example : GourdonEnv 5 1 1 extGFloats := extGEnv
example : gY 5 extGFloats.v = 1 ∧ gZ 5 1 (extGFloats.w 1) = 1 ∧ getK 5 = 0 := ⟨extGY, extGZ, extGK⟩
/-- a recorded valid run of B's region: chunk `[2, 5)` -/
example : extBRun.valid LB.genConsts 5 (5 / max 1 1) = true := by decide
/-- a COMPLETE instance of the hypotheses at `x = 5`, and the theorems applied to it (empty D history ⇒ the model answers `badRun`) -/
example : GExecC (idealTables 3000) 100 false 5 (extGRun (idealTables 3000).t) :=
  extGExecC_of _ rfl (by show 5 ≤ 3000; norm_num) (by show 3000 ≤ _; decide)
example := piGourdon_tiny_eq_pi (idealTables 3000) (idealTables_ok 3000 100) Nat.primeCounting false 5 (by norm_num) (by norm_num) 1 false
  (extGRun (idealTables 3000).t) (fun _ _ => rfl) (extGExecC_of _ rfl (by show 5 ≤ 3000; norm_num) (by show 3000 ≤ _; decide))
example := piGourdon_eq_pi_lt8_or_ge16_partial (idealTables 3000) (idealTables_ok 3000 100) Nat.primeCounting false 5
  (by unfold InType; norm_num) (Or.inl (by norm_num)) 1 false (extGRun (idealTables 3000).t) (fun _ _ _ => rfl)
  (fun _ => extGExecC_of _ rfl (by show 5 ≤ 3000; norm_num) (by show 3000 ≤ _; decide))

end Pc.C02ClosedTiny

#print axioms Pc.C02ClosedTiny.ac_entry_tiny
#print axioms Pc.C02ClosedTiny.piGourdon_tiny_eq_pi
#print axioms Pc.C02ClosedTiny.piGourdon_eq_pi_lt8_or_ge16_partial
#print axioms Pc.C02ClosedTiny.piGourdon_eq_pi_to_lt8_or_ge16_partial
