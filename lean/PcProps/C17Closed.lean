/-
C17 closed (WP close, item 4) — the table contracts that the loop theorems of C08 / C02 / C01 ASSUME (`EnvOK`, `FactorOK`, `FactorDOK`,
`NT.Valid`, `SieveSpec`, the bundle `Pc.Top.TablesOK`) hold for the tables that the C17 constructor MODELS build, for every `y`, `z`
and every thread count.  Only property theorems, non-vacuity examples and the axiom audit live here.

Vocabulary: `realHardEnv gen threads phiNeg wide y z` / `realDEnv …` = what `S2_hard_default` + `S2_hard_OpenMP` / `D_default` + `D_OpenMP`
allocate (FactorTable(y) / FactorTableD(y, z) by `factorTableNew` / `factorTableDNew`, `generate_primes(max_prime)`, `PiTable(max_prime,
threads)` by `PiTable.new`, `phi_vector` by `PhiVec.phiVector`), PcProofs/CloseTablesEnv.lean.  `realTmax wide n` = the `T_MAX` of the entry
type the callers choose for the table bound `n`.  Named hypotheses that remain: `PrimeGenSpec gen` (the prime generator; discharged by
`genC18_spec` for the C18 generator model), `PhiNegSpec phiNeg A` (the `PhiCache` inside `phi_vector` returns `−φ`: C07),
`P2L.IterSpec it` (the primesieve iterator of P2 / B: C18 `buffer_contract`).
-/
import PcProofs.CloseTablesGen
import PcProofs.CloseTablesDrv
import PcProofs.CloseTablesPhiC07
import PcProofs.P2LoopEx

namespace Pc.C17Closed
open Pc.Hard Pc.Close Pc.Drv Pc.PhiVec Pc.Top

/-- the cast lemma between `FactorDOK.val` and `factorTableD_correct` -/
theorem toNat_max13 (y : ℕ) : (max (13 : ℤ) ((y : ℤ) + 1)).toNat = max 13 (y + 1) := Pc.Close.toNat_max13 y

/-- the entry type chosen for a table bound holds that bound — for EVERY `n` — and is the code's choice (`uint16_t`, or `uint32_t` in the
    128-bit instantiation) wherever the real constructor does not throw -/
theorem realTmax_fits (wide : Bool) (n : ℕ) :
    3 ≤ realTmax wide n ∧ realTmax wide n % 2 = 1 ∧ n ≤ ftMax (realTmax wide n) ∧
    (InFtDomain wide n → realTmax wide n = if wide = true ∧ decide (n > ftMax 65535) = true then 4294967295 else 65535) :=
  ⟨realTmax_ge wide n, realTmax_odd wide n, le_ftMax_realTmax wide n, realTmax_eq_code⟩

/-- `FactorOK` for every environment reading the array `FactorTable<T>(y, threads)` builds -/
theorem factorOK_of_ctor (gen : PrimeGen) (hg : PrimeGenSpec gen) (tmax : ℕ) (htm : 3 ≤ tmax) (hodd : tmax % 2 = 1)
    (y : ℕ) (threads : ℤ) (hy : y ≤ ftMax tmax) :
    ∃ arr, factorTableNew gen tmax (y : ℤ) threads = some arr ∧
      ∀ e : Env, e.factor = hlFactorOf arr → e.factorSize = arr.size → FactorOK e tmax y :=
  Pc.Close.factorOK_of_ctor gen hg tmax htm hodd y threads hy

/-- `FactorDOK` for every environment reading the array `FactorTableD<T>(y, z, threads)` builds -/
theorem factorDOK_of_ctor (gen : PrimeGen) (hg : PrimeGenSpec gen) (tmax : ℕ) (htm : 3 ≤ tmax) (hodd : tmax % 2 = 1)
    (y z : ℕ) (threads : ℤ) (hz : z ≤ ftMax tmax) :
    ∃ arr, factorTableDNew gen tmax (y : ℤ) (z : ℤ) threads = some arr ∧
      ∀ e : Env, e.factor = hlFactorOf arr → e.factorSize = arr.size → FactorDOK e tmax y z :=
  Pc.Close.factorDOK_of_ctor gen hg tmax htm hodd y z threads hz

/-- `phi_vector(x, a).size() = a + 1` -/
theorem phiVector_length (primes : ℕ → ℕ) (piX sqrtX : ℕ) (phiNeg : ℕ → ℕ → ℤ) (x a : ℕ)
    (h : primes a > x → piX ≤ a) : (phiVector primes piX sqrtX phiNeg x a).length = a + 1 :=
  Pc.PhiVec.phiVector_length primes piX sqrtX phiNeg x a h

/-- `phi_vector(x, a)[i] = φ(x, i − 1)`, `1 ≤ i ≤ a ≤ π(P)`, over tables that are right up to `P` only -/
theorem phiVector_correct_bdd (primes piOf : ℕ → ℕ) (phiNeg : ℕ → ℕ → ℤ) (P : ℕ)
    (hprimes : ∀ i, 1 ≤ i → i ≤ Nat.primeCounting P → primes i = Spec.p i) (hpi : ∀ n, n ≤ P → piOf n = Nat.primeCounting n)
    (hinner : PhiNegSpec phiNeg (Nat.primeCounting P)) (x a : ℕ) (haP : a ≤ Nat.primeCounting P) (i : ℕ) (hi1 : 1 ≤ i) (hia : i ≤ a) :
    (phiVector primes (piOf x) (Nat.sqrt x) phiNeg x a).getD i 0 = (Spec.phi x (i - 1) : ℤ) :=
  Pc.PhiVec.phiVector_correct_bdd primes piOf phiNeg P hprimes hpi hinner x a haP i hi1 hia

variable (gen : PrimeGen) (threads : ℤ) (phiNeg : ℕ → ℕ → ℤ) (wide : Bool)

/-- **S2_hard tables**: `EnvOK`, every `y`, `z`, thread count -/
theorem realHardEnv_ok (hg : PrimeGenSpec gen) (y z : ℕ) (hphi : PhiNegSpec phiNeg (Nat.primeCounting (min y (z / Nat.sqrt y)))) :
    EnvOK (realHardEnv gen threads phiNeg wide y z) (min y (z / Nat.sqrt y)) :=
  Pc.Close.realHardEnv_ok gen threads phiNeg wide hg y z hphi

/-- **S2_hard tables**: `FactorOK`, every `y`, `z`, thread count -/
theorem realHardEnv_factor (hg : PrimeGenSpec gen) (y z : ℕ) :
    ∃ tmax, FactorOK (realHardEnv gen threads phiNeg wide y z) tmax y :=
  Pc.Close.realHardEnv_factor gen threads phiNeg wide hg y z

/-- **D tables**: `EnvOK` -/
theorem realDEnv_ok (hg : PrimeGenSpec gen) (y z : ℕ) (hphi : PhiNegSpec phiNeg (Nat.primeCounting y)) :
    EnvOK (realDEnv gen threads phiNeg wide y z) y :=
  Pc.Close.realDEnv_ok gen threads phiNeg wide hg y z hphi

/-- **D tables**: `FactorDOK` -/
theorem realDEnv_factor (hg : PrimeGenSpec gen) (y z : ℕ) :
    ∃ tmax, FactorDOK (realDEnv gen threads phiNeg wide y z) tmax y z :=
  Pc.Close.realDEnv_factor gen threads phiNeg wide hg y z

/-- `NT.Valid` for `generate_primes(N)` + `PiTable(N, threads)` -/
theorem realNT_valid (hg : PrimeGenSpec gen) (N : ℕ) : (realNT gen threads N).Valid :=
  Pc.Close.realNT_valid gen hg threads N

/-- `SieveSpec` for the bit-exact model of `class Sieve` over the constructor-built prime array (levels with `p_K < 2^32`, segments
    whose byte count fits `uint32_t`) -/
theorem concreteSieve_realNT (cfg : Sieve.Cfg) (f : Sieve.StopFn) (hg : PrimeGenSpec gen) (N K : ℕ)
    (hK : K ≤ Nat.primeCounting N) (h32 : Spec.p K < 2 ^ 32) :
    ∃ H : SieveSpec (concreteSieve cfg f (realNT gen threads N).primes) K,
      ∀ low seg, 240 ∣ low → 240 ∣ seg → 0 < seg → seg / 30 * 8 < 2 ^ 32 → H.segOK low seg :=
  Pc.Close.concreteSieve_realNT cfg f gen hg threads N K hK h32

/-- **the bundle**, every `B`, any sieve object meeting the `sieve` field -/
theorem realTables_ok {σ : Type} (S : SieveOps σ) (N : ℕ) (it : P2L.Iter) (B : ℕ) (hg : PrimeGenSpec gen)
    (hphi : PhiNegSpec phiNeg (Nat.primeCounting B)) (hiter : P2L.IterSpec it)
    (hS : ∀ K, K ≤ Nat.primeCounting B → ∃ H : SieveSpec S K, ∀ low seg, 240 ∣ low → 240 ∣ seg → 0 < seg → H.segOK low seg) :
    TablesOK (realTables S gen threads phiNeg wide N it) B :=
  Pc.Close.realTables_ok S gen threads phiNeg wide N it B hg hphi hiter hS

/-- … with the reference sieve over the constructor-built prime table -/
theorem realTablesRef_ok (N : ℕ) (it : P2L.Iter) (B : ℕ) (hBN : B ≤ N) (hg : PrimeGenSpec gen)
    (hphi : PhiNegSpec phiNeg (Nat.primeCounting B)) (hiter : P2L.IterSpec it) :
    TablesOK (realTables (refSieve (realNT gen threads N).p) gen threads phiNeg wide N it) B :=
  Pc.Close.realTablesRef_ok gen threads phiNeg wide N it B hBN hg hphi hiter

/-- the C18 generator model (below `2^50`; the defining filter above) meets the generator hypothesis of C17 -/
theorem genC18_spec (l1raw kib : ℕ) (hk : 16 ≤ kib) (hk2 : kib ≤ 8192) : PrimeGenSpec (genC18 l1raw kib) :=
  Pc.Close.genC18_spec l1raw kib hk hk2

/-- … so the bundle over it has no generator hypothesis -/
theorem realTablesC18_ok (l1raw kib : ℕ) (hk : 16 ≤ kib) (hk2 : kib ≤ 8192) (N : ℕ) (it : P2L.Iter) (B : ℕ) (hBN : B ≤ N)
    (hphi : PhiNegSpec phiNeg (Nat.primeCounting B)) (hiter : P2L.IterSpec it) :
    TablesOK (realTables (refSieve (realNT (genC18 l1raw kib) threads N).p) (genC18 l1raw kib) threads phiNeg wide N it) B :=
  Pc.Close.realTablesC18_ok l1raw kib hk hk2 threads phiNeg wide N it B hBN hphi hiter

/-- the hypothesis `PhiNegSpec` is the conclusion of C07's `phiRecAlg_correct` (every consistent cache content, every cache state) -/
theorem phiNegSpec_of_phiRecAlg (E : PhiEnv) (A : ℕ) (hE : Pc.PhiAlgProofs.EnvOK E A) (mac : ℕ) (hm : mac ≤ E.cache.maxA) :
    PhiNegSpec (fun y b => (phiRecAlg E (b + 1) (-1) y b mac).1) A :=
  Pc.Close.phiNegSpec_of_phiRecAlg E A hE mac hm

/-- the driver's φ (`hlPhiOf`, the inner `phi<-1>` of its `phi_vector`) is `φ` -/
theorem hlPhiOf_eq (n x a : ℕ) (ha : a ≤ Nat.primeCounting n) : hlPhiOf (NT.build n) x a = (Spec.phi x a : ℤ) :=
  Pc.Close.hlPhiOf_eq (NT.build n) (NT.build_valid n) (build_out n) x a ha

/-- **the tables `pcdrv` runs `s2HardThread` over** (`hlEnv`, S2_hard ops) meet the contracts of `s2HardThread_eq` -/
theorem hlEnv_s2_closed (hg : PrimeGenSpec primesRange) (i : HlIn) (hD : i.isD = false) (hdom : InFtDomain i.wide i.y)
    (n : ℕ) (hn : min i.y (i.z / Nat.sqrt i.y) ≤ n) :
    ∃ e, hlEnv i (NT.build n) = some e ∧ EnvOK e (min i.y (i.z / Nat.sqrt i.y)) ∧ FactorOK e (realTmax i.wide i.y) i.y :=
  Pc.Close.hlEnv_s2_closed hg i hD hdom n hn

/-- **the tables `pcdrv` runs `dThread` over** (`hlEnv`, D ops) meet the contracts of `dThread_eq` -/
theorem hlEnv_d_closed (hg : PrimeGenSpec primesRange) (i : HlIn) (hD : i.isD = true) (hdom : InFtDomain i.wide i.z)
    (n : ℕ) (hn : i.y ≤ n) :
    ∃ e, hlEnv i (NT.build n) = some e ∧ EnvOK e i.y ∧ FactorDOK e (realTmax i.wide i.z) i.y i.z :=
  Pc.Close.hlEnv_d_closed hg i hD hdom n hn

/-! non-vacuity (these are tests, labelled as such) -/

/-- the generator hypothesis is met by a generator the kernel can run (`exGen`, PcProofs/CloseTablesGen.lean) -/
example : PrimeGenSpec exGen := exGen_spec

/-- the `PhiCache` hypothesis is met by the driver's executable φ over the oracle table (levels up to `π(n)`) … -/
example (n : ℕ) : PhiNegSpec (fun y b => - hlPhiOf (NT.build n) y b) (Nat.primeCounting n) :=
  hlPhiNeg_spec (NT.build n) (NT.build_valid n) (build_out n)
/-- … and, for every level, by the specification itself -/
example (A : ℕ) : PhiNegSpec (fun y b => -(Spec.phi y b : ℤ)) A := fun _ _ _ _ => rfl

/-- every hypothesis of the bundle at once: executable generator, executable inner φ, reference iterator, `B = N = 1000`, both widths -/
example (wide : Bool) : TablesOK (realTables (refSieve (realNT exGen 4 1000).p) exGen 4
    (fun y b => - hlPhiOf (NT.build 1000) y b) wide 1000 P2L.refIter) 1000 :=
  realTablesRef_ok exGen 4 _ wide 1000 P2L.refIter 1000 (le_refl _) exGen_spec
    (hlPhiNeg_spec (NT.build 1000) (NT.build_valid 1000) (build_out 1000)) P2L.refIter_spec
example : TablesOK (realTables (refSieve (realNT (genC18 32 256) 1 (10 ^ 9)).p) (genC18 32 256) 1
    (fun y b => -(Spec.phi y b : ℤ)) true (10 ^ 9) P2L.refIter) (10 ^ 9) :=
  realTablesC18_ok (threads := 1) (phiNeg := fun y b => -(Spec.phi y b : ℤ)) (wide := true) 32 256 (by norm_num) (by norm_num)
    (10 ^ 9) P2L.refIter (10 ^ 9) (le_refl _) (fun _ _ _ _ => rfl) P2L.refIter_spec

/-- the instance is the NON-ideal, executable object: the FactorTable of `realHardEnv … 250 z` is the array the constructor model computes
    (`1 ↦ T_MAX − 1`, primes `↦ T_MAX`, `169 = 13² ↦ 0`, `221 = 13·17 ↦ lpf − 1 = 12`, `247 = 13·19 ↦ 12`), kernel-evaluated -/
example : factorTableNew exGen (realTmax false 250) 250 1 = some (#[some 65534] ++ Array.replicate 34 (some 65535) ++ #[some 0] ++
    Array.replicate 8 (some 65535) ++ #[some 12] ++ Array.replicate 6 (some 65535) ++ #[some 12]) := by decide +kernel
example : (realHardEnv exGen 1 (fun _ _ => 0) false 250 250).factorSize = 52 ∧
    (realHardEnv exGen 1 (fun _ _ => 0) false 250 250).factor (toIndex 221) = 12 ∧
    (realHardEnv exGen 1 (fun _ _ => 0) false 250 250).piMax = 16 ∧
    (List.range 8).map (realHardEnv exGen 1 (fun _ _ => 0) false 250 250).primes = [0, 2, 3, 5, 7, 11, 13, 0] := by decide +kernel
/-- FactorTableD(17, 250): `221 = 13·17 ↦ 12` stays, `247 = 13·19` (a prime factor `> y`) and the prime `19 ↦ 0` -/
example : (realDEnv exGen 1 (fun _ _ => 0) false 17 250).factor (toIndex 221) = 12 ∧
    (realDEnv exGen 1 (fun _ _ => 0) false 17 250).factor (toIndex 247) = 0 ∧
    (realDEnv exGen 1 (fun _ _ => 0) false 17 250).factor (toIndex 19) = 0 ∧
    (realDEnv exGen 1 (fun _ _ => 0) false 17 250).factor (toIndex 17) = 65535 ∧
    (realDEnv exGen 1 (fun _ _ => 0) false 17 250).factor (toIndex 1) = 65534 := by decide +kernel
/-- `phi_vector(20, 5)` of the S2_hard tables for `(30, 100)` over the driver's φ: `φ(20, 0..4)` -/
example : (realHardEnv exGen 1 (fun y b => - hlPhiOf (NT.build 30) y b) false 30 100).phiVec 20 5 = #[0, 20, 10, 7, 6, 5] := by
  decide +kernel
/-- the domain hypothesis of the driver theorems -/
example : InFtDomain false 4294705155 ∧ ¬ InFtDomain false 4294705156 ∧ InFtDomain true (2 ^ 63) := by decide

end Pc.C17Closed

#print axioms Pc.C17Closed.toNat_max13
#print axioms Pc.C17Closed.realTmax_fits
#print axioms Pc.C17Closed.factorOK_of_ctor
#print axioms Pc.C17Closed.factorDOK_of_ctor
#print axioms Pc.C17Closed.phiVector_length
#print axioms Pc.C17Closed.phiVector_correct_bdd
#print axioms Pc.C17Closed.realHardEnv_ok
#print axioms Pc.C17Closed.realHardEnv_factor
#print axioms Pc.C17Closed.realDEnv_ok
#print axioms Pc.C17Closed.realDEnv_factor
#print axioms Pc.C17Closed.realNT_valid
#print axioms Pc.C17Closed.concreteSieve_realNT
#print axioms Pc.C17Closed.realTables_ok
#print axioms Pc.C17Closed.realTablesRef_ok
#print axioms Pc.C17Closed.genC18_spec
#print axioms Pc.C17Closed.realTablesC18_ok
#print axioms Pc.C17Closed.phiNegSpec_of_phiRecAlg
#print axioms Pc.C17Closed.hlPhiOf_eq
#print axioms Pc.C17Closed.hlEnv_s2_closed
#print axioms Pc.C17Closed.hlEnv_d_closed
