/-
C18, closed (WP close): `store_n_primes` / `store_primes` (StorePrimes.hpp) and primecount's `generate_n_primes<T>(n)` /
`generate_primes<T>(max)` (/repo/src/generate_primes.cpp) — the two properties notes/wp-iter.md listed as "modelled and tied (streams), not
proved". Under the contract `GenSpec e` of the sieving core (discharged for the real core in PcProofs/CloseIter.lean) the models return
exactly the first `n` primes `≥ start` / exactly the primes of `[start, stop]`, for every stop hint, float outcome and batching, and throw
"too narrow" exactly when a prime to be stored exceeds the element type. Proofs: PcProofs/CloseStore.lean, CloseStore2.lean, CloseStore3.lean.
Only property theorems, non-vacuity examples and the axiom audit live here.
-/
import PcProofs.CloseStore3
import PcProofs.Spec.Periodic
import PcProps.C18

namespace Pc.C18Closed
open Pc.It
open Pc.PsCore (FloatOk)

/-- **`store_n_primes_correct`**: `F` = the primes of `[start, Q]` for some `Q ≤ 2^64-1`, at least `n` of them. `store_n_primes(n, start, v)`
    on an empty vector with element maximum `vmax` returns the first `n` entries of `F` (strictly increasing since `F` is) if they all fit,
    and throws "too narrow" if one of them does not — for EVERY `nthHint` (the float expression `n * (log n + log log n)` is only a stop
    hint), every float outcome and batching inside `e`. Never `hang` / `oob` / `primesieve_error`. -/
theorem store_n_primes_correct (e : Env) (he : GenSpec e) (vmax n start nthHint Q : ℕ) (F : List ℕ) (hF : PrimesIn F start Q)
    (hQ : Q ≤ umax) (hs : start ≤ umax) (hlen : n ≤ F.length) :
    ((∀ x ∈ F.take n, x ≤ vmax) → storeNPrimes e vmax n start nthHint = .ok (F.take n)) ∧
    ((∃ x ∈ F.take n, vmax < x) → storeNPrimes e vmax n start nthHint = .error .narrow) :=
  ⟨storeNPrimes_correct e he vmax n start nthHint Q F hF hQ hs hlen,
   storeNPrimes_narrow e he vmax n start nthHint Q F hF hQ hs hlen⟩

/-- **`generate_n_primes_correct`**: `generate_n_primes<T>(a)` returns the 1-indexed table `[0, p 1, …, p a]` whenever `p a` fits
    `uint64_t` and `T` — the exact shape phi.cpp's `CallOK.prime0 / prime` (PcProofs/ClosePhi.lean `callOK_realTop`) asks for -/
theorem generate_n_primes_correct (e : Env) (he : GenSpec e) (vmax a nthHint : ℕ) (hu : Spec.p a ≤ umax) (hv : Spec.p a ≤ vmax) :
    ∃ l, pcGenerateNPrimes e vmax a nthHint = .ok l ∧ l = 0 :: firstNPrimes a ∧ l.length = a + 1 ∧ l.getD 0 0 = 0 ∧
      ∀ i, 1 ≤ i → i ≤ a → l.getD i 0 = Spec.p i :=
  pcGenerateNPrimes_correct e he vmax a nthHint hu hv

/-- … and it succeeds exactly when `p n` fits the element type (`p n` below 2^64) -/
theorem generate_n_primes_iff (e : Env) (he : GenSpec e) (vmax n nthHint : ℕ) (hn : 1 ≤ n) (hu : Spec.p n ≤ umax) :
    (Spec.p n ≤ vmax → pcGenerateNPrimes e vmax n nthHint = .ok (0 :: firstNPrimes n)) ∧
    (vmax < Spec.p n → pcGenerateNPrimes e vmax n nthHint = .error .narrow) :=
  pcGenerateNPrimes_iff e he vmax n nthHint hn hu

/-- **`store_primes_correct`**: `store_primes(start, stop, v)` on an empty vector returns exactly the primes of `[start, stop]`, strictly
    increasing, for all `start ≤ stop ≤ min(vmax, 2^64-1)` — including the last 64-bit prime 2^64-59, which the code appends by hand because
    the iterator throws beyond it; a `stop` above the element type throws "too narrow" -/
theorem store_primes_correct (e : Env) (he : GenSpec e) (vmax start stop : ℕ) (hss : start ≤ stop) (hu : stop ≤ umax) :
    (stop ≤ vmax → ∃ l, storePrimes e vmax start stop = .ok l ∧ PrimesIn l start stop) ∧
    (vmax < stop → start ≤ maxPrime64 → storePrimes e vmax start stop = .error .narrow) :=
  ⟨fun hv => storePrimes_correct e he vmax start stop hss hv hu, fun hv hm => storePrimes_narrow e vmax start stop hss hm hv⟩

/-- **`generate_primes_correct`**: `generate_primes<T>(max)` = `[0, p 1, …, p π(max)]` -/
theorem generate_primes_correct (e : Env) (he : GenSpec e) (vmax mx : ℕ) (hv : mx ≤ vmax) (hu : mx ≤ umax) :
    pcGeneratePrimes e vmax mx = .ok (0 :: firstNPrimes (Nat.primeCounting mx)) ∧
    PrimesIn (firstNPrimes (Nat.primeCounting mx)) 0 mx := by
  have h := pcGeneratePrimes_index e he vmax mx hv hu
  obtain ⟨l, h2, hP⟩ := pcGeneratePrimes_correct e he vmax mx hv hu
  rw [h] at h2
  injection h2 with h3; injection h3 with _ h4
  exact ⟨h, h4 ▸ hP⟩

/-- **the generated vector as phi.cpp reads it**: `genNPrimesFn … i = primes[i]` meets the hypotheses `prime 0 = 0`, `prime i = p i`
    (`1 ≤ i ≤ a`) of `callOK_realTop` (PcProofs/ClosePhi.lean) for every `a ≤ π(N)`, `N ≤ min(vmax, 2^64-1)` — phi.cpp: `N = √x` -/
theorem generate_n_primes_for_phi (e : Env) (he : GenSpec e) (vmax a nthHint N : ℕ) (ha : a ≤ Nat.primeCounting N) (hN : N ≤ umax)
    (hNv : N ≤ vmax) :
    pcGenerateNPrimes e vmax a nthHint = .ok (0 :: firstNPrimes a) ∧
    genNPrimesFn e vmax a nthHint 0 = 0 ∧ ∀ i, 1 ≤ i → i ≤ a → genNPrimesFn e vmax a nthHint i = Spec.p i :=
  genNPrimesFn_spec e he vmax a nthHint N ha hN hNv

/-- the by-hand branch of `store_primes` (StorePrimes.hpp:88-97): `[2^64-59, 2^64-1]` yields the last 64-bit prime alone, no
    `primesieve_error` -/
theorem store_primes_last (e : Env) (he : GenSpec e) : storePrimes e umax maxPrime64 umax = .ok [maxPrime64] :=
  storePrimes_last e he

/-- `generate_n_primes<T>(a)` over the REAL sieving core (`coreEnvTo`, windows below `B`; only the float assumption left, a theorem
    for `B = 2^50`) -/
theorem generate_n_primes_core (fl : Floats) (batch : ℕ → ℕ) (l1raw kib B : ℕ) (hB : B ≤ 2 ^ 64)
    (hfl : ∀ a b, b < B → FloatOk l1raw (max 721 a) b kib) (hk : 16 ≤ kib) (hk2 : kib ≤ 8192) (vmax a nthHint : ℕ)
    (hu : Spec.p a ≤ umax) (hv : Spec.p a ≤ vmax) :
    ∃ l, pcGenerateNPrimes (coreEnvTo fl batch l1raw kib B) vmax a nthHint = .ok l ∧ l.getD 0 0 = 0 ∧
      ∀ i, 1 ≤ i → i ≤ a → l.getD i 0 = Spec.p i := by
  obtain ⟨l, h1, _, _, h4, h5⟩ := pcGenerateNPrimes_correct _ (coreEnvTo_genSpec fl batch l1raw kib B hB hfl hk hk2) vmax a nthHint hu hv
  exact ⟨l, h1, h4, h5⟩

/-- `generate_primes<T>(max)` over the REAL sieving core -/
theorem generate_primes_core (fl : Floats) (batch : ℕ → ℕ) (l1raw kib B : ℕ) (hB : B ≤ 2 ^ 64)
    (hfl : ∀ a b, b < B → FloatOk l1raw (max 721 a) b kib) (hk : 16 ≤ kib) (hk2 : kib ≤ 8192) (vmax mx : ℕ)
    (hv : mx ≤ vmax) (hu : mx ≤ umax) :
    pcGeneratePrimes (coreEnvTo fl batch l1raw kib B) vmax mx = .ok (0 :: firstNPrimes (Nat.primeCounting mx)) :=
  pcGeneratePrimes_index _ (coreEnvTo_genSpec fl batch l1raw kib B hB hfl hk hk2) vmax mx hv hu

/-! ### non-vacuity (tests, labelled as such) -/

local notation "fl0" => (⟨fun _ => 0, fun _ => 0, fun _ => 0, fun _ => 0⟩ : Floats)

/-- kernel evaluation of the model: `generate_n_primes<uint16_t>(5)` with batches of 2 primes and a (too small) hint 12 -/
example : (match pcGenerateNPrimes (refEnv fl0 (fun _ => 2)) 65535 5 12 with | .ok l => l | .error _ => []) = [0, 2, 3, 5, 7, 11] := by
  decide +kernel
/-- … the same call through the theorem: hypotheses satisfiable, entries `p 1 … p 5` -/
example : ∃ l, pcGenerateNPrimes (refEnv fl0 (fun _ => 2)) 65535 5 12 = .ok l ∧ l.getD 0 0 = 0 ∧ l.getD 5 0 = 11 := by
  have h5 : Spec.p 5 = 11 := Spec.p_five
  obtain ⟨l, h1, _, _, h4, h5'⟩ := generate_n_primes_correct (refEnv fl0 (fun _ => 2)) (refEnv_spec _ _) 65535 5 12
    (by rw [h5]; decide) (by rw [h5]; decide)
  exact ⟨l, h1, h4, by rw [h5' 5 (by omega) (by omega), h5]⟩
/-- the error direction: `int8_t`-like element type (max 7) cannot hold `p 5 = 11` -/
example : pcGenerateNPrimes (refEnv fl0 (fun _ => 2)) 7 5 12 = .error .narrow :=
  (generate_n_primes_iff (refEnv fl0 (fun _ => 2)) (refEnv_spec _ _) 7 5 12 (by omega) (by rw [Spec.p_five]; decide)).2
    (by rw [Spec.p_five]; omega)
/-- kernel evaluation: `store_n_primes(4, 10)` = the first 4 primes `≥ 10`; `generate_primes(30)`; `store_primes(10, 30)` -/
example : (match storeNPrimes (refEnv fl0 (fun _ => 3)) 65535 4 10 0 with | .ok l => l | .error _ => []) = [11, 13, 17, 19] := by
  decide +kernel
example : (match pcGeneratePrimes (refEnv fl0 (fun _ => 3)) 65535 30 with | .ok l => l | .error _ => []) =
    [0, 2, 3, 5, 7, 11, 13, 17, 19, 23, 29] := by decide +kernel
example : (match storePrimes (refEnv fl0 (fun _ => 1)) 65535 10 30 with | .ok l => l | .error _ => []) = [11, 13, 17, 19, 23, 29] := by
  decide +kernel
/-- `generate_n_primes_for_phi` on a concrete instance: `a = 4 ≤ π(10)`; the function form evaluated by the kernel -/
example : genNPrimesFn (refEnv fl0 (fun _ => 2)) 65535 4 0 0 = 0 ∧
    ∀ i, 1 ≤ i → i ≤ 4 → genNPrimesFn (refEnv fl0 (fun _ => 2)) 65535 4 0 i = Spec.p i :=
  (generate_n_primes_for_phi (refEnv fl0 (fun _ => 2)) (refEnv_spec _ _) 65535 4 0 10 (by decide) (by decide) (by decide)).2
example : (List.range 6).map (genNPrimesFn (refEnv fl0 (fun _ => 2)) 65535 4 0) = [0, 2, 3, 5, 7, 0] := by decide +kernel
/-- the `PrimesIn` hypothesis of `store_n_primes_correct` on a concrete instance -/
example : PrimesIn (refPrimes 10 100) 10 100 ∧ 4 ≤ (refPrimes 10 100).length := ⟨refPrimes_spec 10 100, by decide +kernel⟩
/-- the real core below 2^50 meets every hypothesis of the `_core` theorems (no float assumption left) -/
example (vmax a nthHint : ℕ) (hu : Spec.p a ≤ umax) (hv : Spec.p a ≤ vmax) :
    ∃ l, pcGenerateNPrimes (coreEnvTo fl0 (fun _ => 1) 32768 256 (2 ^ 50)) vmax a nthHint = .ok l ∧ l.getD 0 0 = 0 ∧
      ∀ i, 1 ≤ i → i ≤ a → l.getD i 0 = Spec.p i :=
  generate_n_primes_core fl0 (fun _ => 1) 32768 256 (2 ^ 50) (by norm_num)
    (fun a b hb => floatOk_window_below_2_50 32768 256 a b (by norm_num) (by norm_num) hb) (by norm_num) (by norm_num) vmax a nthHint hu hv

end Pc.C18Closed

#print axioms Pc.C18Closed.store_n_primes_correct
#print axioms Pc.C18Closed.generate_n_primes_correct
#print axioms Pc.C18Closed.generate_n_primes_iff
#print axioms Pc.C18Closed.store_primes_correct
#print axioms Pc.C18Closed.generate_primes_correct
#print axioms Pc.C18Closed.generate_n_primes_for_phi
#print axioms Pc.C18Closed.store_primes_last
#print axioms Pc.C18Closed.generate_n_primes_core
#print axioms Pc.C18Closed.generate_primes_core
