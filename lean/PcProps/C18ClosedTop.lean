/-
C18 (WP close3, item 4): `ParallelSieve::sieve()` / `count_primes(start, stop)` at `stop = 2^64 - 1` — the case WP iter2's `parallel_count_total`
and WP close2's `parallel_count_primes_closed` exclude (`stop < 2^64-1`).

ParallelSieve.cpp:136 `start = align(start) + 1` is an unchecked `+ 1`; `align(n)` returns `stop_` when `n + 32 ≥ stop_`, so for `stop_ = 2^64-1` a task
whose raw start is within 32 of `stop_` gets `start = 0` and sieves `[0, 2^64-1]`.  Only the LAST task can be that close, and it is iff
`(dist - 1) % threadDist < 32`.
* `parallel_count_total_gap`: the tiling covers for EVERY `stop ≤ 2^64-1` whenever the last task is longer than 32.
* **`parallel_count_total_umax`**: at `stop = 2^64-1` (`isqrt(stop) = 4294967295`, `sqrt_umax`) the last task IS longer than 32 for every thread count
  `1 ≤ numThreads ≤ 27 709 467` — `ParallelSieve::setNumThreads` clamps to `[1, std::thread::hardware_concurrency()]`, so this is every machine with fewer
  than 27.7 million hardware threads ((S) hypothesis).  `parallel_count_total_all`, `parallel_count_primes_closed_all` (`_50`): every `stop ≤ 2^64-1`.
* **`parallel_count_wrap_witness`, `parallel_count_wrap_miscount`**: the bound is needed and SHARP: with `numThreads_ = 27 709 468`,
  `start = 18422941821390992413`, `stop = 2^64-1` the last of the 27 709 468 tasks is `[0, 2^64-1]` and the model's count is
  `π-count[start, stop] + π-count[0, 2^64-1]`.  The REAL `idealNumThreads / getThreadDistance / align` (harness op `psintervals`, which writes `numThreads_`
  directly and re-types the two loop statements ParallelSieve.cpp:135-136 — those are pinned by the source-text obligation and by the oracle stream `ps-count`) give the
  same intervals: `… 18446744072850558093:18446744073709551615 0:18446744073709551615`.  Not reachable through the public API (the clamp), not executable
  (27.7 million `std::async` tasks, the last one sieving the whole 64-bit range): a LATENT defect, not a failing input of C18.
  Patch proposal: notes/wp-close3.md.
Only property theorems, examples and the axiom audit live here.
-/
import PcProofs.Close3Par
import PcProps.C18ClosedHist

namespace Pc.C18ClosedTop
open Pc.It Pc.PsCore

/-- the tiling of `ParallelSieve::sieve()` covers `[start, stop]` for every `stop ≤ 2^64-1`, every `isqrt` outcome and thread count, provided the last
    task of the multi-thread path is longer than 32 (for `stop < 2^64-1` this proviso is not needed: `C18Par.parallel_count_total`) -/
theorem parallel_count_total_gap (cnt : ℕ → ℕ → ℕ)
    (hempty : ∀ a b, b < a → cnt a b = 0)
    (hsplit : ∀ a m b, a ≤ m + 1 → m ≤ b → cnt a m + cnt (m + 1) b = cnt a b)
    (isq start stop numThreads : ℕ) (hab : start ≤ stop) (hstop : stop ≤ umax)
    (hgap : Pc.It.idealNumThreads isq start stop numThreads ≠ 1 →
      32 ≤ (stop - start - 1) % getThreadDistance isq (stop - start) (Pc.It.idealNumThreads isq start stop numThreads)) :
    parCount cnt isq start stop numThreads = cnt start stop :=
  parCount_total_of_gap cnt ⟨hempty, hsplit⟩ isq start stop numThreads hab hstop hgap

/-- `isqrt(2^64-1)`, the value `idealNumThreads` / `getThreadDistance` see at `stop = 2^64-1` -/
theorem isqrt_umax : Nat.sqrt umax = 4294967295 := sqrt_umax

/-- the last task is longer than 32 at `stop = 2^64-1` for every thread count up to 27 709 467 -/
theorem last_task_longer_than_32 (dist t : ℕ) (hd : dist ≤ umax) (ht2 : 2 ≤ t) (ht : t ≤ 27709467) (htd : t * 858993459 ≤ dist) :
    32 ≤ (dist - 1) % getThreadDistance 4294967295 dist t := threadDist_gap dist t hd ht2 ht htd

/-- **`parallel_count_total` at `stop = 2^64-1`**: every additive count, every `start`, `1 ≤ numThreads ≤ 27709467` -/
theorem parallel_count_total_umax (cnt : ℕ → ℕ → ℕ)
    (hempty : ∀ a b, b < a → cnt a b = 0)
    (hsplit : ∀ a m b, a ≤ m + 1 → m ≤ b → cnt a m + cnt (m + 1) b = cnt a b)
    (start numThreads : ℕ) (hstart : start ≤ umax) (ht1 : 1 ≤ numThreads) (ht : numThreads ≤ 27709467) :
    parCount cnt (Nat.sqrt umax) start umax numThreads = cnt start umax := by
  rw [sqrt_umax]
  exact parCount_total_umax cnt ⟨hempty, hsplit⟩ start numThreads hstart ht1 ht

/-- … and for EVERY `stop ≤ 2^64-1` (below the top for any `isqrt` outcome, at the top for the exact one) -/
theorem parallel_count_total_all (cnt : ℕ → ℕ → ℕ)
    (hempty : ∀ a b, b < a → cnt a b = 0)
    (hsplit : ∀ a m b, a ≤ m + 1 → m ≤ b → cnt a m + cnt (m + 1) b = cnt a b)
    (isq start stop numThreads : ℕ) (hstop : stop ≤ umax) (ht1 : 1 ≤ numThreads) (ht : numThreads ≤ 27709467)
    (hisq : stop = umax → isq = Nat.sqrt stop) :
    parCount cnt isq start stop numThreads = cnt start stop :=
  parCount_total_all cnt ⟨hempty, hsplit⟩ isq start stop numThreads hstop ht1 ht (fun h => by rw [hisq h, h, sqrt_umax])

/-- **`count_primes(start, stop)` over the real counting core, EVERY `stop ≤ 2^64-1`** (WP close2's `parallel_count_primes_closed` without `stop < 2^64-1`) -/
theorem parallel_count_primes_closed_all (l1raw kib : ℕ) (hfl : CountFloatOk l1raw kib) (hk : 16 ≤ kib) (hk2 : kib ≤ 8192)
    (isq start stop numThreads : ℕ) (hstop : stop ≤ umax) (ht1 : 1 ≤ numThreads) (ht : numThreads ≤ 27709467)
    (hisq : stop = umax → isq = Nat.sqrt stop) :
    parCount (sieveCount (countCoreTo l1raw kib (2 ^ 64))) isq start stop numThreads = primeCnt start stop := by
  have hc := countCore64_coreCounts l1raw kib hfl hk hk2
  rw [parCount_total_all _ (sieveCount_add _ hc) isq start stop numThreads hstop ht1 ht (fun h => by rw [hisq h, h, sqrt_umax]),
    sieveCount_eq _ hc]

/-- … with the real counting core used below 2^50: no float hypothesis -/
theorem parallel_count_primes_closed_all_50 (l1raw kib : ℕ) (hk : 16 ≤ kib) (hk2 : kib ≤ 8192)
    (isq start stop numThreads : ℕ) (hstop : stop ≤ umax) (ht1 : 1 ≤ numThreads) (ht : numThreads ≤ 27709467)
    (hisq : stop = umax → isq = Nat.sqrt stop) :
    parCount (sieveCount (countCoreTo l1raw kib (2 ^ 50))) isq start stop numThreads = primeCnt start stop := by
  have hc := countCore50_coreCounts l1raw kib hk hk2
  rw [parCount_total_all _ (sieveCount_add _ hc) isq start stop numThreads hstop ht1 ht (fun h => by rw [hisq h, h, sqrt_umax]),
    sieveCount_eq _ hc]

/-- **the bound on the thread count is needed**: `numThreads_ = 27709468`, `start = 18422941821390992413`, `stop = 2^64-1` ⇒ 27709468 threads,
    `threadDist = 858993510`, 27709468 tasks; the last but one already ends at `stop`, the last one is `[0, 2^64-1]` (`align(start) + 1` wrapped) -/
theorem parallel_count_wrap_witness :
    Pc.It.idealNumThreads 4294967295 18422941821390992413 umax 27709468 = 27709468 ∧
    getThreadDistance 4294967295 (umax - 18422941821390992413) 27709468 = 858993510 ∧
    (umax - 18422941821390992413 - 1) / 858993510 + 1 = 27709468 ∧
    threadInterval 18422941821390992413 umax 858993510 27709466 = (18446744072850558093, umax) ∧
    threadInterval 18422941821390992413 umax 858993510 27709467 = (0, umax) := parCount_umax_wrap_witness

/-- … and the count of the model there: every prime below 2^64 is counted once more -/
theorem parallel_count_wrap_miscount :
    parCount primeCnt 4294967295 18422941821390992413 umax 27709468 =
        primeCnt 18422941821390992413 umax + primeCnt 0 umax ∧
    parCount primeCnt 4294967295 18422941821390992413 umax 27709468 ≠ primeCnt 18422941821390992413 umax :=
  ⟨parCount_umax_wrap primeCnt primeCnt_add, parCount_umax_wrap_primes⟩

/-! non-vacuity: the hypotheses of `parallel_count_total_umax` are met by the prime count and by the interval length; a concrete multi-threaded
    instance at the top: `start = 2^64 - 1 - 4·10^9`, 4 threads ⇒ 4 tasks, the last one 10^9-long (`32 ≤ (dist-1) % threadDist`), lengths add up -/
example : parCount primeCnt (Nat.sqrt umax) 18446744069709551615 umax 4 = primeCnt 18446744069709551615 umax :=
  parallel_count_total_umax primeCnt primeCnt_add.empty primeCnt_add.split _ 4 (by unfold umax; omega) (by omega) (by omega)
example : Pc.It.idealNumThreads 4294967295 18446744069709551615 umax 4 = 4 ∧
    getThreadDistance 4294967295 (umax - 18446744069709551615) 4 = 1000000020 ∧
    (parIntervals 4294967295 18446744069709551615 umax 4).length = 4 ∧
    parCount (fun a b => b + 1 - a) 4294967295 18446744069709551615 umax 4 = 4000000001 := by
  refine ⟨by decide +kernel, by decide +kernel, by decide +kernel, by decide +kernel⟩

end Pc.C18ClosedTop

#print axioms Pc.C18ClosedTop.parallel_count_total_gap
#print axioms Pc.C18ClosedTop.isqrt_umax
#print axioms Pc.C18ClosedTop.last_task_longer_than_32
#print axioms Pc.C18ClosedTop.parallel_count_total_umax
#print axioms Pc.C18ClosedTop.parallel_count_total_all
#print axioms Pc.C18ClosedTop.parallel_count_primes_closed_all
#print axioms Pc.C18ClosedTop.parallel_count_primes_closed_all_50
#print axioms Pc.C18ClosedTop.parallel_count_wrap_witness
#print axioms Pc.C18ClosedTop.parallel_count_wrap_miscount
