/-
C02 / C01 / C08 — L2 models of the CONTROL FLOW of the simple counting algorithms (core Lean only, executable):

* `piLegendre`  src/pi_legendre.cpp 37-63       `piMeissel`  src/pi_meissel.cpp 43-72
* `piLehmer`    src/pi_lehmer.cpp 42-73         `p3Model`    src/P3.cpp 27-76 (double loop over prime indices)
* `piLmo1`      src/lmo/pi_lmo1.cpp 32-67  (μ / lpf tables, S1 loop, S2 double loop calling phi)
* `s2Lmo2`, `piLmo2`   src/lmo/pi_lmo2.cpp 38-124 (one unsegmented `Vector<bool>` sieve, running pointer `i`)
* `s2Lmo3`, `piLmo3`   src/lmo/pi_lmo3.cpp 39-160 (segmented sieve, `next[b]` and `phi[b]` carried across segments,
                       `break` at `prime >= max_m`)
* `s2Lmo4`, `piLmo4`   src/lmo/pi_lmo4.cpp 32-176 + include/BinaryIndexedTree.hpp (Fenwick tree over the even
                       sieve indices, `cross_off` with `tree.update`)

What is a PARAMETER / a reference model here (each has its own property):
* the float product `y = (int64_t)(x13 * alpha)` of pi_lmo2..4 is the argument `y` (theorems quantify over every
  value it may take: `x13 ≤ y`, `y * y ≤ x`); `piLmo1` uses `y = iroot<3>(x)` as the code does;
* `isqrt`, `iroot<N>` are `isqrtN`, `irootN` (C12 proves the header versions equal to them);
* the calls `pi_noprint(y)`, `phi(x, a, threads)`, `P2(x, y, a, threads)`, `S1(x, y, c, threads)` are answered by the
  executable defining sums of PcModel/Formulas.lean over a sieve-built table `NT` (`NT.piOf`, `NT.phiOf`, `NT.P2`,
  `NT.S1`): those functions have their own models and proofs (C01, C07, C08);
* `generate_primes<int32_t>(y)` is the prime list of the proved sieve (`NT.build y`), `generate_lpf(y)` /
  `generate_moebius(y)` are the L2 models `generateLpf` / `generateMoebius` of PcModel/PiTable.lean (C17).
Integers are unbounded (`Nat` / `Int`): every intermediate of these functions is bounded by `x` (products
`prime * m ≤ y² ≤ x`, `prime * high ≤ x`), so no int64 operation wraps for `x < 2^63`.

`none` = the real code would divide by zero or read a vector out of bounds (undefined behaviour).
-/
import PcModel.L1Routes
import PcGen.PhiTinyData

namespace Pc.SimpleAlgs

/-- `PhiTiny::get_c(y)`: `pi[y]` for `y < pi.size()`, else `max_a()` (table generated from /repo) -/
def getC (y : Nat) : Nat :=
  if y < Gen.PhiTiny.piSmall.length then Gen.PhiTiny.piSmall.getD y 0 else Gen.PhiTiny.maxA

/-! ### Legendre, Meissel, Lehmer, P3 -/

/-- `pi_legendre(x, threads, false)` -/
def piLegendre (x : Int) : Int :=
  if x < 2 then 0 else
  let x := x.toNat
  let y := isqrtN x
  let t := ntFor x y
  let a := t.piOf y                       -- pi_noprint(y, threads)
  let phi_xa := t.phiOf x a               -- phi(x, a, threads, is_print)
  (phi_xa : Int) + a - 1

/-- `pi_meissel(x, threads, false)` -/
def piMeissel (x : Int) : Int :=
  if x < 2 then 0 else
  let x := x.toNat
  let y := irootN 3 x
  let t := ntFor x y
  let a := t.piOf y
  let phi_xa := t.phiOf x a
  let p2 := t.P2 x y                      -- P2(x, y, a, threads, is_print)
  (phi_xa : Int) + a - 1 - p2

/-- `P3(x, y, a, threads, false)` with `a = pi(y)`: `primes[i]` and the `PiTable` are read from `t` -/
def p3Model (t : NT) (x y a : Nat) : Int :=
  let x13 := irootN 3 x
  if y ≤ x13 then
    let piX13 := t.piOf x13
    -- for (i = a + 1; i <= pi_x13; i++)        (omp for, reduction(+: sum): any order gives the same sum)
    sumInt ((List.range (piX13 - a)).map fun k =>
      let i := a + 1 + k
      let xi := x / t.p i
      let bi := t.piOf (isqrtN xi)
      -- for (j = i; j <= bi; j++) sum += pi[xi / primes[j]] - (j - 1)
      sumInt ((List.range (bi + 1 - i)).map fun l =>
        let j := i + l
        (t.piOf (xi / t.p j) : Int) - ((j : Int) - 1)))
  else 0

/-- `pi_lehmer(x, threads, false)` -/
def piLehmer (x : Int) : Int :=
  if x < 2 then 0 else
  let x := x.toNat
  let y := irootN 4 x
  let t := ntFor x y
  let a := t.piOf y
  let phi_xa := t.phiOf x a
  let p2 := t.P2 x y
  let p3 := p3Model t x y a
  (phi_xa : Int) + a - 1 - p2 - p3

/-! ### the three vectors of pi_lmo1..5 -/

/-- `primes = generate_primes<int32_t>(y)` (`primes[0] = 0`), `lpf = generate_lpf(y)`, `mu = generate_moebius(y)` -/
structure Tables where
  primes : Array Nat
  lpf : Array Nat
  mu : Array Int

def Tables.p (T : Tables) (i : Nat) : Nat := T.primes.getD i 0
def Tables.lpfOf (T : Tables) (n : Nat) : Nat := T.lpf.getD n 0
def Tables.muOf (T : Tables) (n : Nat) : Int := T.mu.getD n 0
/-- `pi_y = primes.size() - 1` -/
def Tables.piY (T : Tables) : Nat := T.primes.size - 1

def tablesFor (y : Nat) : Tables :=
  { primes := (NT.build y).primes, lpf := generateLpf y, mu := generateMoebius y }

/-! ### pi_lmo1 -/

/-- the ordinary-leaves loop of pi_lmo1.cpp:52-54 -/
def s1Lmo1 (T : Tables) (t : NT) (x y c : Nat) : Int :=
  sumInt ((List.range y).map fun k =>
    let n := k + 1
    if T.lpfOf n > T.p c then T.muOf n * (t.phiOf (x / n) c : Int) else 0)

/-- the special-leaves double loop of pi_lmo1.cpp:57-60 (`s2 -= …` accumulated as one negated sum) -/
def s2Lmo1 (T : Tables) (t : NT) (x y c piY : Nat) : Int :=
  - sumInt ((List.range (piY - (c + 1))).map fun j =>
      let b := c + 1 + j
      let prime := T.p b
      sumInt ((List.range (y - y / prime)).map fun k =>
        let m := y / prime + 1 + k
        if T.lpfOf m > prime then T.muOf m * (t.phiOf (x / (prime * m)) (b - 1) : Int) else 0))

/-- `pi_lmo1(x)` -/
def piLmo1 (x : Int) : Int :=
  if x < 2 then 0 else
  let x := x.toNat
  let y := irootN 3 x
  let c := getC y
  let T := tablesFor y
  let t := ntFor x y
  let piY := T.piY
  let p2 := t.P2 x y
  let s1 := s1Lmo1 T t x y c
  let s2 := s2Lmo1 T t x y c piY
  s1 + s2 + piY - 1 - p2

/-! ### building blocks of the sieving variants -/

/-- `for (; i < n; i++) phi += sieve[i];` returns the final `(i, phi)` -/
def countBelow (sieve : Array Bool) (n : Nat) : Nat → Nat → Int → Nat × Int
  | 0, i, phi => (i, phi)
  | fuel + 1, i, phi =>
    if i < n then countBelow sieve n fuel (i + 1) (phi + (if sieve.getD i false then 1 else 0)) else (i, phi)

/-- `for (m = max_m; m > min_m; m--) if (mu[m] != 0 && prime < lpf[m]) { for (xpm = x / (prime * m); i <= xpm - low; i++)
    phi += sieve[i];  s2 -= mu[m] * phi; }` with `fuel = max_m - min_m` (then `m = min_m + fuel`).
    State `(i, phi, s2)`.  The comparison `i <= xpm - low` is signed in C++: it is `i < xpm + 1 - low` over ℕ.
    `none`: `sieve[xpm - low]` would be read beyond `sieve.size()`. -/
def leafLoop (T : Tables) (x prime low : Nat) (sieve : Array Bool) (minM : Nat) :
    Nat → Nat → Int → Int → Option (Nat × Int × Int)
  | 0, i, phi, s2 => some (i, phi, s2)
  | n + 1, i, phi, s2 =>
    let m := minM + n + 1
    if T.muOf m ≠ 0 ∧ prime < T.lpfOf m then
      let xpm := x / (prime * m)
      if i < xpm + 1 - low ∧ sieve.size < xpm + 1 - low then none else
      let r := countBelow sieve (xpm + 1 - low) (xpm + 1 - low) i phi
      leafLoop T x prime low sieve minM n r.1 r.2 (s2 - T.muOf m * r.2)
    else leafLoop T x prime low sieve minM n i phi s2

/-- `for (; k < high; k += step) sieve[k - low] = 0;` returns the final `k` and the sieve (callers keep `low ≤ k`) -/
def crossOff (low high step : Nat) : Nat → Nat → Array Bool → Nat × Array Bool
  | 0, k, s => (k, s)
  | fuel + 1, k, s =>
    if k < high then crossOff low high step fuel (k + step) (s.setIfInBounds (k - low) false) else (k, s)

/-! ### pi_lmo2 -/

/-- the loop `for (; b < pi_y; b++)` of pi_lmo2.cpp:66-93; state: the sieve and `s2` -/
def bLoop2 (T : Tables) (x y limit piY : Nat) : Nat → Nat → Array Bool → Int → Option Int
  | 0, _, _, s2 => some s2
  | n + 1, b, sieve, s2 =>
    if b < piY then
      let prime := T.p b
      -- i = 1, phi = 0;  for (m = y; m > y / prime; m--)
      match leafLoop T x prime 0 sieve (y / prime) (y - y / prime) 1 0 s2 with
      | none => none
      | some r =>
        -- for (k = prime; k < limit; k += prime * 2) sieve[k] = 0
        bLoop2 T x y limit piY n (b + 1) (crossOff 0 limit (prime * 2) limit prime sieve).2 r.2.2
    else some s2

/-- `S2(x, y, c, pi_y, primes, lpf, mu)` of pi_lmo2.cpp -/
def s2Lmo2 (T : Tables) (x y c piY : Nat) : Option Int :=
  if y = 0 then none else
  let limit := x / y
  let sieve := Array.replicate limit true
  -- for (b = 1; b <= c; b++) for (k = prime; k < limit; k += prime) sieve[k] = 0
  let sieve := (List.range c).foldl (fun s j =>
      let prime := T.p (j + 1)
      (crossOff 0 limit prime limit prime s).2) sieve
  bLoop2 T x y limit piY (piY - (c + 1)) (c + 1) sieve 0

/-- `pi_lmo2(x)`; `y` is the value of `(int64_t)(x13 * alpha)` -/
def piLmo2 (y : Nat) (x : Int) : Option Int :=
  if x < 2 then some 0 else
  let x := x.toNat
  let c := getC y
  let T := tablesFor y
  let t := ntFor x y
  let piY := T.piY
  let p2 := t.P2 x y
  let s1 := t.S1 x y c                     -- S1(x, y, c, threads)
  match s2Lmo2 T x y c piY with
  | none => none
  | some s2 => some (s1 + s2 + piY - 1 - p2)

/-! ### pi_lmo3 -/

/-- what the segmented S2 carries from one segment to the next -/
structure Seg where
  next : Array Nat
  phi : Array Int
  s2 : Int

/-- `for (b = 1; b <= c; b++) { k = next[b]; for (prime = primes[b]; k < high; k += prime) sieve[k - low] = 0; next[b] = k; }` -/
def preSieve (T : Tables) (low high c : Nat) (next : Array Nat) (sieve : Array Bool) : Array Nat × Array Bool :=
  (List.range c).foldl (fun (ns : Array Nat × Array Bool) j =>
    let b := j + 1
    let r := crossOff low high (T.p b) (high - low) (ns.1.getD b 0) ns.2
    (ns.1.setIfInBounds b r.1, r.2)) (next, sieve)

/-- the loop `for (b = c + 1; b < pi_y; b++)` of one segment (pi_lmo3.cpp:76-116) -/
def bLoop3 (T : Tables) (x y low high piY : Nat) : Nat → Nat → Array Bool → Seg → Option Seg
  | 0, _, _, st => some st
  | n + 1, b, sieve, st =>
    if b < piY then
      let prime := T.p b
      let minM := max (x / (prime * high)) (y / prime)
      let maxM := min (x / (prime * low)) y
      if prime ≥ maxM then some st           -- break
      else
        match leafLoop T x prime low sieve minM (maxM - minM) 0 (st.phi.getD b 0) st.s2 with
        | none => none
        | some r =>
          -- for (; i < high - low; i++) phi[b] += sieve[i]
          let phib := (countBelow sieve (high - low) (high - low) r.1 r.2.1).2
          -- k = next[b]; for (; k < high; k += prime * 2) sieve[k - low] = 0; next[b] = k
          let co := crossOff low high (prime * 2) (high - low) (st.next.getD b 0) sieve
          bLoop3 T x y low high piY n (b + 1) co.2
            { next := st.next.setIfInBounds b co.1, phi := st.phi.setIfInBounds b phib, s2 := r.2.2 }
    else some st

/-- `for (low = 1; low < limit; low += segment_size)` -/
def segLoop3 (T : Tables) (x y c piY limit segSize : Nat) : Nat → Nat → Seg → Option Seg
  | 0, _, st => some st
  | n + 1, low, st =>
    if low < limit then
      let high := min (low + segSize) limit
      let ns := preSieve T low high c st.next (Array.replicate segSize true)
      match bLoop3 T x y low high piY (piY - (c + 1)) (c + 1) ns.2 { st with next := ns.1 } with
      | none => none
      | some st' => segLoop3 T x y c piY limit segSize n (low + segSize) st'
    else some st

/-- the segmented engine with an explicit segment size (the theorems hold for every `segSize ≥ 1`) -/
def s2Seg3 (T : Tables) (x y c piY segSize : Nat) : Option Int :=
  if y = 0 then none else
  let limit := x / y
  (segLoop3 T x y c piY limit segSize limit 1
    { next := T.primes, phi := Array.replicate T.primes.size 0, s2 := 0 }).map (·.s2)

/-- `S2(x, y, c, pi_y, primes, lpf, mu)` of pi_lmo3.cpp: `segment_size = isqrt(limit)` -/
def s2Lmo3 (T : Tables) (x y c piY : Nat) : Option Int :=
  s2Seg3 T x y c piY (isqrtN (x / y))

/-- `pi_lmo3(x)`; `y` is the value of `(int64_t)(x13 * alpha)` -/
def piLmo3 (y : Nat) (x : Int) : Option Int :=
  if x < 2 then some 0 else
  let x := x.toNat
  let c := getC y
  let T := tablesFor y
  let t := ntFor x y
  let piY := T.piY
  let p2 := t.P2 x y
  let s1 := t.S1 x y c
  match s2Lmo3 T x y c piY with
  | none => none
  | some s2 => some (s1 + s2 + piY - 1 - p2)

/-! ### BinaryIndexedTree (include/BinaryIndexedTree.hpp) and pi_lmo4 -/

/-- `tree_` with `size_ = tree_.size()` -/
abbrev Fenwick := Array Int

/-- inner loop of `init`: `for (j = i; k >>= 1; j &= j - 1) tree_[i] += tree_[j - 1];` -/
def fwInitInner (i : Nat) : Nat → Nat → Nat → Fenwick → Fenwick
  | 0, _, _, t => t
  | fuel + 1, k, j, t =>
    let k := k / 2
    if k = 0 then t else
    fwInitInner i fuel k (j &&& (j - 1)) (t.modify i (· + t.getD (j - 1) 0))

/-- `init(sieve)`: `size_ = sieve.size() / 2`, `tree_[i] = sieve[i * 2]` plus the sub-tree sums;
    `(i + 1) & ~i` is computed on 64-bit words -/
def fwInit (sieve : Array Bool) : Fenwick :=
  let size := sieve.size / 2
  (List.range size).foldl (fun (t : Fenwick) i =>
    let t := t.setIfInBounds i (if sieve.getD (i * 2) false then 1 else 0)
    let k := (i + 1) &&& ((2 ^ 64 - 1) ^^^ i)
    fwInitInner i 64 k i t) (Array.replicate size 0)

/-- `update(pos)`: `pos >>= 1; do { tree_[pos]--; pos |= pos + 1; } while (pos < size_);`
    (`none`: the first write is out of bounds) -/
def fwUpdateLoop (size : Nat) : Nat → Nat → Fenwick → Fenwick
  | 0, _, t => t
  | fuel + 1, pos, t =>
    let t := t.modify pos (· - 1)
    let pos := pos ||| (pos + 1)
    if pos < size then fwUpdateLoop size fuel pos t else t

def fwUpdate (t : Fenwick) (pos : Nat) : Option Fenwick :=
  let p := pos / 2
  if p < t.size then some (fwUpdateLoop t.size t.size p t) else none

/-- `count(low, high)`: `pos = (high - low) >> 1; sum = tree_[pos++]; while ((pos &= pos - 1) != 0) sum += tree_[pos - 1];`
    (`none`: `high < low` or `tree_[pos]` out of bounds) -/
def fwCountLoop (t : Fenwick) : Nat → Nat → Int → Int
  | 0, _, s => s
  | fuel + 1, pos, s =>
    let pos := pos &&& (pos - 1)
    if pos ≠ 0 then fwCountLoop t fuel pos (s + t.getD (pos - 1) 0) else s

def fwCount (t : Fenwick) (low high : Nat) : Option Int :=
  if high < low then none else
  let pos := (high - low) / 2
  if pos < t.size then some (fwCountLoop t (pos + 1) (pos + 1) (t.getD pos 0)) else none

/-- `cross_off(prime, low, high, next_multiple, sieve, tree)` of pi_lmo4.cpp:32-52 -/
def crossOff4 (low high step : Nat) : Nat → Nat → Array Bool → Fenwick → Option (Nat × Array Bool × Fenwick)
  | 0, k, s, t => some (k, s, t)
  | fuel + 1, k, s, t =>
    if k < high then
      if s.getD (k - low) false then
        match fwUpdate t (k - low) with
        | none => none
        | some t' => crossOff4 low high step fuel (k + step) (s.setIfInBounds (k - low) false) t'
      else crossOff4 low high step fuel (k + step) s t
    else some (k, s, t)

/-- `for (m = max_m; m > min_m; m--) if (mu[m] != 0 && prime < lpf[m]) s2 -= mu[m] * (phi[b] + tree.count(low, x / (prime * m)));` -/
def leafLoop4 (T : Tables) (x prime low : Nat) (tree : Fenwick) (minM : Nat) (phib : Int) :
    Nat → Int → Option Int
  | 0, s2 => some s2
  | n + 1, s2 =>
    let m := minM + n + 1
    if T.muOf m ≠ 0 ∧ prime < T.lpfOf m then
      match fwCount tree low (x / (prime * m)) with
      | none => none
      | some cnt => leafLoop4 T x prime low tree minM phib n (s2 - T.muOf m * (phib + cnt))
    else leafLoop4 T x prime low tree minM phib n s2

/-- the loop `for (b = c + 1; b < pi_y; b++)` of one segment (pi_lmo4.cpp:99-133) -/
def bLoop4 (T : Tables) (x y low high piY : Nat) : Nat → Nat → Array Bool → Fenwick → Seg → Option Seg
  | 0, _, _, _, st => some st
  | n + 1, b, sieve, tree, st =>
    if b < piY then
      let prime := T.p b
      let minM := max (x / (prime * high)) (y / prime)
      let maxM := min (x / (prime * low)) y
      if prime ≥ maxM then some st           -- break
      else
        match leafLoop4 T x prime low tree minM (st.phi.getD b 0) (maxM - minM) st.s2 with
        | none => none
        | some s2 =>
          -- phi[b] += tree.count(low, high - 1)
          match fwCount tree low (high - 1) with
          | none => none
          | some tot =>
            match crossOff4 low high (prime * 2) (high - low) (st.next.getD b 0) sieve tree with
            | none => none
            | some co =>
              bLoop4 T x y low high piY n (b + 1) co.2.1 co.2.2
                { next := st.next.setIfInBounds b co.1, phi := st.phi.setIfInBounds b (st.phi.getD b 0 + tot), s2 := s2 }
    else some st

def segLoop4 (T : Tables) (x y c piY limit segSize : Nat) : Nat → Nat → Seg → Option Seg
  | 0, _, st => some st
  | n + 1, low, st =>
    if low < limit then
      let high := min (low + segSize) limit
      let ns := preSieve T low high c st.next (Array.replicate segSize true)
      match bLoop4 T x y low high piY (piY - (c + 1)) (c + 1) ns.2 (fwInit ns.2) { st with next := ns.1 } with
      | none => none
      | some st' => segLoop4 T x y c piY limit segSize n (low + segSize) st'
    else some st

/-- the Fenwick-tree engine with an explicit segment size -/
def s2Seg4 (T : Tables) (x y c piY segSize : Nat) : Option Int :=
  if y = 0 then none else
  let limit := x / y
  (segLoop4 T x y c piY limit segSize limit 1
    { next := T.primes, phi := Array.replicate T.primes.size 0, s2 := 0 }).map (·.s2)

/-- `S2(…)` of pi_lmo4.cpp: `segment_size = next_power_of_2(isqrt(limit))` -/
def s2Lmo4 (T : Tables) (x y c piY : Nat) : Option Int :=
  s2Seg4 T x y c piY (nextPow2 (isqrtN (x / y)))

/-- `pi_lmo4(x)`; `y` is the value of `(int64_t)(x13 * alpha)` -/
def piLmo4 (y : Nat) (x : Int) : Option Int :=
  if x < 2 then some 0 else
  let x := x.toNat
  let c := getC y
  let T := tablesFor y
  let t := ntFor x y
  let piY := T.piY
  let p2 := t.P2 x y
  let s1 := t.S1 x y c
  match s2Lmo4 T x y c piY with
  | none => none
  | some s2 => some (s1 + s2 + piY - 1 - p2)

end Pc.SimpleAlgs
