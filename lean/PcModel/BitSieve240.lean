/-
C17 (lookup-table half): the DEFINING FORMULAS of the BitSieve240 tables and the checkers used by the
generated obligations in `PcGen/TablesObl.lean` (core Lean only, everything structurally recursive so
that `decide` evaluates it quickly in the kernel).

One 64-bit word covers 240 consecutive integers; bit `k` (k < 64) stands for the number
`30 * (k / 8) + {1,7,11,13,17,19,23,29}[k % 8]` relative to the start of the block
(include/BitSieve240.hpp).
-/
import PcModel.Basic
namespace Pc

/-- the 8 residues coprime to 30 -/
def wheelOffT : Nat → Nat
  | 0 => 1 | 1 => 7 | 2 => 11 | 3 => 13 | 4 => 17 | 5 => 19 | 6 => 23 | _ => 29

/-- number (relative to the block start) represented by bit `k` of a word -/
def wheelNum (k : Nat) : Nat := 30 * (k / 8) + wheelOffT (k % 8)

/-- the word whose bit `k` (for `k < n`) is set iff `pred (wheelNum k)` -/
def maskOf (pred : Nat → Bool) : Nat → Nat
  | 0 => 0
  | k + 1 => maskOf pred k + (if pred (wheelNum k) then 2 ^ k else 0)

/-- `set_bit_[r]`: the bit of `r` if `r` is a wheel position, else 0 -/
def setBitSpec (r : Nat) : Nat := maskOf (fun m => m == r) 64

/-- `unset_bit_[r] = ~set_bit_[r]` -/
def unsetBitSpec (r : Nat) : Nat := 2 ^ 64 - 1 - setBitSpec r

/-- `unset_larger_[r]`: keeps the positions `≤ r` ("unset bits > r") -/
def unsetLargerSpec (r : Nat) : Nat := maskOf (fun m => decide (m ≤ r)) 64

/-- `Sieve::unset_smaller[r]`: keeps the positions `≥ r` ("unset bits < r") -/
def unsetSmallerSpec (r : Nat) : Nat := maskOf (fun m => decide (r ≤ m)) 64

/-- number of 1 bits among the low `n` bits -/
def popc : Nat → Nat → Nat
  | 0, _ => 0
  | n + 1, b => b % 2 + popc n (b / 2)

/-- `popcnt64` -/
def popcount64 (b : Nat) : Nat := popc 64 b

/-- no odd `e ≡ d (mod 2)` with `d ≤ e`, `e * e ≤ n` divides `n` (`fuel` bounds the scan; step 2) -/
def noDivFromSR (n : Nat) : Nat → Nat → Bool
  | 0, _ => true
  | fuel + 1, d => if n < d * d then true else if n % d == 0 then false else noDivFromSR n fuel (d + 2)

/-- primality by structurally recursive trial division (2, then the odd numbers from 3) -/
def isPrimeSR (n : Nat) : Bool :=
  decide (2 ≤ n) && (n == 2 || (n % 2 != 0 && noDivFromSR n n 3))

/-- what a prime-table word of block `i` (numbers `[240 i, 240 i + 240)`) must contain:
    bit `k` set iff `240 i + wheelNum k` is prime -/
def primeWord (i : Nat) : Nat := maskOf (fun m => isPrimeSR (240 * i + m)) 64

/-! ### checkers used by the generated obligations (one structural pass over a table) -/

/-- the entries of `l` are `f i, f (i+1), ...` -/
def agreeFrom (f : Nat → Nat) : Nat → List Nat → Bool
  | _, [] => true
  | i, x :: xs => x == f i && agreeFrom f (i + 1) xs

/-- entries `start .. start+len-1` of the table `l` agree with `f` -/
def rowOk (f : Nat → Nat) (start len : Nat) (l : List Nat) : Bool :=
  agreeFrom f start ((l.drop start).take len)

/-- FactorTable: `n` is coprime to 2·3·5·7·11 -/
def coprime2310 (n : Nat) : Bool := n % 2 != 0 && n % 3 != 0 && n % 5 != 0 && n % 7 != 0 && n % 11 != 0

/-- `coprime_`: the numbers below 2310 coprime to 2310, increasing -/
def coprimeSpec : List Nat := (List.range 2310).filter coprime2310

/-- `coprime_indexes_` continues a running count: each entry is the previous one, plus one when the
    position `r` is coprime to 2310 (so entry `r` = index of the closest coprime number `≤ r`) -/
def idxStepsOk : Int → Nat → List Int → Bool
  | _, _, [] => true
  | prev, r, x :: xs => (x == prev + (if coprime2310 r then 1 else 0)) && idxStepsOk x (r + 1) xs

/-- whole table: entry 0 is -1, then running count -/
def idxTableOk : List Int → Bool
  | [] => false
  | x :: xs => x == -1 && idxStepsOk x 1 xs

/-- entries `start .. start+len-1` (`start ≥ 1`) continue the count from entry `start - 1` -/
def idxRowOk (start len : Nat) (l : List Int) : Bool :=
  match l.drop (start - 1) with
  | [] => false
  | prev :: rest => idxStepsOk prev start (rest.take len)

end Pc
