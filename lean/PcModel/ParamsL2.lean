/-
C12 (magnitude half) / C04 / C11 / C16: L2 model, in CHECKED arithmetic, of the derivation of every internal
parameter from `x` and the tuning factors, for both widths:

* `src/gourdon/pi_gourdon.cpp`   37-70 (`pi_gourdon_64`: derivation 44-62), 100-138 (`pi_gourdon_128`: range check 107-112
  first, derivation 114-130)
* `src/deleglise-rivat/pi_deleglise_rivat.cpp` 66-79 (`_64`: 73-78), 105-122 (`_128`: range check 112-116, derivation 118-121)
* `src/lmo/pi_lmo_parallel.cpp` 232-236, `src/lmo/pi_lmo5.cpp` 162-166
* `src/util.cpp` 421-445 (`get_x_star_gourdon`), 47-50 (`truncate3`), 173-201 (`set_alpha*`); `src/api.cpp` 187-196 (`get_max_x`)
* `include/PhiTiny.hpp` 117-133 (`get_c`, `get_k`), `include/FactorTable.hpp` 193-197 / `FactorTableD.hpp` 225-229 (`max()`)
  and the `throw` in the constructors (70-71 / 74-75), the element type choice `D.cpp` 256 / 311-322, `S2_hard.cpp` 253 /
  309-321, `AC_libdivide.cpp` 480 / 516-524
* the values the callees derive once more: `xy = x / y`, `xz = x / z` (`AC_libdivide.cpp` 322-323, `AC.cpp` 213-214, `D.cpp` 199,
  `B.cpp` 97, `P2.cpp` 112), `isqrt(z)`, `max_a_prime` (`AC_libdivide.cpp` 478 / 511), the thread counts (`D.cpp` 203-207,
  `AC_libdivide.cpp` 326-330, `S2_hard.cpp` 198-202)
* `include/fast_div.hpp` 105-133 (`fast_div64`: the x86 `div` instruction traps unless the quotient fits 64 bits)

Every value that the C++ code obtains from a `double` is a PARAMETER (`GFloats`, `DFloats`): the model receives the
mathematically truncated value of the double (an unbounded integer) and performs the cast CHECKED — a cast whose operand
does not fit the target type is undefined behaviour in C++ and the explicit failure `PErr.castUB` here; an integer
narrowing that would change the value is `PErr.narrow`; what the real code rejects with `primecount_error` is
`PErr.range` (x > get_max_x(alpha_y)) resp. `PErr.factorTable`. Nothing is totalised away.
-/
import PcModel.Params
import PcGen.PhiTinyData
namespace Pc

/-- failure values of the checked derivation -/
inductive PErr where
  /-- `throw primecount_error("pi(x): x must be <= ...")` -/
  | range
  /-- `throw primecount_error("z must be <= FactorTable::max()")` -/
  | factorTable
  /-- float → integer cast with an operand outside the target type (undefined behaviour) -/
  | castUB
  /-- integer narrowing / signed arithmetic that does not preserve the value -/
  | narrow
  /-- division by zero -/
  | divZero
deriving Repr, DecidableEq

def PErr.show : PErr → String
  | .range => "ERR:pc" | .factorTable => "ERR:pc" | .castUB => "UB" | .narrow => "NARROW" | .divZero => "DIV0"

def i64Min : Int := -(2 ^ 63)
def i64Max : Int := 2 ^ 63 - 1
def i128Max : Int := 2 ^ 127 - 1
def i128Min : Int := -(2 ^ 127)
def intMax : Int := 2 ^ 31 - 1
def intMin : Int := -(2 ^ 31)

/-- `(int64_t) d` for a double `d` whose truncation is `t` -/
def castI64 (t : Int) : Except PErr Int := if i64Min ≤ t ∧ t ≤ i64Max then .ok t else .error .castUB
/-- `(int128_t) d` -/
def castI128 (t : Int) : Except PErr Int := if i128Min ≤ t ∧ t ≤ i128Max then .ok t else .error .castUB
/-- `(int) d` -/
def castInt (t : Int) : Except PErr Int := if intMin ≤ t ∧ t ≤ intMax then .ok t else .error .castUB
/-- `int64_t v = <wider integer expression>` -/
def narrowI64 (t : Int) : Except PErr Int := if i64Min ≤ t ∧ t ≤ i64Max then .ok t else .error .narrow
/-- a value computed in `maxint_t` (signed 128-bit) arithmetic -/
def chkI128 (t : Int) : Except PErr Int := if i128Min ≤ t ∧ t ≤ i128Max then .ok t else .error .narrow

/-! ### PhiTiny::get_c / get_k, FactorTable<T>::max() -/

/-- `PhiTiny::get_c(y)`: `y < pi.size() ? pi[y] : max_a()` over the table dumped from the real object -/
def getC (y : Nat) : Nat :=
  if y < Gen.PhiTiny.piSmall.length then Gen.PhiTiny.piSmall.getD y 0 else Gen.PhiTiny.maxA

/-- `PhiTiny::get_k(x) = get_c(iroot<4>(x))` -/
def getK (x : Nat) : Nat := getC (irootN 4 x)

/-- `FactorTable<T>::max() = ipow<2>(T_MAX - 1) - 1` (same formula in FactorTableD) -/
def factorTableMax (tBits : Nat) : Nat := (2 ^ tBits - 1 - 1) ^ 2 - 1

/-! ### get_x_star_gourdon (util.cpp 421-445) in checked arithmetic -/

/-- all arithmetic is done in `maxint_t` (int128) resp. `int64_t` exactly as in the source:
    `y = max(y, 1); yy = (maxint_t) y * y; x_div_yy = ceil_div(x, yy) = (x + yy - 1) / yy;`
    `x_star = (int64_t) max(iroot<4>(x), x_div_yy); sqrt_xy = (int64_t) isqrt(x / y);`
    `x_star = min(x_star, y); x_star = min(x_star, sqrt_xy); x_star = max(x_star, 1)` -/
def xStarL2 (x : Nat) (y : Int) : Except PErr Int := do
  let y := max y 1
  let yy ← chkI128 (y * y)
  let num ← chkI128 ((x : Int) + yy - 1)
  let xDivYY := num / yy
  let xs ← narrowI64 (max (irootN 4 x : Int) xDivYY)
  let sqrtXY ← narrowI64 (isqrtN (x / y.toNat))
  pure (max (min (min xs y) sqrtXY) 1)

/-! ### Gourdon -/

/-- the float-derived values of one `pi_gourdon_*` run (truncations of the doubles; unbounded) -/
structure GFloats where
  /-- trunc of `pow((1ull << 62) * alpha_y, 3.0 / 2.0)` (get_max_x) -/
  maxX : Int
  /-- trunc of the double product `x13 * alpha_y` -/
  v : Int
  /-- trunc of the double product `y * alpha_z`, for the `y` that was derived -/
  w : Int → Int
  /-- trunc of `std::pow(xz, 1 / 3.7)` (D.cpp 195, AC_libdivide.cpp 348) -/
  mt : Int → Int

structure GOut where
  x13 : Int
  sqrtx : Int
  /-- the cast value before the clamps -/
  v : Int
  y : Int
  k : Nat
  w : Int
  z : Int
  xStar : Int
  /-- `int64_t xy = x / y` (AC_OpenMP, B_OpenMP, P2) -/
  xy : Int
  /-- `int64_t xz = x / z` (AC_OpenMP, D_OpenMP): sieve limit of D -/
  xz : Int
  sqrtz : Nat
  sqrtxy : Int
  /-- `max_a_prime = (int64_t) isqrt(x / x_star)` -/
  maxAPrime : Int
  /-- D: `FactorTableD<uint16_t>` (true) or `<uint32_t>` -/
  ft16 : Bool
  /-- AC: `generate_primes<uint32_t>` (true) or `<uint64_t>` -/
  prim32 : Bool
  /-- `(int) std::pow(xz, 1 / 3.7)` -/
  maxThreads : Int
  thrD : Int
  thrAC : Int
deriving Repr, DecidableEq

/-- `pi_gourdon_64` (wide = false) / `pi_gourdon_128` (wide = true) for `x ≥ 2`, plus what `AC`, `B`, `D` derive from
    `(x, y, z)`. `threads` is the caller's thread count. -/
def gourdonL2 (wide : Bool) (x : Nat) (threads : Int) (fo : GFloats) : Except PErr GOut := do
  if wide then
    -- maxint_t limit = get_max_x(alpha_y); if (x > limit) throw
    let limit ← castI128 fo.maxX
    if (x : Int) > limit then throw .range
  let x13 ← narrowI64 (irootN 3 x)
  let sqrtx ← narrowI64 (isqrtN x)
  let v ← castI64 fo.v
  let y := max (min (max v (x13 + 1)) (sqrtx - 1)) 1
  let k := getK x
  let w ← castI64 (fo.w y)
  let z := max (min (max w y) (sqrtx - 1)) 1
  let xStar ← xStarL2 x y
  let xy ← narrowI64 ((x : Int) / y)
  let xz ← narrowI64 ((x : Int) / z)
  let maxAPrime ← narrowI64 (isqrtN (x / xStar.toNat))
  -- D_default: the 64-bit overload always builds FactorTableD<uint16_t> (throws beyond max())
  let ft16 := if wide then decide (z ≤ factorTableMax 16) else true
  if ¬ wide ∧ z > factorTableMax 16 then throw .factorTable
  if z > factorTableMax 32 then throw .factorTable
  let maxPrime := max maxAPrime y
  let prim32 := if wide then decide (maxPrime ≤ 2 ^ 32 - 1) else true
  let mt ← castInt (fo.mt xz)
  let t1 := min threads mt
  pure { x13, sqrtx, v, y, k, w, z, xStar, xy, xz, sqrtz := isqrtN z.toNat, sqrtxy := isqrtN (x / y.toNat),
         maxAPrime, ft16, prim32, maxThreads := mt,
         thrD := idealNumThreads xz t1 (2 ^ 20), thrAC := idealNumThreads x13 t1 1000 }

/-! ### Deleglise-Rivat and LMO -/

structure DFloats where
  /-- trunc of `pow((1ull << 62) * alpha, 3.0 / 2.0)` -/
  maxX : Int
  /-- trunc of the double product `iroot<3>(x) * alpha` -/
  v : Int
  /-- trunc of `std::pow(z, 1 / 3.7)` (S2_hard.cpp 190) -/
  mt : Int → Int

structure DOut where
  x13 : Int
  y : Int
  z : Int
  c : Nat
  sqrtz : Nat
  /-- S2_hard: `FactorTable<uint16_t>` (true) or `<uint32_t>` -/
  ft16 : Bool
  maxThreads : Int
  thr : Int
deriving Repr, DecidableEq

/-- `PhiTiny::get_c(y)` takes `uint64_t`: a negative `int64_t` converts to a huge value -/
def getCI (y : Int) : Nat := if y < 0 then Gen.PhiTiny.maxA else getC y.toNat

/-- `pi_deleglise_rivat_64/128` for `x ≥ 2` and the values `S2_hard` derives -/
def drL2 (wide : Bool) (x : Nat) (threads : Int) (fo : DFloats) : Except PErr DOut := do
  if wide then
    let limit ← castI128 fo.maxX
    if (x : Int) > limit then throw .range
  let x13 ← narrowI64 (irootN 3 x)
  let y ← castI64 fo.v
  if y = 0 then throw .divZero
  -- int64_t z = (int64_t)(x / y)   (C++ division truncates towards zero)
  let z ← narrowI64 (Int.tdiv x y)
  let c := getCI y
  if ¬ wide ∧ y > factorTableMax 16 then throw .factorTable
  if y > factorTableMax 32 then throw .factorTable
  let ft16 := if wide then decide (y ≤ factorTableMax 16) else true
  let mt ← castInt (fo.mt z)
  let t1 := min threads mt
  pure { x13, y, z, c, sqrtz := isqrtN z.toNat, ft16, maxThreads := mt, thr := idealNumThreads z t1 (2 ^ 20) }

structure LOut where
  x13 : Int
  y : Int
  z : Int
  c : Nat
deriving Repr, DecidableEq

/-- `pi_lmo_parallel` / `pi_lmo5` (64-bit only): `y = (int64_t)(x13 * alpha); z = x / y; c = get_c(y)` -/
def lmoL2 (x : Nat) (v : Int) : Except PErr LOut := do
  let x13 ← narrowI64 (irootN 3 x)
  let y ← castI64 v
  if y = 0 then throw .divZero
  pure { x13, y, z := Int.tdiv x y, c := getCI y }

/-! ### the tuning-factor state machine on exact values (util.cpp 47-53, 176-204)

`set_alpha*(a)`: `if (!(a >= 1.0)) alpha_ = -1; else alpha_ = truncate3(a)` (so NaN selects the automatic mode) with
`truncate3(n) = (int64_t)(std::min(n, 1e15) * 1000) / 1000.0`. `ge1` (the comparison `a >= 1.0`) and `k` (the truncation of
the double `min(a, 1e15) * 1000`) are the float outcomes. Before the repair recorded in KNOWN_FINDINGS.txt the code had no
`min` and tested `a < 1.0`: `set_alpha_y(1e16)`, `set_alpha(NaN)` reached the cast with a value outside `int64_t` (UB). -/
def setAlphaL2 (ge1 : Bool) (k : Int) : Except PErr (Option Int) :=
  if !ge1 then .ok none else do
    let k ← castI64 k
    pure (some k)

/-- Float envelope of `truncate3` (named hypothesis of `set_alpha_total`): for a double `a ≥ 1` the product
    `min(a, 1e15) * 1000` truncates into `[1000, 10^18]` — IEEE multiplication is monotone and `1e15 * 1000 = 10^18`
    is exact. The driver evaluates it on every sample of the `setalpha` ops. -/
def TruncClampEnv (ge1 : Bool) (k : Int) : Prop := ge1 = true → 1000 ≤ k ∧ k ≤ 10 ^ 18

instance (ge1 : Bool) (k : Int) : Decidable (TruncClampEnv ge1 k) := by unfold TruncClampEnv; exact inferInstance

/-! ### fast_div64 (include/fast_div.hpp 103-133) -/

/-- `fast_div64(x, y)` for a 128-bit `x ≥ 0` and a 64-bit `y > 0` on x86-64: the `div` instruction delivers the
    quotient iff it fits into 64 bits and raises #DE otherwise (`none`). -/
def fastDiv64 (x y : Nat) : Option Nat :=
  if y = 0 then none else if x / y < 2 ^ 64 then some (x / y) else none

/-- `fast_div(x, y)` (128-bit / 64-bit → 128-bit): plain division -/
def fastDiv (x y : Nat) : Option Nat := if y = 0 then none else some (x / y)

end Pc
