/-
C07 — model of `phi_tiny(x, a)` (include/PhiTiny.hpp, src/PhiTiny.cpp) for a ≤ 8: table driven.
The tables themselves are DUMPED from the real PhiTiny object by translator/extract_phitiny.py
(lean/PcGen/PhiTinyData.lean); this file holds the lookup code exactly as the header performs it and the
Bool-valued checks that `decide +kernel` evaluates on the generated data (lean/PcGen/PhiTinyObl.lean).
Core Lean only.
-/
import PcModel.Basic
namespace Pc

/-- `popcnt64(w)`: number of set bits among the low 64 -/
def popcnt64 (w : Nat) : Nat := (List.range 64).countP (fun k => w.testBit k)

/-- bit `k` of a sieve word stands for the number `30*(k/8) + {1,7,11,13,17,19,23,29}[k%8]` of its block of 240
    (BitSieve240: set_bit_/unset_bit_) -/
def wheelOff (k : Nat) : Nat := 30 * (k / 8) + [1, 7, 11, 13, 17, 19, 23, 29].getD (k % 8) 0

/-- the data members of `PhiTiny` and `BitSieve240` that `phi_tiny` reads, plus the constants hard-coded in
    `phi7` / `phi_recursive` -/
structure PhiTinyTables where
  primes : List Nat
  primeProducts : List Nat
  totients : List Nat
  phiTabs : List (List Nat)
  sieves : List (List (Nat × Nat))
  unsetLarger : List Nat
  phi7A : Nat := 7
  phi7PP : Nat
  phi7Totient : Nat
  prime8 : Nat

/-- `count + popcnt64(bits & unset_larger_[r % 240])` on `sieve[r / 240]` -/
def sieveLookup (tab : List (Nat × Nat)) (ul : List Nat) (r : Nat) : Nat :=
  match tab.getD (r / 240) (0, 0) with
  | (count, bits) => count + popcnt64 (bits &&& ul.getD (r % 240) 0)

/-- the table part of `PhiTiny::phi(x, a)`: `phi_[a][remainder]` or the compressed sieve -/
def PhiTinyTables.lookup (T : PhiTinyTables) (a r : Nat) : Nat :=
  if a < T.phiTabs.length then (T.phiTabs.getD a []).getD r 0
  else sieveLookup (T.sieves.getD a []) T.unsetLarger r

/-- `PhiTiny::phi(x, a)` -/
def PhiTinyTables.phiA (T : PhiTinyTables) (x a : Nat) : Nat :=
  let pp := T.primeProducts.getD a 1
  (x / pp) * T.totients.getD a 0 + T.lookup a (x % pp)

/-- `PhiTiny::phi7(x)` (a, pp, totient hard-coded) -/
def PhiTinyTables.phi7 (T : PhiTinyTables) (x : Nat) : Nat :=
  (x / T.phi7PP) * T.phi7Totient + sieveLookup (T.sieves.getD T.phi7A []) T.unsetLarger (x % T.phi7PP)

/-- `phi_tiny(x, a)` = `PhiTiny::phi_recursive((UT) x, a)`, for `0 ≤ x`, `a ≤ max_a() = primes.size()`.
    (The unsigned subtraction of the `a = 8` branch is a natural-number subtraction here; `phiTiny_correct`
    shows the minuend is never smaller.) -/
def PhiTinyTables.phiTiny (T : PhiTinyTables) (x a : Nat) : Nat :=
  if a < T.primes.length then T.phiA x a else T.phi7 x - T.phi7 (x / T.prime8)

/-! ### checks evaluated by the kernel on the generated data

The checks are written with the primitive `Nat.*` functions the kernel evaluates natively and walk over
LITERAL data only (a running index computed as `j + 1` would stay an unevaluated chain in the kernel), which
is why the sieve tables are checked through lists of triples `(240*j, count, bits)` with a literal first
component, generated next to the obligations. -/

/-- `n` is divisible by none of `ps` -/
def goodFor (ps : List Nat) (n : Nat) : Bool := ps.all (fun q => n % q != 0)

/-- the first `a` primes according to the table `primes` (`primes[0] = 0` is skipped) -/
def PhiTinyTables.firstPrimes (T : PhiTinyTables) (a : Nat) : List Nat := (T.primes.drop 1).take a

/-- numbers in `[1, r]` divisible by none of `ps`, by the definition -/
def countGood (ps : List Nat) (r : Nat) : Nat :=
  ((List.range (r + 1)).filter (fun n => Nat.ble 1 n && goodFor ps n)).length

/-- `(k, wheelOff k)` for the 64 bits of a sieve word -/
def wheelBits : List (Nat × Nat) :=
  [(0, 1), (1, 7), (2, 11), (3, 13), (4, 17), (5, 19), (6, 23), (7, 29),
   (8, 31), (9, 37), (10, 41), (11, 43), (12, 47), (13, 49), (14, 53), (15, 59),
   (16, 61), (17, 67), (18, 71), (19, 73), (20, 77), (21, 79), (22, 83), (23, 89),
   (24, 91), (25, 97), (26, 101), (27, 103), (28, 107), (29, 109), (30, 113), (31, 119),
   (32, 121), (33, 127), (34, 131), (35, 133), (36, 137), (37, 139), (38, 143), (39, 149),
   (40, 151), (41, 157), (42, 161), (43, 163), (44, 167), (45, 169), (46, 173), (47, 179),
   (48, 181), (49, 187), (50, 191), (51, 193), (52, 197), (53, 199), (54, 203), (55, 209),
   (56, 211), (57, 217), (58, 221), (59, 223), (60, 227), (61, 229), (62, 233), (63, 239)]

/-- bit `k` of `w` as 0/1 -/
def bitOf (w k : Nat) : Nat := Nat.land (Nat.shiftRight w k) 1

/-- compare the bits of the word `w` of the block starting at `base` with the predicate `g`;
    `some (acc + number of positions where g holds)` when all agree -/
def scanWord (g : Nat → Bool) (w base : Nat) : List (Nat × Nat) → Nat → Option Nat
  | [], acc => some acc
  | (k, o) :: rest, acc =>
      match g (Nat.add base o) with
      | true => if Nat.beq (bitOf w k) 1 then scanWord g w base rest (Nat.add acc 1) else none
      | false => if Nat.beq (bitOf w k) 0 then scanWord g w base rest acc else none

/-- `unset_larger_[m]` has exactly the bits of the numbers `≤ m`; `m` runs along the list -/
def checkUnsetLargerFrom : List Nat → Nat → Bool
  | [], _ => true
  | w :: ws, m => (scanWord (fun n => Nat.ble n m) w 0 wheelBits 0).isSome && checkUnsetLargerFrom ws (m + 1)

def checkUnsetLarger (ul : List Nat) : Bool := ul.length == 240 && checkUnsetLargerFrom ul 0

/-- what the constructor leaves in a bit: numbers `≥ pp` are never crossed off, below `pp` the bit says
    "coprime to `m`" (`m` = product of the sieving primes 7, 11, ...; 2, 3, 5 are excluded by the wheel) -/
def sieveBit (pp m n : Nat) : Bool := Nat.ble pp n || Nat.beq (Nat.gcd n m) 1

/-- walk over the triples `(base, count, bits)`: block starts below `pp`, bits are right, and the next
    triple starts 240 further with `count` increased by this block's population -/
def checkTriples (pp m : Nat) : List (Nat × Nat × Nat) → Bool
  | [] => true
  | (base, c, b) :: rest =>
      Nat.blt base pp &&
      (match scanWord (sieveBit pp m) b base wheelBits 0 with
       | none => false
       | some cnt =>
         match rest with
         | [] => true
         | (base', c', _) :: _ => Nat.beq base' (Nat.add base 240) && Nat.beq c' (Nat.add c cnt)) &&
      checkTriples pp m rest

/-- the constants and shapes the model relies on -/
def checkShape (T : PhiTinyTables) : Bool :=
  T.primes == [0, 2, 3, 5, 7, 11, 13, 17] && T.prime8 == 19 && T.phi7A == 7 &&
  T.primeProducts.length == 8 && T.totients.length == 8 && T.phiTabs.length == 4 && T.sieves.length == 8 &&
  T.phi7PP == T.primeProducts.getD 7 0 && T.phi7Totient == T.totients.getD 7 0 &&
  (List.range 8).all fun a =>
    let pp := T.primeProducts.getD a 0
    Nat.blt 0 pp && (T.firstPrimes a).all (fun q => pp % q == 0) &&
    T.totients.getD a 0 == T.lookup a (pp - 1) + (if goodFor (T.firstPrimes a) pp then 1 else 0)

/-- plain table `phi_[a]` (a < 4): every entry is the naive count -/
def checkPhiTab (T : PhiTinyTables) (a : Nat) : Bool :=
  let tab := T.phiTabs.getD a []
  let pp := T.primeProducts.getD a 0
  tab.length == pp && (List.range pp).all fun r => tab.getD r 0 == countGood (T.firstPrimes a) r

/-- compressed table `sieve_[a]` (4 ≤ a < 8), through its literal triples `ts` and the literal product `m`
    of the sieving primes -/
def checkSieveTab (T : PhiTinyTables) (a m : Nat) (ts : List (Nat × Nat × Nat)) : Bool :=
  let pp := T.primeProducts.getD a 0
  Nat.ble 3 a &&
  (T.firstPrimes a).take 3 == [2, 3, 5] &&
  Nat.beq m (((T.firstPrimes a).drop 3).foldr Nat.mul 1) &&
  ts.map (fun t => t.2) == T.sieves.getD a [] &&
  (match ts with | [] => false | (base, c, _) :: _ => Nat.beq base 0 && Nat.beq c 0) &&
  Nat.ble pp (240 * ts.length) &&
  checkTriples pp m ts

end Pc
