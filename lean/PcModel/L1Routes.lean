/-
C01/C02: L1 models of the four routes of the size dispatcher, written with the executable defining sums of
`PcModel/Formulas.lean` (which the C08 streams compare the C++ terms with). Float-derived quantities are
parameters (`FloatOutcomes`): the two products behind Gourdon's (y, z) and the tuning-dependent range limit.
-/
import PcModel.Api
import PcModel.Formulas
import PcModel.Params
import PcModel.PiTable
namespace Pc

/-- a prime/π table large enough for every query of the formulas of (x, y) -/
def ntFor (x y : Nat) : NT := NT.build (max (max (x / max y 1) (isqrtN x)) y + 2)

/-- `pi_legendre`: π(x) = φ(x, a) + a − 1, a = π(⌊√x⌋) -/
def l1Legendre (x : Nat) : Nat :=
  let t := ntFor x (isqrtN x)
  t.phiOf x (t.piOf (isqrtN x)) + t.piOf (isqrtN x) - 1

/-- `pi_meissel`: π(x) = φ(x, a) + a − 1 − P2(x, a), a = π(⌊x^(1/3)⌋) -/
def l1Meissel (x : Nat) : Nat :=
  let y := irootN 3 x
  let t := ntFor x y
  ((t.phiOf x (t.piOf y) : Int) + t.piOf y - 1 - t.P2 x y).toNat

/-- `PhiTiny::get_k(x) = get_c(iroot<4>(x))` -/
def l1GetK (x : Nat) : Nat :=
  let r := irootN 4 x
  if r < 20 then piTD r else 8

/-- `pi_gourdon_64/128`: A − B + C + D + Φ0 + Σ with (y, z) from the clamps applied to ARBITRARY float products -/
def l1Gourdon (v : Int) (w : Int → Int) (x : Nat) : Nat :=
  let yz := gourdonYZ x v w
  let y := yz.1.toNat
  let z := yz.2.toNat
  let k := l1GetK x
  let t := ntFor x y
  (t.A x y + t.C x y z k - t.B x y + t.D x y z k + t.Phi0 x y z k + t.Sigma x y).toNat

/-- everything the floating point unit contributes: the two products per x and the range limit `get_max_x(alpha_y)` -/
structure FloatOutcomes where
  v : Nat → Int
  w : Nat → Int → Int
  limit : Nat → Nat

open PiApi in
/-- the L1 model of the whole dispatcher -/
def l1Routes (fo : FloatOutcomes) : Routes where
  cache := piCacheLookup PcGen.piCache
  legendre := l1Legendre
  meissel := l1Meissel
  gourdon64 := fun x => l1Gourdon (fo.v x) (fo.w x) x
  gourdon128 := fun x => if x ≤ fo.limit x then .ok (l1Gourdon (fo.v x) (fo.w x) x) else .error .pcError

end Pc
