/-
C07 (WP phicache) — L2 model of the CACHE of `class PhiCache` at the bit level, src/phi.cpp:47-97 (constructor),
192-212 (`is_pix`, `is_cached`, `phi_cache`), 222-274 (`init_cache`), 276-295 (members, `sieve_t`), and of
`PhiCache::phi<SIGN>` (phi.cpp:102-184) running on that real cache.  src/phi_vector.cpp carries a second copy of
the class whose text differs in three statements only (PcProps/C07CacheSrc.lean `phiVector_cache_same_text`); the only
semantic difference is the constructor's `max_x`: `(uint64_t) std::pow(x, 1 / 2.3)` in phi.cpp, `isqrt(x)` in
phi_vector.cpp — both enter the model as the parameter `maxXEst`.

Representation
* `sieve_t { uint32_t count; uint64_t bits; }` (packed, 12 bytes) is a pair `(count, bits)` of naturals;
  the cast `(uint32_t) count` of phi.cpp:269 is `% 2^32` (proved never to truncate: `count_no_truncation`).
* `Vector<Vector<sieve_t>> sieve_` is an `Array (Array Word)`; a never-resized / moved-from inner vector is `#[]`
  (`Vector`'s move assignment is a swap, include/Vector.hpp:99-104, and the target is always empty here).
* `uint64_t` arithmetic is modelled in ℕ; `PcProofs/PhiCache.lean` proves that with the geometry the constructor
  produces (`max_x_ < 2^29`) and `primes_[i] < 2^31` (the vector is `int32_t`) no intermediate reaches 2^64
  (`crossOff_no_overflow`).
* the BitSieve240 tables `unset_bit_`, `unset_larger_` are the generated data of PcGen/TablesData.lean.
Core Lean only (linked into pcdrv).
-/
import PcModel.PhiAlg
import PcModel.PiTable
import PcModel.PhiVector
namespace Pc.PhiCacheL2

/-- `BitSieve240::unset_bit_[r]` (generated data) -/
def unsetBitTbl (r : Nat) : Nat := PcGen.unsetBit.getD r 0

/-- `sieve_t`: `(count, bits)` -/
abbrev Word := Nat × Nat
abbrev Row := Array Word

/-- the data members of one `PhiCache` object (phi.cpp:276-295) -/
structure State where
  /-- `max_x_` -/
  maxX : Nat := 0
  /-- `max_x_size_` -/
  maxXSize : Nat := 0
  /-- `max_a_cached_` -/
  maxACached : Nat := 0
  /-- `max_a_` -/
  maxA : Nat := 0
  /-- `sieve_` -/
  sieve : Array Row := #[]
deriving Repr

/-- `sizeof(sieve_t)` under `#pragma pack(push, 1)`: 4 + 8 -/
def sizeofSieveT : Nat := 12

/-- `PhiCache::PhiCache(x, a, primes, pi)` (phi.cpp:50-97).  `maxXEst` is the value of the first assignment to
    `max_x` (phi.cpp:76 `(uint64_t) std::pow(x, 1 / 2.3)`; phi_vector.cpp: `isqrt(x)`).  Note the early return
    at line 90 leaves `max_x_size_` already assigned while `max_x_ = max_a_ = 0`. -/
def State.new (a maxXEst : Nat) : State :=
  let maxA0 := 100
  let a := a - min a 30
  let maxA := min a maxA0
  if maxA ≤ phiTinyMaxA then {} else
  let maxMegabytes := 16
  let indexes := maxA - phiTinyMaxA
  let maxBytes := maxMegabytes <<< 20
  let maxBytesPerIndex := maxBytes / indexes
  let numbersPerByte := 240 / sizeofSieveT
  let cacheLimit := maxBytesPerIndex * numbersPerByte
  let maxX := min maxXEst cacheLimit
  let size := ceilDiv maxX 240
  if size < 8 then { maxXSize := size } else
  { maxX := size * 240 - 1, maxXSize := size, maxA := maxA }

/-- `sieve_[i][n / 240].bits &= unset_bit_[n % 240]` (phi.cpp:257, 259); an out-of-range index would be a
    buffer overflow in C++ — `modify` ignores it, and `clearBit_in_range` proves it never happens -/
def clearBit (row : Row) (n : Nat) : Row :=
  row.modify (n / 240) fun w => (w.1, w.2 &&& unsetBitTbl (n % 240))

/-- `for (uint64_t n = prime * prime; n <= max_x_; n += prime * 2) clearBit` (phi.cpp:258-259); `fuel` bounds
    the number of iterations (`max_x_ + 1` suffices when `step ≥ 1`) -/
def crossOff (maxX step : Nat) : Nat → Nat → Row → Row
  | 0, _, row => row
  | fuel + 1, n, row => if n ≤ maxX then crossOff maxX step fuel (n + step) (clearBit row n) else row

/-- `for (auto& sieve : sieve_[i]) { sieve.count = (uint32_t) count; count += popcnt64(sieve.bits); }`
    (phi.cpp:267-271), `n` elements left, `j` the index of the next one -/
def countLoop : Nat → Nat → Nat → Row → Row
  | 0, _, _, row => row
  | n + 1, j, count, row =>
    let bits := (row.getD j (0, 0)).2
    countLoop n (j + 1) (count + popcount64 bits) (row.setIfInBounds j (count % 2 ^ 32, bits))

/-- phi.cpp:261-272 for one level -/
def countFill (row : Row) : Row := countLoop row.size 0 0 row

/-- the sieving of one level applied to the copy of the previous level (phi.cpp:255-272) -/
def sieveLevel (prime maxX i : Nat) (row : Row) : Row :=
  let row := if prime ≤ maxX then clearBit row prime else row
  let row := crossOff maxX (prime * 2) (maxX + 1) (prime * prime) row
  if i > phiTinyMaxA then countFill row else row

/-- body of the loop `for (; i <= a; i++)` of `init_cache` (phi.cpp:240-273) -/
def initLevel (primes : Nat → Nat) (maxX : Nat) (sieve : Array Row) (i : Nat) : Array Row :=
  let prev := sieve.getD (i - 1) #[]
  let sieve :=
    if i - 1 ≤ phiTinyMaxA then
      -- `sieve_[i] = std::move(sieve_[i - 1])`: a swap with the (empty) target
      (sieve.setIfInBounds (i - 1) (sieve.getD i #[])).setIfInBounds i prev
    else
      -- `sieve_[i].resize(sieve_[i - 1].size()); std::copy(...)`
      sieve.setIfInBounds i prev
  sieve.setIfInBounds i (sieveLevel (primes i) maxX i prev)

/-- `PhiCache::init_cache(a)` (phi.cpp:222-274); ASSERTs: `8 < a ≤ max_a_`, `a > max_a_cached_` -/
def State.initCache (primes : Nat → Nat) (st : State) (a : Nat) : State :=
  let st : State :=
    if st.sieve.isEmpty then
      { st with
        sieve := (Array.replicate (st.maxA + 1) (#[] : Row)).setIfInBounds 3
                   (Array.replicate st.maxXSize ((0, 2 ^ 64 - 1) : Word))
        maxACached := 3 }
    else st
  let i0 := st.maxACached + 1
  { st with
    maxACached := a
    sieve := (List.range' i0 (a + 1 - i0)).foldl (initLevel primes st.maxX) st.sieve }

/-- `is_cached(x, a)` (phi.cpp:198-203) -/
def State.isCached (st : State) (x a : Nat) : Bool :=
  decide (x ≤ st.maxX) && decide (a ≤ st.maxACached) && decide (phiTinyMaxA < a)

/-- `phi_cache(x, a)` (phi.cpp:205-212): `count + popcnt64(bits & unset_larger_[x % 240])` of `sieve_[a][x / 240]`;
    a read outside an array is answered `(0, 0)` here (`phiCache_in_range`: never happens when `is_cached`) -/
def State.phiCache (st : State) (x a : Nat) : Nat :=
  wordLookup ((st.sieve.getD a #[]).getD (x / 240) (0, 0)) x

/-! ### `PhiCache::phi<SIGN>` on the real cache (phi.cpp:102-184).
The environment `E : PhiEnv` supplies `primes_`, `pi_`, `phi_tiny`; its abstract `cache` field is NOT used. -/

/-- first loop (phi.cpp:138-163) with the real cache object threaded through the recursive calls -/
def phiLoop1S (E : PhiEnv) (rec : Int → Nat → Nat → State → Int × State) (sign : Int) (x sqrtx a : Nat) :
    Nat → Nat → Int → State → Int × State
  | 0, i, sum, st => (phiFinish sign a i sum, st)
  | n + 1, i, sum, st =>
    if E.prime i > sqrtx then (phiFinish sign a i sum, st)
    else
      let xp := x / E.prime i
      if E.isPix xp (i - 1) then
        (phiLoop2 E sign x sqrtx a n (i + 1) (sum + ((E.piTab xp : Int) - (i : Int) + 2) * -sign), st)
      else if st.isCached xp (i - 1) then
        phiLoop1S E rec sign x sqrtx a n (i + 1) (sum + (st.phiCache xp (i - 1) : Int) * -sign) st
      else
        let r := rec (-sign) xp (i - 1) st
        phiLoop1S E rec sign x sqrtx a n (i + 1) (sum + r.1) r.2

/-- `PhiCache::phi<SIGN>(x, a)` on the cache object `st`; returns the value and the object afterwards -/
def phiRecS (E : PhiEnv) : Nat → Int → Nat → Nat → State → Int × State
  | 0, _, _, _, st => (0, st)
  | fuel + 1, sign, x, a, st =>
    if x ≤ E.prime a then (sign, st)
    else if a ≤ phiTinyMaxA then ((E.tiny x a : Int) * sign, st)
    else if E.isPix x a then (((E.piTab x : Int) - (a : Int) + 1) * sign, st)
    else
      -- phi.cpp:113-115
      let want := min a st.maxA
      let st1 := if st.maxACached < want ∧ x ≤ st.maxX then st.initCache E.prime want else st
      if st1.isCached x a then ((st1.phiCache x a : Int) * sign, st1)
      else
        let largerC := max phiTinyMaxA (min st1.maxACached a)
        -- `sum = phi_cache(x, (c = larger_c)) * SIGN`: the assignment inside the argument moves the loop start
        let c := if st1.isCached x largerC then largerC else phiTinyMaxA
        let sum0 : Int :=
          if st1.isCached x largerC then (st1.phiCache x largerC : Int) * sign
          else (E.tiny x phiTinyMaxA : Int) * sign
        phiLoop1S E (phiRecS E fuel) sign x (Nat.sqrt x) a (a - c) (c + 1) sum0 st1

/-- one OpenMP thread of `phi_OpenMP` (phi.cpp:391-398): a fresh `PhiCache cache(x, a, primes, pi)`, then the
    loop indices the dynamic schedule hands to this thread, in the order it receives them; returns the thread's
    partial `sum` -/
def phiThread (E : PhiEnv) (x a maxXEst : Nat) (work : List Nat) : Int :=
  (work.foldl (fun (acc : Int × State) i =>
      let r := phiRecS E (i + 1) (-1) (x / E.prime i) (i - 1) acc.2
      (acc.1 + r.1, r.2)) (0, State.new a maxXEst)).1

/-- `phi_OpenMP(x, a, threads)` with real caches: `works` lists, per thread, the loop indices it executes (any
    distribution of `9..a` the `schedule(dynamic, 16)` may produce); the reduction adds the partial sums -/
def phiCpp (P : PhiTop) (maxXEst : Nat) (works : List (List Nat)) (x a : Int) : Int :=
  match phiGuards P x a with
  | .zero => 0
  | .x => x
  | .one => 1
  | .tiny => P.tiny x.toNat a.toNat
  | .pixUpper => 1
  | .phiPix1 => phiPix (P.piFn x.toNat) a.toNat
  | .phiPix2 => phiPix (P.piFn x.toNat) a.toNat
  | .main =>
    let xn := x.toNat
    let E : PhiEnv := { prime := P.prime, piSize := Nat.sqrt xn + 1, piTab := P.piTab, tiny := P.tiny,
                        cache := { maxX := 0, maxA := 0, val := fun _ _ => 0 } }
    (P.tiny xn phiTinyMaxA : Int) + (works.map (phiThread E xn a.toNat maxXEst)).sum

/-! ### `phi_vector(x, a, primes, pi)` (src/phi_vector.cpp) with its real `PhiCache` object.
The class text is the one of phi.cpp up to `max_x = isqrt(x)` (PcProps/C07CacheSrc.lean `phiVector_cache_same_text`). -/

/-- first loop of `phi_vector` (`phi[i] = phi[i - 1] + cache.phi<-1>(x / primes[i - 1], i - 2)`), the cache object
    threaded through the calls; mirrors `PhiVec.loop1` -/
def vecLoop1S (E : PhiEnv) (sqrtX x a : Nat) : Nat → Nat → List Int → State → (Nat × List Int) × State
  | 0, i, acc, st => ((i, acc), st)
  | fuel + 1, i, acc, st =>
    if i ≤ a ∧ E.prime (i - 1) ≤ sqrtX then
      let r := phiRecS E i (-1) (x / E.prime (i - 1)) (i - 2) st
      vecLoop1S E sqrtX x a fuel (i + 1) (acc ++ [acc.getD (i - 1) 0 + r.1]) r.2
    else ((i, acc), st)

/-- `phi_vector(x, a, primes, pi)` for `x ≥ 0`, `a ≥ 0` with `PhiCache<Primes> cache(x, a, primes, pi)`
    (`max_x = isqrt(x)`, `a` already replaced by `pi[x]` when `primes[a] > x`) -/
def phiVectorS (E : PhiEnv) (piX sqrtX x a : Nat) : List Int :=
  if a + 1 > 1 then
    let a' := if E.prime a > x then piX else a
    let r1 := (vecLoop1S E sqrtX x a' (a + 1) 2 [0, (x : Int)] (State.new a' sqrtX)).1
    let r2 := PhiVec.loop2 x a' (a + 1) r1.1 r1.2
    PhiVec.loop3 x (a + 1) (a + 1) r2.1 r2.2
  else [0]

end Pc.PhiCacheL2
