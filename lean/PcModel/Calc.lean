/-
C13 — L2 model of the expression calculator `include/calculator.hpp` (instantiated with
`T = int128_t = maxint_t`) and of `to_maxint` (`src/util.cpp`). Core Lean only, executable.

The control flow of the parser (`eatSpaces`, `parseValue`, `parseOp`, the shift/reduce loop of
`parseExpr` with its explicit stack, the final `!isEnd()` test) is written ONCE, generic over an
arithmetic interface `Arith V`, and instantiated three times:

* `checked` : the calculator AFTER the repair `fixes/fix_calculator.diff` — every arithmetic step whose
              exact result leaves `[-2^127, 2^127)` (or a bad shift count, `MIN / -1`, a negative
              exponent) is an error instead of a wrapped value;
* `tree`    : builds the syntax tree `Expr` that the shift/reduce loop implicitly evaluates;
* `wrap`    : the calculator of the pinned tree BEFORE the repair (two's complement wrap-around;
              undefined shifts are marked `trap`) — used to state and replay finding F2.

Input is a list of bytes (`0..255`); `index_` of the C++ code is represented by the remaining suffix.
-/
import PcModel.Basic

namespace Pc.Calc

abbrev Bytes := List Nat

/-- bytes of an ASCII string literal (for readable examples) -/
def ofStr (s : String) : Bytes := s.toList.map Char.toNat

/-- ways in which `to_maxint` / `calculator::eval` end without a value -/
inductive Err where
  /-- `calculator::error` "Syntax error: ..." (unexpected token, value expected, `)' expected) -/
  | syntax
  /-- `calculator::error` "Parser error: division by 0" -/
  | div0
  /-- `calculator::error` "Error: integer overflow" (added by the repair) -/
  | overflow
  /-- `calculator::error` "Error: negative exponent" (added by the repair) -/
  | negexp
  /-- `primecount_error` "number too large" thrown by `to_maxint`'s digit-only pre-check -/
  | tooLarge
  /-- `wrap` mode only: the unrepaired code executes an undefined operation (shift count outside
      `[0,128)`, `MIN / -1`); no value is claimed -/
  | trap
  /-- a state the C++ code cannot be in (empty operator stack, model fuel exhausted) -/
  | internal
deriving Repr, DecidableEq

/-- binary operators that `parseOp` can return (`OPERATOR_BITWISE_XOR` is never produced: `^` is power) -/
inductive Op where
  | bor | band | shl | shr | add | sub | mul | div | mod | pow | exp
deriving Repr, DecidableEq

/-- `struct Operator`: `op = none` is `OPERATOR_NULL`; `left` is `associativity == 'L'` -/
structure Oper where
  op : Option Op
  prec : Nat
  left : Bool
deriving Repr, DecidableEq

def Oper.null : Oper := ⟨none, 0, true⟩

/-- syntax tree built by the `tree` instantiation (unary `+` leaves no node, like in the code) -/
inductive Expr where
  | lit (n : Nat)
  | neg (e : Expr)
  | not (e : Expr)
  | bin (op : Op) (a b : Expr)
deriving Repr, DecidableEq

/-- the arithmetic that the parser performs, abstracted -/
structure Arith (V : Type) where
  /-- may the literal accumulator hold this value (checked after every digit)? -/
  litOk : Nat → Bool
  lit : Nat → V
  /-- unary minus -/
  neg : V → Except Err V
  /-- unary `~` -/
  not : V → V
  /-- `calculate(v1, v2, op)` -/
  bin : Op → V → V → Except Err V

abbrev Stack (V : Type) := List (Oper × V)

/-! ### characters -/

/-- `std::isspace` in the "C" locale: `\t \n \v \f \r` and space; bytes ≥ 0x80 are not spaces -/
def isSpace (c : Nat) : Bool := c == 32 || (9 ≤ c && c ≤ 13)

/-- `toInteger(char)`: value of a hexadecimal digit, `16` (`noDigit`) otherwise -/
def digitVal (c : Nat) : Nat :=
  if 48 ≤ c ∧ c ≤ 57 then c - 48
  else if 97 ≤ c ∧ c ≤ 102 then c - 97 + 10
  else if 65 ≤ c ∧ c ≤ 70 then c - 65 + 10
  else 16

/-- `eatSpaces()` -/
def eatSpaces : Bytes → Bytes
  | [] => []
  | c :: cs => if isSpace c then eatSpaces cs else c :: cs

/-- `isHex()` seen from the character AFTER the leading `'0'`: `index_ + 2 < size`, `tolower(x) == 'x'`
    and a hexadecimal digit follows -/
def isHex : Bytes → Bool
  | x :: h :: _ => (x == 120 || x == 88) && digitVal h < 16
  | _ => false

/-! ### generic control flow -/

section generic
variable {V : Type}

/-- the loops of `parseDecimal` (`base = 10`) and `parseHex` (`base = 16`): `value = value * base + d`
    while the next character is a digit below `base`; the accumulator is range-checked at every step -/
def parseNum (A : Arith V) (base : Nat) : Nat → Bytes → Except Err (Nat × Bytes)
  | acc, [] => .ok (acc, [])
  | acc, c :: cs =>
    if digitVal c < base then
      if A.litOk (acc * base + digitVal c) then parseNum A base (acc * base + digitVal c) cs
      else .error .overflow
    else .ok (acc, c :: cs)

/-- `parseOp()`: the operator table, exactly as the `switch` -/
def parseOp (s : Bytes) : Except Err (Oper × Bytes) :=
  match eatSpaces s with
  | 124 :: r => .ok (⟨some .bor, 4, true⟩, r)          -- '|'
  | 38 :: r => .ok (⟨some .band, 6, true⟩, r)          -- '&'
  | 60 :: 60 :: r => .ok (⟨some .shl, 9, true⟩, r)     -- "<<"
  | 60 :: _ => .error .syntax                          -- expect("<<") fails
  | 62 :: 62 :: r => .ok (⟨some .shr, 9, true⟩, r)     -- ">>"
  | 62 :: _ => .error .syntax
  | 43 :: r => .ok (⟨some .add, 10, true⟩, r)          -- '+'
  | 45 :: r => .ok (⟨some .sub, 10, true⟩, r)          -- '-'
  | 47 :: r => .ok (⟨some .div, 20, true⟩, r)          -- '/'
  | 37 :: r => .ok (⟨some .mod, 20, true⟩, r)          -- '%'
  | 42 :: 42 :: r => .ok (⟨some .pow, 30, false⟩, r)   -- "**"
  | 42 :: r => .ok (⟨some .mul, 20, true⟩, r)          -- '*'
  | 94 :: r => .ok (⟨some .pow, 30, false⟩, r)         -- '^' (patched: power, not XOR)
  | 101 :: r => .ok (⟨some .exp, 40, false⟩, r)        -- 'e'
  | 69 :: r => .ok (⟨some .exp, 40, false⟩, r)         -- 'E'
  | r => .ok (Oper.null, r)

/-- `parseOp s` returns operator `o` and leaves `r` (Boolean form used by the generated obligations) -/
def parseOpIs (s : Bytes) (o : Oper) (r : Bytes) : Bool :=
  match parseOp s with
  | .ok (o', r') => o' == o && r' == r
  | .error _ => false

/-- outcome of the inner `while` of `parseExpr` -/
inductive Reduced (V : Type) where
  /-- the `OPERATOR_NULL` sentinel was reached and popped: `return value` -/
  | done (v : V) (st : Stack V)
  /-- the loop condition became false: shift -/
  | cont (v : V) (st : Stack V)

/-- inner loop of `parseExpr`: reduce while the new operator binds less tightly than the stack top -/
def reduce (A : Arith V) (op : Oper) : V → Stack V → Except Err (Reduced V)
  | _, [] => .error .internal                    -- `stack_.top()` on an empty stack: not reachable
  | v, (top, tv) :: st =>
    if op.prec < top.prec || (op.prec == top.prec && op.left) then
      match top.op with
      | none => .ok (.done v st)
      | some o =>
        match A.bin o tv v with
        | .error e => .error e
        | .ok v' => reduce A op v' st
    else .ok (.cont v ((top, tv) :: st))

mutual
/-- `parseValue()`; `fuel` bounds the recursion depth (see `calcWith`) -/
def parseValue (A : Arith V) : Nat → Stack V → Bytes → Except Err (V × Stack V × Bytes)
  | 0, _, _ => .error .internal
  | fuel + 1, st, s =>
    match eatSpaces s with
    | [] => .error .syntax                                   -- value expected at end of expression
    | c :: r =>
      if c = 48 then                                         -- '0'
        match (if isHex r then parseNum A 16 0 (r.drop 1) else parseNum A 10 0 (c :: r)) with
        | .error e => .error e
        | .ok (n, r') => .ok (A.lit n, st, r')
      else if 49 ≤ c ∧ c ≤ 57 then                           -- '1'..'9'
        match parseNum A 10 0 (c :: r) with
        | .error e => .error e
        | .ok (n, r') => .ok (A.lit n, st, r')
      else if c = 40 then                                    -- '('
        match parseExpr A fuel st r with
        | .error e => .error e
        | .ok (v, st', r') =>
          match eatSpaces r' with
          | 41 :: r'' => .ok (v, st', r'')                   -- ')'
          | _ => .error .syntax                              -- unexpected token / `)' expected
      else if c = 126 then                                   -- '~'
        match parseValue A fuel st r with
        | .error e => .error e
        | .ok (v, st', r') => .ok (A.not v, st', r')
      else if c = 43 then                                    -- unary '+'
        parseValue A fuel st r
      else if c = 45 then                                    -- unary '-'
        match parseValue A fuel st r with
        | .error e => .error e
        | .ok (v, st', r') =>
          match A.neg v with
          | .error e => .error e
          | .ok v' => .ok (v', st', r')
      else .error .syntax                                    -- unexpected token

/-- `parseExpr()`: push the sentinel, parse the left value, enter the loop -/
def parseExpr (A : Arith V) : Nat → Stack V → Bytes → Except Err (V × Stack V × Bytes)
  | 0, _, _ => .error .internal
  | fuel + 1, st, s =>
    match parseValue A fuel ((Oper.null, A.lit 0) :: st) s with
    | .error e => .error e
    | .ok (v, st', r) => exprLoop A fuel v st' r

/-- one iteration of `while (!stack_.empty())` in `parseExpr` -/
def exprLoop (A : Arith V) : Nat → V → Stack V → Bytes → Except Err (V × Stack V × Bytes)
  | 0, _, _, _ => .error .internal
  | fuel + 1, v, st, s =>
    if st.isEmpty then .ok (A.lit 0, st, s) else             -- `return 0;` after the loop: not reachable
    match parseOp s with
    | .error e => .error e
    | .ok (op, r) =>
      match reduce A op v st with
      | .error e => .error e
      | .ok (.done v' st') => .ok (v', st', r)
      | .ok (.cont v' st') =>
        match parseValue A fuel ((op, v') :: st') r with
        | .error e => .error e
        | .ok (v2, st2, r2) => exprLoop A fuel v2 st2 r2
end

/-- `ExpressionParser<T>::eval(expr)`: `parseExpr()` then `if (!isEnd()) unexpected()`.
    Every recursive call consumes input at least every second step, so `2 * size + 2` levels suffice
    (`PcProofs.Calc.fuel_sufficient`). -/
def calcWith (A : Arith V) (s : Bytes) : Except Err V :=
  match parseExpr A (2 * s.length + 2) [] s with
  | .error e => .error e
  | .ok (v, _, r) => if r.isEmpty then .ok v else .error .syntax

end generic

/-! ### arithmetic on `int128_t` -/

def MAX : Int := 2 ^ 127 - 1
def MIN : Int := -(2 ^ 127)

/-- `v` is representable in `int128_t` -/
def inR (v : Int) : Bool := decide (MIN ≤ v) && decide (v ≤ MAX)

def chk (v : Int) : Except Err Int := if inR v then .ok v else .error .overflow

/-- `a AND NOT b` on naturals -/
def natLdiff (a b : Nat) : Nat := a - (a &&& b)

/-- two's complement `&` on integers of any size (`negSucc m = ~m`) -/
def land : Int → Int → Int
  | .ofNat m, .ofNat n => ((m &&& n : Nat) : Int)
  | .ofNat m, .negSucc n => ((natLdiff m n : Nat) : Int)
  | .negSucc m, .ofNat n => ((natLdiff n m : Nat) : Int)
  | .negSucc m, .negSucc n => .negSucc (m ||| n)

/-- two's complement `|` -/
def lor : Int → Int → Int
  | .ofNat m, .ofNat n => ((m ||| n : Nat) : Int)
  | .ofNat m, .negSucc n => .negSucc (natLdiff n m)
  | .negSucc m, .ofNat n => .negSucc (natLdiff m n)
  | .negSucc m, .negSucc n => .negSucc (m &&& n)

/-- two's complement `~` -/
def lnot (v : Int) : Int := -v - 1

/-- the loop of `pow(x, n)` (exponentiation by squaring) with an abstract multiplication, for `n ≥ 0`.
    `n -= 1; n /= 2` after an odd `n` equals `n / 2` on naturals. `fuel` = iterations allowed
    (128 suffice for `n < 2^128`). -/
def powLoop (mul : Int → Int → Except Err Int) : Nat → Int → Int → Nat → Except Err Int
  | 0, res, _, n => if n = 0 then .ok res else .error .internal
  | fuel + 1, res, x, n =>
    if n = 0 then .ok res else
    match (if n % 2 = 1 then mul res x else .ok res) with
    | .error e => .error e
    | .ok res' =>
      if n / 2 = 0 then .ok res' else
      match mul x x with
      | .error e => .error e
      | .ok x' => powLoop mul fuel res' x' (n / 2)

def mulC (a b : Int) : Except Err Int := chk (a * b)

/-- repaired `pow`: negative exponent is an error, every product is range-checked -/
def powC (x n : Int) : Except Err Int :=
  if n < 0 then .error .negexp else powLoop mulC 128 1 x n.toNat

/-- repaired `calculate` on `int128_t` -/
def binC : Op → Int → Int → Except Err Int
  | .bor, a, b => .ok (lor a b)
  | .band, a, b => .ok (land a b)
  | .shl, a, b =>
    if a < 0 ∨ b < 0 ∨ b ≥ 128 then .error .overflow else chk (a * 2 ^ b.toNat)
  | .shr, a, b =>
    if b < 0 ∨ b ≥ 128 then .error .overflow else .ok (a >>> b.toNat)
  | .add, a, b => chk (a + b)
  | .sub, a, b => chk (a - b)
  | .mul, a, b => mulC a b
  | .div, a, b =>
    if b = 0 then .error .div0 else if a = MIN ∧ b = -1 then .error .overflow else .ok (Int.tdiv a b)
  | .mod, a, b =>
    if b = 0 then .error .div0 else if a = MIN ∧ b = -1 then .error .overflow else .ok (Int.tmod a b)
  | .pow, a, b => powC a b
  | .exp, a, b =>
    match powC 10 b with
    | .error e => .error e
    | .ok p => mulC a p

/-- the repaired calculator -/
def checked : Arith Int where
  litOk n := decide ((n : Int) ≤ MAX)
  lit n := (n : Int)
  neg v := chk (0 - v)
  not v := lnot v
  bin := binC

def tree : Arith Expr where
  litOk _ := true
  lit := .lit
  neg e := .ok (.neg e)
  not := .not
  bin o a b := .ok (.bin o a b)

/-- reduce modulo `2^128` into `[-2^127, 2^127)` -/
def wrap (v : Int) : Int := (v + 2 ^ 127) % 2 ^ 128 - 2 ^ 127

def mulW (a b : Int) : Except Err Int := .ok (wrap (a * b))

/-- `calculate` of the pinned tree (no overflow detection) -/
def binW : Op → Int → Int → Except Err Int
  | .bor, a, b => .ok (lor a b)
  | .band, a, b => .ok (land a b)
  | .shl, a, b => if b < 0 ∨ b ≥ 128 then .error .trap else .ok (wrap (a * 2 ^ b.toNat))
  | .shr, a, b => if b < 0 ∨ b ≥ 128 then .error .trap else .ok (a >>> b.toNat)
  | .add, a, b => .ok (wrap (a + b))
  | .sub, a, b => .ok (wrap (a - b))
  | .mul, a, b => mulW a b
  | .div, a, b =>
    if b = 0 then .error .div0 else if a = MIN ∧ b = -1 then .error .trap else .ok (Int.tdiv a b)
  | .mod, a, b =>
    if b = 0 then .error .div0 else if a = MIN ∧ b = -1 then .error .trap else .ok (Int.tmod a b)
  | .pow, a, b => if b < 0 then .ok 1 else powLoop mulW 128 1 a b.toNat
  | .exp, a, b =>
    match (if b < 0 then .ok 1 else powLoop mulW 128 1 10 b.toNat) with
    | .error e => .error e
    | .ok p => mulW a p

/-- the calculator of the pinned tree -/
def wrapA : Arith Int where
  litOk _ := true
  lit n := wrap n
  neg v := .ok (wrap (v * (-1)))
  not v := lnot v
  bin := binW

def calcChecked (s : Bytes) : Except Err Int := calcWith checked s
def calcTree (s : Bytes) : Except Err Expr := calcWith tree s
def calcWrap (s : Bytes) : Except Err Int := calcWith wrapA s

/-! ### exact (unbounded) meaning of a syntax tree -/

/-- exact mathematical value of one operator application; `none` when undefined (division by zero,
    negative exponent or shift count). `/` and `%` truncate toward zero like C++; `>>` is the floor
    of the division by `2^n` (arithmetic shift). -/
def binExact : Op → Int → Int → Option Int
  | .bor, a, b => some (lor a b)
  | .band, a, b => some (land a b)
  | .shl, a, b => if b < 0 then none else some (a * 2 ^ b.toNat)
  | .shr, a, b => if b < 0 then none else some (a >>> b.toNat)
  | .add, a, b => some (a + b)
  | .sub, a, b => some (a - b)
  | .mul, a, b => some (a * b)
  | .div, a, b => if b = 0 then none else some (Int.tdiv a b)
  | .mod, a, b => if b = 0 then none else some (Int.tmod a b)
  | .pow, a, b => if b < 0 then none else some (a ^ b.toNat)
  | .exp, a, b => if b < 0 then none else some (a * 10 ^ b.toNat)

def evalExact : Expr → Option Int
  | .lit n => some (n : Int)
  | .neg e => match evalExact e with
    | some v => some (-v)
    | none => none
  | .not e => match evalExact e with
    | some v => some (lnot v)
    | none => none
  | .bin op a b => match evalExact a, evalExact b with
    | some x, some y => binExact op x y
    | _, _ => none

/-- every product that the square-and-multiply loop `pow(x, n)` forms, computed on unbounded integers
    (`res * x` for an odd `n`, `x * x` whenever bits remain), in the order of the loop -/
def powProducts : Nat → Int → Int → Nat → List Int
  | 0, _, _, _ => []
  | fuel + 1, res, x, n =>
    if n = 0 then [] else
    (if n % 2 = 1 then [res * x] else []) ++
      (if n / 2 = 0 then [] else (x * x) :: powProducts fuel (if n % 2 = 1 then res * x else res) (x * x) (n / 2))

/-- side conditions of one operator application, on the exact operand values: shift counts lie in
    `[0, 128)`, exponents are non-negative and every product formed by `pow` is representable -/
def stepOk : Op → Int → Int → Prop
  | .shl, _, b => 0 ≤ b ∧ b < 128
  | .shr, _, b => 0 ≤ b ∧ b < 128
  | .pow, a, b => 0 ≤ b ∧ ∀ p ∈ powProducts 128 1 a b.toNat, inR p = true
  | .exp, _, b => 0 ≤ b ∧ ∀ p ∈ powProducts 128 1 10 b.toNat, inR p = true
  | _, _, _ => True

/-- `InRange e`: the exact value of EVERY sub-expression of `e` is defined and lies in
    `[-2^127, 2^127)`, and every operator application satisfies `stepOk` -/
def InRange : Expr → Prop
  | .lit n => inR (n : Int) = true
  | .neg e => InRange e ∧ ∃ v, evalExact (.neg e) = some v ∧ inR v = true
  | .not e => InRange e ∧ ∃ v, evalExact (.not e) = some v ∧ inR v = true
  | .bin op a b => InRange a ∧ InRange b ∧
      ∃ x y v, evalExact a = some x ∧ evalExact b = some y ∧ binExact op x y = some v ∧ inR v = true ∧ stepOk op x y

/-- bottom-up evaluation of a tree with the repaired arithmetic (used by the reference parser op) -/
def evalChecked : Expr → Except Err Int
  | .lit n => if checked.litOk n then .ok n else .error .overflow
  | .neg e => match evalChecked e with
    | .ok v => checked.neg v
    | .error e => .error e
  | .not e => match evalChecked e with
    | .ok v => .ok (lnot v)
    | .error e => .error e
  | .bin op a b => match evalChecked a with
    | .error e => .error e
    | .ok x => match evalChecked b with
      | .error e => .error e
      | .ok y => binC op x y

/-! ### `to_maxint` (src/util.cpp) -/

def isDigit (c : Nat) : Bool := 48 ≤ c && c ≤ 57

/-- `std::string::operator<` for byte strings (lexicographic, shorter prefix first) -/
def strLt : Bytes → Bytes → Bool
  | [], [] => false
  | [], _ :: _ => true
  | _ :: _, [] => false
  | a :: as, b :: bs => if a < b then true else if b < a then false else strLt as bs

/-- `to_string(numeric_limits<int128_t>::max())` = "170141183460469231731687303715884105727" -/
def maxDigits : Bytes :=
  [49,55,48,49,52,49,49,56,51,52,54,48,52,54,57,50,51,49,55,51,49,54,56,55,51,48,51,55,49,53,56,56,52,49,48,53,55,50,55]

/-- strip leading `'0'` characters: `expr.substr(expr.find_first_not_of('0'))` -/
def stripZeros : Bytes → Bytes
  | [] => []
  | c :: cs => if c = 48 then stripZeros cs else c :: cs

/-- the digit-only pre-check of `to_maxint`: `true` = throw `primecount_error("number too large")` -/
def tooLarge (s : Bytes) : Bool :=
  s.all isDigit &&
    (let n := stripZeros s
     !n.isEmpty && (decide (n.length > maxDigits.length) ||
       (n.length == maxDigits.length && strLt maxDigits n)))

/-- `to_maxint(expr)` generic in the calculator used -/
def toMaxintWith (ev : Bytes → Except Err Int) (s : Bytes) : Except Err Int :=
  if tooLarge s then .error .tooLarge else ev s

/-- `to_maxint` with the repaired calculator -/
def toMaxint (s : Bytes) : Except Err Int := toMaxintWith calcChecked s

/-- `to_maxint` of the pinned tree -/
def toMaxintWrap (s : Bytes) : Except Err Int := toMaxintWith calcWrap s

/-! ### command line: which single `argv` string reaches `to_maxint` (src/app/CmdOptions.cpp) -/

def isLetter (c : Nat) : Bool := (97 ≤ c && c ≤ 122) || (65 ≤ c && c ≤ 90)

/-- `isOption(str)`: `-x...` or `--x...` with a Latin letter `x` -/
def isOption : Bytes → Bool
  | 45 :: 45 :: c :: _ => isLetter c
  | 45 :: c :: _ => isLetter c
  | _ => false

/-- what `parseOption` does with one argument -/
inductive CliArg where
  /-- `primecount_error("unrecognized option ...")`: empty string, no digit at all, or a leading `-` -/
  | rejected
  /-- handled by the option table (every key of the table satisfies `isOption`); outside this model -/
  | option
  /-- `opt.opt = "--number"`, `opt.val = str`: the string is passed to `to_maxint` -/
  | number
deriving Repr, DecidableEq

/-- `parseOption` for an argument that is not a key of the option table -/
def cliArg (s : Bytes) : CliArg :=
  if s.isEmpty then .rejected
  else if isOption s then .option
  else if !s.any isDigit then .rejected            -- find_first_of("0123456789") == npos
  else if s.head? == some 45 then .rejected        -- str.at(0) == '-'
  else .number

/-- `primecount <s>` with a single non-option argument: the number whose primes are counted, or an error
    (message on stderr, exit status 1): `Option::to<maxint_t>` turns every exception of `to_maxint` into
    a `primecount_error`, `main` catches it -/
def cliNumber (s : Bytes) : Except Err Int :=
  match cliArg s with
  | .number => toMaxint s
  | _ => .error .syntax

/-- `to_int64(x)` of src/app/main.cpp: every 64-bit command-line option (`--legendre`, `--meissel`, `--lmo*`,
    `--nth-prime`, `--phi` (both numbers), `--gourdon-64`, …) narrows the evaluated number with it. Repaired (finding F8): a
    value outside int64 is rejected with a `primecount_error`. The unrepaired function tested only the upper bound and the
    second number of `--phi` was narrowed implicitly, so `primecount 0-18446744073709551516 --legendre` printed π(100). -/
def cliToInt64 (v : Int) : Except Err Int :=
  if -(2 : Int) ^ 63 ≤ v ∧ v < (2 : Int) ^ 63 then .ok v else .error .tooLarge

/-- `primecount <s> --<64-bit option>`: the number handed to the 64-bit function, or an error -/
def cliNumber64 (s : Bytes) : Except Err Int :=
  match cliNumber s with
  | .ok v => cliToInt64 v
  | .error e => .error e

/-! ### independent reference: precedence climbing for the documented operator table

Not used by any theorem about the code; it exists to cross-check (executably, op `toiref`) that the tree
built by the shift/reduce loop is the tree of the documented grammar. -/

/-- documented table: (operator, precedence, left-associative, characters consumed) -/
def refOp (s : Bytes) : Option (Op × Nat × Bool × Bytes) :=
  match s with
  | 42 :: 42 :: r => some (.pow, 30, false, r)
  | 60 :: 60 :: r => some (.shl, 9, true, r)
  | 62 :: 62 :: r => some (.shr, 9, true, r)
  | 124 :: r => some (.bor, 4, true, r)
  | 38 :: r => some (.band, 6, true, r)
  | 43 :: r => some (.add, 10, true, r)
  | 45 :: r => some (.sub, 10, true, r)
  | 42 :: r => some (.mul, 20, true, r)
  | 47 :: r => some (.div, 20, true, r)
  | 37 :: r => some (.mod, 20, true, r)
  | 94 :: r => some (.pow, 30, false, r)
  | 101 :: r => some (.exp, 40, false, r)
  | 69 :: r => some (.exp, 40, false, r)
  | _ => none

def refDigits (base : Nat) : Nat → Bytes → Nat × Bytes
  | acc, c :: cs => if digitVal c < base then refDigits base (acc * base + digitVal c) cs else (acc, c :: cs)
  | acc, [] => (acc, [])

mutual
/-- primary: number, parenthesis, unary operator (binds tightest) -/
def refPrimary : Nat → Bytes → Option (Expr × Bytes)
  | 0, _ => none
  | fuel + 1, s =>
    match eatSpaces s with
    | 40 :: r => match refExpr fuel 0 r with
      | some (e, r') => match eatSpaces r' with
        | 41 :: r'' => some (e, r'')
        | _ => none
      | none => none
    | 43 :: r => refPrimary fuel r
    | 45 :: r => (refPrimary fuel r).map fun (e, r') => (.neg e, r')
    | 126 :: r => (refPrimary fuel r).map fun (e, r') => (.not e, r')
    | 48 :: x :: h :: r =>
      if (x == 120 || x == 88) && digitVal h < 16 then
        let (n, r') := refDigits 16 0 (h :: r); some (.lit n, r')
      else let (n, r') := refDigits 10 0 (48 :: x :: h :: r); some (.lit n, r')
    | c :: r => if isDigit c then let (n, r') := refDigits 10 0 (c :: r); some (.lit n, r') else none
    | [] => none

/-- `expr(minPrec)`: parse a primary, then absorb operators of precedence ≥ `minPrec` -/
def refExpr : Nat → Nat → Bytes → Option (Expr × Bytes)
  | 0, _, _ => none
  | fuel + 1, minPrec, s =>
    match refPrimary fuel s with
    | none => none
    | some (lhs, r) => refClimb fuel minPrec lhs r

def refClimb : Nat → Nat → Expr → Bytes → Option (Expr × Bytes)
  | 0, _, _, _ => none
  | fuel + 1, minPrec, lhs, s =>
    match refOp (eatSpaces s) with
    | none => some (lhs, s)
    | some (op, prec, left, r) =>
      if prec < minPrec then some (lhs, s) else
      match refExpr fuel (if left then prec + 1 else prec) r with
      | none => none
      | some (rhs, r') => refClimb fuel minPrec (.bin op lhs rhs) r'
end

def refTree (s : Bytes) : Option Expr :=
  match refExpr (3 * s.length + 3) 0 s with
  | some (e, r) => if (eatSpaces r).isEmpty then some e else none
  | none => none

end Pc.Calc
