/-
L2 model, in the CHECKED arithmetic of PcModel/ParamsL2.lean, of the ten formula wrappers of src/app/main.cpp
(`AC B D Phi0 Sigma` 52–238, `P2 S1 S2_trivial S2_easy S2_hard` 240–346): what they derive from `x` and the tuning
factors and hand to the library function of the same name. Core Lean only. (WP cli2)

Each wrapper: `if (x < 1) return 0;` — `alpha = get_alpha_*(x)` — `limit = get_max_x(alpha[_y])`, `if (x > limit) throw` —
the derivation — `if (is_print()) set_print_variables(true)` — the call, 64-bit overload iff `x <= INT64_MAX`.
The float-derived values are the same PARAMETERS as in ParamsL2 (`GFloats`, `DFloats`): the wrappers call the same
`get_alpha_gourdon(x)` / `get_alpha_deleglise_rivat(x)` / `get_max_x` as `pi_gourdon_128` / `pi_deleglise_rivat_128` and form
the same double products, so a tuning override (`--alpha-y`, `--alpha-z`, `--alpha`) reaches both through the same numbers.
The text of the ten functions is pinned by the source mirror group Params (translator/extract_srcmirror.py).
-/
import PcModel.ParamsL2
import PcModel.Cli

namespace Pc.Cli

/-- the library call a wrapper makes: `fn(x, y[, z][, k | c][, …], threads)` -/
structure LibCall where
  fn : String
  x : Int
  y : Int
  z : Option Int
  /-- `k` (Gourdon: `PhiTiny::get_k(x)`) or `c` (Deleglise-Rivat: `PhiTiny::get_c(y)`) -/
  kc : Option Nat
  /-- the `maxint_t` overload is called (`x > INT64_MAX`) -/
  wide : Bool
deriving Repr, DecidableEq

/-- which parameters a wrapper derives: `z`? `k`/`c`? -/
structure WrapKind where
  gourdon : Bool
  usesZ : Bool
  usesKC : Bool
deriving Repr, DecidableEq

/-- the ten wrappers (main.cpp, source order) -/
def wrapKinds : List (String × WrapKind) := [
  ("AC", ⟨true, true, true⟩), ("B", ⟨true, false, false⟩), ("D", ⟨true, true, true⟩), ("Phi0", ⟨true, true, true⟩),
  ("Sigma", ⟨true, false, false⟩),
  ("P2", ⟨false, false, false⟩), ("S1", ⟨false, false, true⟩), ("S2_trivial", ⟨false, true, true⟩),
  ("S2_easy", ⟨false, true, true⟩), ("S2_hard", ⟨false, true, true⟩)]

def wrapKindOf (fn : String) : Option WrapKind :=
  match wrapKinds.find? (fun e => e.1 == fn) with
  | some e => some e.2
  | none => none

/-- `x13`, `sqrtx`, `y` of a Gourdon wrapper after the range check (main.cpp 57–74 and the four copies) -/
def wrapGY (x : Nat) (fo : GFloats) : Except PErr (Int × Int × Int) := do
  -- maxint_t limit = get_max_x(alpha_y); if (x > limit) throw
  let limit ← castI128 fo.maxX
  if (x : Int) > limit then throw .range
  let x13 ← narrowI64 (irootN 3 x)
  let sqrtx ← narrowI64 (isqrtN x)
  let v ← castI64 fo.v
  pure (x13, sqrtx, max (min (max v (x13 + 1)) (sqrtx - 1)) 1)

/-- a Gourdon wrapper: `B`, `Sigma` stop after `y`; `AC`, `D`, `Phi0` go on with `k = get_k(x)`,
    `z = (int64_t)(y * alpha_z)` and its clamps -/
def wrapGourdon (fn : String) (usesZ : Bool) (x : Int) (fo : GFloats) : Except PErr (Option LibCall) :=
  if x < 1 then pure none else do
    let (_, sqrtx, y) ← wrapGY x.toNat fo
    if usesZ then
      let k := getK x.toNat
      let w ← castI64 (fo.w y)
      let z := max (min (max w y) (sqrtx - 1)) 1
      pure (some ⟨fn, x, y, some z, some k, decide (x > i64Max)⟩)
    else
      pure (some ⟨fn, x, y, none, none, decide (x > i64Max)⟩)

/-- a Deleglise-Rivat wrapper: `y = (int64_t)(iroot<3>(x) * alpha)`; `P2` stops there, `S1` adds `c = get_c(y)`, the three
    `S2_*` add `z = (int64_t)(x / y)` (no `y == 0` test in the source: a zero divisor is `PErr.divZero` here) -/
def wrapDr (fn : String) (usesZ usesC : Bool) (x : Int) (fo : DFloats) : Except PErr (Option LibCall) :=
  if x < 1 then pure none else do
    let limit ← castI128 fo.maxX
    if x > limit then throw .range
    let _x13 ← narrowI64 (irootN 3 x.toNat)
    let y ← castI64 fo.v
    if usesZ then
      if y = 0 then throw .divZero
      let z ← narrowI64 (Int.tdiv x y)
      pure (some ⟨fn, x, y, some z, some (getCI y), decide (x > i64Max)⟩)
    else
      pure (some ⟨fn, x, y, none, if usesC then some (getCI y) else none, decide (x > i64Max)⟩)

/-- the wrapper named `fn` (`none`: returns 0 without calling the library) -/
def wrapFormula (fn : String) (x : Int) (gf : GFloats) (df : DFloats) : Except PErr (Option LibCall) :=
  match wrapKindOf fn with
  | none => pure none
  | some k => if k.gourdon then wrapGourdon fn k.usesZ x gf else wrapDr fn k.usesZ k.usesKC x df

end Pc.Cli
