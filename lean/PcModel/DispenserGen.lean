/-
The constants record of the dispenser models filled with the values generated from /repo.
-/
import PcModel.Dispenser
import PcGen.LbConst
namespace Pc.LB

def genConsts : Consts :=
  { sieveAlign := LbConst.sieveAlign, piAlign := LbConst.piAlign, l1Cache := LbConst.l1Cache,
    l2Cache := LbConst.l2Cache, s2NumbersPerByte := LbConst.s2NumbersPerByte, s2MinSize := LbConst.s2MinSize,
    s2InitSegs1 := LbConst.s2InitSegs1, s2Grow1 := LbConst.s2Grow1, s2Grow2 := LbConst.s2Grow2,
    s2Grow3 := LbConst.s2Grow3, p2MinDist := LbConst.p2MinDist, p2ChunksPerThread := LbConst.p2ChunksPerThread,
    acMinBytes := LbConst.acMinBytes, acNumbersPerByte := LbConst.acNumbersPerByte,
    acThreadsFactor := LbConst.acThreadsFactor, acIncrease := LbConst.acIncrease }

end Pc.LB
