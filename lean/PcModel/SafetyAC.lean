/-
C16 / C12 (WP safety4): what an UNSIGNED `N`-bit accumulator delivers after conversion to the signed `N`-bit type.

src/gourdon/AC.cpp:351/388/393 (`AC_OpenMP((uint64_t) x, …)` / `((uint128_t) x, …)`), S2_hard.cpp:219-220, D.cpp:222-223: the thread
functions accumulate in `UT = make_unsigned<T>` (arithmetic modulo `2^N`, no undefined behaviour; `sum -= …` and the conversion of a
negative `int64_t` to `UT` wrap by design) and the result is converted to the signed `T`.  If the TRUE (unbounded-integer) value of
the accumulated terms is `v`, the `T` value obtained is `wrapS N v`; it equals `v` iff `−2^(N−1) ≤ v < 2^(N−1)`.  Core Lean only.
-/
namespace Pc.Safety

/-- the signed `bits`-bit value congruent to `v` modulo `2^bits` -/
def wrapS (bits : Nat) (v : Int) : Int := (v + 2 ^ (bits - 1)) % 2 ^ bits - 2 ^ (bits - 1)

end Pc.Safety
