/-
C17 (counting-sieve half) / C15 (count paths): bit-exact L2 model of `class Sieve`
(include/Sieve.hpp, src/Sieve.cpp, src/Sieve_count.hpp, include/popcnt.hpp).  Core Lean only.

* the sieve array is an `Array Nat` of bytes (values < 256); `sieve64[i]` is the little-endian 64-bit view
  `word64 bytes i`; bit `t` of word `i` is bit `t % 8` of byte `8 i + t / 8`, i.e. global bit `64 i + t`;
  global bit `p` stands for the number `low + 30 (p / 8) + residues[p % 8]`.
* `cross_off` / `cross_off_count` are table driven: the 64 `case` lines and the 8 unrolled loops come from
  the GENERATED `PcGen/WheelData.lean`.
* the three bit counting paths (AVX512 `count_avx512`, `count_popcnt64` with the POPCNT instruction,
  `count_popcnt64` with the portable SWAR `popcnt64_bitwise_noinline`) are three functions over the same words.
* floats: `allocate_counter` computes the counter distance with `std::sqrt`; here `counterBytes` does the same
  with Lean's binary64 `Float` (bit-identical for sqrt); every theorem quantifies over that value.
-/
import PcModel.Basic
import PcModel.Roots
import PcModel.WheelSpec
import PcGen.WheelData

namespace Pc.Sieve
open Pc.WheelSpec

def M64 : Nat := 2 ^ 64
def M32 : Nat := 2 ^ 32

/-! ### bytes, words, bits -/

abbrev Bytes := Array Nat

/-- `sieve64[i]` on a little-endian machine -/
def word64 (s : Bytes) (i : Nat) : Nat :=
  s.getD (8 * i) 0 + 256 * (s.getD (8 * i + 1) 0 + 256 * (s.getD (8 * i + 2) 0 + 256 * (s.getD (8 * i + 3) 0 +
  256 * (s.getD (8 * i + 4) 0 + 256 * (s.getD (8 * i + 5) 0 + 256 * (s.getD (8 * i + 6) 0 +
  256 * s.getD (8 * i + 7) 0))))))

/-- global bit `p` of the sieve array -/
def bitAt (s : Bytes) (p : Nat) : Bool := (s.getD (p / 8) 0).testBit (p % 8)

/-- offset (from the segment's `low`) of the number represented by global bit `p` -/
def offsetOfBit (p : Nat) : Nat := 30 * (p / 8) + residues.getD (p % 8) 0

/-- number of 1 bits among the lowest `k` bits (specification of a population count) -/
def popCountBits : Nat → Nat → Nat
  | 0, _ => 0
  | k + 1, x => x % 2 + popCountBits k (x / 2)

/-- the population count of a 64-bit word -/
def popCount64 (x : Nat) : Nat := popCountBits 64 x

/-! ### `popcnt64` (include/popcnt.hpp, x86-64 GCC/Clang multiarch branch) -/

/-- the constants `m1, m2, m4, h01` used below (tied to include/popcnt.hpp by `PcGen.swarConsts_ok`) -/
def swarConstsModel : List Nat :=
  [0x5555555555555555, 0x3333333333333333, 0x0F0F0F0F0F0F0F0F, 0x0101010101010101]

/-- `popcnt64_bitwise_noinline` : all operations on `uint64_t` (wrap modulo 2^64) -/
def popcntSwar (x : Nat) : Nat :=
  let m1 := 0x5555555555555555
  let m2 := 0x3333333333333333
  let m4 := 0x0F0F0F0F0F0F0F0F
  let h01 := 0x0101010101010101
  let x1 := (x + M64 - ((x >>> 1) &&& m1)) % M64          -- x -= (x >> 1) & m1;
  let x2 := ((x1 &&& m2) + ((x1 >>> 2) &&& m2)) % M64     -- x = (x & m2) + ((x >> 2) & m2);
  let x3 := ((x2 + (x2 >>> 4)) % M64) &&& m4              -- x = (x + (x >> 4)) & m4;
  ((x3 * h01) % M64) >>> 56                               -- return (x * h01) >> 56;

/-- the `popcnt` instruction (trusted ISA semantics: the population count) -/
def popcntHw (x : Nat) : Nat := popCount64 x

/-- which instruction-set path the CPU detection selected -/
inductive Cfg where
  | avx512     -- cpu_supports_avx512_vpopcnt (and POPCNT)
  | popcnt     -- no AVX512, cpu_supports_popcnt
  | portable   -- neither: SWAR
deriving Repr, DecidableEq

/-- `popcnt64(x)` : `if_likely(cpu_supports_popcnt) popcnt else popcnt64_bitwise_noinline(x)` -/
def popcnt64 (hw : Bool) (x : Nat) : Nat := if hw then popcntHw x else popcntSwar x

/-! ### mask tables `unset_smaller` / `unset_larger` (constexpr functions of src/Sieve.cpp) -/

/-- `left_shift(n)` -/
def leftShift (n : Nat) : Nat :=
  let r := n % 30
  let q := n / 30 * 8
  if r ≤ 1 then q + 0 else if r ≤ 7 then q + 1 else if r ≤ 11 then q + 2 else if r ≤ 13 then q + 3
  else if r ≤ 17 then q + 4 else if r ≤ 19 then q + 5 else if r ≤ 23 then q + 6 else q + 7

/-- `right_shift(n)` -/
def rightShift (n : Nat) : Nat :=
  let r := n % 30
  let q := n / 30 * 8
  if r ≥ 29 then 56 - q else if r ≥ 23 then 57 - q else if r ≥ 19 then 58 - q else if r ≥ 17 then 59 - q
  else if r ≥ 13 then 60 - q else if r ≥ 11 then 61 - q else if r ≥ 7 then 62 - q else if r ≥ 1 then 63 - q
  else 64 - q

/-- `unset_s(n) = ~0ull << left_shift(n)` : keeps the bits of numbers `≥ n` -/
def unsetS (n : Nat) : Nat := ((M64 - 1) <<< leftShift n) % M64

/-- `unset_l(n) = (n == 0) ? 0 : ~0ull >> right_shift(n)` : keeps the bits of numbers `≤ n` -/
def unsetL (n : Nat) : Nat := if n == 0 then 0 else (M64 - 1) >>> rightShift n

/-- `Sieve::unset_smaller[240]` -/
def unsetSmaller : Array Nat := (Array.range 240).map unsetS
/-- `Sieve::unset_larger[240]` -/
def unsetLarger : Array Nat := (Array.range 240).map unsetL

/-! ### counting 1 bits inside `[start, stop]` (src/Sieve_count.hpp) -/

/-- the common prologue of all six counting routines: `(start_idx, stop_idx, start_bits, stop_bits)` -/
def countPrologue (w : Nat → Nat) (start stop : Nat) : Nat × Nat × Nat × Nat :=
  let startIdx := start / 240
  let stopIdx := stop / 240
  let m1 := unsetSmaller.getD (start % 240) 0
  let m2 := unsetLarger.getD (stop % 240) 0
  let neg := if startIdx != stopIdx then M64 - 1 else 0      -- -(start_idx != stop_idx)
  let m1 := m1 &&& (neg ||| m2)
  let m2 := m2 &&& neg
  (startIdx, stopIdx, w startIdx &&& m1, w stopIdx &&& m2)

/-- `for (i = start_idx + 1; i < stop_idx; i++) cnt += popcnt64(sieve64[i]);` -/
def sumWords (pc : Nat → Nat) (w : Nat → Nat) : Nat → Nat → Nat → Nat
  | 0, _, acc => acc
  | n + 1, i, acc => sumWords pc w n (i + 1) ((acc + pc (w i)) % M64)

/-- `Sieve::count_popcnt64(start, stop)` (for `start ≤ stop`), `pc` = the `popcnt64` in use -/
def countPopcnt64 (pc : Nat → Nat) (w : Nat → Nat) (start stop : Nat) : Nat :=
  let (startIdx, stopIdx, startBits, stopBits) := countPrologue w start stop
  let cnt := (pc startBits + pc stopBits) % M64
  sumWords pc w (stopIdx - (startIdx + 1)) (startIdx + 1) cnt

/-- a 512-bit vector as 8 lanes of 64 bits, lane 0 first -/
abbrev Vec := List Nat

/-- `_mm512_popcnt_epi64` (trusted ISA semantics: per-lane population count) -/
def vpopcnt (v : Vec) : Vec := v.map popCount64
/-- `_mm512_add_epi64` -/
def vadd (a b : Vec) : Vec := List.zipWith (fun x y => (x + y) % M64) a b
/-- `_mm512_loadu_epi64(&sieve64[i])` -/
def vload (w : Nat → Nat) (i : Nat) : Vec := (List.range 8).map fun k => w (i + k)
/-- `_mm512_maskz_loadu_epi64(mask, &sieve64[i])` : lane `k` is loaded iff bit `k` of the mask is set -/
def vloadMask (mask : Nat) (w : Nat → Nat) (i : Nat) : Vec :=
  (List.range 8).map fun k => if mask.testBit k then w (i + k) else 0
/-- `_mm512_reduce_add_epi64` -/
def vreduce (v : Vec) : Nat := v.foldl (fun a b => (a + b) % M64) 0

/-- `for (; i + 8 < stop_idx; i += 8) { vcnt += popcnt(load(&sieve64[i])); }` -/
def avxLoop (w : Nat → Nat) (stopIdx : Nat) : Nat → Nat → Vec → Nat × Vec
  | 0, i, v => (i, v)
  | fuel + 1, i, v =>
    if i + 8 < stopIdx then avxLoop w stopIdx fuel (i + 8) (vadd v (vpopcnt (vload w i))) else (i, v)

/-- `Sieve::count_avx512(start, stop)` (for `start ≤ stop`) -/
def countAvx512 (w : Nat → Nat) (start stop : Nat) : Nat :=
  let (startIdx, stopIdx, startBits, stopBits) := countPrologue w start stop
  let vcnt := vpopcnt [startBits, stopBits, 0, 0, 0, 0, 0, 0]     -- _mm512_set_epi64(0,0,0,0,0,0,stop_bits,start_bits)
  let (i, vcnt) := avxLoop w stopIdx (stopIdx + 1) (startIdx + 1) vcnt
  let mask := (0xff >>> (i + 8 - stopIdx)) % 256                   -- (__mmask8) (0xff >> (i + 8 - stop_idx))
  let vcnt := vadd vcnt (vpopcnt (vloadMask mask w i))
  vreduce vcnt

/-- the routine `Sieve::count(start, stop)` / `count(stop)` dispatches to -/
def countWords (cfg : Cfg) (w : Nat → Nat) (start stop : Nat) : Nat :=
  match cfg with
  | .avx512 => countAvx512 w start stop
  | .popcnt => countPopcnt64 (popcnt64 true) w start stop
  | .portable => countPopcnt64 (popcnt64 false) w start stop

/-! ### the Sieve object -/

structure Wheel where
  multiple : Nat
  index : Nat
deriving Repr, DecidableEq, Inhabited

structure State where
  /-- `start_` -/
  start : Nat
  prevStop : Nat := 0
  count : Nat := 0
  totalCount : Nat := 0
  /-- `sieve_` (bytes) -/
  sieve : Bytes
  /-- `wheel_` (entries 0..3 are never initialised nor read) -/
  wheel : Array Wheel
  /-- `counter_.stop, dist, log2_dist, sum, i` -/
  cStop : Nat := 0
  cDist : Nat
  cLog2 : Nat
  cSum : Nat := 0
  cI : Nat := 0
  /-- `counter_.counter` (uint32 entries) -/
  counter : Array Nat
  /-- ghost: `pre_sieve` has run (before that `sieve_` and the counters are uninitialised memory) -/
  inited : Bool := false
deriving Repr

/-- `Sieve::align_segment_size` -/
def alignSegmentSize (size : Nat) : Nat :=
  let s := max size 240
  if s % 240 != 0 then s + (240 - s % 240) else s

/-- `bytes` of `Sieve::allocate_counter(low)`; `bci = bytes_per_count_instruction()` (64 with AVX512, else 8) -/
def counterBytes (low bci : Nat) : Nat :=
  let averageLeafDist := Float.sqrt low.toFloat
  let counterDist := Float.sqrt averageLeafDist
  let distPerInstruction := bci * 30
  let dist := (counterDist * Float.sqrt distPerInstruction.toFloat).toUInt64.toNat
  let bytes := max (dist / 30) (bci * 8)
  nextPow2 bytes

def Cfg.bci : Cfg → Nat
  | .avx512 => 64
  | _ => 8

/-- constructor `Sieve(low, segment_size, wheel_size)` with the counter granularity `bytes` as a parameter -/
def new (low segmentSize bytes : Nat) : State :=
  let size := alignSegmentSize segmentSize / 30
  { start := low
    sieve := Array.replicate size 0
    wheel := Array.replicate 4 ⟨0, 0⟩
    cDist := bytes * 30
    cLog2 := Nat.log2 bytes
    counter := Array.replicate (ceilDiv size bytes) 0 }

/-- the constructor as the C++ code runs it under `cfg` -/
def create (cfg : Cfg) (low segmentSize : Nat) : State := new low segmentSize (counterBytes low cfg.bci)

/-- `segment_size()` -/
def State.segmentSize (σ : State) : Nat := σ.sieve.size * 30

/-- `Sieve::reset_sieve(low, high)`; argument `size = high - low` -/
def resetSieve (σ : State) (size : Nat) : State :=
  let s := Array.replicate σ.sieve.size 0xff
  if size < σ.segmentSize then
    let last := size - 1
    let nbytes := alignSegmentSize size / 30
    let s := s.extract 0 nbytes                    -- sieve_.resize(size / 30) (shrinks)
    -- sieve64[last / 240] &= unset_larger[last % 240];
    let wi := last / 240
    let wv := word64 s wi &&& unsetLarger.getD (last % 240) 0
    let s := (List.range 8).foldl (fun s k => s.setIfInBounds (8 * wi + k) (wv / 256 ^ k % 256)) s
    { σ with sieve := s }
  else { σ with sieve := s }

/-- `Sieve::reset_counter()` -/
def resetCounter (σ : State) : State :=
  { σ with prevStop := 0, count := 0, cI := 0, cSum := 0, cStop := σ.cDist }

/-- `Sieve::add(prime)` : first multiple `> start_` of `prime` coprime to 30, and its wheel index -/
def addWheel (start prime : Nat) : Wheel :=
  let quotient := start / prime + 1
  let multiple := prime * quotient
  let wi := Gen.wheelInit.getD (quotient % 30) (0, 0)
  let multiple := multiple + prime * wi.1
  let multiple := (multiple - start) / 30
  ⟨multiple % M32, wi.2 + Gen.wheelOffsets.getD (prime % 30) 0⟩

/-- `sieve[m] &= ~(1 << bit)` on a `uint8_t` -/
def clearBit (b bit : Nat) : Nat := b &&& (255 - 2 ^ bit)

/-- one round of an unrolled loop: the 8 statements `sieve[m + prime * k + c] &= ~(1 << bit);` -/
def fastRound (P : Nat) (body : List (Nat × Nat × Nat)) (m : Nat) (s : Bytes) : Bytes :=
  body.foldl (fun s e => s.modify (m + P * e.1 + e.2.1) (clearBit · e.2.2)) s

/-- `for (; m < limit; m += prime * stepK + stepC) { … }` -/
def fastLoop (P limit stepK stepC : Nat) (body : List (Nat × Nat × Nat)) : Nat → Nat → Bytes → Nat × Bytes
  | 0, m, s => (m, s)
  | fuel + 1, m, s =>
    if m < limit then fastLoop P limit stepK stepC body fuel (m + P * stepK + stepC) (fastRound P body m s)
    else (m, s)

/-- the block in front of `case 8g:` of `Sieve::cross_off` -/
def fastBlock (P size g m : Nat) (s : Bytes) : Nat × Bytes :=
  let h := Gen.wheelFastHead.getD g (0, 0, 0, 0)
  let maxOffset := m + P * h.1 + h.2.1
  let limit := max maxOffset size - maxOffset
  fastLoop P limit h.2.2.1 h.2.2.2 (Gen.wheelFastBody.getD g []) (size + 1) m s

/-- result of running the switch of `cross_off`: `(wheel.multiple before truncation, wheel.index, sieve)` -/
abbrev XRes := Nat × Nat × Bytes

/-- the `switch (wheel.index)` of `Sieve::cross_off`, entered at case `idx` with `m`;
    `fast = true` runs the unrolled blocks as the C++ code does -/
def crossLoop (fast : Bool) (P size : Nat) : Nat → Nat → Nat → Bytes → XRes
  | 0, m, idx, s => (m, idx, s)
  | fuel + 1, m, idx, s =>
    let ms := if fast && idx % 8 == 0 then fastBlock P size (idx / 8) m s else (m, s)
    let m := ms.1
    let s := ms.2
    if m ≥ size then (m - size, idx, s)                        -- CHECK_FINISHED(idx)
    else
      let e := Gen.wheelTab.getD idx (0, 0, 0, 0)
      crossLoop fast P size fuel (m + P * e.2.1 + e.2.2.1) e.2.2.2 (s.modify m (clearBit · e.1))

/-- enough fuel for `crossLoop`: 8 steps advance `m` by at least 1 -/
def crossFuel (size m : Nat) : Nat := 8 * (size - m) + 16

/-- `Sieve::cross_off(prime, i)` (for `4 ≤ i ≤ wheel_.size()`) -/
def crossOff (σ : State) (prime i : Nat) : State :=
  let wheel := if i ≥ σ.wheel.size then σ.wheel.push (addWheel σ.start prime) else σ.wheel
  let wh := wheel.getD i ⟨0, 0⟩
  let size := σ.sieve.size
  let r := crossLoop true (prime / 30) size (crossFuel size wh.multiple) wh.multiple wh.index σ.sieve
  { σ with sieve := r.2.2, wheel := wheel.setIfInBounds i ⟨r.1 % M32, r.2.1⟩ }

/-- result of the switch of `cross_off_count`: `(multiple, index, sieve, counter, total_count)` -/
abbrev XCRes := Nat × Nat × Bytes × Array Nat × Nat

/-- the `switch (wheel.index)` of `Sieve::cross_off_count` with `COUNT_UNSET_BIT` -/
def crossCountLoop (P size log2 : Nat) : Nat → Nat → Nat → Bytes → Array Nat → Nat → XCRes
  | 0, m, idx, s, c, t => (m, idx, s, c, t)
  | fuel + 1, m, idx, s, c, t =>
    if m ≥ size then (m - size, idx, s, c, t)
    else
      let e := Gen.wheelTabCount.getD idx (0, 0, 0, 0)
      let isBit := (s.getD m 0 >>> e.1) &&& 1
      crossCountLoop P size log2 fuel (m + P * e.2.1 + e.2.2.1) e.2.2.2
        (s.modify m (clearBit · e.1))
        (c.modify (m >>> log2) (fun v => (v + M32 - isBit) % M32))
        ((t + M64 - isBit) % M64)

/-- `Sieve::cross_off_count(prime, i)` (for `4 ≤ i ≤ wheel_.size()`) -/
def crossOffCount (σ : State) (prime i : Nat) : State :=
  let wheel := if i ≥ σ.wheel.size then σ.wheel.push (addWheel σ.start prime) else σ.wheel
  let σ := resetCounter σ
  let wh := wheel.getD i ⟨0, 0⟩
  let size := σ.sieve.size
  let r := crossCountLoop (prime / 30) size σ.cLog2 (crossFuel size wh.multiple) wh.multiple wh.index
    σ.sieve σ.counter σ.totalCount
  { σ with sieve := r.2.2.1, counter := r.2.2.2.1, totalCount := r.2.2.2.2,
           wheel := wheel.setIfInBounds i ⟨r.1 % M32, r.2.1⟩ }

/-- `Sieve::count(start, stop)` -/
def countRange (cfg : Cfg) (σ : State) (start stop : Nat) : Nat :=
  if start > stop then 0 else countWords cfg (word64 σ.sieve) start stop

/-- the `while (start <= max_stop)` loop of `Sieve::init_counter` -/
def initCounterLoop (cfg : Cfg) (s : Bytes) (dist log2 maxStop : Nat) : Nat → Nat → Array Nat → Nat → Array Nat × Nat
  | 0, _, c, t => (c, t)
  | fuel + 1, start, c, t =>
    if start ≤ maxStop then
      let stop := min (start + dist - 1) maxStop
      let cnt := if start > stop then 0 else countWords cfg (word64 s) start stop
      let i := (start / 30) >>> log2
      initCounterLoop cfg s dist log2 maxStop fuel (start + dist) (c.setIfInBounds i (cnt % M32)) ((t + cnt) % M64)
    else (c, t)

/-- `Sieve::init_counter(low, high)`; argument `size = high - low ≥ 1` -/
def initCounter (cfg : Cfg) (σ : State) (size : Nat) : State :=
  let σ := resetCounter σ
  let maxStop := size - 1
  let r := initCounterLoop cfg σ.sieve σ.cDist σ.cLog2 maxStop (maxStop / σ.cDist + 2) 0 σ.counter 0
  { σ with counter := r.1, totalCount := r.2 }

/-- `Sieve::pre_sieve(primes, c, low, high)`; argument `size = high - low` -/
def preSieve (cfg : Cfg) (σ : State) (primes : Array Nat) (c size : Nat) : State :=
  let σ := resetSieve σ size
  let σ := (List.range (c + 1 - 4)).foldl (fun σ k => crossOff σ (primes.getD (4 + k) 0) (4 + k)) σ
  let σ := initCounter cfg σ size
  { σ with inited := true }

/-- which of the inline `count(stop)` bodies runs -/
inductive StopFn where
  | avx512                 -- `count_avx512(stop)`
  | pop64 (hw : Bool)      -- `count_popcnt64(stop)` with `popcnt64` = POPCNT (`hw`) or SWAR
deriving Repr, DecidableEq

def StopFn.count (f : StopFn) (w : Nat → Nat) (start stop : Nat) : Nat :=
  match f with
  | .avx512 => countAvx512 w start stop
  | .pop64 hw => countPopcnt64 (popcnt64 hw) w start stop

/-- the function-level dispatch of the callers: `cpu_supports_avx512_vpopcnt ? count_avx512 : count` -/
def Cfg.stopFn : Cfg → StopFn
  | .avx512 => .avx512
  | .popcnt => .pop64 true
  | .portable => .pop64 false

/-- `while (counter_.stop <= stop) { … }` of `count(stop)`; returns the new `start` and state -/
def counterLoop (stop : Nat) : Nat → Nat → State → Nat × State
  | 0, start, σ => (start, σ)
  | fuel + 1, start, σ =>
    if σ.cStop ≤ stop then
      let sum := (σ.cSum + σ.counter.getD σ.cI 0) % M64
      counterLoop stop fuel σ.cStop { σ with cStop := σ.cStop + σ.cDist, cSum := sum, cI := σ.cI + 1, count := sum }
    else (start, σ)

/-- `Sieve::count_avx512(stop)` / `Sieve::count_popcnt64(stop)` : count 1 bits inside `[0, stop]`, incrementally -/
def countStop (f : StopFn) (σ : State) (stop : Nat) : State × Nat :=
  let start := σ.prevStop + 1
  let σ := { σ with prevStop := stop }
  if start > stop then (σ, σ.count)
  else
    let r := counterLoop stop (stop / σ.cDist + 2) start σ
    let start := r.1
    let σ := r.2
    let cnt := f.count (word64 σ.sieve) start stop
    let σ := { σ with count := (σ.count + cnt) % M64 }
    (σ, σ.count)

/-! ### naive specification used by the oracle stream (from the definition) -/

/-- number of `t ∈ [a, b]` with `t < size`, `low + t` coprime to 30 and to every `q ∈ crossed` -/
def specCount (low size : Nat) (crossed : List Nat) (a b : Nat) : Nat :=
  ((List.range (b + 1 - a)).filter fun d =>
    let t := a + d
    t < size && Nat.gcd (low + t) 30 == 1 && crossed.all fun q => (low + t) % q != 0).length

/-! ### operations on one object, and the specification machine of a disciplined history -/

/-- the calls a client can make -/
inductive Op where
  | pre (c lo hi : Nat)          -- pre_sieve(primes, c, lo, hi)
  | cross (p i : Nat)            -- cross_off(p, i)
  | crossCount (p i : Nat)       -- cross_off_count(p, i)
  | count (f : StopFn) (stop : Nat)   -- count(stop) through one of the inline bodies
  | range (a b : Nat)            -- count(a, b)
  | total                        -- get_total_count()
deriving Repr

/-- the model of one call: new state and the returned value -/
def applyOp (cfg : Cfg) (primes : Array Nat) (σ : State) : Op → State × Option Nat
  | .pre c lo hi => (preSieve cfg σ primes c (hi - lo), none)
  | .cross p i => (crossOff σ p i, none)
  | .crossCount p i => (crossOffCount σ p i, none)
  | .count f stop => ((countStop f σ stop).1, some (countStop f σ stop).2)
  | .range a b => (σ, some (countRange cfg σ a b))
  | .total => (σ, some σ.totalCount)

/-- values returned by a sequence of calls -/
def runOps (cfg : Cfg) (primes : Array Nat) : State → List Op → List Nat
  | _, [] => []
  | σ, op :: rest =>
    let r := applyOp cfg primes σ op
    match r.2 with
    | some v => v :: runOps cfg primes r.1 rest
    | none => runOps cfg primes r.1 rest

/-- ghost description of a `Sieve` object in disciplined use -/
structure Ghost where
  /-- low of the current segment -/
  L : Nat
  /-- `high - low` of the current segment -/
  n : Nat
  /-- sieving numbers of the wheel slots 4, 5, … that are in sync with the segment sequence -/
  qs : List Nat
  /-- slots `4 … 4+k-1` have been crossed off in the current segment -/
  k : Nat

/-- the next slot may be crossed off with `q`: either it is an existing slot of `q`, or it is created now, which
    is only right while the object is still in its first segment (`Sieve::add` starts from `start_`);
    `ws` = `wheel_.size()`, `st` = `start_` -/
def AvailP (ws st : Nat) (G : Ghost) (q : Nat) : Prop :=
  (G.k < G.qs.length ∧ G.qs.getD G.k 0 = q) ∨
  (G.k = G.qs.length ∧ ws = 4 + G.qs.length ∧ G.L = st ∧ Nat.gcd q 30 = 1 ∧ q < M32)

instance (ws st : Nat) (G : Ghost) (q : Nat) : Decidable (AvailP ws st G q) := by
  unfold AvailP; exact inferInstance

def Ghost.crossed (G : Ghost) (q : Nat) : Ghost :=
  { G with qs := if G.k < G.qs.length then G.qs else G.qs ++ [q], k := G.k + 1 }

/-- a list of numbers can be crossed off with consecutive slots, starting at slot `4 + G.k` -/
def AvailAll : Nat → Nat → Ghost → List Nat → Prop
  | _, _, _, [] => True
  | ws, st, G, q :: rest =>
    AvailP ws st G q ∧ AvailAll (if G.k < G.qs.length then ws else ws + 1) st (G.crossed q) rest

instance availAllDec : ∀ (ws st : Nat) (G : Ghost) (l : List Nat), Decidable (AvailAll ws st G l)
  | _, _, _, [] => isTrue trivial
  | ws, st, G, q :: rest =>
    have := availAllDec (if G.k < G.qs.length then ws else ws + 1) st (G.crossed q) rest
    by unfold AvailAll; exact inferInstance

def Ghost.crossedAll (G : Ghost) : List Nat → Ghost
  | [] => G
  | q :: rest => (G.crossed q).crossedAll rest

/-- `wheel_.size()` after crossing off a list -/
def wsAfter : Nat → Ghost → List Nat → Nat
  | ws, _, [] => ws
  | ws, G, q :: rest => wsAfter (if G.k < G.qs.length then ws else ws + 1) (G.crossed q) rest

/-- the list `primes[4..c]` crossed off by `pre_sieve` -/
def preList (primes : Array Nat) (c : Nat) : List Nat := (List.range (c + 1 - 4)).map fun k => primes.getD (4 + k) 0

/-- state of the specification machine -/
structure SpecState where
  G : Ghost
  /-- numbers covered by the sieve array (`segment_size()`) -/
  segSize : Nat
  /-- `wheel_.size()` -/
  ws : Nat := 4
  /-- `start_` -/
  st : Nat
  prevStop : Nat := 0
  inited : Bool := false

def specInit (low segmentSize : Nat) : SpecState :=
  { G := ⟨low, 0, [], 0⟩, segSize := alignSegmentSize segmentSize, st := low }

/-- one call against the DEFINITION; `none` = the call is not part of a disciplined history
    (the use `S2_thread` / `D_thread` make of the object): consecutive segments, every slot always used with the
    same number coprime to 30 and in every earlier segment, non-decreasing `count(stop)` queries between resets,
    no bare `cross_off` -/
def specOp (primes : Array Nat) (sp : SpecState) : Op → Option (SpecState × Option Nat)
  | .pre c lo hi =>
    let L' := if sp.inited then sp.G.L + sp.segSize else sp.G.L
    let n := hi - lo
    let G0 : Ghost := ⟨L', n, sp.G.qs.take sp.G.k, 0⟩
    if lo < hi ∧ n ≤ sp.segSize ∧ lo = L' ∧ AvailAll sp.ws sp.st G0 (preList primes c) then
      some ({ sp with G := G0.crossedAll (preList primes c),
                      segSize := if n < sp.segSize then alignSegmentSize n else sp.segSize,
                      ws := wsAfter sp.ws G0 (preList primes c), prevStop := 0, inited := true }, none)
    else none
  | .cross _ _ => none
  | .crossCount q i =>
    if sp.inited ∧ i = 4 + sp.G.k ∧ AvailP sp.ws sp.st sp.G q then
      some ({ sp with G := sp.G.crossed q, ws := if sp.G.k < sp.G.qs.length then sp.ws else sp.ws + 1,
                      prevStop := 0 }, none)
    else none
  | .count _ stop =>
    if sp.inited ∧ sp.prevStop ≤ stop ∧ stop < sp.segSize then
      some ({ sp with prevStop := stop }, some (specCount sp.G.L sp.G.n (sp.G.qs.take sp.G.k) 0 stop))
    else none
  | .range a b =>
    if sp.inited ∧ (a > b ∨ b < sp.segSize) then
      some (sp, some (if a > b then 0 else specCount sp.G.L sp.G.n (sp.G.qs.take sp.G.k) a b))
    else none
  | .total =>
    if sp.inited then some (sp, some (specCount sp.G.L sp.G.n (sp.G.qs.take sp.G.k) 0 (sp.segSize - 1))) else none

/-- values the definition assigns to a disciplined history (`none` if it is not disciplined) -/
def specRun (primes : Array Nat) : SpecState → List Op → Option (List Nat)
  | _, [] => some []
  | sp, op :: rest =>
    match specOp primes sp op with
    | none => none
    | some (sp', out) =>
      match specRun primes sp' rest with
      | none => none
      | some outs => some (match out with | some v => v :: outs | none => outs)

end Pc.Sieve
