/-
C16 / C12 (WP safety2): WIDTH-CHECKED mirrors of `Sigma(x, y)` (src/gourdon/Sigma.cpp) and `S2_trivial` (S2_trivial.cpp).

The L2 models of PcModel/LeafLoops.lean (`sigma0 … sigma3`, `sigma456Step`, `sigma456`, `sigmaParts`, `sigma`, `s2TrivLoop`,
`s2Trivial`) check every product computed in the operand type, every narrowing cast, every table read — but compute the
closed forms and accumulate in exact integers.  Here every value the C++ stores or computes in the signed template type
`T = [-(tMax + 1), tMax]` (`int64_t` / `int128_t`) is checked:

  Sigma.cpp:30-35   `Sigma0`: `a - 1`, `pi_sqrtx - 1`, `pi_sqrtx * (pi_sqrtx - 1)`, `… / 2`, `a - 1 + …`, `a * (a - 1)`, `… / 2`, result
  Sigma.cpp:37-41   `Sigma1`: `a - b`, `a - b - 1`, the product, result
  Sigma.cpp:43-47   `Sigma2`: `b - c`, `c - 3`, `c * (c - 3)`, `… / 2`, `b - c - …`, `d - 3`, `d * (d - 3)`, `… / 2`, the sum, `a * (…)`
  Sigma.cpp:49-53   `Sigma3`: `b - 1`, `b * (b - 1)`, `2 * b`, `2 * b - 1`, the triple product, `… / 6`, `… - b`, the same for `d`,
                    the difference, result
  Sigma.cpp:75-90   `sigma4 += pi[…]`, `sigma5 += pi[…]`, `pi_sqrt_xp * (T) pi_sqrt_xp`, `sigma6 += …`
  Sigma.cpp:92-95   `sigma4 *= a`, `sigma6 = -sigma6`, `sigma4 + sigma5`, `… + sigma6`
  Sigma.cpp:127-131 (int64_t) / 168-172 (int128_t)  the four additions `Sigma0 + Sigma1 + Sigma2 + Sigma3 + Sigma456`
  S2_trivial.cpp:64-70  `sum += pi_y - pi[xpp]` (`pi_y - pi[xpp]` is an `int64_t` difference, `sum` is `T`)
  S2_trivial.cpp:78-81  `pi[y-1] - pi[prime]`, `… + 1`, `pi[y] - pi[y-1]`, `pi[y] - pi[prime]` (`int64_t`; then `T n`, `T a1`, `T a2`),
                        `a1 + a2`, `n * (a1 + a2)`, `/ 2` (all `T`), `sum += …`

A closed form "all intermediates in range" is expressed as: the list of the exact intermediate values (in evaluation order)
lies in `T`; since every value is computed from earlier in-range exact values, this is equivalent to "no step overflows".
Core Lean only.
-/
import PcModel.LeafLoops
import PcModel.SafetyLoops
namespace Pc.Safety
open Pc Pc.P2L Pc.LB

/-- what the width-checked mirrors of this file report instead of a value -/
inductive WErr where
  /-- an error of the unchecked mirror (checked product, narrowing cast, table read, …) -/
  | base (e : LErr)
  /-- an intermediate value of a closed form (`Sigma0 … Sigma3`, the `n * (a1 + a2) / 2` of S2_trivial) leaves its type -/
  | ovfClosed
  /-- a product stored in `T` leaves `T` (`pi_sqrt_xp * (T) pi_sqrt_xp`, `sigma4 *= a`) -/
  | ovfProd
  /-- an accumulator (`sigma4/5/6 += …`, `sum += …`) leaves `T` -/
  | ovfAcc
  /-- one of the final additions (`sigma4 + sigma5 + sigma6`, `Sigma0 + … + Sigma456`) leaves `T` -/
  | ovfSum
deriving Repr, DecidableEq

def WErr.toString : WErr → String
  | .base e => e.toString | .ovfClosed => "TRAP:ovf-closed" | .ovfProd => "TRAP:ovf-prod"
  | .ovfAcc => "TRAP:ovf-acc" | .ovfSum => "TRAP:ovf-sum"

abbrev WM := Except WErr

def liftL {α : Type} : LM α → WM α
  | .ok v => .ok v
  | .error e => .error (.base e)

/-- is `v` a value of the signed type with maximum `tMax` (`int64_t`: `tMax = 2^63 - 1`, `int128_t`: `2^127 - 1`) -/
def inS (tMax : Nat) (v : Int) : Bool := decide (-(tMax : Int) - 1 ≤ v) && decide (v ≤ (tMax : Int))

/-- `v`, checked against `T`; `e` = what to report -/
def ckS (tMax : Nat) (e : WErr) (v : Int) : WM Int := if inS tMax v then .ok v else .error e

/-! ### the closed forms -/

/-- the values `Sigma0` computes, in evaluation order (`ps = pi_sqrtx`) -/
def sigma0Vals (ps a : Int) : List Int :=
  [a - 1, ps - 1, ps * (ps - 1), Int.tdiv (ps * (ps - 1)) 2, a - 1 + Int.tdiv (ps * (ps - 1)) 2,
   a * (a - 1), Int.tdiv (a * (a - 1)) 2, a - 1 + Int.tdiv (ps * (ps - 1)) 2 - Int.tdiv (a * (a - 1)) 2]

/-- `Sigma0` on `pi_sqrtx` and `a` (`sigma0 t x a = sigma0P (t.piOf (isqrtN x)) a` by `rfl`) -/
def sigma0P (ps a : Int) : Int := a - 1 + Int.tdiv (ps * (ps - 1)) 2 - Int.tdiv (a * (a - 1)) 2

def sigma0C (tMax : Nat) (ps a : Int) : WM Int :=
  if (sigma0Vals ps a).all (inS tMax) then .ok (sigma0P ps a) else .error .ovfClosed

def sigma1Vals (a b : Int) : List Int := [a - b, a - b - 1, (a - b) * (a - b - 1), Int.tdiv ((a - b) * (a - b - 1)) 2]

def sigma1C (tMax : Nat) (a b : Int) : WM Int :=
  if (sigma1Vals a b).all (inS tMax) then .ok (sigma1 a b) else .error .ovfClosed

def sigma2Vals (a b c d : Int) : List Int :=
  [b - c, c - 3, c * (c - 3), Int.tdiv (c * (c - 3)) 2, b - c - Int.tdiv (c * (c - 3)) 2,
   d - 3, d * (d - 3), Int.tdiv (d * (d - 3)) 2,
   b - c - Int.tdiv (c * (c - 3)) 2 + Int.tdiv (d * (d - 3)) 2,
   a * (b - c - Int.tdiv (c * (c - 3)) 2 + Int.tdiv (d * (d - 3)) 2)]

def sigma2C (tMax : Nat) (a b c d : Int) : WM Int :=
  if (sigma2Vals a b c d).all (inS tMax) then .ok (sigma2 a b c d) else .error .ovfClosed

/-- the values of one half `(n * (n - 1) * (2 * n - 1)) / 6` of `Sigma3` -/
def sigma3Half (n : Int) : List Int :=
  [n - 1, n * (n - 1), 2 * n, 2 * n - 1, n * (n - 1) * (2 * n - 1), Int.tdiv (n * (n - 1) * (2 * n - 1)) 6]

def sigma3Vals (b d : Int) : List Int :=
  sigma3Half b ++ [Int.tdiv (b * (b - 1) * (2 * b - 1)) 6 - b] ++ sigma3Half d ++
  [Int.tdiv (b * (b - 1) * (2 * b - 1)) 6 - b - Int.tdiv (d * (d - 1) * (2 * d - 1)) 6,
   Int.tdiv (b * (b - 1) * (2 * b - 1)) 6 - b - Int.tdiv (d * (d - 1) * (2 * d - 1)) 6 + d]

def sigma3C (tMax : Nat) (b d : Int) : WM Int :=
  if (sigma3Vals b d).all (inS tMax) then .ok (sigma3 b d) else .error .ovfClosed

/-! ### `Sigma456` -/

/-- one iteration of the prime loop of `Sigma456` (Sigma.cpp:75-90) with `sigma4`, `sigma5`, the product
    `pi_sqrt_xp * (T) pi_sqrt_xp` and `sigma6` checked against `T` -/
def sigma456StepC (tMax : Nat) (t : NT) (w : ITy) (x y maxX sqrtXY : Nat) (acc : S456) (prime : Nat) : WM S456 := do
  let acc1 ← if prime ≤ sqrtXY then do
      let m ← liftL (mulT w prime y)
      let n ← liftL (divM x m)
      let v ← liftL (piGet t maxX n)
      let s4 ← ckS tMax .ovfAcc (acc.s4 + (v : Int))
      pure { acc with s4 := s4 }
    else do
      let m ← liftL (mulT w prime prime)
      let n ← liftL (divM x m)
      let v ← liftL (piGet t maxX n)
      let s5 ← ckS tMax .ovfAcc (acc.s5 + (v : Int))
      pure { acc with s5 := s5 }
  let xp ← liftL (divM x prime)
  let ps ← liftL (piGet t maxX (isqrtN xp))
  let sq ← ckS tMax .ovfProd ((ps : Int) * (ps : Int))
  let s6 ← ckS tMax .ovfAcc (acc1.s6 + sq)
  pure { acc1 with s6 := s6 }

/-- `Sigma456(x, y, a, x_star, pi)` with every stored value checked -/
def sigma456C (tMax : Nat) (t : NT) (w : ITy) (x y : Nat) (a : Int) (xs maxX : Nat) : WM Int := do
  let x13 := irootN 3 x
  let xy ← liftL (divM x y)
  let sqrtXY := isqrtN xy
  let r ← (t.primesIn xs x13).foldlM (sigma456StepC tMax t w x y maxX sqrtXY) ⟨0, 0, 0⟩
  let sigma4 ← ckS tMax .ovfProd (r.s4 * a)          -- sigma4 *= a
  let sigma6 ← ckS tMax .ovfSum (- r.s6)             -- sigma6 = -sigma6
  let s45 ← ckS tMax .ovfSum (sigma4 + r.s5)
  ckS tMax .ovfSum (s45 + sigma6)

/-- `Sigma(x, y, threads)` (Sigma.cpp:102-139 / 143-180) with every closed form, every accumulator and the four final
    additions checked against `T` (`w` = the operand type, `tMax` its maximum) -/
def sigmaC (tMax : Nat) (t : NT) (w : ITy) (x y : Nat) : WM Int := do
  let xs := xStar x y
  let xsy ← liftL (mulT w xs y)
  let m4raw ← liftL (divM x xsy)
  let m4 ← liftL (narrowTo .i64 m4raw)
  let m5 := y
  let xxs ← liftL (divM x xs)
  let m6 ← liftL (narrowTo .i64 (isqrtN xxs))
  let maxPix := max m4 (max m5 m6)
  let a ← liftL (piGet t maxPix y)
  let b ← liftL (piGet t maxPix (irootN 3 x))
  let xy ← liftL (divM x y)
  let c ← liftL (piGet t maxPix (isqrtN xy))
  let d ← liftL (piGet t maxPix xs)
  let s0 ← sigma0C tMax (t.piOf (isqrtN x)) a
  let s1 ← sigma1C tMax a b
  let t1 ← ckS tMax .ovfSum (s0 + s1)
  let s2 ← sigma2C tMax a b c d
  let t2 ← ckS tMax .ovfSum (t1 + s2)
  let s3 ← sigma3C tMax b d
  let t3 ← ckS tMax .ovfSum (t2 + s3)
  let s456 ← sigma456C tMax t w x y a xs maxPix
  ckS tMax .ovfSum (t3 + s456)

/-! ### S2_trivial -/

/-- is `v` an `int64_t` -/
def in64 (v : Int) : Bool := inS (two63 - 1) v

/-- the `while` loop of S2_trivial.cpp:64-70 with the `int64_t` difference `pi_y - pi[xpp]` and `T sum` checked -/
def s2TrivLoopC (tMax : Nat) (t : NT) (w : ITy) (x y : Nat) (piY : Int) : List Nat → Int → WM (Int × Option Nat)
  | [], sum => pure (sum, none)
  | prime :: qs, sum => do
    let pp ← liftL (mulT w prime prime)
    let q ← liftL (divM x pp)
    let xpp ← liftL (narrowTo .i64 q)
    if xpp ≤ prime then pure (sum, some prime)
    else do
      let v ← liftL (piGet t y xpp)
      let dlt ← if in64 (piY - (v : Int)) then pure (piY - (v : Int)) else throw WErr.ovfClosed
      let s ← ckS tMax .ovfAcc (sum + dlt)
      s2TrivLoopC tMax t w x y piY qs s

/-- the values of S2_trivial.cpp:78-80 computed in `int64_t` (`pi[·]` returns `int64_t`): `pi[y-1] - pi[prime]`, `… + 1`,
    `pi[y] - pi[y-1]`, `pi[y] - pi[prime]` (then converted to `T n`, `T a1`, `T a2`) -/
def s2TrivTail64 (piY piY1 piP : Int) : List Int := [piY1 - piP, piY1 - piP + 1, piY - piY1, piY - piP]

/-- the values of S2_trivial.cpp:81 computed in `T`: `a1 + a2`, `n * (a1 + a2)`, `… / 2` -/
def s2TrivTailT (piY piY1 piP : Int) : List Int :=
  [(piY - piY1) + (piY - piP), (piY1 - piP + 1) * ((piY - piY1) + (piY - piP)),
   Int.tdiv ((piY1 - piP + 1) * ((piY - piY1) + (piY - piP))) 2]

/-- `S2_trivial(x, y, z, c, threads)` with every stored value checked -/
def s2TrivialC (tMax : Nat) (t : NT) (w : ITy) (x y z c : Nat) : WM Int :=
  if y < 2 then pure 0 else do
  let piY ← liftL (piGet t y y)
  let sqrtz := isqrtN z
  if c < 1 then throw (.base .pc)
  let primeC := t.p c
  let start := max primeC sqrtz + 1
  if start ≥ y then pure 0 else do
  let (sum, brk) ← s2TrivLoopC tMax t w x y piY (t.primesIn (start - 1) (y - 1)) 0
  match brk with
  | none => pure sum
  | some prime => do
    let piY1 ← liftL (piGet t y (y - 1))
    let piP ← liftL (piGet t y prime)
    if !((s2TrivTail64 piY piY1 piP).all in64 && (s2TrivTailT piY piY1 piP).all (inS tMax)) then throw .ovfClosed
    let n : Int := ((piY1 : Int) - piP) + 1
    let a1 : Int := (piY : Int) - piY1
    let a2 : Int := (piY : Int) - piP
    ckS tMax .ovfAcc (sum + Int.tdiv (n * (a1 + a2)) 2)

end Pc.Safety
