/-
C06 (WP nth): L2 model of `primecount::nth_prime(int64_t n, int threads)` (src/nth_prime.cpp:86-129) in which the walk of
lines 111-126 runs on the REAL iterator model of WP iter (`Pc.It`: `primesieve::iterator` as the state machine of
PcModel/Iter.lean — refill loops, windows, hints, batches), instead of the abstract `PrimeIter` of PcModel/NthPrime.lean.

  nth_prime.cpp:88-91    `n < 1` / `n > max_n` → `throw primecount_error`        -> `NErr.tooSmall` / `NErr.tooLarge`
  nth_prime.cpp:94-95    `n < primes.size()` → `primes[n]`                        -> `nthTable` (generated table)
  nth_prime.cpp:98-99    `n <= pi_cache(max_cached())` → binary search           -> `bsearch` (PcModel/NthPrime.lean)
  nth_prime.cpp:104      `int64_t prime_approx = RiemannR_inverse(n)`            -> `Env.approx n`  (PARAMETER: any int64)
  nth_prime.cpp:105      `int64_t count_approx = pi(prime_approx, threads)`      -> `Env.pi`        (PARAMETER, contract `pi = π`)
  nth_prime.cpp:106      `avg_prime_gap = ilog(prime_approx) + 2`                -> `Env.ilog`      (PARAMETER: `(int) std::log((double) x)`)
  nth_prime.cpp:107      `int64_t prime = -1`
  nth_prime.cpp:111-118  `uint64_t start = prime_approx + 1` (int64 addition, then conversion),
                         `stop = start + (n - count_approx) * avg_prime_gap`, `iterator iter(start, stop)`,
                         `for (i = count_approx; i < n; i++) prime = iter.next_prime()`      -> `walkIt`, `nextLoop`
  nth_prime.cpp:119-126  `start = prime_approx`, `stop = start - (count_approx - n) * avg_prime_gap`,
                         `for (i = count_approx; i >= n; i--) prime = iter.prev_prime()`     -> `walkIt`, `prevLoop`
  api.cpp:166-169        `nth_prime(n)` = `nth_prime(n, get_num_threads())` (threads only reaches `pi`)
  api_c.cpp:74-85        `primecount_nth_prime`: every `std::exception` (also a `primesieve_error` of the iterator) → -1   -> `cNthPrime`
  app/main.cpp:402-403   `--nth-prime`: `res = nth_prime(to_int64(x), threads)`  -> `cliNthPrime` (`Calc.cliToInt64` of PcModel/Calc.lean)

Machine integers: `prime_approx + 1` is an int64 addition: `INT64_MAX + 1` is undefined behaviour → `WErr.ub` (the theorem shows
it is never reached). The int64 → uint64 conversions are `toU64` (mod 2^64), `prime = iter.next_prime()` is the uint64 → int64
conversion `toI64` (two's complement). The product `(n - count_approx) * avg_prime_gap` is an int64 product that only feeds the
`stop` HINT of the iterator; it is modelled by its value mod 2^64 (what the hardware computes; a signed overflow there is
formally UB and needs |n - count_approx| > 2^63 / 45, i.e. an approximation that is off by > 2·10^17 primes). The theorems hold
for EVERY hint, so nothing depends on this value.
Core Lean only (linked into the driver).
-/
import PcModel.NthPrime
import PcModel.Iter
import PcModel.Calc
namespace Pc.NthIt

def i64Max : Int := 9223372036854775807

/-- int64 → uint64 conversion -/
def toU64 (x : Int) : Nat := (x % 18446744073709551616).toNat
/-- uint64 → int64 conversion (two's complement) -/
def toI64 (u : Nat) : Int := if u < 9223372036854775808 then (u : Int) else (u : Int) - 18446744073709551616

/-- `for (...; k iterations) prime = iter.next_prime();` on the iterator state `s`; `prime` = value before the loop -/
def nextLoop (e : It.Env) : Nat → It.St → Int → Except It.Err Int
  | 0, _, prime => .ok prime
  | k + 1, s, _ =>
    match It.nextPrime e s with
    | .error err => .error err
    | .ok (p, s') => nextLoop e k s' (toI64 p)

/-- `for (...; k iterations) prime = iter.prev_prime();` -/
def prevLoop (e : It.Env) : Nat → It.St → Int → Except It.Err Int
  | 0, _, prime => .ok prime
  | k + 1, s, _ =>
    match It.prevPrime e s with
    | .error err => .error err
    | .ok (p, s') => prevLoop e k s' (toI64 p)

inductive WErr where
  /-- `prime_approx + 1` with `prime_approx = INT64_MAX` (signed overflow) -/
  | ub
  /-- an exception / out-of-bounds read / non-termination inside the iterator -/
  | iter (e : It.Err)
deriving Repr, DecidableEq

def liftIt (r : Except It.Err Int) : Except WErr Int :=
  match r with
  | .ok v => .ok v
  | .error e => .error (.iter e)

/-- the `stop` hint of the forward walk -/
def fwdHint (approx n c gap : Int) : Nat := toU64 (approx + 1 + (n - c) * gap)
/-- the `stop` hint of the backward walk -/
def bwdHint (approx n c gap : Int) : Nat := toU64 (approx - (c - n) * gap)

/-- nth_prime.cpp:106-128 with `approx = prime_approx`, `c = count_approx`, `lg = ilog(prime_approx)` -/
def walkIt (e : It.Env) (approx n c lg : Int) : Except WErr Int :=
  let gap := lg + 2
  if c < n then
    if approx = i64Max then .error .ub
    else liftIt (nextLoop e (n - c).toNat (It.init (toU64 (approx + 1)) (fwdHint approx n c gap)) (-1))
  else
    liftIt (prevLoop e (c - n + 1).toNat (It.init (toU64 approx) (bwdHint approx n c gap)) (-1))

/-- everything `nth_prime` calls -/
structure Env where
  /-- the iterator's environment: float outcomes, sieving core, batch sizes -/
  ie : It.Env
  /-- `RiemannR_inverse(n)` (long double / __float128 Newton iteration): any int64 -/
  approx : Int → Int
  /-- `primecount::pi(int64_t x, int threads)` -/
  pi : Int → Int
  /-- `ilog(x) = (int) std::log((double) x)` -/
  ilog : Int → Int
  /-- `PiTable::pi_cache(x)` -/
  piCache : Nat → Nat

inductive NErr where
  /-- "nth_prime(n): n must be >= 1" -/
  | tooSmall
  /-- "nth_prime(n): n must be <= max_n" -/
  | tooLarge
  /-- the walk failed (never happens under the contracts: `nth_prime_cpp_correct`) -/
  | walk (e : WErr)
deriving Repr, DecidableEq

/-- `primecount::nth_prime(int64_t n, int threads)` -/
def nthPrimeCpp (env : Env) (n : Int) : Except NErr Int :=
  if n < 1 then .error .tooSmall
  else if n > (Gen.nthPrimeMaxN : Int) then .error .tooLarge
  else
    let k := n.toNat
    if k < Gen.nthPrimeTableSize then .ok (nthTable k)
    else if k ≤ env.piCache Gen.nthPrimeMaxCached then .ok (bsearch env.piCache Gen.nthPrimeMaxCached k)
    else
      let a := env.approx n
      match walkIt env.ie a n (env.pi a) (env.ilog a) with
      | .ok v => .ok v
      | .error e => .error (.walk e)

/-- `primecount_nth_prime(int64_t n)` of src/api_c.cpp: `catch (const std::exception&) { …; return -1; }` -/
def cNthPrime (env : Env) (n : Int) : Int :=
  match nthPrimeCpp env n with
  | .ok v => v
  | .error _ => -1

/-- outcome of `primecount <expr> --nth-prime` (src/app/main.cpp:402): the number printed on stdout (exit status 0) or an
    error (message on stderr, exit status 1) -/
inductive CliErr where
  /-- `to_int64`: the evaluated number is outside int64 -/
  | range
  /-- `nth_prime` threw -/
  | nth (e : NErr)
deriving Repr, DecidableEq

/-- `res = nth_prime(to_int64(x), threads)` for the evaluated command-line number `x` (a `maxint_t`) -/
def cliNthPrime (env : Env) (x : Int) : Except CliErr Int :=
  match Pc.Calc.cliToInt64 x with
  | .error _ => .error .range
  | .ok n =>
    match nthPrimeCpp env n with
    | .ok v => .ok v
    | .error e => .error (.nth e)

end Pc.NthIt
