/-
WP hard (C08, C03): L2 models of the hard-special-leaf engines

* `S2_hard_thread` / `S2_hard_OpenMP`   src/deleglise-rivat/S2_hard.cpp:55-180 / 199-241
* `D_thread` / `D_OpenMP`               src/gourdon/D.cpp:55-171 / 190-233

Core Lean only (linked into `pcdrv`).  Both thread functions are the same segmented engine (`segLoop` /
`levelLoop` / `leafFold`) run with different per-level leaf enumerations (`s2Level1`, `s2Level2`, `dLevel1`,
`dLevel2`); the engine is written once, as the two sources are textually the same outside the bounds.

What is a PARAMETER here (each has its own model and property):
* the counting sieve `class Sieve` is an abstract object `SieveOps σ` (create / pre_sieve / count / get_total_count /
  cross_off_count).  The contract it must satisfy is `Pc.Hard.SieveSpec` (PcProofs/HardSieve.lean); the concrete
  bit-exact model of PcModel/Sieve.lean is an instance (`concreteSieve` below, contract proved from C17's
  `sieve_correct`).
* `primes[]`, `PiTable pi`, the factor table (`factor_[]` of FactorTable / FactorTableD; `to_index` / `to_number`
  are the proved `ftToIndex` / `ftToNumber` of PcModel/PiTable.lean) and `phi_vector` are the fields of `Env`;
  every read is bounds-checked against the sizes the real constructors allocate (`Err.oob*`), so a result `.ok v`
  says that no table is read out of bounds.
* `isqrt` = `isqrtN` (C12), `fast_div` / `fast_div64` = `/` (their call sites: WP params), integers unbounded
  (`T sum` is computed in the unsigned type and cast back: exact in ℤ as long as the true value fits).
* the parallel region: an arbitrary recorded `get_work` history `List LB.S2.Ev` of the LoadBalancerS2 model
  (PcModel/Dispenser.lean); `std::pow(z, 1/3.7)`, `s2_hard_approx` / `d_approx` only steer the team size / status.
-/
import PcModel.Formulas
import PcModel.PiTable
import PcModel.Dispenser
import PcModel.Sieve
import PcModel.PhiVector

namespace Pc.Hard

inductive Err where
  | oobPi        -- PiTable::operator[] beyond max_x (an ASSERT)
  | oobPrimes    -- primes[i], i >= primes.size()
  | oobFactor    -- factor_[i], i >= factor_.size(), or to_index(0)
  | oobPhi       -- phi[b], b >= phi.size()
  | oobSieve     -- sieve.count(stop) with stop "negative" (unsigned wrap) or beyond the segment
  | div0         -- division by zero
  | hang         -- segment_size = 0: the segment loop does not advance
  | badRun       -- the recorded history is not a run of the dispenser with these workers
deriving Repr, DecidableEq

/-- the calls `S2_hard_thread` / `D_thread` make on their `Sieve` object -/
structure SieveOps (σ : Type) where
  /-- `Sieve sieve(low, segment_size, wheel_size)` -/
  create : Nat → Nat → Nat → σ
  /-- `sieve.pre_sieve(primes, c, low, high)` -/
  pre : σ → Nat → Nat → Nat → σ
  /-- `sieve.count(stop)`: new state (the incremental counters move) and the returned count -/
  count : σ → Nat → σ × Nat
  /-- `sieve.get_total_count()` -/
  total : σ → Nat
  /-- `sieve.cross_off_count(prime, i)` -/
  cross : σ → Nat → Nat → σ

/-- the read-only tables a thread function gets -/
structure Env where
  /-- `primes[i]` (`primes[0] = 0`) -/
  primes : Nat → Nat
  /-- `primes.size()` -/
  primesSize : Nat
  /-- `pi[n]` -/
  pi : Nat → Nat
  /-- largest legal argument of `pi[]` -/
  piMax : Nat
  /-- `factor_[index]` (= `mu_lpf(index)` of FactorTable, `is_leaf(index)` of FactorTableD) -/
  factor : Nat → Nat
  /-- `factor_.size()` -/
  factorSize : Nat
  /-- `phi_vector(x, a, primes, pi)` -/
  phiVec : Nat → Nat → Array Int

/-- `factor.mu(index)`: `if (factor_[index] & 1) return -1; else return 1;` -/
def Env.mu (e : Env) (i : Nat) : Int := if e.factor i % 2 = 1 then -1 else 1

/-- `to_index(number)` as a natural number (the C++ value is never negative for `number > 0`) -/
def toIndex (n : Nat) : Nat := (ftToIndex n).toNat

/-! ### the engine -/

/-- the body of both leaf loops, for the leaves `(position, weight)` of one level in one segment:
    `count = sieve.count(pos - low); sum += weight * (phi[b] + count);`  (`len = high - low`) -/
def leafFold {σ : Type} (S : SieveOps σ) (low len : Nat) (phib : Int) :
    List (Nat × Int) → σ → Int → Except Err (σ × Int)
  | [], s, sum => .ok (s, sum)
  | (pos, w) :: rest, s, sum =>
    if pos < low ∨ len ≤ pos - low then .error .oobSieve else
    leafFold S low len phib rest (S.count s (pos - low)).1 (sum + w * (phib + ((S.count s (pos - low)).2 : Int)))

/-- the two consecutive `for (…; b <= …; b++)` loops of one segment (they share `b`); `lv b` is what the loop head and
    the leaf loop of level `b` produce: an error, `none` = `goto next_segment`, or the leaves in visiting order.
    After the leaves: `phi[b] += sieve.get_total_count(); sieve.cross_off_count(prime, b);` -/
def levelLoop {σ : Type} (S : SieveOps σ) (lv : Nat → Except Err (Option (List (Nat × Int)))) (prime : Nat → Nat)
    (low len maxB : Nat) : Nat → Nat → σ → Array Int → Int → Except Err (σ × Array Int × Int)
  | 0, _, s, phi, sum => .ok (s, phi, sum)
  | n + 1, b, s, phi, sum =>
    if b ≤ maxB then
      match lv b with
      | .error er => .error er
      | .ok none => .ok (s, phi, sum)
      | .ok (some items) =>
        if phi.size ≤ b then .error .oobPhi else
        match leafFold S low len (phi.getD b 0) items s sum with
        | .error er => .error er
        | .ok r =>
          levelLoop S lv prime low len maxB n (b + 1) (S.cross r.1 (prime b) b)
            (phi.setIfInBounds b (phi.getD b 0 + (S.total r.1 : Int))) r.2
    else .ok (s, phi, sum)

/-- `for (; low < limit; low += segment_size)`: `high = min(low + segment_size, limit)`, `pre_sieve(primes, min_b - 1, low, high)`,
    the level loops.  `lv b low high`. -/
def segLoop {σ : Type} (S : SieveOps σ) (lv : Nat → Nat → Nat → Except Err (Option (List (Nat × Int))))
    (prime : Nat → Nat) (minB maxB limit segSize : Nat) : Nat → Nat → σ → Array Int → Int → Except Err Int
  | 0, low, _, _, sum => if low < limit then .error .hang else .ok sum
  | n + 1, low, s, phi, sum =>
    if low < limit then
      match levelLoop S (fun b => lv b low (min (low + segSize) limit)) prime low (min (low + segSize) limit - low) maxB
          (maxB + 1 - minB) minB (S.pre s (minB - 1) low (min (low + segSize) limit)) phi sum with
      | .error er => .error er
      | .ok r => segLoop S lv prime minB maxB limit segSize n (low + segSize) r.1 r.2.1 r.2.2
    else .ok sum

/-! ### leaf enumerations -/

/-- `for (m = max_m; m > min_m; m--) if (prime < factor_[m]) { xpm = fast_div64(xp, to_number(m)); … sum -= mu(m) * phi_xpm; }`
    with `m = minI + n` descending: the visited `(xpm, -mu(m))` -/
def leafItems1 (e : Env) (prime xp minI : Nat) : Nat → List (Nat × Int)
  | 0 => []
  | n + 1 =>
    if prime < e.factor (minI + n + 1) then
      (xp / ftToNumber (minI + n + 1), - e.mu (minI + n + 1)) :: leafItems1 e prime xp minI n
    else leafItems1 e prime xp minI n

/-- `for (; primes[l] > min; l--) { xpq = fast_div64(xp, primes[l]); … sum += phi_xpq; }` -/
def leafItems2 (e : Env) (xp minHard : Nat) : Nat → List (Nat × Int)
  | 0 => []
  | l + 1 => if e.primes (l + 1) > minHard then (xp / e.primes (l + 1), 1) :: leafItems2 e xp minHard l else []

/-- S2_hard.cpp:101-131, level `b <= min(pi_sqrty, max_b)`: leaves composed of a prime and a square free number -/
def s2Level1 (e : Env) (x y low high b : Nat) : Except Err (Option (List (Nat × Int))) :=
  if e.primesSize ≤ b then .error .oobPrimes else
  if e.primes b = 0 ∨ high = 0 then .error .div0 else
  if e.primes b ≥ min (x / e.primes b / max low 1) y then .ok none else
  if max (min (x / e.primes b / high) y) (y / e.primes b) = 0 then .error .oobFactor else
  if e.factorSize ≤ toIndex (min (x / e.primes b / max low 1) y) then .error .oobFactor else
  .ok (some (leafItems1 e (e.primes b) (x / e.primes b) (toIndex (max (min (x / e.primes b / high) y) (y / e.primes b)))
    (toIndex (min (x / e.primes b / max low 1) y) - toIndex (max (min (x / e.primes b / high) y) (y / e.primes b)))))

/-- S2_hard.cpp:137-160, level `pi_sqrty < b <= max_b`: leaves composed of 2 primes -/
def s2Level2 (e : Env) (x y z low high b : Nat) : Except Err (Option (List (Nat × Int))) :=
  if e.primesSize ≤ b then .error .oobPrimes else
  if e.primes b = 0 ∨ high = 0 then .error .div0 else
  if e.piMax < min (min (x / e.primes b / max low 1) y) (z / e.primes b) then .error .oobPi else
  if e.primesSize ≤ e.pi (min (min (x / e.primes b / max low 1) y) (z / e.primes b)) then .error .oobPrimes else
  if e.primes b ≥ e.primes (e.pi (min (min (x / e.primes b / max low 1) y) (z / e.primes b))) then .ok none else
  .ok (some (leafItems2 e (x / e.primes b) (max (min (x / e.primes b / high) y) (e.primes b))
    (e.pi (min (min (x / e.primes b / max low 1) y) (z / e.primes b)))))

def s2Lv (e : Env) (x y z piSqrty maxB : Nat) (b low high : Nat) : Except Err (Option (List (Nat × Int))) :=
  if b ≤ min piSqrty maxB then s2Level1 e x y low high b else s2Level2 e x y z low high b

/-- `limit = min(low + segment_size * segments, z)` -/
def chunkLimit (low segments segSize z : Nat) : Nat := min (low + segSize * segments) z

/-- `max_b` of S2_hard_thread: `(limit <= y) ? pi_sqrty : pi[min3(isqrt(x / low1), isqrt(z), y)]` (unchecked read) -/
def s2MaxB (e : Env) (x y z low limit : Nat) : Nat :=
  if limit ≤ y then e.pi (isqrtN y) else e.pi (min (min (isqrtN (x / max low 1)) (isqrtN z)) y)

/-- `min_b`: `pi[min(z / limit, primes[max_b])]`, then `max(c, min_b) + 1` -/
def s2MinB (e : Env) (z c limit maxB : Nat) : Nat := max c (e.pi (min (z / limit) (e.primes maxB))) + 1

/-- `S2_hard_thread(x, y, z, c, primes, pi, factor, thread)` with `thread = (low, segments, segment_size)` -/
def s2HardThread {σ : Type} (S : SieveOps σ) (e : Env) (x y z c low segments segSize : Nat) : Except Err Int :=
  let limit := chunkLimit low segments segSize z
  if e.piMax < isqrtN y then .error .oobPi else
  if ¬ limit ≤ y ∧ e.piMax < min (min (isqrtN (x / max low 1)) (isqrtN z)) y then .error .oobPi else
  let maxB := s2MaxB e x y z low limit
  if limit = 0 then .error .div0 else
  if e.primesSize ≤ maxB then .error .oobPrimes else
  if e.piMax < min (z / limit) (e.primes maxB) then .error .oobPi else
  let minB := s2MinB e z c limit maxB
  if minB > maxB then .ok 0 else
  segLoop S (s2Lv e x y z (e.pi (isqrtN y)) maxB) e.primes minB maxB limit segSize limit low
    (S.create low segSize maxB) (e.phiVec low maxB) 0

/-! ### D -/

/-- D.cpp:105-137, level `b <= min(pi_sqrtz, max_b)` -/
def dLevel1 (e : Env) (x z low high b : Nat) : Except Err (Option (List (Nat × Int))) :=
  if e.primesSize ≤ b then .error .oobPrimes else
  if e.primes b = 0 ∨ high = 0 then .error .div0 else
  if e.primes b ≥ min (x / e.primes b / (e.primes b * e.primes b)) (min (x / e.primes b / max low 1) z) then .ok none else
  if max (min (x / e.primes b / high) z) (z / e.primes b) = 0 then .error .oobFactor else
  if e.factorSize ≤ toIndex (min (x / e.primes b / (e.primes b * e.primes b)) (min (x / e.primes b / max low 1) z))
    then .error .oobFactor else
  .ok (some (leafItems1 e (e.primes b) (x / e.primes b) (toIndex (max (min (x / e.primes b / high) z) (z / e.primes b)))
    (toIndex (min (x / e.primes b / (e.primes b * e.primes b)) (min (x / e.primes b / max low 1) z))
      - toIndex (max (min (x / e.primes b / high) z) (z / e.primes b)))))

/-- D.cpp:143-166, level `pi_sqrtz < b <= max_b` -/
def dLevel2 (e : Env) (x y low high b : Nat) : Except Err (Option (List (Nat × Int))) :=
  if e.primesSize ≤ b then .error .oobPrimes else
  if e.primes b = 0 ∨ high = 0 then .error .div0 else
  if e.piMax < min (x / e.primes b / (e.primes b * e.primes b)) (min (x / e.primes b / max low 1) y) then .error .oobPi else
  if e.primesSize ≤ e.pi (min (x / e.primes b / (e.primes b * e.primes b)) (min (x / e.primes b / max low 1) y))
    then .error .oobPrimes else
  if e.primes b ≥ e.primes (e.pi (min (x / e.primes b / (e.primes b * e.primes b)) (min (x / e.primes b / max low 1) y)))
    then .ok none else
  .ok (some (leafItems2 e (x / e.primes b) (max (min (x / e.primes b / high) y) (e.primes b))
    (e.pi (min (x / e.primes b / (e.primes b * e.primes b)) (min (x / e.primes b / max low 1) y)))))

def dLv (e : Env) (x y z piSqrtz maxB : Nat) (b low high : Nat) : Except Err (Option (List (Nat × Int))) :=
  if b ≤ min piSqrtz maxB then dLevel1 e x z low high b else dLevel2 e x y low high b

/-- `max_b = pi[min3(isqrt(x / low1), isqrt(limit), x_star)]` -/
def dMaxB (e : Env) (x xStar low limit : Nat) : Nat :=
  e.pi (min (min (isqrtN (x / max low 1)) (isqrtN limit)) xStar)

/-- `min_b = pi[min(xz / limit, x_star)]`, then `max(k, min_b) + 1` -/
def dMinB (e : Env) (xz xStar k limit : Nat) : Nat := max k (e.pi (min (xz / limit) xStar)) + 1

/-- `D_thread(x, x_star, xz, y, z, k, primes, pi, factor, thread)` -/
def dThread {σ : Type} (S : SieveOps σ) (e : Env) (x xStar xz y z k low segments segSize : Nat) : Except Err Int :=
  let limit := chunkLimit low segments segSize xz
  if e.piMax < isqrtN z then .error .oobPi else
  if e.piMax < min (min (isqrtN (x / max low 1)) (isqrtN limit)) xStar then .error .oobPi else
  let maxB := dMaxB e x xStar low limit
  if limit = 0 then .error .div0 else
  if e.piMax < min (xz / limit) xStar then .error .oobPi else
  let minB := dMinB e xz xStar k limit
  if minB > maxB then .ok 0 else
  segLoop S (dLv e x y z (e.pi (isqrtN z)) maxB) e.primes minB maxB limit segSize limit low
    (S.create low segSize maxB) (e.phiVec low maxB) 0

/-! ### the parallel regions -/

open LB in
/-- what a worker reports for the ThreadData it holds: `thread.sum` of a fresh object is 0, otherwise the value of
    the thread function on the work item it was handed (`work = false`: the loop ended, nothing is reported) -/
def handValue (f : Nat → Nat → Nat → Except Err Int) (h : Hand) : Except Err Int :=
  if h.work then f h.low h.segs h.size else .ok 0

open LB in
/-- replay of a recorded history: every event must be an allowed step of the dispenser, and the `thread.sum` a worker
    passes in must be the value of the thread function on what it was handed -/
def replay (f : Nat → Nat → Nat → Except Err Int) (cfg : S2.Config) : S2.State → List S2.Ev → Except Err S2.State
  | s, [] => .ok s
  | s, ev :: es =>
    if ¬ S2.ok cfg s ev then .error .badRun else
    match handValue f (getHand ev.w s.hands) with
    | .error er => .error er
    | .ok v => if v ≠ ev.tsum then .error .badRun else replay f cfg (S2.next cfg s ev) es

open LB in
/-- every worker's last `get_work` returned false and the range is exhausted -/
def completeB (cfg : S2.Config) (s : S2.State) : Bool :=
  decide (cfg.limit ≤ s.low) && s.hands.all (fun p => !p.2.work)

open LB in
/-- `S2_hard_OpenMP`: `LoadBalancerS2 loadBalancer(x, z, …, threads, is_print)`, the `while (get_work(thread))` loops of
    all workers as ONE recorded history, `return loadBalancer.get_sum()`.  `threads` is the team size after
    `min(threads, (int) pow(z, 1/3.7))` and `ideal_num_threads` (a parameter). -/
def s2HardOpenMP {σ : Type} (S : SieveOps σ) (e : Env) (c : Consts) (x y z cc threads : Nat) (print : Bool)
    (es : List S2.Ev) : Except Err Int :=
  let cfg := S2.mkConfig c z threads print
  match replay (fun low segs size => s2HardThread S e x y z cc low segs size) cfg (S2.init c x z threads print) es with
  | .error er => .error er
  | .ok s => if completeB cfg s then .ok s.sum else .error .badRun

open LB in
/-- `D_OpenMP`: `xz = x / z`, `x_star = get_x_star_gourdon(x, y)`, `LoadBalancerS2 loadBalancer(x, xz, …)` -/
def dOpenMP {σ : Type} (S : SieveOps σ) (e : Env) (c : Consts) (x y z k threads : Nat) (print : Bool)
    (es : List S2.Ev) : Except Err Int :=
  if z = 0 then .error .div0 else
  let xz := x / z
  let cfg := S2.mkConfig c xz threads print
  match replay (fun low segs size => dThread S e x (xStar x y) xz y z k low segs size) cfg
      (S2.init c x xz threads print) es with
  | .error er => .error er
  | .ok s => if completeB cfg s then .ok s.sum else .error .badRun

/-! ### the concrete Sieve object as `SieveOps` -/

/-- PcModel/Sieve.lean's bit-exact model of `class Sieve` under a CPU configuration; `count(stop)` through the inline
    body `f` -/
def concreteSieve (cfg : Sieve.Cfg) (f : Sieve.StopFn) (primes : Array Nat) : SieveOps Sieve.State where
  create := fun low seg _ => Sieve.create cfg low seg
  pre := fun s c low high => Sieve.preSieve cfg s primes c (high - low)
  count := fun s stop => Sieve.countStop f s stop
  total := fun s => s.totalCount
  cross := fun s p i => Sieve.crossOffCount s p i

/-- a plain `Array Bool` sieve with the same interface (numbers `low + i`; reference instance, fast) -/
structure RefSieve where
  low : Nat
  bits : Array Bool

def refCross (low : Nat) (bits : Array Bool) (p : Nat) : Array Bool :=
  if p = 0 then bits else
  let first := (low + p - 1) / p * p
  let rec go : Nat → Nat → Array Bool → Array Bool
    | 0, _, a => a
    | fuel + 1, k, a => if k - low < a.size then go fuel (k + p) (a.setIfInBounds (k - low) false) else a
  go (bits.size + 1) first bits

def refSieve (primes : Nat → Nat) : SieveOps RefSieve where
  create := fun low _ _ => ⟨low, #[]⟩
  pre := fun _ c low high =>
    ⟨low, (List.range c).foldl (fun a j => refCross low a (primes (j + 1)))
      ((Array.replicate (high - low) true).setIfInBounds 0 (decide (low ≠ 0)))⟩
  count := fun s stop => (s, ((List.range (stop + 1)).filter fun i => s.bits.getD i false).length)
  total := fun s => ((List.range s.bits.size).filter fun i => s.bits.getD i false).length
  cross := fun s p _ => ⟨s.low, refCross s.low s.bits p⟩

end Pc.Hard
