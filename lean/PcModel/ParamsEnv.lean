/-
C12 (magnitude half): the NAMED FLOAT ENVELOPES under which the range theorems of `PcProps/C12Params.lean` are proved, and
the range predicates that are their conclusions — as decidable propositions over exact rationals/integers, so that the
driver evaluates literally the same definitions on every sample of the correspondence streams (`gparams_chk`,
`dparams_chk`: `env=1` means the real floats of that run satisfy the envelope, `range=1` that the conclusion holds).

Envelopes (all with relative slack 2^-40, far above binary64's 2^-53 and libm's `pow` error):
* `TruncNear p t`   : `t` is the truncation of a double within 2^-40 of the exact product `p ≥ 0`
* `MaxXNear a m`    : `m = trunc(pow(2^62 a, 1.5))` with `pow` within 2^-40 (relative, on the square)
* `PowThreadsNear`  : `m = trunc(pow(z, 1/3.7))` within a factor 2 on the 37th power
* the clamps `1 ≤ alpha ≤ iroot<6>(x)` that `in_between` enforces whatever the floats were (util.cpp 274-277, 317-320,
  398-405), `alpha_z ≤ max(1, x16 / alpha_y)`.
-/
import PcModel.ParamsL2
namespace Pc

/-- relative slack of every float envelope -/
def relEps : Rat := 1 / 2 ^ 40

/-- `t` is the truncation of a double that is within relative error `relEps` of the exact value `p` -/
def TruncNear (p : Rat) (t : Int) : Prop := p * (1 - relEps) < (t : Rat) + 1 ∧ (t : Rat) ≤ p * (1 + relEps)

instance (p : Rat) (t : Int) : Decidable (TruncNear p t) := by unfold TruncNear; infer_instance

/-- `m` is the truncation of `pow(2^62 * a, 3/2)` computed within relative error `relEps` (stated on the square) -/
def MaxXNear (a : Rat) (m : Int) : Prop :=
  0 ≤ m ∧ (m : Rat) ^ 2 ≤ (2 ^ 62 * a) ^ 3 * (1 + relEps) ∧ (2 ^ 62 * a) ^ 3 * (1 - relEps) < ((m : Rat) + 1) ^ 2

instance (a : Rat) (m : Int) : Decidable (MaxXNear a m) := by unfold MaxXNear; infer_instance

/-- `m` is the truncation of `pow(z, 1/3.7) = z^(10/37)` (only its order of magnitude matters: the cast to `int`) -/
def PowThreadsNear (z m : Int) : Prop := 0 ≤ m ∧ m ^ 37 ≤ 2 * z ^ 10

instance (z m : Int) : Decidable (PowThreadsNear z m) := by unfold PowThreadsNear; infer_instance

/-- Gourdon's `y` and `z` from the raw float products -/
def gY (x : Nat) (v : Int) : Int := clampY (irootN 3 x) (isqrtN x) v
def gZ (x : Nat) (y w : Int) : Int := clampZ (isqrtN x) y w

/-- float envelope of one `pi_gourdon_*` run: `ay`, `az` are the exact values of the doubles returned by
    `get_alpha_gourdon(x)`; the products are taken at the `y` (`xz`) that the run derives -/
def GourdonEnv (x : Nat) (ay az : Rat) (fo : GFloats) : Prop :=
  1 ≤ ay ∧ ay ≤ (irootN 6 x : Rat) ∧ 1 ≤ az ∧ (az = 1 ∨ ay * az ≤ (irootN 6 x : Rat) * (1 + relEps)) ∧
  TruncNear ((irootN 3 x : Rat) * ay) fo.v ∧
  TruncNear ((gY x fo.v : Rat) * az) (fo.w (gY x fo.v)) ∧
  MaxXNear ay fo.maxX ∧
  PowThreadsNear ((x : Int) / gZ x (gY x fo.v) (fo.w (gY x fo.v))) (fo.mt ((x : Int) / gZ x (gY x fo.v) (fo.w (gY x fo.v))))

instance (x : Nat) (ay az : Rat) (fo : GFloats) : Decidable (GourdonEnv x ay az fo) := by
  unfold GourdonEnv; infer_instance

/-- what `pi_gourdon_*` and its callees may rely on -/
def GourdonRange (x : Nat) (threads : Int) (o : GOut) : Prop :=
  1 ≤ o.xStar ∧ o.xStar ≤ o.y ∧ 1 ≤ o.y ∧ o.y ≤ o.z ∧ o.k ≤ 8 ∧ o.k = getK x ∧
  -- every 64-bit quantity fits
  o.sqrtx ≤ i64Max ∧ i64Min ≤ o.v ∧ o.v ≤ i64Max ∧ i64Min ≤ o.w ∧ o.w ≤ i64Max ∧
  1 ≤ o.xz ∧ o.xz ≤ o.xy ∧ o.xy ≤ i64Max ∧ o.xy = (x : Int) / o.y ∧ o.xz = (x : Int) / o.z ∧
  0 ≤ o.maxAPrime ∧ o.maxAPrime ≤ i64Max ∧
  -- tables
  o.z ≤ (factorTableMax 32 : Int) ∧ (o.ft16 = true → o.z ≤ (factorTableMax 16 : Int)) ∧
  (o.prim32 = true → o.y ≤ 2 ^ 32 - 1 ∧ o.maxAPrime ≤ 2 ^ 32 - 1) ∧
  -- threads
  0 ≤ o.maxThreads ∧ o.maxThreads ≤ intMax ∧
  1 ≤ o.thrD ∧ o.thrD ≤ max 1 threads ∧ 1 ≤ o.thrAC ∧ o.thrAC ≤ max 1 threads ∧
  -- ordering (non-degenerate for x ≥ 64)
  o.xStar ≤ max 1 o.sqrtxy ∧
  (64 ≤ x → o.x13 < o.y ∧ o.y < o.sqrtx ∧ o.z < o.sqrtx ∧ (irootN 4 x : Int) ≤ o.xStar ∧ o.xStar ≤ o.sqrtxy ∧
    (x : Int) < (o.xStar + 1) ^ 4 ∧ (x : Int) < (o.xStar + 1) * (o.y * o.y))

instance (x : Nat) (threads : Int) (o : GOut) : Decidable (GourdonRange x threads o) := by
  unfold GourdonRange; infer_instance

/-- float envelope of one `pi_deleglise_rivat_*` / `pi_lmo*` run. The last two clauses are the monotonicity of IEEE
    multiplication: `alpha ≥ 1 ⇒ fl(x13·alpha) ≥ x13`, and `alpha ≤ x16 ⇒ fl(x13·alpha) ≤ x13·x16` when that product is
    exactly representable (`< 2^53`, which holds for every `x < 2^106`, in particular `x ≤ 10^31`). -/
def DrEnv (x : Nat) (a : Rat) (fo : DFloats) : Prop :=
  1 ≤ a ∧ a ≤ (irootN 6 x : Rat) ∧
  TruncNear ((irootN 3 x : Rat) * a) fo.v ∧
  (irootN 3 x : Int) ≤ fo.v ∧
  (irootN 3 x * irootN 6 x < 2 ^ 53 → fo.v ≤ (irootN 3 x * irootN 6 x : Nat)) ∧
  MaxXNear a fo.maxX ∧
  PowThreadsNear (Int.tdiv x fo.v) (fo.mt (Int.tdiv x fo.v))

instance (x : Nat) (a : Rat) (fo : DFloats) : Decidable (DrEnv x a fo) := by
  unfold DrEnv; infer_instance

def DrRange (x : Nat) (threads : Int) (o : DOut) : Prop :=
  1 ≤ o.x13 ∧ o.x13 ≤ o.y ∧ o.y ≤ i64Max ∧ 1 ≤ o.z ∧ o.z ≤ i64Max ∧ o.z = (x : Int) / o.y ∧ o.c ≤ 8 ∧
  o.y ≤ (factorTableMax 32 : Int) ∧ (o.ft16 = true → o.y ≤ (factorTableMax 16 : Int)) ∧
  0 ≤ o.maxThreads ∧ o.maxThreads ≤ intMax ∧ 1 ≤ o.thr ∧ o.thr ≤ max 1 threads ∧
  (irootN 3 x * irootN 6 x < 2 ^ 53 → o.y * o.y ≤ (x : Int) ∧ o.y ≤ o.z)

instance (x : Nat) (threads : Int) (o : DOut) : Decidable (DrRange x threads o) := by
  unfold DrRange; infer_instance

/-- named envelope of `maxx_default`: the default `alpha_y` (util.cpp 347-396: the cubic in `log x`, halved, truncated to
    3 decimals) is at least 110 on `(2^93 − 2^54, 10^31]` (real values: 118.5 at 2^93, 195.6 at 10^31). -/
def DefaultAlphaYAtLeast110 (x : Nat) (ay : Rat) : Prop := 2 ^ 93 - 2 ^ 54 < x → 110 ≤ ay

instance (x : Nat) (ay : Rat) : Decidable (DefaultAlphaYAtLeast110 x ay) := by
  unfold DefaultAlphaYAtLeast110; infer_instance

end Pc
