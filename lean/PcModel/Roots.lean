/-
C12: integer roots (include/isqrt.hpp, include/imath.hpp).

L1: the two correction loops of `isqrt` and of `iroot<N>` over unbounded naturals, started from an
ARBITRARY estimate (the floating point estimate of the C++ code is a parameter, never reasoned about).
L2: the same loops with the operand types of the C++ code; with the `(T) r * 2` of the repaired
header no operation wraps, which is what `PcProofs.Roots` proves (`isqrtL2_*`).
-/
import PcModel.Basic
namespace Pc

/-! ### isqrt -/

/-- `do { r--; } while (r * (T) r > x);` entered when `r * r > x` -/
def sqDown (x : Nat) : Nat → Nat
  | 0 => 0
  | r + 1 => if (r + 1) * (r + 1) > x then sqDown x r else r + 1

theorem sq_succ (r : Nat) : (r + 1) * (r + 1) = r * r + 2 * r + 1 := by
  rw [Nat.add_mul, Nat.mul_add, Nat.mul_one, Nat.one_mul, Nat.two_mul]; omega

/-- `while ((T) r * 2 < x - r * (T) r) r++;` (entered when `r * r ≤ x`) -/
def sqUp (x r : Nat) : Nat :=
  if h : r * r ≤ x ∧ 2 * r < x - r * r then sqUp x (r + 1) else r
termination_by x - r * r
decreasing_by
  have := sq_succ r
  omega

/-- both correction loops of `isqrt`, from the estimate `r0` -/
def isqrtLoop (x r0 : Nat) : Nat :=
  if r0 * r0 > x then sqDown x r0 else sqUp x r0

/-- `sqrt_helper(x, lo, hi)` of `ct_sqrt` (binary search), with fuel = hi - lo -/
def sqrtHelper (x : Nat) : Nat → Nat → Nat → Nat
  | 0, lo, _ => lo
  | fuel + 1, lo, hi =>
    if lo == hi then lo else
    let mid := (lo + hi + 1) / 2
    if x / mid < mid then sqrtHelper x fuel lo (mid - 1) else sqrtHelper x fuel mid hi

/-- `ct_sqrt(x)` -/
def ctSqrt (x : Nat) : Nat := sqrtHelper x (x / 2 + 2) 0 (x / 2 + 1)

/-- `sqrt_max = ct_sqrt(numeric_limits<T>::max())` -/
def sqrtMax (t : ITy) : Nat := ctSqrt t.maxVal

/-- width in bits of the result type `R` of `isqrt<T>` (uint64_t for the 128-bit types) -/
def ITy.rBits (t : ITy) : Nat := if t.bits = 128 then 64 else t.bits

/-- L2 `isqrt<T>(x)` for `0 ≤ x ≤ max(T)`; `s` is the value of `(T) std::sqrt((double) x)`. -/
def isqrtL2 (t : ITy) (x s : Nat) : Nat := isqrtLoop x (min s (sqrtMax t))

/-- the largest intermediate values the C++ loops compute from estimate `r0`:
    `r * (T) r` (in `T`), `(T) r * 2` (in `T`), `r` itself (in `R`). Used by the safety theorem. -/
def isqrtIntermediatesOk (t : ITy) (x r : Nat) : Bool :=
  r * r ≤ t.maxVal && r * 2 ≤ t.maxVal && r < 2 ^ t.rBits

/-! ### iroot<N>, ipow<N> -/

/-- `ipow<E>(b)` : the template unrolls to squarings and multiplications whose product is `b ^ E` -/
def ipowT : Nat → Nat → Nat
  | 0, _ => 1
  | e + 1, b => if (e + 1) % 2 == 1 then ipowT e b * b else
      let r := ipowT ((e + 1) / 2) b
      r * r
decreasing_by all_goals omega

/-- `for (; r > 0; r--) if (ipow<N-1>(r) <= x / r) break;` -/
def rootDown (n x : Nat) : Nat → Nat
  | 0 => 0
  | r + 1 => if ipowT (n - 1) (r + 1) ≤ x / (r + 1) then r + 1 else rootDown n x r

/-- `while (ipow<N-1>(r + 1) <= x / (r + 1)) r += 1;` -/
def rootUp (n x : Nat) : Nat → Nat → Nat
  | 0, r => r
  | fuel + 1, r => if ipowT (n - 1) (r + 1) ≤ x / (r + 1) then rootUp n x fuel (r + 1) else r

/-- both loops of `iroot<N>` from the estimate `r0` (fuel `x + 1` always suffices, see proofs) -/
def irootLoop (n x r0 : Nat) : Nat := rootUp n x (x + 1) (rootDown n x r0)

/-! ### small helpers of imath.hpp / primecount-internal.hpp -/

/-- `ceil_div(a, b)` for non-negative operands -/
def ceilDiv (a b : Nat) : Nat := (a + b - 1) / b

/-- `in_between(min, x, max)` -/
def inBetween (lo x hi : Int) : Int :=
  if x < lo || hi < lo then lo else if x > hi then hi else x

/-- `ideal_num_threads(sieve_limit, threads, thread_threshold)` -/
def idealNumThreads (sieveLimit threads threshold : Int) : Int :=
  let th := max 1 threshold
  -- overflow-free ceiling: sieve_limit / th + (sieve_limit % th > 0), C++ truncating division/remainder
  let maxThreads := Int.tdiv sieveLimit th + (if Int.tmod sieveLimit th > 0 then 1 else 0)
  inBetween 1 threads maxThreads

/-- `ilog2(x)` (x ≤ 0 treated as 1) -/
def ilog2 (x : Int) : Nat := if x ≤ 0 then 0 else Nat.log2 x.toNat

/-- `next_power_of_2(x)` on uint64 (builtin_clz branch): 1 for 0 and 1, else 1 << bit_width(x-1) -/
def nextPow2 (x : Nat) : Nat := if x ≤ 1 then 1 else 2 ^ (Nat.log2 (x - 1) + 1)

end Pc
