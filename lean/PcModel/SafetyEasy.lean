/-
C16 / C12 (WP safety3): WIDTH-CHECKED mirrors of the easy special leaves (S2_easy.cpp, S2_easy_libdivide.cpp).

The L2 mirrors of PcModel/EasyLoops.lean check every table read, every division and the unsigned `phi_xpq` of the
libdivide kernels, but add into `sum` in exact integers.  Here every value the C++ computes on the way into `sum` is checked:

  S2_easy.cpp:94            `phi_xpq * (l - lmin)`   an `int64_t` product (both operands `int64_t`)      → `ovfProd`
  S2_easy_libdivide.cpp:77  / :131                   a `uint64_t` product (both operands `uint64_t`)     → `ovfProd`
  S2_easy.cpp:94, :106      `sum += <int64_t>`       conversion of the `int64_t` value to the UNSIGNED `T` (`uint64_t` /
                                                     `uint128_t`): a negative value would be changed     → `negConv`
                            `sum += …`               `T sum` (unsigned, maximum `tMax`)                  → `ovfAcc`
  S2_easy_libdivide.cpp:188/190  `sum += S2_easy_64(…)` / `S2_easy_128(…)` (kernel-local `T sum = 0`, then the private copy)
  `reduction(+: sum)`       every private copy added to the original variable                            → `ovfAcc`
  S2_easy*.cpp `int64_t sum = S2_easy_OpenMP((uint64_t) x, …)` / `int128_t sum = …((uint128_t) x, …)`:
                            the unsigned result converted to the signed return type (maximum `sMax`)     → `ovfRet`

In S2_easy.cpp the loops accumulate directly into the thread-private reduction variable (the running sum is passed through
the kernel); in S2_easy_libdivide.cpp each kernel call starts from its own `T sum = 0`.  Core Lean only.
-/
import PcModel.EasyLoops
namespace Pc.Easy

/-- what the width-checked mirrors report instead of a value -/
inductive XErr where
  /-- an error of the unchecked mirror -/
  | base (e : EErr)
  | ovfProd | negConv | ovfAcc | ovfRet
deriving Repr, DecidableEq

def XErr.toString : XErr → String
  | .base e => e.toString | .ovfProd => "TRAP:ovf-prod" | .negConv => "TRAP:neg-conv" | .ovfAcc => "TRAP:ovf-acc"
  | .ovfRet => "TRAP:ovf-ret"

abbrev XM := Except XErr

def liftX {α : Type} : EM α → XM α
  | .ok v => .ok v
  | .error e => .error (.base e)

/-- the largest value of the type `phi_xpq * (l - lmin)` is computed in: `int64_t` (S2_easy.cpp) / `uint64_t` (libdivide file) -/
def Kern.prodMax (k : Kern) : Nat := if k.unsigned then 2 ^ 64 - 1 else 2 ^ 63 - 1

/-- `phi_xpq * (l - lmin)` in the kernel's local type (`v` is the exact product) -/
def ckProd (k : Kern) (v : Int) : XM Int :=
  if k.unsigned then (if 0 ≤ v ∧ v ≤ (k.prodMax : Int) then .ok v else .error .ovfProd)
  else (if -(k.prodMax : Int) - 1 ≤ v ∧ v ≤ (k.prodMax : Int) then .ok v else .error .ovfProd)

/-- `sum += v` for an unsigned `T sum` with maximum `tMax` -/
def accU (tMax : Nat) (sum v : Int) : XM Int :=
  if v < 0 then .error .negConv else if sum + v ≤ (tMax : Int) then .ok (sum + v) else .error .ovfAcc

/-- the clustered loop (S2_easy.cpp:87-96 and the two kernels of the libdivide file) with the product and `sum` checked -/
def clusteredC (tMax : Nat) (k : Kern) (t : NT) (size y xp b piMinCl : Nat) (l : Nat) (sum : Int) : XM (Int × Nat) :=
  if l > piMinCl then do
    let q ← liftX (primesGet t size l)
    let xpq ← liftX (k.div xp q)
    let piXpq ← liftX (piGet t y xpq)
    let phi ← liftX (phiXpq k piXpq b)
    let q2 ← liftX (primesGet t size (piXpq + 1))
    let xpq2 ← liftX (k.div xp q2)
    let lmin ← liftX (piGet t y xpq2)
    if _h : lmin < l then do
      let pr ← ckProd k (phi * ((l : Int) - lmin))
      let s ← accU tMax sum pr
      clusteredC tMax k t size y xp b piMinCl lmin s
    else .error (.base .noProgress)
  else pure (sum, l)
termination_by l

/-- the sparse loop (S2_easy.cpp:103-107) with `sum` checked -/
def sparseC (tMax : Nat) (k : Kern) (t : NT) (size y xp b piMinSp : Nat) : Nat → Int → XM Int
  | 0, sum => pure sum
  | l + 1, sum =>
    if l + 1 > piMinSp then do
      let q ← liftX (primesGet t size (l + 1))
      let xpq ← liftX (k.div xp q)
      let v ← liftX (piGet t y xpq)
      let phi ← liftX (phiXpq k v b)
      let s ← accU tMax sum phi
      sparseC tMax k t size y xp b piMinSp l s
    else pure sum

/-- one level `b` started from the running value `sum0` of `sum` (`0` for `S2_easy_64` / `S2_easy_128`) -/
def easyKernelC (tMax : Nat) (k : Kern) (t : NT) (size y z b prime xp : Nat) (sum0 : Int) : XM Int := do
  let xpp ← liftX (divE xp prime)
  let minTrivial := min xpp y
  let mc0 ← liftX (narrowE k.localTy (isqrtN xp))
  let ms0 ← liftX (divE z prime)
  let minClustered := inBetweenN prime mc0 y
  let minSparse := inBetweenN prime ms0 y
  let l ← liftX (piGet t y minTrivial)
  let piMinCl ← liftX (piGet t y minClustered)
  let piMinSp ← liftX (piGet t y minSparse)
  let (s1, l') ← clusteredC tMax k t size y xp b piMinCl l sum0
  sparseC tMax k t size y xp b piMinSp l' s1

/-- one iteration of the parallel loop of S2_easy.cpp: the loops add into the thread-private `sum` directly -/
def easyLeavesC (tMax : Nat) (k : Kern) (t : NT) (size x y z b : Nat) (sum : Int) : XM Int := do
  let prime ← liftX (primesGet t size b)
  let xp ← liftX (divE x prime)
  easyKernelC tMax k t size y z b prime xp sum

/-- one iteration of the parallel loop of S2_easy_libdivide.cpp: `sum += S2_easy_64(…)` / `sum += S2_easy_128(…)` -/
def easyLeavesLdC (tMax : Nat) (t : NT) (size x y z b : Nat) (sum : Int) : XM Int := do
  let prime ← liftX (primesGet t size b)
  let xp ← liftX (divE x prime)
  let r ← if xp ≤ ITy.u64.maxVal then easyKernelC tMax .ld64 t size y z b prime xp 0
          else easyKernelC tMax .ld128 t size y z b prime xp 0
  accU tMax sum r

/-- one thread: its private copy starts at 0 -/
def threadRunC (body : Nat → Int → XM Int) (its : List Nat) : XM Int := its.foldlM (fun acc b => body b acc) 0

/-- `reduction(+: sum)`: every private copy is added to the original variable, in `T` -/
def reduceXC (tMax : Nat) (init : Int) (body : Nat → Int → XM Int) (sched : List (List Nat)) : XM Int :=
  sched.foldlM (fun s its => do let r ← threadRunC body its; accU tMax s r) init

/-- the unsigned result converted to the signed return type -/
def retS (sMax : Nat) (r : Int) : XM Int := if r ≤ (sMax : Int) then .ok r else .error .ovfRet

/-- `S2_easy(x, y, z, c, threads)` through S2_easy.cpp, `T` = the unsigned type with maximum `tMax`, signed return type with
    maximum `sMax` -/
def s2EasyOpenMPC (tMax sMax : Nat) (t : NT) (w : ITy) (x y z c : Nat) (sched : List (List Nat)) : XM Int := do
  let size := t.piOf y + 1
  let _piSqrty ← liftX (piGet t y (isqrtN y))
  let _piX13 ← liftX (piGet t y (irootN 3 x))
  let r ← reduceXC tMax 0 (fun b sum => easyLeavesC tMax (plainKern w) t size x y z b sum) sched
  retS sMax r

/-- `S2_easy(x, y, z, c, threads)` through S2_easy_libdivide.cpp -/
def s2EasyLibdivideC (tMax sMax : Nat) (t : NT) (x y z c : Nat) (sched : List (List Nat)) : XM Int := do
  let size := t.piOf y + 1
  if (List.range (size - 1)).any (fun i => t.p (i + 1) < 2) then throw (.base .libdivide1)
  let _piSqrty ← liftX (piGet t y (isqrtN y))
  let _piX13 ← liftX (piGet t y (irootN 3 x))
  let r ← reduceXC tMax 0 (fun b sum => easyLeavesLdC tMax t size x y z b sum) sched
  retS sMax r

end Pc.Easy
