/-
C16 / C12 (WP safety4): WIDTH-CHECKED mirrors of the hard-special-leaf engines
  `S2_hard_thread` / `S2_hard_OpenMP`   src/deleglise-rivat/S2_hard.cpp:56-167 / 186-228
  `D_thread` / `D_OpenMP`               src/gourdon/D.cpp:55-167 / 190-231

The L2 mirrors of PcModel/HardLoops.lean check every table read and every `sieve.count(stop)` argument but compute in exact
integers.  Here every machine integer the thread functions compute is checked against its C++ type (`iMax = 2^63 − 1` for
`int64_t`; `sMax` = maximum of the SIGNED `T`):

  S2_hard.cpp:73 / D.cpp:73           `low + segment_size * segments`  (`int64_t` product and sum)             → `ovfLow`
  S2_hard.cpp:88,91 / D.cpp:86,89      `low += segment_size`, `low + segment_size` (`int64_t`)                   → `ovfLow`
  S2_hard.cpp:123,153 / D.cpp:124,155  `int64_t count = sieve.count(xpm - low)`  (`uint64_t` → `int64_t`)       → `ovfCount`
  S2_hard.cpp:124,154 / D.cpp:125,156  `int64_t phi_xpm = phi[b] + count`  (signed `int64_t` addition: UB)      → `ovfPhi`
  S2_hard.cpp:126 / D.cpp:127          `mu_m * phi_xpm`  (signed `int64_t` product, `mu_m = ±1`)                → `ovfProd`
  S2_hard.cpp:130,158 / D.cpp:131,160  `phi[b] += sieve.get_total_count()`  (`int64_t` += `uint64_t`)           → `ovfPhi`
  S2_hard.cpp:220 / D.cpp:223          `thread.sum = (T) sum`: the UNSIGNED `UT sum` (arithmetic mod 2^N: `sum -= …` of a
                                       negative `int64_t`, converted to `UT`, wraps by design) converted to the signed `T`:
                                       value-preserving iff the TRUE chunk value lies in `[−sMax − 1, sMax]`    → `ovfRet`
  LoadBalancerS2.cpp:112               `sum_ += thread.sum`  (`maxint_t` = `int128_t`, signed: UB)              → `ovfAcc`
  S2_hard.cpp:225 / D.cpp:228          `T sum = (T) loadBalancer.get_sum()`  (`int128_t` → `T`)                 → `ovfRet`

`xpm = fast_div64(xp, …)` and `xpm - low` are covered by the unchecked mirror's `oobSieve` test (`low ≤ xpm < high ≤ z`):
a run that passes it has `xpm < 2^63`.  Because `UT sum` is unsigned, its prefixes need no check: the thread function's
result is the true value mod 2^N, and `ovfRet` asks that the true value is representable.  Core Lean only.
-/
import PcModel.HardLoops

namespace Pc.Hard

/-- what the width-checked mirrors report instead of a value -/
inductive XErr where
  /-- an error of the unchecked mirror -/
  | base (e : Err)
  | ovfLow | ovfCount | ovfPhi | ovfProd | ovfRet | ovfAcc
deriving Repr, DecidableEq

abbrev XM := Except XErr

def liftX {α : Type} : Except Err α → XM α
  | .ok v => .ok v
  | .error e => .error (.base e)

/-- a value of a signed type with maximum `m` -/
def fitsS (m : Nat) (v : Int) : Prop := -(m : Int) - 1 ≤ v ∧ v ≤ (m : Int)

instance (m : Nat) (v : Int) : Decidable (fitsS m v) := by unfold fitsS; infer_instance

/-- the leaf loop body with `count`, `phi[b] + count` and `mu_m * phi_xpm` checked (`iMax` = maximum of `int64_t`) -/
def leafFoldC {σ : Type} (iMax : Nat) (S : SieveOps σ) (low len : Nat) (phib : Int) :
    List (Nat × Int) → σ → Int → XM (σ × Int)
  | [], s, sum => .ok (s, sum)
  | (pos, w) :: rest, s, sum =>
    if pos < low ∨ len ≤ pos - low then .error (.base .oobSieve) else
    if iMax < (S.count s (pos - low)).2 then .error .ovfCount else
    if ¬ fitsS iMax (phib + ((S.count s (pos - low)).2 : Int)) then .error .ovfPhi else
    if ¬ fitsS iMax (w * (phib + ((S.count s (pos - low)).2 : Int))) then .error .ovfProd else
    leafFoldC iMax S low len phib rest (S.count s (pos - low)).1 (sum + w * (phib + ((S.count s (pos - low)).2 : Int)))

/-- the level loops of one segment with `phi[b] += sieve.get_total_count()` checked -/
def levelLoopC {σ : Type} (iMax : Nat) (S : SieveOps σ) (lv : Nat → Except Err (Option (List (Nat × Int))))
    (prime : Nat → Nat) (low len maxB : Nat) : Nat → Nat → σ → Array Int → Int → XM (σ × Array Int × Int)
  | 0, _, s, phi, sum => .ok (s, phi, sum)
  | n + 1, b, s, phi, sum =>
    if b ≤ maxB then
      match lv b with
      | .error er => .error (.base er)
      | .ok none => .ok (s, phi, sum)
      | .ok (some items) =>
        if phi.size ≤ b then .error (.base .oobPhi) else
        match leafFoldC iMax S low len (phi.getD b 0) items s sum with
        | .error er => .error er
        | .ok r =>
          if ¬ fitsS iMax (phi.getD b 0 + (S.total r.1 : Int)) then .error .ovfPhi else
          levelLoopC iMax S lv prime low len maxB n (b + 1) (S.cross r.1 (prime b) b)
            (phi.setIfInBounds b (phi.getD b 0 + (S.total r.1 : Int))) r.2
    else .ok (s, phi, sum)

/-- the segment loop with `low + segment_size` checked -/
def segLoopC {σ : Type} (iMax : Nat) (S : SieveOps σ) (lv : Nat → Nat → Nat → Except Err (Option (List (Nat × Int))))
    (prime : Nat → Nat) (minB maxB limit segSize : Nat) : Nat → Nat → σ → Array Int → Int → XM Int
  | 0, low, _, _, sum => if low < limit then .error (.base .hang) else .ok sum
  | n + 1, low, s, phi, sum =>
    if low < limit then
      if iMax < low + segSize then .error .ovfLow else
      match levelLoopC iMax S (fun b => lv b low (min (low + segSize) limit)) prime low (min (low + segSize) limit - low) maxB
          (maxB + 1 - minB) minB (S.pre s (minB - 1) low (min (low + segSize) limit)) phi sum with
      | .error er => .error er
      | .ok r => segLoopC iMax S lv prime minB maxB limit segSize n (low + segSize) r.1 r.2.1 r.2.2
    else .ok sum

/-- `thread.sum = (T) sum` / `(T) loadBalancer.get_sum()`: conversion to the signed type with maximum `sMax` -/
def retS (sMax : Nat) (v : Int) : XM Int := if fitsS sMax v then .ok v else .error .ovfRet

/-- `S2_hard_thread` + the conversion `thread.sum = (T) sum` of its caller, width-checked -/
def s2HardThreadC {σ : Type} (iMax sMax : Nat) (S : SieveOps σ) (e : Env) (x y z c low segments segSize : Nat) : XM Int :=
  if iMax < low + segSize * segments then .error .ovfLow else
  let limit := chunkLimit low segments segSize z
  if e.piMax < isqrtN y then .error (.base .oobPi) else
  if ¬ limit ≤ y ∧ e.piMax < min (min (isqrtN (x / max low 1)) (isqrtN z)) y then .error (.base .oobPi) else
  let maxB := s2MaxB e x y z low limit
  if limit = 0 then .error (.base .div0) else
  if e.primesSize ≤ maxB then .error (.base .oobPrimes) else
  if e.piMax < min (z / limit) (e.primes maxB) then .error (.base .oobPi) else
  let minB := s2MinB e z c limit maxB
  if minB > maxB then .ok 0 else
  match segLoopC iMax S (s2Lv e x y z (e.pi (isqrtN y)) maxB) e.primes minB maxB limit segSize limit low
    (S.create low segSize maxB) (e.phiVec low maxB) 0 with
  | .error er => .error er
  | .ok v => retS sMax v

/-- `D_thread` + `thread.sum = (T) sum`, width-checked -/
def dThreadC {σ : Type} (iMax sMax : Nat) (S : SieveOps σ) (e : Env) (x xStar xz y z k low segments segSize : Nat) : XM Int :=
  if iMax < low + segSize * segments then .error .ovfLow else
  let limit := chunkLimit low segments segSize xz
  if e.piMax < isqrtN z then .error (.base .oobPi) else
  if e.piMax < min (min (isqrtN (x / max low 1)) (isqrtN limit)) xStar then .error (.base .oobPi) else
  let maxB := dMaxB e x xStar low limit
  if limit = 0 then .error (.base .div0) else
  if e.piMax < min (xz / limit) xStar then .error (.base .oobPi) else
  let minB := dMinB e xz xStar k limit
  if minB > maxB then .ok 0 else
  match segLoopC iMax S (dLv e x y z (e.pi (isqrtN z)) maxB) e.primes minB maxB limit segSize limit low
    (S.create low segSize maxB) (e.phiVec low maxB) 0 with
  | .error er => .error er
  | .ok v => retS sMax v

/-- LoadBalancerS2.cpp:112 `sum_ += thread.sum` over the reported chunk values, in the order the calls arrive
    (`aMax` = maximum of `maxint_t`), then `(T) loadBalancer.get_sum()` -/
def lbSumC (aMax : Nat) : List Int → Int → XM Int
  | [], acc => .ok acc
  | v :: vs, acc => if fitsS aMax (acc + v) then lbSumC aMax vs (acc + v) else .error .ovfAcc

def lbTotalC (aMax sMax : Nat) (vs : List Int) : XM Int :=
  match lbSumC aMax vs 0 with
  | .error er => .error er
  | .ok v => retS sMax v

end Pc.Hard
