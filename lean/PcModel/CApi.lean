/-
L2 model of primecount's C API (src/api_c.cpp), core Lean only.

Every C entry point is `try { return <C++ counterpart>; } catch (const std::exception& e) { print; return -1; }`.
The C++ counterpart is a PARAMETER here (`Except ε α`: a value or a thrown std::exception); what C14 judges
is the wrapper: return value, the caller's buffer, the diagnostic line — not the number itself.

Stores into the caller's buffer are modelled explicitly (`BufWrite` = index and byte), so that "only indices
below `len` are written" is a statement about the stores the code performs, not about a list update that
silently ignores out-of-range indices.
-/
import PcModel.Basic
namespace Pc

/-! ### scalar wrappers: primecount_pi, primecount_phi, primecount_nth_prime, primecount_get_num_threads -/

/-- `try { return f(args); } catch (const std::exception&) { ...; return -1; }` -/
def cWrap {ε : Type} (r : Except ε Int) : Int :=
  match r with
  | .ok v => v
  | .error _ => -1

/-- number of diagnostic lines written to stderr by the wrapper (`std::cerr << name << e.what() << std::endl`) -/
def cDiagLines {ε α : Type} (r : Except ε α) : Nat :=
  match r with
  | .ok _ => 0
  | .error _ => 1

/-! ### primecount_pi_str -/

/-- one store `res[i] = v` -/
abbrev BufWrite := Nat × Nat

/-- the buffer after a sequence of stores (left to right) -/
def applyWrites (buf : List Nat) : List BufWrite → List Nat
  | [] => buf
  | w :: ws => applyWrites (buf.set w.1 w.2) ws

/-- `pix.copy(res, pix.length())`: `res[k + j] = pix[j]` -/
def copyWrites : Nat → List Nat → List BufWrite
  | _, [] => []
  | k, d :: ds => (k, d) :: copyWrites (k + 1) ds

/-- why the `try` block of primecount_pi_str is left by an exception -/
inductive PiStrFail (ε : Type) where
  | nullX                 -- `if (!x) throw primecount_error("x must not be a NULL pointer")`
  | nullRes               -- `if (!res) throw ...`
  | cpp (e : ε)           -- `primecount::pi(str)` threw (to_maxint / calculator / pi(x) range check / bad_alloc)
  | tooSmall              -- `if (len < pix.length() + 1) throw ...`
deriving Repr

/-- `(int) pix.length()`: size_t to int (two's complement, 32 bits) -/
def toCInt (n : Nat) : Int := Int.bmod (n : Int) (2 ^ 32)

/-- The `try` block of `primecount_pi_str(x, res, len)`, in the order of the source:
    NULL checks, `std::string pix = primecount::pi(str)`, length check, copy, terminator, return.
    `x?`/`res?` are `none` for NULL pointers; `x` is the byte string up to the terminating NUL.
    Result: the `size_t` length and the stores performed, or the reason for the throw (no store happens
    before any of the throws). -/
def cPiStrTry {ε : Type} (x? : Option (List Nat)) (res? : Option (List Nat)) (len : Nat)
    (piStr : List Nat → Except ε (List Nat)) : Except (PiStrFail ε) (Nat × List BufWrite) :=
  match x? with
  | none => .error .nullX
  | some x =>
    match res? with
    | none => .error .nullRes
    | some _ =>
      match piStr x with
      | .error e => .error (.cpp e)
      | .ok pix =>
        if len < pix.length + 1 then .error .tooSmall
        else .ok (pix.length, copyWrites 0 pix ++ [(pix.length, 0)])

/-- return value and stores of the whole function; catch block: `if (res && len > 0) res[0] = '\0'; return -1;` -/
def cPiStrW {ε : Type} (x? : Option (List Nat)) (res? : Option (List Nat)) (len : Nat)
    (piStr : List Nat → Except ε (List Nat)) : Int × List BufWrite :=
  match cPiStrTry x? res? len piStr with
  | .ok (n, ws) => (toCInt n, ws)
  | .error _ => (-1, if res?.isSome && decide (len > 0) then [(0, 0)] else [])

/-- `primecount_pi_str(x, res, len)`: return value and the caller's buffer afterwards
    (`none` when `res` is NULL). -/
def cPiStr {ε : Type} (x? : Option (List Nat)) (res? : Option (List Nat)) (len : Nat)
    (piStr : List Nat → Except ε (List Nat)) : Int × Option (List Nat) :=
  let r := cPiStrW x? res? len piStr
  (r.1, res?.map (fun buf => applyWrites buf r.2))

/-- stderr lines of primecount_pi_str -/
def cPiStrDiagLines {ε : Type} (x? : Option (List Nat)) (res? : Option (List Nat)) (len : Nat)
    (piStr : List Nat → Except ε (List Nat)) : Nat :=
  cDiagLines (cPiStrTry x? res? len piStr)

/-! ### "no exception escapes": the shape of the entry points (data generated from src/api_c.cpp) -/

/-- shape of the body of an `extern "C"` function -/
inductive CBodyShape where
  /-- `{ try { ... } catch (const std::exception& e) { ... } }` and nothing else -/
  | tryCatchStdException
  /-- only `return "<string literal>";` / `return MACRO;` statements: nothing can throw -/
  | literalReturn
  /-- anything else -/
  | other
deriving Repr, DecidableEq

structure CFn where
  name : String
  shape : CBodyShape
  /-- the catch block ends in `return -1;` (functions returning a value) or the function is `void` -/
  catchReturnsMinus1 : Bool
deriving Repr

/-- root of the inheritance chain of a class that occurs in a `throw` expression -/
inductive ThrowBase where
  | stdException       -- chain ends in std::exception / runtime_error / logic_error / bad_alloc ...
  | unknown
deriving Repr, DecidableEq

structure ThrownType where
  name : String
  base : ThrowBase
deriving Repr

/-- what propagates out of the `try` block -/
inductive Thrown where
  | stdDerived         -- an object whose type derives from std::exception
  | foreign            -- anything else (`throw 42;`, `throw "text";`, a class outside the std hierarchy)
deriving Repr, DecidableEq

/-- outcome of running a body: a value, or an exception leaving the `try` block -/
inductive BodyOutcome where
  | returns (v : Int)
  | throws (t : Thrown)
deriving Repr

/-- What the caller of the C function observes: `some v` = normal return, `none` = an exception crosses the
    C boundary. A `literalReturn` body cannot throw at all, so its outcome is always a return. -/
def cObserve (shape : CBodyShape) (o : BodyOutcome) : Option Int :=
  match shape, o with
  | _, .returns v => some v
  | .tryCatchStdException, .throws .stdDerived => some (-1)
  | .tryCatchStdException, .throws .foreign => none
  | .literalReturn, .throws _ => none
  | .other, .throws _ => none

def CFn.shapeOk (f : CFn) : Bool :=
  (f.shape == .tryCatchStdException && f.catchReturnsMinus1) || f.shape == .literalReturn

end Pc
