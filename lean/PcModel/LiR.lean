/-
C19 — exact-rational models of src/LogarithmicIntegral.cpp and src/RiemannR.cpp (core Lean only).

What the C++ computes in `double` / `long double` / `__float128` is modelled here in exact rationals, with
everything the floating point library supplies (`std::log`, `std::sqrt`, the rounding of every operation)
left OUTSIDE: the series are functions of `L = log x`, the float-level functions take an environment `Env`
of outside functions. What remains is the logic of the code: term recurrences, the table look-up with its
`k + 1 < zeta.size()` fallback, the term caps and `|Δ| ≤ ε` stop rules, Cesàro's initial guess, the ≤ 10 step
Newton / Halley loops with their "not converging any more" exit, the guards for small arguments, the
selection of the float width by magnitude and the saturating conversion to the integer type.
NaN / infinity are not modelled (division by zero is 0 in `Rat`; the theorems never rely on it).
-/
import PcModel.Basic
import PcGen.ZetaData

namespace Pc.LiR

/-! ## float widths -/

inductive Prec where
  | dbl | ld | f128
deriving DecidableEq, Repr

/-- significand width (x87 long double: 64) -/
def Prec.mantBits : Prec → Nat
  | .dbl => 53 | .ld => 64 | .f128 => 113

/-- `numeric_limits<T>::epsilon()` resp. `FLT128_EPSILON` -/
def Prec.epsilon (p : Prec) : Rat := 1 / (2 : Rat) ^ (p.mantBits - 1)

def qabs (x : Rat) : Rat := if x < 0 then -x else x

def fact : Nat → Nat
  | 0 => 1
  | n + 1 => (n + 1) * fact n

/-! ## the zeta table -/

/-- `zeta[k]` as the exact value of its literal, for the indices the series read (`k ≥ 2`) -/
def zetaLit (k : Nat) : Rat := (Gen.zetaNum.getD k 0 : Rat) / (Gen.zetaDen : Rat)

/-- the factor the Gram series divides by at index `k` (≥ 1): `zeta[k + 1]` when `k + 1 < zeta.size()`,
    else 1 ("For k >= 127, approximate zeta(k + 1) by 1") -/
def zetaFactor (k : Nat) : Rat := if k + 1 < Gen.zetaNum.size then zetaLit (k + 1) else 1

/-! ## Gram series for R -/

/-- body of `for (unsigned k = 1; k < 1000; k++)` up to the stop test: new `(term, sum)` -/
def gramStep (L : Rat) (k : Nat) (term sum : Rat) : Rat × Rat :=
  let term' := term * (L / (k : Rat))
  let sum' :=
    if k + 1 < Gen.zetaNum.size then sum + term' / (zetaLit (k + 1) * (k : Rat))
    else sum + term' / (k : Rat)
  (term', sum')

/-- the loop from index `k` with `fuel` iterations left: `(sum, last index executed)` -/
def gramLoop (eps L : Rat) : Nat → Nat → Rat → Rat → Rat × Nat
  | 0, k, _, sum => (sum, k - 1)
  | fuel + 1, k, term, sum =>
    let ts := gramStep L k term sum
    if qabs (ts.2 - sum) ≤ eps then (ts.2, k)
    else gramLoop eps L fuel (k + 1) ts.1 ts.2

/-- the Gram series as coded: `sum = 1, term = 1`, indices `1 … gramCap - 1` -/
def gramRun (eps L : Rat) : Rat × Nat := gramLoop eps L (Gen.gramCap - 1) 1 1 1

/-- closed form: `R_K(L) = 1 + Σ_{k=1}^{K} L^k / (k · k! · z(k))`, `z = zetaFactor` -/
def Rseries : Nat → Rat → Rat
  | 0, _ => 1
  | K + 1, L => Rseries K L + L ^ (K + 1) / (((K + 1 : Nat) : Rat) * (fact (K + 1) : Rat) * zetaFactor (K + 1))

/-- the same with every zeta factor replaced by 1: `Σ_{k=1}^{K} L^k / (k · k!)`, the series of
    `li(e^L) - γ - log L` -/
def Eseries : Nat → Rat → Rat
  | 0, _ => 0
  | K + 1, L => Eseries K L + L ^ (K + 1) / (((K + 1 : Nat) : Rat) * (fact (K + 1) : Rat))

/-! ## Ramanujan series for li -/

structure LiState where
  p : Rat
  factorial : Rat
  power2 : Rat
  inner : Rat
  k : Nat
  sum : Rat

def liInit : LiState := ⟨-1, 1, 1, 0, 0, 0⟩

/-- `for (; k <= bound; k++) inner_sum += 1 / (2 * k + 1)` -/
def liInner (bound : Nat) : Nat → Nat → Rat → Nat × Rat
  | 0, k, s => (k, s)
  | fuel + 1, k, s => if k ≤ bound then liInner bound fuel (k + 1) (s + 1 / ((2 * k + 1 : Nat) : Rat)) else (k, s)

/-- body of `for (int n = 1; n < 1000; n++)` up to the stop test -/
def liStep (L : Rat) (n : Nat) (st : LiState) : LiState :=
  let p := st.p * (-L)
  let factorial := st.factorial * (n : Rat)
  let q := factorial * st.power2
  let power2 := st.power2 * 2
  let ki := liInner ((n - 1) / 2) (n + 1) st.k st.inner
  { p := p, factorial := factorial, power2 := power2, inner := ki.2, k := ki.1,
    sum := st.sum + (p / q) * ki.2 }

def liLoop (eps L : Rat) : Nat → Nat → LiState → Rat × Nat
  | 0, n, st => (st.sum, n - 1)
  | fuel + 1, n, st =>
    let st' := liStep L n st
    if qabs (st'.sum - st.sum) ≤ eps then (st'.sum, n) else liLoop eps L fuel (n + 1) st'

def liRun (eps L : Rat) : Rat × Nat := liLoop eps L (Gen.liCap - 1) 1 liInit

/-- `Σ_{k=0}^{m} 1 / (2k + 1)` -/
def oddHarmonic : Nat → Rat
  | 0 => 1
  | m + 1 => oddHarmonic m + 1 / ((2 * (m + 1) + 1 : Nat) : Rat)

/-- closed form of the `n`-th term: `(-1)^(n-1) L^n / (n! 2^(n-1)) · Σ_{k ≤ (n-1)/2} 1/(2k+1)` -/
def ramTerm (L : Rat) (n : Nat) : Rat :=
  (-(-L) ^ n) / ((fact n : Rat) * (2 : Rat) ^ (n - 1)) * oddHarmonic ((n - 1) / 2)

def ramSeries (L : Rat) : Nat → Rat
  | 0 => 0
  | N + 1 => ramSeries L N + ramTerm L (N + 1)

/-! ## float-level functions (templates `li`, `Li`, `RiemannR`, `initialNthPrimeApprox`, `*_inverse`) -/

/-- what the floating point side supplies -/
structure Env where
  eps : Rat
  log : Rat → Rat
  sqrt : Rat → Rat
  gamma : Rat
  li2 : Rat

def li (e : Env) (x : Rat) : Rat :=
  if x ≤ 1 then 0
  else e.gamma + e.log (e.log x) + e.sqrt x * (liRun e.eps (e.log x)).1

def Li (e : Env) (x : Rat) : Rat :=
  if x ≤ 2 then 0 else li e x - e.li2

def rMin : Rat := (Gen.rMinNum : Rat) / (Gen.rMinDen : Rat)

def RiemannR (e : Env) (x : Rat) : Rat :=
  if x < rMin then 0 else (gramRun e.eps (e.log x)).1

/-- Cesàro's formula -/
def initialNthPrimeApprox (e : Env) (x : Rat) : Rat :=
  if x < 1 then 0
  else if x < 2 then 2
  else if x < 3 then 3
  else
    let logx := e.log x
    let loglogx := e.log logx
    let t := logx + loglogx / 2
    let t := if x > (Gen.cesaro1 : Rat) then t + (loglogx / 2 - 1 + (loglogx - 2) / logx) else t
    let t := if x > (Gen.cesaro2 : Rat) then t - (loglogx * loglogx - 6 * loglogx + 11) / (2 * logx * logx) else t
    x * t

/-- `std::abs(term) >= std::abs(old_term)` with `old_term = infinity` before the first step -/
def notConverging (term : Rat) : Option Rat → Bool
  | none => false
  | some old => decide (qabs old ≤ qabs term)

/-- `for (i = 0; i < cap; i++) { term = …; if (|term| >= |old|) break; t -= term; old = term; }`:
    returns `(t, number of updates of t)` -/
def invLoop (termOf : Rat → Rat) : Nat → Rat → Option Rat → Nat → Rat × Nat
  | 0, t, _, i => (t, i)
  | fuel + 1, t, old, i =>
    let term := termOf t
    if notConverging term old then (t, i) else invLoop termOf fuel (t - term) (some term) (i + 1)

def newtonTerm (e : Env) (x t : Rat) : Rat := (RiemannR e t - x) * e.log t

def halleyTerm (e : Env) (x t : Rat) : Rat :=
  let delta := Li e t - x
  delta * e.log t / (1 + delta / (2 * t))

def RiemannRInverse (e : Env) (x : Rat) : Rat :=
  if x < 1 then 0 else (invLoop (newtonTerm e x) Gen.rInvIters (initialNthPrimeApprox e x) none 0).1

def LiInverse (e : Env) (x : Rat) : Rat :=
  if x < 1 then 0 else (invLoop (halleyTerm e x) Gen.liInvIters (initialNthPrimeApprox e x) none 0).1

/-! ## integer entry points -/

inductive Fn where
  | Li | LiInv | R | RInv
deriving DecidableEq, Repr

def Fn.name : Fn → String
  | .Li => "Li" | .LiInv => "Li_inverse" | .R => "RiemannR" | .RInv => "RiemannR_inverse"

def Fn.isInverse : Fn → Bool
  | .LiInv | .RInv => true
  | _ => false

/-- the generated `(x > a → long double, x > b → __float128)` of an entry point -/
def switches (f : Fn) : Nat × Nat :=
  match Gen.precisionSwitches.find? (fun s => s.1 == f.name) with
  | some s => s.2
  | none => (0, 0)

/-- float width selected for the integer argument `x` (`haveF128` = built with HAVE_FLOAT128). The C++
    comparisons `x > 1e8`, `x > 1e14` are done in double; both constants and every integer of magnitude
    below 2^53 are exact doubles and the conversion is monotone, so they agree with the integer comparison. -/
def precOf (haveF128 : Bool) (f : Fn) (x : Int) : Prec :=
  if haveF128 && decide (x > ((switches f).2 : Int)) then .f128
  else if x > ((switches f).1 : Int) then .ld
  else .dbl

/-- round to nearest, ties to even, to a significand of `bits` bits (`(FLOAT) n` for a natural `n`) -/
def roundNE (bits n : Nat) : Nat :=
  let len := Nat.log2 n + 1
  if n = 0 ∨ len ≤ bits then n
  else
    let sh := len - bits
    let q := n >>> sh
    let r := n % 2 ^ sh
    let half := 2 ^ (sh - 1)
    let q' := if r > half ∨ (r = half ∧ q % 2 = 1) then q + 1 else q
    q' <<< sh

def roundInt (bits : Nat) (x : Int) : Int :=
  if x < 0 then -((roundNE bits x.natAbs : Nat) : Int) else ((roundNE bits x.natAbs : Nat) : Int)

/-- `(FLOAT) numeric_limits<T>::max()` -/
def floatMax (p : Prec) (t : ITy) : Nat := roundNE p.mantBits t.maxVal

/-- C++ float → integer conversion truncates toward zero -/
def truncQ (r : Rat) : Int := if r < 0 then -((-r).floor) else r.floor

/-- outcome of a float → integer conversion: a value of the type or undefined behaviour -/
inductive Cast where
  | ok (v : Int)
  | ub
deriving DecidableEq, Repr

/-- `(T) res` -/
def castTo (t : ITy) (res : Rat) : Cast :=
  if t.inRange (truncQ res) then .ok (truncQ res) else .ub

/-- `*_inverse_overflow_check`: `if (res >= (FLOAT) max) return max; else return (T) res;`
    (`ge = false`: the comparison is `>`) -/
def satCast (ge : Bool) (fmax : Rat) (t : ITy) (res : Rat) : Cast :=
  if (if ge then decide (fmax ≤ res) else decide (fmax < res)) then .ok (t.maxVal : Int)
  else castTo t res

/-- the four entry points for integer type `t`: `envs p` is the floating point environment of width `p` -/
def entry (haveF128 : Bool) (envs : Prec → Env) (f : Fn) (t : ITy) (x : Int) : Cast :=
  let p := precOf haveF128 f x
  let xf : Rat := (roundInt p.mantBits x : Rat)
  match f with
  | .Li => castTo t (Li (envs p) xf)
  | .R => castTo t (RiemannR (envs p) xf)
  | .LiInv => satCast Gen.satCmpGe (floatMax p t : Rat) t (LiInverse (envs p) xf)
  | .RInv => satCast Gen.satCmpGe (floatMax p t : Rat) t (RiemannRInverse (envs p) xf)

/-! ## S2_approx / D_approx of primecount-internal.hpp (exact integer arithmetic around Li) -/

def s2Approx (li piY p2 s1 : Int) : Int := max (li - s1 - piY + 1 + p2) 0

def dApprox (li sigma phi0 ac b : Int) : Int := max (li - (ac - b + phi0 + sigma)) 0

end Pc.LiR
