/-
Model of src/nth_prime.cpp (C06), core Lean only.

L2 (what the code does, over exact integers):
  * domain checks `n < 1`, `n > max_n`  → error (primecount_error)
  * `n < primes.size()`                → table lookup (table generated into PcGen/NthPrimeData.lean)
  * `n <= pi_cache(max_cached())`      → `binary_search_nth_prime` over `PiTable::pi_cache`
  * otherwise  `prime_approx = RiemannR_inverse(n)`, `count_approx = pi(prime_approx)` and a walk with
    `primesieve::iterator`: forwards `n - count_approx` calls of `next_prime()` from `prime_approx + 1`
    when `count_approx < n`, else backwards `count_approx - n + 1` calls of `prev_prime()` from `prime_approx`.
L1 abstraction: `RiemannR_inverse` (long double / __float128 Newton iteration) is an ARBITRARY function
`approx : Nat → Nat`; `pi`, `pi_cache` and the prime iterator are parameters (`NthEnv`) whose specifications
are hypotheses of the theorems in PcProofs/NthPrime.lean. The `stop` argument of `primesieve::iterator` is
only a pre-sieving hint (`stop_hint`) and does not appear in the model. Machine-integer width is not
modelled here: for `1 ≤ n ≤ max_n` every quantity is `< 2^63` provided `approx n < 2^63 - 1`
(`RiemannR_inverse_overflow_check` clamps to `int64_t` max).
-/
import PcGen.NthPrimeData
namespace Pc

/-! ### trial division used by the generated table obligation (structural recursion only) -/

/-- `true` iff no `e` with `d ≤ e`, `e * e ≤ m` divides `m` (fuel-bounded ascending scan) -/
def noDivFrom (m : Nat) : Nat → Nat → Bool
  | 0, _ => true
  | f + 1, d => if m < d * d then true else if m % d = 0 then false else noDivFrom m f (d + 1)

/-- primality by trial division -/
def primeB (m : Nat) : Bool := decide (2 ≤ m) && noDivFrom m m 2

/-- `true` iff none of `s, s+1, ..., s+k-1` is prime -/
def noPrimeB (s : Nat) : Nat → Bool
  | 0 => true
  | k + 1 => !primeB (s + k) && noPrimeB s k

/-- `b` is the smallest prime `> a` -/
def nextOk (a b : Nat) : Bool := decide (a < b) && primeB b && noPrimeB (a + 1) (b - (a + 1))

/-- every entry is the smallest prime above its predecessor -/
def chainOk : List Nat → Bool
  | a :: b :: t => nextOk a b && chainOk (b :: t)
  | _ => true

/-! ### the prime iterator (interface of `primesieve::iterator`, DESIGN 6.18) -/

/-- `nextGe s`: what the first `next_prime()` of `primesieve::iterator(s, _)` returns (smallest prime `≥ s`);
    `prevLe s`: what the first `prev_prime()` of `primesieve::iterator(s, _)` returns (largest prime `≤ s`).
    After a call that returned `q`, the next `next_prime()` behaves like a fresh iterator at `q + 1` and the
    next `prev_prime()` like a fresh iterator at `q - 1`. -/
structure PrimeIter where
  nextGe : Nat → Nat
  prevLe : Nat → Nat

/-- `for (...; k times) prime = iter.next_prime();` with the iterator positioned at `s`;
    `prime` is the value of the variable before the loop (`-1` in the code). -/
def walkFwd (it : PrimeIter) : Nat → Nat → Int → Int
  | 0, _, prime => prime
  | k + 1, s, _ => walkFwd it k (it.nextGe s + 1) (it.nextGe s)

/-- `for (...; k times) prime = iter.prev_prime();` with the iterator positioned at `s` -/
def walkBwd (it : PrimeIter) : Nat → Nat → Int → Int
  | 0, _, prime => prime
  | k + 1, s, _ => walkBwd it k (it.prevLe s - 1) (it.prevLe s)

/-- nth_prime.cpp:104–128 with `approx = prime_approx`, `c = count_approx`:
    `for (i = c; i < n; i++)` runs `n - c` times, `for (i = c; i >= n; i--)` runs `c - n + 1` times. -/
def walk (it : PrimeIter) (approx n c : Nat) : Int :=
  if c < n then walkFwd it (n - c) (approx + 1) (-1)
  else walkBwd it (c - n + 1) approx (-1)

/-! ### binary search over `PiTable::pi_cache` -/

/-- the `while (low < hi)` loop of `binary_search_nth_prime`; `fuel ≥ hi - low` suffices -/
def bsearchLoop (piCache : Nat → Nat) (n : Nat) : Nat → Nat → Nat → Nat
  | 0, low, _ => low
  | fuel + 1, low, hi =>
    if low < hi then
      let mid := low + (hi - low) / 2
      if piCache mid < n then bsearchLoop piCache n fuel (mid + 1) hi
      else bsearchLoop piCache n fuel low mid
    else low

/-- `binary_search_nth_prime(n)`: `low = n * 2`, `hi = max_cached()` (the ASSERTs are debug-only) -/
def bsearch (piCache : Nat → Nat) (maxCached n : Nat) : Nat :=
  bsearchLoop piCache n (maxCached + 1) (n * 2) maxCached

/-! ### nth_prime -/

/-- everything `nth_prime` calls -/
structure NthEnv where
  /-- `RiemannR_inverse(n)`; arbitrary -/
  approx : Nat → Nat
  /-- `primecount::pi(x, threads)` -/
  pi : Nat → Nat
  /-- `PiTable::pi_cache(x)` (defined for `x ≤ max_cached()`) -/
  piCache : Nat → Nat
  it : PrimeIter

inductive NthErr where
  /-- "nth_prime(n): n must be >= 1" -/
  | tooSmall
  /-- "nth_prime(n): n must be <= max_n" -/
  | tooLarge
deriving Repr, DecidableEq

def nthTable (n : Nat) : Nat := Gen.nthPrimeTable.getD n 0

/-- `primecount::nth_prime(int64_t n, int threads)`; `threads` only reaches `pi` -/
def nthPrime (env : NthEnv) (n : Int) : Except NthErr Int :=
  if n < 1 then .error .tooSmall
  else if n > (Gen.nthPrimeMaxN : Int) then .error .tooLarge
  else
    let k := n.toNat
    if k < Gen.nthPrimeTableSize then .ok (nthTable k)
    else if k ≤ env.piCache Gen.nthPrimeMaxCached then .ok (bsearch env.piCache Gen.nthPrimeMaxCached k)
    else
      let a := env.approx k
      .ok (walk env.it a k (env.pi a))

/-- `primecount_nth_prime` of src/api_c.cpp: every exception becomes `-1` -/
def cNthPrime (env : NthEnv) (n : Int) : Int :=
  match nthPrime env n with
  | .ok v => v
  | .error _ => -1

end Pc
