/-
C16 / C12 (WP safety4): WIDTH-CHECKED mirrors of the ordinary-leaf recursions
  `S1_thread` / `S1_OpenMP`       src/S1.cpp:37-57 / 63-86
  `Phi0_thread` / `Phi0_OpenMP`   src/gourdon/Phi0.cpp:43-63 / 69-93

`T` / `X` is the SIGNED `int64_t` / `int128_t` here (`S1_OpenMP(x, y, c, threads)` is called with the signed `x`), so every
addition into an accumulator is a signed addition (overflow = undefined behaviour).  The mirrors of PcModel/LeafLoops.lean check
the products `square_free * primes[b]`; here in addition (`sMax` = maximum of `T`):

  S1.cpp:52 / Phi0.cpp:58   `MU * phi_tiny(x / next, c)`            (product in `T`)                         → `ovfProd`
  S1.cpp:52 / Phi0.cpp:58   `s1 += …`                                (local accumulator of EVERY recursion level) → `ovfAcc`
  S1.cpp:53 / Phi0.cpp:59   `s1 += S1_thread<-MU>(…)`                                                          → `ovfAcc`
  S1.cpp:81,82 / Phi0.cpp:88,89  `s1 -= phi_tiny(x / primes[b], c)`, `s1 += S1_thread<1>(…)` on the thread-private copy → `ovfAcc`
  `reduction(+: s1)`         every private copy added to the original variable (`X s1 = phi_tiny(x, c)`)        → `ovfAcc`
Core Lean only.
-/
import PcModel.LeafLoops

namespace Pc

inductive LXErr where
  | base (e : LErr)
  | ovfProd | ovfAcc
deriving Repr, DecidableEq

abbrev LXM := Except LXErr

def liftLX {α : Type} : LM α → LXM α
  | .ok v => .ok v
  | .error e => .error (.base e)

/-- a value of the signed type with maximum `m` -/
def fitsT (m : Nat) (v : Int) : Prop := -(m : Int) - 1 ≤ v ∧ v ≤ (m : Int)

instance (m : Nat) (v : Int) : Decidable (fitsT m v) := by unfold fitsT; infer_instance

/-- `a + v` in the signed type -/
def accS (sMax : Nat) (a v : Int) : LXM Int := if fitsT sMax (a + v) then .ok (a + v) else .error .ovfAcc

/-- `MU * v` in the signed type -/
def mulS (sMax : Nat) (mu v : Int) : LXM Int := if fitsT sMax (mu * v) then .ok (mu * v) else .error .ovfProd

/-- `S1_thread<MU>` / `Phi0_thread<MU>` with every accumulator step checked -/
def leafThreadC (sMax : Nat) (t : NT) (w : ITy) (size x z c : Nat) (mu : Int) (b sq : Nat) (acc : Int) : LXM Int :=
  if _h : b + 1 < size then do
    let next ← liftLX (mulT w sq (t.p (b + 1)))
    if next > z then pure acc
    else do
      let q ← liftLX (divM x next)
      let ph ← liftLX (phiTinyM q c)
      let term ← mulS sMax mu (ph : Int)
      let a1 ← accS sMax acc term
      let r ← leafThreadC sMax t w size x z c (-mu) (b + 1) next 0
      let a2 ← accS sMax a1 r
      leafThreadC sMax t w size x z c mu (b + 1) sq a2
  else pure acc
termination_by size - b

/-- the body of the `omp for` (S1.cpp:81-82, Phi0.cpp:88-89) on the private copy, checked; `z` = `y` for S1 -/
def leafBodyC (sMax : Nat) (t : NT) (w : ITy) (size x z c : Nat) (b : Nat) (s1 : Int) : LXM Int := do
  let q ← liftLX (divM x (t.p b))
  let ph ← liftLX (phiTinyM q c)
  let a1 ← accS sMax s1 (-(ph : Int))
  let r ← leafThreadC sMax t w size x z c 1 b (t.p b) 0
  accS sMax a1 r

/-- one thread: private copy from 0 -/
def threadRunC (body : Nat → Int → LXM Int) (its : List Nat) : LXM Int :=
  its.foldlM (fun acc b => body b acc) 0

/-- the reduction: every private copy added to the original variable, in team order -/
def ompReduceC (sMax : Nat) (init : Int) (body : Nat → Int → LXM Int) (sched : List (List Nat)) : LXM Int :=
  sched.foldlM (fun s its => do let r ← threadRunC body its; accS sMax s r) init

/-- `S1_OpenMP` (`z = y`) / `Phi0_OpenMP`, checked -/
def leafOpenMPC (sMax : Nat) (t : NT) (w : ITy) (x y z c : Nat) (sched : List (List Nat)) : LXM Int := do
  let piY := t.piOf y
  let s1 ← liftLX (phiTinyM x c)
  if ¬ fitsT sMax (s1 : Int) then .error .ovfAcc else
  ompReduceC sMax (s1 : Int) (leafBodyC sMax t w (piY + 1) x z c) sched

end Pc
