/-
C07 — model of src/phi.cpp: the guards of `phi_OpenMP`, `phi_pix`, the recursive algorithm
`PhiCache::phi<SIGN>(x, a)` with its two loops and early exits, and the OpenMP reduction.

L1 choices (theorems in PcProofs/PhiAlg.lean quantify over all of these):
* the float-derived `pix_upper(x)` is a PARAMETER (`PhiTop.pixUpper`);
* `pi_noprint` (used by `phi_pix`) and the `PiTable` are parameters, constrained in the theorems to be π;
* one `PhiCache` object is its geometry (`max_x_`, `max_a_`), the number `max_a_cached_` of levels that
  have been sieved so far (the only mutable state, threaded through the recursion exactly as the calls to
  `init_cache` change it) and an arbitrary function `val` standing for what the sieve arrays answer;
* the OpenMP loop is an arbitrary order of the indices, each index evaluated on an arbitrary cache in an
  arbitrary state (`phiOpenMP`'s `sched`), summed in that order.
`isqrt` is `Nat.sqrt` (C12 proves the header's `isqrt` equal to it).  Core Lean only.
-/
import PcModel.PhiTiny
import PcModel.Roots
namespace Pc

/-- `PhiTiny::max_a()` as used by phi.cpp (`is_phi_tiny(a)` is `a ≤ 8`) -/
def phiTinyMaxA : Nat := 8

/-- one `PhiCache` object: geometry fixed by the constructor and the answers of its sieve arrays -/
structure PhiCacheL1 where
  maxX : Nat
  maxA : Nat
  val : Nat → Nat → Nat

/-- the constructor's sizing (phi.cpp:57-96); `powEst` stands for `(uint64_t) std::pow(x, 1 / 2.3)`.
    Returns `(max_x_, max_a_)`; `(0, 0)` means "no caching". -/
def phiCacheGeometry (a powEst : Nat) (capA : Nat := 100) (subA : Nat := 30) (megabytes : Nat := 16)
    (minSize : Nat := 8) : Nat × Nat :=
  let a' := a - min a subA
  let maxA := min a' capA
  if maxA ≤ phiTinyMaxA then (0, 0) else
  let indexes := maxA - phiTinyMaxA
  let maxBytes := megabytes <<< 20
  let perIndex := maxBytes / indexes
  let numbersPerByte := 240 / 12            -- sizeof(sieve_t) = 12 (packed uint32 + uint64)
  let cacheLimit := perIndex * numbersPerByte
  let maxX := min powEst cacheLimit
  let size := (maxX + 239) / 240            -- ceil_div(max_x, 240)
  if size < minSize then (0, 0) else (size * 240 - 1, maxA)

/-- what `PhiCache::phi` reads -/
structure PhiEnv where
  /-- `primes_[i]` (`primes_[0] = 0`) -/
  prime : Nat → Nat
  /-- `pi_.size()` -/
  piSize : Nat
  /-- `pi_[x]` -/
  piTab : Nat → Nat
  /-- `phi_tiny(x, a)` -/
  tiny : Nat → Nat → Nat
  cache : PhiCacheL1

/-- `is_pix(x, a)`: `x < pi_.size() && x < isquare(primes_[a + 1])` -/
def PhiEnv.isPix (E : PhiEnv) (x a : Nat) : Bool :=
  decide (x < E.piSize) && decide (x < E.prime (a + 1) * E.prime (a + 1))

/-- `is_cached(x, a)` when `max_a_cached_ = mac` -/
def PhiEnv.isCached (E : PhiEnv) (mac x a : Nat) : Bool :=
  decide (x ≤ E.cache.maxX) && decide (a ≤ mac) && decide (phiTinyMaxA < a)

/-- `sum += (a + 1 - i) * -SIGN` at label `phi_1` -/
def phiFinish (sign : Int) (a i : Nat) (sum : Int) : Int := sum + ((a + 1 - i : Nat) : Int) * -sign

/-- second loop (phi.cpp:165-176): all remaining terms come from the π table; `n = a + 1 - i` iterations left -/
def phiLoop2 (E : PhiEnv) (sign : Int) (x sqrtx a : Nat) : Nat → Nat → Int → Int
  | 0, i, sum => phiFinish sign a i sum
  | n + 1, i, sum =>
    if E.prime i > sqrtx then phiFinish sign a i sum
    else phiLoop2 E sign x sqrtx a n (i + 1)
      (sum + ((E.piTab (x / E.prime i) : Int) - (i : Int) + 2) * -sign)

/-- first loop (phi.cpp:138-163); `rec` is `phi<-SIGN>` one recursion level down; the cache state `mac`
    (= `max_a_cached_`) is threaded through because the recursive calls may enlarge the cache -/
def phiLoop1 (E : PhiEnv) (rec : Int → Nat → Nat → Nat → Int × Nat) (sign : Int) (x sqrtx a : Nat) :
    Nat → Nat → Int → Nat → Int × Nat
  | 0, i, sum, mac => (phiFinish sign a i sum, mac)
  | n + 1, i, sum, mac =>
    if E.prime i > sqrtx then (phiFinish sign a i sum, mac)
    else
      let xp := x / E.prime i
      if E.isPix xp (i - 1) then
        (phiLoop2 E sign x sqrtx a n (i + 1) (sum + ((E.piTab xp : Int) - (i : Int) + 2) * -sign), mac)
      else if E.isCached mac xp (i - 1) then
        phiLoop1 E rec sign x sqrtx a n (i + 1) (sum + (E.cache.val xp (i - 1) : Int) * -sign) mac
      else
        let r := rec (-sign) xp (i - 1) mac
        phiLoop1 E rec sign x sqrtx a n (i + 1) (sum + r.1) r.2

/-- `PhiCache::phi<SIGN>(x, a)` with `max_a_cached_ = mac` on entry; returns the value and the new
    `max_a_cached_`.  `fuel` bounds the recursion depth (each level lowers `a`; `fuel > a` suffices). -/
def phiRecAlg (E : PhiEnv) : Nat → Int → Nat → Nat → Nat → Int × Nat
  | 0, _, _, _, mac => (0, mac)
  | fuel + 1, sign, x, a, mac =>
    if x ≤ E.prime a then (sign, mac)
    else if a ≤ phiTinyMaxA then ((E.tiny x a : Int) * sign, mac)
    else if E.isPix x a then (((E.piTab x : Int) - (a : Int) + 1) * sign, mac)
    else
      -- init_cache(min(a, max_a_)) when more levels are wanted and x is inside the cached range
      let want := min a E.cache.maxA
      let mac1 := if mac < want ∧ x ≤ E.cache.maxX then want else mac
      if E.isCached mac1 x a then ((E.cache.val x a : Int) * sign, mac1)
      else
        let largerC := max phiTinyMaxA (min mac1 a)
        let c := if E.isCached mac1 x largerC then largerC else phiTinyMaxA
        let sum0 : Int :=
          if E.isCached mac1 x largerC then (E.cache.val x largerC : Int) * sign
          else (E.tiny x phiTinyMaxA : Int) * sign
        phiLoop1 E (phiRecAlg E fuel) sign x (Nat.sqrt x) a (a - c) (c + 1) sum0 mac1

/-- L2: the thread count handed to `#pragma omp parallel num_threads(threads)` (phi.cpp:384-387):
    `threads = min(threads, (int) std::sqrt(a)); threads = ideal_num_threads(x, threads, (int64_t) 1e10)`,
    where `ideal_num_threads` (primecount-internal.hpp, after repair 176f90f) computes
    `max_threads = x / 1e10 + (x % 1e10 > 0)` in int64 and returns `in_between(1, threads, max_threads)`.
    `none` = an intermediate leaves int64 (never happens for `x < 2^63`: `phiThreads_safe`).
    Before the repair the code was `ceil_div(x, 1e10) = (x + 1e10 - 1) / 1e10`, which overflowed for
    `x > 2^63 - 10^10` (`phiThreadsOld`, `phiThreadsOld_overflow`). -/
def phiThreads (x a : Nat) (threads : Int) : Option Int :=
  let t1 := min threads (Nat.sqrt a : Int)
  let thr : Int := 10000000000
  let maxT : Int := (x : Int) / thr + (if (x : Int) % thr > 0 then 1 else 0)
  if ITy.i64.inRange maxT then some (inBetween 1 t1 maxT) else none

/-- the pre-repair computation (kept to document the defect the `int64_edge` stream guards against) -/
def phiThreadsOld (x a : Nat) (threads : Int) : Option Int :=
  let t1 := min threads (Nat.sqrt a : Int)
  let thr : Int := 10000000000
  if (x : Int) + thr - 1 > ITy.i64.maxVal then none
  else some (inBetween 1 t1 (((x : Int) + thr - 1) / thr))

/-- `phi_pix(x, a)` with `pix = pi_noprint(x)` -/
def phiPix (pix a : Nat) : Nat := if a ≤ pix then pix - a + 1 else 1

/-- the parameters of `phi_OpenMP` that the L1 theorems quantify over -/
structure PhiTop where
  /-- `pix_upper(x)` (exact table below 30720, a double formula above) -/
  pixUpper : Nat → Nat
  /-- `pi_noprint(x, threads)` -/
  piFn : Nat → Nat
  /-- `generate_n_primes(a)[i]` -/
  prime : Nat → Nat
  /-- `PiTable pi(sqrtx)`: `pi[v]` for `v ≤ sqrtx` -/
  piTab : Nat → Nat
  /-- `phi_tiny` -/
  tiny : Nat → Nat → Nat

inductive PhiGuard where
  | zero | x | one | tiny | pixUpper | phiPix1 | phiPix2 | main
deriving Repr, DecidableEq

/-- which return statement of `phi_OpenMP` (phi.cpp:344-376) is taken -/
def phiGuards (P : PhiTop) (x a : Int) : PhiGuard :=
  if x < 1 then .zero
  else if a < 1 then .x
  else if a > x / 2 then .one
  else if a.toNat ≤ phiTinyMaxA then .tiny
  else if a.toNat ≥ P.pixUpper x.toNat then .pixUpper
  else if a.toNat > P.pixUpper (Nat.sqrt x.toNat) then .phiPix1
  else if a.toNat > P.piTab (Nat.sqrt x.toNat) then .phiPix2
  else .main

/-- `phi_OpenMP(x, a, threads)`: `order` is the order in which the reduction adds the loop indices
    `9..a` (any interleaving of the threads' chunks), `sched i` the cache object and its state that the
    thread evaluating index `i` has at that moment. -/
def phiOpenMP (P : PhiTop) (order : List Nat) (sched : Nat → PhiCacheL1 × Nat) (x a : Int) : Int :=
  match phiGuards P x a with
  | .zero => 0
  | .x => x
  | .one => 1
  | .tiny => P.tiny x.toNat a.toNat
  | .pixUpper => 1
  | .phiPix1 => phiPix (P.piFn x.toNat) a.toNat
  | .phiPix2 => phiPix (P.piFn x.toNat) a.toNat
  | .main =>
    let xn := x.toNat
    let term (i : Nat) : Int :=
      let E : PhiEnv := { prime := P.prime, piSize := Nat.sqrt xn + 1, piTab := P.piTab, tiny := P.tiny,
                          cache := (sched i).1 }
      (phiRecAlg E (i + 1) (-1) (xn / P.prime i) (i - 1) (sched i).2).1
    (P.tiny xn phiTinyMaxA : Int) + (order.map term).sum

end Pc
