/-
WP top (item 3; C02, also C03 / C08): L2 models of the two LMO algorithms whose S2 uses `class Sieve`

* `S2(x, y, c, primes, lpf, mu, is_print)`            src/lmo/pi_lmo5.cpp:43-145   -> `s2Lmo5`
* `pi_lmo5(x, is_print)`                              src/lmo/pi_lmo5.cpp:156-188  -> `piLmo5`
* `S2_thread(x, y, z, c, pi, primes, lpf, mu, thread)` src/lmo/pi_lmo_parallel.cpp:49-146  -> `lmoParThread`
* `S2(x, y, z, c, s2_approx, primes, lpf, mu, threads, is_print)` pi_lmo_parallel.cpp:166-214 -> `lmoParOpenMP`
* `pi_lmo_parallel(x, threads, is_print)`             pi_lmo_parallel.cpp:225-259 -> `piLmoParallel`

Core Lean only (linked into `pcdrv`).  Both S2 functions are the segmented engine of PcModel/HardLoops.lean
(`segLoop` / `levelLoop` / `leafFold`: segment loop, the two consecutive `for (…; b++)` loops sharing `b`, both
`goto next_segment` exits, `phi[b] += sieve.get_total_count(); sieve.cross_off_count(prime, b)`) run with the level
enumerations `lmoLevel1` (leaves composed of a prime and a square-free number, `mu[]` / `lpf[]` vectors) and
`lmoLevel2` (leaves composed of two primes).  Differences from `S2_hard_thread` that are mirrored here:
no `min(·, y)` around `x / (prime * high)`, the divisions are `x / (prime * m)` (one division by a product, not two),
`mu[m] != 0 && prime < lpf[m]` on plain vectors indexed by `m`, second loop without the `z / prime` cut (ALL special leaves),
`limit = min(low + segment_size * segments, z + 1)`, `max_b = pi[min(isqrt(x / low1), y - 1)]`.

PARAMETERS (each has its own model and property):
* the `Sieve` object = `Hard.SieveOps σ` (contract `Hard.SieveSpec`; instances `concreteSieve`, `refSieve`);
* tables = `LmoEnv`: `Hard.Env` (`primes`, `pi` = `generate_pi(y)` resp. `PiTable pi(y)`, `phi_vector`) plus `mu[]`, `lpf[]`
  (`generate_moebius(y)`, `generate_lpf(y)`) with their common size; EVERY read is bounds-checked
  (`Hard.Err.oobPrimes / oobPi / oobPhi / oobSieve`, `oobFactor` = a read of `mu[m]` / `lpf[m]` with `m >= size`);
* the float product `y = (int64_t)(x13 * alpha)` = the argument `v` of `lmoL2` (PcModel/ParamsL2.lean);
* `P2` = `P2L.p2OpenMP` on a recorded run of its region, `S1` = `s1OpenMP` on a schedule of its `omp for`,
  LoadBalancerS2 = a recorded `get_work` history (PcModel/Dispenser.lean); the team size after
  `min(threads, (int) pow(z, 1/3.7))` and `ideal_num_threads` is a parameter; `S2_approx` only feeds the status output.
* integers unbounded (`int64_t` sums are exact as long as the true values fit).
-/
import PcModel.HardLoops
import PcModel.P2Loop
import PcModel.LeafLoops
import PcModel.ParamsL2

namespace Pc.TopLmo
open Pc.Hard

/-- the tables the two S2 functions read: `e` = `primes`, `pi`, `phi_vector`; `mu[]`, `lpf[]` and their size -/
structure LmoEnv where
  e : Env
  /-- `mu[m]` -/
  mu : Nat → Int
  /-- `lpf[m]` -/
  lpf : Nat → Nat
  /-- `mu.size() = lpf.size()` (`generate_moebius(y)`, `generate_lpf(y)`: `y + 1`) -/
  vecSize : Nat

/-! ### the leaf enumerations -/

/-- `for (int64_t m = max_m; m > min_m; m--) if (mu[m] != 0 && prime < lpf[m]) { xpm = x / (prime * m); … s2 -= mu[m] * phi_xpm; }`
    with `m = minM + n` descending: the visited `(xpm, -mu[m])` (pi_lmo5.cpp:98-107, pi_lmo_parallel.cpp:102-111) -/
def lmoItems1 (L : LmoEnv) (prime x minM : Nat) : Nat → List (Nat × Int)
  | 0 => []
  | n + 1 =>
    if L.mu (minM + n + 1) ≠ 0 ∧ prime < L.lpf (minM + n + 1) then
      (x / (prime * (minM + n + 1)), - L.mu (minM + n + 1)) :: lmoItems1 L prime x minM n
    else lmoItems1 L prime x minM n

/-- `for (; primes[l] > min_m; l--) { xpq = x / (prime * primes[l]); … s2 += phi_xpq; }`
    (pi_lmo5.cpp:126-132, pi_lmo_parallel.cpp:130-136; the loop ends at `l = 0` because `primes[0] = 0`) -/
def lmoItems2 (e : Env) (prime x minM : Nat) : Nat → List (Nat × Int)
  | 0 => []
  | l + 1 => if e.primes (l + 1) > minM then (x / (prime * e.primes (l + 1)), 1) :: lmoItems2 e prime x minM l else []

/-- pi_lmo5.cpp:91-107 = pi_lmo_parallel.cpp:95-111, one level of the first loop:
    `prime = primes[b]`, `min_m = max(x / (prime * high), y / prime)`, `max_m = min(x / (prime * low1), y)`,
    `if (prime >= max_m) goto next_segment` -/
def lmoLevel1 (L : LmoEnv) (x y low high b : Nat) : Except Err (Option (List (Nat × Int))) :=
  if L.e.primesSize ≤ b then .error .oobPrimes else
  if L.e.primes b = 0 ∨ high = 0 then .error .div0 else
  if L.e.primes b ≥ min (x / (L.e.primes b * max low 1)) y then .ok none else
  if max (x / (L.e.primes b * high)) (y / L.e.primes b) < min (x / (L.e.primes b * max low 1)) y
      ∧ L.vecSize ≤ min (x / (L.e.primes b * max low 1)) y then .error .oobFactor else
  .ok (some (lmoItems1 L (L.e.primes b) x (max (x / (L.e.primes b * high)) (y / L.e.primes b))
    (min (x / (L.e.primes b * max low 1)) y - max (x / (L.e.primes b * high)) (y / L.e.primes b))))

/-- pi_lmo5.cpp:119-132 = pi_lmo_parallel.cpp:123-136, one level of the second loop:
    `l = pi[min(x / (prime * low1), y)]`, `min_m = max(x / (prime * high), prime)`, `if (prime >= primes[l]) goto next_segment` -/
def lmoLevel2 (L : LmoEnv) (x y low high b : Nat) : Except Err (Option (List (Nat × Int))) :=
  if L.e.primesSize ≤ b then .error .oobPrimes else
  if L.e.primes b = 0 ∨ high = 0 then .error .div0 else
  if L.e.piMax < min (x / (L.e.primes b * max low 1)) y then .error .oobPi else
  if L.e.primesSize ≤ L.e.pi (min (x / (L.e.primes b * max low 1)) y) then .error .oobPrimes else
  if L.e.primes b ≥ L.e.primes (L.e.pi (min (x / (L.e.primes b * max low 1)) y)) then .ok none else
  .ok (some (lmoItems2 L.e (L.e.primes b) x (max (x / (L.e.primes b * high)) (L.e.primes b))
    (L.e.pi (min (x / (L.e.primes b * max low 1)) y))))

/-- the two consecutive loops share `b`: levels `b <= sel` run the first body, the later ones the second
    (`sel = pi_sqrty` in pi_lmo5, `min(pi_sqrty, max_b)` in pi_lmo_parallel) -/
def lmoLv (L : LmoEnv) (x y sel : Nat) (b low high : Nat) : Except Err (Option (List (Nat × Int))) :=
  if b ≤ sel then lmoLevel1 L x y low high b else lmoLevel2 L x y low high b

/-! ### pi_lmo_parallel.cpp -/

/-- `limit = min(low + segment_size * segments, z + 1)` (pi_lmo_parallel.cpp:65) -/
def lmoLimit (low segments segSize z : Nat) : Nat := min (low + segSize * segments) (z + 1)

/-- `S2_thread(x, y, z, c, pi, primes, lpf, mu, thread)` with `thread = (low, segments, segment_size)`
    (pi_lmo_parallel.cpp:49-146) -/
def lmoParThread {σ : Type} (S : SieveOps σ) (L : LmoEnv) (x y z c low segments segSize : Nat) : Except Err Int :=
  let limit := lmoLimit low segments segSize z
  -- pi_sqrty = pi[isqrt(y)]
  if L.e.piMax < isqrtN y then .error .oobPi else
  -- max_b = pi[min(isqrt(x / low1), y - 1)]   (`y = 0`: the index is -1)
  if y = 0 then .error .oobPi else
  if L.e.piMax < min (isqrtN (x / max low 1)) (y - 1) then .error .oobPi else
  let maxB := L.e.pi (min (isqrtN (x / max low 1)) (y - 1))
  -- min_b = pi[min(z / limit, primes[max_b])]; min_b = max(c, min_b) + 1
  if limit = 0 then .error .div0 else
  if L.e.primesSize ≤ maxB then .error .oobPrimes else
  if L.e.piMax < min (z / limit) (L.e.primes maxB) then .error .oobPi else
  let minB := max c (L.e.pi (min (z / limit) (L.e.primes maxB))) + 1
  if minB > maxB then .ok 0 else
  segLoop S (lmoLv L x y (min (L.e.pi (isqrtN y)) maxB)) L.e.primes minB maxB limit segSize limit low
    (S.create low segSize maxB) (L.e.phiVec low maxB) 0

open LB in
/-- the region `S2(x, y, z, c, s2_approx, primes, lpf, mu, threads, is_print)` (pi_lmo_parallel.cpp:166-214):
    `LoadBalancerS2 loadBalancer(x, z, s2_approx, threads, is_print)`, `PiTable pi(y, threads)`, the `while (get_work(thread))`
    loops of all workers as ONE recorded history, `return (int64_t) loadBalancer.get_sum()`.  `threads` = the team size after
    `min(threads, (int) pow(z, 1 / 3.7))` and `ideal_num_threads(z, threads, 1 << 20)` (a parameter). -/
def lmoParOpenMP {σ : Type} (S : SieveOps σ) (L : LmoEnv) (lc : Consts) (x y z c threads : Nat) (print : Bool)
    (es : List S2.Ev) : Except Err Int :=
  let cfg := S2.mkConfig lc z threads print
  match replay (fun low segs size => lmoParThread S L x y z c low segs size) cfg (S2.init lc x z threads print) es with
  | .error er => .error er
  | .ok s => if completeB cfg s then .ok s.sum else .error .badRun

/-! ### pi_lmo5.cpp -/

/-- file-local `S2(x, y, c, primes, lpf, mu, is_print)` of pi_lmo5.cpp:43-145: `limit = x / y`,
    `segment_size = Sieve::align_segment_size(isqrt(limit))`, ONE `Sieve sieve(0, segment_size, primes.size())`,
    `pi = generate_pi(y)`, `phi(primes.size())` all zero, `pi_sqrty = pi[isqrt(y)]`, `pi_y = pi[y]`,
    loops `b <= pi_sqrty` and `b < pi_y` starting at `b = c + 1` after `pre_sieve(primes, c, low, high)` -/
def s2Lmo5 {σ : Type} (S : SieveOps σ) (L : LmoEnv) (x y c : Nat) : Except Err Int :=
  if y = 0 then .error .div0 else
  let limit := x / y
  let segSize := Sieve.alignSegmentSize (isqrtN limit)
  if L.e.piMax < isqrtN y ∨ L.e.piMax < y then .error .oobPi else
  let piSqrty := L.e.pi (isqrtN y)
  let piY := L.e.pi y
  -- `b <= pi_sqrty` then `b < pi_y` (`b >= c + 1 >= 1`): the level loops end after `max(pi_sqrty, pi_y - 1)`
  segLoop S (lmoLv L x y piSqrty) L.e.primes (c + 1) (max piSqrty (piY - 1)) limit segSize limit 0
    (S.create 0 segSize L.e.primesSize) (Array.replicate L.e.primesSize 0) 0

/-! ### the two top-level functions -/

/-- unified error type: which callee reported what -/
inductive TErr where
  /-- `y = (int64_t)(x13 * alpha)`, `z = x / y` (ParamsL2) -/
  | params (e : PErr)
  /-- `P2(x, y, pi_y, threads)` -/
  | p2 (e : P2L.Err)
  /-- `S1(x, y, c, threads)` -/
  | s1 (e : LErr)
  /-- the file-local `S2` -/
  | s2 (e : Hard.Err)
deriving Repr

/-- what both top-level functions build or are handed: the sieve object, the tables as a function of `y`
    (`generate_primes(y)`, `generate_lpf(y)`, `generate_moebius(y)`, `generate_pi(y)` / `PiTable pi(y)`, `phi_vector`),
    `S1`'s own tables for `y`, and inside `P2`: the prime iterators and `pi_noprint` -/
structure Ctx (σ : Type) where
  S : SieveOps σ
  tabs : Nat → LmoEnv
  nt : Nat → NT
  lc : LB.Consts
  it : P2L.Iter
  piFn : Nat → Nat

/-- `pi_y = primes.size() - 1; p2 = P2(x, y, pi_y, threads); s1 = S1(x, y, c, threads, is_print)` (both files) -/
def lmoP2S1 {σ : Type} (C : Ctx σ) (x y c : Nat) (run : P2L.Run) (sched : List (List Nat)) : Except TErr (Int × Int) :=
  match P2L.p2OpenMP C.lc C.it C.piFn x y ((C.tabs y).e.primesSize - 1) run with
  | .error er => .error (.p2 er)
  | .ok p2 =>
    match s1OpenMP (C.nt y) .i64 x y c sched with
    | .error er => .error (.s1 er)
    | .ok s1 => .ok (p2, s1)

/-- `pi_lmo5(x, is_print)` (pi_lmo5.cpp:156-188); `v` = the truncated float product `x13 * alpha`, `run` = the execution of
    `P2`'s region (`threads = 1`), `sched` = the distribution of `S1`'s `omp for` -/
def piLmo5 {σ : Type} (C : Ctx σ) (x : Int) (v : Int) (run : P2L.Run) (sched : List (List Nat)) : Except TErr Int :=
  if x < 2 then .ok 0 else
  match lmoL2 x.toNat v with
  | .error er => .error (.params er)
  | .ok o =>
    match lmoP2S1 C x.toNat o.y.toNat o.c run sched with
    | .error er => .error er
    | .ok (p2, s1) =>
      match s2Lmo5 C.S (C.tabs o.y.toNat) x.toNat o.y.toNat o.c with
      | .error er => .error (.s2 er)
      | .ok s2 =>
        -- phi = s1 + s2; sum = phi + pi_y - 1 - p2
        .ok (s1 + s2 + (((C.tabs o.y.toNat).e.primesSize - 1 : Nat) : Int) - 1 - p2)

/-- `pi_lmo_parallel(x, threads, is_print)` (pi_lmo_parallel.cpp:225-259); `team`, `print`, `es` = the LoadBalancerS2 region -/
def piLmoParallel {σ : Type} (C : Ctx σ) (x : Int) (v : Int) (run : P2L.Run) (sched : List (List Nat))
    (team : Nat) (print : Bool) (es : List LB.S2.Ev) : Except TErr Int :=
  if x < 2 then .ok 0 else
  match lmoL2 x.toNat v with
  | .error er => .error (.params er)
  | .ok o =>
    match lmoP2S1 C x.toNat o.y.toNat o.c run sched with
    | .error er => .error er
    | .ok (p2, s1) =>
      match lmoParOpenMP C.S (C.tabs o.y.toNat) C.lc x.toNat o.y.toNat o.z.toNat o.c team print es with
      | .error er => .error (.s2 er)
      | .ok s2 =>
        .ok (s1 + s2 + (((C.tabs o.y.toNat).e.primesSize - 1 : Nat) : Int) - 1 - p2)

end Pc.TopLmo
