/-
C08 / C02 / C03 / C11 (wp-easy) — L2 models that MIRROR THE CONTROL FLOW of the easy special leaves of the
Deleglise-Rivat algorithm (core Lean only, executable):

* `clustered`, `sparse`, `easyLeaves`      src/deleglise-rivat/S2_easy.cpp:68-107 (the body of the parallel loop),
                                           src/deleglise-rivat/S2_easy_libdivide.cpp:43-93 (`S2_easy_64`), 95-145 (`S2_easy_128`)
* `s2EasyOpenMP`                           S2_easy.cpp:40-116 (`S2_easy_OpenMP`)
* `s2EasyLibdivide`                        S2_easy_libdivide.cpp:149-203 (`S2_easy_OpenMP` with the 64/128 dispatch per `b`)

(The Gourdon A + C formulas of src/gourdon/AC.cpp are in PcModel/EasyAC.lean.)

Parameters, tied elsewhere (exactly as in PcModel/LeafLoops.lean): the prime vector `generate_primes<P>(y)` and
`PiTable pi(y)` are read from a prime / π table `t : NT` (`primes[i] = t.p i` with `primes.size() = size`,
`pi[n] = t.piOf n` with the bound check `n ≤ max_x` of `PiTable::operator[]`); `isqrt`, `iroot<3>` are `isqrtN`,
`irootN 3` (C12).

What is mirrored, statement by statement: `xp = x / prime`, `min_trivial = min(xp / prime, y)`,
`min_clustered = in_between(prime, isqrt(xp), y)`, `min_sparse = in_between(prime, z / prime, y)`, the three `pi[·]` reads,
the `while (l > pi_min_clustered)` loop (two divisions, two `pi[·]` reads, the read `primes[pi_xpq + 1]`,
`sum += phi_xpq * (l - lmin)`, `l = lmin` — NOTE: the pinned tree has NO `max(·, pi_min_clustered)` clamp on `lmin` in
S2_easy*.cpp; `C2` of AC.cpp has one), the `for (; l > pi_min_sparse; l--)` loop, the atomic loop counter
`for (b = min_b++; b <= pi_x13; b = min_b++)` inside `#pragma omp parallel reduction(+: sum)` (any distribution of the
iterations `max(c, pi_sqrty) + 1 … pi_x13` over the team: `IsSchedule`).

Explicit failures, never defaults (`EErr`): a vector read beyond `size` (`oobPrimes`), a `PiTable` read beyond `max_x`
(`oobPi`, an `ASSERT`), division by zero, the x86 `div` of `fast_div64` with a quotient that does not fit 64 bits
(`divq`, #DE), a libdivide `branchfree_divider` used with a divisor `< 2` (`libdivide1`; libdivide documents that the
branchfree divider does not support 1), a narrowing cast that changes the value (`narrow`), the unsigned
`phi_xpq = pi_xpq - b + 2` of the libdivide kernels wrapping below zero (`unsignedWrap`), and a clustered step that does
not decrease `l` (`noProgress`: the real loop would not terminate / would run `l` upwards).
The additions into `sum` are exact integers (an overflow of the accumulator is not modelled).
-/
import PcModel.LeafLoops
import PcModel.ParamsL2
namespace Pc.Easy

/-- what the easy-leaf mirrors report instead of a value -/
inductive EErr where
  | overflow | narrow | oobPi | oobPrimes | oobSeg | div0 | divq | libdivide1 | unsignedWrap | noProgress
  | badChain
deriving DecidableEq, Repr

abbrev EM := Except EErr

def EErr.toString : EErr → String
  | .overflow => "TRAP:overflow" | .narrow => "TRAP:narrow" | .oobPi => "TRAP:oob" | .oobPrimes => "TRAP:oob-primes"
  | .oobSeg => "TRAP:oob-segment" | .div0 => "TRAP:div0" | .divq => "TRAP:divq" | .libdivide1 => "TRAP:libdivide1"
  | .unsignedWrap => "TRAP:unsigned-wrap" | .noProgress => "TRAP:no-progress" | .badChain => "ERR:bad-chain"

/-- the four instantiations of the per-`b` kernel -/
inductive Kern where
  /-- S2_easy.cpp with `T = uint64_t`: `fast_div64(uint64_t, uint32_t)` is a plain 64-bit division; signed `int64_t` locals -/
  | plain64
  /-- S2_easy.cpp with `T = uint128_t`: `fast_div64` is the x86 `div` instruction; signed `int64_t` locals -/
  | plain128
  /-- `S2_easy_64` of S2_easy_libdivide.cpp: `xp / primes[l]` through `libdivide::branchfree_divider<uint64_t>`; `uint64_t` locals -/
  | ld64
  /-- `S2_easy_128` of S2_easy_libdivide.cpp: `fast_div64` (`div` instruction); `uint64_t` locals -/
  | ld128
deriving DecidableEq, Repr

/-- the division primitive of a kernel: `fast_div64(xp, d)` resp. `xp / lprimes[i]` -/
def Kern.div : Kern → Nat → Nat → EM Nat
  | .plain64, x, d => if d = 0 then .error .div0 else .ok (x / d)
  | .ld64, x, d => if d < 2 then .error .libdivide1 else .ok (x / d)
  | _, x, d => if d = 0 then .error .div0 else
      match fastDiv64 x d with
      | some q => .ok q
      | none => .error .divq

/-- the kernels of the libdivide file keep `phi_xpq` (and everything else) in `uint64_t` -/
def Kern.unsigned : Kern → Bool
  | .ld64 => true | .ld128 => true | _ => false

/-- the type the local `min_clustered = (…) isqrt(xp)` is narrowed to -/
def Kern.localTy (k : Kern) : ITy := if k.unsigned then .u64 else .i64

/-- `primes[i]` on a vector with `primes.size() = size` -/
def primesGet (t : NT) (size i : Nat) : EM Nat := if i < size then .ok (t.p i) else .error .oobPrimes

/-- `pi[n]` on a `PiTable pi(maxX)` -/
def piGet (t : NT) (maxX n : Nat) : EM Nat := if n ≤ maxX then .ok (t.piOf n) else .error .oobPi

/-- `x / d` in the operand type -/
def divE (x d : Nat) : EM Nat := if d = 0 then .error .div0 else .ok (x / d)

/-- `(W) v` for a non-negative `v` -/
def narrowE (w : ITy) (v : Nat) : EM Nat := if v ≤ w.maxVal then .ok v else .error .narrow

/-- `in_between(min, x, max)` (include/imath.hpp) on non-negative values -/
def inBetweenN (lo x hi : Nat) : Nat := if x < lo ∨ hi < lo then lo else if x > hi then hi else x

/-- `phi_xpq = pi_xpq - b + 2`: exact in `int64_t`, an error when the `uint64_t` of the libdivide kernels would wrap -/
def phiXpq (k : Kern) (piXpq b : Nat) : EM Int :=
  if k.unsigned ∧ piXpq + 2 < b then .error .unsignedWrap else .ok ((piXpq : Int) - b + 2)

/-- the clustered easy leaves (S2_easy.cpp:87-96):

        while (l > pi_min_clustered) {
          int64_t xpq = fast_div64(xp, primes[l]);
          int64_t pi_xpq = pi[xpq];
          int64_t phi_xpq = pi_xpq - b + 2;
          int64_t xpq2 = fast_div64(xp, primes[pi_xpq + 1]);
          int64_t lmin = pi[xpq2];
          sum += phi_xpq * (l - lmin);
          l = lmin;
        }

    result: `(sum, l)` at loop exit.  (`S2_easy_128` reads `primes[b + phi_xpq - 1]`, the same index.) -/
def clustered (k : Kern) (t : NT) (size y xp b piMinCl : Nat) (l : Nat) (sum : Int) : EM (Int × Nat) :=
  if l > piMinCl then do
    let q ← primesGet t size l
    let xpq ← k.div xp q
    let piXpq ← piGet t y xpq
    let phi ← phiXpq k piXpq b
    let q2 ← primesGet t size (piXpq + 1)
    let xpq2 ← k.div xp q2
    let lmin ← piGet t y xpq2
    if _h : lmin < l then clustered k t size y xp b piMinCl lmin (sum + phi * ((l : Int) - lmin))
    else .error .noProgress
  else pure (sum, l)
termination_by l

/-- the sparse easy leaves (S2_easy.cpp:103-107):

        for (; l > pi_min_sparse; l--) {
          int64_t xpq = fast_div64(xp, primes[l]);
          sum += pi[xpq] - b + 2;
        }
-/
def sparse (k : Kern) (t : NT) (size y xp b piMinSp : Nat) : Nat → Int → EM Int
  | 0, sum => pure sum
  | l + 1, sum =>
    if l + 1 > piMinSp then do
      let q ← primesGet t size (l + 1)
      let xpq ← k.div xp q
      let v ← piGet t y xpq
      let phi ← phiXpq k v b
      sparse k t size y xp b piMinSp l (sum + phi)
    else pure sum

/-- one iteration `b` of the parallel loop of `S2_easy_OpenMP` (S2_easy.cpp:68-107) = `S2_easy_64` / `S2_easy_128`
    (S2_easy_libdivide.cpp) given `prime = primes[b]` and `xp = x / prime`: `(clustered part, sparse part)` -/
def easyKernel (k : Kern) (t : NT) (size y z b prime xp : Nat) : EM (Int × Int) := do
  let xpp ← divE xp prime
  let minTrivial := min xpp y                              -- min(xp / prime, y)
  let mc0 ← narrowE k.localTy (isqrtN xp)                  -- (int64_t) isqrt(xp)
  let ms0 ← divE z prime                                   -- z / prime
  let minClustered := inBetweenN prime mc0 y
  let minSparse := inBetweenN prime ms0 y
  let l ← piGet t y minTrivial
  let piMinCl ← piGet t y minClustered
  let piMinSp ← piGet t y minSparse
  let (sumC, l') ← clustered k t size y xp b piMinCl l 0
  let sumS ← sparse k t size y xp b piMinSp l' 0
  pure (sumC, sumS)

/-- S2_easy.cpp:68-70 followed by the kernel: `prime = primes[b]; xp = x / prime; …` -/
def easyLeaves (k : Kern) (t : NT) (size x y z b : Nat) : EM (Int × Int) := do
  let prime ← primesGet t size b
  let xp ← divE x prime
  easyKernel k t size y z b prime xp

/-! ### `#pragma omp parallel num_threads(threads) reduction(+: sum)` around an atomic loop counter -/

/-- one thread: private copy starts at 0, the iterations it fetched from the atomic counter run in its order -/
def threadRun (body : Nat → Int → EM Int) (its : List Nat) : EM Int := its.foldlM (fun acc b => body b acc) 0

/-- the region: every private copy is added to the original variable (`IsSchedule` of PcModel/LeafLoops.lean says
    what a distribution of the iterations is; every thread that finds `b > pi_x13` leaves its loop) -/
def reduceE (init : Int) (body : Nat → Int → EM Int) (sched : List (List Nat)) : EM Int :=
  sched.foldlM (fun s its => do let r ← threadRun body its; pure (s + r)) init

/-- the kernel S2_easy.cpp uses for the operand type `w` (`uint64_t` for the 64-bit entry point, else `uint128_t`) -/
def plainKern (w : ITy) : Kern := if w.bits ≤ 64 then .plain64 else .plain128

/-- `S2_easy_OpenMP(x, y, z, c, primes, threads, is_print)` of S2_easy.cpp (40-116): `primes = generate_primes(y)`,
    `PiTable pi(y)`, `sched` = which thread executed which `b ∈ [max(c, pi_sqrty) + 1, pi_x13]` -/
def s2EasyOpenMP (t : NT) (w : ITy) (x y z c : Nat) (sched : List (List Nat)) : EM Int := do
  let size := t.piOf y + 1
  let _piSqrty ← piGet t y (isqrtN y)
  let _piX13 ← piGet t y (irootN 3 x)
  reduceE 0 (fun b sum => do
    let (sc, ss) ← easyLeaves (plainKern w) t size x y z b
    pure (sum + (sc + ss))) sched

/-- the first and the last iteration of the parallel loop: `min_b = max(c, pi_sqrty) + 1`, `pi_x13` -/
def easyLo (t : NT) (y c : Nat) : Nat := max c (t.piOf (isqrtN y)) + 1
def easyHi (t : NT) (x : Nat) : Nat := t.piOf (irootN 3 x)

/-- one iteration of the parallel loop of S2_easy_libdivide.cpp (182-192): the kernel is chosen per `b` by
    `xp <= numeric_limits<uint64_t>::max()` -/
def easyLeavesLd (t : NT) (size x y z b : Nat) : EM (Int × Int) := do
  let prime ← primesGet t size b
  let xp ← divE x prime
  if xp ≤ ITy.u64.maxVal then easyKernel .ld64 t size y z b prime xp
  else easyKernel .ld128 t size y z b prime xp

/-- `S2_easy_OpenMP` of S2_easy_libdivide.cpp (149-203); the `lprimes[i] = primes[i]` initialisation constructs a
    `branchfree_divider` from every prime `primes[1 … size)` (each must be `≥ 2`) -/
def s2EasyLibdivide (t : NT) (x y z c : Nat) (sched : List (List Nat)) : EM Int := do
  let size := t.piOf y + 1
  if (List.range (size - 1)).any (fun i => t.p (i + 1) < 2) then throw .libdivide1
  let _piSqrty ← piGet t y (isqrtN y)
  let _piX13 ← piGet t y (irootN 3 x)
  reduceE 0 (fun b sum => do
    let (sc, ss) ← easyLeavesLd t size x y z b
    pure (sum + (sc + ss))) sched

/-- the distribution used by the driver: the atomic counter hands `b` to whichever thread asks next; the mirror runs
    the team round-robin (every distribution gives the same value: `s2_easy_threads_irrelevant`) -/
def easySched (lo hi nt : Nat) : List (List Nat) := staticSched1 lo hi (max nt 1)

end Pc.Easy
