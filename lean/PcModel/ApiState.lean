/-
L1/L2 model of primecount's process-global settings and of call histories (property C20), core Lean only.

The state σ is the set of ALL mutable objects with static storage duration of libprimecount and the bundled
primesieve; that set, the functions that write each component and the library-internal call sites of those
functions are GENERATED from the sources (translator/extract_globals.py → PcGen/GlobalsData.lean) and
`PcGen/GlobalsObl.lean` proves by `decide` that they equal `modelledGlobals`, `modelledWriters`,
`modelledSetterCalls` below.

Floats: `alpha_`, `alpha_y_`, `alpha_z_` hold either the sentinel -1 or `truncate3(alpha) = k / 1000.0` with
`k = (int64_t)(alpha * 1000)`. The two float-derived quantities of a setter call — `alpha < 1.0` and `k` — are
PARAMETERS (`AlphaArg`); the state stores `k`.
-/
import PcModel.Roots
namespace Pc

/-! ### what the translator must find in the sources -/

/-- (file, name) of every mutable object with static storage duration (libraries, not the CLI) -/
def modelledGlobals : List (String × String) := [
  ("lib/primesieve/src/api.cpp", "num_threads"),
  ("lib/primesieve/src/api.cpp", "sieve_size"),
  ("src/api.cpp", "threads_"),
  ("src/print.cpp", "print_"),
  ("src/print.cpp", "print_variables_"),
  ("src/util.cpp", "alpha_"),
  ("src/util.cpp", "alpha_y_"),
  ("src/util.cpp", "alpha_z_"),
  ("src/util.cpp", "status_precision_")
]

/-- (file, global, function): the only functions that write each component -/
def modelledWriters : List (String × String × String) := [
  ("lib/primesieve/src/api.cpp", "num_threads", "set_num_threads"),
  ("lib/primesieve/src/api.cpp", "sieve_size", "set_sieve_size"),
  ("src/api.cpp", "threads_", "set_num_threads"),
  ("src/print.cpp", "print_", "set_print"),
  ("src/print.cpp", "print_variables_", "set_print_variables"),
  ("src/util.cpp", "alpha_", "set_alpha"),
  ("src/util.cpp", "alpha_y_", "set_alpha_y"),
  ("src/util.cpp", "alpha_z_", "set_alpha_z"),
  ("src/util.cpp", "status_precision_", "set_status_precision")
]

/-- (file, caller, callee): the only calls of writer functions from library code — `primecount::set_num_threads`
    forwards to primesieve, the C wrapper forwards to `primecount::set_num_threads`. No computing function
    (pi, phi, nth_prime, …) calls a setter: computing calls do not write σ. -/
def modelledSetterCalls : List (String × String × String) := [
  ("src/api.cpp", "set_num_threads", "primesieve::set_num_threads"),
  ("src/api_c.cpp", "primecount_set_num_threads", "primecount::set_num_threads")
]

/-! ### the state -/

structure ApiState where
  /-- `threads_` (src/api.cpp): 0 = use the OpenMP default -/
  threads : Int := 0
  /-- primesieve's `num_threads`: 0 = hardware default -/
  psThreads : Int := 0
  /-- primesieve's `sieve_size`: 0 = from the cache sizes; never written through primecount's API -/
  psSieveSize : Int := 0
  /-- `status_precision_`: -1 = default -/
  statusPrecision : Int := -1
  /-- `alpha_`: none = -1 (computed at run time), some k = k / 1000.0 -/
  alpha : Option Int := none
  alphaY : Option Int := none
  alphaZ : Option Int := none
  /-- `print_` -/
  print : Bool := false
  /-- `print_variables_` -/
  printVariables : Bool := false
deriving Repr, DecidableEq

/-- state of a fresh process (the initialisers in the source) -/
def ApiState.init : ApiState := {}

/-- the machine: `omp_get_max_threads()` and `ParallelSieve::getMaxThreads()` (the latter is ≥ 1 by construction) -/
structure ApiHw where
  ompMax : Int
  psMax : Int
deriving Repr

/-- primesieve's `inBetween(min, x, max)` (no `max < min` guard) -/
def psInBetween (lo x hi : Int) : Int := if x < lo then lo else if x > hi then hi else x

/-- `primecount::set_num_threads(threads)`: `threads_ = in_between(1, threads, omp_get_max_threads());
    primesieve::set_num_threads(threads);` -/
def setThreads (hw : ApiHw) (σ : ApiState) (t : Int) : ApiState :=
  { σ with threads := inBetween 1 t hw.ompMax, psThreads := psInBetween 1 t hw.psMax }

/-- `primecount::get_num_threads()`: `threads_ ? threads_ : max(1, omp_get_max_threads())` -/
def getThreads (hw : ApiHw) (σ : ApiState) : Int :=
  if σ.threads ≠ 0 then σ.threads else max 1 hw.ompMax

/-- `primesieve::get_num_threads()` -/
def getPsThreads (hw : ApiHw) (σ : ApiState) : Int :=
  if σ.psThreads ≠ 0 then σ.psThreads else hw.psMax

/-- the float-derived part of a `set_alpha*` argument -/
structure AlphaArg where
  /-- `alpha < 1.0` -/
  lt1 : Bool
  /-- `(int64_t)(alpha * 1000)` -/
  k : Int
deriving Repr, DecidableEq

/-- `if (alpha < 1.0) alpha_ = -1; else alpha_ = truncate3(alpha);` -/
def alphaOf (a : AlphaArg) : Option Int := if a.lt1 then none else some a.k

def setAlpha (σ : ApiState) (a : AlphaArg) : ApiState := { σ with alpha := alphaOf a }
def setAlphaY (σ : ApiState) (a : AlphaArg) : ApiState := { σ with alphaY := alphaOf a }
def setAlphaZ (σ : ApiState) (a : AlphaArg) : ApiState := { σ with alphaZ := alphaOf a }

/-- `status_precision_ = in_between(0, precision, 5)` -/
def setStatusPrecision (σ : ApiState) (p : Int) : ApiState := { σ with statusPrecision := inBetween 0 p 5 }

/-- `get_status_precision(x)`; `cls` = 2 if `(double) x ≥ 1e23`, 1 if `≥ 1e21`, else 0 -/
def getStatusPrecision (σ : ApiState) (cls : Int) : Int :=
  if σ.statusPrecision < 0 ∧ cls ≥ 1 then cls else max σ.statusPrecision 0

def setPrint (σ : ApiState) (b : Bool) : ApiState := { σ with print := b }
def setPrintVariables (σ : ApiState) (b : Bool) : ApiState := { σ with printVariables := b }
/-- `is_print_combined_result()` -/
def isPrintCombinedResult (σ : ApiState) : Bool := !σ.printVariables

/-! ### calls -/

/-- calls that compute a number -/
inductive ApiCompute where
  | pi (x : Int)                 -- primecount::pi(int64_t)
  | piStr (x : List Nat)         -- primecount::pi(const std::string&), bytes of the argument
  | phi (x a : Int)              -- primecount::phi(x, a)
  | nthPrime (n : Int)           -- primecount::nth_prime(n)
deriving Repr, DecidableEq

/-- calls that read or write the settings -/
inductive ApiSetting where
  | setThreads (t : Int) | getThreads | getPsThreads
  | setAlpha (a : AlphaArg) | setAlphaY (a : AlphaArg) | setAlphaZ (a : AlphaArg) | getAlphas
  | setPrint (b : Bool) | setPrintVariables (b : Bool) | getPrint
  | setStatusPrecision (p : Int) | getStatusPrecision
deriving Repr, DecidableEq

inductive ApiOp where
  | compute (c : ApiCompute)
  | setting (s : ApiSetting)
deriving Repr, DecidableEq

/-- results -/
inductive ApiValue where
  | int (v : Int)
  | str (s : String)             -- decimal digits returned by pi(std::string)
  | err                          -- the call threw
  | unit                         -- void
  | ints (l : List (Option Int)) -- an observation of several settings
deriving Repr, DecidableEq

/-- what a computing call reads from σ: the effective thread count, the tuning overrides, the print switches -/
structure ApiConfig where
  threads : Int
  alpha : Option Int
  alphaY : Option Int
  alphaZ : Option Int
  print : Bool
  printVariables : Bool
  statusPrecision : Int
deriving Repr, DecidableEq

def ApiState.config (hw : ApiHw) (σ : ApiState) : ApiConfig :=
  ⟨getThreads hw σ, σ.alpha, σ.alphaY, σ.alphaZ, σ.print, σ.printVariables, σ.statusPrecision⟩

/-- The computing functions as the code runs them: under a configuration. (The real algorithms read the
    thread count, alpha overrides and print mode; that their VALUE does not depend on them is the business of
    C01/C03/C04/C06/C07 and enters C20 as the named hypothesis `AlgConfigIndependent`.) -/
structure ApiAlgorithms where
  run : ApiConfig → ApiCompute → ApiValue

/-- one settings call -/
def apiStepSetting (hw : ApiHw) (σ : ApiState) : ApiSetting → ApiState × ApiValue
  | .setThreads t => (setThreads hw σ t, .unit)
  | .getThreads => (σ, .int (getThreads hw σ))
  | .getPsThreads => (σ, .int (getPsThreads hw σ))
  | .setAlpha a => (setAlpha σ a, .unit)
  | .setAlphaY a => (setAlphaY σ a, .unit)
  | .setAlphaZ a => (setAlphaZ σ a, .unit)
  | .getAlphas => (σ, .ints [σ.alpha, σ.alphaY, σ.alphaZ])
  | .setPrint b => (setPrint σ b, .unit)
  | .setPrintVariables b => (setPrintVariables σ b, .unit)
  | .getPrint => (σ, .ints [some (if σ.print then 1 else 0), some (if isPrintCombinedResult σ then 1 else 0)])
  | .setStatusPrecision p => (setStatusPrecision σ p, .unit)
  | .getStatusPrecision =>
      (σ, .ints [some (getStatusPrecision σ 0), some (getStatusPrecision σ 1), some (getStatusPrecision σ 2)])

/-- one call: computing calls read the configuration and leave σ alone (no writer of σ is reachable from
    them: `modelledSetterCalls`) -/
def apiStep (hw : ApiHw) (alg : ApiAlgorithms) (σ : ApiState) : ApiOp → ApiState × ApiValue
  | .compute c => (σ, alg.run (σ.config hw) c)
  | .setting s => apiStepSetting hw σ s

/-- a call history in one process: all results, in order -/
def runHistory (hw : ApiHw) (alg : ApiAlgorithms) : ApiState → List ApiOp → List ApiValue
  | _, [] => []
  | σ, op :: ops => let r := apiStep hw alg σ op; r.2 :: runHistory hw alg r.1 ops

/-- state after a history -/
def apiStateAfter (hw : ApiHw) (alg : ApiAlgorithms) : ApiState → List ApiOp → ApiState
  | σ, [] => σ
  | σ, op :: ops => apiStateAfter hw alg (apiStep hw alg σ op).1 ops

/-! ### the command-line program (src/app/main.cpp + CmdOptions.cpp), default option `primecount x [opts]` -/

inductive CliOpt where
  | status (precision : Option Int)   -- -s[N] / --status[=N]: set_print(true); time = true; set_status_precision(N)
  | time                              -- --time
  | threads (t : Int)                 -- -t N / --threads=N
  | alpha (a : AlphaArg) | alphaY (a : AlphaArg) | alphaZ (a : AlphaArg)
deriving Repr, DecidableEq

/-- effect of one option on (σ, opts.time), in argv order -/
def cliOption (hw : ApiHw) (st : ApiState × Bool) : CliOpt → ApiState × Bool
  | .status none => (setPrint st.1 true, true)
  | .status (some p) => (setStatusPrecision (setPrint st.1 true) p, true)
  | .time => (st.1, true)
  | .threads t => (setThreads hw st.1 t, st.2)
  | .alpha a => (setAlpha st.1 a, st.2)
  | .alphaY a => (setAlphaY st.1 a, st.2)
  | .alphaZ a => (setAlphaZ st.1 a, st.2)

structure CliOutput where
  /-- the line `std::cout << res << std::endl` (present iff `is_print_combined_result()`) -/
  number : Option ApiValue
  /-- a `Seconds:` line follows -/
  seconds : Bool
deriving Repr, DecidableEq

/-- a CLI run = fresh σ₀, options applied in argv order, `res = pi(x, get_num_threads())`, then the result line -/
def cliRun (hw : ApiHw) (alg : ApiAlgorithms) (opts : List CliOpt) (x : List Nat) : CliOutput :=
  let st := opts.foldl (cliOption hw) (ApiState.init, false)
  let res := alg.run (st.1.config hw) (.piStr x)
  if isPrintCombinedResult st.1 then ⟨some res, st.2⟩ else ⟨none, false⟩

end Pc
