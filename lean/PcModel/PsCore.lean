/-
C18 (core half): bit-exact L2 model of the sieving core of the bundled primesieve (lib/primesieve):
`Erat` (Erat.cpp / Erat.hpp), `Wheel::addSievingPrime` (Wheel.hpp), `EratSmall` / `EratMedium` / `EratBig`
(+ `SievingPrime` packing of Bucket.hpp), `PreSieve::preSieve`, `SievingPrimes`, the segment loop shared by
`CountPrintPrimes::sieve` and `PrimeGenerator::sieveSegment`, prime extraction from the sieve words
(`Erat::nextPrime` + `bitValues`) and counting (`popcount`).  Core Lean only.

* the sieve array is an `Array Nat` of bytes (as in PcModel/Sieve.lean); bit `i` of byte `k` of a segment with
  `segmentLow_ = L` stands for `L + 30·k + {7,11,13,17,19,23,29,31}[i]`.
* all tables (`case` lines of the two `switch`es, the unrolled loops, `wheel210`, `wheel30Init`, `wheel210Init`,
  `wheelOffsets_`, `unsetSmaller/Larger`, `primeBits`, the 16 pre-sieve buffers, `bitValues`, `smallPrimes`,
  `primePi`, the config factors) come from the GENERATED `PcGen/PsWheelData.lean` / `PsPreSieveData.lean`.
* what is abstracted: memory management (`MemoryPool`, `Bucket` linked lists: a bucket list is an `Array`);
  EratMedium's 64 lists sorted by wheel index and the order inside EratBig's bucket lists (clearing bits commutes:
  the model keeps insertion order); the SIMD variants of `presieve1/2` and `fillNextPrimes` (same function, C15-style
  dispatch); `isqrt` = `Nat.sqrt` (its float estimate + correction loops are C12's subject);
  the raw L1 cache size reported by `CpuInfo` is a parameter (`l1raw`).
* what is kept: EratBig's scheduling by segment index (`buckets_[segment]`, the `while (buckets_[0])` loop, the
  rotation), EratSmall's L1-sized blocks, the 23+9 bit packing, uint64 wrap of `prime * quotient`, `checkedAdd`.
-/
import PcModel.Sieve
import PcModel.PsWheelSpec
import PcGen.PsWheelData
import PcGen.PsPreSieveData

namespace Pc.PsCore
open Pc.Sieve (Bytes clearBit word64 popCount64)
open Pc.PsWheelSpec (byteOfNat)

def U64 : Nat := 2 ^ 64
def u64Max : Nat := 2 ^ 64 - 1

/-- `checkedAdd` (pmath.hpp) -/
def checkedAdd (x y : Nat) : Nat := if x ≥ u64Max - y then u64Max else x + y

/-- `Erat::byteRemainder` : `n % 30` in the classes 7..36 (`n ≥ 7`) -/
def byteRemainder (n : Nat) : Nat := (n - 7) % 30 + 7

/-- `ceilDiv(x, 8) * 8` -/
def ceil8 (x : Nat) : Nat := (x + 7) / 8 * 8

/-- `inBetween(min, x, max)` -/
def inBetween (lo x hi : Nat) : Nat := if x < lo then lo else if x > hi then hi else x

/-- `floorPow2` -/
def floorPow2 (x : Nat) : Nat := if x == 0 then 0 else 2 ^ Nat.log2 x

/-- `isqrt` (pmath.hpp) -/
def isqrt (x : Nat) : Nat := Nat.sqrt x

/-- a `config::FACTOR_*` double constant from its generated decimal digits -/
def factorOf (d : Nat × Nat × Nat) : Float := Float.ofScientific (d.1 * 10 ^ d.2.2 + d.2.1) true d.2.2

/-- `(uint64_t) (x * factor)` for `x < 2^53` -/
def mulFactor (x : Nat) (d : Nat × Nat × Nat) : Nat := (x.toFloat * factorOf d).toUInt64.toNat

/-! ### `SievingPrime` (Bucket.hpp): `indexes_ = multipleIndex | (wheelIndex << 23)` in 32 bits -/

structure SPrime where
  /-- `sievingPrime_` = prime / 30 -/
  sp : Nat
  /-- `indexes_` -/
  idx : Nat
deriving Repr, DecidableEq, Inhabited

def packShift : Nat := Gen.psPackBits.1
def packWidth : Nat := Gen.psPackBits.2

/-- `SievingPrime::set(sievingPrime, multipleIndex, wheelIndex)` -/
def SPrime.set (sp mi wi : Nat) : SPrime := ⟨sp % 2 ^ 32, (mi ||| (wi <<< packShift)) % 2 ^ packWidth⟩
/-- `getMultipleIndex()` -/
def SPrime.mi (p : SPrime) : Nat := p.idx &&& (2 ^ packShift - 1)
/-- `getWheelIndex()` -/
def SPrime.wi (p : SPrime) : Nat := p.idx >>> packShift

/-! ### `Wheel<MODULO, SIZE, MAXMULTIPLEFACTOR, INIT>::addSievingPrime` -/

structure WheelCfg where
  modulo : Nat
  size : Nat
  maxFactor : Nat
  init : List (Nat × Nat)

def wheel30 : WheelCfg := ⟨Gen.psWheel30Params.1, Gen.psWheel30Params.2.1, Gen.psWheel30Params.2.2, Gen.psWheel30Init⟩
def wheel210 : WheelCfg := ⟨Gen.psWheel210Params.1, Gen.psWheel210Params.2.1, Gen.psWheel210Params.2.2, Gen.psWheel210Init⟩

/-- `wheelOffsets_[r]` for a wheel with `SIZE = size` -/
def wheelOffset (size r : Nat) : Nat :=
  match Gen.psWheelOffsetsPattern.getD r none with
  | some k => size * k
  | none => 0

/-- the computation of `Wheel::addSievingPrime(prime, segmentLow)` up to the call of `storeSievingPrime`:
    `some (multipleIndex, wheelIndex)`, or `none` when the prime is not needed (one of the two early `return`s);
    `stop` = `Wheel::stop_` (0 while the Erat* object is not initialised) -/
def wheelAdd (w : WheelCfg) (stop prime segmentLow : Nat) : Option (Nat × Nat) :=
  let segLow := segmentLow + 6
  let quotient := max prime (segLow / prime + 1)
  let multiple := (prime * quotient) % U64
  if multiple > stop || multiple < segLow then none else
  let e := w.init.getD (quotient % w.modulo) (0, 0)
  let nextMultiple := prime * e.1
  if nextMultiple > stop - multiple then none else
  let multiple := multiple + nextMultiple
  some ((multiple - segLow) / 30, wheelOffset w.size (prime % 30) + e.2)

/-! ### the modulo 30 `switch` of EratSmall / EratMedium -/

/-- one round of an unrolled loop of EratSmall: the 8 statements `sieve[i + sievingPrime * k + c] &= BIT<bit>;` -/
def fastRound (P base : Nat) (body : List (Nat × Nat × Nat)) (m : Nat) (s : Bytes) : Bytes :=
  body.foldl (fun s e => s.modify (base + m + P * e.1 + e.2.1) (clearBit · e.2.2)) s

/-- `for (; i < limit; i += sievingPrime * stepK + stepC) { … }` -/
def fastLoop (P base limit stepK stepC : Nat) (body : List (Nat × Nat × Nat)) : Nat → Nat → Bytes → Nat × Bytes
  | 0, m, s => (m, s)
  | fuel + 1, m, s =>
    if m < limit then fastLoop P base limit stepK stepC body fuel (m + P * stepK + stepC) (fastRound P base body m s)
    else (m, s)

/-- the block in front of `case 8g:` of `EratSmall::crossOff` -/
def fastBlock (P base size g m : Nat) (s : Bytes) : Nat × Bytes :=
  let h := Gen.psSmallFastHead.getD g (0, 0, 0, 0)
  let maxOffset := P * h.1 + h.2.1
  let limit := max size maxOffset - maxOffset
  fastLoop P base limit h.2.2.1 h.2.2.2 (Gen.psSmallFastBody.getD g []) (size + 1) m s

/-- the `switch (wheelIndex)` of EratSmall (`fast = true`, table `psSmallTab`) / EratMedium (`fast = false`, table
    `psMediumTab`) on the block `sieve[base .. base + size)`, entered at case `idx` with `i = m`;
    result `(i − sieveSize, wheelIndex, sieve)` at the `CHECK_FINISHED` that fires -/
def crossLoop (tab : List (Nat × Nat × Nat × Nat)) (fast : Bool) (P base size : Nat) :
    Nat → Nat → Nat → Bytes → Nat × Nat × Bytes
  | 0, m, idx, s => (m, idx, s)
  | fuel + 1, m, idx, s =>
    let ms := if fast && idx % 8 == 0 then fastBlock P base size (idx / 8) m s else (m, s)
    let m := ms.1
    let s := ms.2
    if m ≥ size then (m - size, idx, s)
    else
      let e := tab.getD idx (0, 0, 0, 0)
      crossLoop tab fast P base size fuel (m + P * e.2.1 + e.2.2.1) e.2.2.2 (s.modify (base + m) (clearBit · e.1))

/-- enough fuel: every step advances `i` by at least … 0 only for `P = 0` (never: sieving primes are > 163), and
    8 steps advance it by at least 1 even then -/
def crossFuel (size m : Nat) : Nat := 8 * (size - m) + 16

/-- one sieving prime on one block -/
def crossPrime (tab : List (Nat × Nat × Nat × Nat)) (fast : Bool) (base size : Nat) (p : SPrime) (s : Bytes) :
    SPrime × Bytes :=
  let r := crossLoop tab fast p.sp base size (crossFuel size p.mi) p.mi p.wi s
  (SPrime.set p.sp r.1 r.2.1, r.2.2)

/-- all sieving primes of a list on one block (`for (auto& prime : primes_)`) -/
def crossBlock (tab : List (Nat × Nat × Nat × Nat)) (fast : Bool) (base size : Nat) (ps : Array SPrime) (s : Bytes) :
    Array SPrime × Bytes :=
  ps.foldl (fun acc p => let r := crossPrime tab fast base size p acc.2; (acc.1.push r.1, r.2)) (#[], s)

/-- `EratSmall::crossOff(Vector<uint8_t>&)`: blocks of `l1CacheSize_` bytes -/
def smallCrossOff (l1 : Nat) : Nat → Nat → Array SPrime → Bytes → Array SPrime × Bytes
  | 0, _, ps, s => (ps, s)
  | fuel + 1, i, ps, s =>
    if i < s.size then
      let r := crossBlock Gen.psSmallTab true i (min l1 (s.size - i)) ps s
      smallCrossOff l1 fuel (i + l1) r.1 r.2
    else (ps, s)

/-- `EratMedium::crossOff`: every stored prime once over the whole array -/
def mediumCrossOff (ps : Array SPrime) (s : Bytes) : Array SPrime × Bytes :=
  crossBlock Gen.psMediumTab false 0 s.size ps s

/-! ### EratBig: one multiple per visit, scheduled by segment -/

abbrev Buckets := Array (Array SPrime)

/-- the body of the loop of `EratBig::crossOff(uint8_t*, SievingPrime*, SievingPrime*)` for one sieving prime:
    clear the bit, advance through `wheel210`, target bucket list `segment`, new packed state -/
def bigStep (log2 : Nat) (p : SPrime) (s : Bytes) : Nat × SPrime × Bytes :=
  let e := Gen.psWheel210.getD p.wi (0, 0, 0, 0)
  let s := s.modify p.mi (clearBit · e.1)
  let mi := p.mi + e.2.1 * p.sp + e.2.2.1
  (mi >>> log2, SPrime.set p.sp (mi &&& (2 ^ log2 - 1)) e.2.2.2, s)

/-- all sieving primes of one detached bucket list -/
def bigPass (log2 : Nat) (l : Array SPrime) (b : Buckets) (s : Bytes) : Buckets × Bytes :=
  l.foldl (fun acc p => let r := bigStep log2 p acc.2; (acc.1.modify r.1 (·.push r.2.1), r.2.2)) (b, s)

/-- `while (buckets_[0]) { detach the list; process it }` -/
def bigLoop (log2 : Nat) : Nat → Buckets → Bytes → Buckets × Bytes
  | 0, b, s => (b, s)
  | fuel + 1, b, s =>
    let l := b.getD 0 #[]
    if l.isEmpty then (b, s)
    else
      let r := bigPass log2 l (b.set! 0 #[]) s
      bigLoop log2 fuel r.1 r.2

/-- `EratBig::crossOff(Vector<uint8_t>&)` incl. the rotation of the bucket lists -/
def bigCrossOff (log2 : Nat) (b : Buckets) (s : Bytes) : Buckets × Bytes :=
  let r := bigLoop log2 (s.size + 1) b s
  ((r.1.extract 1 r.1.size).push (r.1.getD 0 #[]), r.2)

/-- `EratBig::storeSievingPrime` -/
def bigStore (log2 : Nat) (b : Buckets) (prime mi wi : Nat) : Buckets :=
  let sieveSize := 2 ^ log2
  let sp := prime / 30
  let maxNextMultiple := sp * wheel210.maxFactor + wheel210.maxFactor
  let newSize := ((sieveSize - 1 + maxNextMultiple) >>> log2) + 1
  let b := b ++ Array.replicate (newSize - b.size) (#[] : Array SPrime)
  b.modify (mi >>> log2) (·.push (SPrime.set sp (mi &&& (sieveSize - 1)) wi))

/-! ### `PreSieve::preSieve` -/

/-- buffer `k` as bytes: entry `j` is byte `j` of the generated little-endian number (the unit argument keeps the big
    literals out of the start-up code of the driver) -/
def preTabBytes (u : Unit) (k : Nat) : Bytes :=
  let t := (Gen.psPreTabs u).getD k (0, 0, [])
  (Array.range t.2.1).map (byteOfNat t.1)

/-- the 16 buffers -/
def preTabsDecoded (u : Unit) : Array Bytes := (Array.range (Gen.psPreTabs u).length).map (preTabBytes u)

/-- `presieve1` (store, `andOld = false`) / `presieve2` (AND into the sieve, `andOld = true`) over `n` bytes -/
def preKernel (andOld : Bool) (t0 t1 t2 t3 : Bytes) (p0 p1 p2 p3 off : Nat) : Nat → Nat → Bytes → Bytes
  | 0, _, s => s
  | n + 1, i, s =>
    let v := t0.getD (p0 + i) 0 &&& t1.getD (p1 + i) 0 &&& t2.getD (p2 + i) 0 &&& t3.getD (p3 + i) 0
    let v := if andOld then v &&& s.getD (off + i) 0 else v
    preKernel andOld t0 t1 t2 t3 p0 p1 p2 p3 off n (i + 1) (s.setIfInBounds (off + i) v)

/-- the `while (offset < sieve.size())` loop of one group of four buffers -/
def preLoop (andOld : Bool) (t0 t1 t2 t3 : Bytes) : Nat → Nat → Nat → Nat → Nat → Nat → Bytes → Bytes
  | 0, _, _, _, _, _, s => s
  | fuel + 1, off, p0, p1, p2, p3, s =>
    if off < s.size then
      let n := min (min (min (min (s.size - off) (t0.size - p0)) (t1.size - p1)) (t2.size - p2)) (t3.size - p3)
      let s' := preKernel andOld t0 t1 t2 t3 p0 p1 p2 p3 off n 0 s
      -- pos = (pos + bytesToCopy) * (pos < size)
      let nx := fun (p : Nat) (t : Bytes) => if p < t.size then p + n else 0
      preLoop andOld t0 t1 t2 t3 fuel (off + n) (nx p0 t0) (nx p1 t1) (nx p2 t2) (nx p3 t3) s'
    else s

/-- one group `i, i+1, i+2, i+3` of buffers -/
def preGroup (tabs : Array Bytes) (andOld : Bool) (i segmentLow : Nat) (s : Bytes) : Bytes :=
  let t := fun k => tabs.getD (i + k) #[]
  let pos := fun k => (segmentLow % ((t k).size * 30)) / 30
  preLoop andOld (t 0) (t 1) (t 2) (t 3) (2 * s.size + 16) 0 (pos 0) (pos 1) (pos 2) (pos 3) s

/-- `for (j = 0; i + j < primeBits.size(); j++) sieveArray[j] = primeBits[i + j];` -/
def restorePrimeBits (i : Nat) (s : Bytes) : Bytes :=
  (List.range (Gen.psPrimeBits.length - i)).foldl (fun s j => s.setIfInBounds j (Gen.psPrimeBits.getD (i + j) 0)) s

/-- `PreSieve::preSieve(sieve, segmentLow)` over the buffers `tabs` -/
def preSieve (tabs : Array Bytes) (s : Bytes) (segmentLow : Nat) : Bytes :=
  let s := preGroup tabs false 0 segmentLow s
  let s := (List.range ((tabs.size - 4 + 3) / 4)).foldl (fun s g => preGroup tabs true (4 + 4 * g) segmentLow s) s
  if segmentLow ≤ Gen.psPreSieveMaxPrime then restorePrimeBits (segmentLow / 30) s else s

/-! ### `class Erat` -/

structure Erat where
  start : Nat := 0
  stop : Nat := 0
  segmentLow : Nat := u64Max
  segmentHigh : Nat := 0
  sieve : Bytes := #[]
  maxEratSmall : Nat := 0
  maxEratMedium : Nat := 0
  /-- `eratSmall_.l1CacheSize_` -/
  l1 : Nat := 0
  /-- `eratBig_.log2SieveSize_` -/
  log2 : Nat := 0
  /-- `eratX_.init` has run (otherwise `eratX_.stop_ = 0`) -/
  smallInit : Bool := false
  mediumInit : Bool := false
  bigInit : Bool := false
  small : Array SPrime := #[]
  medium : Array SPrime := #[]
  big : Buckets := #[]
deriving Repr

/-- `Erat::getL1CacheSize()`; `l1raw` = `cpuInfo.l1CacheBytes()` -/
def getL1CacheSize (l1raw : Nat) : Nat :=
  if 2 ^ 12 ≤ l1raw ∧ l1raw ≤ 2 ^ 30 then l1raw else Gen.psL1Default

/-- `Erat::init(start, stop, maxSieveSize, memoryPool)` + `initAlgorithms`; `maxSieveSize` in KiB (16..8192) -/
def eratInit (l1raw start stop maxSieveSizeKiB : Nat) : Erat :=
  if start > stop ∨ start ≥ u64Max then {} else
  let maxSieveSize := maxSieveSizeKiB * 1024
  let sqrtStop := isqrt stop
  let l1 := inBetween (16 * 1024) (getL1CacheSize l1raw) (8192 * 1024)
  let l1 := ceil8 l1
  let maxSieveSize := ceil8 maxSieveSize
  let minSieveSize := min l1 maxSieveSize
  let sieveSize := mulFactor sqrtStop Gen.psFactorSievesize
  let sieveSize := if sieveSize > minSieveSize then sieveSize - sieveSize % minSieveSize else sieveSize
  let sieveSize := inBetween minSieveSize sieveSize maxSieveSize
  let sieveSize := inBetween (16 * 1024) sieveSize (8192 * 1024)
  let sieveSize := ceil8 sieveSize
  let minSieveSize := min l1 sieveSize
  let maxEratSmall := mulFactor minSieveSize Gen.psFactorEratsmall
  let maxEratMedium := mulFactor sieveSize Gen.psFactorEratmedium
  let big := sqrtStop > maxEratMedium
  let sieveSize := if big then floorPow2 sieveSize else sieveSize
  let minSieveSize := if big then min l1 sieveSize else minSieveSize
  let maxEratSmall := if big then mulFactor minSieveSize Gen.psFactorEratsmall else maxEratSmall
  let maxEratMedium := if big then mulFactor sieveSize Gen.psFactorEratmedium else maxEratMedium
  let maxEratSmall := min maxEratSmall sqrtStop
  let maxEratMedium := min maxEratMedium sqrtStop
  let rem := byteRemainder start
  let dist := sieveSize * 30 + 6
  let segmentLow := start - rem
  let segmentHigh := min (checkedAdd segmentLow dist) stop
  let sieveSize :=
    if segmentHigh ≥ stop ∧ sqrtStop ≤ maxEratMedium then
      ceil8 (((stop - byteRemainder stop) - segmentLow) / 30 + 1)
    else sieveSize
  { start := start, stop := stop, segmentLow := segmentLow, segmentHigh := segmentHigh,
    sieve := Array.replicate sieveSize 0,
    maxEratSmall := maxEratSmall, maxEratMedium := maxEratMedium, l1 := l1,
    log2 := Nat.log2 sieveSize,
    smallInit := sqrtStop > Gen.psPreSieveMaxPrime,
    mediumInit := sqrtStop > maxEratSmall,
    bigInit := sqrtStop > maxEratMedium }

/-- `Erat::hasNextSegment()` -/
def Erat.hasNextSegment (e : Erat) : Bool := e.segmentLow < e.stop

/-- `Erat::addSievingPrime(prime)`: dispatch by size class, `Wheel::addSievingPrime`, `storeSievingPrime` -/
def Erat.addSievingPrime (e : Erat) (prime : Nat) : Erat :=
  if prime > e.maxEratMedium then
    match wheelAdd wheel210 (if e.bigInit then e.stop else 0) prime e.segmentLow with
    | some (mi, wi) => { e with big := bigStore e.log2 e.big prime mi wi }
    | none => e
  else if prime > e.maxEratSmall then
    match wheelAdd wheel30 (if e.mediumInit then e.stop else 0) prime e.segmentLow with
    | some (mi, wi) => { e with medium := e.medium.push (SPrime.set (prime / 30) mi wi) }
    | none => e
  else
    match wheelAdd wheel30 (if e.smallInit then e.stop else 0) prime e.segmentLow with
    | some (mi, wi) => { e with small := e.small.push (SPrime.set (prime / 30) mi wi) }
    | none => e

/-- `Erat::preSieve()` -/
def Erat.preSieve (tabs : Array Bytes) (e : Erat) : Erat :=
  let s := PsCore.preSieve tabs e.sieve e.segmentLow
  let s := if e.segmentLow ≤ e.start then
      s.modify 0 (· &&& Gen.psUnsetSmaller.getD (byteRemainder e.start) 0) else s
  { e with sieve := s }

/-- `Erat::crossOff()` -/
def Erat.crossOff (e : Erat) : Erat :=
  let e := if e.small.isEmpty then e else
    let r := smallCrossOff e.l1 (e.sieve.size / e.l1 + 1) 0 e.small e.sieve
    { e with small := r.1, sieve := r.2 }
  let e := if e.medium.isEmpty then e else
    let r := mediumCrossOff e.medium e.sieve
    { e with medium := r.1, sieve := r.2 }
  if e.big.isEmpty then e else
    let r := bigCrossOff e.log2 e.big e.sieve
    { e with big := r.1, sieve := r.2 }

/-- `Erat::sieveLastSegment()`.  The bytes between `size()` and the next multiple of 8 (inside the capacity) are
    zeroed by the C++ code; the model drops them (every reader uses `getD _ 0`). -/
def Erat.sieveLastSegment (tabs : Array Bytes) (e : Erat) : Erat :=
  let rem := byteRemainder e.stop
  let dist := (e.stop - rem) - e.segmentLow
  let e := { e with sieve := e.sieve.extract 0 (dist / 30 + 1) }      -- sieve_.resize(dist / 30 + 1) (shrinks)
  let e := (e.preSieve tabs).crossOff
  let s := e.sieve.modify (e.sieve.size - 1) (· &&& Gen.psUnsetLarger.getD rem 0)
  { e with sieve := s, segmentLow := e.stop }

/-- `Erat::sieveSegment()` -/
def Erat.sieveSegment (tabs : Array Bytes) (e : Erat) : Erat :=
  if e.segmentHigh < e.stop then
    let e := (e.preSieve tabs).crossOff
    let dist := e.sieve.size * 30
    let lo := checkedAdd e.segmentLow dist
    let hi := min (checkedAdd e.segmentHigh dist) e.stop
    { e with segmentLow := lo, segmentHigh := hi }
  else e.sieveLastSegment tabs

/-! ### reading primes out of the sieve words (`Erat::nextPrime`, `bitValues`) -/

/-- the primes of one 64-bit word, in the order `bits &= bits - 1` visits them -/
def wordPrimes (bits low : Nat) : List Nat :=
  (List.range 64).filterMap fun i => if bits.testBit i then some (low + Gen.psBitValues.getD i 0) else none

/-- all words of a sieve array from byte `idx` on; `low` = number of byte `idx` -/
def sievePrimes (s : Bytes) : Nat → Nat → Nat → List Nat
  | 0, _, _ => []
  | fuel + 1, idx, low =>
    if idx < s.size then wordPrimes (word64 s (idx / 8)) low ++ sievePrimes s fuel (idx + 8) (low + 240) else []

/-- `CountPrintPrimes::countPrimes`: popcount over `ceilDiv(size, 8)` words -/
def sieveCount (s : Bytes) : Nat :=
  (List.range ((s.size + 7) / 8)).foldl (fun acc i => acc + popCount64 (word64 s i)) 0

/-! ### `class SievingPrimes` (an `Erat` over `[165, √stop]` whose own sieving primes come from `tinySieve_`) -/

structure SvP where
  e : Erat := {}
  /-- `primes_[0 .. size_)` -/
  buf : Array Nat := #[]
  /-- `i_` -/
  i : Nat := 0
  low : Nat := 0
  tinyIdx : Nat := 0
  sieveIdx : Nat := u64Max
  tiny : Array Bool := #[]
deriving Repr

/-- inner loop of `tinySieve`: `for (j = i * i; j <= n; j += i * 2) tinySieve_[j] = false;` -/
def tinyInner (n i : Nat) : Nat → Nat → Array Bool → Array Bool
  | 0, _, t => t
  | fuel + 1, j, t => if j ≤ n then tinyInner n i fuel (j + 2 * i) (t.setIfInBounds j false) else t

/-- `for (i = 3; i * i <= n; i += 2) if (tinySieve_[i]) …` -/
def tinyOuter (n : Nat) : Nat → Nat → Array Bool → Array Bool
  | 0, _, t => t
  | fuel + 1, i, t =>
    if i * i ≤ n then tinyOuter n fuel (i + 2) (if t.getD i false then tinyInner n i (n + 1) (i * i) t else t) else t

/-- `SievingPrimes::tinySieve()` -/
def tinySieve (stop : Nat) : Array Bool :=
  let n := isqrt stop
  tinyOuter n (n + 1) 3 (Array.replicate (n + 1) true)

/-- `SievingPrimes::init(erat, sieveSize, memoryPool)` -/
def svpInit (l1raw eratStop sieveSizeKiB : Nat) : SvP :=
  let start := Gen.psPreSieveMaxPrime + 2
  let stop := isqrt eratStop
  let e := eratInit l1raw start stop sieveSizeKiB
  { e := e, tinyIdx := start, low := e.segmentLow,
    tiny := if start * start ≤ stop then tinySieve e.stop else #[] }

/-- `for (uint64_t& i = tinyIdx_; i * i <= high; i += 2) if (tinySieve_[i]) addSievingPrime(i);` -/
def svpAddLoop (high : Nat) (tiny : Array Bool) : Nat → Nat → Erat → Nat × Erat
  | 0, i, e => (i, e)
  | fuel + 1, i, e =>
    if i * i ≤ high then svpAddLoop high tiny fuel (i + 2) (if tiny.getD i false then e.addSievingPrime i else e)
    else (i, e)

/-- `SievingPrimes::sieveSegment()` -/
def SvP.sieveSegment (tabs : Array Bytes) (v : SvP) : SvP × Bool :=
  if v.e.hasNextSegment then
    let r := svpAddLoop v.e.segmentHigh v.tiny (isqrt v.e.segmentHigh + 2) v.tinyIdx v.e
    ({ v with sieveIdx := 0, tinyIdx := r.1, e := r.2.sieveSegment tabs }, true)
  else ({ v with i := 0, buf := #[u64Max] }, false)

/-- the `do … while (num <= primes_.size() - 64 && sieveIdx_ < sieveSize)` loop of `fill()`
    (`primes_.size() = 128`); returns `(primes, low, sieveIdx)` -/
def svpFillLoop (s : Bytes) : Nat → Array Nat → Nat → Nat → Array Nat × Nat × Nat
  | 0, acc, low, idx => (acc, low, idx)
  | fuel + 1, acc, low, idx =>
    let acc := acc ++ (wordPrimes (word64 s (idx / 8)) low).toArray
    let low := low + 240
    let idx := idx + 8
    if acc.size ≤ 128 - 64 ∧ idx < s.size then svpFillLoop s fuel acc low idx else (acc, low, idx)

/-- `SievingPrimes::fill()` -/
def SvP.fill (tabs : Array Bytes) (v : SvP) : SvP :=
  let go := fun (v : SvP) =>
    let r := svpFillLoop v.e.sieve (v.e.sieve.size / 8 + 1) #[] v.low v.sieveIdx
    { v with buf := r.1, i := 0, low := r.2.1, sieveIdx := r.2.2 }
  if v.sieveIdx ≥ v.e.sieve.size then
    let r := v.sieveSegment tabs
    -- `low_` of SievingPrimes is only set in `init`; it stays in step with the segments because every segment is
    -- read to its end (8-byte steps) and `sieve_.size()` is a multiple of 8 except in the last segment
    if r.2 then go r.1 else r.1
  else go v

/-- `SievingPrimes::next()`: `while (i_ >= size_) fill(); return primes_[i_++];` -/
def SvP.next (tabs : Array Bytes) : Nat → SvP → Nat × SvP
  | 0, v => (u64Max, v)
  | fuel + 1, v =>
    if v.i ≥ v.buf.size then SvP.next tabs fuel (v.fill tabs)
    else (v.buf.getD v.i 0, { v with i := v.i + 1 })

/-- fuel for `next`: at most one `fill` per remaining segment word group, + 2 -/
def SvP.nextFuel (v : SvP) : Nat := (v.e.stop - min v.e.stop v.e.segmentLow) / 240 + v.e.sieve.size + 4

/-! ### the segment loop of `CountPrintPrimes::sieve` / `PrimeGenerator::sieveSegment` -/

structure Run where
  e : Erat
  v : SvP
  /-- `prime` / `prime_` (0 = not fetched yet) -/
  prime : Nat := 0
deriving Repr

/-- `PrimeGenerator::initErat` / the constructor of `CountPrintPrimes` followed by `SievingPrimes(this, …)` -/
def runInit (l1raw start stop sieveSizeKiB : Nat) : Run :=
  let e := eratInit l1raw start stop sieveSizeKiB
  { e := e, v := svpInit l1raw e.stop sieveSizeKiB }

/-- `while (prime_ <= sqrtHigh) { addSievingPrime(prime_); prime_ = sievingPrimes_.next(); }` -/
def addLoop (tabs : Array Bytes) (sqrtHigh : Nat) : Nat → Run → Run
  | 0, r => r
  | fuel + 1, r =>
    if r.prime ≤ sqrtHigh then
      let e := r.e.addSievingPrime r.prime
      let n := SvP.next tabs r.v.nextFuel r.v
      addLoop tabs sqrtHigh fuel { e := e, v := n.2, prime := n.1 }
    else r

/-- one segment: fetch the sieving primes `≤ √segmentHigh_`, sieve; returns `low_` and the sieve array -/
def Run.segment (tabs : Array Bytes) (r : Run) : Run × Nat × Bytes :=
  let sqrtHigh := isqrt r.e.segmentHigh
  let low := r.e.segmentLow
  let r := if r.prime == 0 then
      let n := SvP.next tabs r.v.nextFuel r.v
      { r with v := n.2, prime := n.1 } else r
  let r := addLoop tabs sqrtHigh (sqrtHigh + 2) r
  let r := { r with e := r.e.sieveSegment tabs }
  (r, low, r.e.sieve)

/-- all segments: `while (hasNextSegment()) …`; the list of `(low_, sieve)` -/
def runSegments (tabs : Array Bytes) : Nat → Run → List (Nat × Bytes)
  | 0, _ => []
  | fuel + 1, r =>
    if r.e.hasNextSegment then
      let x := r.segment tabs
      x.2 :: runSegments tabs fuel x.1
    else []

/-- number of segments of a run is at most this -/
def runFuel (start stop : Nat) : Nat := (stop - start) / (30 * 16384) + 3

/-- all `(low_, sieve)` of one sieve run over `[start, stop]` (`start ≥ 7`) -/
def sieveRun (tabs : Array Bytes) (l1raw start stop sieveSizeKiB : Nat) : List (Nat × Bytes) :=
  runSegments tabs (runFuel start stop) (runInit l1raw start stop sieveSizeKiB)

/-- the primes a run yields, in the order the words are read -/
def runPrimes (segs : List (Nat × Bytes)) : List Nat :=
  segs.flatMap fun x => sievePrimes x.2 (x.2.size / 8 + 1) 0 x.1

/-- `PrimeSieve::countPrimes(start, stop)` (single-threaded `PrimeSieve::sieve()` with COUNT_PRIMES):
    `processSmallPrimes` for 2, 3, 5 and `CountPrintPrimes` over `[max(start, 7), stop]` -/
def countPrimes (tabs : Array Bytes) (l1raw start stop sieveSizeKiB : Nat) : Nat :=
  if start > stop then 0 else
  let small := if start ≤ 5 then ([2, 3, 5].filter fun p => start ≤ p ∧ p ≤ stop).length else 0
  let big := if stop ≥ 7 then
      ((sieveRun tabs l1raw (max start 7) stop sieveSizeKiB).map fun x => sieveCount x.2).foldl (· + ·) 0 else 0
  small + big

/-- `PrimeGenerator(start, stop)` driven by `fillNextPrimes` until it reports the end: the `smallPrimes` prefix
    (`initNextPrimes`) followed by the sieve over `[max(start, 721), stop]` (`initErat`); the concatenation of all batches -/
def generatePrimes (tabs : Array Bytes) (l1raw start stop sieveSizeKiB : Nat) : List Nat :=
  let maxCached := Gen.psSmallPrimes.getLastD 0
  let pre := if start ≤ maxCached then
      let a := if start > 1 then Gen.psPrimePi.getD (start - 1) 0 else 0
      let b := if stop < maxCached then Gen.psPrimePi.getD stop 0 else Gen.psSmallPrimes.length
      (Gen.psSmallPrimes.drop a).take (b - a)
    else []
  let startErat := max (maxCached + 2) start
  let rest := if startErat ≤ stop ∧ startErat < u64Max then
      runPrimes (sieveRun tabs l1raw startErat stop sieveSizeKiB) else []
  pre ++ rest

end Pc.PsCore
