/-
L1 defining sums of the partial formulas (C08, DESIGN.md 5.1 / 6.8), executable and deliberately naive:
every term is written as the mathematical sum over primes / square-free numbers it is defined by, using
only a prime table and a π table built by the plain sieve of `PcModel/Oracle.lean`.

* LMO / Deleglise-Rivat: `P2`, `P3`, `S1`, `S2` (all special leaves), and the three leaf classes
  `S2_trivial`, `S2_easy`, `S2_hard` (z = x / y).
* Gourdon: `B`, `Phi0`, `Sigma` (Σ0..Σ6 with `xStar`), `A`, `C`, `D`.

Nothing here mirrors the optimised C++ control flow (segmentation, clustered leaves, wheel sieve …): these
are the reference values the real code is compared with in the C08/C02/C11/C04 streams.
-/
import PcModel.Oracle
import PcModel.Roots
namespace Pc

/-- prime table (1-based: `p 1 = 2`) and π table up to `bound` -/
structure NT where
  bound : Nat
  primes : Array Nat
  pi : Array Nat

def NT.build (n : Nat) : NT :=
  let ps := primesUpTo n
  { bound := n, primes := (#[0] ++ ps.toArray), pi := piTableArr n }

/-- i-th prime (0 if outside the table: callers size the table so that this never happens) -/
def NT.p (t : NT) (i : Nat) : Nat := t.primes.getD i 0
/-- π(n); a loud sentinel when the table is too small so that an undersized table can never look right -/
def NT.piOf (t : NT) (n : Nat) : Nat := if n ≤ t.bound then t.pi.getD n 0 else 10 ^ 60 + n
def NT.isPrime (t : NT) (n : Nat) : Bool := n ≥ 2 && n ≤ t.bound && t.piOf n != t.piOf (n - 1)
/-- primes q with lo < q ≤ hi -/
def NT.primesIn (t : NT) (lo hi : Nat) : List Nat :=
  (List.range (t.piOf hi - t.piOf lo)).map (fun j => t.p (t.piOf lo + 1 + j))

/-- a starting value near 2^(bits/n): the correction loops are correct from EVERY start (PcProofs.Roots),
    the start only matters for run time. A few Newton steps bring it within a handful of the root. -/
def rootEstimate (n x : Nat) : Nat :=
  if x < 2 ∨ n = 0 then x else
  let r0 := 2 ^ ((Nat.log2 x) / n + 1)
  let rec newton : Nat → Nat → Nat
    | 0, r => r
    | fuel + 1, r =>
      let r' := ((n - 1) * r + x / r ^ (n - 1)) / n
      if r' < r then newton fuel r' else r
  newton 200 r0

def isqrtN (x : Nat) : Nat := isqrtLoop x (rootEstimate 2 x)
def irootN (n x : Nat) : Nat := irootLoop n x (rootEstimate n x)

/-- φ(x, a) by the Legendre recurrence with the two standard cut-offs -/
def NT.phi (t : NT) : Nat → Nat → Nat → Nat
  | 0, x, _ => x
  | _, 0, _ => 0
  | fuel + 1, x, a =>
    if a = 0 then x
    else if t.p a ≥ x then 1
    else t.phi fuel x (a - 1) - t.phi fuel (x / t.p a) (a - 1)

def NT.phiOf (t : NT) (x a : Nat) : Nat := t.phi (a + 1) x a

/-- (μ n, least prime factor, greatest prime factor) by trial division; μ = 0 for non-square-free n -/
def factorInfo (n : Nat) : Int × Nat × Nat :=
  let rec go : Nat → Nat → Nat → Int → Nat → Nat → Int × Nat × Nat
    | 0, _, _, mu, lpf, gpf => (mu, lpf, gpf)
    | fuel + 1, m, d, mu, lpf, gpf =>
      if m ≤ 1 then (mu, lpf, gpf)
      else if d * d > m then (-mu, (if lpf = 0 then m else lpf), m)
      else if m % d = 0 then
        let m' := m / d
        if m' % d = 0 then (0, (if lpf = 0 then d else lpf), d)
        else go fuel m' (d + 1) (-mu) (if lpf = 0 then d else lpf) d
      else go fuel m (d + 1) mu lpf gpf
  if n = 0 then (0, 0, 0) else go (n + 2) n 2 1 0 0

def sumInt (l : List Int) : Int := l.foldl (· + ·) 0

/-- square-free m in (lo, hi] with all prime factors in (pmin, pmax], paired with μ(m); includes m = 1
    when lo < 1 -/
def sqfreeBetween (lo hi pmin pmax : Nat) : List (Nat × Int) :=
  (List.range (hi - lo)).filterMap fun j =>
    let m := lo + 1 + j
    if m = 1 then some (1, 1) else
    let (mu, lpf, gpf) := factorInfo m
    if mu ≠ 0 ∧ lpf > pmin ∧ gpf ≤ pmax then some (m, mu) else none

/-! ### LMO / Deleglise-Rivat -/

/-- P2(x, a) with a = π(y): Σ_{y < q ≤ √x} (π(x/q) − π(q) + 1) -/
def NT.P2 (t : NT) (x y : Nat) : Int :=
  sumInt ((t.primesIn y (isqrtN x)).map fun q => (t.piOf (x / q) : Int) - t.piOf q + 1)

/-- P3(x, a) with a = π(y), y ≤ x^(1/3): Σ_{y<p_i≤x^(1/3)} Σ_{p_i ≤ p_j ≤ √(x/p_i)} (π(x/(p_i p_j)) − (j−1)) -/
def NT.P3 (t : NT) (x y : Nat) : Int :=
  if y > irootN 3 x then 0 else
  sumInt ((t.primesIn y (irootN 3 x)).map fun q =>
    sumInt ((t.primesIn (q - 1) (isqrtN (x / q))).map fun r =>
      (t.piOf (x / q / r) : Int) - (t.piOf r - 1)))

/-- ordinary leaves: Σ_{n ≤ y square-free, lpf n > p_c} μ(n) φ(x/n, c) -/
def NT.S1 (t : NT) (x y c : Nat) : Int :=
  sumInt ((sqfreeBetween 0 y (t.p c) y).map fun (n, mu) => mu * (t.phiOf (x / n) c : Int))

/-- all special leaves: −Σ_{c<b≤π(y)} Σ_{y/p_b < m ≤ y, lpf m > p_b} μ(m) φ(x/(p_b m), b−1) -/
def NT.S2 (t : NT) (x y c : Nat) : Int :=
  - sumInt ((List.range (t.piOf y - c)).map fun j =>
      let b := c + 1 + j
      let q := t.p b
      sumInt ((sqfreeBetween (y / q) y q y).map fun (m, mu) => mu * (t.phiOf (x / (q * m)) (b - 1) : Int)))

/-- trivial leaves (q, l): q > max(p_c, √z), l prime, max(q, x/q²) < l ≤ y; each is worth 1 -/
def NT.S2trivial (t : NT) (x y z c : Nat) : Int :=
  sumInt ((t.primesIn (max (t.p c) (isqrtN z)) y).map fun q =>
    let lo := max q (x / (q * q))
    if lo < y then ((t.piOf y : Int) - t.piOf lo) else 0)

/-- easy leaves (b, l): max(c, π√y) < b ≤ π(x^(1/3)), l prime, max(q, z/q) < l ≤ min(x/q², y):
    worth π(x/(q l)) − b + 2 -/
def NT.S2easy (t : NT) (x y z c : Nat) : Int :=
  let b0 := max c (t.piOf (isqrtN y))
  sumInt ((List.range (t.piOf (irootN 3 x) - b0)).map fun j =>
    let b := b0 + 1 + j
    let q := t.p b
    let lo := min (max q (z / q)) y
    let hi := min (x / (q * q)) y
    sumInt ((t.primesIn lo hi).map fun l => (t.piOf (x / (q * l)) : Int) - b + 2))

/-- hard leaves: composite-m leaves for c < b ≤ π√y, and prime leaves (q, l) with q·l ≤ z for b > π√y -/
def NT.S2hard (t : NT) (x y z c : Nat) : Int :=
  let bs := t.piOf (isqrtN y)
  let part1 := - sumInt ((List.range (bs - c)).map fun j =>
      let b := c + 1 + j
      let q := t.p b
      sumInt ((sqfreeBetween (y / q) y q y).map fun (m, mu) => mu * (t.phiOf (x / (q * m)) (b - 1) : Int)))
  let b0 := max c bs
  let part2 := sumInt ((List.range (t.piOf y - b0)).map fun j =>
      let b := b0 + 1 + j
      let q := t.p b
      sumInt ((t.primesIn q (min y (z / q))).map fun l => (t.phiOf (x / (q * l)) (b - 1) : Int)))
  part1 + part2

/-! ### Gourdon -/

/-- `get_x_star_gourdon(x, y)` -/
def xStar (x y : Nat) : Nat :=
  let y := max y 1
  let xs := max (irootN 4 x) (ceilDiv x (y * y))
  max (min (min xs y) (isqrtN (x / y))) 1

/-- B(x, y) = Σ_{y < q ≤ √x} π(x/q) -/
def NT.B (t : NT) (x y : Nat) : Int :=
  sumInt ((t.primesIn y (isqrtN x)).map fun q => (t.piOf (x / q) : Int))

/-- Φ0(x, y, z, k) = Σ_{n ≤ z square-free, prime factors in (p_k, y]} μ(n) φ(x/n, k) -/
def NT.Phi0 (t : NT) (x y z k : Nat) : Int :=
  sumInt ((sqfreeBetween 0 z (t.p k) y).map fun (n, mu) => mu * (t.phiOf (x / n) k : Int))

def NT.Sigma (t : NT) (x y : Nat) : Int :=
  let xs := xStar x y
  let a : Int := t.piOf y
  let b : Int := t.piOf (irootN 3 x)
  let c : Int := t.piOf (isqrtN (x / y))
  let d : Int := t.piOf xs
  let ps : Int := t.piOf (isqrtN x)
  let s0 := a - 1 + (ps * (ps - 1)) / 2 - (a * (a - 1)) / 2
  let s1 := (a - b) * (a - b - 1) / 2
  let s2 := a * (b - c - (c * (c - 3)) / 2 + (d * (d - 3)) / 2)
  let s3 := (b * (b - 1) * (2 * b - 1)) / 6 - b - (d * (d - 1) * (2 * d - 1)) / 6 + d
  let qs := t.primesIn xs (irootN 3 x)
  let sxy := isqrtN (x / y)
  let s4 := a * sumInt ((qs.filter (· ≤ sxy)).map fun q => (t.piOf (x / (q * y)) : Int))
  let s5 := sumInt ((qs.filter (· > sxy)).map fun q => (t.piOf (x / (q * q)) : Int))
  let s6 := - sumInt (qs.map fun q => ((t.piOf (isqrtN (x / q)) : Int)) ^ 2)
  s0 + s1 + s2 + s3 + s4 + s5 + s6

/-- A = Σ_{x⋆ < q ≤ x^(1/3)} Σ_{q < r ≤ √(x/q)} χ · π(x/(q r)), χ = 1 if r ≤ (x/q)/y else 2 -/
def NT.A (t : NT) (x y : Nat) : Int :=
  let xs := xStar x y
  sumInt ((t.primesIn xs (irootN 3 x)).map fun q =>
    let xp := x / q
    sumInt ((t.primesIn q (isqrtN xp)).map fun r =>
      (if r ≤ xp / y then 1 else 2) * (t.piOf (xp / r) : Int)))

/-- the special leaves (q = p_b, m) of Gourdon's algorithm with k < b ≤ π(x⋆): m ≤ z < q·m, m square-free
    with all prime factors in (q, y] -/
def NT.gourdonLeaves (t : NT) (x y z k : Nat) : List (Nat × Nat × Nat × Int) :=
  let xs := xStar x y
  (List.range (t.piOf xs - k)).flatMap fun j =>
    let b := k + 1 + j
    let q := t.p b
    (sqfreeBetween (z / q) z q y).map fun (m, mu) => (b, q, m, mu)

/-- C: leaves with x/q³ < m ≤ x/q², worth −μ(m)(π(x/(q m)) − b + 2) -/
def NT.C (t : NT) (x y z k : Nat) : Int :=
  - sumInt ((t.gourdonLeaves x y z k).map fun (b, q, m, mu) =>
      if x / (q * q * q) < m ∧ m ≤ x / (q * q) then mu * ((t.piOf (x / (q * m)) : Int) - b + 2) else 0)

/-- D: leaves with m ≤ x/q³, worth −μ(m) φ(x/(q m), b−1) -/
def NT.D (t : NT) (x y z k : Nat) : Int :=
  - sumInt ((t.gourdonLeaves x y z k).map fun (b, q, m, mu) =>
      if m ≤ x / (q * q * q) then mu * (t.phiOf (x / (q * m)) (b - 1) : Int) else 0)

end Pc
