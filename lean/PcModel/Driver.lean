/-
Line-protocol driver (DESIGN.md 3.2): one op per line on stdin, one result per line on stdout.
-/
import PcModel.Drv.Roots
namespace Pc

def lookupOp (op : String) : Option (List String → String) :=
  (Drv.rootsOps op)

def stepLine (line : String) : String :=
  let l := line.trimAscii.toString
  if l.isEmpty || l.startsWith "#" then l else
  match l.splitOn " " |>.filter (· ≠ "") with
  | [] => l
  | op :: args => match lookupOp op with
    | some f => f args
    | none => "ERR:proto"

partial def driverLoop (h : IO.FS.Stream) (out : IO.FS.Stream) : IO Unit := do
  let line ← h.getLine
  if line.isEmpty then return ()
  out.putStrLn (stepLine line)
  driverLoop h out

def driverMain : IO Unit := do
  let out ← IO.getStdout
  driverLoop (← IO.getStdin) out
  out.flush

end Pc
