/-
Executable oracles (DESIGN.md 5.4), core Lean only. Correctness theorems live in PcProofs/Oracle.lean.
These are independent of primecount and primesieve: trial division and a plain sieve of Eratosthenes.
-/
import PcModel.Basic
namespace Pc

/-- `true` iff no `d` with `d0 ≤ d`, `d * d ≤ n` divides `n` (fuel-bounded scan) -/
def noDivisorFrom (n : Nat) : Nat → Nat → Bool
  | 0, _ => true
  | fuel + 1, d => if d * d > n then true else if n % d == 0 then false else noDivisorFrom n fuel (d + 1)

/-- primality by trial division -/
def isPrimeTD (n : Nat) : Bool := 2 ≤ n && noDivisorFrom n n 2

/-- all primes `≤ n`, increasing (trial division; fine up to ~10^6) -/
def primesUpToTD (n : Nat) : List Nat := (List.range (n + 1)).filter isPrimeTD

/-- π(n) by trial division -/
def piTD (n : Nat) : Nat := (primesUpToTD n).length

/-- cross off the multiples `j, j+p, ...` below `size` (fuel-bounded) -/
def crossOff (p : Nat) : Nat → Nat → Array Bool → Array Bool
  | 0, _, a => a
  | fuel + 1, j, a => if j < a.size then crossOff p fuel (j + p) (a.set! j false) else a

/-- sieve of Eratosthenes: `(sieveArr n)[i] = true` iff `i` is prime, for `i ≤ n` -/
def sieveArr (n : Nat) : Array Bool :=
  let a0 : Array Bool := (Array.replicate (n + 1) true).set! 0 false |>.set! 1 false
  let rec go : Nat → Nat → Array Bool → Array Bool
    | 0, _, a => a
    | fuel + 1, p, a =>
      if p * p > n then a
      else if a.getD p false then go fuel (p + 1) (crossOff p (n + 1) (p * p) a)
      else go fuel (p + 1) a
  go (n + 1) 2 a0

/-- prefix counts: `(piTableArr n)[i] = π(i)` for `i ≤ n` -/
def piTableArr (n : Nat) : Array Nat :=
  let s := sieveArr n
  let rec go : Nat → Nat → Nat → Array Nat → Array Nat
    | 0, _, _, acc => acc
    | fuel + 1, i, c, acc =>
      let c' := if s.getD i false then c + 1 else c
      go fuel (i + 1) c' (acc.push c')
  go (n + 1) 0 0 (Array.mkEmpty (n + 1))

/-- π(n) with the sieve -/
def piSieve (n : Nat) : Nat := (piTableArr n).getD n 0

/-- primes `≤ n` from the sieve, increasing -/
def primesUpTo (n : Nat) : List Nat :=
  let s := sieveArr n
  (List.range (n + 1)).filter (fun i => s.getD i false)

/-- the Legendre sum by its definition: numbers in `[1, x]` divisible by none of the primes in `ps` -/
def phiNaive (x : Nat) (ps : List Nat) : Nat :=
  ((List.range (x + 1)).filter (fun n => 1 ≤ n && ps.all (fun q => n % q != 0))).length

/-- number of primes in `(a, b]` by trial division -/
def primesInTD (a b : Nat) : Nat := ((List.range (b - a)).filter (fun i => isPrimeTD (a + 1 + i))).length

end Pc
