/-
Executable oracles (DESIGN.md 5.4), core Lean only. Correctness theorems live in PcProofs/Oracle.lean
(trial division, sieve, counting) and PcProofs/OracleWindow.lean (segmented window sieve).
These are independent of primecount and primesieve: trial division and a plain sieve of Eratosthenes.
-/
import PcModel.Basic
namespace Pc

/-! ## trial division -/

/-- `true` iff no `d` with `d0 ≤ d`, `d * d ≤ n` divides `n` (fuel-bounded scan) -/
def noDivisorFrom (n : Nat) : Nat → Nat → Bool
  | 0, _ => true
  | fuel + 1, d => if d * d > n then true else if n % d == 0 then false else noDivisorFrom n fuel (d + 1)

/-- primality by trial division -/
def isPrimeTD (n : Nat) : Bool := 2 ≤ n && noDivisorFrom n n 2

/-- all primes `≤ n`, increasing (trial division; fine up to ~10^6) -/
def primesUpToTD (n : Nat) : List Nat := (List.range (n + 1)).filter isPrimeTD

/-- π(n) by trial division -/
def piTD (n : Nat) : Nat := (primesUpToTD n).length

/-- number of primes in `(a, b]` by trial division -/
def primesInTD (a b : Nat) : Nat := ((List.range (b - a)).filter (fun i => isPrimeTD (a + 1 + i))).length

/-! ## sieve of Eratosthenes -/

/-- cross off the indices `j, j+p, ...` below `size` (fuel-bounded) -/
def crossOff (p : Nat) : Nat → Nat → Array Bool → Array Bool
  | 0, _, a => a
  | fuel + 1, j, a => if j < a.size then crossOff p fuel (j + p) (a.set! j false) else a

/-- main loop of the sieve: for `p = p0, p0+1, ...` while `p * p ≤ n`, cross off `p*p, p*p+p, ...`
    when `p` is still marked -/
def sieveLoop (n : Nat) : Nat → Nat → Array Bool → Array Bool
  | 0, _, a => a
  | fuel + 1, p, a =>
    if p * p > n then a
    else if a.getD p false then sieveLoop n fuel (p + 1) (crossOff p (n + 1) (p * p) a)
    else sieveLoop n fuel (p + 1) a

/-- initial state of the sieve: everything marked except 0 and 1 -/
def sieveInit (n : Nat) : Array Bool := (Array.replicate (n + 1) true).set! 0 false |>.set! 1 false

/-- sieve of Eratosthenes: `(sieveArr n)[i] = true` iff `i` is prime, for `i ≤ n` -/
def sieveArr (n : Nat) : Array Bool := sieveLoop n (n + 1) 2 (sieveInit n)

/-- `acc` + number of `true` entries of `s` at the indices `i, i+1, ..., i+fuel-1` -/
def countFrom (s : Array Bool) : Nat → Nat → Nat → Nat
  | 0, _, acc => acc
  | fuel + 1, i, acc => countFrom s fuel (i + 1) (if s.getD i false then acc + 1 else acc)

/-- running prefix counts of `s`, pushed onto `acc` -/
def piTableLoop (s : Array Bool) : Nat → Nat → Nat → Array Nat → Array Nat
  | 0, _, _, acc => acc
  | fuel + 1, i, c, acc =>
    let c' := if s.getD i false then c + 1 else c
    piTableLoop s fuel (i + 1) c' (acc.push c')

/-- prefix counts of a sieve: `(piTableOf s n)[i]` = number of marked indices `≤ i`, for `i ≤ n` -/
def piTableOf (s : Array Bool) (n : Nat) : Array Nat := piTableLoop s (n + 1) 0 0 (Array.mkEmpty (n + 1))

/-- prefix counts: `(piTableArr n)[i] = π(i)` for `i ≤ n` -/
def piTableArr (n : Nat) : Array Nat := piTableOf (sieveArr n) n

/-- π(n) with the sieve (one counting pass, no table) -/
def piSieve (n : Nat) : Nat := countFrom (sieveArr n) (n + 1) 0 0

/-- the marked indices `≤ n` of a sieve, increasing -/
def primesOfSieve (s : Array Bool) (n : Nat) : List Nat :=
  (List.range (n + 1)).filter (fun i => s.getD i false)

/-- primes `≤ n` from the sieve, increasing -/
def primesUpTo (n : Nat) : List Nat := primesOfSieve (sieveArr n) n

/-! ## segmented window sieve: primes in `(a, b]` -/

/-- the smallest multiple of `d` that is `> a` and `≥ d * d` (for `d ≥ 1`) -/
def firstMultiple (d a : Nat) : Nat := max (d * d) ((a / d + 1) * d)

/-- initial window over `(a, b]`: index `i` stands for the number `a + 1 + i`; all marked except the number 1 -/
def windowInit (a b : Nat) : Array Bool :=
  let w := Array.replicate (b - a) true
  if a == 0 then w.set! 0 false else w

/-- for `d = d0, d0+1, ...` while `d * d ≤ b`: when `isBase d`, cross off the multiples of `d` that are
    `≥ d * d` inside the window -/
def windowLoop (isBase : Nat → Bool) (a b : Nat) : Nat → Nat → Array Bool → Array Bool
  | 0, _, w => w
  | fuel + 1, d, w =>
    if d * d > b then w
    else if isBase d then
      windowLoop isBase a b fuel (d + 1) (crossOff d (b - a) (firstMultiple d a - (a + 1)) w)
    else windowLoop isBase a b fuel (d + 1) w

/-- the sieved window: entry `i` is `true` iff `a + 1 + i` is prime — provided `isBase` holds for every
    prime `p` with `p * p ≤ b` (it may hold for other numbers as well: crossing off the multiples `≥ d*d`
    of any `d ≥ 2` only removes composites) -/
def windowSieveWith (isBase : Nat → Bool) (a b : Nat) : Array Bool :=
  windowLoop isBase a b (b + 1) 2 (windowInit a b)

/-- number of primes in `(a, b]` relative to a base predicate -/
def windowPrimesWith (isBase : Nat → Bool) (a b : Nat) : Nat :=
  countFrom (windowSieveWith isBase a b) (b - a) 0 0

/-- the primes in `(a, b]`, increasing, relative to a base predicate -/
def windowListWith (isBase : Nat → Bool) (a b : Nat) : List Nat :=
  let w := windowSieveWith isBase a b
  ((List.range (b - a)).filter (fun i => w.getD i false)).map (fun i => a + 1 + i)

/-- `π(a + d) - π(a)` for every `d` of the list, from ONE sieved window `(a, a + max d]` -/
def windowDeltasWith (isBase : Nat → Bool) (a : Nat) (ds : List Nat) : List Nat :=
  let l := windowListWith isBase a (a + ds.foldl max 0)
  ds.map (fun d => (l.filter (fun q => q ≤ a + d)).length)

/-- base predicate read off a sieve table -/
def baseOfSieve (s : Array Bool) : Nat → Bool := fun d => s.getD d false

/-- base predicate without any table: 2, 3, 5 and the numbers coprime to 30 (all primes are among them).
    Costs `√b` cheap steps per window instead of a base sieve of `√b` entries. -/
def wheelBase (d : Nat) : Bool := d < 7 || (d % 2 != 0 && d % 3 != 0 && d % 5 != 0)

/-- number of primes in `(a, b]`: segmented sieve with the base primes `≤ √b` taken from `sieveArr` -/
def windowPrimes (a b : Nat) : Nat :=
  let s := sieveArr (Nat.sqrt b)
  windowPrimesWith (baseOfSieve s) a b

/-- number of primes in `(a, b]` with the table-free wheel base -/
def windowPrimesWheel (a b : Nat) : Nat := windowPrimesWith wheelBase a b

/-! ## Legendre sum by definition -/

/-- the Legendre sum by its definition: numbers in `[1, x]` divisible by none of the primes in `ps` -/
def phiNaive (x : Nat) (ps : List Nat) : Nat :=
  ((List.range (x + 1)).filter (fun n => 1 ≤ n && ps.all (fun q => n % q != 0))).length

/-- the first `a` primes, taken from a sieve up to `n` (all of them when `a ≥ π(n)`) -/
def firstPrimes (a n : Nat) : List Nat := (primesUpTo n).take a

end Pc
