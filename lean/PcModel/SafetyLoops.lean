/-
C16 / C12 (WP safety): WIDTH-CHECKED mirrors of the loops whose L2 models accumulate in exact integers.

Every function here is the corresponding function of `PcModel/P2Loop.lean` with ONE change: each value the C++ stores in a
fixed-width integer variable is checked against that variable's type when it is produced, and the run stops with a `CErr`
when it does not fit (signed overflow: undefined behaviour; unsigned: silent wrap-around, which the code does not intend).
The theorems (`PcProofs/SafetyP2.lean`, `PcProps/C16Safety.lean`) say: on the function's domain the checked mirror never
reports a `CErr.ovf*` and returns what the unchecked mirror returns.

Modelled C++ (pinned tree), variable by variable:
  /repo/src/P2.cpp:39-82   `P2_thread<T>`:  `int64_t pi_xp` (`pi_xp += it2.size_ - it2.i_`, `pi_xp += 1`), `T sum` (`sum += pi_xp`)
  /repo/src/gourdon/B.cpp:38-81 `B_thread<T>` (same text, `T` unsigned)
  /repo/src/P2.cpp:111-112 `T pi_y = a; T sum = (pi_y - 2) * (pi_y + 1) / 2 - (b - 2) * (b + 1) / 2;` (since /repo 8cccffb):
                           everything in `T` (`p2InitC`).  Before 8cccffb the line read `(a - 2) * (a + 1) / 2 - …` with
                           `int64_t a`: an `int64_t` product WHATEVER `T` is (`p2InitCPreFix`, finding F9)
  /repo/src/P2.cpp:116-121, B.cpp:103-108  the thread-private `T sum` (`sum += P2_thread(...)`) and the `reduction(+: sum)`
Core Lean only.
-/
import PcModel.P2Loop
namespace Pc.Safety
open Pc.P2L Pc.LB

/-- what the width-checked mirrors report instead of a value -/
inductive CErr where
  /-- an error of the unchecked mirror (assertion, out-of-bounds read, fuel, …) -/
  | base (e : Err)
  /-- `int64_t pi_xp` would exceed `2^63 - 1` -/
  | ovfPi
  /-- a `T sum` (thread-local, thread-private or reduced) would leave `T` -/
  | ovfSum
  /-- `(pi_y - 2) * (pi_y + 1)` (or an operand) leaves `T` (P2.cpp:112); in `p2InitCPreFix`: `(a - 2) * (a + 1)` leaves `int64_t` -/
  | ovfInitA
  /-- `(b - 2) * (b + 1)` or the difference of the two halves leaves `T` (P2.cpp:109) -/
  | ovfInitB
deriving Repr, DecidableEq

def CErr.toString : CErr → String
  | .base _ => "TRAP:base" | .ovfPi => "TRAP:ovf-pi_xp" | .ovfSum => "TRAP:ovf-sum"
  | .ovfInitA => "TRAP:ovf-init-int64" | .ovfInitB => "TRAP:ovf-init-T"

/-- lift a result of the unchecked mirror -/
def liftE {α : Type} : Except Err α → Except CErr α
  | .ok v => .ok v
  | .error e => .error (.base e)

/-- P2.cpp:73-74 with `pi_xp` checked -/
def loop1C (it : Iter) (xp : Nat) : Nat → Fwd → Nat → Except CErr (Fwd × Nat)
  | 0, _, _ => .error (.base .hang)
  | fuel + 1, s, c =>
    match s.buf.getLast? with
    | none => .error (.base .oob)
    | some last =>
      if last ≤ xp then
        if two63 ≤ c + (s.buf.length - s.i) then .error .ovfPi
        else loop1C it xp fuel ⟨it.next (last + 1), 0⟩ (c + (s.buf.length - s.i))
      else .ok (s, c)

/-- P2.cpp:75-76 with `pi_xp` checked -/
def loop2C (xp : Nat) : Nat → Fwd → Nat → Except CErr (Fwd × Nat)
  | 0, _, _ => .error (.base .hang)
  | fuel + 1, s, c =>
    match s.buf[s.i]? with
    | none => .error (.base .oob)
    | some q =>
      if q ≤ xp then
        if two63 ≤ c + 1 then .error .ovfPi else loop2C xp fuel ⟨s.buf, s.i + 1⟩ (c + 1)
      else .ok (s, c)

/-- P2.cpp:69-79 with `pi_xp` and `T sum` checked; `tMax` = largest value of `T` -/
def outerC (tMax : Nat) (it : Iter) (x start : Nat) : Nat → Nat → Fwd → Nat → Nat → Except CErr Nat
  | 0, _, _, _, _ => .error (.base .hang)
  | fuel + 1, prime, s, piXp, sum =>
    if start < prime then
      let xp := x / prime
      match loop1C it xp (xp + 2) s piXp with
      | .error e => .error e
      | .ok (s1, c1) =>
        match loop2C xp (s1.buf.length + 1) s1 c1 with
        | .error e => .error e
        | .ok (s2, c2) =>
          if tMax < sum + c2 then .error .ovfSum
          else outerC tMax it x start fuel (it.prev (prime - 1)) s2 c2 (sum + c2)
    else .ok sum

/-- `P2_thread<T>(x, y, low, high)` / `B_thread<T>` with every stored value checked
    (`int64_t pi_xp = pi_noprint(xp, threads)` is whatever `int64_t` the callee returns: checked as such) -/
def p2ThreadC (tMax : Nat) (it : Iter) (pi : Nat → Nat) (x y low high : Nat) : Except CErr Nat :=
  if low = 0 then .error (.base .assertLow) else
  if ¬ low < high then .error (.base .assertOrder) else
  let start := thrStart x y high
  let stop := thrStop x low
  let prime := it.prev stop
  if prime ≤ start then .ok 0 else
  let xp := x / prime
  let piXp := pi xp
  if two63 ≤ piXp then .error .ovfPi else
  if tMax < piXp then .error .ovfSum else
  let prime2 := it.prev (prime - 1)
  outerC tMax it x start (stop + 1) prime2 ⟨it.next (xp + 1), 0⟩ piXp piXp

/-- the thread-private `T sum` of OpenMP thread `w`, in program order: `sum += P2_thread(x, y, low, high)` after
    every successful `get_work` of that thread (left to right, every partial sum checked) -/
def privC (tMax : Nat) (f : Nat → Nat → Except CErr Nat) (w : Nat) : List P2.Ev → Nat → Except CErr Nat
  | [], acc => .ok acc
  | e :: es, acc =>
    if e.work && e.w == w then
      match f e.low e.high with
      | .error err => .error err
      | .ok v => if tMax < acc + v then .error .ovfSum else privC tMax f w es (acc + v)
    else privC tMax f w es acc

/-- is `v` a value of the type with range `[tMin, tMax]` -/
def inRange (tMin : Int) (tMax : Nat) (v : Int) : Bool := decide (tMin ≤ v) && decide (v ≤ (tMax : Int))

/-- `reduction(+: sum)`: the private copies are added to the original variable one after the other (in the order
    `order`), every intermediate value checked against `T = [tMin, tMax]` -/
def reduceC (tMin : Int) (tMax : Nat) (f : Nat → Nat → Except CErr Nat) (es : List P2.Ev) (init : Int) :
    List Nat → Except CErr Int
  | [] => .ok init
  | w :: ws =>
    match privC tMax f w es 0 with
    | .error err => .error err
    | .ok s =>
      if inRange tMin tMax (init + (s : Int)) then reduceC tMin tMax f es (init + (s : Int)) ws
      else .error .ovfSum

/-- P2.cpp:109 of the tree BEFORE /repo 8cccffb (`T sum = (a - 2) * (a + 1) / 2 - (b - 2) * (b + 1) / 2;`), with the
    operand types of that source: `a` is `int64_t`, so `(a - 2) * (a + 1)` was an `int64_t` multiplication for BOTH
    instantiations of `T`; `b` is `T`.  Kept as the record of finding F9 (`p2InitCPreFix_overflows`,
    `P2_128_closed_form_overflows`, `closed_form_threshold`); the current source is `p2InitC`. -/
def p2InitCPreFix (tMin : Int) (tMax : Nat) (a b : Nat) : Except CErr Int :=
  let pa : Int := ((a : Int) - 2) * ((a : Int) + 1)
  let pb : Int := ((b : Int) - 2) * ((b : Int) + 1)
  if !inRange (-(two63 : Int)) (two63 - 1) pa then .error .ovfInitA else
  if !inRange tMin tMax pb then .error .ovfInitB else
  let r := Int.tdiv pa 2 - Int.tdiv pb 2
  if !inRange tMin tMax r then .error .ovfInitB else .ok r

/-- P2.cpp:111-112 (since /repo 8cccffb): `T pi_y = a; T sum = (pi_y - 2) * (pi_y + 1) / 2 - (b - 2) * (b + 1) / 2;`
    every operand is a `T`: `pi_y - 2`, `pi_y + 1`, their product, `b - 2`, `b + 1`, their product and the difference of
    the two halves are all checked against `T = [tMin, tMax]` (the conversion `T pi_y = a` of an `int64_t` is
    value-preserving for both instantiations; `/ 2` cannot overflow) -/
def p2InitC (tMin : Int) (tMax : Nat) (a b : Nat) : Except CErr Int :=
  let pa : Int := ((a : Int) - 2) * ((a : Int) + 1)
  let pb : Int := ((b : Int) - 2) * ((b : Int) + 1)
  if !(inRange tMin tMax ((a : Int) - 2) && inRange tMin tMax ((a : Int) + 1) && inRange tMin tMax pa) then
    .error .ovfInitA else
  if !(inRange tMin tMax ((b : Int) - 2) && inRange tMin tMax ((b : Int) + 1) && inRange tMin tMax pb) then
    .error .ovfInitB else
  let r := Int.tdiv pa 2 - Int.tdiv pb 2
  if !inRange tMin tMax r then .error .ovfInitB else .ok r

/-- `P2_OpenMP<T>` of the tree BEFORE /repo 8cccffb (closed form `p2InitCPreFix`); the record of finding F9 -/
def p2OpenMPCPreFix (tMax : Nat) (c : Consts) (it : Iter) (pi : Nat → Nat) (x y a : Nat) (r : Run) : Except CErr Int :=
  if a ≠ pi y then .error (.base .assertA) else
  if x < 4 then .ok 0 else
  let sqrtx := isqrtN x
  if sqrtx ≤ y then .ok 0 else
  let b := pi sqrtx
  match p2InitCPreFix (-(tMax : Int) - 1) tMax a b with
  | .error e => .error e
  | .ok sum0 =>
    let xy := x / max y 1
    if two63 ≤ xy then .error (.base .narrow) else
    if !r.valid c x xy then .error (.base .badRun) else
    reduceC (-(tMax : Int) - 1) tMax (p2ThreadC tMax it pi x y) r.es sum0 r.order

/-- `P2_OpenMP<T>(x, y, a, threads, is_print)` (P2.cpp:90-128), signed `T = [-(tMax+1), tMax]`, every stored value checked -/
def p2OpenMPC (tMax : Nat) (c : Consts) (it : Iter) (pi : Nat → Nat) (x y a : Nat) (r : Run) : Except CErr Int :=
  if a ≠ pi y then .error (.base .assertA) else
  if x < 4 then .ok 0 else
  let sqrtx := isqrtN x
  if sqrtx ≤ y then .ok 0 else
  let b := pi sqrtx
  match p2InitC (-(tMax : Int) - 1) tMax a b with
  | .error e => .error e
  | .ok sum0 =>
    let xy := x / max y 1
    if two63 ≤ xy then .error (.base .narrow) else
    if !r.valid c x xy then .error (.base .badRun) else
    reduceC (-(tMax : Int) - 1) tMax (p2ThreadC tMax it pi x y) r.es sum0 r.order

/-- `B_OpenMP<T>(x, y, threads, is_print)` (B.cpp:88-110), unsigned `T = [0, tMax]` -/
def bOpenMPC (tMax : Nat) (c : Consts) (it : Iter) (pi : Nat → Nat) (x y : Nat) (r : Run) : Except CErr Int :=
  if x < 4 then .ok 0 else
  let xy := x / max y 1
  if two63 ≤ xy then .error (.base .narrow) else
  if !r.valid c x xy then .error (.base .badRun) else
  reduceC 0 tMax (p2ThreadC tMax it pi x y) r.es 0 r.order

end Pc.Safety
