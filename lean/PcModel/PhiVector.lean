/-
C17: L1/L2 model of `phi_vector(x, a, primes, pi)` (src/phi_vector.cpp): the vector of start values
`phi[i] = φ(x, i − 1)` that `S2_thread` / `D_thread` compute once per thread (called with `x = low`).
Core Lean only.

Parameters of the model (the code's environment): `primes i` = `primes[i]`, `piX` = `pi[x]` (only read when
`primes[a] > x`), `sqrtX` = `isqrt(x)`, `phiNeg y b` = `cache.phi<-1>(y, b)` (the `PhiCache`, property C07).
-/
import PcModel.Basic
namespace Pc.PhiVec

/-- `for (; i <= a && primes[i - 1] <= sqrtx; i++) phi[i] = phi[i - 1] + cache.phi<-1>(x / primes[i - 1], i - 2);` -/
def loop1 (primes : Nat → Nat) (sqrtX : Nat) (phiNeg : Nat → Nat → Int) (x a : Nat) : Nat → Nat → List Int → Nat × List Int
  | 0, i, acc => (i, acc)
  | fuel + 1, i, acc =>
    if i ≤ a ∧ primes (i - 1) ≤ sqrtX then
      loop1 primes sqrtX phiNeg x a fuel (i + 1) (acc ++ [acc.getD (i - 1) 0 + phiNeg (x / primes (i - 1)) (i - 2)])
    else (i, acc)

/-- `for (; i <= a; i++) phi[i] = phi[i - 1] - (x > 0);` -/
def loop2 (x a : Nat) : Nat → Nat → List Int → Nat × List Int
  | 0, i, acc => (i, acc)
  | fuel + 1, i, acc =>
    if i ≤ a then loop2 x a fuel (i + 1) (acc ++ [acc.getD (i - 1) 0 - (if x > 0 then 1 else 0)])
    else (i, acc)

/-- `for (; i < size; i++) phi[i] = x > 0;` -/
def loop3 (x size : Nat) : Nat → Nat → List Int → List Int
  | 0, _, acc => acc
  | fuel + 1, i, acc => if i < size then loop3 x size fuel (i + 1) (acc ++ [if x > 0 then 1 else 0]) else acc

/-- `phi_vector(x, a, primes, pi)` for `x ≥ 0`, `a ≥ 0` -/
def phiVector (primes : Nat → Nat) (piX sqrtX : Nat) (phiNeg : Nat → Nat → Int) (x a : Nat) : List Int :=
  if a + 1 > 1 then
    let a' := if primes a > x then piX else a
    let r1 := loop1 primes sqrtX phiNeg x a' (a + 1) 2 [0, (x : Int)]
    let r2 := loop2 x a' (a + 1) r1.1 r1.2
    loop3 x (a + 1) (a + 1) r2.1 r2.2
  else [0]

end Pc.PhiVec
