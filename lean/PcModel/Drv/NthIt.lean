/-
Driver ops of C06 (WP nth): `Pc.NthIt.nthPrimeCpp` — src/nth_prime.cpp with the walk on the `Pc.It` state machine of
`primesieve::iterator` — EXECUTED over the window-sieve core of PcModel/IterExec.lean, against harness/ops_nthit.cpp.

  nth_it <n> <approx> <capprox> <lg>
      the three quantities the real run derived (`RiemannR_inverse(n)`, `pi(approx)`, `ilog(approx)`; reported by the harness op
      `nth_parts n`) are the parameters of the model; answer `<nth_prime> <approx> <capprox> <lg>` (byte-identical to the
      harness) | `ERR:pc`. SELF-TEST inside the op (n > 3314, short walks): the model is re-run with OTHER approximations — the
      result itself (a prime with π = n), result ± 1, approx ± 1, approx ± 1000, and for n ≤ 20000 also 0, 1, 2, 3 and 2·approx —
      each with its own count (window sieve); any different result is printed as `bad:…` (theorem `walk_any_approx`).
  nth_papprox_chk <n0> <k> <n,q,piq,approx,capprox,lg>…
      entries found by the harness op `nth_papprox n0 k` (the first k values n ≥ n0 whose approximation is ITSELF A PRIME):
      each certified like `nth_judge` (q prime by trial division, `piq = n`, direction consistent), `approx` prime (trial
      division), and the model walk from `approx` must end on `q`; `ok` or the first complaint
      `bad:<reason>:n=<n>:impl=<q>:model=<model walk result>:approx=…:capprox=…:lg=…`.
  nth_from <n> <approx> <capprox> <lg>
      the model walk for n from the given approximation / count (same op name on the harness: `nth_prime(n)`); used as the
      replayable failing input of `nth-approx-prime`.
  cli_nth_expr <hex of expr>
      `primecount <expr> --nth-prime`: `0:<prime>` | `nz:` — `Calc.cliNumber` then `NthIt.cliNthPrime` (values up to 20000).
-/
import PcModel.NthIt
import PcModel.IterExec
import PcModel.Drv.NthPrime
import PcModel.Drv.Calc
namespace Pc.Drv
open Pc.NthIt

/-- the walk regime is only executed when the windows stay inside what IterExec materialises -/
def nthItInBound (n approx capprox : Int) : Bool :=
  0 ≤ approx && approx ≤ 50000000000000 && (n - capprox).natAbs ≤ 60000

def nthItEnv (piArr : Array Nat) (approx capprox lg : Int) : NthIt.Env where
  ie := It.execEnv #[]
  approx := fun _ => approx
  pi := fun _ => capprox
  ilog := fun _ => lg
  piCache := fun x => piArr.getD x 0

def nthItWalkStr (r : Except NthIt.NErr Int) : String :=
  match r with
  | .ok v => toString v
  | .error .tooSmall => "ERR:pc"
  | .error .tooLarge => "ERR:pc"
  | .error (.walk .ub) => "ERR:ub"
  | .error (.walk (.iter .ps)) => "ERR:ps"
  | .error (.walk (.iter .oob)) => "ERR:oob"
  | .error (.walk (.iter .hang)) => "ERR:hang"

/-- `π(a')` from `π(a) = c` by counting the primes in between with the window sieve -/
def nthItShiftCount (a c a' : Nat) : Nat :=
  if a' ≥ a then c + It.execCount (a + 1) a' else c - It.execCount (a' + 1) a

/-- other approximations the model is re-run with -/
def nthItAlternatives (n a q : Nat) : List Nat :=
  let near := [q, q - 1, q + 1, a + 1, a - 1, a + 1000, a - 1000]
  let far := if n ≤ 20000 then [0, 1, 2, 3, 2 * a] else []
  (near ++ far).eraseDups.filter (· ≠ a)

def nthItSelfTest (n a c lg q : Nat) : String :=
  if n < 3315 ∨ a < 1000 ∨ (Int.natAbs ((n : Int) - c)) > 3000 then "" else
  let bad := (nthItAlternatives n a q).filterMap fun a' =>
    let c' := nthItShiftCount a c a'
    match walkIt (It.execEnv #[]) a' n c' lg with
    | .ok v => if v = (q : Int) then none else some s!"bad:approx'={a'},count'={c'}:model={v}/expected={q}"
    | .error _ => some s!"bad:approx'={a'},count'={c'}:model=error"
  bad.headD ""

def nthIt (a : List String) : String :=
  match a.map parseInt? with
  | [some n, some approx, some capprox, some lg] =>
    if !nthInRange n then nthItWalkStr (nthPrimeCpp (nthItEnv #[] approx capprox lg) n) else
    let walkRegime := n.toNat ≥ 3315
    if walkRegime && approx < 0 then s!"bad:approx={approx}<0" else   -- outside `Contracts.approx_range`: reported, never skipped
    if walkRegime && !nthItInBound n approx capprox then "ERR:model-bound" else
    let piArr := if walkRegime then #[] else (NthOracle.build Gen.nthPrimeMaxCached).piArr
    match nthPrimeCpp (nthItEnv piArr approx capprox lg) n with
    | .ok q =>
      let t := if q < 0 then "" else nthItSelfTest n.toNat approx.toNat capprox.toNat lg.toNat q.toNat
      if t ≠ "" then t else s!"{q} {approx} {capprox} {lg}"
    | r => nthItWalkStr r
  | _ => "ERR:proto"

/-- `ok` or `bad:<reason>:n=<n>:impl=<q>:model=<what the model walk from approx returns, `-` outside the model's bound>` -/
def nthPapproxEntry (e : String) : String :=
  match (e.splitOn ",").map parseInt? with
  | [some n, some q, some piq, some approx, some capprox, some lg] =>
    let j := nthJudge [toString n, toString q, toString piq, "-", toString approx, toString capprox]
    let m : String :=
      if !nthItInBound n approx capprox then "-" else
      match walkIt (It.execEnv #[]) approx n capprox lg with
      | .ok v => toString v
      | .error _ => "error"
    let r : String :=
      if j ≠ "ok" then j.drop 4 |>.toString
      else if !isPrimeTD approx.toNat then s!"approx={approx}-not-prime"
      else if m ≠ "-" ∧ m ≠ toString q then s!"walk(approx={approx},pi(approx)={capprox})"
      else ""
    if r = "" then "ok" else s!"bad:{r}:n={n}:impl={q}:model={m}:approx={approx}:capprox={capprox}:lg={lg}"
  | _ => "ERR:proto"

def nthPapproxChk (a : List String) : String :=
  match a with
  | n0 :: k :: es =>
    match parseInt? n0, k.toNat? with
    | some n0, some k =>
      if es.length ≠ k then s!"bad:entries={es.length}/wanted={k}" else
      let ns := es.filterMap fun e => (e.splitOn ",").head?.bind parseInt?
      if ns.any (· < n0) then "bad:n-below-n0" else
      ((es.map nthPapproxEntry).filter (· ≠ "ok")).headD "ok"
    | _, _ => "ERR:proto"
  | _ => "ERR:proto"

def nthCliExpr (a : List String) : String :=
  match a with
  | [h] =>
    match unhexBytes h with
    | none => "ERR:proto"
    | some s =>
      match Calc.cliArg s with
      | .option => "OPTION"
      | _ =>
        match Calc.cliNumber s with
        | .error _ => "nz:"
        | .ok x =>
          if 20000 < x ∧ x ≤ (Gen.nthPrimeMaxN : Int) then "BIG" else
          -- approximation 0 with count π(0) = 0 is an admissible instance (the theorem holds for every approximation):
          -- the model walks forward from 1; the sieve oracle answers next to it
          match cliNthPrime (nthItEnv (NthOracle.build Gen.nthPrimeMaxCached).piArr 0 0 0) x with
          | .error _ => "nz:"
          | .ok v =>
            let o := nthSingle false [toString x]
            if o == toString v then "0:" ++ o else s!"bad:model={v}/oracle={o}"
  | _ => "ERR:proto"

/-- `nth_from n approx capprox lg`: the model walk alone (the harness op of the same name prints `nth_prime(n)`): the replayable form
    of a complaint of `nth_papprox_chk` -/
def nthFrom (a : List String) : String :=
  match a.map parseInt? with
  | [some n, some approx, some capprox, some lg] =>
    if !nthInRange n then "ERR:pc"
    else if !nthItInBound n approx capprox then "ERR:model-bound"
    else nthItWalkStr (match walkIt (It.execEnv #[]) approx n capprox lg with
      | .ok v => .ok v
      | .error e => .error (.walk e))
  | _ => "ERR:proto"

def nthItOps : String → Option (List String → String)
  | "nth_it" => some nthIt
  | "nth_from" => some nthFrom
  | "nth_papprox_chk" => some nthPapproxChk
  | "cli_nth_expr" => some nthCliExpr
  | _ => none

end Pc.Drv
