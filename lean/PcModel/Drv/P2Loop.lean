/-
Driver ops of WP p2b (C03/C08): the L2 loop model of `P2_thread` / `B_thread` / `P2_OpenMP` / `B_OpenMP`
(PcModel/P2Loop.lean) executed over the oracle prime table, against harness/ops_p2loop.cpp.

  p2thread | bthread   <64|128> x y low high     -> value | ERR:assertLow | ERR:assertOrder | ERR:domain
  p2threads | bthreads <64|128> x y b0 … bk      -> k values (chain of chunks)
  p2row | brow         <64|128> x y low hmax     -> values for high = low+1 … hmax
  p2thread_def | bthread_def, p2threads_def | bthreads_def, p2row_def | brow_def : the same questions answered by
      the DEFINING sum Σ π(x/q) over the primes y < q ≤ √x with low ≤ x/q < high (index-lemma form);
  …_both : `<mirror answer> | <def answer>` from one table
  p2run_check | brun_check <64|128> x y a team print ev…   ev = w:work:low:high
      -> R <p2OpenMP|bOpenMP on the recorded run> <sum of the model's chunk values> a team complete nev ev:value…
-/
import PcModel.P2Loop
import PcModel.DispenserGen
namespace Pc.Drv
open Pc.P2L Pc.LB

def p2lErr : Err → String
  | .assertLow => "ERR:assertLow" | .assertOrder => "ERR:assertOrder" | .assertA => "ERR:assertA"
  | .oob => "ERR:oob" | .hang => "ERR:hang" | .narrow => "ERR:narrow" | .badRun => "ERR:badRun"

def p2lShow : Except Err Nat → String
  | .ok v => toString v
  | .error e => p2lErr e

def i64Max : Nat := 9223372036854775807
def i128Max : Nat := 170141183460469231731687303715884105727

/-- `<64|128> x y` with the harness's domain: `0 ≤ x ≤` signed maximum of the width, `0 ≤ y ≤ INT64_MAX` -/
def p2lHead (w x y : String) : Except String (Nat × Nat) :=
  if w ≠ "64" ∧ w ≠ "128" then .error "ERR:proto" else
  match x.toNat?, y.toNat? with
  | some x, some y =>
    if x > (if w = "128" then i128Max else i64Max) ∨ y > i64Max then .error "ERR:domain" else .ok (x, y)
  | _, _ => .error "ERR:domain"

def p2lBound (s : String) : Option Nat :=
  match s.toNat? with
  | some v => if v > i64Max then none else some v
  | none => none

def p2lTableMax : Nat := 60000000

/-- one table for all chunks inside `[lowMin, highMax)` -/
def p2lTable (x y lowMin highMax : Nat) : Option NT :=
  let n := threadBound x y lowMin highMax
  if n > p2lTableMax then none else some (NT.build n)

/-- which answer: the loop model, the defining sum, or both from one table (`mirror|def`) -/
inductive P2lMode where | mirror | dfn | both

/-- mirror: the loop model; def: the defining sum -/
def p2lChunk1 (mirror : Bool) (t : NT) (x y low high : Nat) : String :=
  if low = 0 then "ERR:assertLow" else if ¬ low < high then "ERR:assertOrder" else
  if mirror then p2lShow (p2Thread (tableIter t (low * 31 + high)) t.piOf x y low high)
  else toString (chunkSum t x y low high)

def p2lJoin (m : P2lMode) (f : Bool → String) : String :=
  match m with
  | .mirror => f true
  | .dfn => f false
  | .both => f true ++ " | " ++ f false

def p2lOne (m : P2lMode) (a : List String) : String :=
  match a with
  | [w, x, y, lo, hi] =>
    match p2lHead w x y with
    | .error e => e
    | .ok (x, y) =>
      match p2lBound lo, p2lBound hi with
      | some lo, some hi =>
        if lo = 0 then "ERR:assertLow" else if ¬ lo < hi then "ERR:assertOrder" else
        match p2lTable x y lo hi with
        | none => "ERR:model-bound"
        | some t => p2lJoin m fun mirror => p2lChunk1 mirror t x y lo hi
      | _, _ => "ERR:domain"
  | _ => "ERR:proto"

def p2lPairs : List Nat → List (Nat × Nat)
  | a :: b :: rest => (a, b) :: p2lPairs (b :: rest)
  | _ => []

def p2lChain (m : P2lMode) (a : List String) : String :=
  match a with
  | w :: x :: y :: bs =>
    match p2lHead w x y with
    | .error e => e
    | .ok (x, y) =>
      match bs.mapM p2lBound with
      | none => "ERR:domain"
      | some bs =>
        if bs.length < 2 then "ERR:proto" else
        let lo := (bs.foldl min (bs.headD 0))
        let hi := (bs.foldl max 0)
        match p2lTable x y (max lo 1) hi with
        | none => "ERR:model-bound"
        | some t => p2lJoin m fun mirror => " ".intercalate ((p2lPairs bs).map fun (l, h) => p2lChunk1 mirror t x y l h)
  | _ => "ERR:proto"

def p2lRow (m : P2lMode) (a : List String) : String :=
  match a with
  | [w, x, y, lo, hm] =>
    match p2lHead w x y with
    | .error e => e
    | .ok (x, y) =>
      match p2lBound lo, p2lBound hm with
      | some lo, some hm =>
        if hm - lo > 100000 then "ERR:domain" else
        if hm ≤ lo then p2lJoin m fun _ => "-" else
        match p2lTable x y (max lo 1) hm with
        | none => "ERR:model-bound"
        | some t => p2lJoin m fun mirror =>
            " ".intercalate ((List.range (hm - lo)).map fun j => p2lChunk1 mirror t x y lo (lo + 1 + j))
      | _, _ => "ERR:domain"
  | _ => "ERR:proto"

def parseRunEv (s : String) : Option P2.Ev :=
  match s.splitOn ":" with
  | [w, wk, lo, hi] => do
    let w ← w.toNat?
    let wk ← (if wk == "1" then some true else if wk == "0" then some false else none)
    let lo ← lo.toNat?
    let hi ← hi.toNat?
    some { w := w, work := wk, low := lo, high := hi }
  | _ => none

/-- every worker of the team made a last call that returned `false` -/
def runComplete (team : Nat) (es : List P2.Ev) : Bool :=
  (List.range team).all fun w =>
    match (es.filter (fun e => e.w == w)).getLast? with
    | some e => !e.work
    | none => false

def showInt : Except Err Int → String
  | .ok v => toString v
  | .error e => p2lErr e

def p2lRun (isP2 : Bool) (a : List String) : String :=
  match a with
  | w :: x :: y :: av :: team :: pr :: evs =>
    match p2lHead w x y with
    | .error e => e
    | .ok (x, y) =>
      match av.toNat?, team.toNat?, (if pr == "1" then some true else if pr == "0" then some false else none),
            evs.mapM parseRunEv with
      | some av, some team, some pr, some es =>
        let xy := x / max y 1
        if two63 ≤ xy then "ERR:narrow" else
        let region := decide (4 ≤ x) && (!isP2 || decide (y < isqrtN x))
        let lowMin := max (min (isqrtN x) xy) 1
        match p2lTable x y lowMin (max xy (lowMin + 1)) with
        | none => "ERR:model-bound"
        | some t =>
          let it := tableIter t 7
          let r : Run := { team := team, print := pr, es := es, order := (List.range team).reverse }
          let whole := if isP2 then p2OpenMP genConsts it t.piOf x y av r else bOpenMP genConsts it t.piOf x y r
          if !region then s!"R {showInt whole} 0 {av} 0 1 0" else
          let vals := es.map fun e =>
            if e.work then p2lShow (p2Thread it t.piOf x y e.low e.high) else "0"
          let total := (es.foldl (fun acc e =>
            if e.work then match p2Thread it t.piOf x y e.low e.high with | .ok v => acc + v | .error _ => acc
            else acc) 0)
          let evOut := (es.zip vals).map fun (e, v) =>
            s!"{e.w}:{if e.work then 1 else 0}:{e.low}:{e.high}:{v}"
          let cmpl := if runComplete team es then 1 else 0
          s!"R {showInt whole} {total} {av} {team} {cmpl} {es.length}" ++
            (if evOut.isEmpty then "" else " " ++ " ".intercalate evOut)
      | _, _, _, _ => "ERR:proto"
  | _ => "ERR:proto"

def p2LoopOps : String → Option (List String → String)
  | "p2thread" | "bthread" => some (p2lOne .mirror)
  | "p2thread_def" | "bthread_def" => some (p2lOne .dfn)
  | "p2thread_both" | "bthread_both" => some (p2lOne .both)
  | "p2threads" | "bthreads" => some (p2lChain .mirror)
  | "p2threads_def" | "bthreads_def" => some (p2lChain .dfn)
  | "p2threads_both" | "bthreads_both" => some (p2lChain .both)
  | "p2row" | "brow" => some (p2lRow .mirror)
  | "p2row_def" | "brow_def" => some (p2lRow .dfn)
  | "p2row_both" | "brow_both" => some (p2lRow .both)
  | "p2run_check" => some (p2lRun true)
  | "brun_check" => some (p2lRun false)
  | _ => none

end Pc.Drv
