import PcModel.Roots
namespace Pc.Drv

/-- estimate `(T) std::sqrt((double) x)` as the C++ code computes it (binary64, bit-identical here);
    the result of the op does not depend on it (`isqrt_correct` holds for every estimate). -/
def sqrtEstimate (x : Nat) : Nat := (Float.sqrt x.toFloat).toUInt64.toNat

def cbrtEstimate (x : Nat) : Nat := (Float.cbrt x.toFloat).toUInt64.toNat
def root4Estimate (x : Nat) : Nat := (Float.sqrt (Float.sqrt x.toFloat)).toUInt64.toNat
def root6Estimate (x : Nat) : Nat := (Float.pow x.toFloat (1.0 / 6.0)).toUInt64.toNat

def natArg (t : ITy) (s : String) : Option Nat := do
  let v ← parseInt? s
  if v < 0 ∨ v > t.maxVal then none else some v.toNat

def isqrtOp (t : ITy) (a : List String) : String :=
  match a with
  | [x] => match natArg t x with
    | some n => toString (isqrtL2 t n (sqrtEstimate n))
    | none => "ERR:domain"
  | _ => "ERR:proto"

def irootOp (n : Nat) (est : Nat → Nat) (a : List String) : String :=
  match a with
  | [ty, x] => match ITy.ofName ty with
    | some t => match natArg t x with
      | some v => toString (irootLoop n v (est v))
      | none => "ERR:domain"
    | none => "ERR:proto"
  | _ => "ERR:proto"

def int3 (a : List String) (f : Int → Int → Int → String) : String :=
  match a.map parseInt? with
  | [some x, some y, some z] => f x y z
  | _ => "ERR:proto"

def rootsOps : String → Option (List String → String)
  | "isqrt_i64" => some (isqrtOp .i64)
  | "isqrt_u64" => some (isqrtOp .u64)
  | "isqrt_i128" => some (isqrtOp .i128)
  | "isqrt_u128" => some (isqrtOp .u128)
  | "iroot3" => some (irootOp 3 cbrtEstimate)
  | "iroot4" => some (irootOp 4 root4Estimate)
  | "iroot6" => some (irootOp 6 root6Estimate)
  | "ctsqrt_i64" => some fun a => match a with
      | [x] => (natArg .i64 x).elim "ERR:domain" (fun n => toString (ctSqrt n)) | _ => "ERR:proto"
  | "ctsqrt_i128" => some fun a => match a with
      | [x] => (natArg .i128 x).elim "ERR:domain" (fun n => toString (ctSqrt n)) | _ => "ERR:proto"
  | "ctsqrt_u128" => some fun a => match a with
      | [x] => (natArg .u128 x).elim "ERR:domain" (fun n => toString (ctSqrt n)) | _ => "ERR:proto"
  | "ceil_div" => some fun a => match a.map parseInt? with
      | [some x, some y] => if x < 0 ∨ y ≤ 0 then "ERR:domain" else toString (ceilDiv x.toNat y.toNat)
      | _ => "ERR:proto"
  | "ilog2" => some fun a => match a.map parseInt? with
      | [some x] => toString (ilog2 x) | _ => "ERR:proto"
  | "next_pow2" => some fun a => match a.map parseInt? with
      | [some x] => if x < 0 then "ERR:domain" else toString (nextPow2 x.toNat) | _ => "ERR:proto"
  | "in_between" => some fun a => int3 a fun x y z => toString (inBetween x y z)
  | "ideal_threads" => some fun a => int3 a fun x y z => toString (idealNumThreads x y z)
  | _ => none

end Pc.Drv
