/-
Driver op of the second part of the C18 core half: the state `Erat::init` establishes (model `eratInit`), incl. the bound `FloatOk`
(`maxEratMedium_ < 2^25`) that the end-to-end theorems carry as their only assumption about `double` arithmetic.

  pseratinit <start> <stop> <sieveKiB> <l1raw>   `low= high= size= small= medium= l1= log2= init=<s><m><b> floatok=<0|1>`
                                                 (l1 / log2 are printed only when EratSmall / EratBig are initialised, else 0)
-/
import PcModel.PsCore
namespace Pc.Drv
open Pc.PsCore

def psCore2Ops : String → Option (List String → String)
  | "pseratinit" => some fun a => match a.map (·.toNat?) with
      | [some start, some stop, some kb, some l1] =>
        if start < 7 ∨ start > stop ∨ stop ≥ 2 ^ 64 ∨ start ≥ 2 ^ 64 - 1 ∨ kb < 16 ∨ kb > 8192 then "ERR:domain" else
        let e := eratInit l1 start stop kb
        let b := fun (x : Bool) => if x then "1" else "0"
        s!"low={e.segmentLow} high={e.segmentHigh} size={e.sieve.size} small={e.maxEratSmall} medium={e.maxEratMedium} " ++
        s!"l1={if e.smallInit then e.l1 else 0} log2={if e.bigInit then e.log2 else 0} " ++
        s!"init={b e.smallInit}{b e.mediumInit}{b e.bigInit} floatok={b (decide (e.maxEratMedium < 2 ^ 25))}"
      | _ => "ERR:proto"
  | _ => none

end Pc.Drv
