import PcModel.Formulas
namespace Pc.Drv

def natArgs (a : List String) : Option (List Nat) :=
  a.mapM fun s => match parseInt? s with
    | some v => if v < 0 then none else some v.toNat
    | none => none

/-- π/prime table large enough for every π(·) query of the formulas of (x, y, z) -/
def tableFor (x y z : Nat) : Option NT :=
  let n := max (max (x / max y 1) (isqrtN x)) (max y z) + 2
  if n > 60000000 then none else some (NT.build n)

def withTable (x y z : Nat) (f : NT → Int) : String :=
  match tableFor x y z with
  | some t => toString (f t)
  | none => "ERR:model-bound"

/-- `PhiTiny::get_c(y)`: π(y) for y < 20, else 8 ;  `get_k(x) = get_c(iroot<4>(x))` -/
def fGetC (y : Nat) : Nat := if y < 20 then piTD y else 8
def fGetK (x : Nat) : Nat := fGetC (irootN 4 x)

def formulasOps : String → Option (List String → String)
  -- <term> <64|128> x y a|c threads   (width and threads are irrelevant for the definition)
  | "P2" => some fun a => match natArgs (a.drop 1) with
      | some [x, y, _a, _t] => withTable x y 0 fun t => t.P2 x y
      | _ => "ERR:proto"
  | "P3" => some fun a => match natArgs (a.drop 1) with
      | some [x, y, _a, _t] => withTable x y 0 fun t => t.P3 x y
      | _ => "ERR:proto"
  | "S1" => some fun a => match natArgs (a.drop 1) with
      | some [x, y, c, _t] => withTable 0 y 0 fun t => t.S1 x y c
      | _ => "ERR:proto"
  | "S2" => some fun a => match natArgs (a.drop 1) with
      | some [x, y, c] => withTable x y 0 fun t => t.S2 x y c
      | _ => "ERR:proto"
  | "S2_trivial" => some fun a => match natArgs (a.drop 1) with
      | some [x, y, z, c, _t] => withTable x y z fun t => t.S2trivial x y z c
      | _ => "ERR:proto"
  | "S2_easy" => some fun a => match natArgs (a.drop 1) with
      | some [x, y, z, c, _t] => withTable x y z fun t => t.S2easy x y z c
      | _ => "ERR:proto"
  | "S2_hard" => some fun a => match natArgs (a.drop 1) with
      | some [x, y, z, c, _approx, _t] => withTable x y z fun t => t.S2hard x y z c
      | _ => "ERR:proto"
  | "Sigma" => some fun a => match natArgs (a.drop 1) with
      | some [x, y, _t] => withTable x y 0 fun t => t.Sigma x y
      | _ => "ERR:proto"
  | "B" => some fun a => match natArgs (a.drop 1) with
      | some [x, y, _t] => withTable x y 0 fun t => t.B x y
      | _ => "ERR:proto"
  | "Phi0" => some fun a => match natArgs (a.drop 1) with
      | some [x, y, z, k, _t] => withTable 0 y z fun t => t.Phi0 x y z k
      | _ => "ERR:proto"
  | "AC" => some fun a => match natArgs (a.drop 1) with
      | some [x, y, z, k, _t] => withTable x y z fun t => t.A x y + t.C x y z k
      | _ => "ERR:proto"
  | "D" => some fun a => match natArgs (a.drop 1) with
      | some [x, y, z, k, _approx, _t] => withTable x y z fun t => t.D x y z k
      | _ => "ERR:proto"
  -- ident_dr <w> x y c threads -> the seven numbers by their definitions (z = x / y)
  | "ident_dr" => some fun a => match natArgs (a.drop 1) with
      | some [x, y, c, _t] =>
        if y = 0 then "ERR:domain" else
        match tableFor x y (x / y) with
        | none => "ERR:model-bound"
        | some t =>
          let z := x / y
          let s1 := t.S1 x y c; let tr := t.S2trivial x y z c; let e := t.S2easy x y z c
          let h := t.S2hard x y z c; let p2 := t.P2 x y; let piy : Int := t.piOf y
          s!"{s1} {tr} {e} {h} {p2} {piy} {s1 + tr + e + h + piy - 1 - p2}"
      | _ => "ERR:proto"
  -- ident_gourdon <w> x y z k threads -> sigma phi0 ac b d total
  | "ident_gourdon" => some fun a => match natArgs (a.drop 1) with
      | some [x, y, z, k, _t] =>
        match tableFor x y z with
        | none => "ERR:model-bound"
        | some t =>
          let sg := t.Sigma x y; let p0 := t.Phi0 x y z k; let ac := t.A x y + t.C x y z k
          let b := t.B x y; let d := t.D x y z k
          s!"{sg} {p0} {ac} {b} {d} {ac - b + d + p0 + sg}"
      | _ => "ERR:proto"
  | "xstar" => some fun a => match natArgs a with
      | some [x, y] => toString (xStar x y)
      | _ => "ERR:proto"
  | "get_k" => some fun a => match natArgs a with
      | some [x] => toString (fGetK x) | _ => "ERR:proto"
  | "get_c" => some fun a => match natArgs a with
      | some [y] => toString (fGetC y) | _ => "ERR:proto"
  -- alg <name> x threads : every algorithm must return π(x) (0 for x < 2, negatives included)
  | "alg" => some fun a => match a with
      | [_name, xs, _t] => match parseInt? xs with
        | some x => if x < 2 then "0" else if x > 60000000 then "ERR:model-bound" else toString (piSieve x.toNat)
        | none => "ERR:proto"
      | _ => "ERR:proto"
  -- algrange <name> lo hi threads -> π(lo) .. π(hi)
  | "algrange" => some fun a => match a with
      | [_name, los, his, _t] => match parseInt? los, parseInt? his with
        | some lo, some hi =>
          if hi > 60000000 then "ERR:model-bound" else
          let tbl := piTableArr (max hi 0).toNat
          let n := (hi - lo + 1).toNat
          " ".intercalate ((List.range n).map fun (j : Nat) =>
            let x : Int := lo + (j : Nat)
            if x < 2 then "0" else toString (tbl.getD x.toNat 0))
        | _, _ => "ERR:proto"
      | _ => "ERR:proto"
  -- algall x threads names... -> π(x) once per listed name ("?" when x is beyond the model's table)
  | "algall" => some fun a => match a with
      | xs :: _t :: names => match parseInt? xs with
        | some x =>
          let v := if x < 2 then "0" else if x > 60000000 then "?" else toString (piSieve x.toNat)
          " ".intercalate (names.map fun _ => v)
        | none => "ERR:proto"
      | _ => "ERR:proto"
  | "algagree" => some fun a => match a with
      | _xs :: _t :: names => " ".intercalate (names.map fun _ => "?")
      | _ => "ERR:proto"
  | "algalpha_all" => some fun a => match a with
      | xs :: _t :: _a :: _ay :: _az :: names => match parseInt? xs with
        | some x =>
          let v := if x < 2 then "0" else if x > 60000000 then "?" else toString (piSieve x.toNat)
          " ".intercalate (names.map fun _ => v)
        | none => "ERR:proto"
      | _ => "ERR:proto"
  | _ => none

end Pc.Drv
