/-
Driver ops of C09/C03: trace acceptors for the histories recorded by harness/ops_lb.cpp.
  lbs2_check <x> <sieve_limit> <threads> <print> <ev>...   ev = w:tlow:tsegs:tsize:tsum:secs:init:work:olow:osegs:osize:sumafter
  lbp2_check <x> <sieve_limit> <threads> <print> <team> <ev>...   ev = w:work:low:high
  lbac_check <sqrtx> <y> <threads> <print> <ev>...         ev = w:tlow:tsegs:tsize:secs:work:olow:osegs:osize
Answer: `ok <n chunks> <covered lo> <covered hi> <sum>` or `reject <index> <reason>`.
-/
import PcModel.DispenserGen
namespace Pc.Drv
open Pc.LB

def lbNat? (s : String) : Option Nat := s.toNat?

def lbSplit (s : String) : List String := s.splitOn ":"

def lbBool? (s : String) : Option Bool := if s == "1" then some true else if s == "0" then some false else none

/-- `none`: malformed; negative numbers (possible after a signed overflow in the C++) are malformed for
    the natural-number fields and reported as such -/
def parseS2Ev (s : String) : Option S2.Ev :=
  match lbSplit s with
  | [w, tl, tg, tz, ts, sc, ini, wk, ol, og, oz, sa] => do
    some { w := ← lbNat? w, tlow := ← lbNat? tl, tsegs := ← lbNat? tg, tsize := ← lbNat? tz, tsum := ← parseInt? ts,
           secs := ← lbNat? sc, init := ← lbNat? ini, work := ← lbBool? wk, olow := ← lbNat? ol,
           osegs := ← lbNat? og, osize := ← lbNat? oz, sumAfter := ← parseInt? sa }
  | _ => none

def parseP2Ev (s : String) : Option P2.Ev :=
  match lbSplit s with
  | [w, wk, lo, hi] => do some { w := ← lbNat? w, work := ← lbBool? wk, low := ← lbNat? lo, high := ← lbNat? hi }
  | _ => none

def parseACEv (s : String) : Option AC.Ev :=
  match lbSplit s with
  | [w, tl, tg, tz, sc, wk, ol, og, oz] => do
    some { w := ← lbNat? w, tlow := ← lbNat? tl, tsegs := ← lbNat? tg, tsize := ← lbNat? tz, secs := ← lbNat? sc,
           work := ← lbBool? wk, olow := ← lbNat? ol, osegs := ← lbNat? og, osize := ← lbNat? oz }
  | _ => none

def lbParseAll {α} (p : String → Option α) : List String → Nat → Except Nat (List α)
  | [], _ => .ok []
  | s :: ss, i => match p s with
    | none => .error i
    | some e => match lbParseAll p ss (i + 1) with
      | .ok es => .ok (e :: es)
      | .error j => .error j

/-- `ok n lo hi sum`: number of chunks, covered range (`lo` = start, `hi` = end of the last chunk), sum -/
def lbVerdict {σ ε} (S : Sys σ ε) (s0 : σ) (evs : List ε) (start : Nat) (sum : σ → List ε → Int)
    (why : σ → ε → String) : String :=
  if S.accepts s0 evs then
    let cs := S.chunks evs
    let hi := match cs.getLast? with | some c => c.2 | none => start
    s!"ok {cs.length} {start} {hi} {sum (S.final s0 evs) evs}"
  else
    match S.firstBad s0 evs 0 with
    | some i =>
      let s := S.final s0 (evs.take i)
      match evs[i]? with
      | some e => s!"reject {i} {why s e}"
      | none => s!"reject {i} ?"
    | none => "reject ? ?"

/-- contribution of chunk [a,b): G b - G a with G n = F (max n zthr), F n = n*n + n (as in the harness) -/
def lbG (zthr n : Nat) : Int := let m := max n zthr; (m * m + m : Nat)
def lbContrib (zthr : Nat) (c : Chunk) : Int := lbG zthr c.2 - lbG zthr c.1

def lbs2Check (a : List String) : String :=
  match a with
  | x :: lim :: thr :: pr :: evs =>
    match lbNat? x, lbNat? lim, lbNat? thr, lbBool? pr with
    | some x, some lim, some thr, some pr =>
      match lbParseAll parseS2Ev evs 0 with
      | .error i => s!"reject {i} malformed-or-negative-field"
      | .ok es =>
        let cfg := S2.mkConfig genConsts lim thr pr
        lbVerdict (S2.sys cfg) (S2.init genConsts x lim thr pr) es 0 (fun s _ => s.sum) (S2.reason cfg)
    | _, _, _, _ => "ERR:proto"
  | _ => "ERR:proto"

def lbp2Check (a : List String) : String :=
  match a with
  | x :: lim :: thr :: pr :: team :: zt :: evs =>
    match lbNat? x, lbNat? lim, lbNat? thr, lbBool? pr, lbNat? team, lbNat? zt with
    | some x, some lim, some thr, some pr, some team, some zt =>
      if !P2.teamOk genConsts x lim thr team then "reject 0 team-size-not-a-possible-ideal_num_threads" else
      match lbParseAll parseP2Ev evs 0 with
      | .error i => s!"reject {i} malformed-or-negative-field"
      | .ok es =>
        let cfg : P2.Config := { limit := lim, threads := team, print := pr }
        let s0 := P2.init genConsts x lim team
        lbVerdict (P2.sys cfg) s0 es s0.low (fun _ es => sumF (lbContrib zt) ((P2.sys cfg).chunks es)) (P2.reason cfg)
    | _, _, _, _, _, _ => "ERR:proto"
  | _ => "ERR:proto"

def lbacCheck (a : List String) : String :=
  match a with
  | sq :: y :: thr :: pr :: zt :: evs =>
    match lbNat? sq, lbNat? y, lbNat? thr, lbBool? pr, lbNat? zt with
    | some sq, some y, some thr, some pr, some zt =>
      match lbParseAll parseACEv evs 0 with
      | .error i => s!"reject {i} malformed-or-negative-field"
      | .ok es =>
        let cfg := AC.mkConfig genConsts sq y thr pr
        lbVerdict (AC.sys cfg) (AC.init genConsts sq thr pr) es 0
          (fun _ es => sumF (lbContrib zt) ((AC.sys cfg).chunks es)) (AC.reason cfg)
    | _, _, _, _, _ => "ERR:proto"
  | _ => "ERR:proto"

def dispenserOps : String → Option (List String → String)
  | "lbs2_check" => some lbs2Check
  | "lbp2_check" => some lbp2Check
  | "lbac_check" => some lbacCheck
  | _ => none

end Pc.Drv
