/-
Driver ops of C18 (WP iter): the L2 model of the primesieve iterator / API layer (PcModel/Iter.lean) executed over the
proved window-sieve oracle (PcModel/IterExec.lean), against harness/ops_iter.cpp.

  it_m <v|w> <start> <hint> <sizes|-> <script…>
      script tokens: n | p | g | G | n*K | p*K | j:<start>:<hint> | c
      (next_prime, prev_prime, generate_next_primes, generate_prev_primes, K repetitions, jump_to, clear)
      sizes = comma separated sizes of the non-empty fillNextPrimes batches observed on the real iterator (admissible
      choice: the model takes `min(size, what the window still holds)`), `-` = none
      -> one token per op: the returned prime | g:<size_>:<primes_[0]>:<primes_[size_-1]> | G:… | j | c, `ERR:ps` ends the
         history; then ` | ` and the batch sizes the model used. Mode `w` appends `@i_/size_/start_/stop/dist/incl/gen` to
         every token (exact mirror of the float-derived window bounds).
  it_abs <start> <hint> <script…>   the ABSTRACT cursor (spec side of `history_correct`), only n / p / j / c tokens
  pscount <a> <b> <threads>         parCount over the model's thread intervals
  psintervals <a> <b> <threads>     the intervals `s:e` ParallelSieve::sieve() hands out
  psgen <u64|i64|u32|i32> <a> <b>   store_primes  -> `<count> <first> <last> <sum mod 2^64>` | ERR:ps (too narrow)
  psgenn <u64|i64|u32|i32> <n> <start> <nthHint>   store_n_primes (same summary)
  psnth_m <n> <start> <piApprox> <nthApprox>      PrimeSieve::nthPrime with the two approximations as reported
  pcgen <max>, pcgenn <n> <nthHint>  primecount's generate_primes_i64(max) / generate_n_primes_i64(n) summaries
-/
import PcModel.IterExec
namespace Pc.Drv
open Pc.It

def itErr : Err → String
  | .ps => "ERR:ps" | .oob => "ERR:oob" | .hang => "ERR:hang"

def itStateSuffix (w : Bool) (s : St) : String :=
  if !w then "" else
  s!"@{s.i}/{s.size}/{s.start}/{s.mem.stop}/{s.mem.dist}/{if s.mem.incl then 1 else 0}/{if s.mem.gen.isSome then 1 else 0}"

def itU64 (s : String) : Option Nat :=
  match s.toNat? with
  | some v => if v ≤ umax then some v else none
  | none => none

/-- expand `n*K` / `p*K` -/
def itExpand (toks : List String) : List String :=
  toks.flatMap fun t => match t.splitOn "*" with
    | [a, k] => match k.toNat? with
      | some k => List.replicate k a
      | none => [t]
    | _ => [t]

def itBufSummary (tag : String) (s : St) : String :=
  s!"{tag}:{s.size}:{s.buf.headD 0}:{s.buf.getLastD 0}"

/-- run the script; returns the output tokens (reversed accumulation), the batch sizes used -/
def itRun (e : Env) (w : Bool) : List String → St → List String → List Nat → List String × List Nat
  | [], _, out, sz => (out.reverse, sz.reverse)
  | t :: ts, s, out, sz =>
    let fin (tok : String) (s' : St) : List String × List Nat :=
      let sz' := if s'.tick > s.tick then s'.size :: sz else sz
      itRun e w ts s' ((tok ++ itStateSuffix w s') :: out) sz'
    let stop (err : Err) : List String × List Nat := ((itErr err :: out).reverse, sz.reverse)
    if t == "n" then
      match nextPrime e s with
      | .error err => stop err
      | .ok (p, s') => fin (toString p) s'
    else if t == "p" then
      match prevPrime e s with
      | .error err => stop err
      | .ok (p, s') => fin (toString p) s'
    else if t == "g" then
      match genNext e bigFuel s with
      | .error err => stop err
      | .ok s' => fin (itBufSummary "g" s') s'
    else if t == "G" then
      match genPrev e bigFuel s with
      | .error err => stop err
      | .ok s' => fin (itBufSummary "G" s') s'
    else if t == "c" then fin "c" (clear s)
    else match t.splitOn ":" with
      | ["j", a, h] => match itU64 a, itU64 h with
        | some a, some h => fin "j" (jumpTo s a h)
        | _, _ => (("ERR:proto" :: out).reverse, sz.reverse)
      | _ => (("ERR:proto" :: out).reverse, sz.reverse)

def itFinish (r : List String × List Nat) : String :=
  if r.1.any (fun t => (t.splitOn (toString poison)).length > 1) then "ERR:model-bound" else
  " ".intercalate r.1 ++ " | " ++ " ".intercalate (r.2.map toString)

def itModel (a : List String) : String :=
  match a with
  | mode :: start :: hint :: sizes :: script =>
    match itU64 start, itU64 hint with
    | some start, some hint =>
      let szs : Array Nat := if sizes == "-" then #[] else ((sizes.splitOn ",").filterMap (·.toNat?)).toArray
      itFinish (itRun (execEnv szs) (mode == "w") (itExpand script) (init start hint) [] [])
    | _, _ => "ERR:proto"
  | _ => "ERR:proto"

/-! ### the abstract cursor, executable

State: `cur` = the value at the cursor (none right after a jump), `ahead` = the next primes above it (increasing, consecutive,
known up to `hiNext - 1`), `behind` = the primes below it (decreasing, consecutive, known down to `loNext + 1`; `loNext = none`
= nothing below is left). Both lists are extended lazily from the proved oracle, 2048 primes / one window at a time. -/

structure AbsSt where
  cur : Option Nat
  ahead : List Nat
  hiNext : Nat
  behind : List Nat
  loNext : Option Nat

def absFresh (s : Nat) : AbsSt := ⟨none, [], s, [], some s⟩

/-- the primes `<= m`, next window downwards: (decreasing list, new `loNext`) -/
def absDown : Nat → Nat → List Nat × Option Nat
  | 0, _ => ([], none)
  | fuel + 1, m =>
    if m < 2 then ([], none) else
    let w := if m ≥ sieveCap then 4095 else max 65535 (Nat.sqrt m)
    let lo := m - min m w
    let c := pgPrimes execCore lo m
    if c.isEmpty then (if lo = 0 then ([], none) else absDown fuel (lo - 1))
    else (c.reverse, if lo = 0 then none else some (lo - 1))

def itAbsRun : List String → AbsSt → List String → List String
  | [], _, out => out.reverse
  | t :: ts, st, out =>
    if t == "n" then
      let (ahead, hiNext) := if st.ahead.isEmpty then
          (if st.hiNext > umax then ([], st.hiNext) else
           let c := execFirstK st.hiNext umax 2048
           (c, c.getLastD 0 + 1))
        else (st.ahead, st.hiNext)
      match ahead with
      | [] => ("ERR:ps" :: out).reverse
      | p :: rest =>
        let behind := match st.cur with
          | some c => if c = 0 then st.behind else c :: st.behind
          | none => st.behind
        -- right after a jump to `s` the primes below the cursor are those `<= s - 1` once the first prime `>= s` is taken:
        -- `loNext = some s` may include `s` itself, which is `p` when `s` is prime
        let loNext := match st.cur, st.loNext with
          | none, some m => if m ≥ p then (if p = 0 then none else some (p - 1)) else some m
          | _, l => l
        itAbsRun ts ⟨some p, rest, hiNext, behind, loNext⟩ (toString p :: out)
    else if t == "p" then
      let (behind, loNext) := if st.behind.isEmpty then
          match st.loNext with
          | none => ([], none)
          | some m => absDown (m / 4096 + 2) m
        else (st.behind, st.loNext)
      let ahead := match st.cur with
        | some c => if c = 0 then st.ahead else c :: st.ahead
        | none => st.ahead
      match behind with
      | [] =>
        -- nothing below: 0; right after a jump the primes above are those `>= s`, still described by `hiNext`
        itAbsRun ts ⟨some 0, ahead, st.hiNext, [], none⟩ ("0" :: out)
      | q :: rest =>
        -- right after a jump to `s`: `hiNext = s` may include `s` itself, which is `q` when `s` is prime
        let hiNext := match st.cur with
          | none => if st.hiNext ≤ q then q + 1 else st.hiNext
          | some _ => st.hiNext
        itAbsRun ts ⟨some q, ahead, hiNext, rest, loNext⟩ (toString q :: out)
    else if t == "c" then itAbsRun ts (absFresh 0) ("c" :: out)
    else match t.splitOn ":" with
      | ["j", a, _] => match itU64 a with
        | some a => itAbsRun ts (absFresh a) ("j" :: out)
        | none => ("ERR:proto" :: out).reverse
      | _ => ("ERR:proto" :: out).reverse

def itAbs (a : List String) : String :=
  match a with
  | start :: _hint :: script =>
    match itU64 start with
    | some start =>
      let r := itAbsRun (itExpand script) (absFresh start) []
      if r.any (fun t => t == toString poison) then "ERR:model-bound" else " ".intercalate r
    | none => "ERR:proto"
  | _ => "ERR:proto"

/-! ### counting, storing, nth prime -/

def psCountOp (a : List String) : String :=
  match a.map String.toNat? with
  | [some a, some b, some t] =>
    if a > umax ∨ b > umax ∨ t = 0 then "ERR:proto" else
    toString (parCount (sieveCount execCountCore) (Nat.sqrt b) a b t)
  | _ => "ERR:proto"

def psIntervalsOp (a : List String) : String :=
  match a.map String.toNat? with
  | [some a, some b, some t] =>
    if a > umax ∨ b > umax ∨ t = 0 then "ERR:proto" else
    if a > b then "-" else
    let isq := Nat.sqrt b
    let threads := idealNumThreads isq a b t
    if threads = 1 then s!"{a}:{b}" else
    let td := getThreadDistance isq (b - a) threads
    let iters := (b - a - 1) / td + 1
    -- long lists: N=<iters> td=<threadDist>, then the first 6 and the last 6 intervals (same rule as the harness)
    let idx := if iters > 400 then List.range 6 ++ (List.range 6).map (iters - 6 + ·) else List.range iters
    let l := idx.map (threadInterval a b td)
    let body := " ".intercalate (l.map fun p => s!"{p.1}:{p.2}")
    if iters > 400 then s!"N={iters} td={td} " ++ body else body
  | _ => "ERR:proto"

def vmaxOf : String → Option Nat
  | "u64" => some umax | "i64" => some 9223372036854775807
  | "u32" => some 4294967295 | "i32" => some 2147483647
  | _ => none

def psSummary (l : List Nat) : String :=
  if l.contains poison then "ERR:model-bound" else
  s!"{l.length} {l.headD 0} {l.getLastD 0} {(l.foldl (· + ·) 0) % two64}"

def sErrStr : SErr → String
  | .narrow => "ERR:ps"
  | .iter e => itErr e

def psGenOp (a : List String) : String :=
  match a with
  | [ty, x, y] => match vmaxOf ty, itU64 x, itU64 y with
    | some vm, some x, some y =>
      match storePrimes (execEnv #[]) vm x y with
      | .ok l => psSummary l
      | .error e => sErrStr e
    | _, _, _ => "ERR:proto"
  | _ => "ERR:proto"

def psGenNOp (a : List String) : String :=
  match a with
  | [ty, n, start, h] => match vmaxOf ty, itU64 n, itU64 start, itU64 h with
    | some vm, some n, some start, some h =>
      match storeNPrimes (execEnv #[]) vm n start h with
      | .ok l => psSummary l
      | .error e => sErrStr e
    | _, _, _, _ => "ERR:proto"
  | _ => "ERR:proto"

def pcGenOp (a : List String) : String :=
  match a with
  | [x] => match itU64 x with
    | some x => match pcGeneratePrimes (execEnv #[]) 9223372036854775807 x with
      | .ok l => psSummary l
      | .error e => sErrStr e
    | none => "ERR:proto"
  | _ => "ERR:proto"

def pcGenNOp (a : List String) : String :=
  match a with
  | [n, h] => match itU64 n, itU64 h with
    | some n, some h => match pcGenerateNPrimes (execEnv #[]) 9223372036854775807 n h with
      | .ok l => psSummary l
      | .error e => sErrStr e
    | _, _ => "ERR:proto"
  | _ => "ERR:proto"

def psNthOp (a : List String) : String :=
  match a with
  | [n, start, pa, na] =>
    match parseInt? n, itU64 start, itU64 pa, itU64 na with
    | some n, some start, some pa, some na =>
      let nf : NthFloats := ⟨fun _ => pa, fun _ => na, avgPrimeGapF, Nat.sqrt⟩
      match nthPrime (execEnv #[]) nf (sieveCount execCountCore) n start with
      | .ok p => if p == poison then "ERR:model-bound" else toString p
      | .error (.iter e) => itErr e
      | .error _ => "ERR:ps"
    | _, _, _, _ => "ERR:proto"
  | _ => "ERR:proto"

def iterOps : String → Option (List String → String)
  | "it_m" => some itModel
  | "it_abs" => some itAbs
  | "pscount" => some psCountOp
  | "psintervals" => some psIntervalsOp
  | "psgen" => some psGenOp
  | "psgenn" => some psGenNOp
  | "pcgen" => some pcGenOp
  | "pcgenn" => some pcGenNOp
  | "psnth_m" => some psNthOp
  | _ => none

end Pc.Drv
