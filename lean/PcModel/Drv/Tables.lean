import PcModel.PiTable
import PcModel.Oracle
/-!
Op handlers of the lookup-table half of C17 (PiTable, SegmentedPiTable, FactorTable(D), generate_*,
BinaryIndexedTree).  Two families of answers:
* mirror ops (`pit`, `pitraw`, `pithash`, `segpi`, `ft`, `ftd`, `gen*`, `bit`, ...): the L2 models of
  PcModel/PiTable.lean, instantiated with the stand-in prime generator `primesRange` below;
* spec ops (`*spec`): the values the property demands (π, μ, lpf by the independent oracles of
  PcModel/Oracle.lean and by trial division), never touching the models.
-/
namespace Pc.Drv

/-! ### stand-in for primesieve: segmented byte sieve (independent of PcModel/Oracle.lean) -/

/-- `for (j = start; j < len; j += step) s[j] = 0` -/
def crossBytes (step len : Nat) : Nat → Nat → ByteArray → ByteArray
  | 0, _, s => s
  | fuel + 1, j, s => if j < len then crossBytes step len fuel (j + step) (s.set! j 0) else s

/-- primes `≤ n` (plain byte sieve) -/
def smallPrimes (n : Nat) : Array Nat := Id.run do
  let mut s : ByteArray := ByteArray.mk (Array.replicate (n + 1) 1)
  let mut out : Array Nat := #[]
  for i in [2:n+1] do
    if s.get! i == 1 then
      out := out.push i
      s := crossBytes i (n + 1) (n + 1) (i * i) s
  return out

/-- the primes `p` with `lo ≤ p < hi`, increasing -/
def primesRange (lo hi : Nat) : List Nat := Id.run do
  if hi ≤ lo then return []
  let len := hi - lo
  let base := smallPrimes (Nat.sqrt (hi - 1) + 1)
  let mut s : ByteArray := ByteArray.mk (Array.replicate len 1)
  for p in base do
    if p * p < hi then
      let start := max (p * p) ((lo + p - 1) / p * p)
      s := crossBytes p len len (start - lo) s
  let mut out : List Nat := []
  for k in [0:len] do
    let j := len - 1 - k
    if s.get! j == 1 && lo + j ≥ 2 then out := (lo + j) :: out
  return out

/-- π(n) through `primesRange` (stand-in for `pi_noprint`) -/
def piStandIn (n : Nat) : Nat := (primesRange 0 (n + 1)).length

/-! ### helpers -/

def natArgsT (a : List String) : Option (List Nat) := a.mapM String.toNat?

def joinNat (l : List Nat) : String := " ".intercalate (l.map toString)

def optNat : Option Nat → String
  | some v => toString v
  | none => "U"

def mixHash (h v : Nat) : Nat := (h * 6364136223846793005 + v + 1442695040888963407) % 2 ^ 64

def wordStr : Option (Nat × Nat) → String
  | some (c, b) => s!"{c}:{b}"
  | none => "U"

/-- (number of words, hash over count, bits of every word; an unwritten word hashes as 2^64-1 twice) -/
def wordsHash (ws : Array (Option (Nat × Nat))) : String :=
  let h := ws.foldl (fun h w => match w with
    | some (c, b) => mixHash (mixHash h c) b
    | none => mixHash (mixHash h (2 ^ 64 - 1)) (2 ^ 64 - 1)) 0
  s!"{ws.size} {h}"

/-! ### PiTable -/

def pitOp (a : List String) : String :=
  match a with
  | mx :: thr :: qs => match mx.toNat?, parseInt? thr, natArgsT qs with
    | some mx, some thr, some qs =>
      let t := PiTable.new primesRange mx thr
      " ".intercalate (qs.map fun q => optNat (t.get q))
    | _, _, _ => "ERR:proto"
  | _ => "ERR:proto"

def pitRawOp (a : List String) : String :=
  match a with
  | [mx, thr] => match mx.toNat?, parseInt? thr with
    | some mx, some thr =>
      let t := PiTable.new primesRange mx thr
      " ".intercalate (toString t.words.size :: t.words.toList.map wordStr)
    | _, _ => "ERR:proto"
  | _ => "ERR:proto"

def pitHashOp (a : List String) : String :=
  match a with
  | [mx, thr] => match mx.toNat?, parseInt? thr with
    | some mx, some thr => wordsHash (PiTable.new primesRange mx thr).words
    | _, _ => "ERR:proto"
  | _ => "ERR:proto"

/-- spec answer to `pit max_x threads n...`: π(n) from the oracle sieve (`U` beyond `max_x`) -/
def pitSpecOp (a : List String) : String :=
  match a with
  | mx :: _ :: qs => match mx.toNat?, natArgsT qs with
    | some mx, some qs =>
      let tbl := piTableArr mx
      " ".intercalate (qs.map fun q => if q ≤ mx then toString (tbl.getD q 0) else "U")
    | _, _ => "ERR:proto"
  | _ => "ERR:proto"

/-- thread ranges of `PiTable::init`: "threads thread_dist low0:high0 low1:high1 ..." (active ones) -/
def pitRangesOp (a : List String) : String :=
  match a with
  | [mx, thr] => match mx.toNat?, parseInt? thr with
    | some mx, some thr =>
      let limit := mx + 1
      if limit ≤ piCacheLimit then "0 0" else
      let (n, td) := piThreadParams limit thr
      let rs := (List.range n).filterMap fun t =>
        let (lo, hi) := piThreadRange limit td t
        if lo < hi then some s!"{lo}:{hi}" else none
      " ".intercalate (toString n :: toString td :: rs)
    | _, _ => "ERR:proto"
  | _ => "ERR:proto"

def piCacheOp (a : List String) : String :=
  match a with
  | [x] => match x.toNat? with
    | some x => if x < 240 * PcGen.piCache.size then toString (piCacheLookup PcGen.piCache x) else "ERR:domain"
    | none => "ERR:proto"
  | _ => "ERR:proto"

def piSpecOp (a : List String) : String :=
  match a with
  | [x] => match x.toNat? with
    | some x => toString (piSieve x)
    | none => "ERR:proto"
  | _ => "ERR:proto"

def piCacheRangeOp (a : List String) : String :=
  match natArgsT a with
  | some [lo, hi] => if hi > 240 * PcGen.piCache.size then "ERR:domain" else
      joinNat ((List.range (hi - lo)).map fun k => piCacheLookup PcGen.piCache (lo + k))
  | _ => "ERR:proto"

def piSpecRangeOp (a : List String) : String :=
  match natArgsT a with
  | some [lo, hi] =>
      let tbl := piTableArr hi
      joinNat ((List.range (hi - lo)).map fun k => tbl.getD (lo + k) 0)
  | _ => "ERR:proto"

/-! ### SegmentedPiTable: tokens `L:H` = init(L, H), `r` = raw dump of the current words, `n` = query -/

inductive SegTok where
  | init (lo hi : Nat) | raw | query (x : Nat)

def parseSegTok (s : String) : Option SegTok :=
  if s == "r" then some .raw else
  match s.splitOn ":" with
  | [l, h] => do some (.init (← l.toNat?) (← h.toNat?))
  | [q] => do some (.query (← q.toNat?))
  | _ => none

def segWordsStr (ws : Array (Nat × Nat)) : String :=
  ",".intercalate (ws.toList.map fun (c, b) => s!"{c}:{b}")

/-- runs the token sequence on the model; an ASSERT violation ends the run with `ERR:assert` -/
def segRun (piNoprint : Nat → Nat) (toks : List SegTok) : String :=
  let rec go : List SegTok → SegPi → List String → String
    | [], _, acc => " ".intercalate acc.reverse
    | .init lo hi :: rest, s, acc => match s.init piNoprint primesRange lo hi with
      | some s' => go rest s' acc
      | none => " ".intercalate (("ERR:assert" :: acc).reverse)
    | .raw :: rest, s, acc => go rest s (s!"[{s.low},{s.high},{segWordsStr s.words}]" :: acc)
    | .query x :: rest, s, acc => match s.get x with
      | some v => go rest s (toString v :: acc)
      | none => " ".intercalate (("ERR:assert" :: acc).reverse)
  go toks {} []

def segPiOp (a : List String) : String :=
  match a.mapM parseSegTok with
  | some toks => segRun piStandIn toks
  | none => "ERR:proto"

/-- spec: every query token answers π(x) (for `x` inside the current segment), `r` tokens are not allowed -/
def segPiSpecOp (a : List String) : String :=
  match a.mapM parseSegTok with
  | some toks =>
    let mx := toks.foldl (fun m t => match t with | .query x => max m x | _ => m) 0
    let tbl := piTableArr mx
    " ".intercalate (toks.filterMap fun t => match t with
      | .query x => some (toString (tbl.getD x 0)) | _ => none)
  | none => "ERR:proto"

/-! ### FactorTable / FactorTableD -/

def tmaxOf (bits : Nat) : Nat := 2 ^ bits - 1

def ftDump : Option FtArr → String
  | none => "ERR:pc"
  | some a => " ".intercalate (toString a.size :: a.toList.map optNat)

def ftHash : Option FtArr → String
  | none => "ERR:pc"
  | some a => s!"{a.size} {a.foldl (fun h v => mixHash h (v.getD (2 ^ 64 - 1))) 0}"

def ftArgs (a : List String) (k : Nat) : Option (List Int × Nat) :=
  match a.mapM parseInt? with
  | some l => if l.length = k + 1 then
      let bits := (l.getLast!).toNat
      if bits = 16 ∨ bits = 32 then some (l.take k, bits) else none
    else none
  | none => none

def ftOp (dump : Option FtArr → String) (a : List String) : String :=
  match ftArgs a 2 with
  | some ([y, thr], bits) => dump (factorTableNew primesRange (tmaxOf bits) y thr)
  | _ => "ERR:proto"

def ftPinnedOp (a : List String) : String :=
  match ftArgs a 2 with
  | some ([y, thr], bits) => ftDump (factorTableNewPinned primesRange (tmaxOf bits) y thr)
  | _ => "ERR:proto"

def ftdOp (dump : Option FtArr → String) (a : List String) : String :=
  match ftArgs a 3 with
  | some ([y, z, thr], bits) => dump (factorTableDNew primesRange (tmaxOf bits) y z thr)
  | _ => "ERR:proto"

/-- least prime factor by trial division (`n ≥ 2`) -/
def lpfTD (n : Nat) : Nat :=
  let rec go : Nat → Nat → Nat
    | 0, _ => n
    | fuel + 1, d => if d * d > n then n else if n % d == 0 then d else go fuel (d + 1)
  go n 2

/-- (μ(n), list of prime factors) by repeated trial division -/
def factorTD (n : Nat) : List Nat :=
  let rec go : Nat → Nat → List Nat → List Nat
    | 0, _, acc => acc.reverse
    | fuel + 1, m, acc => if m ≤ 1 then acc.reverse else
        let p := lpfTD m
        go fuel (m / p) (p :: acc)
  go (n + 1) n []

def muTD (n : Nat) : Int :=
  let fs := factorTD n
  if fs.eraseDups.length ≠ fs.length then 0 else if fs.length % 2 == 0 then 1 else -1

/-- the documented encoding: T_MAX-1 for 1, T_MAX for primes, 0 if μ = 0 (or, for FactorTableD, a prime
    factor `> y`), lpf-1 if μ = 1, lpf if μ = -1 -/
def ftEncode (tmax : Nat) (ylim : Option Nat) (n : Nat) : Nat :=
  if n == 1 then tmax - 1 else
  let fs := factorTD n
  let big := match ylim with | some y => fs.any (· > y) | none => false
  if big then 0
  else if fs.length == 1 then tmax
  else match muTD n with
    | 0 => 0
    | 1 => lpfTD n - 1
    | _ => lpfTD n

def coprimesUpTo (y : Nat) : List Nat := (List.range (y + 1)).filter fun n => n ≥ 1 && coprime2310 n

def ftSpecOp (a : List String) : String :=
  match ftArgs a 2 with
  | some ([y, _], bits) =>
    let tmax := tmaxOf bits
    if y > ftMax tmax then "ERR:pc" else
    let ns := coprimesUpTo (max 1 y).toNat
    " ".intercalate (toString ns.length :: ns.map fun n => toString (ftEncode tmax none n))
  | _ => "ERR:proto"

def ftdSpecOp (a : List String) : String :=
  match ftArgs a 3 with
  | some ([y, z, _], bits) =>
    let tmax := tmaxOf bits
    if z > ftMax tmax then "ERR:pc" else
    let ns := coprimesUpTo (max 1 z).toNat
    " ".intercalate (toString ns.length :: ns.map fun n => toString (ftEncode tmax (some (max 0 y).toNat) n))
  | _ => "ERR:proto"

/-- single entries of the documented encoding: `ftspecat <bits> n…` / `ftdspecat <y> <bits> n…` (used by the witness search
    to judge ONE entry of a table that is too large for `ftspec` / `ftdspec`) -/
def ftSpecAtOp (withY : Bool) (a : List String) : String :=
  match a.mapM parseInt? with
  | some l =>
    let (y?, rest) := if withY then (l.head?.map fun y => (max 0 y).toNat, l.drop 1) else (none, l)
    match rest with
    | bits :: ns =>
      if bits = 16 ∨ bits = 32 then
        " ".intercalate (ns.map fun n => toString (ftEncode (tmaxOf bits.toNat) y? n.toNat))
      else "ERR:proto"
    | _ => "ERR:proto"
  | none => "ERR:proto"

/-- `to_index n` / `to_number i` -/
def ftIdxOp (a : List String) : String :=
  match natArgsT a with
  | some [n] => if n == 0 then "ERR:assert" else toString (ftToIndex n)
  | _ => "ERR:proto"

def ftNumOp (a : List String) : String :=
  match natArgsT a with
  | some [i] => toString (ftToNumber i)
  | _ => "ERR:proto"

/-- spec of `to_index n`: (number of `m ≤ n` coprime to 2310) - 1 -/
def ftIdxSpecOp (a : List String) : String :=
  match natArgsT a with
  | some [n] => if n == 0 then "ERR:assert" else toString ((coprimesUpTo n).length - 1)
  | _ => "ERR:proto"

/-- spec of `to_number i`: the (i+1)-th number coprime to 2310 -/
def ftNumSpecOp (a : List String) : String :=
  match natArgsT a with
  | some [i] => toString ((coprimesUpTo (2310 * (i / 480 + 1))).getD i 0)
  | _ => "ERR:proto"

/-! ### generate_* -/

def genOp (f : Nat → String) (a : List String) : String :=
  match natArgsT a with
  | some [n] => f n
  | _ => "ERR:proto"

def genPiSpec (n : Nat) : String :=
  let t := piTableArr n
  joinNat ((List.range (n + 1)).map fun i => t.getD i 0)

def genLpfSpec (n : Nat) : String :=
  joinNat ((List.range (n + 1)).map fun i => if i == 0 then 1 else if i == 1 then int32Max else lpfTD i)

def genMuSpec (n : Nat) : String :=
  " ".intercalate ((List.range (n + 1)).map fun i => if i == 0 then "1" else toString (muTD i))

def genMpfSpec (n : Nat) : String :=
  joinNat ((List.range (n + 1)).map fun i => if i ≤ 1 then 1 else (factorTD i).foldl max 1)

/-! ### BinaryIndexedTree: `bit <sieve as 0/1 string> tok...`, tok = `u:pos` | `c:low:high` -/

def bitOp (spec : Bool) (a : List String) : String :=
  match a with
  | sv :: toks =>
    let sieve : Array Nat := (sv.toList.map fun c => if c == '1' then 1 else 0).toArray
    let rec go : List String → Bit → Array Nat → List String → String
      | [], _, _, acc => " ".intercalate acc.reverse
      | t :: rest, b, sv, acc => match t.splitOn ":" |>.map String.toNat? with
        | [none, some pos] =>  -- u:pos
          match b.update pos with
          | some b' => go rest b' (sv.setIfInBounds pos 0) acc
          | none => " ".intercalate (("ERR:oob" :: acc).reverse)
        | [none, some lo, some hi] =>  -- c:low:high
          if spec then
            let n := (List.range (hi - lo + 1)).foldl (fun s j => s + sv.getD j 0) 0
            go rest b sv (toString n :: acc)
          else match b.count lo hi with
          | some v => go rest b sv (toString v :: acc)
          | none => " ".intercalate (("ERR:oob" :: acc).reverse)
        | _ => "ERR:proto"
    go toks (Bit.init sieve) sieve []
  | _ => "ERR:proto"

def tablesOps : String → Option (List String → String)
  | "pit" => some pitOp
  | "pitraw" => some pitRawOp
  | "pithash" => some pitHashOp
  | "pitspec" => some pitSpecOp
  | "pitranges" => some pitRangesOp
  | "picache" => some piCacheOp
  | "pispec" => some piSpecOp
  | "picacher" => some piCacheRangeOp
  | "pispecr" => some piSpecRangeOp
  | "segpi" => some segPiOp
  | "segpispec" => some segPiSpecOp
  | "ft" => some (ftOp ftDump)
  | "fthash" => some (ftOp ftHash)
  | "ftpinned" => some ftPinnedOp
  | "ftd" => some (ftdOp ftDump)
  | "ftdhash" => some (ftdOp ftHash)
  | "ftspec" => some ftSpecOp
  | "ftdspec" => some ftdSpecOp
  | "ftspecat" => some (ftSpecAtOp false)
  | "ftdspecat" => some (ftSpecAtOp true)
  | "ftidx" => some ftIdxOp
  | "ftnum" => some ftNumOp
  | "ftidxspec" => some ftIdxSpecOp
  | "ftnumspec" => some ftNumSpecOp
  | "genpi" => some (genOp fun n => joinNat (generatePi n).toList)
  | "genlpf" => some (genOp fun n => joinNat (generateLpf n).toList)
  | "genmu" => some (genOp fun n => " ".intercalate ((generateMoebius n).toList.map toString))
  | "genmpf" => some (genOp fun n => joinNat (generateMpf n).toList)
  | "genprimes" => some (genOp fun n => joinNat (0 :: primesRange 0 (n + 1)))
  | "genpispec" => some (genOp genPiSpec)
  | "genlpfspec" => some (genOp genLpfSpec)
  | "genmuspec" => some (genOp genMuSpec)
  | "genmpfspec" => some (genOp genMpfSpec)
  | "genprimesspec" => some (genOp fun n => joinNat (0 :: primesUpTo n))
  | "bit" => some (bitOp false)
  | "bitspec" => some (bitOp true)
  | _ => none

end Pc.Drv
