/-
Driver ops of the A + C mirror of PcModel/EasyAC.lean (wp-easy).  Harness side: harness/ops_easyac.cpp (`ac_a`, `ac_c2`, `ac_c1`,
`AC_plain`) and the existing op `AC` of ops_alg.cpp (the LIBRARY's function = AC_libdivide.cpp in the pinned configuration;
renamed to `AC_loop` / `AC_segs` by the streams).
-/
import PcModel.EasyAC
import PcModel.Drv.EasyLoops
namespace Pc.Drv
open Pc.Easy

/-- kernel selector of the per-(segment, b) ops: `p` = AC.cpp for the width, `k64` / `k128` = the AC_libdivide.cpp kernels -/
def acKernOf (w : ITy) : String → Option Kern
  | "p" => some (plainKern w) | "k64" => some .ld64 | "k128" => some .ld128 | _ => none

/-- `max_a_prime = isqrt(x / x_star)` -/
def acMaxAPrime (x y : Nat) : Nat := isqrtN (x / max (xStar x y) 1)

/-- table for the AC ops: primes up to `max(max_a_prime, y)`, `pi[]` up to `max(z, max_a_prime)`, segments up to `top` -/
def acBound (x y z top : Nat) : Nat := max (max (acMaxAPrime x y) y) (max z top)

/-- the segment size the mirror runs with (any segmentation gives the same value: `ac_segments_irrelevant`) -/
def acSegSize (sqrtx : Nat) : Nat := 240 * (isqrtN sqrtx / 240 + 1)

def acDomain (w : ITy) (x y z : Nat) : Bool :=
  decide (x ≤ w.maxVal) && decide (y ≤ ITy.i64.maxVal) && decide (z ≤ ITy.i64.maxVal) && decide (1 ≤ y) && decide (1 ≤ z)

/-- `<w> <p|k64|k128> x y z b low high`: A (`c2 = false`) or C2 for one (segment, b) -/
def acSegOp (c2 : Bool) (a : List String) : String :=
  match widthOf (a.headD ""), natArgs (a.drop 2) with
  | some w, some [x, y, z, b, low, high] => match acKernOf w (a.getD 1 "") with
    | some k =>
      if !acDomain w x y z ∨ low % 240 ≠ 0 ∨ high ≤ low then "ERR:domain" else
      withLeafTable (acBound x y z high) fun t =>
        let size := t.piOf (max (acMaxAPrime x y) y) + 1
        if b < 1 ∨ b ≥ size then "ERR:domain" else
        if k = .ld64 ∧ x / t.p b > ITy.u64.maxVal then "ERR:domain" else
        if c2 then
          match acC2 k t size (max z (acMaxAPrime x y)) low high x (x / max low 1) (x / high) y b with
          | .ok (sc, ss) => toString (sc + ss)
          | .error e => e.toString
        else showEM (acA k t size (max z (acMaxAPrime x y)) low high x (x / max low 1) (x / high) y b)
    | none => "ERR:proto"
  | _, _ => "ERR:proto"

/-- whole call `<w> x y z k _` with the segment size `seg` (default `acSegSize`) -/
def acWhole (f : ACFile) (a : List String) (seg : Option Nat) : String :=
  match widthOf (a.headD ""), natArgs ((a.drop 1).take 4) with
  | some w, some [x, y, z, k] =>
    if !acDomain w x y z then "ERR:domain" else
    let sqrtx := isqrtN x
    let ss := match seg with | some s => 240 * (s / 240 + 1) | none => acSegSize sqrtx
    withLeafTable (acBound x y z sqrtx) fun t =>
      showEM (acEntry f t w x y z k (easySched (c1Lo t x z k) (c1Hi t z) 1) (uniformSegs sqrtx ss))
  | _, _ => "ERR:proto"

def easyACOps : String → Option (List String → String)
  -- ac_a_p <w> x y z b low high : A of AC.cpp for one (segment, b);  ac_a_ld <w> <k64|k128> … : A_64 / A_128
  | "ac_a_p" => some fun a => acSegOp false (a.headD "" :: "p" :: a.drop 1)
  | "ac_a_ld" => some fun a => acSegOp false a
  -- ac_c2_p / ac_c2_ld : C2, C2_64 / C2_128
  | "ac_c2_p" => some fun a => acSegOp true (a.headD "" :: "p" :: a.drop 1)
  | "ac_c2_ld" => some fun a => acSegOp true a
  -- ac_c1 <w> x y z b mu i m minM maxM : C1<mu>(x / primes[b], b, i, pi[y], m, minM, maxM, primes, pi)
  | "ac_c1" => some fun a => match widthOf (a.headD ""), natArgs ((a.drop 1).take 4), muOf (a.getD 5 ""),
        natArgs (a.drop 6) with
      | some w, some [x, y, z, b], some mu, some [i, m, minM, maxM] =>
        if !acDomain w x y z ∨ m > ITy.u64.maxVal ∨ minM > ITy.u64.maxVal ∨ maxM > ITy.u64.maxVal then "ERR:domain" else
        withLeafTable (acBound x y z 0) fun t =>
          let size := t.piOf (max (acMaxAPrime x y) y) + 1
          if b < 1 ∨ b ≥ size then "ERR:domain" else
          showEM (c1 (plainKern w) t w size (max z (acMaxAPrime x y)) (t.piOf y) (x / t.p b) b minM maxM mu i m 0)
      | _, _, _, _ => "ERR:proto"
  -- AC_loop <w> x y z k threads : the library's AC (AC_libdivide.cpp)
  | "AC_loop" => some fun a => acWhole .libdivide a none
  -- AC_plain <w> x y z k threads : AC.cpp compiled into the harness
  | "AC_plain" => some fun a => acWhole .plain a none
  -- AC_segs <w> x y z k segsize : model only — the libdivide mirror under ANOTHER segmentation (multiples of 240)
  | "AC_segs" => some fun a => acWhole .libdivide a ((a.getD 5 "").toNat?)
  | _ => none

end Pc.Drv
