import PcModel.Drv.Calc
import PcModel.Drv.NthPrime
namespace Pc.Drv
open Pc.Calc

/-! `primecount <x> [<a>] --<64-bit option>`: the glue between the expression evaluator and the 64-bit functions
(`to_int64` in src/app/main.cpp). Output `exit=1` (error), `BIG` (value beyond what the check computes) or
`exit=0 out=<value>`; kinds: `pi` (any of the 64-bit prime counting options), `nth` (`--nth-prime`), `phi` (`--phi`, two numbers). -/

def cli64Pi (v : Int) : String :=
  if v > 300000 then "BIG" else "exit=0 out=" ++ (if v < 2 then "0" else toString (piSieve v.toNat))

def cli64Nth (v : Int) : String :=
  if v > 20000 then "BIG" else
  match nthSingle false [toString v] with
  | "ERR:pc" => "exit=1"
  | r => if r.startsWith "ERR" || r.startsWith "bad" then r else "exit=0 out=" ++ r

/-- `phi(x, a)`: 0 for `x < 1`, `x` for `a < 1`, else the Legendre sum by definition -/
def cli64Phi (x a : Int) : String :=
  if x > 5000 then "BIG" else
  if x < 1 then "exit=0 out=0" else
  if a < 1 then s!"exit=0 out={x}" else
  s!"exit=0 out={phiNaive x.toNat (firstPrimes a.toNat x.toNat)}"

def cli64Ops : String → Option (List String → String)
  | "cli64" => some fun a => match a with
    | [kind, h1] => (match unhexBytes h1 with
      | none => "ERR:proto"
      | some s => match cliArg s with
        | .option => "OPTION"
        | _ => match cliNumber64 s with
          | .error _ => "exit=1"
          | .ok v => if kind == "nth" then cli64Nth v else cli64Pi v)
    | ["phi", h1, h2] => (match unhexBytes h1, unhexBytes h2 with
      | some s1, some s2 =>
        if cliArg s1 == .option || cliArg s2 == .option then "OPTION" else
        match cliNumber64 s1, cliNumber64 s2 with
        | .ok x, .ok a => cli64Phi x a
        | _, _ => "exit=1"
      | _, _ => "ERR:proto")
    | _ => "ERR:proto"
  | _ => none

end Pc.Drv
