/-
Driver ops of WP safety (C16).

  p2wide x y a b   -> the exact value of `P2(x, a)` for `y < isqrt(x)`, `a = π(y)`, `b = π(isqrt(x))` (both supplied by the
                      op and checked by the harness against the library's `pi`) WHEN the interval `(y, isqrt(x)]` holds no
                      prime (checked here by trial division): then `B(x, y) = 0` and
                      `P2 = (a - 2)(a + 1)/2 - (b - 2)(b + 1)/2` in exact integers (`P2_refines`, PcProps/C08P2.lean).
  p2wide_checked x y a b -> the same through the width-checked closed form `Pc.Safety.p2InitC` for `T = int128_t`
                      (the line since /repo 8cccffb: never traps for the op's domain).
  p2wide_prefix x y a b  -> the same through `Pc.Safety.p2InitCPreFix`, the line BEFORE 8cccffb
                      (`TRAP:ovf-init-int64` where the old P2.cpp:109 overflowed `int64_t`; model-only, record of F9).
-/
import PcModel.SafetyLoops
namespace Pc.Drv
open Pc.P2L Pc.Safety

def isPrimeTD (n : Nat) : Bool :=
  if n < 2 then false else
  let r := isqrtN n
  (List.range (r + 1)).all fun d => d < 2 || n % d != 0

def i127Max : Nat := 170141183460469231731687303715884105727

def p2wideOp (checked : Bool) (a : List String) (prefix_ : Bool := false) : String :=
  match a.map String.toNat? with
  | [some x, some y, some pa, some pb] =>
    if x < 4 ∨ y < 1 ∨ x > 2 ^ 100 then "ERR:domain" else
    let s := isqrtN x
    if y ≥ s ∨ s - y > 64 then "ERR:domain" else
    if ((List.range (s - y)).any fun i => isPrimeTD (y + 1 + i)) then "ERR:model-bound" else
    if checked then
      match (if prefix_ then p2InitCPreFix else p2InitC) (-(i127Max : Int) - 1) i127Max pa pb with
      | .ok v => toString v
      | .error e => e.toString
    else toString (p2Init pa pb)
  | _ => "ERR:proto"

def safetyOps : String → Option (List String → String)
  | "p2wide" => some (p2wideOp false)
  | "p2wide_checked" => some (p2wideOp true)
  | "p2wide_prefix" => some (fun a => p2wideOp true a true)
  | _ => none

end Pc.Drv
