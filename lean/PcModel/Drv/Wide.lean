import PcModel.Oracle
import PcModel.Basic
namespace Pc.Drv

/-! `wide_bp2_chk x y base a`: B(x, y) = Σ_{y < p ≤ √x} π(x/p) and P2(x, y) for a 128-bit `x` whose range (y, √x] is short,
recomputed from `base = π(x / pmax)` and `a = π(y)` (both supplied by the 64-bit entry point of the implementation) with the
PROVED window sieve: the primes of (y, √x] are `windowListWith wheelBase y √x`, every `π(x/p) - base` is a proved window
count. Output `B=<..> P2=<..>`. -/

def wideBp2 (x y base a : Nat) : String :=
  let sq := Nat.sqrt x
  if y ≥ sq ∨ sq - y > 2000000 ∨ x < 4 then "ERR:domain" else
  let ps := windowListWith wheelBase y sq
  match ps.getLast? with
  | none => "B=0 P2=?"
  | some pmax =>
    let qmin := x / pmax
    let ds := ps.map fun p => x / p - qmin
    let incs := windowDeltasWith wheelBase qmin ds
    let n := ps.length
    let bsum := n * base + incs.foldl (· + ·) 0
    -- P2_OpenMP: sum = (a - 2) * (a + 1) / 2 - (b - 2) * (b + 1) / 2 (C++ truncating division) + Σ π(x/p), b = π(√x) = a + n
    let b : Int := (a : Int) + n
    let ai : Int := a
    let p2 : Int := Int.tdiv ((ai - 2) * (ai + 1)) 2 - Int.tdiv ((b - 2) * (b + 1)) 2 + bsum
    s!"B={bsum} P2={p2}"

/-! `segpi_rel <base> <low0> tok…`: the answers of a `SegmentedPiTable` walk (`segpi` op: `l:h` = init(l, h), a number = lookup) at
positions ≥ low0 far beyond the sieve oracle, recomputed as `base + #primes in (low0 − 1, x]` with the PROVED window sieve; `base = π(low0 − 1)`
comes from the implementation's 64-bit `pi`. -/
def segpiRel (base low0 : Nat) (toks : List String) : String :=
  let qs := toks.filterMap fun t => if t.contains ':' then none else t.toNat?
  if qs.any (· < low0) then "ERR:domain" else
  let a := low0 - 1
  let ds := qs.map (· - a)
  let incs := windowDeltasWith wheelBase a ds
  " ".intercalate (incs.map fun d => toString (base + d))

def wideOps : String → Option (List String → String)
  | "segpi_rel" => some fun a => match a with
    | b :: l :: toks => (match b.toNat?, l.toNat? with
      | some base, some low0 => segpiRel base low0 toks
      | _, _ => "ERR:proto")
    | _ => "ERR:proto"
  | "wide_bp2_chk" => some fun a => match a.mapM String.toNat? with
    | some [x, y, base, pa] => wideBp2 x y base pa
    | _ => "ERR:proto"
  | _ => none

end Pc.Drv
