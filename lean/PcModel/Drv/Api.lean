import PcModel.ApiState
import PcModel.Oracle
/-!
Driver ops of C20: call histories and CLI runs against the pure model `runHistory` / `cliRun`
(PcModel/ApiState.lean) instantiated with an `ApiAlgorithms` whose `run` IGNORES the configuration:
π, φ and nth_prime come from a sieve of Eratosthenes / trial division computed here (Oracle.lean),
for arguments up to `tabLimit`; beyond that only from the short list `knownPi` or from values the check
obtained from single-call fresh processes (argument `tab` of the op).
-/
namespace Pc.Drv.Api

/-! ### tables -/

def tabLimit : Nat := 3000000

/-- π(10^k), k = 6..10 (trusted constants, used only above `tabLimit`) -/
def knownPi : List (Nat × Nat) :=
  [(1000000, 78498), (10000000, 664579), (100000000, 5761455), (1000000000, 50847534), (10000000000, 455052511)]

structure Tab where
  n : Nat
  pi : Array Nat          -- pi[i] = π(i), i ≤ n
  primes : Array Nat      -- primes ≤ n, increasing
  extra : List (Nat × Nat)

def mkTab (n : Nat) (extra : List (Nat × Nat)) : Tab :=
  let s := sieveArr n
  { n := n, pi := piTableArr n,
    primes := ((List.range (n + 1)).filter (fun i => s.getD i false)).toArray, extra := extra }

/-- number of primes < 2^63 (`max_n` in src/nth_prime.cpp) -/
def maxN : Int := 216289611853439384

def piSpec (t : Tab) (x : Int) : Option Int :=
  if x < 2 then some 0
  else
    let n := x.toNat
    if n ≤ t.n then some (t.pi.getD n 0)
    else match (knownPi ++ t.extra).find? (·.1 == n) with
      | some p => some p.2
      | none => none

/-- count of 1 ≤ m ≤ x not divisible by any of the first a primes, by crossing off multiples -/
def phiSpec (t : Tab) (x a : Int) : Option Int :=
  if x < 1 then some 0
  else if a < 1 then some x
  else
    let n := x.toNat
    if n > t.n then none
    else
      let ps := (t.primes.toList.takeWhile (· ≤ n)).take a.toNat
      let arr := ps.foldl (fun acc p => crossOff p (n + 1) p acc) (Array.replicate (n + 1) true)
      some (((List.range (n + 1)).filter (fun i => 1 ≤ i && arr.getD i false)).length : Nat)

def nthSpec (t : Tab) (n : Int) : Option ApiValue :=
  if n < 1 ∨ n > maxN then some .err
  else if n.toNat ≤ t.primes.size then some (.int (t.primes.getD (n.toNat - 1) 0))
  else none

def bytesToString (bs : List Nat) : String := String.ofList (bs.map Char.ofNat)

/-- strings the calculator rejects (facts about include/calculator.hpp, the business of C13) -/
def knownBadExpr : List String := ["", "abc", "1/0", "2**", "(1", "1 1", "1%0", "1+", ")"]

def domainErr : ApiValue := .str "ERR:domain"

/-- `primecount::pi(const std::string&)` on the strings this check generates -/
def piStrSpec (t : Tab) (bs : List Nat) : ApiValue :=
  let s := bytesToString bs
  let cs := s.toList
  if knownBadExpr.contains s then .err
  else if !cs.isEmpty && cs.all Char.isDigit then
    let stripped := cs.dropWhile (· == '0')
    let v := (String.ofList cs).toNat!
    -- to_maxint: more digits than int128 max or larger → "number too large"; pi(x): x above every possible limit
    if stripped.length > 39 || v > 2 ^ 127 - 1 || v > 3 * 10 ^ 37 then .err
    else match piSpec t v with
      | some r => .str (toString r)
      | none => domainErr
  else match cs with
    | '-' :: ds =>
      if !ds.isEmpty && ds.all Char.isDigit && ds.length ≤ 18 then .str "0" else domainErr
    | _ => domainErr

/-- the algorithms of the model: the configuration is ignored -/
def specAlgorithms (t : Tab) : ApiAlgorithms :=
  { run := fun _ c => match c with
      | .pi x => (piSpec t x).elim domainErr .int
      | .piStr bs => piStrSpec t bs
      | .phi x a => (phiSpec t x a).elim domainErr .int
      | .nthPrime n => (nthSpec t n).getD domainErr }

/-! ### observation of the alpha settings (floats live only here) -/

def hex16 (n : Nat) : String :=
  let ds := Nat.toDigits 16 n
  String.ofList (List.replicate (16 - ds.length) '0' ++ ds)

def parseHex (s : String) : Option Nat :=
  s.toList.foldl (fun acc c => do let a ← acc; let d ← hexVal c; pure (16 * a + d)) (some 0)

/-- `truncate3(n)`: `n = std::min(n, 1e15); return (int64_t)(n * 1000) / 1000.0` (`std::min(a, b)` is `b < a ? b : a`) -/
def truncate3F (x : Float) : Float :=
  let x := if 1e15 < x then 1e15 else x
  (x * 1000.0).toInt64.toFloat / 1000.0
def inBetweenF (lo x hi : Float) : Float := if x < lo || hi < lo then lo else if x > hi then hi else x

def alphaF : Option Int → Float
  | none => -1.0
  | some k => Float.ofInt k / 1000.0

def obsX : Float := (10 ^ 36 : Nat).toFloat
def obsX16 : Float := (10 ^ 6 : Nat).toFloat

/-- `get_alpha_lmo(10^36)` (src/util.cpp) as a function of `alpha_` -/
def alphaLmoF (alpha0 : Float) : Float :=
  let alpha := if alpha0 < 1.0 then
      let logx := Float.log obsX
      0.001103 * (logx * logx) + (-0.00896211) * logx + 1.00404
    else alpha0
  let alpha := truncate3F (inBetweenF 1.0 alpha obsX16)
  inBetweenF 1.0 alpha obsX16

/-- `get_alpha_gourdon(10^36)` as a function of `alpha_y_`, `alpha_z_` -/
def alphaGourdonF (ay0 az0 : Float) : Float × Float :=
  let logx := Float.log obsX
  let logx2 := logx * logx
  let logx3 := logx * logx * logx
  let alphaYZ := 0.00526934 * logx3 + (-0.495545) * logx2 + 16.5791 * logx + (-183.836)
  let az := if az0 < 1.0 then inBetweenF 1.0 (alphaYZ / 5.0) 2.0 else az0
  let ay := if ay0 < 1.0 then alphaYZ / az else ay0
  let ay := truncate3F (inBetweenF 1.0 ay obsX16)
  let az := truncate3F az
  let ay := inBetweenF 1.0 ay obsX16
  let q := obsX16 / ay
  let maxAz := if q > 1.0 then q else 1.0
  (ay, inBetweenF 1.0 az maxAz)

def obsAlphas (a ay az : Option Int) : String :=
  let g := alphaGourdonF (alphaF ay) (alphaF az)
  "/".intercalate [hex16 (alphaLmoF (alphaF a)).toBits.toNat, hex16 g.1.toBits.toNat, hex16 g.2.toBits.toNat]

def alphaArgOfBits (s : String) : Option AlphaArg := do
  if s.length != 16 then none
  let n ← parseHex s
  let d := Float.ofBits n.toUInt64
  some ⟨d < 1.0, (d * 1000.0).toInt64.toInt⟩

/-! ### tokens -/

def parseTok (tok : String) : Option ApiOp :=
  match tok.splitOn ":" with
  | ["pi", x] => (parseInt? x).map fun v => .compute (.pi v)
  | ["pis", h] => (unhexBytes h).map fun b => .compute (.piStr b)
  | ["phi", x, a] => do let x ← parseInt? x; let a ← parseInt? a; some (.compute (.phi x a))
  | ["nth", n] => (parseInt? n).map fun v => .compute (.nthPrime v)
  | ["st", t] => (parseInt? t).map fun v => .setting (.setThreads (Int.bmod v (2 ^ 32)))
  | ["gt"] => some (.setting .getThreads)
  | ["gpt"] => some (.setting .getPsThreads)
  | ["sa", b] => (alphaArgOfBits b).map fun a => .setting (.setAlpha a)
  | ["say", b] => (alphaArgOfBits b).map fun a => .setting (.setAlphaY a)
  | ["saz", b] => (alphaArgOfBits b).map fun a => .setting (.setAlphaZ a)
  | ["ga"] => some (.setting .getAlphas)
  | ["sp", b] => some (.setting (.setPrint (b == "1")))
  | ["spv", b] => some (.setting (.setPrintVariables (b == "1")))
  | ["gp"] => some (.setting .getPrint)
  | ["ssp", p] => (parseInt? p).map fun v => .setting (.setStatusPrecision v)
  | ["gsp"] => some (.setting .getStatusPrecision)
  | _ => none

def showValue (op : ApiOp) (v : ApiValue) : String :=
  match v with
  | .int n => toString n
  | .str s => s
  | .err => "ERR"
  | .unit => "-"
  | .ints l =>
    match op, l with
    | .setting .getAlphas, [a, ay, az] => obsAlphas a ay az
    | _, _ => "/".intercalate (l.map fun o => o.elim "?" toString)

/-- arguments the tables must cover -/
def neededN (ops : List ApiOp) : Nat :=
  ops.foldl (fun acc op =>
    let want : Nat := match op with
      | .compute (.pi x) => if x ≤ tabLimit then x.toNat else 0
      | .compute (.phi x _) => if x ≤ tabLimit then x.toNat else 0
      | .compute (.piStr bs) =>
          let cs := (bytesToString bs).toList
          if !cs.isEmpty && cs.all Char.isDigit && cs.length ≤ 30 then
            let v := (String.ofList cs).toNat!
            if v ≤ tabLimit then v else 0
          else 0
      | .compute (.nthPrime n) =>
          if 1 ≤ n ∧ n ≤ 150000 then n.toNat * (Nat.log2 n.toNat + 2) + 20 else 0
      | _ => 0
    max acc want) 100

/-- "x=v;x=v" or "-" -/
def parseExtra (s : String) : Option (List (Nat × Nat)) :=
  if s == "-" then some [] else
  (s.splitOn ";").mapM fun kv => match kv.splitOn "=" with
    | [k, v] => do let k ← k.toNat?; let v ← v.toNat?; some (k, v)
    | _ => none

def historyOp (a : List String) : String :=
  match a with
  | toks :: omp :: ps :: rest =>
    match (toks.splitOn ",").mapM parseTok, parseInt? omp, parseInt? ps, parseExtra (rest.headD "-") with
    | some ops, some omp, some ps, some extra =>
      let t := mkTab (neededN ops) extra
      let vals := runHistory ⟨omp, ps⟩ (specAlgorithms t) ApiState.init ops
      ",".intercalate ((ops.zip vals).map fun (o, v) => showValue o v)
    | _, _, _, _ => "ERR:proto"
  | _ => "ERR:proto"

/-! ### CLI -/

/-- one argv token after the number; `-t N` arrives as two tokens -/
def parseCliOpts : List String → Option (List CliOpt)
  | [] => some []
  | "--time" :: r => (parseCliOpts r).map (.time :: ·)
  | "-t" :: n :: r => do let v ← parseInt? n; let o ← parseCliOpts r; some (.threads (Int.bmod v (2 ^ 32)) :: o)
  | tok :: r =>
    let rest := parseCliOpts r
    if tok == "-s" || tok == "--status" then rest.map (.status none :: ·)
    else if tok.startsWith "--status=" then do
      let v ← parseInt? (tok.drop 9).toString; let o ← rest; some (.status (some v) :: o)
    else if tok.startsWith "-s" then do
      let v ← parseInt? (tok.drop 2).toString; let o ← rest; some (.status (some v) :: o)
    else if tok.startsWith "--threads=" then do
      let v ← parseInt? (tok.drop 10).toString; let o ← rest; some (.threads (Int.bmod v (2 ^ 32)) :: o)
    else if tok.startsWith "--alpha-y=" then do
      let v ← parseInt? (tok.drop 10).toString; let o ← rest; some (.alphaY ⟨v < 1, v * 1000⟩ :: o)
    else if tok.startsWith "--alpha-z=" then do
      let v ← parseInt? (tok.drop 10).toString; let o ← rest; some (.alphaZ ⟨v < 1, v * 1000⟩ :: o)
    else if tok.startsWith "--alpha=" then do
      let v ← parseInt? (tok.drop 8).toString; let o ← rest; some (.alpha ⟨v < 1, v * 1000⟩ :: o)
    else none

/-- `cli <binary> <x> <opts…> [tab=<x=v;…>]`: the model accepts a plain decimal number as first argument
    (anything else in `knownBadExpr`-style inputs is a usage error of the program: exit status 1, no result) -/
def cliOp (a : List String) : String :=
  match a with
  | _bin :: x :: rest =>
    let (tabArg, opts) := rest.partition (·.startsWith "tab=")
    let extra := (tabArg.head?.bind fun s => parseExtra (s.drop 4).toString).getD []
    let cs := x.toList
    if !cs.isEmpty && cs.all Char.isDigit then
      match parseCliOpts opts with
      | some os =>
        let v := x.toNat!
        let t := mkTab (if v ≤ tabLimit then max v 100 else 100) extra
        let out := cliRun ⟨1, 1⟩ (specAlgorithms t) os (cs.map Char.toNat)
        let num := match out.number with
          | some (.str s) => s
          | some .err => "none"
          | _ => "none"
        let rc := if out.number == some .err then "1" else "0"
        let sec := if out.seconds && rc == "0" then "1" else "0"
        "rc=" ++ rc ++ " res=" ++ num ++ " sec=" ++ sec
      | none => "ERR:proto"
    else if ["abc", "1/0", "-5", "--nosuchoption"].contains x then "rc=1 res=none sec=0"
    else "ERR:domain"
  | _ => "ERR:proto"

end Pc.Drv.Api

namespace Pc.Drv

def apiOps : String → Option (List String → String)
  | "history" => some Api.historyOp
  | "cli" => some Api.cliOp
  | _ => none

end Pc.Drv
