import PcModel.ParamsL2
import PcModel.ParamsEnv
import PcModel.Drv.Api
import PcModel.Drv.Formulas
namespace Pc.Drv
open Pc.Drv.Api (truncate3F inBetweenF alphaLmoF)

/-! Floats live only here: the doubles of the C++ run are recomputed with Lean's binary64 `Float` (bit-identical for
`int128 → double`, `*`, `/`, `log`, `pow` on this platform; the `alphas` stream compares the bit patterns) or transported
as bit patterns, and handed to the checked model as their exact truncations. -/

/-- exact value `m * 2^e` of a finite double -/
def floatParts (f : Float) : Option (Int × Int) :=
  let b := f.toBits.toNat
  let neg := b / 2 ^ 63 == 1
  let ex : Nat := (b / 2 ^ 52) % 2048
  let fr : Nat := b % 2 ^ 52
  if ex = 2047 then none
  else
    let m : Int := if ex = 0 then (fr : Int) else ((2 ^ 52 + fr : Nat) : Int)
    let e : Int := if ex = 0 then -1074 else (ex : Int) - 1075
    some (if neg then -m else m, e)

/-- a value no integer type holds: stands for the truncation of NaN / ±inf (every cast of it is UB) -/
def hugeSentinel : Int := 2 ^ 1100

/-- truncation towards zero of a double, as an unbounded integer -/
def truncF (f : Float) : Int :=
  match floatParts f with
  | none => hugeSentinel
  | some (m, e) => if e ≥ 0 then m * 2 ^ e.toNat else Int.tdiv m (2 ^ (-e).toNat)

/-- exact rational value of a finite double (0 for NaN/inf: the envelope predicates then fail) -/
def ratF (f : Float) : Rat :=
  match floatParts f with
  | none => 0
  | some (m, e) => if e ≥ 0 then ((m * 2 ^ e.toNat : Int) : Rat) else (m : Rat) / ((2 ^ (-e).toNat : Nat) : Rat)

def fOfBits (n : Nat) : Float := Float.ofBits n.toUInt64
def bitsOf (f : Float) : Nat := f.toBits.toNat

/-- `alpha_ = m / 1000.0` for a non-negative override in thousandths, `-1` for none (harness `apply_alpha`,
    then `set_alpha*`: `a < 1.0 ? -1 : truncate3(a)`) -/
def overrideF (milli : Int) : Float :=
  if milli < 0 then -1.0 else
  let a := Float.ofInt milli / 1000.0
  if a < 1.0 then -1.0 else truncate3F a

/-- `get_alpha_lmo(x)` (util.cpp 257-279) -/
def alphaLmoX (x : Nat) (alpha0 : Float) : Float :=
  let x16 := (irootN 6 x).toFloat
  let alpha := if alpha0 < 1.0 then
      let logx := Float.log x.toFloat
      0.001103 * (logx * logx) + (-0.00896211) * logx + 1.00404
    else alpha0
  let alpha := truncate3F (inBetweenF 1.0 alpha x16)
  inBetweenF 1.0 alpha x16

/-- `get_alpha_deleglise_rivat(x)` (util.cpp 285-323) -/
def alphaDrX (x : Nat) (alpha0 : Float) : Float :=
  let x16 := (irootN 6 x).toFloat
  let alpha := if alpha0 < 1.0 then
      let logx := Float.log x.toFloat
      if x.toFloat ≤ 1e9 then 0.078173 * logx + 1.0
      else
        let logx2 := logx * logx
        let logx3 := logx * logx * logx
        0.00148918 * logx3 + (-0.0691909) * logx2 + 1.00165 * logx + 0.372253
    else alpha0
  let alpha := truncate3F (inBetweenF 1.0 alpha x16)
  inBetweenF 1.0 alpha x16

/-- `get_alpha_gourdon(x)` (util.cpp 334-407) -/
def alphaGourdonX (x : Nat) (ay0 az0 : Float) : Float × Float :=
  let x16 := (irootN 6 x).toFloat
  let logx := Float.log x.toFloat
  let alphaYZ :=
    if x.toFloat ≤ 1e11 then 0.078173 * logx + 1.0
    else
      let logx2 := logx * logx
      let logx3 := logx * logx * logx
      0.00526934 * logx3 + (-0.495545) * logx2 + 16.5791 * logx + (-183.836)
  let az := if az0 < 1.0 then inBetweenF 1.0 (alphaYZ / 5.0) 2.0 else az0
  let ay := if ay0 < 1.0 then alphaYZ / az else ay0
  let ay := truncate3F (inBetweenF 1.0 ay x16)
  let az := truncate3F az
  let ay := inBetweenF 1.0 ay x16
  let q := x16 / ay
  let maxAz := if q > 1.0 then q else 1.0
  (ay, inBetweenF 1.0 az maxAz)

/-- `std::pow((1ull << 62) * alpha, 3.0 / 2.0)` -/
def maxXF (alpha : Float) : Float := Float.pow (4611686018427387904.0 * alpha) (3.0 / 2.0)

/-- `std::pow(z, 1 / 3.7)` with `z` an `int64_t` -/
def powThreadsF (z : Int) : Float := Float.pow (Float.ofInt z) (1.0 / 3.7)

def showE (r : Except PErr Int) : String := match r with | .ok v => toString v | .error e => e.show
def b01 (b : Bool) : String := if b then "1" else "0"

def gFloatsOf (x : Nat) (ay az : Float) : GFloats :=
  { maxX := truncF (maxXF ay)
    v := truncF ((irootN 3 x).toFloat * ay)
    w := fun y => truncF (Float.ofInt y * az)
    mt := fun xz => truncF (powThreadsF xz) }

def dFloatsOf (x : Nat) (a : Float) : DFloats :=
  { maxX := truncF (maxXF a)
    v := truncF ((irootN 3 x).toFloat * a)
    mt := fun z => truncF (powThreadsF z) }

/-- the output line of the harness op `gparams`, recomputed by the model step by step (a failing step ends the line
    exactly where the harness stops) -/
def gparamsLine (wide : Bool) (x : Nat) (threads : Int) (ayB azB : Nat) : String :=
  let ay := fOfBits ayB
  let az := fOfBits azB
  let fo := gFloatsOf x ay az
  let head := s!"ay={ayB} az={azB}"
  match castI128 fo.maxX with
  | .error _ => head ++ " maxx=UB"
  | .ok limit =>
    let ok := !wide || decide ((x : Int) ≤ limit)
    let head := head ++ s!" maxx={limit} ok={b01 ok}"
    if !ok then head else
    let x13 : Int := irootN 3 x
    let sqrtx : Int := isqrtN x
    let head := head ++ s!" x13={x13} sqrtx={sqrtx} v={showE (castI64 fo.v)}"
    match castI64 fo.v with
    | .error _ => head
    | .ok v =>
      let y := max (min (max v (x13 + 1)) (sqrtx - 1)) 1
      let head := head ++ s!" y={y} k={getK x} w={showE (castI64 (fo.w y))}"
      match castI64 (fo.w y) with
      | .error _ => head
      | .ok w =>
        let z := max (min (max w y) (sqrtx - 1)) 1
        match xStarL2 x y with
        | .error e => head ++ s!" z={z} xstar={e.show}"
        | .ok xs =>
          let xy : Int := (x : Int) / y
          let xz : Int := (x : Int) / z
          let maxAPrime : Int := isqrtN (x / xs.toNat)
          let ft16 := if wide then decide (z ≤ (factorTableMax 16 : Int)) else true
          let ftok := if wide then true else decide (z ≤ (factorTableMax 16 : Int))
          let prim32 := decide (max maxAPrime y ≤ 2 ^ 32 - 1)
          let head := head ++ s!" z={z} xstar={xs} xy={xy} xz={xz} sqrtz={isqrtN z.toNat} sqrtxy={isqrtN (x / y.toNat)}" ++
            s!" maxaprime={maxAPrime} ft16={b01 ft16} ftok={b01 ftok} prim32={b01 prim32}"
          match narrowI64 xz with
          | .error _ => head ++ " mt=UB"
          | .ok xz =>
            match castInt (fo.mt xz) with
            | .error _ => head ++ " mt=UB"
            | .ok mt =>
              let t1 := min threads mt
              head ++ s!" mt={mt} thrD={idealNumThreads xz t1 (2 ^ 20)} thrAC={idealNumThreads x13 t1 1000}"

/-- verdict of the checked model on the same inputs: `ok`, or the failure value -/
def gVerdict (wide : Bool) (x : Nat) (threads : Int) (ayB azB : Nat) : String :=
  match gourdonL2 wide x threads (gFloatsOf x (fOfBits ayB) (fOfBits azB)) with
  | .ok o => s!"ok:{o.y},{o.z},{o.k},{o.xStar},{o.xy},{o.xz}"
  | .error e => e.show

def gPredLine (wide : Bool) (x : Nat) (threads : Int) (ayB azB : Nat) : String :=
  let ay := fOfBits ayB
  let az := fOfBits azB
  let fo := gFloatsOf x ay az
  let env := decide (GourdonEnv x (ratF ay) (ratF az) fo)
  let rng := match gourdonL2 wide x threads fo with
    | .ok o => decide (GourdonRange x threads o)
    | .error .range => wide && decide (fo.maxX < (x : Int))
    | .error _ => false
  s!"env={b01 env} range={b01 rng}"

def dparamsLine (wide : Bool) (x : Nat) (threads : Int) (aB : Nat) : String :=
  let a := fOfBits aB
  let fo := dFloatsOf x a
  let head := s!"a={aB}"
  match castI128 fo.maxX with
  | .error _ => head ++ " maxx=UB"
  | .ok limit =>
    let ok := !wide || decide ((x : Int) ≤ limit)
    let head := head ++ s!" maxx={limit} ok={b01 ok}"
    if !ok then head else
    let x13 : Int := irootN 3 x
    let head := head ++ s!" x13={x13} v={showE (castI64 fo.v)}"
    match castI64 fo.v with
    | .error _ => head
    | .ok y =>
      if y = 0 then head ++ " y=0 z=DIV0" else
      let zz := Int.tdiv x y
      let head := head ++ s!" y={y} z={zz} c={getCI y}"
      match narrowI64 zz with
      | .error _ => head
      | .ok z =>
        let ft16 := if wide then decide (y ≤ (factorTableMax 16 : Int)) else true
        let ftok := if wide then true else decide (y ≤ (factorTableMax 16 : Int))
        let head := head ++ s!" sqrtz={isqrtN z.toNat} ft16={b01 ft16} ftok={b01 ftok}"
        match castInt (fo.mt z) with
        | .error _ => head ++ " mt=UB"
        | .ok mt =>
          let t1 := min threads mt
          head ++ s!" mt={mt} thr={idealNumThreads z t1 (2 ^ 20)}"

def dPredLine (wide : Bool) (x : Nat) (threads : Int) (aB : Nat) : String :=
  let a := fOfBits aB
  let fo := dFloatsOf x a
  let env := decide (DrEnv x (ratF a) fo)
  let rng := match drL2 wide x threads fo with
    | .ok o => decide (DrRange x threads o)
    | .error .range => wide && decide (fo.maxX < (x : Int))
    | .error _ => false
  s!"env={b01 env} range={b01 rng}"

def lparamsLine (x : Nat) (aB : Nat) : String :=
  let a := fOfBits aB
  let v := truncF ((irootN 3 x).toFloat * a)
  let head := s!"a={aB} x13={irootN 3 x} v={showE (castI64 v)}"
  match lmoL2 x v with
  | .ok o => head ++ s!" y={o.y} z={o.z} c={o.c}"
  | .error .divZero => head ++ " y=0 z=DIV0"
  | .error _ => head

def wideArg (s : String) : Option Bool := if s == "128" then some true else if s == "64" then some false else none

def paramsL2Ops : String → Option (List String → String)
  -- gparams_chk <64|128> x threads ay_bits az_bits -> the `gparams` line of the harness ++ " P: env=.. range=.. verdict=.."
  | "gparams_chk" => some fun a => match a with
      | [w, x, t, ay, az] => match wideArg w, natArgs [x, ay, az], parseInt? t with
        | some wd, some [x, ay, az], some t =>
          if x < 2 then "NOPRINT" else
          gparamsLine wd x t ay az ++ " P: " ++ gPredLine wd x t ay az ++ " verdict=" ++ gVerdict wd x t ay az
        | _, _, _ => "ERR:proto"
      | _ => "ERR:proto"
  | "dparams_chk" => some fun a => match a with
      | [w, x, t, ab] => match wideArg w, natArgs [x, ab], parseInt? t with
        | some wd, some [x, ab], some t =>
          if x < 2 then "NOPRINT" else dparamsLine wd x t ab ++ " P: " ++ dPredLine wd x t ab
        | _, _, _ => "ERR:proto"
      | _ => "ERR:proto"
  | "lparams_chk" => some fun a => match natArgs a with
      | some [x, ab] => if x < 2 then "NOPRINT" else lparamsLine x ab
      | _ => "ERR:proto"
  -- real-run counterparts: what the entry point itself prints (harness ops gvars / dvars / lvars)
  | "gvars_chk" => some fun a => match a with
      | [w, x, ay, az] => match wideArg w, natArgs [x, ay, az] with
        | some wd, some [x, ay, az] =>
          if x < 2 then "NOPRINT" else
          match gourdonL2 wd x 1 (gFloatsOf x (fOfBits ay) (fOfBits az)) with
          | .ok o => s!"{o.y} {o.z} {o.k} {o.xStar}"
          | .error e => e.show
        | _, _ => "ERR:proto"
      | _ => "ERR:proto"
  | "dvars_chk" => some fun a => match a with
      | [w, x, ab] => match wideArg w, natArgs [x, ab] with
        | some wd, some [x, ab] =>
          if x < 2 then "NOPRINT" else
          match drL2 wd x 1 (dFloatsOf x (fOfBits ab)) with
          | .ok o => s!"{o.y} {o.z} {o.c}"
          | .error e => e.show
        | _, _ => "ERR:proto"
      | _ => "ERR:proto"
  | "lvars_chk" => some fun a => match natArgs a with
      | some [x, ab] =>
        if x < 2 then "NOPRINT" else
        match lmoL2 x (truncF ((irootN 3 x).toFloat * fOfBits ab)) with
        | .ok o => s!"{o.y} {o.z} {o.c}"
        | .error e => e.show
      | _ => "ERR:proto"
  -- alphas x a ay az (thousandths, -1 = default) -> the four doubles, computed entirely in the model
  | "alphas" => some fun a => match a.map parseInt? with
      | [some x, some al, some ay, some az] =>
        if x < 0 then "ERR:domain" else
        let x := x.toNat
        let g := alphaGourdonX x (overrideF ay) (overrideF az)
        s!"{bitsOf (alphaLmoX x (overrideF al))} {bitsOf (alphaDrX x (overrideF al))} {bitsOf g.1} {bitsOf g.2}"
      | _ => "ERR:proto"
  | "maxx_bits" => some fun a => match natArgs a with
      | some [b] => showE (castI128 (truncF (maxXF (fOfBits b))))
      | _ => "ERR:proto"
  | "setalpha" => some fun a => match natArgs a with
      | some (b :: rest) =>
        let which := rest.headD 0
        let d := fOfBits b
        let ge1 := d ≥ 1.0
        let k := truncF ((if 1e15 < d then 1e15 else d) * 1000.0)
        if !decide (TruncClampEnv ge1 k) then "ENV:TruncClampEnv" else
        let x36 : Nat := 10 ^ 36
        match setAlphaL2 ge1 k with
        | .error e => e.show
        | .ok r =>
          let ov : Float := match r with | none => -1.0 | some k => Float.ofInt k / 1000.0
          if which == 0 then toString (bitsOf (alphaLmoX x36 ov))
          else if which == 1 then toString (bitsOf (alphaGourdonX x36 ov (-1.0)).1)
          else toString (bitsOf (alphaGourdonX x36 (-1.0) ov).2)
      | _ => "ERR:proto"
  | "fdiv64" => some fun a => match natArgs a with
      | some [x, d] => match fastDiv64 x d with | some q => toString q | none => "TRAP"
      | _ => "ERR:proto"
  | "fdiv" => some fun a => match natArgs a with
      | some [x, d] => match fastDiv x d with | some q => toString q | none => "ERR:div0"
      | _ => "ERR:proto"
  -- maxx_default x : default tuning; "1" iff x passes the range check (model: alpha and pow in Lean floats)
  | "maxx_default_chk" => some fun a => match natArgs a with
      | some [x, ayB, maxx] =>
        let ay := fOfBits ayB
        let okEnv := decide (MaxXNear (ratF ay) (maxx : Int))
        let ok110 := decide (DefaultAlphaYAtLeast110 x (ratF ay) ∧ (1 : Rat) ≤ ratF ay)
        s!"env={b01 okEnv} ge110={b01 ok110} pass={b01 (decide (x ≤ maxx))}"
      | _ => "ERR:proto"
  | _ => none

end Pc.Drv
