/-
Driver ops of the easy-leaf mirrors of PcModel/EasyLoops.lean (wp-easy; C08 / C02 / C03 / C11).
Harness side: harness/ops_easyloops.cpp (`s2easy_b`, `S2_easy_plain`) and the existing op `S2_easy` of ops_alg.cpp (the
LIBRARY's function, i.e. S2_easy_libdivide.cpp in the pinned configuration; renamed to `S2_easy_loop` by the streams).
-/
import PcModel.EasyLoops
import PcModel.Drv.LeafLoops
namespace Pc.Drv
open Pc.Easy

def showEM : EM Int → String
  | .ok v => toString v
  | .error e => e.toString

def showEM2 : EM (Int × Int) → String
  | .ok (a, b) => s!"{a} {b}"
  | .error e => e.toString

def kernOf : String → Option Kern
  | "k64" => some .ld64 | "k128" => some .ld128 | "p64" => some .plain64 | "p128" => some .plain128 | _ => none

def easyLoopsOps : String → Option (List String → String)
  -- s2easy_b <w> <k64|k128> x y z b : S2_easy_64 / S2_easy_128 of S2_easy_libdivide.cpp for `prime = primes[b]`,
  -- `xp = x / prime`, `PiTable pi(y)`, `primes = generate_primes(y)`  ->  "<clustered part> <sparse part>"
  | "s2easy_b" => some fun a => match widthOf (a.headD ""), kernOf (a.getD 1 ""), natArgs (a.drop 2) with
      | some w, some k, some [x, y, z, b] =>
        if x > w.maxVal ∨ y > ITy.i64.maxVal ∨ z > ITy.i64.maxVal ∨ y < 1 then "ERR:domain" else
        withLeafTable y fun t =>
          if b < 1 ∨ b > t.piOf y then "ERR:domain" else
          if k = .ld64 ∧ x / t.p b > ITy.u64.maxVal then "ERR:domain" else
          showEM2 (easyLeaves k t (t.piOf y + 1) x y z b)
      | _, _, _ => "ERR:proto"
  -- S2_easy_loop <w> x y z c threads : the library's S2_easy (S2_easy_libdivide.cpp)
  | "S2_easy_loop" => some fun a => match widthOf (a.headD ""), natArgs ((a.drop 1).take 4), (a.getD 5 "").toInt? with
      | some w, some [x, y, z, c], some th =>
        if x > w.maxVal ∨ y > ITy.i64.maxVal ∨ z > ITy.i64.maxVal ∨ y < 1 then "ERR:domain" else
        withLeafTable y fun t =>
          showEM (s2EasyLibdivide t x y z c (easySched (easyLo t y c) (easyHi t x) th.toNat))
      | _, _, _ => "ERR:proto"
  -- S2_easy_plain <w> x y z c threads : S2_easy.cpp (compiled into the harness)
  | "S2_easy_plain" => some fun a => match widthOf (a.headD ""), natArgs ((a.drop 1).take 4), (a.getD 5 "").toInt? with
      | some w, some [x, y, z, c], some th =>
        if x > w.maxVal ∨ y > ITy.i64.maxVal ∨ z > ITy.i64.maxVal ∨ y < 1 then "ERR:domain" else
        withLeafTable y fun t =>
          showEM (s2EasyOpenMP t w x y z c (easySched (easyLo t y c) (easyHi t x) th.toNat))
      | _, _, _ => "ERR:proto"
  -- S2_easy_sched <w> x y z c nt : model only — the plain mirror under a team of nt threads
  | "S2_easy_sched" => some fun a => match leafArgs a with
      | some (w, [x, y, z, c, nt]) =>
        if y < 1 then "ERR:domain" else
        withLeafTable y fun t => showEM (s2EasyOpenMP t w x y z c (staticSched1 (easyLo t y c) (easyHi t x) nt))
      | _ => "ERR:proto"
  | _ => none

end Pc.Drv
