/-
Driver ops of C01 / C05: every answer is computed by the PROVED oracles of PcModel/Oracle.lean
(`piTableArr`, `piSieve`, `windowListWith`), pushed through the L2 model of the entry points
(PcModel/Api.lean: dispatcher, narrowing, decimal rendering, `to_maxint`).
-/
import PcModel.Oracle
import PcModel.Api
namespace Pc.Drv.Pi
open Pc.PiApi

/-- largest argument for which the driver builds a sieve -/
def oracleCap : Nat := 300000000

def valRoutes (f : Nat → Nat) : Routes :=
  { cache := f, legendre := f, meissel := f, gourdon64 := f, gourdon128 := fun _ => .error .pcError }

def errStr : ApiErr → String
  | .pcError => "ERR:pc"
  | .calcError => "ERR:calc"

/-- one entry point on one decimal token -/
def piEntry (r : Routes) (entry : String) (tok : String) : String :=
  let isDigits := tok.toList.all isDigit
  match entry with
  | "pi64" | "cpi" => match parseInt? tok with
    | some x => if ITy.i64.inRange x then toString (if entry == "pi64" then piApi64 r x else cPi r x) else "ERR:domain"
    | none => "ERR:proto"
  | "pi128" => match parseInt? tok with
    | some x => if ITy.i128.inRange x then
        match piApi128 r x with | .ok v => toString v | .error e => errStr e
      else "ERR:domain"
    | none => "ERR:proto"
  | "pistr" => if !isDigits then "ERR:domain" else
      match piStr r calcDigits tok.toList with | .ok s => String.ofList s | .error e => errStr e
  | "cpistr" => if !isDigits then "ERR:domain" else
      let (n, s) := cPiStr r calcDigits tok.toList 64
      if n < 0 then "ERR:c" else String.ofList s
  | "cli" => if !isDigits then "ERR:domain" else
      let (st, out) := cliDefault r calcDigits tok.toList
      if st == 0 then (String.ofList out).trimAscii.toString else "ERR:cli" ++ toString st
  | _ => "ERR:proto"

/-- protocol sugar: a token `lo..hi` stands for the integers `lo, lo+1, …, hi` -/
def expandToks (toks : List String) : List String :=
  toks.flatMap fun t => match t.splitOn ".." with
    | [a, b] => match parseInt? a, parseInt? b with
      | some lo, some hi => (List.range (hi - lo + 1).toNat).map (fun (i : Nat) => toString (lo + Int.ofNat i))
      | _, _ => [t]
    | _ => [t]

/-- the non-negative value of a token when it is one the oracle has to cover -/
def tokNat (tok : String) : Nat := match parseInt? tok with
  | some x => x.toNat
  | none => 0

def piBatch (a : List String) : String :=
  match a with
  | [] => "ERR:proto"
  | [_] => "-"
  | entry :: toks0 =>
    let toks := expandToks toks0
    -- values above 2^127 never reach a route (`to_maxint` rejects them), negative ones neither
    let need := (toks.map tokNat).filter (fun v => v ≤ int128Max)
    let n := need.foldl max 0
    if n > oracleCap then "ERR:oracle-range" else
    match toks with
    | [t] => ",".intercalate [piEntry (valRoutes (fun _ => piSieve (tokNat t))) entry t]
    | _ =>
      let r := tableRoutes (piTableArr n)
      ",".intercalate (toks.map (piEntry r entry))

def natList (a : List String) : Option (List Nat) :=
  a.mapM (fun s => match parseInt? s with | some x => if x < 0 then none else some x.toNat | none => none)

def fmtDeltas (ds : List Nat) : String := if ds.isEmpty then "-" else ",".intercalate (ds.map toString)

/-- `piwin entry a d1 d2 ...` with the table-free wheel base -/
def piWin (a : List String) : String :=
  match a with
  | _ :: rest => match natList (expandToks rest) with
    | some (lo :: ds) => fmtDeltas (windowDeltasWith wheelBase lo ds)
    | _ => "ERR:proto"
  | _ => "ERR:proto"

def splitGroups (a : List String) : List (List String) :=
  let rec go : List String → List String → List (List String) → List (List String)
    | [], cur, acc => (cur.reverse :: acc).reverse
    | t :: ts, cur, acc => if t == "/" then go ts [] (cur.reverse :: acc) else go ts (t :: cur) acc
  go a [] []

/-- `piwins entry a d.. / a d.. / ...`: all windows sieved with base primes from ONE `sieveArr (√ max b)` -/
def piWins (a : List String) : String :=
  match a with
  | _ :: rest =>
    match ((splitGroups rest).map expandToks).mapM natList with
    | some groups =>
      let bmax := (groups.map (fun g => g.headD 0 + (g.drop 1).foldl max 0)).foldl max 0
      let m := Nat.sqrt bmax
      if m > oracleCap then "ERR:oracle-range" else
      let base := baseOfSieve (sieveArr m)
      " / ".intercalate (groups.map fun g => match g with
        | lo :: ds => fmtDeltas (windowDeltasWith base lo ds)
        | [] => "ERR:proto")
    | none => "ERR:proto"
  | _ => "ERR:proto"

def winList (a : List String) : String :=
  match natList a with
  | some [lo, hi] => if hi < lo then "ERR:domain" else fmtDeltas (windowListWith wheelBase lo hi)
  | _ => "ERR:proto"

def unhexStr (h : String) : Option String :=
  (unhexBytes h).map (fun bs => String.ofList (bs.map Char.ofNat))

end Pc.Drv.Pi

namespace Pc.Drv
open Pc.PiApi Pc.Drv.Pi

def piOps : String → Option (List String → String)
  | "pi64" => some fun a => match a with | [x] => piBatch ["pi64", x] | _ => "ERR:proto"
  | "pi128" => some fun a => match a with | [x] => piBatch ["pi128", x] | _ => "ERR:proto"
  | "cpi" => some fun a => match a with | [x] => piBatch ["cpi", x] | _ => "ERR:proto"
  | "pi_pistr" => some fun a => match a with
      | [h] => match unhexStr h with | some s => piBatch ["pistr", s] | none => "ERR:proto"
      | _ => "ERR:proto"
  | "pi_cpistr" => some fun a => match a with
      | [h] => match unhexStr h with | some s => piBatch ["cpistr", s] | none => "ERR:proto"
      | _ => "ERR:proto"
  | "pi_cli" => some fun a => match a with
      | [x] =>
        if x.isEmpty || !x.toList.all isDigit then "ERR:domain" else
        let n := tokNat x
        if n ≤ int128Max && n > oracleCap then "ERR:oracle-range" else
        let (st, out) := cliDefault (valRoutes (fun _ => piSieve n)) calcDigits x.toList
        toString st ++ ":" ++ (String.ofList out).trimAscii.toString ++ ":" ++ (if st == 0 then "-" else "err")
      | _ => "ERR:domain"
  | "pi_batch" => some piBatch
  | "piwin" => some piWin
  | "piwins" => some piWins
  | "winlist" => some winList
  | "piall" => some fun a => match a with
      | [x] => match parseInt? x with
        | some v => if v < 0 then piBatch ["pi128", x] else piBatch ["pistr", x]
        | none => "ERR:proto"
      | _ => "ERR:proto"
  | _ => none

end Pc.Drv
