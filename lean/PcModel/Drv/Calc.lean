import PcModel.Calc
import PcModel.Oracle
namespace Pc.Drv
open Pc.Calc

def calcErrStr : Err → String
  | .syntax => "ERR:calc:syntax"
  | .div0 => "ERR:calc:div0"
  | .overflow => "ERR:calc:overflow"
  | .negexp => "ERR:calc:negexp"
  | .tooLarge => "ERR:pc"
  | .trap => "TRAP"
  | .internal => "ERR:model-internal"

def calcResStr : Except Err Int → String
  | .ok v => toString v
  | .error e => calcErrStr e

def calcOpName : Op → String
  | .bor => "|" | .band => "&" | .shl => "<<" | .shr => ">>" | .add => "+" | .sub => "-"
  | .mul => "*" | .div => "/" | .mod => "%" | .pow => "**" | .exp => "e"

def calcExprStr : Expr → String
  | .lit n => toString n
  | .neg e => "(-" ++ calcExprStr e ++ ")"
  | .not e => "(~" ++ calcExprStr e ++ ")"
  | .bin o a b => "(" ++ calcExprStr a ++ calcOpName o ++ calcExprStr b ++ ")"

def calcWithBytes (a : List String) (f : Bytes → String) : String :=
  match a with
  | [h] => match unhexBytes h with
    | some bs => f bs
    | none => "ERR:proto"
  | _ => "ERR:proto"

def calcOps : String → Option (List String → String)
  /- `to_maxint(s)` with the repaired calculator (the proved-sound checked evaluator) -/
  | "toi" => some fun a => calcWithBytes a fun s => calcResStr (toMaxint s)
  /- `to_maxint(s)` of the pinned tree (wrap-around arithmetic); model-only, used to classify finding F2 -/
  | "toiwrap" => some fun a => calcWithBytes a fun s => calcResStr (toMaxintWrap s)
  /- independent reference: precedence climbing + checked bottom-up evaluation; value or ERR -/
  | "toiref" => some fun a => calcWithBytes a fun s =>
      if tooLarge s then "ERR" else
      match refTree s with
      | none => "ERR"
      | some e => match evalChecked e with
        | .ok v => toString v
        | .error _ => "ERR"
  /- the syntax tree of the shift/reduce loop (model-only, for reports) -/
  | "toitree" => some fun a => calcWithBytes a fun s =>
      match calcTree s with
      | .ok e => calcExprStr e
      | .error e => calcErrStr e
  /- `pi(const std::string&)` for small values: evaluate, then count primes with the sieve oracle -/
  | "pistr" => some fun a => calcWithBytes a fun s =>
      match toMaxint s with
      | .error e => calcErrStr e
      | .ok v => if v > 300000 then "BIG" else if v < 0 then "0" else toString (piSieve v.toNat)
  /- `primecount <s>` (one argument): `exit=0 out=<pi(value)>`, `exit=1`, `OPTION` (option syntax, not modelled),
     `BIG` (value above the range the check is willing to compute) -/
  | "clinum" => some fun a => calcWithBytes a fun s =>
      match cliArg s with
      | .option => "OPTION"
      | .rejected => "exit=1"
      | .number => match toMaxint s with
        | .error _ => "exit=1"
        | .ok v => if v > 300000 then "BIG" else
            "exit=0 out=" ++ (if v < 0 then "0" else toString (piSieve v.toNat))
  | _ => none

end Pc.Drv
