/-
Driver ops of WP lmo (C02): the answers are computed by the L2 control-flow models of PcModel/SimpleAlgs.lean
(mirror streams, `oracle=False`), not by the sieve oracle.
-/
import PcModel.SimpleAlgs
import PcModel.Drv.Formulas
namespace Pc.Drv
open Pc.SimpleAlgs

/-- largest x the driver runs the L2 models on (tables of size x / y) -/
def l2Cap : Int := 2000000000

def optStr : Option Int → String
  | some v => toString v
  | none => "ERR:ub"

/-- algorithms without a float-derived parameter -/
def l2Fixed (name : String) (x : Int) : String :=
  if x > l2Cap then "ERR:model-bound" else
  match name with
  | "legendre" => toString (piLegendre x)
  | "meissel" => toString (piMeissel x)
  | "lehmer" => toString (piLehmer x)
  | "lmo1" => toString (piLmo1 x)
  | _ => "ERR:proto"

/-- algorithms whose `y = (int64_t)(x13 * alpha)` arrives from the implementation -/
def l2WithY (name : String) (y : Nat) (x : Int) : String :=
  if x > l2Cap then "ERR:model-bound" else
  match name with
  | "lmo2" => optStr (piLmo2 y x)
  | "lmo3" => optStr (piLmo3 y x)
  | "lmo4" => optStr (piLmo4 y x)
  | _ => "ERR:proto"

def simpleAlgsOps : String → Option (List String → String)
  -- l2alg <name> <x>
  | "l2alg" => some fun a => match a with
      | [name, xs] => match parseInt? xs with
        | some x => l2Fixed name x
        | none => "ERR:proto"
      | _ => "ERR:proto"
  -- l2range <name> <lo> <hi> -> value for every x in [lo, hi]
  | "l2range" => some fun a => match a with
      | [name, los, his] => match parseInt? los, parseInt? his with
        | some lo, some hi =>
          " ".intercalate ((List.range (hi - lo + 1).toNat).map fun (j : Nat) => l2Fixed name (lo + (j : Int)))
        | _, _ => "ERR:proto"
      | _ => "ERR:proto"
  -- l2lmo_chk <name> <lo> <hi> <y_lo> ... <y_hi>  ->  "y:value" for every x in [lo, hi]
  | "l2lmo_chk" => some fun a => match a with
      | name :: los :: his :: ys => match parseInt? los, parseInt? his, natArgs ys with
        | some lo, some hi, some yl =>
          if yl.length ≠ (hi - lo + 1).toNat then "ERR:proto" else
          " ".intercalate ((List.range yl.length).map fun (j : Nat) =>
            let y := yl.getD j 0
            s!"{y}:{l2WithY name y (lo + (j : Int))}")
        | _, _, _ => "ERR:proto"
      | _ => "ERR:proto"
  -- l2S2 <2|3|4> <x> <y> <c>  ->  S2(x, y, c, pi_y, primes, lpf, mu) of pi_lmo<n>.cpp
  | "l2S2" => some fun a => match a with
      | v :: rest => match natArgs rest with
        | some [x, y, c] =>
          if (x : Int) > l2Cap then "ERR:model-bound" else
          let T := tablesFor y
          match v with
          | "2" => optStr (s2Lmo2 T x y c T.piY)
          | "3" => optStr (s2Lmo3 T x y c T.piY)
          | "4" => optStr (s2Lmo4 T x y c T.piY)
          | _ => "ERR:proto"
        | _ => "ERR:proto"
      | _ => "ERR:proto"
  -- l2S2seg <3|4> <x> <y> <c> <segment_size> : model only (segment-size independence is a theorem; this op lets
  -- the stream compare the engine at other segment sizes with the real S2 value)
  | "l2S2seg" => some fun a => match a with
      | v :: rest => match natArgs rest with
        | some [x, y, c, seg] =>
          if (x : Int) > l2Cap then "ERR:model-bound" else
          let T := tablesFor y
          match v with
          | "3" => optStr (s2Seg3 T x y c T.piY seg)
          | "4" => optStr (s2Seg4 T x y c T.piY seg)
          | _ => "ERR:proto"
        | _ => "ERR:proto"
      | _ => "ERR:proto"
  -- l2P3 <x> <y> <a> <threads>
  | "l2P3" => some fun a => match natArgs a with
      | some [x, y, pa, _t] =>
        if (x : Int) > l2Cap then "ERR:model-bound" else
        if y = 0 then "ERR:ub" else toString (p3Model (ntFor x y) x y pa)
      | _ => "ERR:proto"
  | _ => none

end Pc.Drv
