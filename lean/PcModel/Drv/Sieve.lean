/-
Driver ops of the counting sieve (C17 sieve half, C15 count paths).

  sieve <cfg> <low> <segment_size> <primes|-> <op> <op> ...      exact mirror of `class Sieve`
  sievespec <cfg> <low> <segment_size> <primes|-> <op> ...        same history, counts from the DEFINITION
  sieve_masks                                                      the tables unset_smaller / unset_larger
  sieve_popcnt_swar <x>                                            popcnt64_bitwise_noinline(x)
  sieve_popcnt64 <x>                                               popcnt64(x) as dispatched
  sieve_align <x>                                                  Sieve::align_segment_size(x)

The ops are parsed into `Pc.Sieve.Op` and executed by `Pc.Sieve.applyOp` (mirror) / `Pc.Sieve.specOp`
(definition): exactly the functions the theorems of PcProps/C17Sieve.lean talk about (`sieve_correct`).

cfg: A (AVX512 detected), P (POPCNT only), B (portable bit counting).  primes: comma separated `primes[]`
vector handed to pre_sieve (entries 0..3 unused).  ops (one token each):
  pre:c:low:high  x:prime:i  xc:prime:i  c:stop  cA:stop  cP:stop  r:start:stop  t  d  dw  dc
One line = one whole history; output = the results of c/cA/cP/r/t/d/dw/dc joined by spaces.
An op outside the domain in which the C++ code has defined behaviour ends the line with `ERR:domain@k`.
-/
import PcModel.Sieve
import PcModel.PhiVector
import PcModel.Oracle
namespace Pc.Drv
open Pc.Sieve

def parseCfg : String → Option Cfg
  | "A" => some .avx512 | "P" => some .popcnt | "B" => some .portable | _ => none

def parseNatList (s : String) : Option (List Nat) :=
  if s == "-" then some [] else (s.splitOn ",").mapM (·.toNat?)

/-- limits that keep every `uint64_t` computation of the C++ code far from wrapping -/
def maxLow : Nat := 2 ^ 62
def maxSeg : Nat := 2 ^ 24
def maxPrime : Nat := 2 ^ 32

def hexOfBytes (bs : List Nat) : String :=
  let d := "0123456789abcdef".toList
  String.ofList (bs.flatMap fun b => [d.getD (b / 16) '0', d.getD (b % 16) '0'])

def dumpWheel (σ : State) : String :=
  "w" ++ String.intercalate "," ((σ.wheel.toList.drop 4).map fun w => s!"{w.multiple}.{w.index}")

def dumpCounter (σ : State) (bytes : Nat) : String :=
  let n := ceilDiv σ.sieve.size bytes
  s!"c{σ.cStop}.{σ.cDist}.{σ.cLog2}.{σ.cSum}.{σ.cI}.{σ.prevStop}.{σ.count}.{σ.totalCount}:" ++
    String.intercalate "," ((σ.counter.toList.take n).map toString)

/-- token → abstract op (`none` for the dump tokens and for malformed tokens) -/
def parseOp (cfg : Cfg) (op : List String) : Option Op :=
  match op with
  | ["pre", c, lo, hi] => do some (.pre (← c.toNat?) (← lo.toNat?) (← hi.toNat?))
  | ["x", p, i] => do some (.cross (← p.toNat?) (← i.toNat?))
  | ["xc", p, i] => do some (.crossCount (← p.toNat?) (← i.toNat?))
  | ["c", stop] => do some (.count cfg.stopFn (← stop.toNat?))
  | ["cA", stop] => do if cfg == .avx512 then some (.count StopFn.avx512 (← stop.toNat?)) else none
  | ["cP", stop] => do some (.count (StopFn.pop64 (cfg != .portable)) (← stop.toNat?))
  | ["r", a, b] => do some (.range (← a.toNat?) (← b.toNat?))
  | ["t"] => some .total
  | _ => none

/-- the calls for which the C++ code has defined behaviour in state `σ` -/
def inDomain (primes : Array Nat) (σ : State) : Op → Bool
  | .pre c lo hi =>
      decide (lo < hi ∧ hi - lo ≤ σ.segmentSize ∧ (c < 4 ∨ c < primes.size)) &&
      !((List.range (c + 1 - 4)).any fun k => primes.getD (4 + k) 0 == 0 || primes.getD (4 + k) 0 ≥ maxPrime)
  | .cross p i => σ.inited && decide (4 ≤ i ∧ i ≤ σ.wheel.size ∧ 1 ≤ p ∧ p < maxPrime)
  | .crossCount p i => σ.inited && decide (4 ≤ i ∧ i ≤ σ.wheel.size ∧ 1 ≤ p ∧ p < maxPrime)
  | .count _ stop => σ.inited && decide (stop < σ.segmentSize)
  | .range a b => σ.inited && decide (a > b ∨ b < σ.segmentSize)
  | .total => σ.inited

/-- one op on the mirror; `none` = outside the domain -/
def mirrorStep (cfg : Cfg) (primes : Array Nat) (σ : State) (op : List String) : Option (State × Option String) :=
  match op with
  | ["d"] => if σ.inited then some (σ, some ("b" ++ hexOfBytes σ.sieve.toList)) else none
  | ["dw"] => some (σ, some (dumpWheel σ))
  | ["dc"] => if σ.inited then some (σ, some (dumpCounter σ (σ.cDist / 30))) else none
  | _ =>
    match parseOp cfg op with
    | none => none
    | some o =>
      if inDomain primes σ o then
        let r := applyOp cfg primes σ o
        some (r.1, r.2.map toString)
      else none

def runTokens {St : Type} (step : St → List String → Option (St × Option String)) :
    St → List String → Nat → List String → String
  | _, [], _, acc => if acc.isEmpty then "ok" else String.intercalate " " acc.reverse
  | σ, op :: rest, k, acc =>
    match step σ (op.splitOn ":") with
    | none => String.intercalate " " (("ERR:domain@" ++ toString k) :: acc).reverse
    | some (σ', out) => runTokens step σ' rest (k + 1) (match out with | some o => o :: acc | none => acc)

def sieveOp (a : List String) : String :=
  match a with
  | cfg :: low :: seg :: primes :: ops =>
    match parseCfg cfg, low.toNat?, seg.toNat?, parseNatList primes with
    | some cfg, some low, some seg, some primes =>
      if low ≥ maxLow ∨ seg > maxSeg then "ERR:domain" else
      runTokens (mirrorStep cfg primes.toArray) (create cfg low seg) ops 0 []
    | _, _, _, _ => "ERR:proto"
  | _ => "ERR:proto"

/-! ### the same history against the definition (`Pc.Sieve.specOp`) -/

def specStep (cfg : Cfg) (primes : Array Nat) (sp : SpecState) (op : List String) : Option (SpecState × Option String) :=
  match parseOp cfg op with
  | none => none
  | some o =>
    let ok := match o with
      | .pre c _ _ => decide (c < 4 ∨ c < primes.size)
      | _ => true
    if ok then (specOp primes sp o).map fun r => (r.1, r.2.map toString) else none

def sieveSpecOp (a : List String) : String :=
  match a with
  | cfg :: low :: seg :: primes :: ops =>
    match parseCfg cfg, low.toNat?, seg.toNat?, parseNatList primes with
    | some cfg, some low, some seg, some primes =>
      if low ≥ maxLow ∨ seg > maxSeg ∨ low % 30 ≠ 0 then "ERR:domain" else
      runTokens (specStep cfg primes.toArray) (specInit low seg) ops 0 []
    | _, _, _, _ => "ERR:proto"
  | _ => "ERR:proto"

def sieveOps : String → Option (List String → String)
  | "sieve" => some sieveOp
  | "sievespec" => some sieveSpecOp
  | "sieve_masks" => some fun _ =>
      String.intercalate "," (unsetSmaller.toList.map toString) ++ ";" ++
      String.intercalate "," (unsetLarger.toList.map toString)
  | "sieve_popcnt_swar" => some fun a => match a with
      | [x] => match x.toNat? with
        | some x => if x < M64 then toString (popcntSwar x) else "ERR:domain"
        | none => "ERR:proto"
      | _ => "ERR:proto"
  | "sieve_popcnt64" => some fun a => match a with
      | [x] => match x.toNat? with
        | some x => if x < M64 then toString (popCount64 x) else "ERR:domain"
        | none => "ERR:proto"
      | _ => "ERR:proto"
  | "sieve_phivec" => some fun a => match a.map (·.toNat?) with
      | [some x, some av, some maxp, _] =>
        if x ≥ 2 ^ 62 ∨ maxp > 2 ^ 26 ∨ maxp < 2 then "ERR:domain" else
        let ps := primesUpTo maxp
        if av + 1 ≥ ps.length + 1 then "ERR:domain" else
        let parr := (0 :: ps).toArray
        let v := PhiVec.phiVector (fun i => parr.getD i 0) ((ps.filter (· ≤ x)).length) (Nat.sqrt x)
          (fun y b => -((phiNaive y (ps.take b) : Nat) : Int)) x av
        String.intercalate "," (v.map toString)
      | _ => "ERR:proto"
  | "sieve_align" => some fun a => match a with
      | [x] => match x.toNat? with
        | some x => if x < 2 ^ 63 then toString (alignSegmentSize x) else "ERR:domain"
        | none => "ERR:proto"
      | _ => "ERR:proto"
  | _ => none

end Pc.Drv
