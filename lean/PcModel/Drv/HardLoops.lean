/-
Driver ops of WP hard (C08/C03): the L2 model of `S2_hard_thread` / `D_thread` / `S2_hard_OpenMP` / `D_OpenMP`
(PcModel/HardLoops.lean) executed over the oracle prime table, the proved FactorTable / FactorTableD models and the
`phi_vector` model, against harness/ops_hardloops.cpp.

  s2hard_chunk | d_chunk   <64|128> x y z c|k low segments segment_size   -> value | ERR:domain | ERR:model-<err>
  s2hard_chain | d_chain   <64|128> x y z c|k segment_size low0 segs0 segs1 ...
  s2hard_row   | d_row     <64|128> x y z c|k low segment_size n
  suffixes:  (none)  the engine `s2HardThread` / `dThread` over `refSieve` (segment_size <= 960) or over the prefix-sum
                     sieve `hlPsSieve` of this file (larger segments; same interface, counts by a prefix array)
             _ref    always `refSieve`
             _cs     the engine over `concreteSieve .portable (.pop64 false)`: the bit-exact model of class Sieve
             _def    the DEFINING sum restricted to the chunk window [low, min(low + size*segments, z | x/z)):
                     S2_hard: -Σ_{c<b<=π(√y)} Σ_{y/p_b < m <= y, μ(m)≠0, lpf(m)>p_b, pos in window} μ(m) φ(pos, b-1)
                              +Σ_{max(c,π√y)<b<=π(y)} Σ_{l prime, p_b < l <= min(y, z/p_b), pos in window} φ(pos, b-1),  pos = x/(p_b m)
                     D: the leaves of `NT.D` (k < b <= π(x*), z/p_b < m <= z, m <= x/p_b³, lpf(m) > p_b, gpf(m) <= y)
                     (μ / lpf / gpf from a plain sieve over the NT primes; φ by `hlPhi`)
             _both   `<engine> | <def>`      _all   `<engine> | <cs> | <def>`   (one table construction)
  s2hard_run_check | d_run_check <64|128> x y z c|k team print ev...   (ev: the lbs2 encoding of Drv/Dispenser.lean)
        -> R <s2HardOpenMP|dOpenMP on the recorded run> <the same> <team> 1 <nev> ev...   or ERR:model-<err>
  hardphi x a -> φ(x, a) by `hlPhi` (the harness answers with primecount::phi); `MISMATCH` if it differs from `NT.phiOf`
        on small arguments
-/
import PcModel.HardLoops
import PcModel.DispenserGen
import PcModel.Drv.Formulas
import PcModel.Drv.Tables
import PcModel.Drv.Dispenser
namespace Pc.Drv
open Pc.Hard Pc.LB

def hlErr : Hard.Err → String
  | .oobPi => "ERR:model-oobPi" | .oobPrimes => "ERR:model-oobPrimes" | .oobFactor => "ERR:model-oobFactor"
  | .oobPhi => "ERR:model-oobPhi" | .oobSieve => "ERR:model-oobSieve" | .div0 => "ERR:model-div0"
  | .hang => "ERR:model-hang" | .badRun => "ERR:model-badRun"

def hlShow : Except Hard.Err Int → String
  | .ok v => toString v
  | .error e => hlErr e

/-- φ(x, a) by the Legendre recurrence with the cut-offs `p_a ≥ x → 1` and `x < p_{a+1}² → π(x) − a + 1`
    (the second only inside the table) -/
def hlPhi (t : NT) : Nat → Nat → Nat → Int
  | 0, x, _ => x
  | fuel + 1, x, a =>
    if a = 0 then x else
    if x = 0 then 0 else
    if t.p a ≥ x then 1 else
    if x ≤ t.bound ∧ t.p (a + 1) ≠ 0 ∧ x < t.p (a + 1) * t.p (a + 1) then (t.piOf x : Int) - a + 1
    else hlPhi t fuel x (a - 1) - hlPhi t fuel (x / t.p a) (a - 1)

def hlPhiOf (t : NT) (x a : Nat) : Int := hlPhi t (a + 1) x a

/-- `phi_vector(low, a, primes, pi)` by its model (PcModel/PhiVector.lean), `cache.phi<-1>(y, b) = −φ(y, b)` -/
def hlPhiVec (t : NT) (low a : Nat) : Array Int :=
  (PhiVec.phiVector t.p (t.piOf low) (isqrtN low) (fun y b => - hlPhiOf t y b) low a).toArray

/-- a sieve with the `SieveOps` interface that answers `count` from a prefix-count array -/
structure HlPs where
  low : Nat
  bits : Array Bool
  pre : Array Nat

def hlPsMk (low : Nat) (bits : Array Bool) : HlPs :=
  let r := bits.foldl (fun (acc : Array Nat × Nat) b =>
    let n := if b then acc.2 + 1 else acc.2
    (acc.1.push n, n)) (Array.mkEmpty bits.size, 0)
  ⟨low, bits, r.1⟩

def hlPsSieve (primes : Nat → Nat) : SieveOps HlPs where
  create := fun low _ _ => hlPsMk low #[]
  pre := fun _ c low high =>
    hlPsMk low ((List.range c).foldl (fun a j => refCross low a (primes (j + 1)))
      ((Array.replicate (high - low) true).setIfInBounds 0 (decide (low ≠ 0))))
  count := fun s stop => (s, s.pre.getD stop (s.pre.back?.getD 0))
  total := fun s => s.pre.back?.getD 0
  cross := fun s p _ => hlPsMk s.low (refCross s.low s.bits p)

def hlI64Max : Nat := 9223372036854775807
def hlBig : Nat := 2 ^ 40

def hlNat (s : String) (maxLen : Nat) : Option Nat :=
  if s.length > maxLen then none else s.toNat?

structure HlIn where
  wide : Bool
  isD : Bool
  x : Nat
  y : Nat
  z : Nat
  c : Nat

/-- `<64|128> x y z c|k` with the harness's domain -/
def hlHead (isD : Bool) (a : List String) : Except String HlIn :=
  match a with
  | w :: xs :: ys :: zs :: cs :: _ =>
    if w ≠ "64" ∧ w ≠ "128" then .error "ERR:proto" else
    let wide := w = "128"
    match hlNat xs 31, hlNat ys 19, hlNat zs 19, hlNat cs 19 with
    | some x, some y, some z, some c =>
      if x < 1 ∨ x > (if wide then 10 ^ 30 else hlI64Max) then .error "ERR:domain" else
      if y > 2 ^ 62 ∨ z > 2 ^ 62 ∨ c > 1000000 then .error "ERR:domain" else
      if y < 1 ∨ z < y then .error "ERR:domain" else
      if !isD then
        if c ≥ 4 ∨ c ≥ fGetC y then .ok ⟨wide, isD, x, y, z, c⟩ else .error "ERR:domain"
      else
        if z > x ∨ isqrtN z > y then .error "ERR:domain" else
        if c < 4 ∧ (xStar x y ≥ 11 ∨ piTD (xStar x y) > c) then .error "ERR:domain" else
        .ok ⟨wide, isD, x, y, z, c⟩
    | _, _, _, _ => .error "ERR:domain"
  | _ => .error "ERR:proto"

abbrev HlItem := Nat × Nat × Nat    -- low, segments, segment_size

def hlItemOk (it : HlItem) : Bool :=
  let (low, segs, size) := it
  low % 30 == 0 && decide (size ≥ 240) && size % 240 == 0 && decide (segs ≥ 1) && decide (low ≤ hlBig) &&
    decide (size ≤ hlBig) && decide (segs ≤ hlBig) && decide (size * segs ≤ hlBig)

/-- sieve limit of the input: `z` (S2_hard) or `x / z` (D) -/
def HlIn.limit (i : HlIn) : Nat := if i.isD then i.x / i.z else i.z

/-- `max_prime` of the caller: `min(y, z / isqrt(y))` (S2_hard) or `y` (D) -/
def HlIn.maxPrime (i : HlIn) : Nat := if i.isD then i.y else min i.y (i.z / isqrtN i.y)

def hlTableMax : Nat := 30000000

/-- the NT table: reaches `max_prime`, `y` and (D) `z` (what the code's tables hold / the leaf enumeration reads) and, for the π cut-off of `hlPhi`, the sieve
    limit when that is moderate -/
def hlTable (i : HlIn) : Option NT :=
  let need := max (max i.maxPrime i.y) (if i.isD then i.z else 0) + 2
  let n := max need (min (i.limit + 2) 1000000)
  if need > hlTableMax then none else some (NT.build n)

def hlFactorOf (arr : FtArr) (i : Nat) : Nat :=
  match arr[i]? with
  | some (some v) => v
  | _ => 10 ^ 30     -- never-written entry: loud

/-- the tables a thread function gets, as the real caller builds them; `none` = `primecount_error` -/
def hlEnv (i : HlIn) (t : NT) : Option Env :=
  let big := if i.isD then decide (i.z > ftMax 65535) else decide (i.y > ftMax 65535)
  let tmax := if i.wide ∧ big then 4294967295 else 65535
  let ft := if i.isD then factorTableDNew primesRange tmax i.y i.z 1 else factorTableNew primesRange tmax i.y 1
  ft.map fun arr =>
    { primes := t.p, primesSize := t.piOf i.maxPrime + 1, pi := t.piOf, piMax := i.maxPrime,
      factor := hlFactorOf arr, factorSize := arr.size, phiVec := hlPhiVec t }

/-- placeholder when only the defining sum is asked for -/
def hlNoEnv (t : NT) : Env :=
  { primes := t.p, primesSize := 0, pi := t.piOf, piMax := 0, factor := fun _ => 0, factorSize := 0,
    phiVec := fun _ _ => #[] }

inductive HlSv where | auto | ref | cs

def hlThread (sv : HlSv) (i : HlIn) (t : NT) (e : Env) (it : HlItem) : Except Hard.Err Int :=
  let (low, segs, size) := it
  let go {σ : Type} (S : SieveOps σ) : Except Hard.Err Int :=
    if i.isD then dThread S e i.x (xStar i.x i.y) (i.x / i.z) i.y i.z i.c low segs size
    else s2HardThread S e i.x i.y i.z i.c low segs size
  match sv with
  | .ref => go (refSieve e.primes)
  | .cs => go (concreteSieve .portable (.pop64 false) t.primes)
  | .auto => if size ≤ 960 then go (refSieve e.primes) else go (hlPsSieve e.primes)

/-! ### the defining sums, windowed -/

/-- (μ, lpf, gpf) of every n ≤ N by a plain sieve over the table's primes -/
def hlFactorArrs (t : NT) (N : Nat) : Array Int × Array Nat × Array Nat :=
  let init : Array Int × Array Nat × Array Nat :=
    (Array.replicate (N + 1) 1, Array.replicate (N + 1) 0, Array.replicate (N + 1) 0)
  (List.range (t.piOf N)).foldl (fun acc j =>
    let p := t.p (j + 1)
    if p = 0 then acc else
    let acc := (List.range (N / p)).foldl (fun (acc : Array Int × Array Nat × Array Nat) k =>
      let n := (k + 1) * p
      (acc.1.modify n (fun v => -v), (if acc.2.1.getD n 0 = 0 then acc.2.1.setIfInBounds n p else acc.2.1),
        acc.2.2.setIfInBounds n p)) acc
    (List.range (N / (p * p))).foldl (fun (acc : Array Int × Array Nat × Array Nat) k =>
      (acc.1.setIfInBounds ((k + 1) * p * p) 0, acc.2.1, acc.2.2)) acc) init

/-- all hard leaves `(position, contribution)` of S2_hard(x, y, z, c) -/
def hlS2Leaves (t : NT) (x y z c : Nat) : List (Nat × Int) :=
  let fa := hlFactorArrs t y
  let bs := t.piOf (isqrtN y)
  let part1 := (List.range (bs - c)).flatMap fun j =>
    let b := c + 1 + j
    let q := t.p b
    (List.range (y - y / q)).filterMap fun i =>
      let m := y / q + 1 + i
      let mu := fa.1.getD m 0
      if mu ≠ 0 ∧ fa.2.1.getD m 0 > q then some (x / (q * m), - mu * hlPhiOf t (x / (q * m)) (b - 1)) else none
  let b0 := max c bs
  let part2 := (List.range (t.piOf y - b0)).flatMap fun j =>
    let b := b0 + 1 + j
    let q := t.p b
    (t.primesIn q (min y (z / q))).map fun l => (x / (q * l), hlPhiOf t (x / (q * l)) (b - 1))
  part1 ++ part2

/-- all leaves `(position, contribution)` of D(x, y, z, k) -/
def hlDLeaves (t : NT) (x y z k : Nat) : List (Nat × Int) :=
  let fa := hlFactorArrs t z
  let xs := xStar x y
  (List.range (t.piOf xs - k)).flatMap fun j =>
    let b := k + 1 + j
    let q := t.p b
    (List.range (z - z / q)).filterMap fun i =>
      let m := z / q + 1 + i
      let mu := fa.1.getD m 0
      if m ≠ 1 ∧ mu ≠ 0 ∧ fa.2.1.getD m 0 > q ∧ fa.2.2.getD m 0 ≤ y ∧ m ≤ x / (q * q * q) then
        some (x / (q * m), - mu * hlPhiOf t (x / (q * m)) (b - 1))
      else none

def hlWindow (leaves : List (Nat × Int)) (i : HlIn) (it : HlItem) : Int :=
  let (low, segs, size) := it
  let limit := min (low + size * segs) i.limit
  leaves.foldl (fun acc (pos, v) => if low ≤ pos ∧ pos < limit then acc + v else acc) 0

/-! ### ops -/

inductive HlMode where | eng (sv : HlSv) | dfn

def hlModes : String → Option (List HlMode)
  | "" => some [.eng .auto] | "_ref" => some [.eng .ref] | "_cs" => some [.eng .cs] | "_def" => some [.dfn]
  | "_both" => some [.eng .auto, .dfn] | "_all" => some [.eng .auto, .eng .cs, .dfn]
  | _ => none

def hlAnswer (modes : List HlMode) (i : HlIn) (items : List HlItem) : String :=
  if !items.all hlItemOk then "ERR:domain" else
  match hlTable i with
  | none => "ERR:model-bound"
  | some t =>
    let needEnv := modes.any fun m => match m with | .eng _ => true | .dfn => false
    let env? := if needEnv then hlEnv i t else some (hlNoEnv t)
    match env? with
    | none => "ERR:pc"
    | some e =>
      let needDef := modes.any fun m => match m with | .dfn => true | _ => false
      let leaves := if needDef then (if i.isD then hlDLeaves t i.x i.y i.z i.c else hlS2Leaves t i.x i.y i.z i.c) else []
      " | ".intercalate (modes.map fun m =>
        " ".intercalate (items.map fun it =>
          match m with
          | .eng sv => hlShow (hlThread sv i t e it)
          | .dfn => toString (hlWindow leaves i it)))

def hlChunk (isD : Bool) (modes : List HlMode) (a : List String) : String :=
  match hlHead isD a with
  | .error e => e
  | .ok i =>
    match a.drop 5 with
    | [lo, sg, sz] =>
      match hlNat lo 19, hlNat sg 19, hlNat sz 19 with
      | some lo, some sg, some sz => hlAnswer modes i [(lo, sg, sz)]
      | _, _, _ => "ERR:domain"
    | _ => "ERR:proto"

def hlChainItems (size : Nat) : Nat → List Nat → List HlItem
  | _, [] => []
  | low, sg :: rest => (low, sg, size) :: hlChainItems size (low + size * sg) rest

def hlChain (isD : Bool) (modes : List HlMode) (a : List String) : String :=
  match hlHead isD a with
  | .error e => e
  | .ok i =>
    match a.drop 5 with
    | sz :: lo :: segs =>
      if segs.isEmpty then "ERR:proto" else
      match hlNat sz 19, hlNat lo 19, segs.mapM (hlNat · 19) with
      | some sz, some lo, some segs =>
        if sz > hlBig ∨ lo > hlBig ∨ segs.length > 100000 then "ERR:domain" else
        hlAnswer modes i (hlChainItems sz lo segs)
      | _, _, _ => "ERR:domain"
    | _ => "ERR:proto"

def hlRow (isD : Bool) (modes : List HlMode) (a : List String) : String :=
  match hlHead isD a with
  | .error e => e
  | .ok i =>
    match a.drop 5 with
    | [lo, sz, n] =>
      match hlNat lo 19, hlNat sz 19, hlNat n 19 with
      | some lo, some sz, some n =>
        if lo > hlBig ∨ sz > hlBig ∨ n > 100000 ∨ n < 1 then "ERR:domain" else
        hlAnswer modes i ((List.range n).map fun j => (lo + j * sz, 1, sz))
      | _, _, _ => "ERR:domain"
    | _ => "ERR:proto"

def hlRunCheck (isD : Bool) (a : List String) : String :=
  match hlHead isD a with
  | .error e => e
  | .ok i =>
    match a.drop 5 with
    | team :: pr :: evs =>
      match team.toNat?, lbBool? pr, lbParseAll parseS2Ev evs 0 with
      | some team, some pr, .ok es =>
        match hlTable i with
        | none => "ERR:model-bound"
        | some t =>
          match hlEnv i t with
          | none => "ERR:pc"
          | some e =>
            let r := if i.isD then dOpenMP (hlPsSieve e.primes) e genConsts i.x i.y i.z i.c team pr es
                     else s2HardOpenMP (hlPsSieve e.primes) e genConsts i.x i.y i.z i.c team pr es
            match r with
            | .error er => hlErr er
            | .ok v => s!"R {v} {v} {team} 1 {es.length}" ++ (if evs.isEmpty then "" else " " ++ " ".intercalate evs)
      | _, _, _ => "ERR:proto"
    | _ => "ERR:proto"

def hlPhiOp (a : List String) : String :=
  match a with
  | [xs, as] =>
    match hlNat xs 19, hlNat as 5 with
    | some x, some av =>
      if x > 10 ^ 12 ∨ av > 3000 then "ERR:domain" else
      let t := NT.build (max (min (x + 2) 2000000) 30000)
      let v := hlPhiOf t x av
      if x ≤ 3000 ∧ v ≠ (t.phiOf x av : Int) then "MISMATCH" else toString v
    | _, _ => "ERR:domain"
  | _ => "ERR:proto"

def hlSplit (op pre : String) : Option (List HlMode) :=
  if op.startsWith pre then hlModes ((op.drop pre.length).toString) else none

def hardLoopsOps : String → Option (List String → String)
  | "s2hard_run_check" => some (hlRunCheck false)
  | "d_run_check" => some (hlRunCheck true)
  | "hardphi" => some hlPhiOp
  | op =>
    match hlSplit op "s2hard_chunk", hlSplit op "d_chunk", hlSplit op "s2hard_chain", hlSplit op "d_chain",
          hlSplit op "s2hard_row", hlSplit op "d_row" with
    | some m, _, _, _, _, _ => some (hlChunk false m)
    | _, some m, _, _, _, _ => some (hlChunk true m)
    | _, _, some m, _, _, _ => some (hlChain false m)
    | _, _, _, some m, _, _ => some (hlChain true m)
    | _, _, _, _, some m, _ => some (hlRow false m)
    | _, _, _, _, _, some m => some (hlRow true m)
    | _, _, _, _, _, _ => none

end Pc.Drv
