import PcModel.Params
import PcModel.Drv.Formulas
namespace Pc.Drv

/-- (int64_t)(a * alpha) in binary64, as the C++ code computes it -/
def mulTrunc (a : Nat) (alphaBits : Nat) : Int :=
  let f := a.toFloat * Float.ofBits alphaBits.toUInt64
  f.toInt64.toInt

def paramsOps : String → Option (List String → String)
  -- params_gourdon_chk x alpha_y_bits alpha_z_bits  ->  y z k x_star
  | "params_gourdon_chk" => some fun a => match natArgs a with
      | some [x, by_, bz] =>
        let x13 := irootN 3 x
        let sq := isqrtN x
        let y := clampY x13 sq (mulTrunc x13 by_)
        let z := clampZ sq y (mulTrunc y.toNat bz)
        s!"{y} {z} {fGetK x} {xStar x y.toNat}"
      | _ => "ERR:proto"
  -- params_dr_chk x alpha_bits maxx_ok -> y z c   (z = -2 when the range check rejects x)
  | "params_dr_chk" => some fun a => match natArgs a with
      | some [x, b, ok] =>
        let y := mulTrunc (irootN 3 x) b
        let z : Int := if ok = 0 then -2 else if y > 0 then (x : Int) / y else -1
        s!"{y} {z} {fGetC y.toNat}"
      | _ => "ERR:proto"
  | _ => none

end Pc.Drv
