/-
Driver ops of WP top, item 3 (C02 / C03): the L2 models of PcModel/TopLmo.lean (`s2Lmo5`, `piLmo5`, `lmoParThread`,
`lmoParOpenMP`, `piLmoParallel`) executed over the oracle prime table, against harness/ops_toplmo.cpp.

  toplmo5_S2 x y c                                   -> `s2Lmo5` (engine over the prefix-count sieve of Drv/HardLoops.lean)
  toplmopar_chunk | _chain | _row  (as the harness)  -> `lmoParThread` per work item
      suffixes: `_ref` = engine over `refSieve`, `_cs` = engine over the bit-exact `concreteSieve .portable (.pop64 false)`,
      `_def` = the DEFINING sum of ALL special leaves restricted to the window, `_all` = `engine | cs | def`
  toplmopar_run_check x y z c team print ev…         -> replay of the recorded history with `lmoParOpenMP`:
      `R v v team 1 nev ev…` (byte-identical to the harness line of a complete run) or `ERR:model-…`
  toplmo5_chk lo hi y_lo … y_hi                      -> "y:piLmo5" for x in [lo, hi] with the reported float products
  toplmopar_chk lo hi y_lo … y_hi                    -> "y:piLmoParallel" (P2: the one-thread run of its region, S1: the
      one-thread schedule, S2: the history of ONE worker that the dispenser model itself produces — the value does not
      depend on these choices, which is what the theorems say and the `_run` ops test on real histories)
-/
import PcModel.TopLmo
import PcModel.Drv.HardLoops
import PcModel.Drv.P2Loop
namespace Pc.Drv
open Pc.Hard Pc.LB Pc.TopLmo

def tlTableMax : Nat := 30000000

/-- tables as the callers build them for `y` -/
def tlEnv (t : NT) (y : Nat) : LmoEnv :=
  let mu := generateMoebius y
  let lpf := generateLpf y
  { e := { primes := t.p, primesSize := t.piOf y + 1, pi := t.piOf, piMax := y, factor := fun _ => 0, factorSize := 0,
           phiVec := hlPhiVec t },
    mu := fun m => mu.getD m 0, lpf := fun m => lpf.getD m 0, vecSize := mu.size }

def tlTable (y z : Nat) : Option NT :=
  let need := y + 2
  if need > tlTableMax then none else some (NT.build (max need (min (z + 2) 1000000)))

/-- `x y z c` with the harness's domain -/
def tlHead (a : List String) : Except String (Nat × Nat × Nat × Nat) :=
  match a with
  | xs :: ys :: zs :: cs :: _ =>
    match hlNat xs 18, hlNat ys 18, hlNat zs 18, hlNat cs 18 with
    | some x, some y, some z, some c =>
      if x > 10 ^ 15 ∨ y > 10 ^ 8 ∨ z > 2 ^ 50 ∨ c > 1000000 then .error "ERR:domain" else
      if x < 1 ∨ y < 1 ∨ z < 1 then .error "ERR:domain" else
      if c ≥ 3 ∨ (y < 5 ∧ c ≥ piTD y) then .ok (x, y, z, c) else .error "ERR:domain"
    | _, _, _, _ => .error "ERR:domain"
  | _ => .error "ERR:proto"

inductive TlMode where | eng (sv : HlSv) | dfn

def tlModes : String → Option (List TlMode)
  | "" => some [.eng .auto] | "_ref" => some [.eng .ref] | "_cs" => some [.eng .cs] | "_def" => some [.dfn]
  | "_all" => some [.eng .auto, .eng .cs, .dfn]
  | _ => none

def tlThread (sv : HlSv) (t : NT) (L : LmoEnv) (x y z c : Nat) (it : HlItem) : Except Hard.Err Int :=
  let (low, segs, size) := it
  match sv with
  | .ref => lmoParThread (refSieve L.e.primes) L x y z c low segs size
  | .cs => lmoParThread (concreteSieve .portable (.pop64 false) t.primes) L x y z c low segs size
  | .auto => if size ≤ 960 then lmoParThread (refSieve L.e.primes) L x y z c low segs size
             else lmoParThread (hlPsSieve L.e.primes) L x y z c low segs size

/-- ALL special leaves `(position, contribution)` of the levels `(c, π y]`: the two families of `hlS2Leaves` without the
    `z / q` cut (`z := y * y`) -/
def tlLeaves (t : NT) (x y c : Nat) : List (Nat × Int) := hlS2Leaves t x y (y * y) c

def tlWindow (leaves : List (Nat × Int)) (low limit : Nat) : Int :=
  leaves.foldl (fun acc (pos, v) => if low ≤ pos ∧ pos < limit then acc + v else acc) 0

def tlAnswer (modes : List TlMode) (x y z c : Nat) (items : List HlItem) : String :=
  if !items.all hlItemOk then "ERR:domain" else
  match tlTable y z with
  | none => "ERR:model-bound"
  | some t =>
    let L := tlEnv t y
    let needDef := modes.any fun m => match m with | .dfn => true | _ => false
    let leaves := if needDef then tlLeaves t x y c else []
    " | ".intercalate (modes.map fun m =>
      " ".intercalate (items.map fun it =>
        match m with
        | .eng sv => hlShow (tlThread sv t L x y z c it)
        | .dfn => toString (tlWindow leaves it.1 (lmoLimit it.1 it.2.1 it.2.2 z))))

def tlChunk (modes : List TlMode) (a : List String) : String :=
  match tlHead a with
  | .error e => e
  | .ok (x, y, z, c) =>
    match a.drop 4 with
    | [lo, sg, sz] =>
      match hlNat lo 18, hlNat sg 18, hlNat sz 18 with
      | some lo, some sg, some sz => tlAnswer modes x y z c [(lo, sg, sz)]
      | _, _, _ => "ERR:domain"
    | _ => "ERR:proto"

def tlChain (modes : List TlMode) (a : List String) : String :=
  match tlHead a with
  | .error e => e
  | .ok (x, y, z, c) =>
    match a.drop 4 with
    | sz :: lo :: segs =>
      if segs.isEmpty then "ERR:proto" else
      match hlNat sz 18, hlNat lo 18, segs.mapM (hlNat · 18) with
      | some sz, some lo, some segs =>
        if sz > hlBig ∨ lo > hlBig ∨ segs.length > 100000 then "ERR:domain" else
        tlAnswer modes x y z c (hlChainItems sz lo segs)
      | _, _, _ => "ERR:domain"
    | _ => "ERR:proto"

def tlRow (modes : List TlMode) (a : List String) : String :=
  match tlHead a with
  | .error e => e
  | .ok (x, y, z, c) =>
    match a.drop 4 with
    | [lo, sz, n] =>
      match hlNat lo 18, hlNat sz 18, hlNat n 18 with
      | some lo, some sz, some n =>
        if lo > hlBig ∨ sz > hlBig ∨ n > 100000 ∨ n < 1 then "ERR:domain" else
        tlAnswer modes x y z c ((List.range n).map fun j => (lo + j * sz, 1, sz))
      | _, _, _ => "ERR:domain"
    | _ => "ERR:proto"

def tlRunCheck (a : List String) : String :=
  match tlHead a with
  | .error e => e
  | .ok (x, y, z, c) =>
    match a.drop 4 with
    | team :: pr :: evs =>
      match team.toNat?, lbBool? pr, lbParseAll parseS2Ev evs 0 with
      | some team, some pr, .ok es =>
        match tlTable y z with
        | none => "ERR:model-bound"
        | some t =>
          let L := tlEnv t y
          match lmoParOpenMP (hlPsSieve L.e.primes) L genConsts x y z c team pr es with
          | .error er => hlErr er
          | .ok v => s!"R {v} {v} {team} 1 {es.length}" ++ (if evs.isEmpty then "" else " " ++ " ".intercalate evs)
      | _, _, _ => "ERR:proto"
    | _ => "ERR:proto"

/-- `S2` of pi_lmo5.cpp on its own tables -/
def tlS2Lmo5 (modes : List TlMode) (a : List String) : String :=
  match a with
  | [xs, ys, cs] =>
    match hlNat xs 18, hlNat ys 18, hlNat cs 18 with
    | some x, some y, some c =>
      if x > 10 ^ 15 ∨ y > 10 ^ 8 ∨ c > 1000000 ∨ x < 1 ∨ y < 1 then "ERR:domain" else
      if ¬ (c ≥ 3 ∨ (y < 5 ∧ c ≥ piTD y)) then "ERR:domain" else
      match tlTable y (x / y) with
      | none => "ERR:model-bound"
      | some t =>
        let L := tlEnv t y
        " | ".intercalate (modes.map fun m =>
          match m with
          | .eng .cs => hlShow (s2Lmo5 (concreteSieve .portable (.pop64 false) t.primes) L x y c)
          | .eng .ref => hlShow (s2Lmo5 (refSieve L.e.primes) L x y c)
          | .eng .auto => hlShow (s2Lmo5 (hlPsSieve L.e.primes) L x y c)
          | .dfn => toString (tlWindow (tlLeaves t x y c) 0 (x / y)))
    | _, _, _ => "ERR:domain"
  | _ => "ERR:proto"

/-! ### whole functions -/

def tlTErr : TErr → String
  | .params e => "ERR:model-params-" ++ e.show
  | .p2 e => "ERR:model-p2-" ++ p2lErr e
  | .s1 e => "ERR:model-s1-" ++ e.toString
  | .s2 e => hlErr e

/-- the run of `P2`'s region with ONE thread and no status output: one work item `[min(√x, limit), limit)`, then `false` -/
def tlP2Run (x y : Nat) : P2L.Run :=
  let limit := x / max y 1
  let low0 := min (ctSqrt x) limit
  let es : List P2.Ev :=
    if low0 < limit then [⟨0, true, low0, limit⟩, ⟨0, false, limit, limit⟩] else [⟨0, false, low0, low0⟩]
  { team := 1, print := false, es := es, order := [0] }

/-- the history of ONE worker as the dispenser model itself produces it (`segments_ *= 2` wherever the float-derived
    choice is consulted) -/
def tlS2History (f : Nat → Nat → Nat → Except Hard.Err Int) (cfg : S2.Config) : Nat → S2.State → List S2.Ev → List S2.Ev
  | 0, _, acc => acc.reverse
  | fuel + 1, s, acc =>
    let h := getHand 0 s.hands
    let v := match handValue f h with | .ok v => v | .error _ => 0
    let sum1 := s.sum + v
    let u := S2.update cfg s sum1 h.low h.segs (max 1 (2 * h.segs))
    let work := decide (s.low < cfg.limit)
    let e : S2.Ev := { w := 0, tlow := h.low, tsegs := h.segs, tsize := h.size, tsum := v, secs := 0, init := 0,
                       work := work, olow := s.low, osegs := u.2.1, osize := u.2.2, sumAfter := sum1 }
    if work then tlS2History f cfg fuel (S2.next cfg s e) (e :: acc) else (e :: acc).reverse

def tlCtx (t : NT) : Ctx HlPs :=
  { S := hlPsSieve t.p, tabs := tlEnv t, nt := fun _ => t, lc := genConsts, it := P2L.tableIter t 7, piFn := t.piOf }

def tlWholeTable (x y : Nat) : Option NT :=
  let limit := x / max y 1
  let lowMin := max (min (isqrtN x) limit) 1
  let n := max (max (P2L.threadBound x y lowMin (max limit (lowMin + 1))) (y + 2)) (min (limit + 2) 1000000)
  if n > 60000000 then none else some (NT.build n)

def tlWhole (par : Bool) (x : Int) (y : Nat) : String :=
  if x < 2 then (match (piLmo5 (tlCtx (NT.build 30)) x y (tlP2Run 0 0) [] : Except TErr Int) with
    | .ok v => toString v | .error e => tlTErr e) else
  if x > 2000000000 then "ERR:model-bound" else
  if y = 0 then tlTErr (.params .divZero) else
  match tlWholeTable x.toNat y with
  | none => "ERR:model-bound"
  | some t =>
    let C := tlCtx t
    let xn := x.toNat
    let c := getC y
    let run := tlP2Run xn y
    let sched := staticSched1 (c + 1) (t.piOf y) 1
    let r : Except TErr Int :=
      if par then
        let z := xn / y
        let L := tlEnv t y
        let cfg := S2.mkConfig genConsts z 1 false
        let es := tlS2History (fun low segs size => lmoParThread C.S L xn y z c low segs size) cfg 100000
          (S2.init genConsts xn z 1 false) []
        piLmoParallel C x y run sched 1 false es
      else piLmo5 C x y run sched
    match r with
    | .ok v => toString v
    | .error e => tlTErr e

def tlChk (par : Bool) (a : List String) : String :=
  match a with
  | los :: his :: ys =>
    match parseInt? los, parseInt? his, natArgs ys with
    | some lo, some hi, some yl =>
      if yl.length ≠ (hi - lo + 1).toNat then "ERR:proto" else
      " ".intercalate ((List.range yl.length).map fun (j : Nat) =>
        let y := yl.getD j 0
        s!"{y}:{tlWhole par (lo + (j : Int)) y}")
    | _, _, _ => "ERR:proto"
  | _ => "ERR:proto"

def tlSplit (op pre : String) : Option (List TlMode) :=
  if op.startsWith pre then tlModes ((op.drop pre.length).toString) else none

def topLmoOps : String → Option (List String → String)
  | "toplmopar_run_check" => some tlRunCheck
  | "toplmo5_chk" => some (tlChk false)
  | "toplmopar_chk" => some (tlChk true)
  | op =>
    match tlSplit op "toplmo5_S2", tlSplit op "toplmopar_chunk", tlSplit op "toplmopar_chain", tlSplit op "toplmopar_row" with
    | some m, _, _, _ => some (tlS2Lmo5 m)
    | _, some m, _, _ => some (tlChunk m)
    | _, _, some m, _ => some (tlChain m)
    | _, _, _, some m => some (tlRow m)
    | _, _, _, _ => none

end Pc.Drv
