/-
Driver ops of C06 (nth_prime). Answering side for `n ≤ 10^5`: the Lean sieve oracle (`sieveArr`), i.e. the spec
value `p n` itself; the executable model `Pc.nthPrime` is run next to it with an environment built from the
same sieve (and a deliberately bad, n-dependent approximation so that both walks are exercised) and any
difference between model and oracle is printed as `bad:...`. For large `n` the op `nth_judge` certifies what
the real code printed (`q` prime by trial division, counts as reported by the implementation).
-/
import PcModel.NthPrime
import PcModel.Oracle
namespace Pc.Drv

/-- largest `n` the sieve oracle answers directly -/
def nthDirectMax : Nat := 100000

structure NthOracle where
  lim : Nat
  sieve : Array Bool
  /-- `piArr[i] = π(i)` for `i ≤ lim` -/
  piArr : Array Nat
  /-- `primes[i] = p (i+1)` -/
  primes : Array Nat

def NthOracle.build (lim : Nat) : NthOracle := Id.run do
  let s := sieveArr lim
  let mut piArr : Array Nat := Array.mkEmpty (lim + 1)
  let mut primes : Array Nat := #[]
  let mut c := 0
  for i in [0:lim + 1] do
    if s.getD i false then
      c := c + 1
      primes := primes.push i
    piArr := piArr.push c
  return { lim := lim, sieve := s, piArr := piArr, primes := primes }

/-- smallest `i ≥ s` with `sieve[i]`, 0 when there is none below the limit -/
def scanUp (sv : Array Bool) : Nat → Nat → Nat
  | 0, _ => 0
  | fuel + 1, s => if s ≥ sv.size then 0 else if sv.getD s false then s else scanUp sv fuel (s + 1)

/-- largest `i ≤ s` with `sieve[i]`, 0 when there is none -/
def scanDown (sv : Array Bool) : Nat → Nat
  | 0 => 0
  | s + 1 => if sv.getD (s + 1) false then s + 1 else scanDown sv s

/-- an approximation that is wrong in both directions by up to 20 (the theorems hold for every approximation) -/
def NthOracle.approx (o : NthOracle) (k : Nat) : Nat :=
  o.primes.getD (k - 1) 0 + (k * 7919) % 41 - 20

def NthOracle.env (o : NthOracle) : NthEnv where
  approx := o.approx
  pi := fun x => o.piArr.getD x 0
  piCache := fun x => o.piArr.getD x 0
  it := { nextGe := fun s => scanUp o.sieve (o.lim + 1) s, prevLe := fun s => scanDown o.sieve s }

def nthInRange (n : Int) : Bool := 1 ≤ n && n ≤ (Gen.nthPrimeMaxN : Int)

/-- sieve limit that covers `p n + 20` for all `n ≤ 10^5` (`p n < 13 n` there) -/
def nthLimit (n : Nat) : Nat := 13 * n + 64

/-- answer for one `n` (`capi`: the C wrapper `primecount_nth_prime`): the domain error of the model, or the
    oracle value when model and oracle agree -/
def nthAnswer (o : NthOracle) (capi : Bool) (n : Int) : String :=
  if !nthInRange n then
    -- the model decides (its domain checks come first and do not touch the environment)
    if capi then toString (cNthPrime o.env n) else
    match nthPrime o.env n with
    | .error _ => "ERR:pc"
    | .ok m => s!"bad:model={m}"
  else if n.toNat > nthDirectMax ∨ o.primes.size < n.toNat ∨ o.lim < nthLimit n.toNat then "ERR:range"
  else
    let q := o.primes.getD (n.toNat - 1) 0
    let m : Except NthErr Int := if capi then .ok (cNthPrime o.env n) else nthPrime o.env n
    match m with
    | .error _ => s!"bad:model=error/oracle={q}"
    | .ok m => if m = (q : Int) then toString q else s!"bad:model={m}/oracle={q}"

def nthMaxArg (ns : List Int) : Nat :=
  ns.foldl (fun acc n => if nthInRange n && n.toNat ≤ nthDirectMax then max acc n.toNat else acc) 0

def nthSingle (capi : Bool) (a : List String) : String :=
  match a.map parseInt? with
  | [some n] => nthAnswer (NthOracle.build (nthLimit (nthMaxArg [n]))) capi n
  | _ => "ERR:proto"

/-- `primecount <n> --nth-prime`: exit status 0 and the prime on stdout, or a non-zero status and nothing
    on stdout (src/app/main.cpp prints `primecount_error` messages to stderr and returns 1) -/
def nthCli (a : List String) : String :=
  match nthSingle false a with
  | "ERR:pc" => "nz:"
  | r => if r.startsWith "ERR" || r.startsWith "bad" then r else "0:" ++ r

def nthBatch (a : List String) : String :=
  let ns := a.map parseInt?
  if ns.any Option.isNone then "ERR:proto" else
  let ns := ns.filterMap id
  if ns.isEmpty then "-" else
  let o := NthOracle.build (nthLimit (nthMaxArg ns))
  ",".intercalate (ns.map (nthAnswer o false))

/-- `nth_judge n q piq piq1 approx capprox` ("-" = not supplied for the last three):
    `q` prime (trial division), `piq = n`, `piq1 = n - 1`, `approx ≥ 0` and
    `capprox < n ↔ approx < q` (the walk direction is consistent with the result) -/
def nthJudge (a : List String) : String :=
  match a with
  | [n, q, piq, piq1, approx, capprox] =>
    match parseInt? n, parseInt? q, parseInt? piq with
    | some n, some q, some piq =>
      if !nthInRange n then "bad:n-out-of-range"
      else if q < 2 then s!"bad:q={q}"
      else if q.toNat ≥ 2 ^ 63 then "bad:q-exceeds-int64"
      else if !isPrimeTD q.toNat then s!"bad:q={q}-not-prime"
      else if piq ≠ n then s!"bad:pi(q)={piq}"
      else
        let r1 := if piq1 == "-" then "" else
          match parseInt? piq1 with
          | some v => if v = n - 1 then "" else s!"bad:pi(q-1)={v}"
          | none => "ERR:proto"
        let r2 := if approx == "-" then "" else
          match parseInt? approx, parseInt? capprox with
          | some x, some c =>
            if x < 0 then s!"bad:approx={x}"
            else if decide (c < n) != decide (x < q) then s!"bad:approx={x},pi(approx)={c}"
            else ""
          | _, _ => "ERR:proto"
        if r1 ≠ "" then r1 else if r2 ≠ "" then r2 else "ok"
    | _, _, _ => "ERR:proto"
  | _ => "ERR:proto"

def nthPrimeOps : String → Option (List String → String)
  | "nth" => some (nthSingle false)
  | "cnth" => some (nthSingle true)
  | "cli_nth" => some nthCli
  | "nth_batch" => some nthBatch
  | "nth_judge" => some nthJudge
  | _ => none

end Pc.Drv
