import PcModel.LiRFx
/-!
C19 driver ops. The harness (harness/ops_lir.cpp) prints `<result> <m> <e>` for `Li|Li_inv|R|R_inv <ty> <x>`;
pcv/props/c19.py turns every answered op into a judge line for this driver:

  lirj <f128> <fn> <ty> <x> <result> <m> <e>   ->  ok | bad <lo> <hi> | badlog <lo> <hi> | ERR:…
  lirmono <f128> <fn> <ty> <x1> <r1> <x2> <r2>  ->  ok | bad
  lirmodel <f128> <fn> <ty> <x> <result>        ->  ok | bad <model value>
  lir_consts                                    ->  ok | bad …
  S2_approx / D_approx <ty> <x> … <Li(x)>       ->  "<Li(x)> <value>"

`<f128>` = 1 when the library was built with HAVE_FLOAT128 (reported by the harness op `lir_config`).
-/
namespace Pc.Drv.LiRDrv
open Pc.LiR Pc.LiR.Fx

def fnOfName : String → Option Fn
  | "Li" => some .Li | "Li_inv" => some .LiInv | "R" => some .R | "R_inv" => some .RInv
  | _ => none

/-- the true function of the (inverse of the) entry point at an integer argument: enclosure scaled by `S`.
    `Li` is the code's definition (0 for `t ≤ 2`), `R(t) = 0` for `t ≤ 0`. -/
def fAt (f : Fn) (t : Int) : Int × Int :=
  match f with
  | .Li | .LiInv => if t ≤ 2 then (0, 0) else liAt t.toNat
  | .R | .RInv => if t ≤ 0 then (0, 0) else let r := rAt t.toNat; ((r.1 : Int), (r.2 : Int))

/-- is the harness' `logl(v) = m · 2^e` within one ulp (+ 2^-62 for the rounding of `v` to long double)
    of the enclosure of `log v`? -/
def logOk (v : Int) (m e : Int) : Bool × Int × Int :=
  if v ≤ 0 then (m == 0, 0, 0) else
  if v == 1 then (m == 0, 0, 0) else
  let l := logGe1 v.toNat 1
  -- value scaled by S = 2^P: m · 2^(e + P)
  let sh := e + (P : Int)
  let val : Int := if sh ≥ 0 then m * 2 ^ sh.toNat else m / 2 ^ (-sh).toNat
  let msb : Int := (Nat.log2 m.natAbs : Int) + e
  let ulpSh := msb - 63 + (P : Int)
  let ulp : Int := if ulpSh ≥ 0 then 2 ^ ulpSh.toNat else 1
  let tol := ulp + 2 ^ (P - 62) + 1
  (decide ((l.1 : Int) - tol ≤ val) && decide (val ≤ (l.2 : Int) + tol), (l.1 : Int), (l.2 : Int))

def showBad (tag : String) (a b : Int) : String := tag ++ " " ++ toString a ++ " " ++ toString b

/-- largest `σ' ∈ [σ, 90]` for which `ok σ'` still holds (`ok σ` is known): the observed accuracy in bits,
    reported next to `ok` for the evidence file -/
def maxBits (ok : Nat → Bool) (σ : Nat) : Nat :=
  let rec go : Nat → Nat → Nat
    | 0, s => s
    | fuel + 1, s => if s < 90 ∧ ok (s + 1) then go fuel (s + 1) else s
  go 90 σ

def okBits (ok : Nat → Bool) (σ : Nat) : String := "ok " ++ toString (maxBits ok σ)

/-- judge one answered op -/
def judge (haveF128 : Bool) (f : Fn) (t : ITy) (x r m e : Int) : String :=
  if !(t.inRange x) then "ERR:domain" else
  let p := precOf haveF128 f x
  let σ := slackBits p
  let mx : Int := (t.maxVal : Int)
  if r < 0 ∨ r > mx then showBad "bad" 0 mx else
  match f with
  | .Li | .R =>
    -- guarded small arguments: exact values
    if x ≤ 0 then (if r == 0 ∧ m == 0 then "ok" else showBad "bad" 0 0)
    else if f == .Li ∧ x ≤ 2 then (if r == 0 then "ok" else showBad "bad" 0 0)
    else if f == .R ∧ x == 1 then (if r == 1 ∧ m == 0 then "ok" else showBad "bad" 1 1)
    else
      let lg := logOk x m e
      if !lg.1 then showBad "badlog" lg.2.1 lg.2.2 else
      let enc := fAt f x
      if accepts σ enc.1 enc.2 r then okBits (fun s => accepts s enc.1 enc.2 r) σ
      else let w := widened σ enc.1 enc.2; showBad "bad" w.1 w.2
  | .LiInv | .RInv =>
    if x < 1 then (if r == 0 then "ok" else showBad "bad" 0 0)
    else
      let lg := logOk r m e
      if !lg.1 then showBad "badlog" lg.2.1 lg.2.2 else
      -- f(r) ≲ x ≲ f(r + 1), or saturation: f(max) ≲ x
      let lo := (fAt f r).1
      let loW (s : Nat) : Int := (widened s lo lo).1
      if r == mx then (if loW σ ≤ x then okBits (fun s => loW s ≤ x) σ else showBad "bad" (loW σ) (loW σ))
      else
        let hi := (fAt f (r + 1)).2
        let hiW (s : Nat) : Int := (widened s hi hi).2 + 1
        if loW σ ≤ x ∧ x ≤ hiW σ then okBits (fun s => loW s ≤ x ∧ x ≤ hiW s) σ
        else showBad "bad" (loW σ) (hiW σ)

/-- `x1 ≤ x2` ⇒ `f(x1) ≤ f(x2)` up to truncation and the slack of the wider argument -/
def monoOk (haveF128 : Bool) (f : Fn) (x1 r1 x2 r2 : Int) : Bool :=
  let σ := min (slackBits (precOf haveF128 f x1)) (slackBits (precOf haveF128 f x2))
  decide (x1 ≤ x2) && decide (r1 ≤ r2 + 1 + r2.natAbs / 2 ^ (σ - 1))

/-! ### the exact-rational model run with a precise outside logarithm -/

/-- dyadic rational (96 fractional bits) inside the enclosure of `log q` -/
def logQ (q : Rat) : Rat :=
  if q ≤ 0 then 0 else
  let l := logFx q.num.toNat q.den
  let mid := (l.1 + l.2) / 2
  ((mid / 2 ^ (P - 96) : Int) : Rat) / ((2 ^ 96 : Nat) : Rat)

def sqrtQ (q : Rat) : Rat :=
  if q ≤ 0 then 0 else
  ((Nat.sqrt (q.num.toNat * 2 ^ 192 / q.den) : Nat) : Rat) / ((2 ^ 96 : Nat) : Rat)

def envOf (p : Prec) : Env :=
  { eps := p.epsilon, log := logQ, sqrt := sqrtQ,
    gamma := (Gen.gammaNum : Rat) / (Gen.gammaDen : Rat), li2 := (Gen.li2Num : Rat) / (Gen.li2Den : Rat) }

def modelValue (haveF128 : Bool) (f : Fn) (t : ITy) (x : Int) : Cast := entry haveF128 envOf f t x

/-! ### op table -/

def bool01 : String → Option Bool
  | "0" => some false | "1" => some true | _ => none

end Pc.Drv.LiRDrv

namespace Pc.Drv
open Pc.LiR Pc.LiR.Fx Pc.Drv.LiRDrv

def liROps : String → Option (List String → String)
  | "lirj" => some fun a => match a with
    | [c, fn, ty, x, r, m, e] =>
      match bool01 c, fnOfName fn, ITy.ofName ty, parseInt? x, parseInt? r, parseInt? m, parseInt? e with
      | some c, some f, some t, some x, some r, some m, some e => judge c f t x r m e
      | _, _, _, _, _, _, _ => "ERR:proto"
    | _ => "ERR:proto"
  | "lirmono" => some fun a => match a with
    | [c, fn, _ty, x1, r1, x2, r2] =>
      match bool01 c, fnOfName fn, parseInt? x1, parseInt? r1, parseInt? x2, parseInt? r2 with
      | some c, some f, some x1, some r1, some x2, some r2 => if monoOk c f x1 r1 x2 r2 then "ok" else "bad"
      | _, _, _, _, _, _ => "ERR:proto"
    | _ => "ERR:proto"
  | "lirmodel" => some fun a => match a with
    | [c, fn, ty, x, r] =>
      match bool01 c, fnOfName fn, ITy.ofName ty, parseInt? x, parseInt? r with
      | some c, some f, some t, some x, some r =>
        match modelValue c f t x with
        | .ok v => if (v - r).natAbs ≤ 1 then "ok" else "bad " ++ toString v
        | .ub => "bad ub"
      | _, _, _, _, _ => "ERR:proto"
    | _ => "ERR:proto"
  | "lir_config" => some fun _ => "ok"
  | "lir_consts" => some fun _ =>
      -- li2 literal = γ + log log 2 + Σ (log 2)^k / (k k!) up to the last digits of both literals
      let l := ln2Fx
      let ll := ((logFx l.1 S).1, (logFx l.2 S).2)
      let e := eEnc l.1 l.2
      let g := constEnc Gen.gammaNum Gen.gammaDen
      let c := constEnc Gen.li2Num Gen.li2Den
      let lo : Int := (g.1 : Int) + ll.1 + (e.1 : Int)
      let hi : Int := (g.2 : Int) + ll.2 + (e.2 : Int)
      if lo ≤ (c.2 : Int) ∧ (c.1 : Int) ≤ hi then "ok" else showBad "bad" lo hi
  | "S2_approx" => some fun a => match a.map parseInt? with
    | [_, some _, some piY, some p2, some s1, some li] => toString li ++ " " ++ toString (s2Approx li piY p2 s1)
    | _ => "ERR:proto"
  | "D_approx" => some fun a => match a.map parseInt? with
    | [_, some _, some sigma, some phi0, some ac, some b, some li] =>
      toString li ++ " " ++ toString (dApprox li sigma phi0 ac b)
    | _ => "ERR:proto"
  | _ => none

end Pc.Drv
