import PcModel.CApi
import PcGen.CApiData
/-!
Driver ops of C14. The result of the C++ counterpart (`ok…`/`err`) is an ARGUMENT of the model ops: the check
sends the op to the real code first and appends what the C++ API answered (pcv/props/c14.py, `model_ops`);
C14 judges the C wrapper (return value, buffer, diagnostics), not the number.
-/
namespace Pc.Drv.CApi

/-- `echo a b c` → `a b c` (model side of ops whose real-code answer is an input of later model ops) -/
def echoOp (a : List String) : String := " ".intercalate a

/-- "ok=<v>" / "err" of a scalar C++ call -/
def parseCppInt (s : String) : Option (Except Unit Int) :=
  if s == "err" then some (.error ())
  else if s.startsWith "ok=" then (parseInt? (s.drop 3).toString).map .ok
  else none

/-- "ok=<hex>" / "err" / "none" of `primecount::pi(std::string)` -/
def parseCppBytes (s : String) : Option (Except Unit (List Nat)) :=
  if s == "err" || s == "none" then some (.error ())
  else if s.startsWith "ok=" then (unhexBytes (s.drop 3).toString).map .ok
  else none

/-- model of one primecount_pi_str call; fields as the harness prints them:
    ret, buffer (hex or NULL), canary_ok, stderr lines, prefix_ok -/
def cpistrFields (xarg resarg lenarg cpp : String) : Option (List String) := do
  let len ← lenarg.toNat?
  let x? ← if xarg == "NULL" then some none else (unhexBytes xarg).map some
  let res? ← if resarg == "NULL" then some none
             else match unhexBytes resarg with
               | some [b] => some (some (List.replicate len b))
               | _ => none
  let r ← parseCppBytes cpp
  let piStr : List Nat → Except Unit (List Nat) := fun _ => r
  let out := cPiStr x? res? len piStr
  let bufs := match out.2 with
    | none => "NULL"
    | some b => hexBytes b
  some [toString out.1, bufs, "1", toString (cPiStrDiagLines x? res? len piStr), "1"]

def cpistrOp (a : List String) : String :=
  match a with
  | [x, r, l, "ok", h] => ((cpistrFields x r l ("ok=" ++ h)).map (" ".intercalate ·)).getD "ERR:proto"
  | [x, r, l, c] => ((cpistrFields x r l c).map (" ".intercalate ·)).getD "ERR:proto"
  | _ => "ERR:proto"

/-- model of one scalar C call: `fn`, its arguments (unused by the wrapper model) and the C++ answer -/
def ccallFields (fn : String) (cpp : String) : Option (List String) :=
  match fn with
  | "pi" | "phi" | "nth" | "gt" => do
      let r ← parseCppInt cpp
      some [toString (cWrap r), toString (cDiagLines r), "1"]
  | "st" => some ["-", "0", "1"]
  | "maxx" =>
      -- literalReturn shape; the first generated literal is the HAVE_INT128_T branch
      some [hexBytes ((Gen.cMaxXLiterals.headD "").toList.map Char.toNat), "0", "1"]
  | "ver" =>
      if cpp.startsWith "ok=" then some [(cpp.drop 3).toString, "0", "1"] else none
  | _ => none

def ccallOp (a : List String) : String :=
  match a with
  | fn :: rest =>
    match rest.getLast? with
    | some cpp => ((ccallFields fn cpp).map (" ".intercalate ·)).getD "ERR:proto"
    | none => "ERR:proto"
  | _ => "ERR:proto"

/-- one token of a C call history: `<call>@<cpp answer>`; result `<cpp>/<fields joined by />` -/
def chistToken (tok : String) : Option String :=
  match tok.splitOn "@" with
  | [call, cpp] =>
    match call.splitOn ":" with
    | ["pis", x, r, l] => (cpistrFields x r l cpp).map fun fs => cpp ++ "/" ++ "/".intercalate fs
    | fn :: _ => (ccallFields fn cpp).map fun fs => cpp ++ "/" ++ "/".intercalate fs
    | _ => none
  | _ => none

def chistOp (a : List String) : String :=
  match a with
  | [toks] =>
    match (toks.splitOn ",").mapM chistToken with
    | some rs => ",".intercalate rs
    | none => "ERR:proto"
  | _ => "ERR:proto"

end Pc.Drv.CApi

namespace Pc.Drv

def cApiOps : String → Option (List String → String)
  | "echo" => some CApi.echoOp
  | "cpistr" => some CApi.cpistrOp
  | "ccall" => some CApi.ccallOp
  | "chist" => some CApi.chistOp
  | _ => none

end Pc.Drv
