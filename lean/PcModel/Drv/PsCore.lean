/-
Driver ops of the sieving core of the bundled primesieve (C18 core half, model `PcModel/PsCore.lean`).

  pssieve <start> <stop> <sieveKiB> <l1raw> <h|x>          whole sieve run of an `Erat` over [start, stop] (start >= 7) with the
                                                           segment loop of CountPrintPrimes::sieve; per segment
                                                           `low:size:popcount:fnv64(bytes)` (h) or `low:hexbytes` (x); then `total=<count>`
  psseg <start> <stop> <sieveKiB> <l1raw> <nseg> <numbers|-> <h|x>
                                                           the first <nseg> segments with the EXPLICIT ascending list of sieving numbers
                                                           (each added before the first segment with number <= isqrt(segmentHigh_))
  pscorecount <start> <stop> <sieveKiB> <l1raw>                PrimeSieve::countPrimes(start, stop)
  pscoregen <start> <stop> <sieveKiB> <l1raw> <h|x>            PrimeGenerator(start, stop): all fillNextPrimes batches concatenated:
                                                           `n=<count> first=<p> last=<p> fnv=<hash of the 8-byte LE primes>` or the list
  psgenprev <start> <stop> <sieveKiB> <l1raw> <h|x>        the same through fillPrevPrimes (leading 0 when start <= 2)
  psgenref <start> <stop> <sieveKiB> <l1raw> <h|x>         (model only) the primes of [start, stop] from the PROVED window sieve
                                                           `windowListWith wheelBase` (PcProofs/OracleWindow.lean), format of pscoregen
  pscountref <start> <stop> <sieveKiB> <l1raw>             (model only) their number
  pswheeladd <30|210> <stop> <prime> <segmentLow>          Wheel::addSievingPrime: `multipleIndex wheelIndex` or `-`
  pspresieve <segmentLow> <size>                           PreSieve::preSieve on a fresh array: hex bytes

`l1raw` is the raw L1 data cache size the harness forces into `cpuInfo` (0 = none detected).
-/
import PcModel.PsCore
import PcModel.Oracle
namespace Pc.Drv
open Pc.PsCore

/-- the decoded pre-sieve buffers, computed once per process on first use -/
def psTabs : Thunk (Array Pc.Sieve.Bytes) := Thunk.mk fun u => preTabsDecoded u

def psHex (bs : Array Nat) : String :=
  let d := "0123456789abcdef".toList.toArray
  String.ofList (bs.foldr (fun b acc => d.getD (b / 16) '0' :: d.getD (b % 16) '0' :: acc) [])

def fnvBytes (h : UInt64) (bs : Array Nat) : UInt64 :=
  bs.foldl (fun h b => (h ^^^ b.toUInt64) * 1099511628211) h

def fnvInit : UInt64 := 14695981039346656037

def fnvU64 (h : UInt64) (x : Nat) : UInt64 :=
  (List.range 8).foldl (fun h k => (h ^^^ ((x >>> (8 * k)) % 256).toUInt64) * 1099511628211) h

def psSegOut (hex : Bool) (x : Nat × Pc.Sieve.Bytes) : String :=
  if hex then s!"{x.1}:{psHex x.2}"
  else s!"{x.1}:{x.2.size}:{sieveCount x.2}:{(fnvBytes fnvInit x.2).toNat}"

def psRunOut (hex : Bool) (segs : List (Nat × Pc.Sieve.Bytes)) : String :=
  let total := (segs.map fun x => sieveCount x.2).foldl (· + ·) 0
  String.intercalate " " ([s!"n={segs.length}"] ++ segs.map (psSegOut hex) ++ [s!"total={total}"])

/-- explicit sieving numbers: the rule of the real loops (`for (; prime <= sqrtHigh; …) addSievingPrime(prime)`) -/
def psExplicit (tabs : Array Pc.Sieve.Bytes) : Nat → Erat → List Nat → List (Nat × Pc.Sieve.Bytes)
  | 0, _, _ => []
  | fuel + 1, e, nums =>
    if e.hasNextSegment then
      let sqrtHigh := isqrt e.segmentHigh
      let now := nums.takeWhile (· ≤ sqrtHigh)
      let later := nums.dropWhile (· ≤ sqrtHigh)
      let low := e.segmentLow
      let e := now.foldl (fun e p => e.addSievingPrime p) e
      let e := e.sieveSegment tabs
      (low, e.sieve) :: psExplicit tabs fuel e later
    else []

def psPrimesOut (hex : Bool) (ps : List Nat) (err : Bool) : String :=
  let tail := if err then " ERR:ps" else ""
  if hex then "n=" ++ toString ps.length ++ " " ++ (if ps.isEmpty then "-" else String.intercalate "," (ps.map toString)) ++ tail
  else
    let h := ps.foldl fnvU64 fnvInit
    s!"n={ps.length} first={ps.headD 0} last={ps.getLastD 0} fnv={h.toNat}" ++ tail

def psMode : String → Option Bool
  | "h" => some false | "x" => some true | _ => none

def psNatList (s : String) : Option (List Nat) :=
  if s == "-" then some [] else (s.splitOn ",").mapM (·.toNat?)

/-- limits of the model side (the harness applies the same): sieving primes up to 2^26, at most 4096 segments -/
def psMaxSqrt : Nat := 2 ^ 26

/-- `pscoregen` / `psgenprev`  -/
def psCoreGenOp (prev : Bool) (a : List String) : String :=
  match a with
  | [start, stop, kb, l1, mode] => match start.toNat?, stop.toNat?, kb.toNat?, l1.toNat?, psMode mode with
    | some start, some stop, some kb, some l1, some hex =>
      if start > stop ∨ stop ≥ 2 ^ 64 ∨ kb < 16 ∨ kb > 8192 ∨ isqrt stop > psMaxSqrt ∨ runFuel start stop > 4096 then "ERR:domain" else
      let ps := generatePrimes psTabs.get l1 start stop kb
      let ps := if prev ∧ start ≤ 2 then 0 :: ps else ps
      psPrimesOut hex ps (!prev && stop ≥ u64Max)
    | _, _, _, _, _ => "ERR:proto"
  | _ => "ERR:proto"

/-- the primes of `[start, stop]` by the proved reference sieve -/
def psRefPrimes (start stop : Nat) : List Nat := windowListWith wheelBase (start - 1) stop

def psCoreOps : String → Option (List String → String)
  | "psgenref" => some fun a => match a with
      | [start, stop, _, _, mode] => match start.toNat?, stop.toNat?, psMode mode with
        | some start, some stop, some hex =>
          if start > stop ∨ stop ≥ 2 ^ 64 ∨ stop - start > 2 ^ 31 then "ERR:domain" else
          psPrimesOut hex (psRefPrimes start stop) false
        | _, _, _ => "ERR:proto"
      | _ => "ERR:proto"
  | "pscountref" => some fun a => match a.map (·.toNat?) with
      | [some start, some stop, _, _] =>
        if stop ≥ 2 ^ 64 ∨ stop - start > 2 ^ 31 then "ERR:domain" else
        toString (if start > stop then 0 else (psRefPrimes start stop).length)
      | _ => "ERR:proto"
  | "pssieve" => some fun a => match a with
      | [start, stop, kb, l1, mode] => match start.toNat?, stop.toNat?, kb.toNat?, l1.toNat?, psMode mode with
        | some start, some stop, some kb, some l1, some hex =>
          if start < 7 ∨ stop ≥ 2 ^ 64 ∨ kb < 16 ∨ kb > 8192 ∨ isqrt stop > psMaxSqrt ∨ runFuel start stop > 4096 then "ERR:domain" else
          psRunOut hex (sieveRun psTabs.get l1 start stop kb)
        | _, _, _, _, _ => "ERR:proto"
      | _ => "ERR:proto"
  | "psseg" => some fun a => match a with
      | [start, stop, kb, l1, nseg, nums, mode] =>
        match start.toNat?, stop.toNat?, kb.toNat?, l1.toNat?, nseg.toNat?, psNatList nums, psMode mode with
        | some start, some stop, some kb, some l1, some nseg, some nums, some hex =>
          if start < 7 ∨ stop ≥ 2 ^ 64 ∨ kb < 16 ∨ kb > 8192 ∨ nseg > 64 ∨ nums.any (fun p => p < 7 ∨ p ≥ 2 ^ 32 ∨ Nat.gcd p 30 ≠ 1) ∨
             ¬ nums.Pairwise (· < ·) then "ERR:domain" else
          psRunOut hex (psExplicit psTabs.get nseg (eratInit l1 start stop kb) nums)
        | _, _, _, _, _, _, _ => "ERR:proto"
      | _ => "ERR:proto"
  | "pscorecount" => some fun a => match a.map (·.toNat?) with
      | [some start, some stop, some kb, some l1] =>
        if stop ≥ 2 ^ 64 ∨ kb < 16 ∨ kb > 8192 ∨ isqrt stop > psMaxSqrt ∨ runFuel start stop > 4096 then "ERR:domain" else
        toString (countPrimes psTabs.get l1 start stop kb)
      | _ => "ERR:proto"
  | "pscoregen" => some (psCoreGenOp false)
  | "psgenprev" => some (psCoreGenOp true)
  | "pswheeladd" => some fun a => match a.map (·.toNat?) with
      | [some m, some stop, some prime, some low] =>
        if (m ≠ 30 ∧ m ≠ 210) ∨ stop ≥ 2 ^ 64 ∨ prime = 0 ∨ prime ≥ 2 ^ 32 ∨ low % 30 ≠ 0 ∨ low + 6 ≥ 2 ^ 64 then "ERR:domain" else
        match wheelAdd (if m = 30 then wheel30 else wheel210) stop prime low with
        | some (mi, wi) => s!"{mi} {wi}"
        | none => "-"
      | _ => "ERR:proto"
  | "pspresieve" => some fun a => match a.map (·.toNat?) with
      | [some low, some size] =>
        if low % 30 ≠ 0 ∨ low ≥ 2 ^ 64 ∨ size = 0 ∨ size > 2 ^ 20 then "ERR:domain" else
        psHex (preSieve psTabs.get (Array.replicate size 0) low)
      | _ => "ERR:proto"
  | _ => none

end Pc.Drv
