/-
C07 (WP phicache) — driver ops for the bit-exact tie of the REAL `class PhiCache` (src/phi.cpp:47-298, reached by
harness/ops_phicache.cpp) with the L2 model `Pc.PhiCacheL2` (PcModel/PhiCache.lean).

The `*_m` ops are MIRROR ops: they execute the model's definitions (`State.new`, `State.initCache`, `State.phiCache`,
`phiRecS`, `phiThread`, `phiCpp`) and print their state in the format of the harness.  The float-derived
`E = (uint64_t) std::pow(x, 1 / 2.3)` (phi.cpp:76) is printed by the implementation and handed over as the first
argument (`maxXEst` of `State.new`); it is echoed in front of the answer.
`phicache_lookup_spec` is an ORACLE op: phi(y, b) by the DEFINITION (own sieve over [0, hi]: remove the multiples of
p_1..p_b, count the survivors ≤ y) — independent of primecount and of the model of the cache.
Core Lean only.
-/
import PcModel.PhiCache
import PcModel.Drv.PhiAlg
namespace Pc.Drv
namespace PhiCacheDrv

open Pc.PhiCacheL2
open Pc.Gen.PhiTiny (tables)

def fnvOffset : Nat := 14695981039346656037
def fnvPrime : Nat := 1099511628211
@[inline] def fnv (h v : Nat) : Nat := ((h ^^^ v) * fnvPrime) % 18446744073709551616

def hexDigit (n : Nat) : Char := if n < 10 then Char.ofNat (48 + n) else Char.ofNat (87 + n)

/-- 16 lower-case hex digits -/
def hex64 (v : Nat) : String :=
  String.ofList ((List.range 16).map fun i => hexDigit ((v >>> (60 - 4 * i)) % 16))

def rowHash (row : Row) : Nat :=
  row.foldl (fun h w => fnv (fnv h w.1) w.2) fnvOffset

/-- same format as `dump` of harness/ops_phicache.cpp -/
def dumpStr (st : State) (full : Bool) : String :=
  let head := s!"mac={st.maxACached};n={st.sieve.size}"
  st.sieve.foldl (fun out row =>
    let body :=
      if full then ",".intercalate (row.toList.map fun w => s!"{w.1}.{hex64 w.2}")
      else "#" ++ hex64 (rowHash row)
    out ++ s!";{row.size}:" ++ body) head

def dumpHash (st : State) : Nat :=
  st.sieve.foldl (fun h row => row.foldl (fun h w => fnv (fnv h w.1) w.2) (fnv h row.size)) (fnv fnvOffset st.maxACached)

/-- `generate_n_primes<int32_t>(a)`: `primes[0] = 0`, `primes[i]` = i-th prime for `1 ≤ i ≤ a` (own sieve) -/
def nPrimes (a : Nat) : Array Nat := Id.run do
  let mut bound := primeUpper a + 20
  let mut pr := primesArr bound
  while pr.size < a do
    bound := 2 * bound
    pr := primesArr bound
  return pr.extract 0 a

def primeFn (pr : Array Nat) (i : Nat) : Nat := if i == 0 then 0 else pr.getD (i - 1) 0

/-- `pi[v]` for `v ≤ n` (own sieve, prefix counts) -/
def piArr (n : Nat) : Array Nat := Id.run do
  let s := sieveBytes n
  let mut out : Array Nat := Array.mkEmpty (n + 1)
  let mut c := 0
  for i in [0:n + 1] do
    if s.get! i == 1 then c := c + 1
    out := out.push c
  return out

/-- what `PhiCache::phi` reads for the top-level call `phi(x, a)`: `primes_`, `PiTable pi(isqrt(x))`, `phi_tiny` -/
def mkEnv (x a : Nat) : PhiEnv :=
  let pr := nPrimes a
  let pa := piArr (Nat.sqrt x)
  { prime := primeFn pr, piSize := Nat.sqrt x + 1, piTab := fun v => pa.getD v 0, tiny := tables.phiTiny,
    cache := { maxX := 0, maxA := 0, val := fun _ _ => 0 } }

/-- the ASSERTs of `init_cache` (phi.cpp:224, 225, 237) -/
def initOk (st : State) (k : Nat) : Bool :=
  decide (phiTinyMaxA < k) && decide (k ≤ st.maxA) && decide (st.maxACached < k)

def natArgs (a : List String) : Option (List Nat) :=
  a.mapM fun s => (parseInt? s).bind fun v => if v < 0 then none else some v.toNat

def inDomain (x a : Nat) : Bool := decide (1 ≤ x) && decide (x < 2 ^ 63) && decide (1 ≤ a) && decide (a ≤ 50000000)

/-- `phicache_geom_m E x a` -/
def geomOp (args : List String) : String :=
  match natArgs args with
  | some [e, x, a] =>
    if !inDomain x a then "ERR:domain" else
    let st := State.new a e
    s!"{e}|{st.maxX},{st.maxXSize},{st.maxA},{st.maxACached},{st.sieve.size},{sizeofSieveT}"
  | _ => "ERR:proto"

/-- `init_cache(k1); init_cache(k2); ...`; `none` = an ASSERT is violated -/
def initSeq (primes : Nat → Nat) : State → List Nat → Option State
  | st, [] => some st
  | st, k :: ks => if initOk st k then initSeq primes (st.initCache primes k) ks else none

/-- `phicache_dump_m E x a mode k1 k2 ...` -/
def dumpOp (args : List String) : String :=
  match args with
  | es :: xs :: as :: mode :: ks =>
    match natArgs [es, xs, as], natArgs ks with
    | some [e, x, a], some ks =>
      if !inDomain x a then "ERR:domain" else
      let pr := nPrimes a
      match initSeq (primeFn pr) (State.new a e) ks with
      | some st => s!"{e}|" ++ dumpStr st (mode == "full")
      | none => "ERR:domain"
    | _, _ => "ERR:proto"
  | _ => "ERR:proto"

/-- values `f y b` for `b = 9..k`, `y = lo..hi` in the format of `phicache_lookup` -/
def lookupFmt (f : Nat → Nat → Nat) (k lo hi : Nat) (list : Bool) : String :=
  ";".intercalate ((List.range' 9 (k + 1 - 9)).map fun b =>
    if list then s!"b={b}:" ++ ",".intercalate ((List.range' lo (hi + 1 - lo)).map fun y => toString (f y b))
    else
      let h := (hi + 1 - lo).fold (fun j _ h => fnv h (f (lo + j) b)) fnvOffset
      s!"b={b}:#" ++ hex64 h)

/-- `phicache_lookup_m E x a k lo hi mode`: `State.phiCache` after one `init_cache(k)` -/
def lookupOp (args : List String) : String :=
  match args with
  | [es, xs, as, ks, los, his, mode] =>
    match natArgs [es, xs, as, ks, los, his] with
    | some [e, x, a, k, lo, hi] =>
      if !inDomain x a then "ERR:domain" else
      let st0 := State.new a e
      if !initOk st0 k || hi > st0.maxX || lo > hi then "ERR:domain" else
      let st := st0.initCache (primeFn (nPrimes a)) k
      if !(st.isCached lo 9 && st.isCached hi k) then "ERR:not-cached" else
      s!"{e}|" ++ lookupFmt st.phiCache k lo hi (mode == "list")
    | _ => "ERR:proto"
  | _ => "ERR:proto"

/-- phi(y, b) for every `y ≤ hi`, `9 ≤ b ≤ k` by the DEFINITION: `alive[n] = 1` iff no p_1..p_b divides n; the answer
    table holds, per level, the prefix counts.  Returns `tab[b - 9][y]`. -/
def phiDefTable (pr : Array Nat) (k hi : Nat) : Array (Array Nat) := Id.run do
  let mut alive := ByteArray.emptyWithCapacity (hi + 1)
  alive := alive.push 0
  for _ in [0:hi] do
    alive := alive.push 1
  let mut out : Array (Array Nat) := #[]
  for b in [1:k + 1] do
    let q := pr.getD (b - 1) 0
    if q ≥ 2 then
      let mut m := q
      while m ≤ hi do
        alive := alive.set! m 0
        m := m + q
    if b ≥ 9 then
      let mut row : Array Nat := Array.mkEmpty (hi + 1)
      let mut c := 0
      for n in [0:hi + 1] do
        if alive.get! n == 1 then c := c + 1
        row := row.push c
      out := out.push row
  return out

/-- `phicache_lookup_spec E x a k lo hi mode` (E only echoed; the values do not depend on it) -/
def lookupSpecOp (args : List String) : String :=
  match args with
  | [es, xs, as, ks, los, his, mode] =>
    match natArgs [es, xs, as, ks, los, his] with
    | some [e, x, a, k, lo, hi] =>
      if !inDomain x a || k < 9 || k > a || lo > hi || hi > 20000000 then "ERR:domain" else
      let tab := phiDefTable (nPrimes k) k hi
      s!"{e}|" ++ lookupFmt (fun y b => (tab.getD (b - 9) #[]).getD y 0) k lo hi (mode == "list")
    | _ => "ERR:proto"
  | _ => "ERR:proto"

/-- `y:b:s` with `s = + | -` -/
def parseCall (s : String) : Option (Nat × Nat × Int) :=
  match s.splitOn ":" with
  | [ys, bs, sg] =>
    match natArgs [ys, bs] with
    | some [y, b] => if sg == "+" then some (y, b, 1) else if sg == "-" then some (y, b, -1) else none
    | _ => none
  | _ => none

/-- `phicache_rec_m E x a y1:b1:s1 ...`: `phiRecS` threading ONE `State` through the calls -/
def recOp (args : List String) : String :=
  match args with
  | es :: xs :: as :: calls =>
    match natArgs [es, xs, as], calls.mapM parseCall with
    | some [e, x, a], some cs =>
      if !inDomain x a || cs.any (fun c => c.2.1 ≥ a) then "ERR:domain" else
      let E := mkEnv x a
      let (outs, st) := cs.foldl (fun (acc : List String × State) c =>
          let r := phiRecS E (c.2.1 + 2) c.2.2 c.1 c.2.1 acc.2
          (s!"{r.1}:{r.2.maxACached}" :: acc.1, r.2)) ([], State.new a e)
      s!"{e}|" ++ ",".intercalate outs.reverse ++ "|#" ++ hex64 (dumpHash st)
    | _, _ => "ERR:proto"
  | _ => "ERR:proto"

/-- `pix_upper` (phi.cpp:327-336) with the driver's own π below 30720 and the double formula above; only used to
    evaluate the guards of `phiCpp` in the regime `8 < a ≤ π(√x)` where they are far from their thresholds -/
def pixUpperDrv (small : Array Nat) (v : Nat) : Nat :=
  if v ≤ 30719 then small.getD v 0
  else (v.toFloat / (Float.log v.toFloat - 1.1)).toUInt64.toNat + 10

/-- `phicache_main_m E x a`: `phi_tiny(x, 8) + phiThread [9..a]` and `phiCpp` with `works = [[9..a]]` -/
def mainOp (args : List String) : String :=
  match natArgs args with
  | some [e, x, a] =>
    if !inDomain x a || a ≤ phiTinyMaxA then "ERR:domain" else
    let E := mkEnv x a
    if a > E.piTab (Nat.sqrt x) then "ERR:domain" else
    let work := List.range' 9 (a - 8)
    let sum : Int := (E.tiny x phiTinyMaxA : Int) + phiThread E x a e work
    let small := piArr 30719
    let P : PhiTop := { pixUpper := pixUpperDrv small, piFn := fun _ => 0, prime := E.prime, piTab := E.piTab, tiny := E.tiny }
    let cpp := phiCpp P e [work] (x : Int) (a : Int)
    s!"{e}|{sum}|{cpp}"
  | _ => "ERR:proto"

/-- `phicache_pow x`: Lean's `Float.pow` on the expression of phi.cpp:76 (informational cross-check only) -/
def powOp (args : List String) : String :=
  match natArgs args with
  | some [x] => toString (Float.pow x.toFloat (1 / 2.3)).toUInt64.toNat
  | _ => "ERR:proto"

/-- `phivec_run_m x a`: `phi_vector(x, a, first a primes, PiTable(top))` of src/phi_vector.cpp on its real cache
    (`phiVectorS`), `top = max(primes[a], isqrt(x))`; printed twice (the harness prints its copy and the library's) -/
def vecRunOp (args : List String) : String :=
  match natArgs args with
  | some [x, a] =>
    if x ≥ 2 ^ 62 || a < 1 || a > 2000000 then "ERR:domain" else
    let pr := nPrimes a
    let top := max (pr.getD (a - 1) 0) (Nat.sqrt x)
    let pa := piArr top
    let E : PhiEnv := { prime := primeFn pr, piSize := top + 1, piTab := fun v => pa.getD v 0, tiny := tables.phiTiny,
                        cache := { maxX := 0, maxA := 0, val := fun _ _ => 0 } }
    let v := phiVectorS E (pa.getD x 0) (Nat.sqrt x) x a
    let s := ",".intercalate (v.map toString)
    s!"{top}|{s}|{s}"
  | _ => "ERR:proto"

end PhiCacheDrv

def phiCacheOps : String → Option (List String → String)
  | "phicache_geom_m" => some PhiCacheDrv.geomOp
  | "phicache_dump_m" => some PhiCacheDrv.dumpOp
  | "phicache_lookup_m" => some PhiCacheDrv.lookupOp
  | "phicache_lookup_spec" => some PhiCacheDrv.lookupSpecOp
  | "phicache_rec_m" => some PhiCacheDrv.recOp
  | "phicache_main_m" => some PhiCacheDrv.mainOp
  | "phicache_pow" => some PhiCacheDrv.powOp
  | "phivec_run_m" => some PhiCacheDrv.vecRunOp
  | _ => none

end Pc.Drv
