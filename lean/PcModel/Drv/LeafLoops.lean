/-
Driver ops of the loop mirrors of PcModel/LeafLoops.lean (C08 / C02 / C03 / C11).  The harness side of
`S1_loop`, `Phi0_loop`, `Sigma_loop`, `S2_trivial_loop` are the existing ops `S1`, `Phi0`, `Sigma`, `S2_trivial`
(harness/ops_alg.cpp; renamed on the model side by the streams), `s1thread`, `phi0thread`, `sigma_parts` call the
file-local functions of S1.cpp / Phi0.cpp / Sigma.cpp (harness/ops_leafloops.cpp).
-/
import PcModel.LeafLoops
import PcModel.Drv.Formulas
namespace Pc.Drv

def widthOf : String → Option ITy
  | "64" => some .i64 | "128" => some .i128 | _ => none

def showLM : LM Int → String
  | .ok v => toString v
  | .error e => e.toString

/-- table for the loop mirrors: only as far as the real code's own tables reach (and at least the first eight
    primes: `nth_prime(c)`, `c ≤ 8`, is answered from the same table) -/
def leafTable (n : Nat) : Option NT := if n > 60000000 then none else some (NT.build (max n 19 + 1))

def withLeafTable (n : Nat) (f : NT → String) : String :=
  match leafTable n with
  | some t => f t
  | none => "ERR:model-bound"

/-- `<w> args…` with every numeric argument in `[0, max w]` -/
def leafArgs (a : List String) : Option (ITy × List Nat) := do
  let w ← widthOf (a.headD "")
  let v ← natArgs (a.drop 1)
  if v.all (· ≤ w.maxVal) then some (w, v) else none

def muOf : String → Option Int
  | "1" => some 1 | "-1" => some (-1) | _ => none

/-- what `Sigma` needs: `pi[·]` up to `max_pix`, `pi_noprint(√x)`, the primes up to `x^(1/3)` -/
def sigmaBound (x y : Nat) : Nat :=
  let xs := xStar x y
  max (max (x / (xs * max y 1)) y) (max (isqrtN (x / xs)) (isqrtN x))

def leafLoopsOps : String → Option (List String → String)
  -- S1_loop <w> x y c threads
  | "S1_loop" => some fun a => match widthOf (a.headD ""), natArgs ((a.drop 1).take 3), (a.getD 4 "").toInt? with
      | some w, some [x, y, c], some th =>
        if x > w.maxVal ∨ y > ITy.i64.maxVal then "ERR:domain" else
        withLeafTable y fun t => showLM (s1OpenMP t w x y c (leafSched (c + 1) (t.piOf y) y th))
      | _, _, _ => "ERR:proto"
  -- Phi0_loop <w> x y z k threads
  | "Phi0_loop" => some fun a => match widthOf (a.headD ""), natArgs ((a.drop 1).take 4), (a.getD 5 "").toInt? with
      | some w, some [x, y, z, k], some th =>
        if x > w.maxVal ∨ y > ITy.i64.maxVal ∨ z > ITy.i64.maxVal then "ERR:domain" else
        withLeafTable y fun t => showLM (phi0OpenMP t w x y z k (leafSched (k + 1) (t.piOf y) y th))
      | _, _, _ => "ERR:proto"
  -- Sigma_loop <w> x y threads
  | "Sigma_loop" => some fun a => match widthOf (a.headD ""), natArgs ((a.drop 1).take 2) with
      | some w, some [x, y] =>
        if x > w.maxVal ∨ y > ITy.i64.maxVal then "ERR:domain" else
        withLeafTable (sigmaBound x y) fun t => showLM (sigma t w x y)
      | _, _ => "ERR:proto"
  -- sigma_parts <w> x y  ->  Σ0 Σ1 Σ2 Σ3 Σ456
  | "sigma_parts" => some fun a => match widthOf (a.headD ""), natArgs ((a.drop 1).take 2) with
      | some w, some [x, y] =>
        if x > w.maxVal ∨ y > ITy.i64.maxVal then "ERR:domain" else
        withLeafTable (sigmaBound x y) fun t => match sigmaParts t w x y with
          | .ok (s0, s1, s2, s3, s456) => s!"{s0} {s1} {s2} {s3} {s456}"
          | .error e => e.toString
      | _, _ => "ERR:proto"
  -- S2_trivial_loop <w> x y z c threads
  | "S2_trivial_loop" => some fun a => match widthOf (a.headD ""), natArgs ((a.drop 1).take 4) with
      | some w, some [x, y, z, c] =>
        if x > w.maxVal ∨ y > ITy.i64.maxVal ∨ z > ITy.i64.maxVal then "ERR:domain" else
        withLeafTable y fun t => showLM (s2Trivial t w x y z c)
      | _, _ => "ERR:proto"
  -- s1thread <w> x y c mu b sq : S1_thread<mu>(x, y, b, c, sq, generate_primes(y))
  | "s1thread" => some fun a => match widthOf (a.headD ""), natArgs ((a.drop 1).take 3), muOf (a.getD 4 ""),
        natArgs (a.drop 5) with
      | some w, some [x, y, c], some mu, some [b, sq] =>
        if x > w.maxVal ∨ y > ITy.i64.maxVal ∨ sq > w.maxVal then "ERR:domain" else
        withLeafTable y fun t => showLM (s1Thread t w (t.piOf y + 1) x y c mu b sq)
      | _, _, _, _ => "ERR:proto"
  -- phi0thread <w> x y z k mu b sq : Phi0_thread<mu>(x, z, b, k, sq, generate_primes(y))
  | "phi0thread" => some fun a => match widthOf (a.headD ""), natArgs ((a.drop 1).take 4), muOf (a.getD 5 ""),
        natArgs (a.drop 6) with
      | some w, some [x, y, z, k], some mu, some [b, sq] =>
        if x > w.maxVal ∨ y > ITy.i64.maxVal ∨ z > ITy.i64.maxVal ∨ sq > w.maxVal then "ERR:domain" else
        withLeafTable y fun t => showLM (phi0Thread t w (t.piOf y + 1) x z k mu b sq)
      | _, _, _, _ => "ERR:proto"
  -- S1_sched <w> x y c nt : the model under a team of nt threads (model-only: every nt gives the same value)
  | "S1_sched" => some fun a => match leafArgs a with
      | some (w, [x, y, c, nt]) =>
        withLeafTable y fun t => showLM (s1OpenMP t w x y c (staticSched1 (c + 1) (t.piOf y) nt))
      | _ => "ERR:proto"
  | "Phi0_sched" => some fun a => match leafArgs a with
      | some (w, [x, y, z, k, nt]) =>
        withLeafTable y fun t => showLM (phi0OpenMP t w x y z k (staticSched1 (k + 1) (t.piOf y) nt))
      | _ => "ERR:proto"
  | _ => none

end Pc.Drv
