import PcModel.Cli
import PcModel.Drv.Calc
namespace Pc.Drv
open Pc.Calc Pc.Cli

/-! `cliargv <hex argv[1]> <hex argv[2]> …` ("-" = empty string): the whole command line through `Pc.Cli.cliMain`.

Output: `rc=<status> err=<class|-> out=<-|HELP|VERSION|TEST|0>` when the outcome does not depend on a library value, else
the descriptor of the call main makes: `CALL fn=<callee> x=<x> a=<a|-> print=<0|1> time=<0|1> formula=<0|1> al=<k|-> ay=… az=…`
(the check obtains `fn(x[, a])` from the library in-process and composes the expected stdout).

`std::stod` is a PARAMETER of the model; the driver instantiates it with the decimal subset of strtod's grammar that the
stream generates (optional blanks and sign, digits with an optional fraction, `inf`/`nan`; trailing characters ignored, as
strtod does): the value is exact for the generated spellings (multiples of 1/8 below 10^6). -/

def cliErrStr : CliErr → String
  | .emptyArg => "emptyArg" | .unrecognized => "unrecognized" | .missingValue => "missingValue"
  | .invalidOption => "invalidOption" | .incompatible => "incompatible" | .phiNeeds2 => "phiNeeds2"
  | .missingX => "missingX" | .toInt64 => "toInt64" | .lib => "lib"

/-- digits of the integer part, digits of the fraction (none = no digit at all) -/
def stodDigits (s : Bytes) : Option (Nat × Nat × Nat) :=
  let ip := s.takeWhile isDigit
  let r := s.dropWhile isDigit
  let fp := match r with
    | 46 :: t => t.takeWhile isDigit
    | _ => []
  if ip.isEmpty && fp.isEmpty then none else
  let val := fun (l : Bytes) => l.foldl (fun a c => a * 10 + (c - 48)) 0
  some (val ip, val fp, fp.length)

def cliLower (c : Nat) : Nat := if 65 ≤ c ∧ c ≤ 90 then c + 32 else c

/-- the driver's instance of the `stod` parameter -/
def stodDrv (s : Bytes) : Option AlphaArg :=
  let s := s.dropWhile isSpace
  let (neg, s) := match s with
    | 45 :: t => (true, t)
    | 43 :: t => (false, t)
    | _ => (false, s)
  let l := s.map cliLower
  if (ofStr "inf").isPrefixOf l then some ⟨neg, 10 ^ 18⟩
  else if (ofStr "nan").isPrefixOf l then some ⟨true, 0⟩
  else match stodDigits s with
    | none => none
    | some (ip, fp, n) =>
      -- value = ip + fp / 10^n ; (int64_t)(min(value, 1e15) * 1000)
      let k := (ip * 10 ^ n + fp) * 1000 / 10 ^ n
      if neg then some ⟨true, -(k : Int)⟩ else some ⟨decide (ip < 1), min (k : Int) (10 ^ 18)⟩

def cliOptK : Option Int → String
  | none => "-"
  | some k => toString k

def cliB01 (b : Bool) : String := if b then "1" else "0"

def cliArgvStr (argv : List Bytes) : String :=
  let hw : ApiHw := ⟨16, 16⟩
  match parseOptions hw stodDrv argv with
  | .err e => s!"rc=1 err={cliErrStr e} out=-"
  | .exit (.help c) => s!"rc={c} err=- out=HELP"
  | .exit .version => "rc=0 err=- out=VERSION"
  | .exit .test => "rc=0 err=- out=TEST"
  | .ok o =>
    match mainCall o with
    | .error e => s!"rc=1 err={cliErrStr e} out=-"
    | .ok none => "rc=0 err=- out=0"
    | .ok (some (c, d)) =>
      let a := match c.a with | none => "-" | some a => toString a
      s!"CALL fn={c.fn} x={c.x} a={a} print={cliB01 o.σ.print} time={cliB01 o.time} formula={cliB01 d.formula} " ++
        s!"al={cliOptK o.σ.alpha} ay={cliOptK o.σ.alphaY} az={cliOptK o.σ.alphaZ}"

def cliOps : String → Option (List String → String)
  | "cliargv" => some fun a =>
      match a.mapM unhexBytes with
      | none => "ERR:proto"
      | some argv => cliArgvStr argv
  /- one `parseOption` call: `<id> <hex opt> <hex val> <number of arguments consumed>` or the error class -/
  | "cliparse1" => some fun a =>
      match a.mapM unhexBytes with
      | some (s :: rest) => (match parseOption s rest with
        | .error e => "ERR:" ++ cliErrStr e
        | .ok (it, rest') => s!"{it.id.cname} {hexBytes it.opt} {hexBytes it.val} {rest.length + 1 - rest'.length}")
      | _ => "ERR:proto"
  | _ => none

end Pc.Drv
