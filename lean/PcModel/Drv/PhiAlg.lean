/-
C07 — driver ops for phi(x, a).  The answering side is an ORACLE (independent of primecount):
* x ≤ 5000: the definition itself (survivors of repeated "remove the multiples of the next prime");
* x ≤ 10^7: Legendre's recurrence phi(x,a) = phi(x,8) − Σ phi(x/p_i, i−1) over Lean's own sieve, bottoming
  out in the PROVEN model of phi_tiny (PcProps/C07.phiTiny_correct);
* beyond: only arguments decided by the guards (`a ≤ 8`, `2a ≥ x`), plus judge ops that check the
  Legendre recurrence / the closed form on numbers printed by the implementation.
`phitiny` ops are answered by the proven table model for every 64/128-bit x.
-/
import PcModel.PhiAlg
import PcModel.Oracle
import PcModel.Roots
import PcGen.PhiTinyData
namespace Pc.Drv

open Pc.Gen.PhiTiny (tables)

/-- byte sieve: `s[i] = 1` iff `i` is prime, `i ≤ n` -/
def sieveBytes (n : Nat) : ByteArray := Id.run do
  let mut s := ByteArray.emptyWithCapacity (n + 1)
  for _ in [0:n + 1] do
    s := s.push 1
  s := s.set! 0 0
  if n ≥ 1 then s := s.set! 1 0
  let mut i := 2
  while i * i ≤ n do
    if s.get! i == 1 then
      let mut j := i * i
      while j ≤ n do
        s := s.set! j 0
        j := j + i
    i := i + 1
  return s

/-- primes ≤ n, increasing -/
def primesArr (n : Nat) : Array Nat := Id.run do
  let s := sieveBytes n
  let mut out : Array Nat := #[]
  for i in [0:n + 1] do
    if s.get! i == 1 then out := out.push i
  return out

/-- number of `i ≤ a` (1-based, within `pr`) with `f (pr[i-1]) ≤ x`, `f` monotone: binary search -/
def countLeBy (pr : Array Nat) (f : Nat → Nat) (a x : Nat) : Nat := Id.run do
  let mut lo := 0
  let mut hi := min a pr.size
  while lo < hi do
    let mid := (lo + hi) / 2
    if f (pr.getD mid 0) ≤ x then lo := mid + 1 else hi := mid
  return lo

/-- Legendre recurrence over the prime array `pr` (`pr[i-1] = p_i`; must contain the first `a` primes or all
    primes `≤ x`), bottoming out in the proven phi_tiny model -/
def phiOracle (pr : Array Nat) : Nat → Nat → Nat → Nat
  | 0, _, _ => 0
  | fuel + 1, x, a =>
    if a ≤ 8 then tables.phiTiny x a
    else if x == 0 then 0
    else
      let k2 := countLeBy pr id a x                    -- primes beyond x divide nothing ≤ x
      if k2 ≤ 8 then tables.phiTiny x k2
      else
        let k1 := max 8 (countLeBy pr (fun q => q * q) k2 x)   -- for k1 < i ≤ k2 the term is 1
        let s := (List.range (k1 - 8)).foldl
          (fun acc j => acc + phiOracle pr fuel (x / pr.getD (8 + j) 1) (8 + j)) 0
        tables.phiTiny x 8 - s - (k2 - k1)

/-- phi(x, a) for a = 0..k by the definition: survivors of removing the multiples of p_1, p_2, ... -/
def phiByDefinition (x : Nat) (pr : Array Nat) (k : Nat) : Array Nat := Id.run do
  let mut surv : List Nat := List.range' 1 x
  let mut out : Array Nat := #[surv.length]
  for i in [0:k] do
    match pr[i]? with
    | some q => surv := surv.filter (fun n => n % q != 0)
    | none => surv := surv   -- unreachable when pr holds k primes
    out := out.push surv.length
  return out

def phiLimit : Nat := 10000000
def phiNaiveLimit : Nat := 5000

/-- crude upper bound for the a-th prime (a ≥ 1): a (ln a + ln ln a) + slack, by floats; only used to size a sieve -/
def primeUpper (a : Nat) : Nat :=
  if a < 6 then 13 else
  let f := a.toFloat
  (f * (Float.log f + Float.log (Float.log f)) + 16.0).toUInt64.toNat

/-- the spec value of phi(x, a) on int64 × int64, when this driver can decide it -/
def phiSpecWith (pr : Array Nat) (naive : Array Nat) (x a : Int) : String :=
  if x < 1 then "0"
  else if a < 1 then toString x
  else
    let xn := x.toNat
    let an := a.toNat
    if an ≤ 8 then toString (tables.phiTiny xn an)
    else if 2 * an ≥ xn ∧ xn ≥ 8 then "1"          -- π(x) ≤ x/2 for x ≥ 8
    else if xn ≤ phiNaiveLimit then
      toString (naive.getD (min an (naive.size - 1)) 0)   -- phi(x, a) is constant once p_a > x
    else if xn ≤ phiLimit ∨ an ≤ 16 then toString (phiOracle pr (an + 2) xn an)
    else "ERR:model-range"

/-- tables needed for `x` and the largest `a` of the line -/
def phiPrep (x : Int) (amax : Int) : Array Nat × Array Nat :=
  if x < 1 ∨ amax < 1 then (#[], #[])
  else
    let xn := x.toNat
    if xn ≤ phiNaiveLimit then
      let pr := primesArr xn
      (pr, phiByDefinition xn pr pr.size)
    else if xn ≤ phiLimit then
      (primesArr (min xn (primeUpper amax.toNat)), #[])
    else (primesArr 60, #[])      -- the first 17 primes: any x with a ≤ 16

def phiOne (x a : Int) : String :=
  let (pr, nv) := phiPrep x a
  phiSpecWith pr nv x a

def inI64 (v : Int) : Bool := -(2 ^ 63 : Int) ≤ v && v < (2 ^ 63 : Int)

def phiOp (a : List String) : String :=
  match a.map parseInt? with
  | [some x, some k] => if inI64 x && inI64 k then phiOne x k else "ERR:proto"
  | _ => "ERR:proto"

def phiTOp (a : List String) : String :=
  match a.map parseInt? with
  | [some x, some k, some _] => if inI64 x && inI64 k then phiOne x k else "ERR:proto"
  | _ => "ERR:proto"

def phiBatchOp (a : List String) : String :=
  match a.map parseInt? with
  | some _ :: some x :: rest =>
    match rest.mapM id with
    | some ks =>
      let amax := ks.foldl max 0
      let (pr, nv) := phiPrep x amax
      ",".intercalate (ks.map (fun k => phiSpecWith pr nv x k))
    | none => "ERR:proto"
  | _ => "ERR:proto"

def phiTinyOp (a : List String) : String :=
  match a with
  | [ty, xs, ks] =>
    match ITy.ofName ty, parseInt? xs, parseInt? ks with
    | some t, some x, some k =>
      if k < 0 ∨ k > 8 then "ERR:domain"
      else if x < 0 ∨ ¬ t.inRange x then "ERR:domain"
      else toString (tables.phiTiny x.toNat k.toNat)
    | _, _, _ => "ERR:proto"
  | _ => "ERR:proto"

/-- `phi3_judge x a q v1 v2 v3`: q must be the a-th prime (own sieve) and v1 + v3 = v2 (Legendre recurrence) -/
def phi3Judge (a : List String) : String :=
  match a.map parseInt? with
  | [some x, some k, some q, some v1, some v2, some v3] =>
    if k < 1 ∨ q < 2 ∨ x < 1 then "bad:domain"
    else
      let pr := primesArr q.toNat
      if pr.size != k.toNat ∨ pr.back? != some q.toNat then s!"bad:q={q} is not the {k}-th prime"
      else if v1 + v3 != v2 then s!"bad:phi(x,a)+phi(x/p_a,a-1)={v1 + v3} but phi(x,a-1)={v2}"
      else if v1 < 1 ∨ v1 > x then "bad:range"
      else "ok"
  | _ => "bad:proto"

/-- `phi_pix_judge x a v pix`: with a ≥ π(√x) (own sieve), v must be `pix - a + 1` (or 1 when a > pix) -/
def phiPixJudge (a : List String) : String :=
  match a.map parseInt? with
  | [some x, some k, some v, some pix] =>
    if x < 1 ∨ k < 1 then "bad:domain"
    else
      let r := Nat.sqrt x.toNat
      let piR := (primesArr r).size
      if k.toNat < piR then "bad:a below pi(sqrt x)"
      else
        let expect : Int := if k ≤ pix then pix - k + 1 else 1
        if v == expect then "ok" else s!"bad:phi={v} but pi(x)-a+1={expect}"
  | _ => "bad:proto"

def getC (y : Nat) : Nat :=
  if y < Pc.Gen.PhiTiny.piSmall.length then Pc.Gen.PhiTiny.piSmall.getD y 0 else Pc.Gen.PhiTiny.maxA

def root4Est (x : Nat) : Nat := (Float.sqrt (Float.sqrt x.toFloat)).toUInt64.toNat

def phiAlgOps : String → Option (List String → String)
  | "phi" => some phiOp
  | "cphi" => some phiOp
  | "phi_t" => some phiTOp
  | "phi_batch" => some phiBatchOp
  | "phitiny" => some phiTinyOp
  | "phi3_judge" => some phi3Judge
  | "phi_pix_judge" => some phiPixJudge
  | "phitiny_get_c" => some fun a => match a.map parseInt? with
      | [some y] => if y < 0 then "ERR:domain" else toString (getC y.toNat) | _ => "ERR:proto"
  | "phitiny_get_k" => some fun a => match a with
      | [ty, xs] => match ITy.ofName ty, parseInt? xs with
        | some t, some x => if x < 0 ∨ ¬ t.inRange x then "ERR:domain"
                            else toString (getC (irootLoop 4 x.toNat (root4Est x.toNat)))
        | _, _ => "ERR:proto"
      | _ => "ERR:proto"
  | _ => none

end Pc.Drv
