/-
Driver ops of WP top: the model side of harness/ops_top.cpp.  `Pc.Top.piDeleglieRivat` / `piGourdon` / `piApi64` / `piApi128`
(PcModel/TopAlgs.lean) are EXECUTED with every term computed by its L2 loop model:
  * tables: `t = NT.build B` (B reaches what the callees allocate and what the P2 / B iterators visit), `tableIter t seed`,
    `genConsts`, the prefix-count sieve `hlPsSieve`, `hlEnv` (the proved FactorTable / FactorTableD models + `PhiVec.phiVector`);
  * parallel regions: P2 / B on the run the real balancer produces for one thread without status output (one chunk), the
    `omp for`s on the static round-robin distribution, `S2_hard_OpenMP` / `D_OpenMP` on a single-worker history GENERATED from
    the dispenser model (`topGenHist`) and then REPLAYED by `s2HardOpenMP` / `dOpenMP` like any recorded history, AC on uniform
    segments — every other run gives the same value (the `*_independent_of_run` theorems), the multi-worker histories of the real
    balancers are replayed by the streams of C03;
  * nested `pi_noprint` calls: the table (`t.piOf`), `phi` = the table's Legendre recurrence (`NT.phiOf`).
The float-derived parameters (y, z) come from the implementation (op line).
-/
import PcModel.TopAlgs
import PcModel.Drv.HardLoops
import PcModel.Drv.LeafLoops
import PcModel.Drv.EasyAC
namespace Pc.Drv
open Pc.Top Pc.Hard Pc.LB

/-- a single-worker history of LoadBalancerS2, generated from the dispenser model: worker 0 calls `get_work` with what it
    was handed and the value of the thread function on it, until the answer is "no work" -/
def topGenHist (thr : Nat → Nat → Nat → Except Hard.Err Int) (cfg : S2.Config) :
    Nat → S2.State → List S2.Ev → Except Hard.Err (List S2.Ev)
  | 0, _, acc => .ok acc.reverse
  | n + 1, s, acc =>
    let h := getHand 0 s.hands
    match handValue thr h with
    | .error e => .error e
    | .ok tsum =>
      let u0 := S2.update cfg s (s.sum + tsum) h.low h.segs (max h.segs 1)
      let e0 : S2.Ev := ⟨0, h.low, h.segs, h.size, tsum, 0, 0, decide (s.low < cfg.limit), s.low, u0.2.1, 0, 0⟩
      let nx := S2.next cfg s e0
      let e : S2.Ev := { e0 with osize := nx.size, sumAfter := nx.sum }
      if s.low < cfg.limit then topGenHist thr cfg n nx (e :: acc) else .ok (e :: acc).reverse

/-- the run LoadBalancerP2 produces for `threads = 1`, `is_print = false`: one chunk `[min(√x, limit), limit)` -/
def topP2Run (x limit : Nat) : P2L.Run :=
  let cfg : P2.Config := ⟨limit, 1, false⟩
  let s0 := P2.init genConsts x limit 1
  let low0 := min s0.low limit
  let s1 := P2.next cfg s0 0
  let e1 : P2.Ev := ⟨0, decide (low0 < limit), low0, s1.low⟩
  if low0 < limit then
    { team := 1, print := false, es := [e1, ⟨0, false, min s1.low limit, (P2.next cfg s1 0).low⟩], order := [0] }
  else { team := 1, print := false, es := [e1], order := [0] }

def topTableMax : Nat := 40000000

/-- table bound for `(x, y, z)`: what S1 / S2_trivial / S2_easy / Sigma / Phi0 / AC / S2_hard / D read and what the iterators of
    P2 / B visit (`≤ x / y + 1`, one more prime beyond: Bertrand) -/
def topBound (x y z : Nat) : Nat :=
  let y1 := max y 1
  max (max (2 * (x / y1) + 100) (sigmaBound x y1)) (max (acBound x y1 (max z 1) (isqrtN x)) (max y z)) + 2

def topTables (t : NT) (wide : Bool) (seed : Nat) : Tables HlPs where
  t := t
  it := P2L.tableIter t seed
  lc := genConsts
  S := hlPsSieve t.p
  hardEnv := fun y z => ((hlEnv ⟨wide, false, 0, y, z, 0⟩ t).getD (hlNoEnv t))
  dEnv := fun y z => ((hlEnv ⟨wide, true, 0, y, z, 0⟩ t).getD (hlNoEnv t))

def topShow : TM Int → String
  | .ok v => toString v
  | .error e => e.toString

def topMaxX : Int := 2 ^ 127 - 1

/-- `top_dr_chk <64|128> x y threads` -/
def topDr (a : List String) : String :=
  match a with
  | [w, xs, ys, ths] =>
    if w ≠ "64" ∧ w ≠ "128" then "ERR:proto" else
    let wide := w = "128"
    match parseInt? xs, parseInt? ys, parseInt? ths with
    | some x, some y, some threads =>
      if x < 2 then "0" else
      if y < 1 then "ERR:domain" else
      let xn := x.toNat
      let yn := y.toNat
      let z := xn / yn
      let bound := topBound xn yn z
      if bound > topTableMax then "ERR:model-bound" else
      let t := NT.build bound
      let T := topTables t wide (xn % 7)
      if (hlEnv ⟨wide, false, 0, yn, z, 0⟩ t).isNone then "ERR:pc" else
      let c := getCI y
      let fo : DFloats := { maxX := topMaxX, v := y, mt := fun _ => 1 }
      let cfg := S2.mkConfig genConsts z 1 false
      match topGenHist (fun low segs size => s2HardThread T.S (T.hardEnv yn z) xn yn z c low segs size) cfg (z / 240 + 10)
          (S2.init genConsts xn z 1 false) [] with
      | .error e => hlErr e
      | .ok hist =>
        let r : DrRun :=
          { fo := fo, p2 := topP2Run xn (xn / max yn 1), s1 := leafSched (c + 1) (t.piOf yn) yn threads,
            easy := Easy.easySched (Easy.easyLo t yn c) (Easy.easyHi t xn) 1, hard := hist }
        topShow (piDeleglieRivat T t.piOf wide x threads false r)
    | _, _, _ => "ERR:proto"
  | _ => "ERR:proto"

/-- the run of one `pi_gourdon_*` call with clamped `(y, z)` -/
def topGRun (t : NT) (T : Tables HlPs) (xn yn zn : Nat) (threads : Int) : Except Hard.Err GRun :=
  let k := getK xn
  let xz := xn / max zn 1
  let cfg := S2.mkConfig genConsts xz 1 false
  match topGenHist (fun low segs size => dThread T.S (T.dEnv yn zn) xn (xStar xn yn) xz yn zn k low segs size) cfg (xz / 240 + 10)
      (S2.init genConsts xn xz 1 false) [] with
  | .error e => .error e
  | .ok hist =>
    let sqrtx := isqrtN xn
    .ok { fo := { maxX := topMaxX, v := yn, w := fun _ => zn, mt := fun _ => 1 },
          phi0 := leafSched (k + 1) (t.piOf yn) yn threads,
          acC1 := Easy.easySched (Easy.c1Lo t xn zn k) (Easy.c1Hi t zn) 1,
          acSegs := Easy.uniformSegs sqrtx (acSegSize sqrtx),
          b := topP2Run xn (xn / max yn 1), d := hist }

/-- `top_gourdon_chk <64|128> x y z threads` -/
def topGourdon (a : List String) : String :=
  match a with
  | [w, xs, ys, zs, ths] =>
    if w ≠ "64" ∧ w ≠ "128" then "ERR:proto" else
    let wide := w = "128"
    match parseInt? xs, parseInt? ys, parseInt? zs, parseInt? ths with
    | some x, some y, some z, some threads =>
      if x < 2 then "0" else
      if y < 1 ∨ z < 1 then "ERR:domain" else
      let xn := x.toNat
      let yn := y.toNat
      let zn := z.toNat
      let bound := topBound xn yn zn
      if bound > topTableMax then "ERR:model-bound" else
      let t := NT.build bound
      let T := topTables t wide (xn % 7)
      if (hlEnv ⟨wide, true, 0, yn, zn, 0⟩ t).isNone then "ERR:pc" else
      match topGRun t T xn yn zn threads with
      | .error e => hlErr e
      | .ok r => topShow (piGourdon T t.piOf wide x threads false r)
    | _, _, _, _ => "ERR:proto"
  | _ => "ERR:proto"

/-- `top_api_chk <64|128> x y z threads` (`y z` = Gourdon's parameters when `x > 1e8`, else `0 0`) -/
def topApi (a : List String) : String :=
  match a with
  | [w, xs, ys, zs, ths] =>
    if w ≠ "64" ∧ w ≠ "128" then "ERR:proto" else
    let wide128 := w = "128"
    match parseInt? xs, parseInt? ys, parseInt? zs, parseInt? ths with
    | some x, some y, some z, some threads =>
      let xn := x.toNat
      let big := decide (x > PcGen.ApiConst.meisselMax)
      let wide := decide (x > PiApi.int64Max)
      let yn := if big then y.toNat else max (irootN 3 xn) 1
      let zn := if big then z.toNat else yn
      if big ∧ (y < 1 ∨ z < 1) then "ERR:domain" else
      let bound := if x ≤ PcGen.ApiConst.maxCached then 30 else max (topBound xn yn zn) (isqrtN xn + 2)
      if bound > topTableMax then "ERR:model-bound" else
      let t := NT.build bound
      let T := topTables t wide (xn % 7)
      let gr : Except Hard.Err GRun :=
        if big then topGRun t T xn yn zn threads
        else .ok { fo := { maxX := 0, v := 0, w := fun _ => 0, mt := fun _ => 0 }, phi0 := [], acC1 := [], acSegs := [],
                   b := topP2Run 0 0, d := [] }
      match gr with
      | .error e => hlErr e
      | .ok g =>
        let r : ApiRun := { meissel := topP2Run xn (xn / max (irootN 3 xn) 1), gourdon := g }
        if wide128 then topShow (piApi128 T t.phiOf t.piOf x threads false r)
        else topShow (piApi64 T t.phiOf t.piOf x threads false r)
    | _, _, _, _ => "ERR:proto"
  | _ => "ERR:proto"

def topAlgsOps : String → Option (List String → String)
  | "top_dr_chk" => some topDr
  | "top_gourdon_chk" => some topGourdon
  | "top_api_chk" => some topApi
  | _ => none

end Pc.Drv
