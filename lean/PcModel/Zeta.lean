/-
C19 — integer arithmetic of the rational enclosures of ζ(k) that the generated obligations
(PcGen/ZetaObl.lean) evaluate in the kernel. Core Lean only.

For a scale `S`, `zetaEncLo S k M / S ≤ Σ_{m≥1} m^-k ≤ zetaEncHi S k M / S` (every partial sum; proved in
PcProofs/Zeta.lean): the first `M` terms are summed with floor resp. ceiling division, the tail is bounded by
the telescoping (integral) bounds `(M+1)^(1-k)/(k-1) ≤ Σ_{m>M} m^-k ≤ M^(1-k)/(k-1)`.
-/
namespace Pc

/-- `Σ_{m=1}^{M} ⌊S / m^k⌋` -/
def zetaSumLo (S k : Nat) : Nat → Nat
  | 0 => 0
  | m + 1 => zetaSumLo S k m + S / (m + 1) ^ k

/-- `Σ_{m=1}^{M} (⌊S / m^k⌋ + 1)` -/
def zetaSumHi (S k : Nat) : Nat → Nat
  | 0 => 0
  | m + 1 => zetaSumHi S k m + (S / (m + 1) ^ k + 1)

/-- lower end (scaled by `S`) of the enclosure of ζ(k) from `M` explicit terms -/
def zetaEncLo (S k M : Nat) : Nat := zetaSumLo S k M + S / ((k - 1) * (M + 1) ^ (k - 1))

/-- upper end (scaled by `S`) of the enclosure of ζ(k) from `M` explicit terms -/
def zetaEncHi (S k M : Nat) : Nat := zetaSumHi S k M + (S / ((k - 1) * M ^ (k - 1)) + 1)

/-- the checks of one table entry on the enclosure `[lo, hi]` (scale `den * extra`): the literal `num / den`
    lies in it up to one unit of its last digit (`extra` units of the scale), and the enclosure is narrower
    than `10^-digits` -/
def zetaEntryCheck (num den extra digits lo hi : Nat) : Bool :=
  decide (lo ≤ num * extra + extra) && decide (num * extra ≤ hi + extra) &&
  decide ((hi - lo) * 10 ^ digits ≤ den * extra)

/-- obligation for the literal `zeta[k] = num / den`, enclosure of ζ(k) from `M` explicit terms -/
def zetaEntryOk (num den extra k M digits : Nat) : Bool :=
  decide (2 ≤ k) && decide (1 ≤ M) && decide (0 < extra) &&
  zetaEntryCheck num den extra digits (zetaEncLo (den * extra) k M) (zetaEncHi (den * extra) k M)

/-- entries 2..126 are strictly larger than their successor and every entry 2..127 is larger than 1 -/
def zetaDecreasingOk (nums : Array Nat) (den : Nat) : Bool :=
  (List.range' 2 125).all (fun k => decide (nums.getD (k + 1) 0 < nums.getD k 0)) &&
  (List.range' 2 126).all (fun k => decide (den < nums.getD k 0))

end Pc
