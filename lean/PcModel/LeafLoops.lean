/-
C08 / C02 / C03 / C11 — L2 models that MIRROR THE CONTROL FLOW of the cheap terms of the LMO / Deleglise-Rivat /
Gourdon formulas (core Lean only, executable):

* `leafThread`, `s1Thread`, `s1Body`, `s1OpenMP`       src/S1.cpp:38-86      (S1_thread, S1_OpenMP)
* `phi0Thread`, `phi0Body`, `phi0OpenMP`               src/gourdon/Phi0.cpp:44-93 (Phi0_thread, Phi0_OpenMP)
* `sigma0 … sigma3`, `sigma456`, `sigmaParts`, `sigma` src/gourdon/Sigma.cpp:30-180
* `s2TrivLoop`, `s2Trivial`                            src/deleglise-rivat/S2_trivial.cpp:38-89
* `ompReduce`, `staticSched1`                          `#pragma omp parallel for schedule(static, 1) reduction(+: s)`

What is a parameter here (tied elsewhere):
* the prime vector `generate_primes<Y>(y)` and the tables `PiTable pi(max)`, `pi_noprint`, `nth_prime(c)` and the
  `primesieve::iterator` are read from a prime / π table `t : NT` (PcModel/Formulas.lean; `primes[i] = t.p i`,
  `primes.size() = t.piOf y + 1`, `pi[n] = t.piOf n` with the bound check `n ≤ max_x` of `PiTable::operator[]`).
  Their own construction is C17 / C18 / C01.
* `isqrt`, `iroot<3>` are `isqrtN`, `irootN 3` (proved = the floor roots from every start value, C12),
  `get_x_star_gourdon` is `xStar` (PcModel/Formulas.lean, op `xstar`).
* `phi_tiny(x, a)` is the table model `PhiTinyTables.phiTiny` on the tables dumped from /repo (C07).

What is mirrored: loop bounds, the `break`s (`next > y`, `xpp <= prime`), the order `x / next`, `x / (prime * y)`,
`x / (prime * prime)`, `isqrt(x / prime)`, the accumulator discipline (`s1 += MU * …; s1 += S1_thread<-MU>(…)`), the
truncating divisions of the closed forms, the reduction over an arbitrary distribution of the `omp for` iterations.
Integer widths: every product that is computed in the operand type `T` of the C++ template (`square_free * primes[b]`,
`prime * (T) y`, `prime * (T) prime`, `x_star * y`) is a CHECKED multiplication in that type, narrowing casts
(`int64_t xpp = (int64_t)(x / pp)`, `int64_t max_pix_sigma4 = x / (x_star * y)`) are checked casts, `PiTable` reads
beyond `max_x` and `phi_tiny` with `a > 8` (both `ASSERT`s) are errors, `nth_prime(c)` with `c < 1` is the
`primecount_error` the real code throws, a division by zero is an error.  The additions into the accumulators are
exact integers (an overflow of a partial sum is not modelled; see notes/wp-s1phi0.md).
-/
import PcModel.Formulas
import PcModel.PhiTiny
import PcGen.PhiTinyData
namespace Pc

/-- what the loop mirrors report instead of a value -/
inductive LErr where
  /-- a product computed in the operand type leaves its range (signed overflow: undefined behaviour) -/
  | overflow
  /-- a narrowing cast changes the value -/
  | narrow
  /-- `PiTable::operator[](x)` with `x > max_x` (`ASSERT(x <= max_x_)`) -/
  | oob
  /-- `phi_tiny(x, a)` with `a > 8` (`ASSERT(a == 8)` in `PhiTiny::phi_recursive`) -/
  | phiTinyA
  /-- integer division by zero -/
  | div0
  /-- `primecount_error` thrown (`nth_prime(n)` with `n < 1`) -/
  | pc
deriving DecidableEq, Repr

abbrev LM := Except LErr

def LErr.toString : LErr → String
  | .overflow => "TRAP:overflow" | .narrow => "TRAP:narrow" | .oob => "TRAP:oob"
  | .phiTinyA => "TRAP:assert-phi_tiny" | .div0 => "TRAP:div0" | .pc => "ERR:pc"

/-- `phi_tiny(x, a)` (include/PhiTiny.hpp `phi_recursive`): tables for `a < 8`, one recursion level for `a = 8` -/
def phiTinyM (x a : Nat) : LM Nat :=
  if a ≤ 8 then .ok (Pc.Gen.PhiTiny.tables.phiTiny x a) else .error .phiTinyA

/-- `a * b` computed in the C++ type `w` (non-negative operands) -/
def mulT (w : ITy) (a b : Nat) : LM Nat := if a * b ≤ w.maxVal then .ok (a * b) else .error .overflow

/-- `(W) v` for a non-negative `v` -/
def narrowTo (w : ITy) (v : Nat) : LM Nat := if v ≤ w.maxVal then .ok v else .error .narrow

/-- `x / d` -/
def divM (x d : Nat) : LM Nat := if d = 0 then .error .div0 else .ok (x / d)

/-- `pi[n]` on a `PiTable pi(maxX, threads)` -/
def piGet (t : NT) (maxX n : Nat) : LM Nat := if n ≤ maxX then .ok (t.piOf n) else .error .oob

/-! ### ordinary leaves: `S1_thread` / `Phi0_thread` (the two C++ functions are textually the same up to names) -/

/-- `S1_thread<MU>(x, y, b, c, square_free, primes)` (S1.cpp:38-57) and `Phi0_thread<MU>(x, z, b, k, square_free, primes)`
    (Phi0.cpp:44-63), with the local accumulator `s1` made explicit (`acc`; the C++ function starts it at 0):

        for (b++; b < primes.size(); b++) {
          T next = square_free * primes[b];
          if (next > y) break;
          s1 += MU * phi_tiny(x / next, c);
          s1 += S1_thread<-MU>(x, y, b, c, next, primes);
        }
        return s1;

    `size` = `primes.size()`, `z` = the cut-off (`y` for S1), `mu` = `MU`, `sq` = `square_free`.  The call in the
    last line is the next loop iteration (same `MU`, same `square_free`, `b + 1`). -/
def leafThread (t : NT) (w : ITy) (size x z c : Nat) (mu : Int) (b sq : Nat) (acc : Int) : LM Int :=
  if _h : b + 1 < size then do
    let next ← mulT w sq (t.p (b + 1))
    if next > z then pure acc            -- break
    else do
      let q ← divM x next
      let ph ← phiTinyM q c
      let r ← leafThread t w size x z c (-mu) (b + 1) next 0
      leafThread t w size x z c mu (b + 1) sq (acc + mu * (ph : Int) + r)
  else pure acc
termination_by size - b

/-- `S1_thread<MU>(x, y, b, c, square_free, primes)` -/
def s1Thread (t : NT) (w : ITy) (size x y c : Nat) (mu : Int) (b sq : Nat) : LM Int :=
  leafThread t w size x y c mu b sq 0

/-- `Phi0_thread<MU>(x, z, b, k, square_free, primes)` -/
def phi0Thread (t : NT) (w : ITy) (size x z k : Nat) (mu : Int) (b sq : Nat) : LM Int :=
  leafThread t w size x z k mu b sq 0

/-! ### `#pragma omp parallel for schedule(static, 1) num_threads(threads) reduction(+: s)` -/

/-- one thread: its private copy of the reduction variable starts at 0 and executes the iterations assigned to it
    in order; `body b acc` = the value of the private copy after the loop body for index `b` -/
def threadRun (body : Nat → Int → LM Int) (its : List Nat) : LM Int :=
  its.foldlM (fun acc b => body b acc) 0

/-- the whole region: `sched` lists, for every thread of the team, the iterations it executes (in its order); at
    the end every private copy is added to the original variable (here: in team order; `ompReduce_perm` in
    PcProofs/LeafLoops.lean shows that neither the distribution nor the order matters) -/
def ompReduce (init : Int) (body : Nat → Int → LM Int) (sched : List (List Nat)) : LM Int :=
  sched.foldlM (fun s its => do let r ← threadRun body its; pure (s + r)) init

/-- `sched` distributes the iterations `lo, …, hi` over the team: every iteration exactly once, in any order, on
    any thread (the theorems about `s1OpenMP` / `phi0OpenMP` hold for EVERY such `sched`) -/
def IsSchedule (lo hi : Nat) (sched : List (List Nat)) : Prop := sched.flatten.Perm (List.range' lo (hi + 1 - lo))

/-- `schedule(static, 1)` with a team of `nt` threads over the iterations `lo, …, hi`: thread `i` executes
    `lo + i, lo + i + nt, …` -/
def staticSched1 (lo hi nt : Nat) : List (List Nat) :=
  (List.range nt).map fun i =>
    (List.range (hi + 1 - lo)).filterMap fun j => if j % nt = i then some (lo + j) else none

/-- the body of the `omp for` of `S1_OpenMP` (S1.cpp:79-83) on the private copy `s1`:
        s1 -= phi_tiny(x / primes[b], c);
        s1 += S1_thread<1>(x, y, b, c, (X) primes[b], primes); -/
def s1Body (t : NT) (w : ITy) (size x y c : Nat) (b : Nat) (s1 : Int) : LM Int := do
  let q ← divM x (t.p b)
  let ph ← phiTinyM q c
  let r ← s1Thread t w size x y c 1 b (t.p b)
  pure (s1 - (ph : Int) + r)

/-- `S1_OpenMP(x, y, c, threads)` (S1.cpp:63-86); `sched` = the distribution of `b = c + 1 … pi_y` over the team.
    `primes = generate_primes<Y>(y)` is `t.p 0 … t.p (π y)`, `pi_y = primes.size() - 1`. -/
def s1OpenMP (t : NT) (w : ITy) (x y c : Nat) (sched : List (List Nat)) : LM Int := do
  let piY := t.piOf y
  let s1 ← phiTinyM x c
  ompReduce (s1 : Int) (s1Body t w (piY + 1) x y c) sched

/-- the body of the `omp for` of `Phi0_OpenMP` (Phi0.cpp:86-90) -/
def phi0Body (t : NT) (w : ITy) (size x z k : Nat) (b : Nat) (phi0 : Int) : LM Int := do
  let q ← divM x (t.p b)
  let ph ← phiTinyM q k
  let r ← phi0Thread t w size x z k 1 b (t.p b)
  pure (phi0 - (ph : Int) + r)

/-- `Phi0_OpenMP(x, y, z, k, threads)` (Phi0.cpp:69-93) -/
def phi0OpenMP (t : NT) (w : ITy) (x y z k : Nat) (sched : List (List Nat)) : LM Int := do
  let piY := t.piOf y
  let phi0 ← phiTinyM x k
  ompReduce (phi0 : Int) (phi0Body t w (piY + 1) x z k) sched

/-- the team size both functions ask for: `ideal_num_threads(y, threads, 1e6)` -/
def leafTeam (y : Nat) (threads : Int) : Nat := (idealNumThreads y threads 1000000).toNat

/-- the distribution the real code uses -/
def leafSched (lo hi y : Nat) (threads : Int) : List (List Nat) := staticSched1 lo hi (leafTeam y threads)

/-! ### Σ (Sigma.cpp) -/

/-- `Sigma0(x, a, threads)`: `pi_noprint(isqrt(x))` is read from the table -/
def sigma0 (t : NT) (x : Nat) (a : Int) : Int :=
  let ps : Int := t.piOf (isqrtN x)
  a - 1 + Int.tdiv (ps * (ps - 1)) 2 - Int.tdiv (a * (a - 1)) 2

/-- `Sigma1(a, b)` -/
def sigma1 (a b : Int) : Int := Int.tdiv ((a - b) * (a - b - 1)) 2

/-- `Sigma2(a, b, c, d)` -/
def sigma2 (a b c d : Int) : Int := a * (b - c - Int.tdiv (c * (c - 3)) 2 + Int.tdiv (d * (d - 3)) 2)

/-- `Sigma3(b, d)` -/
def sigma3 (b d : Int) : Int :=
  Int.tdiv (b * (b - 1) * (2 * b - 1)) 6 - b - Int.tdiv (d * (d - 1) * (2 * d - 1)) 6 + d

/-- the three accumulators of `Sigma456` -/
structure S456 where
  s4 : Int
  s5 : Int
  s6 : Int
deriving Repr

/-- one iteration of the prime loop of `Sigma456` (Sigma.cpp:75-90) -/
def sigma456Step (t : NT) (w : ITy) (x y maxX sqrtXY : Nat) (acc : S456) (prime : Nat) : LM S456 := do
  let acc1 ← if prime ≤ sqrtXY then do
      let m ← mulT w prime y                    -- prime * (T) y
      let n ← divM x m
      let v ← piGet t maxX n
      pure { acc with s4 := acc.s4 + (v : Int) }
    else do
      let m ← mulT w prime prime                -- prime * (T) prime
      let n ← divM x m
      let v ← piGet t maxX n
      pure { acc with s5 := acc.s5 + (v : Int) }
  let xp ← divM x prime
  let ps ← piGet t maxX (isqrtN xp)             -- pi[isqrt(x / prime)]
  pure { acc1 with s6 := acc1.s6 + (ps : Int) * (ps : Int) }

/-- `Sigma456(x, y, a, x_star, pi)` (Sigma.cpp:56-96): the iterator yields the primes of `[x_star + 1, x13]` -/
def sigma456 (t : NT) (w : ITy) (x y : Nat) (a : Int) (xs maxX : Nat) : LM Int := do
  let x13 := irootN 3 x
  let xy ← divM x y
  let sqrtXY := isqrtN xy
  let r ← (t.primesIn xs x13).foldlM (sigma456Step t w x y maxX sqrtXY) ⟨0, 0, 0⟩
  let sigma4 := r.s4 * a
  let sigma6 := - r.s6
  pure (sigma4 + r.s5 + sigma6)

/-- the five summands of `Sigma(x, y, threads)` (Sigma.cpp:102-139 for `w = i64`, 143-180 for `w = i128`):
    `(Σ0, Σ1, Σ2, Σ3, Σ4+Σ5+Σ6)` -/
def sigmaParts (t : NT) (w : ITy) (x y : Nat) : LM (Int × Int × Int × Int × Int) := do
  let xs := xStar x y
  let xsy ← mulT w xs y                          -- x_star * y
  let m4raw ← divM x xsy
  let m4 ← narrowTo .i64 m4raw                   -- int64_t max_pix_sigma4 = x / (x_star * y)
  let m5 := y
  let xxs ← divM x xs
  let m6 ← narrowTo .i64 (isqrtN xxs)            -- int64_t max_pix_sigma6 = isqrt(x / x_star)
  let maxPix := max m4 (max m5 m6)               -- max3
  let a ← piGet t maxPix y
  let b ← piGet t maxPix (irootN 3 x)
  let xy ← divM x y
  let c ← piGet t maxPix (isqrtN xy)
  let d ← piGet t maxPix xs
  let s456 ← sigma456 t w x y a xs maxPix
  pure (sigma0 t x a, sigma1 a b, sigma2 a b c d, sigma3 b d, s456)

/-- `Sigma(x, y, threads)` -/
def sigma (t : NT) (w : ITy) (x y : Nat) : LM Int := do
  let (s0, s1, s2, s3, s456) ← sigmaParts t w x y
  pure (s0 + s1 + s2 + s3 + s456)

/-! ### S2_trivial (S2_trivial.cpp) -/

/-- the `while ((prime = it.next_prime()) < y)` loop (S2_trivial.cpp:64-70) over the primes `qs` of `[start, y)`;
    result `(sum, some prime)` when the loop was left by `break` at `prime`, `(sum, none)` when the iterator
    reached a prime `≥ y` -/
def s2TrivLoop (t : NT) (w : ITy) (x y : Nat) (piY : Int) : List Nat → Int → LM (Int × Option Nat)
  | [], sum => pure (sum, none)
  | prime :: qs, sum => do
    let pp ← mulT w prime prime                  -- T pp = (T) prime * prime
    let q ← divM x pp
    let xpp ← narrowTo .i64 q                    -- int64_t xpp = (int64_t)(x / pp)
    if xpp ≤ prime then pure (sum, some prime)   -- break
    else do
      let v ← piGet t y xpp
      s2TrivLoop t w x y piY qs (sum + (piY - (v : Int)))

/-- `S2_trivial(x, y, z, c, threads)` (S2_trivial.cpp:38-89) -/
def s2Trivial (t : NT) (w : ITy) (x y z c : Nat) : LM Int :=
  if y < 2 then pure 0 else do
  let piY ← piGet t y y
  let sqrtz := isqrtN z
  if c < 1 then throw .pc                         -- nth_prime(c) throws for c < 1
  let primeC := t.p c                             -- nth_prime(c)
  let start := max primeC sqrtz + 1
  if start ≥ y then pure 0 else do
  let (sum, brk) ← s2TrivLoop t w x y piY (t.primesIn (start - 1) (y - 1)) 0
  match brk with
  | none => pure sum
  | some prime => do
    let piY1 ← piGet t y (y - 1)
    let piP ← piGet t y prime
    let n : Int := ((piY1 : Int) - piP) + 1
    let a1 : Int := (piY : Int) - piY1
    let a2 : Int := (piY : Int) - piP
    pure (sum + Int.tdiv (n * (a1 + a2)) 2)

end Pc
