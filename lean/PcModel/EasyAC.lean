/-
C08 / C02 / C03 / C11 (wp-easy) — L2 model that MIRRORS THE CONTROL FLOW of the A + C formulas of Gourdon's algorithm
(core Lean only, executable):

* `aLoop`, `acAKernel`, `acA`        src/gourdon/AC.cpp:53-90 (`A`); AC_libdivide.cpp:57-98 (`A_64`), 106-141 (`A_128`)
* `c1`                               AC.cpp:103-137 (`C1<MU>`, identical in AC_libdivide.cpp:154-188)
* `c2Clustered`, `c2Sparse`, `acC2Kernel`, `acC2`   AC.cpp:145-195 (`C2`); AC_libdivide.cpp:193-249 (`C2_64`), 255-304 (`C2_128`)
* `acC1Level`, `acSegment`, `acWork`, `acOpenMP`, `acEntry`   AC.cpp:200-322 (`AC_OpenMP`), 328-357 (`AC`)

Parameters, tied elsewhere: `primes = generate_primes(max(max_a_prime, y))`, `PiTable pi(max(z, max_a_prime))` and the
`SegmentedPiTable` (after `init(low, high)`) are read from a prime / π table `t : NT` with explicit bounds: `primes[i]` needs
`i < size`, `pi[n]` needs `n ≤ maxPi`, `segmentedPi[n]` needs `low ≤ n < high` (the two `ASSERT`s of
`SegmentedPiTable::operator[]`; the table itself is C17's `SegPi`).  `isqrt`, `iroot<3>` = `isqrtN`, `irootN 3`;
`get_x_star_gourdon` = `xStar`.  The work distribution of `LoadBalancerAC` (Pc.LB.AC in PcModel/Dispenser.lean, C09) enters as
the list `work` of `(low, segments, segment_size)` triples that `get_work` handed out, in any order, to any threads.

Divisions: `Kern` of PcModel/EasyLoops.lean (`plain64` / `plain128` = AC.cpp with `T = uint64_t` / `uint128_t`: `fast_div64`;
`ld64` = `A_64` / `C2_64`: libdivide; `ld128` = `A_128` / `C2_128`: `fast_div64`).  All locals of these kernels are `uint64_t`:
`pi_xpq - b + 2` wrapping below zero is the explicit failure `unsignedWrap`.  Products formed in a fixed-width type
(`prime * prime`, `(T) m * primes[i]`) are checked.  The additions into `sum` are exact integers.
-/
import PcModel.EasyLoops
namespace Pc.Easy

/-- `segmentedPi[n]` after `segmentedPi.init(low, high)` -/
def segGet (t : NT) (low high n : Nat) : EM Nat := if low ≤ n ∧ n < high then .ok (t.piOf n) else .error .oobSeg

/-- `a * b` in the type `w` -/
def mulE (w : ITy) (a b : Nat) : EM Nat := if a * b ≤ w.maxVal then .ok (a * b) else .error .overflow

/-- unsigned `pi - b + 2` (all AC kernels) -/
def phiU (v b : Nat) : EM Int := if v + 2 < b then .error .unsignedWrap else .ok ((v : Int) - b + 2)

/-! ### A -/

/-- `for (; i <= max_i; i++) { xpq = xp / primes[i]; sum += segmentedPi[xpq] * mult; }` with `fuel = max_i + 1 - i` -/
def aLoop (k : Kern) (t : NT) (size low high xp : Nat) (mult : Int) : Nat → Nat → Int → EM (Int × Nat)
  | 0, i, sum => pure (sum, i)
  | n + 1, i, sum => do
    let q ← primesGet t size i
    let xpq ← k.div xp q
    let v ← segGet t low high xpq
    aLoop k t size low high xp mult n (i + 1) (sum + (v : Int) * mult)

/-- the body of `A` after `prime = primes[b]; xp = x / prime` (= `A_64` / `A_128`) -/
def acAKernel (k : Kern) (t : NT) (size maxPi low high xlow xhigh xp y prime : Nat) : EM Int := do
  let sqrtXp ← narrowE .u64 (isqrtN xp)                     -- (uint64_t) isqrt(xp)
  let a1 ← divE xhigh prime
  let min2nd := min a1 sqrtXp                               -- min(xhigh / prime, sqrt_xp)
  let a2 ← divE xlow prime
  let max2nd := min a2 sqrtXp                               -- min(xlow / prime, sqrt_xp)
  let i0 ← piGet t maxPi (max prime min2nd)
  let i := i0 + 1
  let xpy ← divE xp y
  let maxI1 ← piGet t maxPi (min xpy max2nd)
  let maxI2 ← piGet t maxPi max2nd
  let (s1, i1) ← aLoop k t size low high xp 1 (maxI1 + 1 - i) i 0
  let (s2, _) ← aLoop k t size low high xp 2 (maxI2 + 1 - i1) i1 s1
  pure s2

/-- `A(x, xlow, xhigh, y, b, primes, pi, segmentedPi)` (AC.cpp:53-90) -/
def acA (k : Kern) (t : NT) (size maxPi low high x xlow xhigh y b : Nat) : EM Int := do
  let prime ← primesGet t size b
  let xp ← divE x prime
  acAKernel k t size maxPi low high xlow xhigh xp y prime

/-! ### C1 -/

/-- `C1<MU>(xp, b, i, pi_y, m, min_m, max_m, primes, pi)` (AC.cpp:103-137) with the local `sum` made explicit (`acc`):

        for (i++; i <= pi_y; i++) {
          T m128 = (T) m * primes[i];
          if (m128 > max_m) return sum;
          uint64_t m64 = (uint64_t) m128;
          if (m64 > min_m) { xpm = fast_div64(xp, m64); T phi_xpm = pi[xpm] - b + 2; sum += phi_xpm * MU; }
          sum += C1<-MU>(xp, b, i, pi_y, m64, min_m, max_m, primes, pi);
        }
        return sum;
-/
def c1 (k : Kern) (t : NT) (w : ITy) (size maxPi piY xp b minM maxM : Nat) (mu : Int) (i m : Nat) (acc : Int) : EM Int :=
  if _h : i + 1 ≤ piY then do
    let q ← primesGet t size (i + 1)
    let m' ← mulE w m q
    if m' > maxM then pure acc                               -- return sum
    else do
      let acc1 ← if m' > minM then do
          let xpm ← k.div xp m'
          let v ← piGet t maxPi xpm
          let phi ← phiU v b
          pure (acc + phi * mu)
        else pure acc
      let r ← c1 k t w size maxPi piY xp b minM maxM (-mu) (i + 1) m' 0
      c1 k t w size maxPi piY xp b minM maxM mu (i + 1) m (acc1 + r)
  else pure acc
termination_by piY - i

/-- one iteration `b` of the C1 loop of `AC_OpenMP` (AC.cpp:250-259): the value SUBTRACTED from `sum` -/
def acC1Level (t : NT) (w : ITy) (size maxPi piY x z b : Nat) : EM Int := do
  let prime ← primesGet t size b
  let xp ← divE x prime
  let xpp ← divE xp prime
  let maxM := min xpp z                                      -- min(xp / prime, z)
  let pp ← mulE .i64 prime prime                             -- prime * prime (int64_t)
  let a ← divE xp pp
  let zp ← divE z prime
  let minM := min (max a zp) maxM
  c1 (plainKern w) t w size maxPi piY xp b minM maxM (-1) b 1 0

/-! ### C2 -/

/-- the clustered loop of `C2` (AC.cpp:172-181) -/
def c2Clustered (k : Kern) (t : NT) (size maxPi low high xp b minCl piMinCl : Nat) (i : Nat) (sum : Int) :
    EM (Int × Nat) :=
  if i > piMinCl then do
    let q ← primesGet t size i
    let xpq ← k.div xp q
    let piXpq ← segGet t low high xpq
    let phi ← phiU piXpq b
    let q2 ← primesGet t size (piXpq + 1)
    let xpq2 ← k.div xp q2
    let imin ← piGet t maxPi (max xpq2 minCl)
    if _h : imin < i then c2Clustered k t size maxPi low high xp b minCl piMinCl imin (sum + phi * ((i : Int) - imin))
    else .error .noProgress
  else pure (sum, i)
termination_by i

/-- the sparse loop of `C2` (AC.cpp:188-192) -/
def c2Sparse (k : Kern) (t : NT) (size low high xp b piMinM : Nat) : Nat → Int → EM Int
  | 0, sum => pure sum
  | i + 1, sum =>
    if i + 1 > piMinM then do
      let q ← primesGet t size (i + 1)
      let xpq ← k.div xp q
      let v ← segGet t low high xpq
      let phi ← phiU v b
      c2Sparse k t size low high xp b piMinM i (sum + phi)
    else pure sum

/-- the body of `C2` after `prime = primes[b]; xp = x / prime` (= `C2_64` / `C2_128`): (clustered part, sparse part) -/
def acC2Kernel (k : Kern) (t : NT) (size maxPi low high xlow xhigh xp y b prime : Nat) : EM (Int × Int) := do
  let a1 ← divE xlow prime
  let a2 ← divE xp prime
  let maxM := min a1 (min a2 y)                              -- min3(xlow / prime, xp / prime, y)
  let b1 ← divE xhigh prime
  let pp ← mulE .u64 prime prime                             -- prime * prime (uint64_t)
  let b2 ← divE xp pp
  let minM128 := max b1 (max b2 prime)                       -- max3(xhigh / prime, xp / (prime * prime), prime)
  let minM := min minM128 maxM
  let i ← piGet t maxPi maxM
  let piMinM ← piGet t maxPi minM
  let mc0 ← narrowE .u64 (isqrtN xp)
  let minCl := inBetweenN minM mc0 maxM
  let piMinCl ← piGet t maxPi minCl
  let (sc, i') ← c2Clustered k t size maxPi low high xp b minCl piMinCl i 0
  let ss ← c2Sparse k t size low high xp b piMinM i' 0
  pure (sc, ss)

/-- `C2(x, xlow, xhigh, y, b, primes, pi, segmentedPi)` (AC.cpp:145-195) -/
def acC2 (k : Kern) (t : NT) (size maxPi low high x xlow xhigh y b : Nat) : EM (Int × Int) := do
  let prime ← primesGet t size b
  let xp ← divE x prime
  acC2Kernel k t size maxPi low high xlow xhigh xp y b prime

/-! ### `AC_OpenMP` -/

/-- which file: AC.cpp (one kernel per width) or AC_libdivide.cpp (64/128 dispatch per `b` by `xp <= 2^64 - 1`) -/
inductive ACFile where
  | plain | libdivide
deriving DecidableEq, Repr

def ACFile.kern (f : ACFile) (w : ITy) (xp : Nat) : Kern :=
  match f with
  | .plain => plainKern w
  | .libdivide => if xp ≤ ITy.u64.maxVal then .ld64 else .ld128

/-- the values `AC_OpenMP` derives before the parallel region (AC.cpp:211-234) -/
structure ACPre where
  x13 : Nat
  sqrtx : Nat
  maxPi : Nat
  size : Nat
  piY : Nat
  piSqrtz : Nat
  piRoot3xy : Nat
  piRoot3xz : Nat
deriving Repr

def acPre (t : NT) (x y z maxAPrime : Nat) : EM ACPre := do
  let xy0 ← divE x y
  let xy ← narrowE .i64 xy0                                  -- int64_t xy = x / y
  let xz0 ← divE x z
  let xz ← narrowE .i64 xz0                                  -- int64_t xz = x / z
  let maxPi := max z maxAPrime                               -- PiTable pi(max(z, max_a_prime))
  let size := t.piOf (max maxAPrime y) + 1                   -- generate_primes(max(max_a_prime, max_c_prime)).size()
  let piY ← piGet t maxPi y
  let piSqrtz ← piGet t maxPi (isqrtN z)
  let piRoot3xy ← piGet t maxPi (irootN 3 xy)
  let piRoot3xz ← piGet t maxPi (irootN 3 xz)
  pure { x13 := irootN 3 x, sqrtx := isqrtN x, maxPi, size, piY, piSqrtz, piRoot3xy, piRoot3xz }

/-- `for (b = lo; b <= hi; b++) sum += f(b)` -/
def sumRange (f : Nat → EM Int) (lo hi : Nat) : EM Int :=
  (List.range' lo (hi + 1 - lo)).foldlM (fun s b => do let v ← f b; pure (s + v)) 0

/-- one segment `[low, high)` (AC.cpp:279-316): `(Σ C2, Σ A)` -/
def acSegment (f : ACFile) (t : NT) (w : ITy) (p : ACPre) (x y k xStar_ low high : Nat) : EM (Int × Int) := do
  let xlow ← divE x (max low 1)
  let xhigh ← divE x high
  let v1 ← piGet t p.maxPi (isqrtN low)
  let xhy ← divE xhigh y
  let v2 ← piGet t p.maxPi (min xhy xStar_)
  let minC2 := max (max (max (max k p.piRoot3xy) p.piSqrtz) v1) v2 + 1
  let xhh ← divE xhigh high
  let v3 ← piGet t p.maxPi (max xStar_ (min xhh p.x13))
  let minA := v3 + 1
  let sqrtXlow := isqrtN xlow
  let maxC2 ← piGet t p.maxPi (min sqrtXlow xStar_)
  let maxA ← piGet t p.maxPi (min sqrtXlow p.x13)
  let c2 ← sumRange (fun b => do
      let prime ← primesGet t p.size b
      let xp ← divE x prime
      let (sc, ss) ← acC2Kernel (f.kern w xp) t p.size p.maxPi low high xlow xhigh xp y b prime
      pure (sc + ss)) minC2 maxC2
  let a ← sumRange (fun b => do
      let prime ← primesGet t p.size b
      let xp ← divE x prime
      acAKernel (f.kern w xp) t p.size p.maxPi low high xlow xhigh xp y prime) minA maxA
  pure (c2, a)

/-- the segments of one work item `(low, segments, segment_size)` (AC.cpp:271-280):
    `limit = min(low + segments * segment_size, sqrtx); for (; low < limit; low += segment_size) high = min(low + segment_size, sqrtx)` -/
def workSegments (sqrtx : Nat) (wk : Nat × Nat × Nat) : List (Nat × Nat) :=
  let (low0, segs, ss) := wk
  let limit := min (low0 + segs * ss) sqrtx
  if ss = 0 then [] else
  (List.range ((limit - low0 + ss - 1) / ss)).map fun j => (low0 + j * ss, min (low0 + j * ss + ss) sqrtx)

/-- `AC_OpenMP(x, y, z, k, x_star, max_a_prime, primes, threads, is_print)`: `c1sched` = which thread fetched which `b`
    of the C1 loop from `min_c1++`; `segs` = the segments `[low, high)` processed (all threads, any order) -/
def acOpenMP (f : ACFile) (t : NT) (w : ITy) (x y z k xStar_ maxAPrime : Nat) (c1sched : List (List Nat))
    (segs : List (Nat × Nat)) : EM Int := do
  let p ← acPre t x y z maxAPrime
  let s1 ← reduceE 0 (fun b sum => do
      let v ← acC1Level t w p.size p.maxPi p.piY x z b
      pure (sum - v)) c1sched
  segs.foldlM (fun s (lh : Nat × Nat) => do
      let (c2, a) ← acSegment f t w p x y k xStar_ lh.1 lh.2
      pure (s + c2 + a)) s1

/-- first / last iteration of the C1 loop: `max(k, pi_root3_xz) + 1 … pi_sqrtz` -/
def c1Lo (t : NT) (x z k : Nat) : Nat := max k (t.piOf (irootN 3 (x / z))) + 1
def c1Hi (t : NT) (z : Nat) : Nat := t.piOf (isqrtN z)

/-- `AC(x, y, z, k, threads, is_print)` (AC.cpp:328-357 / 361-400): `x_star`, `max_a_prime = isqrt(x / x_star)` -/
def acEntry (f : ACFile) (t : NT) (w : ITy) (x y z k : Nat) (c1sched : List (List Nat)) (segs : List (Nat × Nat)) :
    EM Int := do
  let xs := xStar x y
  let q ← divE x xs
  let maxAPrime ← narrowE .i64 (isqrtN q)
  acOpenMP f t w x y z k xs maxAPrime c1sched segs

/-- the segmentation of a run in which every `get_work` returns `(low, 1, segSize)` -/
def uniformSegs (sqrtx segSize : Nat) : List (Nat × Nat) := workSegments sqrtx (0, (sqrtx + segSize - 1) / max segSize 1, segSize)

end Pc.Easy
