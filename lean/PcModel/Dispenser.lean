/-
C09 / C03: the three work dispensers (src/LoadBalancerS2.cpp, src/LoadBalancerP2.cpp,
src/gourdon/LoadBalancerAC.cpp) and `align_segment_size` (src/Sieve.cpp, include/SegmentedPiTable.hpp).

L1  `Disp`   : state `(low, limit)`, a request with ANY step `d` hands out `[low, min (low+d) limit)` iff
               `low < limit`; `WDisp` adds workers (events `(w, d)`), the accumulated sum and the chunk each
               worker holds.
L2  `S2`, `P2`, `AC` : all INTEGER state of the C++ classes, exactly. Every decision the C++ derives from
               floating point (clock, durations, `std::pow`, `std::cbrt`) is a nondeterministic CHOICE that
               is restricted only by what the integer code then does with it:
                 S2  `update_number_of_segments`  : `segments_` becomes `2 * segments_` or any value `≥ 1`;
                 P2  `low23 = (int64_t)(cbrt(low)^2)` : any natural; `max_threads = (int) pow(..)` : any integer;
                 AC  `thread.secs < increase_threshold` : may or may not hold.
               The executable ACCEPTORS replay a recorded history of the real object (harness/ops_lb.cpp)
               against the step relation: each recorded `get_work` must be an allowed step from the current
               model state. Theorems (PcProofs/Dispenser.lean, PcProps/C09.lean) are about every accepted
               history.
Core Lean only (linked into the driver).
-/
import PcModel.Roots
namespace Pc.LB

abbrev Chunk := Nat × Nat

/-! ## L1 dispenser (DESIGN.md Appendix A.2) -/

structure Disp where
  low   : Nat
  limit : Nat
deriving Repr

/-- one request with chosen step `d`; returns new state and the chunk (if work) -/
def Disp.req (s : Disp) (d : Nat) : Disp × Option Chunk :=
  ({ s with low := s.low + d },
   if s.low < s.limit then some (s.low, min (s.low + d) s.limit) else none)

/-- run a list of requests, collecting the chunks handed out with is_work = true -/
def Disp.run : Disp → List Nat → Disp × List Chunk
  | s, [] => (s, [])
  | s, d :: ds =>
    let r := Disp.run { s with low := s.low + d } ds
    (r.1, match (s.req d).2 with | some c => c :: r.2 | none => r.2)

/-- chunks form a contiguous chain from `a` to `b`, each chunk non-empty -/
def Chain : Nat → Nat → List Chunk → Prop
  | a, b, [] => a = b
  | a, b, (l, h) :: cs => l = a ∧ l < h ∧ Chain h b cs

/-- the step sizes are positive wherever a request is granted -/
def Disp.PosRun : Disp → List Nat → Prop
  | _, [] => True
  | s, d :: ds => (s.low < s.limit → 0 < d) ∧ Disp.PosRun { s with low := s.low + d } ds

/-! ### L1 with workers: events `(w, d)`, accumulated sum, chunk held by each worker -/

structure WEv where
  w : Nat
  d : Nat
deriving Repr

/-- remove the (first) chunk held by worker `w` -/
def takeHeld (w : Nat) : List (Nat × Chunk) → Option Chunk × List (Nat × Chunk)
  | [] => (none, [])
  | (v, c) :: hs =>
    if v = w then (some c, hs) else
    let r := takeHeld w hs
    (r.1, (v, c) :: r.2)

structure WDisp where
  disp : Disp
  sum  : Int
  held : List (Nat × Chunk)

def optVal (f : Chunk → Int) : Option Chunk → Int
  | some c => f c
  | none => 0

/-- worker `w` comes back: the result of the chunk it held is added to the sum (once: the chunk is
    removed from `held`), then it is handed the next chunk with step `d`. -/
def WDisp.step (f : Chunk → Int) (s : WDisp) (e : WEv) : WDisp × Option Chunk :=
  let t := takeHeld e.w s.held
  let r := s.disp.req e.d
  ({ disp := r.1, sum := s.sum + optVal f t.1,
     held := match r.2 with | some c => (e.w, c) :: t.2 | none => t.2 }, r.2)

def WDisp.run (f : Chunk → Int) : WDisp → List WEv → WDisp × List Chunk
  | s, [] => (s, [])
  | s, e :: es =>
    let r := WDisp.run f (s.step f e).1 es
    (r.1, match (s.step f e).2 with | some c => c :: r.2 | none => r.2)

def sumF (f : Chunk → Int) : List Chunk → Int
  | [] => 0
  | c :: cs => f c + sumF f cs

def pendSum (f : Chunk → Int) : List (Nat × Chunk) → Int
  | [] => 0
  | (_, c) :: hs => f c + pendSum f hs

/-! ## generic shape of an acceptor: a transition system observed through recorded events -/

structure Sys (σ ε : Type) where
  limit : Nat
  /-- dispenser position `low_` (possibly already clipped to the limit) -/
  pos   : σ → Nat
  /-- is the recorded event an allowed step from this state -/
  ok    : σ → ε → Bool
  next  : σ → ε → σ
  /-- the recorded answer: `some (low, high clipped to limit)` iff `is_work` -/
  chunk : ε → Option Chunk

namespace Sys
variable {σ ε : Type} (S : Sys σ ε)

def accepts : σ → List ε → Bool
  | _, [] => true
  | s, e :: es => S.ok s e && accepts (S.next s e) es

def final : σ → List ε → σ
  | s, [] => s
  | s, e :: es => final (S.next s e) es

def chunks : List ε → List Chunk
  | [] => []
  | e :: es => match S.chunk e with | some c => c :: chunks es | none => chunks es

/-- index of the first event that is not an allowed step -/
def firstBad : σ → List ε → Nat → Option Nat
  | _, [], _ => none
  | s, e :: es, i => if S.ok s e then firstBad (S.next s e) es (i + 1) else some i

end Sys

/-! ## constants of the C++ sources (values: PcGen/LbConst.lean, generated) -/

structure Consts where
  sieveAlign : Nat      -- Sieve::align_segment_size: 240
  piAlign : Nat         -- SegmentedPiTable::align_segment_size: 240
  l1Cache : Nat         -- L1_CACHE_SIZE
  l2Cache : Nat         -- L2_CACHE_SIZE
  s2NumbersPerByte : Nat -- 30
  s2MinSize : Nat       -- 1 << 9
  s2InitSegs1 : Nat     -- 100 (single thread, no status)
  s2Grow1 : Nat         -- 16
  s2Grow2 : Nat         -- 16
  s2Grow3 : Nat         -- 16
  p2MinDist : Nat       -- 1 << 23
  p2ChunksPerThread : Nat -- 8
  acMinBytes : Nat      -- 1 << 9
  acNumbersPerByte : Nat -- 240 / sizeof(pi_t) = 15
  acThreadsFactor : Nat -- 8
  acIncrease : Nat      -- 2
deriving Repr

/-- `align_segment_size(size)`: `size = max(size, al); if (size % al) size += al - size % al;` -/
def alignTo (al n : Nat) : Nat :=
  let m := max n al
  if m % al = 0 then m else m + (al - m % al)

def two63 : Nat := 9223372036854775808
def two127 : Nat := 170141183460469231731687303715884105728

/-! ## S2 (LoadBalancerS2: S2_hard, D) -/

/-- what a worker's `ThreadData` carries: the values of the last answer it got -/
structure Hand where
  low  : Nat
  segs : Nat
  size : Nat
  work : Bool
deriving Repr, DecidableEq

def getHand (w : Nat) : List (Nat × Hand) → Hand
  | [] => ⟨0, 0, 0, false⟩
  | (v, h) :: hs => if v = w then h else getHand w hs

def setHand (w : Nat) (h : Hand) : List (Nat × Hand) → List (Nat × Hand)
  | [] => [(w, h)]
  | (v, g) :: hs => if v = w then (w, h) :: hs else (v, g) :: setHand w h hs

namespace S2

structure Config where
  limit : Nat
  sqrtLimit : Nat
  threads : Nat
  print : Bool
  l1seg : Nat
  l2seg : Nat
  al : Nat
  g1 : Nat
  g2 : Nat
  g3 : Nat
deriving Repr

structure State where
  low : Nat
  maxLow : Nat
  segs : Nat
  size : Nat
  sum : Int
  hands : List (Nat × Hand)
deriving Repr

/-- one recorded `get_work(thread)`: inputs `t*` (ThreadData before the call; `secs`, `init` are the
    64-bit patterns of the doubles and are never interpreted), outputs `work`, `o*`, `get_sum()` after. -/
structure Ev where
  w : Nat
  tlow : Nat
  tsegs : Nat
  tsize : Nat
  tsum : Int
  secs : Nat
  init : Nat
  work : Bool
  olow : Nat
  osegs : Nat
  osize : Nat
  sumAfter : Int
deriving Repr

def mkConfig (c : Consts) (limit threads : Nat) (print : Bool) : Config :=
  { limit := limit, sqrtLimit := ctSqrt limit, threads := threads, print := print,
    l1seg := c.l1Cache * c.s2NumbersPerByte, l2seg := c.l2Cache * c.s2NumbersPerByte,
    al := c.sieveAlign, g1 := c.s2Grow1, g2 := c.s2Grow2, g3 := c.s2Grow3 }

/-- constructor -/
def init (c : Consts) (x limit threads : Nat) (print : Bool) : State :=
  if threads = 1 ∧ print = false then
    { low := 0, maxLow := 0, segs := c.s2InitSegs1,
      size := alignTo c.sieveAlign (min (c.l1Cache * c.s2NumbersPerByte) limit), sum := 0, hands := [] }
  else
    { low := 0, maxLow := 0, segs := 1,
      size := alignTo c.sieveAlign (max (ctSqrt (ctSqrt x)) c.s2MinSize), sum := 0, hands := [] }

/-- `segment_size_ += segment_size_ / g; segment_size_ = min(segment_size_, cap); align` -/
def growSize (al g cap size : Nat) : Nat := alignTo al (min (size + size / g) cap)

/-- the `sqrt(high)` sizing at the end of `update_load_balancing` -/
def sqrtSize (cfg : Config) (low segs size : Nat) : Nat :=
  if cfg.l2seg ≤ size ∧ size < cfg.sqrtLimit then
    let high := min (low + size * segs * cfg.threads) cfg.limit
    if size < ctSqrt high then
      let sz := size + size / cfg.g3
      let high2 := min (low + sz * segs * cfg.threads) cfg.limit
      alignTo cfg.al (ctSqrt high2)
    else size
  else size

/-- does this call reach `update_number_of_segments` (where the float-derived choice is used) -/
def usesChoice (cfg : Config) (s : State) (sum1 : Int) (tlow : Nat) : Bool :=
  decide (s.maxLow < tlow) && decide (sum1 ≠ 0) && decide (cfg.l1seg ≤ s.size) &&
    !(decide (s.size < cfg.l2seg) && decide (s.size < cfg.sqrtLimit))

/-- `update_load_balancing(thread)`: returns the new `(max_low_, segments_, segment_size_)`;
    `sum1` is `sum_` after `sum_ += thread.sum`, `ch` the value `update_number_of_segments` leaves in `segments_`. -/
def update (cfg : Config) (s : State) (sum1 : Int) (tlow tsegs ch : Nat) : Nat × Nat × Nat :=
  if s.maxLow < tlow then
    if sum1 = 0 then (tlow, tsegs, s.size)
    else if s.size < cfg.l1seg then (tlow, tsegs, growSize cfg.al cfg.g1 cfg.l1seg s.size)
    else if s.size < cfg.l2seg ∧ s.size < cfg.sqrtLimit then (tlow, tsegs, growSize cfg.al cfg.g2 cfg.l2seg s.size)
    else (tlow, ch, sqrtSize cfg s.low ch s.size)
  else (s.maxLow, s.segs, s.size)

def next (cfg : Config) (s : State) (e : Ev) : State :=
  let sum1 := s.sum + e.tsum
  let u := update cfg s sum1 e.tlow e.tsegs e.osegs
  { low := s.low + u.2.2 * u.2.1, maxLow := u.1, segs := u.2.1, size := u.2.2, sum := sum1,
    hands := setHand e.w ⟨s.low, u.2.1, u.2.2, decide (s.low < cfg.limit)⟩ s.hands }

/-- intermediates of the `sqrt(high)` sizing: `low_ + dist` (twice) -/
def sqrtPeak (cfg : Config) (low segs size : Nat) : Nat :=
  if cfg.l2seg ≤ size ∧ size < cfg.sqrtLimit then
    let d1 := low + size * segs * cfg.threads
    if size < ctSqrt (min d1 cfg.limit) then max d1 (low + (size + size / cfg.g3) * segs * cfg.threads) else d1
  else 0

/-- the largest signed 64-bit intermediate value this call computes (exact arithmetic) -/
def peak (cfg : Config) (s : State) (e : Ev) : Nat :=
  let sum1 := s.sum + e.tsum
  let u := update cfg s sum1 e.tlow e.tsegs e.osegs
  let a := s.low + u.2.2 * u.2.1                                       -- low_ += segment_size_ * segments_
  let b :=
    if s.maxLow < e.tlow ∧ sum1 ≠ 0 then
      if s.size < cfg.l1seg then s.size + s.size / cfg.g1
      else if s.size < cfg.l2seg ∧ s.size < cfg.sqrtLimit then s.size + s.size / cfg.g2
      else max e.osegs (sqrtPeak cfg s.low e.osegs s.size)              -- segments_ *= 2 / (int64_t) round(..)
    else 0
  max a b

/-- the ThreadData passed in is what this worker was handed last time (a fresh one is all zero) -/
def handOk (s : State) (e : Ev) : Bool :=
  let h := getHand e.w s.hands
  h.low == e.tlow && h.segs == e.tsegs && h.size == e.tsize

/-- the float-derived choice is one the integer code can produce: `segments_ *= 2`, or
    `max((int64_t) round(..), 1)` -/
def choiceOk (cfg : Config) (s : State) (e : Ev) : Bool :=
  !usesChoice cfg s (s.sum + e.tsum) e.tlow || (e.osegs == 2 * e.tsegs || decide (1 ≤ e.osegs))

def outOk (cfg : Config) (s : State) (e : Ev) : Bool :=
  let n := next cfg s e
  e.olow == s.low && e.osegs == n.segs && e.osize == n.size && e.work == decide (s.low < cfg.limit) &&
    e.sumAfter == n.sum

def noOvf (cfg : Config) (s : State) (e : Ev) : Bool :=
  decide (peak cfg s e < two63) && decide ((s.sum + e.tsum).natAbs < two127)

def ok (cfg : Config) (s : State) (e : Ev) : Bool :=
  handOk s e && choiceOk cfg s e && outOk cfg s e && noOvf cfg s e

def reason (cfg : Config) (s : State) (e : Ev) : String :=
  if !handOk s e then "thread-data-not-what-was-handed-out"
  else if !choiceOk cfg s e then "segments-not-a-possible-update"
  else if !outOk cfg s e then
    let n := next cfg s e
    s!"outputs-differ(model:work={decide (s.low < cfg.limit)},low={s.low},segments={n.segs},segment_size={n.size},sum={n.sum})"
  else "int64-overflow"

def chunkOf (cfg : Config) (e : Ev) : Option Chunk :=
  if e.work then some (e.olow, min (e.olow + e.osize * e.osegs) cfg.limit) else none

def sys (cfg : Config) : Sys State Ev :=
  { limit := cfg.limit, pos := fun s => s.low, ok := ok cfg, next := next cfg, chunk := chunkOf cfg }

end S2

/-! ## P2 (LoadBalancerP2: P2, B) -/
namespace P2

structure Config where
  limit : Nat
  threads : Nat      -- threads_ (the team size the constructor settled on)
  print : Bool
deriving Repr

structure State where
  low : Nat
  minDist : Nat
  dist : Nat
deriving Repr

structure Ev where
  w : Nat
  work : Bool
  low : Nat
  high : Nat
deriving Repr

/-- `threads_` as recorded must be `ideal_num_threads(dist, min(threads, max_threads), min_thread_dist_)`
    for SOME integer `max_threads` (the float `(int) pow(sieve_limit, 1/3.7)`); it suffices to try
    `max_threads = recorded`. -/
def teamOk (c : Consts) (x limit threads team : Nat) : Bool :=
  let low := min (ctSqrt x) limit
  idealNumThreads ((limit - low : Nat) : Int) (min (threads : Int) (team : Int)) (c.p2MinDist : Int) == (team : Int)

def init (c : Consts) (x limit team : Nat) : State :=
  let low := min (ctSqrt x) limit
  let d := limit - low
  { low := low, minDist := c.p2MinDist, dist := max c.p2MinDist (d / (team * c.p2ChunksPerThread)) }

/-- `get_work` with the float-derived `low23` -/
def next (cfg : Config) (s : State) (low23 : Nat) : State :=
  let low0 := min s.low cfg.limit
  let rem := cfg.limit - low0
  if cfg.threads = 1 then
    let td := if cfg.print = false then rem else s.dist
    { low := min (low0 + td) cfg.limit, minDist := s.minDist, dist := td }
  else
    let md := max s.minDist low23
    let td := max md s.dist
    let mx := rem / cfg.threads
    let td2 := if mx < td then max md mx else td
    { low := min (low0 + td2) cfg.limit, minDist := md, dist := td2 }

def outOk (cfg : Config) (s : State) (e : Ev) (low23 : Nat) : Bool :=
  let low0 := min s.low cfg.limit
  e.low == low0 && e.high == (next cfg s low23).low && e.work == decide (low0 < cfg.limit)

/-- the acceptor's witness for the hidden choice: `0` if that explains the answer, else `high - low` -/
def choose (cfg : Config) (s : State) (e : Ev) : Nat :=
  if outOk cfg s e 0 then 0 else e.high - e.low

def peak (cfg : Config) (s : State) (low23 : Nat) : Nat :=
  let low0 := min s.low cfg.limit
  max (low0 + (next cfg s low23).dist) (max low23 cfg.limit)

def ok (cfg : Config) (s : State) (e : Ev) : Bool :=
  outOk cfg s e (choose cfg s e) && decide (peak cfg s (choose cfg s e) < two63)

def reason (cfg : Config) (s : State) (e : Ev) : String :=
  if !outOk cfg s e (choose cfg s e) then
    let n := next cfg s 0
    s!"outputs-differ(model-with-low23=0:low={min s.low cfg.limit},high={n.low})"
  else "int64-overflow"

def chunkOf (e : Ev) : Option Chunk := if e.work then some (e.low, e.high) else none

def sys (cfg : Config) : Sys State Ev :=
  { limit := cfg.limit, pos := fun s => s.low, ok := ok cfg,
    next := fun s e => next cfg s (choose cfg s e), chunk := chunkOf }

end P2

/-! ## AC (LoadBalancerAC) -/
namespace AC

structure Config where
  sqrtx : Nat
  y : Nat
  threads : Nat
  print : Bool
  maxSize : Nat
  al : Nat
  tf : Nat
  incr : Nat
deriving Repr

structure State where
  low : Nat
  segs : Nat
  size : Nat
  nr : Nat
deriving Repr

structure Ev where
  w : Nat
  tlow : Nat
  tsegs : Nat
  tsize : Nat
  secs : Nat
  work : Bool
  olow : Nat
  osegs : Nat
  osize : Nat
deriving Repr

def initSize (c : Consts) (sqrtx threads : Nat) (print : Bool) : Nat :=
  let x14 := ctSqrt sqrtx
  let l1seg := c.l1Cache * c.acNumbersPerByte
  let sz := if threads = 1 ∧ print = false then max x14 l1seg else x14
  alignTo c.piAlign (max (c.acMinBytes * c.acNumbersPerByte) sz)

def mkConfig (c : Consts) (sqrtx y threads : Nat) (print : Bool) : Config :=
  { sqrtx := sqrtx, y := y, threads := threads, print := print,
    maxSize := alignTo c.piAlign (max (c.l1Cache * c.acNumbersPerByte) (initSize c sqrtx threads print)),
    al := c.piAlign, tf := c.acThreadsFactor, incr := c.acIncrease }

def init (c : Consts) (sqrtx threads : Nat) (print : Bool) : State :=
  let x14 := ctSqrt sqrtx
  let l1seg := c.l1Cache * c.acNumbersPerByte
  { low := 0, nr := 0, size := initSize c sqrtx threads print,
    segs := if threads = 1 ∧ print = false then ceilDiv sqrtx (max x14 l1seg) else 1 }

/-- the integer part of the condition for doubling -/
def guard (cfg : Config) (s : State) (e : Ev) : Bool :=
  decide (cfg.y < s.low) && e.tsegs == s.segs && e.tsize == s.size &&
    decide (s.size * s.segs * (cfg.threads * cfg.tf) < cfg.sqrtx - s.low)

def grow (cfg : Config) (s : State) : State :=
  if cfg.maxSize ≤ s.size then { s with segs := s.segs * cfg.incr }
  else { s with size := alignTo cfg.al (min (s.size * cfg.incr) cfg.maxSize) }

/-- state after the (possible) doubling; `fire` is the float comparison `thread.secs < increase_threshold` -/
def tuned (cfg : Config) (s : State) (e : Ev) (fire : Bool) : State :=
  if guard cfg s e && fire then grow cfg s else s

def next (cfg : Config) (s : State) (e : Ev) (fire : Bool) : State :=
  if cfg.sqrtx ≤ s.low then s else
  let t := tuned cfg s e fire
  { t with low := min (t.low + t.size * t.segs) cfg.sqrtx, nr := t.nr + 1 }

def outOk (cfg : Config) (s : State) (e : Ev) (fire : Bool) : Bool :=
  if cfg.sqrtx ≤ s.low then
    e.work == false && e.olow == e.tlow && e.osegs == e.tsegs && e.osize == e.tsize
  else
    let t := tuned cfg s e fire
    e.work == true && e.olow == s.low && e.osegs == t.segs && e.osize == t.size

def choose (cfg : Config) (s : State) (e : Ev) : Bool := !outOk cfg s e false

def peak (cfg : Config) (s : State) (e : Ev) (fire : Bool) : Nat :=
  if cfg.sqrtx ≤ s.low then 0 else
  let t := tuned cfg s e fire
  let a := t.low + t.size * t.segs
  -- `segment_size_ * segments_ * (threads_ * 8)` is evaluated when the conjuncts before it hold
  let b := if cfg.y < s.low ∧ e.tsegs = s.segs ∧ e.tsize = s.size then s.size * s.segs * (cfg.threads * cfg.tf) else 0
  let c := if guard cfg s e && fire then max (s.segs * cfg.incr) (s.size * cfg.incr) else 0
  max a (max b c)

def ok (cfg : Config) (s : State) (e : Ev) : Bool :=
  outOk cfg s e (choose cfg s e) && decide (peak cfg s e (choose cfg s e) < two63)

def reason (cfg : Config) (s : State) (e : Ev) : String :=
  if !outOk cfg s e (choose cfg s e) then
    s!"outputs-differ(model-without-doubling:work={decide (s.low < cfg.sqrtx)},low={s.low},segments={s.segs},segment_size={s.size})"
  else "int64-overflow"

def chunkOf (cfg : Config) (e : Ev) : Option Chunk :=
  if e.work then some (e.olow, min (e.olow + e.osize * e.osegs) cfg.sqrtx) else none

def sys (cfg : Config) : Sys State Ev :=
  { limit := cfg.sqrtx, pos := fun s => s.low, ok := ok cfg,
    next := fun s e => next cfg s e (choose cfg s e), chunk := chunkOf cfg }

end AC

/-! ## atomic fetch-add loop (`min_c1++`, `min_b++`): `for (i = counter++; i <= hi; i = counter++)` -/

/-- every draw is one `counter++` by the named worker; returns the final counter and who got which index
    (`(worker, index)` for the draws that returned an index `≤ hi`, i.e. loop bodies executed) -/
def fetchAddRun (hi : Nat) : Nat → List Nat → Nat × List (Nat × Nat)
  | c, [] => (c, [])
  | c, w :: ws =>
    let r := fetchAddRun hi (c + 1) ws
    (r.1, if c ≤ hi then (w, c) :: r.2 else r.2)

end Pc.LB
