/-
C03 / C08 / C02 (WP p2b): the REAL loop structure of `P2(x, y)` and `B(x, y)`.

Modelled C++ (pinned tree):
  /repo/src/P2.cpp:39-82        `P2_thread(x, y, low, high)`      -> `p2Thread`
  /repo/src/P2.cpp:90-125       `P2_OpenMP(x, y, a, threads, …)`  -> `p2OpenMP`
  /repo/src/gourdon/B.cpp:38-81 `B_thread`  (textually `P2_thread`, `T` unsigned)  -> `bThread`
  /repo/src/gourdon/B.cpp:88-110 `B_OpenMP` -> `bOpenMP`
  /repo/src/pi_legendre.cpp:35-61, /repo/src/pi_meissel.cpp:42-71  -> `piLegendre`, `piMeissel`
  the dispenser /repo/src/LoadBalancerP2.cpp is `Pc.LB.P2` (PcModel/Dispenser.lean).

What is abstract:
  * `primesieve::iterator` is an `Iter`: `prev n` = what `prev_prime()` returns when the primes still to come are
    those `≤ n`, `next n` = the buffer `primes_[0 .. size_)` that `generate_next_primes()` leaves when the primes
    still to come are those `≥ n`. Batches have ARBITRARY sizes (`next` is any function satisfying the contract
    `IterSpec`, PcProofs/P2Loop.lean). The buffer-level reads of P2.cpp:73-76 are kept literally:
    `primes_[size_-1] <= xp`, `pi_xp += size_ - i_`, `primes_[i_] <= xp`, `i_++`.
  * `pi_noprint` is a parameter `pi : Nat → Nat` (it is only called below `x`).
  * the parallel region is a `Run`: the recorded `get_work` history of the real dispenser (any team, any order,
    any clock), and the order in which the team's private sums are reduced.
What the real code would turn into undefined behaviour / an `ASSERT` failure is an explicit `Err`.
Core Lean only (linked into the driver).
-/
import PcModel.Dispenser
import PcModel.Formulas
namespace Pc.P2L
open Pc.LB

inductive Err where
  /-- `ASSERT(low > 0)` (P2.cpp:44; without ENABLE_ASSERT: `x / low` divides by zero) -/
  | assertLow
  /-- `ASSERT(low < high)` (P2.cpp:45) -/
  | assertOrder
  /-- `ASSERT(a == pi_noprint(y, threads))` (P2.cpp:96) -/
  | assertA
  /-- a read `primes_[k]` with `k ≥ size_` -/
  | oob
  /-- a loop of the C++ that would not terminate (fuel of the model exhausted) -/
  | hang
  /-- `(int64_t)(x / max(y, 1))` does not fit into `int64_t` -/
  | narrow
  /-- the recorded history is not a complete run of the dispenser / the reduction order is not the team -/
  | badRun
deriving Repr, DecidableEq

/-- the two uses of `primesieve::iterator` in P2.cpp / B.cpp -/
structure Iter where
  /-- `it.prev_prime()` when every prime `> n` was already returned (or lies above the start): the largest
      prime `≤ n`, `0` when there is none -/
  prev : Nat → Nat
  /-- `it.generate_next_primes()` when the primes `< n` are used up: the new `primes_[0 .. size_)` -/
  next : Nat → List Nat

/-- the public fields of the forward iterator `it2` that P2.cpp reads and writes: `primes_[0 .. size_)`, `i_` -/
structure Fwd where
  buf : List Nat
  i : Nat
deriving Repr

/-- P2.cpp:73-74   `for (; it2.primes_[it2.size_ - 1] <= xp; it2.generate_next_primes()) pi_xp += it2.size_ - it2.i_;` -/
def loop1 (it : Iter) (xp : Nat) : Nat → Fwd → Nat → Except Err (Fwd × Nat)
  | 0, _, _ => .error .hang
  | fuel + 1, s, c =>
    match s.buf.getLast? with
    | none => .error .oob
    | some last =>
      if last ≤ xp then loop1 it xp fuel ⟨it.next (last + 1), 0⟩ (c + (s.buf.length - s.i))
      else .ok (s, c)

/-- P2.cpp:75-76   `for (; it2.primes_[it2.i_] <= xp; it2.i_++) pi_xp += 1;` -/
def loop2 (xp : Nat) : Nat → Fwd → Nat → Except Err (Fwd × Nat)
  | 0, _, _ => .error .hang
  | fuel + 1, s, c =>
    match s.buf[s.i]? with
    | none => .error .oob
    | some q =>
      if q ≤ xp then loop2 xp fuel ⟨s.buf, s.i + 1⟩ (c + 1)
      else .ok (s, c)

/-- P2.cpp:69-79   `for (; prime > start; prime = it1.prev_prime()) { xp = x / prime; …; sum += pi_xp; }`
    (`it1` has returned every prime `≥ prime`: the next `prev_prime()` is `it.prev (prime - 1)`) -/
def outer (it : Iter) (x start : Nat) : Nat → Nat → Fwd → Nat → Nat → Except Err Nat
  | 0, _, _, _, _ => .error .hang
  | fuel + 1, prime, s, piXp, sum =>
    if start < prime then
      let xp := x / prime
      match loop1 it xp (xp + 2) s piXp with
      | .error e => .error e
      | .ok (s1, c1) =>
        match loop2 xp (s1.buf.length + 1) s1 c1 with
        | .error e => .error e
        | .ok (s2, c2) => outer it x start fuel (it.prev (prime - 1)) s2 c2 (sum + c2)
    else .ok sum

/-- `start = max(y, min(x / high, sqrtx))` (P2.cpp:47) -/
def thrStart (x y high : Nat) : Nat := max y (min (x / high) (isqrtN x))
/-- `stop = min(x / low, sqrtx)` (P2.cpp:48) -/
def thrStop (x low : Nat) : Nat := min (x / low) (isqrtN x)

/-- `P2_thread(x, y, low, high)` (P2.cpp:39-82) -/
def p2Thread (it : Iter) (pi : Nat → Nat) (x y low high : Nat) : Except Err Nat :=
  if low = 0 then .error .assertLow else
  if ¬ low < high then .error .assertOrder else
  let start := thrStart x y high
  let stop := thrStop x low
  -- primesieve::iterator it1(stop, start); prime = it1.prev_prime();
  let prime := it.prev stop
  if prime ≤ start then .ok 0 else
  let xp := x / prime
  let piXp := pi xp                        -- pi_noprint(xp, 1)
  let prime2 := it.prev (prime - 1)        -- prime = it1.prev_prime();
  -- primesieve::iterator it2(xp + 1, high); it2.generate_next_primes();
  outer it x start (stop + 1) prime2 ⟨it.next (xp + 1), 0⟩ piXp piXp

/-- `B_thread(x, y, low, high)` (B.cpp:38-81): the same text with `T` unsigned -/
def bThread (it : Iter) (pi : Nat → Nat) (x y low high : Nat) : Except Err Nat :=
  p2Thread it pi x y low high

/-! ## the parallel region -/

/-- one execution of `#pragma omp parallel … reduction(+: sum) { while (get_work(low, high)) sum += thread(…); }` -/
structure Run where
  /-- `threads_` the dispenser's constructor settled on (enters `get_work`'s arithmetic) -/
  team : Nat
  print : Bool
  /-- the recorded `get_work` calls in lock order; `w` = the OpenMP thread that made the call -/
  es : List P2.Ev
  /-- the order in which the threads' private `sum`s are added at the end of the region -/
  order : List Nat
deriving Repr

/-- the history is a complete run of the real dispenser started by `LoadBalancerP2(x, limit, …)` and every
    thread that got work takes part in the reduction exactly once -/
def Run.valid (c : Consts) (x limit : Nat) (r : Run) : Bool :=
  (P2.sys ⟨limit, r.team, r.print⟩).accepts (P2.init c x limit r.team) r.es &&
  decide (limit ≤ ((P2.sys ⟨limit, r.team, r.print⟩).final (P2.init c x limit r.team) r.es).low) &&
  decide r.order.Nodup &&
  r.es.all (fun e => !e.work || r.order.contains e.w)

/-- private `sum` of OpenMP thread `w` when it leaves its `while` loop -/
def privSum (f : Nat → Nat → Except Err Nat) (w : Nat) : List P2.Ev → Except Err Nat
  | [] => .ok 0
  | e :: es =>
    if e.work && e.w == w then
      match f e.low e.high with
      | .error err => .error err
      | .ok v => match privSum f w es with
        | .error err => .error err
        | .ok s => .ok (v + s)
    else privSum f w es

/-- `reduction(+: sum)`: the private sums are added to the value `sum` had before the region -/
def reduce (f : Nat → Nat → Except Err Nat) (es : List P2.Ev) (init : Int) : List Nat → Except Err Int
  | [] => .ok init
  | w :: ws =>
    match privSum f w es with
    | .error err => .error err
    | .ok s => reduce f es (init + (s : Int)) ws

/-- `sum = (a - 2) * (a + 1) / 2 - (b - 2) * (b + 1) / 2` (P2.cpp:109; C++ `/` truncates towards zero) -/
def p2Init (a b : Nat) : Int :=
  Int.tdiv (((a : Int) - 2) * ((a : Int) + 1)) 2 - Int.tdiv (((b : Int) - 2) * ((b : Int) + 1)) 2

/-- `P2_OpenMP(x, y, a, threads, is_print)` (P2.cpp:90-125) for one execution `r` of the parallel region -/
def p2OpenMP (c : Consts) (it : Iter) (pi : Nat → Nat) (x y a : Nat) (r : Run) : Except Err Int :=
  if a ≠ pi y then .error .assertA else
  if x < 4 then .ok 0 else
  let sqrtx := isqrtN x
  if sqrtx ≤ y then .ok 0 else
  let b := pi sqrtx
  let sum0 := p2Init a b
  let xy := x / max y 1
  if two63 ≤ xy then .error .narrow else
  if !r.valid c x xy then .error .badRun else
  reduce (p2Thread it pi x y) r.es sum0 r.order

/-- `B_OpenMP(x, y, threads, is_print)` (B.cpp:88-110) -/
def bOpenMP (c : Consts) (it : Iter) (pi : Nat → Nat) (x y : Nat) (r : Run) : Except Err Int :=
  if x < 4 then .ok 0 else
  let xy := x / max y 1
  if two63 ≤ xy then .error .narrow else
  if !r.valid c x xy then .error .badRun else
  reduce (bThread it pi x y) r.es 0 r.order

/-! ## glue: pi_legendre, pi_meissel -/

/-- `pi_legendre(x)` (pi_legendre.cpp:35-61) over a given `phi` -/
def piLegendre (phi : Nat → Nat → Nat) (pi : Nat → Nat) (x : Nat) : Int :=
  if x < 2 then 0 else
  let y := isqrtN x
  let a := pi y
  (phi x a : Int) + a - 1

/-- `pi_meissel(x)` (pi_meissel.cpp:42-71) over a given `phi`, with `P2` = `p2OpenMP` on the run `r` -/
def piMeissel (c : Consts) (it : Iter) (phi : Nat → Nat → Nat) (pi : Nat → Nat) (x : Nat) (r : Run) : Except Err Int :=
  if x < 2 then .ok 0 else
  let y := irootN 3 x
  let a := pi y
  match p2OpenMP c it pi x y a r with
  | .error e => .error e
  | .ok p2 => .ok ((phi x a : Int) + a - 1 - p2)

/-! ## the executable instance over the oracle prime table -/

/-- batch size the model's iterator uses at position `n` (any positive choice is a legal behaviour; the seed
    makes different runs exercise different splits, including single-prime batches) -/
def batchSize (seed n : Nat) : Nat :=
  let h := (n * 2654435761 + seed * 40503 + 12345) % 65536
  if h % 16 = 0 then 1 + h / 16 % 200 else 1 + h % 7

/-- iterator over the prime table `t`; a request that reaches beyond the table yields an EMPTY batch (then the
    model stops with `oob`, it can never look right) -/
def tableIter (t : NT) (seed : Nat) : Iter where
  prev n := if n ≤ t.bound then t.p (t.piOf n) else 0
  next n :=
    let k := if n = 0 then 0 else t.piOf (n - 1)
    let avail := t.primes.size - 1 - k
    (List.range (min (batchSize seed n) avail)).map fun j => t.p (k + 1 + j)

/-- table size sufficient for `p2Thread x y low high` with `tableIter` (every position the forward iterator
    reaches is `≤ x / (start + 1) + 1` and the table must hold one prime beyond it — Bertrand, resp. the known
    maximal gaps; `tableIter` shortens a batch that would leave the table, and a table without any further prime
    makes the model stop with `oob`, never answer) -/
def threadBound (x y low high : Nat) : Nat :=
  let start := thrStart x y high
  let top := max (x / (start + 1)) (max (isqrtN x) (min (x / max low 1) high))
  min (2 * top + 8) (top + top / 16 + 6000)

/-- the defining sum the chunk must produce (index lemma form):
    Σ π(x / q) over the primes `y < q ≤ √x` with `low ≤ x / q < high` -/
def chunkSum (t : NT) (x y low high : Nat) : Nat :=
  ((t.primesIn y (isqrtN x)).filter (fun q => decide (low ≤ x / q) && decide (x / q < high))).foldl
    (fun acc q => acc + t.piOf (x / q)) 0

end Pc.P2L
