/-
C10 — what the model of the OpenMP regions (PcModel/HB.lean, PcProofs/HB.lean) was written against.
NOT generated.  `PcGen/OmpObl.lean` (generated on every run from /repo) proves by `decide` that the
current sources still have exactly these regions, this LockGuard / RelaxedAtomic and these bodies of
the functions whose index arithmetic the disjoint-range theorems model.  When /repo changes
legitimately, re-read the changed code, adapt the model if needed, and update this file.
-/
import PcModel.HB
namespace Pc.HB

/-- (file, function, directive, schema, clause names ++ nested directives) of every region, in file order -/
def expectedRegions : List (String × String × String × Schema × List String) := [
  ("include/FactorTable.hpp", "FactorTable::FactorTable", "parallel for", .disj, ["num_threads"]),
  ("include/FactorTableD.hpp", "FactorTableD::FactorTableD", "parallel for", .disj, ["num_threads"]),
  ("src/P2.cpp", "P2_OpenMP", "parallel", .disp, ["num_threads", "reduction"]),
  ("src/P3.cpp", "P3", "parallel for", .red, ["schedule", "num_threads", "reduction"]),
  ("src/PiTable.cpp", "PiTable::init", "parallel", .twoPhase, ["num_threads", "/for", "/for"]),
  ("src/S1.cpp", "S1_OpenMP", "parallel for", .red, ["schedule", "num_threads", "reduction"]),
  ("src/deleglise-rivat/S2_easy.cpp", "S2_easy_OpenMP", "parallel", .atom, ["num_threads", "reduction", "/master"]),
  ("src/deleglise-rivat/S2_easy_libdivide.cpp", "S2_easy_OpenMP", "parallel", .atom, ["num_threads", "reduction", "/master"]),
  ("src/deleglise-rivat/S2_hard.cpp", "S2_hard_OpenMP", "parallel", .disp, ["num_threads"]),
  ("src/deleglise-rivat/S2_hard_multiarch_avx512.cpp", "S2_hard_OpenMP", "parallel", .disp, ["num_threads"]),
  ("src/gourdon/AC.cpp", "AC_OpenMP", "parallel", .atomDisp, ["num_threads", "reduction"]),
  ("src/gourdon/AC_libdivide.cpp", "AC_OpenMP", "parallel", .atomDisp, ["num_threads", "reduction"]),
  ("src/gourdon/B.cpp", "B_OpenMP", "parallel", .disp, ["num_threads", "reduction"]),
  ("src/gourdon/D.cpp", "D_OpenMP", "parallel", .disp, ["num_threads"]),
  ("src/gourdon/D_multiarch_avx512.cpp", "D_OpenMP", "parallel", .disp, ["num_threads"]),
  ("src/gourdon/Phi0.cpp", "Phi0_OpenMP", "parallel for", .red, ["schedule", "num_threads", "reduction"]),
  ("src/lmo/pi_lmo_parallel.cpp", "S2", "parallel", .disp, ["num_threads"]),
  ("src/phi.cpp", "phi_OpenMP", "parallel", .red, ["num_threads", "reduction", "/for"])]

/-- regions in files for another CPU architecture (not parsed here; token-identical to the sibling) -/
def expectedAliasRegions : List (String × String × String) := [
  ("src/deleglise-rivat/S2_hard_multiarch_arm_sve.cpp", "S2_hard_OpenMP", "src/deleglise-rivat/S2_hard_multiarch_avx512.cpp"),
  ("src/gourdon/D_multiarch_arm_sve.cpp", "D_OpenMP", "src/gourdon/D_multiarch_avx512.cpp")]

/-- 18 regions + 3 nested `omp for` + 2 nested `omp master` + 2 alias regions -/
def expectedPragmaSites : Nat := 25

/-- (class, where the constructor's `lock_.init(e)` takes `e` from): constructor parameter number, or the
    field that `get_threads()` returns -/
def expectedLockClasses : List (String × String) :=
  [("LoadBalancerAC", "param:2"), ("LoadBalancerP2", "field:threads_"), ("LoadBalancerS2", "param:3")]

/-- include/OmpLock.hpp: `lockGuardLocks` models exactly this test (`lock.threads_ > 1`) -/
def expectedLockGuardCtor : String :=
  "ASSERT ( lock . is_initialized ( ) ) ; if ( lock . threads_ > 1 ) { lock_ = & lock . lock_ ; omp_set_lock ( lock_ ) ; }"
def expectedLockGuardDtor : String := "if ( lock_ ) omp_unset_lock ( lock_ ) ;"
def expectedOmpLockInit : String :=
  "ASSERT ( ! is_initialized ( ) ) ; ASSERT ( threads > 0 ) ; threads_ = threads ; if ( threads_ > 1 ) omp_init_lock ( & lock_ ) ;"

/-- include/RelaxedAtomic.hpp: `operator++(int)` is one atomic RMW (`Kind.rmw`), relaxed (`rmwSync = false`) -/
def expectedRelaxedAtomicInc : String := "return atomic_ . fetch_add ( 1 , std :: memory_order_relaxed ) ;"
def expectedRelaxedAtomicField : String := "std::atomic<T>atomic_;"

/-- sha256[0:16] of the token text (comments and layout removed, locals renamed) of the functions from
    which `piLow/piHigh/piWordLo/piWordHi` and `ftLow/ftHigh/toIndex` were read:
    * PiTable::init (PiTable.cpp:122-160): `thread_dist += 240 - thread_dist % 240`; both loops
      `for (int t = 0; t < threads; t++)`: `low = cache_limit + thread_dist * t`, `high = min(low + thread_dist, limit)`,
      `if (low < high) init_bits/init_count(low, high, t)`; `cache_limit = pi_cache_.size() * 240`.
    * init_bits: writes `pi_[i]` for `low/240 ≤ i < ceil_div(high,240)` (fill_n) and `pi_[prime/240]` for
      `max(low,7) ≤ prime < high`, then `counts_[thread_num]`.
    * init_count: reads `counts_[0..thread_num)`, reads and writes `pi_[i]` for `low/240 ≤ i < ceil_div(high,240)`.
    * FactorTable / FactorTableD constructors: `thread_distance += coprime_indexes_.size() - thread_distance % coprime_indexes_.size()`;
      iteration `t`: `low = max(first_coprime(), thread_distance*t + 1)`, `high = min(thread_distance*t + thread_distance, y)`;
      writes `factor_[to_index(m)]` only for `low ≤ m ≤ high` (fill_n over `[to_index(low), to_index(high)]`,
      multiples `≥ low` and `≤ high`).  (FactorTable re-read after the F3 repair of 2026-09-29, which moved the
      fill_n into its own `if (low <= high)`: same ranges.) -/
def expectedPinnedBodies : List (String × String) := [
  ("PiTable::init", "e474fbb9bd282b03"), ("PiTable::init_bits", "f1566ce119f5ab71"),
  ("PiTable::init_count", "9e224d37ff0338d0"), ("FactorTable::FactorTable", "106dbcb936e98e25"),
  ("FactorTableD::FactorTableD", "53ba4cdc0b6f8dc4")]

end Pc.HB
